/-
  C14 — Property registry: sharing by name, visibility, persistence and lifetime safety.

  Property theorems only.  Models: `OVM/Registry/Tracker.lean` (pointer protocol of
  detail/Tracking.hh), `OVM/Registry/{Registry,World}.lean` (registry state machine mirroring
  ResourceManager*.{hh,cc}, PropertyStorageBase.hh after the `fix:` commits a0b1b3d, 5796dc6,
  02a7a45, 445be8b).  Lemmas: `OVM/Registry/{TrackerProofs,RegistryProofs,OpProofs,WorldProofs,
  SpecProofs}.lean`.  The tie to the C++ is the differential run of `harness/prop_drv.cc` judged
  by `OVM/Registry/Driver.lean` (tools/registry_check.py).
-/
import OVM.Registry.TrackerProofs
import OVM.Registry.SpecProofs
namespace OVM.Props.C14
open OVM.Registry
open OVM.Registry.Tracking

/-! ## 1. Lifetime safety of the tracker / tracked back-pointer protocol -/

/-- For every sequence of constructions, copies, moves, assignments, `set_tracker` calls and
    destructions of trackers and tracked objects, in any order, starting from nothing: both
    sides agree, every stored pointer targets a live object (`PInv`), and no operation ever
    dereferenced a pointer to a dead object (`fault = false`). -/
theorem tracker_protocol_safe (ops : List POp) :
    PInv (prun PState.init ops) ∧ (prun PState.init ops).fault = false :=
  prun_good ops PState.init good_init

/-- `tracked.tracker = some t ↔ tracked ∈ t.set` for live objects in every reachable state -/
theorem tracker_iff_member (ops : List POp) (x t : Nat)
    (hx : ((prun PState.init ops).td x).alive = true) (ht : ((prun PState.init ops).tr t).alive = true) :
    ((prun PState.init ops).td x).tracker = some t ↔ x ∈ ((prun PState.init ops).tr t).set :=
  (tracker_protocol_safe ops).1.iff x t hx ht

/-- non-vacuity: a mesh tracker, two storages, a clone (copy + detach + attach elsewhere), the
    first mesh dies while its storages live on, a move, then everything is destroyed -/
example :
    let ops := [POp.newTracker, .newTracked (some 0), .newTracked (some 0), .newTracker,
                .copyTracked 1, .setTracker 2 none, .setTracker 2 (some 1),
                .destroyTracker 0, .destroyTracked 1, .moveTracked 2, .destroyTracker 1, .destroyTracked 3]
    let s := prun PState.init ops
    s.fault = false ∧ (s.td 2).tracker = none ∧ (s.td 2).alive = true ∧ (s.td 0).alive = true ∧
      (s.td 1).alive = false ∧ (s.td 3).alive = false ∧ (s.tr 1).alive = false := by
  decide

/-- the ghost flag is live: the same transition function does fault from a state violating the
    invariant (a tracked object whose tracker is already dead) -/
example :
    let s : PState := { PState.init with td := upd PState.init.td 0 { alive := true, tracker := some 7 }, nTd := 1 }
    (pstep s (.destroyTracked 0)).fault = true := by
  decide

/-! ## 2. The registry invariants hold in every reachable state -/

/-- Every state reachable from the empty world by ANY sequence of
    request / create_shared / create_persistent / create_private / get_property / property_exists /
    set_shared / set_persistent / set_name calls, property writes, handle copies, moves and drops,
    clear_props / clear_all_props / clear(), topology changes, mesh construction, copy construction,
    assignment (incl. self and cross-kind) and destruction with handles outstanding
    satisfies `Inv` (throwing calls leave the state as it is, see `run`). -/
theorem registry_invariants (ops : List Op) : Inv (run {} ops) :=
  run_inv ops inv_empty

/-- persistent ⟹ shared ⟹ named, and a shared name is unique per (mesh, entity kind, value type) -/
theorem persistent_shared_named_unique (ops : List Op) :
    let w := run {} ops
    (∀ s ∈ w.heap, s.pers = true → s.shared = true) ∧
    (∀ s ∈ w.heap, s.shared = true → s.name ≠ "") ∧
    (∀ s ∈ w.heap, ∀ t ∈ w.heap, s.shared = true → t.shared = true → s.tracker.isSome = true →
        s.tracker = t.tracker → s.kind = t.kind → s.ty = t.ty → s.name = t.name → s.id = t.id) :=
  let h := (registry_invariants ops).x
  ⟨h.persShared, h.sharedNamed, h.unique⟩

/-- a storage exists ⇔ a handle refers to it (user handle or the mesh's own position handle) or it
    is persistent on a live mesh -/
theorem exists_iff_referenced (ops : List Op) (i : Nat) :
    let w := run {} ops
    (∃ s ∈ w.heap, s.id = i) ↔
      (∃ h ∈ w.handles, h.2 = i) ∨ (∃ me ∈ w.meshes, me.pos = i) ∨
      (∃ s ∈ w.heap, s.id = i ∧ s.pers = true ∧ ∃ me ∈ w.meshes, s.tracker = some me.id) :=
  OVM.Registry.exists_iff_referenced (registry_invariants ops) i

/-- `n_props<k>()` counts the distinct storages of kind `k` attached to the mesh;
    `n_persistent_props<k>()` counts those of them flagged persistent -/
theorem counts_reflect_registry (ops : List Op) (k : Kind) :
    let w := run {} ops
    (∀ m, nProps w m k = ((tracked w m k).map (·.id)).length ∧ ((tracked w m k).map (·.id)).Nodup ∧
        ∀ s, s ∈ tracked w m k ↔ s ∈ w.heap ∧ s.tracker = some m ∧ s.kind = k) ∧
    (∀ me ∈ w.meshes, nPers w me.id k =
        (w.heap.filter (fun s => s.pers && s.tracker == some me.id && s.kind == k)).length) :=
  ⟨fun m => nProps_distinct (registry_invariants ops) m k,
   fun _ hme => nPers_eq_count (registry_invariants ops) hme k⟩

/-- no unchecked access ever happens (`position_[vh] = p`, the `std::copy` of the positions) -/
theorem no_unchecked_access (ops : List Op) : (run {} ops).fault = false :=
  (registry_invariants ops).x.noFault

/-! ## 3. request / create / get, visibility -/

/-- `request_property` returns the live shared storage of that (kind, type, name) — the very same
    storage, nothing else changes — and otherwise creates a fresh one (shared iff named) -/
theorem request_returns_existing_or_creates {w : World} (hi : Inv w) {m h : Nat} {me : Mesh} {k : Kind} {ty : Ty}
    {name : String} {d : Int} (hm : getM w m = some me) (hf : freeSlot w h = true) :
    (∀ sid, find w m k ty name = some sid →
        step w (.request m h k ty name d) = .ok (addHandle w h sid, .ok) ∧
        ∃ s ∈ w.heap, s.id = sid ∧ s.tracker = some m ∧ s.kind = k ∧ s.shared = true ∧ s.name = name ∧ s.ty = ty) ∧
    (find w m k ty name = none →
        step w (.request m h k ty name d) = .ok (createRaw w me h k ty name d (name != ""), .ok) ∧
        getS w w.next = none) := by
  refine ⟨fun sid hfind => ⟨request_step_existing hi (by simp [hm]) hf hfind, (find_some hfind).2⟩,
          fun hfind => ⟨request_step_creates hi hm hf hfind, ?_⟩⟩
  cases hg : getS w w.next with
  | none => rfl
  | some s =>
    have := hi.x.idsLt s (getS_some hg).1
    rw [(getS_some hg).2] at this
    exact absurd this (Nat.lt_irrefl _)

/-- and the lookup is complete: the shared storage with that key IS found -/
theorem lookup_complete {w : World} (hi : Inv w) {m : Nat} {s : Storage} (hs : s ∈ w.heap) (ht : s.tracker = some m)
    (hsh : s.shared = true) : find w m s.kind s.ty s.name = some s.id :=
  find_unique hi hs ht rfl hsh rfl rfl

/-- `create_shared_property` / `create_persistent_property` refuse a duplicate: empty optional and
    the state is unchanged -/
theorem create_refuses_duplicates {w : World} (hi : Inv w) {m h : Nat} {k : Kind} {ty : Ty} {name : String} {d : Int}
    {sid : Nat} (hm : (getM w m).isSome = true) (hf : freeSlot w h = true) (hn : name ≠ "")
    (hfind : find w m k ty name = some sid) :
    step w (.createShared m h k ty name d) = .ok (w, .none) ∧
    step w (.createPersistent m h k ty name d) = .ok (w, .none) :=
  create_step_refuses hi hm hf hn hfind

/-- a private (or anonymised) storage is never found by name, whatever is asked for -/
theorem private_never_found {w : World} (hi : Inv w) {s : Storage} (hs : s ∈ w.heap) (hp : s.shared = false)
    (m : Nat) (k : Kind) (ty : Ty) (name : String) : find w m k ty name ≠ some s.id :=
  private_not_found hi hs hp m k ty name

/-! ## 4. Transitions that would break the invariant throw and change nothing -/

/-- a throwing call leaves the state unchanged -/
theorem throwing_changes_nothing {w : World} {op : Op} {e : Err} (h : step w op = .error e) : next w op = w :=
  error_unchanged h

/-- the throwing transitions: persistent needs shared; shared needs a name and uniqueness; a shared
    storage cannot be renamed to "" or onto another shared one; create_shared/persistent need a name -/
theorem invariant_breaking_calls_throw {w : World} {m h sid : Nat} {s : Storage} :
    (ownStorage w m h = some s → s.pers = false → s.shared = false → core w (.setPersistent m h true) = .error .runtime) ∧
    (ownStorage w m h = some s → s.shared = false → s.name = "" → core w (.setShared m h true) = .error .runtime) ∧
    (∀ sid', ownStorage w m h = some s → s.shared = false → s.name ≠ "" → find w m s.kind s.ty s.name = some sid' →
        core w (.setShared m h true) = .error .runtime) ∧
    (hget w h = some sid → getS w sid = some s → s.shared = true → core w (.setName h "") = .error .runtime) ∧
    (∀ name, hget w h = some sid → getS w sid = some s → s.shared = true → nameClash w s name = true →
        core w (.setName h name) = .error .runtime) ∧
    (∀ k ty d, (getM w m).isSome = true → freeSlot w h = true →
        core w (.createShared m h k ty "" d) = .error .runtime ∧ core w (.createPersistent m h k ty "" d) = .error .runtime) :=
  ⟨setPersistent_private_throws, setShared_anonymous_throws, fun _ a b c d => setShared_duplicate_throws a b c d,
   setName_shared_empty_throws, fun _ a b c d => setName_shared_clash_throws a b c d,
   fun k ty d a b => create_empty_name_throws w m h k ty d a b⟩

/-! ## 5. A handle that outlives its mesh -/

/-- after the mesh is destroyed the handle still resolves, reports being detached, and sees the
    same name, flags, default and values -/
theorem handle_outliving_mesh_keeps_data {w w' : World} {m h sid : Nat} {s : Storage} {r : Res}
    (hh : hget w h = some sid) (hs : getS w sid = some s) (ht : s.tracker = some m)
    (e : step w (.destroy m) = .ok (w', r)) :
    hview w' h = some { s with tracker := none } :=
  handle_outlives_mesh hh hs ht e

/-! ## 6. Non-vacuity -/

/-- a history through most transitions: persistent + shared + private properties with colliding
    names, a rejected duplicate, throwing set_persistent / set_name / create_shared(""), a mesh
    copy, clear_props, and destruction of the first mesh while three handles are outstanding -/
def demo : List Op :=
  [.newMesh 0 0 1, .addVertex 0 5 2, .addVertex 0 6 3,
   .createPersistent 0 0 .V .int "a" 7, .write 0 1 42,
   .createShared 0 1 .V .int "a" 0,            -- refused: empty optional
   .createShared 0 1 .V .double "a" 1,         -- same name, other type: fine
   .createPrivate 0 2 .V .int "a" 2,           -- same name, private: fine
   .setPersistent 0 2 true,                    -- throws: not shared
   .setShared 0 2 true,                        -- throws: duplicate (int "a" exists)
   .setName 1 "",                              -- throws: shared
   .createShared 0 3 .V .int "" 0,             -- throws: no name
   .request 0 3 .V .int "a" 9,                 -- returns the existing persistent one
   .copy 0 1, .clearProps 0 .V, .hdrop 3, .destroy 0]

def demoW : World := run {} demo

example :
    demoW.handles = [(2, 3), (1, 2), (0, 1)] ∧
    (demoW.heap.map (fun s => (s.id, s.name, s.shared, s.pers))) =
      [(1, "a", false, false), (2, "a", false, false), (3, "a", false, false), (5, "a", true, true),
       (8, "ovm:position", true, false)] ∧
    (demoW.heap.map (fun s => (s.id, s.tracker, s.vals))) =
      [(1, none, [7, 42]), (2, none, [1, 1]), (3, none, [2, 2]), (5, some 1, [7, 42]), (8, some 1, [5, 6])] ∧
    nProps demoW 1 .V = 2 ∧ nPers demoW 1 .V = 1 ∧ demoW.fault = false := by
  decide

/-- the lookups used above do find / refuse what the comments say -/
def demoW5 : World := run {} (demo.take 5)

example :
    (step demoW5 (.createShared 0 1 .V .int "a" 0)).toOption.map (·.2) = some Res.none ∧
    (step demoW5 (.setName 0 "")).toOption = none ∧
    find demoW5 0 .V .int "a" = some 1 ∧ find demoW5 0 .V .double "a" = none := by
  decide

/-! ## 7. Historical note: the transition `set_name` had before fix a0b1b3d

  `PropertyStorageBase::set_name` used to assign the name unconditionally.  That transition does
  break the invariant (which is why the full-strength theorem above is about the checked one); the
  witness is kept as an `example` about an explicitly separate function. -/

/-- the unchecked `set_name` of the pinned snapshot af91eac -/
def setNameUnchecked (w : World) (h : Nat) (name : String) : World :=
  match hget w h with
  | some sid => modS w sid (fun s => { s with name := name })
  | none => w

def oldW : World := run {} [.newMesh 0 0 1, .createShared 0 0 .V .int "a" 0, .createPersistent 0 1 .V .int "b" 0]

example :
    (∃ s ∈ (setNameUnchecked oldW 0 "").heap, s.shared = true ∧ s.name = "") ∧
    (∃ s ∈ (setNameUnchecked oldW 1 "a").heap, ∃ t ∈ (setNameUnchecked oldW 1 "a").heap, s.id ≠ t.id ∧
        s.shared = true ∧ t.shared = true ∧ s.tracker = t.tracker ∧ s.kind = t.kind ∧ s.ty = t.ty ∧ s.name = t.name) := by
  decide

end OVM.Props.C14

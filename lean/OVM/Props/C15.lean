import OVM.Tet.ShapeLemmas
import OVM.Tet.ShapeTet
import OVM.Tet.TetLemmas
import OVM.Tet.LabelLemmas
import OVM.Tet.CollapseLemmas
/-
  C15 — tetrahedral kernel: shape invariants, vertex-order contracts, label tables, edge collapse.

  What is proved here (unbounded: any mesh state, any argument):
  (a) `ValenceShape` (every stored face has three halfedges, every stored cell four halffaces) is kept by
      every operation of the tet vocabulary — construction through all overrides and conveniences
      (accepted or refused), swaps, `delete_cell`, all deletions / garbage collection / collapse /
      split in deferred or in fast mode (`shape_step_partial`, `shape_run_partial`); refused calls of
      the three overrides return the very state they were given.  In non-fast immediate mode an erase
      rewrites definitions (`fixHalfList`); there the shape is kept under the explicit hypothesis that no
      stored definition still mentions the erased slot (`shape_shifting_erase_partial`) — that
      `delete_face` / `delete_edge` / `delete_vertex` / `collect_garbage` establish it before each erase
      is C02's closure invariant (refinement ladder), evaluated on every step of the correspondence run.
      A cell that satisfies `IsTet` has exactly four vertices, so `TetShape` follows from the valence
      shape and `IsTet` of the live cells (`tetShape_of_isTet`).
  (b) for `IsTet k c` (and the halfface→cell cache agreeing on `c`): all four `get_cell_vertices`
      overloads, `halfface_opposite_vertex` / `vertex_opposite_halfface` mutually inverse, `tv_iter`.
  (c) the label algebra, by kernel `decide` over the whole regenerated tables (OVM/Gen/TetLabels.lean).
      Its connection to an actual cell is the hand-written constructor walk OVM/Tet/Topology.lean,
      compared with the implementation for every constructor choice in the correspondence run
      (`LabelsConsistent` below is the statement that is not proved).
  (d) the abstract collapse on oriented vertex quadruples, and the arithmetic of the returned handle
      against the renumbering of an immediate vertex deletion, down to the model's property columns.
      That the model algorithm `collapseEdge` (rebuild the star of `a` on `b`, deferred delete, re-add)
      refines the abstract operation is `CollapseRefines` below: not proved, evaluated on every collapse
      of the correspondence run through the vertex identity tokens.
-/
namespace OVM.Props.C15
open OVM OVM.Kernel OVM.Tet

/-! ## (a) shape -/

/-- every construction call of the tet vocabulary, accepted or refused, keeps the valence shape
    (and the deletion modes) — full strength, no hypothesis on the state or the arguments -/
theorem shape_adds (k : Kernel) :
    (∀ hes chk, Keeps k (k.tetAddFace hes chk).1) ∧ (∀ vs, Keeps k (k.tetAddFaceV vs).1) ∧
    (∀ hfs chk, Keeps k (k.tetAddCell hfs chk).1) ∧ (∀ a b, Keeps k (k.tetAddHalfedge a b).1) ∧
    (∀ hes chk, Keeps k (k.tetAddHalfface hes chk).1) ∧ (∀ a b c chk, Keeps k (k.tetAddHalfface3 a b c chk).1) ∧
    (∀ vs chk, Keeps k (k.tetAddCellV vs chk).1) ∧ (∀ a b c d chk, Keeps k (k.tetAddCell4 a b c d chk).1) ∧
    (∀ a b d, Keeps k (k.addEdge a b d).1) ∧ Keeps k k.addVertex.1 :=
  ⟨tetAddFace_keeps k, tetAddFaceV_keeps k, tetAddCell_keeps k, tetAddHalfedge_keeps k, tetAddHalfface_keeps k,
   tetAddHalfface3_keeps k, tetAddCellV_keeps k, tetAddCell4_keeps k, addEdge_keeps k, addVertex_keeps k⟩

/-- refused calls: wrong valence (faces, cells, cells over non-triangles), `add_cell(vertices)` with
    other than four vertices or without all incidences return the unchanged state and the invalid
    handle; and whenever one of the two overrides returns the invalid handle the state is unchanged -/
theorem refused_calls_unchanged (k : Kernel) :
    (∀ hes chk, hes.length ≠ 3 → k.tetAddFace hes chk = (k, none)) ∧
    (∀ vs, vs.length ≠ 3 → k.tetAddFaceV vs = (k, none)) ∧
    (∀ hfs chk, hfs.length ≠ 4 → k.tetAddCell hfs chk = (k, none)) ∧
    (∀ hfs chk x, x ∈ hfs → (k.faceAt (eOf x)).length ≠ 3 → k.tetAddCell hfs chk = (k, none)) ∧
    (∀ vs chk, vs.length ≠ 4 ∨ k.fullBU = false → k.tetAddCellV vs chk = (k, none)) ∧
    (∀ hes chk, (k.tetAddFace hes chk).2 = none → (k.tetAddFace hes chk).1 = k) ∧
    (∀ hfs chk, (k.tetAddCell hfs chk).2 = none → (k.tetAddCell hfs chk).1 = k) :=
  ⟨tetAddFace_wrong_valence k, tetAddFaceV_wrong_valence k, tetAddCell_wrong_valence k,
   fun hfs chk x hx h => tetAddCell_wrong_face_valence k hfs chk x hx h, tetAddCellV_refused_early k,
   tetAddFace_refused k, tetAddCell_refused k⟩

/-- swaps, `delete_cell` and `delete_vertex_core` never change the length of a definition -/
theorem shape_swaps_and_cell_deletion (k : Kernel) :
    (∀ a b, Keeps k (k.swapVertex a b)) ∧ (∀ a b, Keeps k (k.swapEdge a b)) ∧ (∀ a b, Keeps k (k.swapFace a b)) ∧
    (∀ a b, Keeps k (k.swapCell a b)) ∧ (∀ c, Keeps k (k.deleteCell c)) ∧ (∀ v, Keeps k (k.deleteVertexCore v)) :=
  ⟨swapVertex_keeps k, swapEdge_keeps k, swapFace_keeps k, swapCell_keeps k, deleteCell_keeps k, deleteVertexCore_keeps k⟩

/-- deletions, garbage collection, collapse and split in deferred or in fast mode -/
theorem shape_deletions_deferred_or_fast (k : Kernel) (m : ModeOK k) :
    (∀ f, Keeps k (k.deleteFace f)) ∧ (∀ e, Keeps k (k.deleteEdge e)) ∧ (∀ v, Keeps k (k.deleteVertex v)) ∧
    (k.fast = true → Keeps k k.collectGarbage) ∧
    (∀ h, ValenceShape k → ValenceShape (k.collapseEdge h).1) ∧
    (∀ h, ValenceShape k → ValenceShape (k.splitEdge h).1) ∧ (∀ f, ValenceShape k → ValenceShape (k.splitFace f).1) :=
  ⟨fun f => deleteFace_keeps k f m, fun e => deleteEdge_keeps k e m, fun v => deleteVertex_keeps k v m,
   collectGarbage_keeps k, fun h hv => collapseEdge_valence k h hv m, fun h hv => splitEdge_valence k h hv m,
   fun f hv => splitFace_valence k f hv m⟩

/-- PARTIAL (the hypothesis `NoRef…` is what is missing): the index-shifting erase of a face / an edge
    keeps every definition's length when no stored cell / face still mentions the erased slot.  That the
    public deletions and `collect_garbage` reach the erase only in such states is C02's closure invariant. -/
theorem shape_shifting_erase_partial (k : Kernel) (h : Nat) (hv : ValenceShape k) :
    (NoRefF k h → ValenceShape (k.deleteFaceCore h)) ∧ (NoRefE k h → ValenceShape (k.deleteEdgeCore h)) :=
  ⟨fun hn => (deleteFaceCore_keeps k h (Or.inr hn)).shape hv, fun hn => (deleteEdgeCore_keeps k h (Or.inr hn)).shape hv⟩

/-- PARTIAL (restricted by `ShiftFree`: deferred or fast mode for the erasing operations; `argsOK` only
    concerns the inherited, unguarded `set_face` / `set_cell`): one step of the whole driver vocabulary
    — base kernel operations with the tet overrides, the conveniences, collapse, split — keeps the shape -/
theorem shape_step_partial (k : Kernel) (op : TetOp) (hv : ValenceShape k) (ha : op.argsOK) (hs : ShiftFree k op) :
    ValenceShape (k.stepTetX op).1 := valenceShape_stepTetX k op hv ha hs

/-- a history all of whose steps are admissible -/
def Admissible : Kernel → List TetOp → Prop
  | _, [] => True
  | k, op :: rest => op.argsOK ∧ ShiftFree k op ∧ Admissible (k.stepTetX op).1 rest

instance : (k : Kernel) → (ops : List TetOp) → Decidable (Admissible k ops)
  | _, [] => isTrue trivial
  | k, op :: rest =>
    have := instDecidableAdmissible (k.stepTetX op).1 rest
    by unfold Admissible; infer_instance

def runTet (k : Kernel) (ops : List TetOp) : Kernel := ops.foldl (fun k op => (k.stepTetX op).1) k

/-- PARTIAL (same restriction): any admissible sequence of additions (including refused ones), deletions,
    garbage collections, collapses, splits, swaps, starting from the empty mesh -/
theorem shape_run_partial (ops : List TetOp) (k : Kernel) (hv : ValenceShape k) (h : Admissible k ops) :
    ValenceShape (runTet k ops) := by
  induction ops generalizing k with
  | nil => exact hv
  | cons op rest ih =>
    obtain ⟨ha, hs, hr⟩ := h
    exact ih _ (shape_step_partial k op hv ha hs) hr

theorem shape_empty : ValenceShape ({} : Kernel) := valenceShape_empty

/-- the four-distinct-vertices part: an `IsTet` cell has exactly four vertices, hence `TetShape` follows
    from the valence shape once the live cells are tetrahedra -/
theorem tetShape_of_isTet (k : Kernel) (hv : ValenceShape k) (ht : ∀ c ∈ k.liveCells, IsTet k c) : TetShape k :=
  tetShape_of hv ht

/-! ## (b) vertex-order contracts on a cell with `IsTet` -/

/-- `get_cell_vertices(ch)`: the vertex cycle of the first halfface exactly as stored, then the fourth vertex -/
theorem get_cell_vertices_cell (k : Kernel) (c : Nat) (ht : IsTet k c) (hc : ∀ h ∈ k.cellAt c, k.cellOf h = some c) :
    ∃ p q r s, k.hfVerts ((k.cellAt c).headD 0) = [p, q, r] ∧ [p, q, r, s].Nodup ∧ k.getCellVertices c = [p, q, r, s] := by
  obtain ⟨p, q, r, s, h1, h2, _, h3⟩ := getCellVertices_isTet ht hc
  exact ⟨p, q, r, s, h1, h2, h3⟩

/-- `get_cell_vertices(hfh)`: the cycle of `hfh` as stored, then the one vertex of the cell not on `hfh` -/
theorem get_cell_vertices_halfface (k : Kernel) (c hf : Nat) (ht : IsTet k c)
    (hc : ∀ h ∈ k.cellAt c, k.cellOf h = some c) (hm : hf ∈ k.cellAt c) :
    ∃ w, k.getCellVerticesHF hf = k.hfVerts hf ++ [w] ∧ w ∉ k.hfVerts hf ∧ w ∈ k.cellVertSet c ∧
      (k.hfVerts hf).length = 3 ∧ (∀ v ∈ k.cellVertSet c, v ∉ k.hfVerts hf → v = w) := by
  obtain ⟨p, q, r, s, _, _, hT⟩ := ht.elim
  obtain ⟨w, h1, h2, h3, h4, _, h6⟩ := getCellVerticesHF_tetOn hT hc hm
  have hmem := cellVertSet_mem_iff hT
  exact ⟨w, h1, h2, (hmem w).mpr h3, h6, fun v hv hn => h4 v ((hmem v).mp hv) hn⟩

/-- `get_cell_vertices(hfh, heh)`: the cycle of `hfh` read from the start of `heh`, then the apex -/
theorem get_cell_vertices_halfface_halfedge (k : Kernel) (c hf heh : Nat) (ht : IsTet k c)
    (hc : ∀ h ∈ k.cellAt c, k.cellOf h = some c) (hm : hf ∈ k.cellAt c) (hh : heh ∈ k.hfHes hf) :
    ∃ l w, Rot l (k.hfVerts hf) ∧ l.head? = some (k.fromV heh) ∧ k.getCellVerticesHE hf heh = l ++ [w] ∧
      w ∉ k.hfVerts hf ∧ k.getCellVerticesHF hf = k.hfVerts hf ++ [w] :=
  getCellVerticesHE_isTet ht hc hm hh

/-- `get_cell_vertices(ch, vh)`: a halfface of the cell (the first one if it contains `vh`) read from
    `vh`, then the vertex that halfface misses -/
theorem get_cell_vertices_cell_vertex (k : Kernel) (c v : Nat) (ht : IsTet k c) (hc : ∀ h ∈ k.cellAt c, k.cellOf h = some c)
    (hv : ∃ h ∈ k.cellAt c, v ∈ k.hfVerts h) :
    ∃ h' ∈ k.cellAt c, ∃ l w, Rot l (k.hfVerts h') ∧ l.head? = some v ∧ k.getCellVerticesCV c v = l ++ [w] ∧
      w ∉ k.hfVerts h' ∧ (∃ h'' ∈ k.cellAt c, w ∈ k.hfVerts h'') ∧
      (v ∈ k.hfVerts ((k.cellAt c).headD 0) → h' = (k.cellAt c).headD 0) :=
  getCellVerticesCV_isTet ht hc hv

/-- `halfface_opposite_vertex` and `vertex_opposite_halfface` are mutually inverse on a tetrahedron -/
theorem opposite_vertex_halfface_inverse (k : Kernel) (c : Nat) (ht : IsTet k c) (hc : ∀ h ∈ k.cellAt c, k.cellOf h = some c) :
    (∀ hf ∈ k.cellAt c, ∃ w, k.halffaceOppositeVertex hf = some w ∧ w ∉ k.hfVerts hf ∧ k.vertexOppositeHalfface c w = some hf) ∧
    (∀ v, (∃ h ∈ k.cellAt c, v ∈ k.hfVerts h) →
      ∃ hf, k.vertexOppositeHalfface c v = some hf ∧ hf ∈ k.cellAt c ∧ v ∉ k.hfVerts hf ∧ k.halffaceOppositeVertex hf = some v) :=
  ⟨fun _ hm => voh_hov_isTet ht hc hm, fun _ hv => hov_voh_isTet ht hc hv⟩

/-- the tet vertex iterator visits `get_cell_vertices(ch)`, lap by lap (in the model by construction:
    `TetVertexIter` copies that vector; tied to the code by the correspondence run) -/
theorem tv_iter_agrees (k : Kernel) (c : Nat) :
    k.tvIter c 1 = k.getCellVertices c ∧ k.tvIter c 2 = k.getCellVertices c ++ k.getCellVertices c := by
  simp [tvIter]

/-! ## (c) label algebra of TetTopology — kernel `decide` over the whole generated tables -/

theorem labels_vertices_distinct : OVM.Gen.TetLabels.vl.map (·.2) = [0, 1, 2, 3] := vl_distinct
theorem labels_halfedges : HelTableOK := hel_table_ok
theorem labels_halffaces_without_start : HflOppRowsOK := hfl_opp_rows_ok
theorem labels_halffaces_with_start : HflStartRowsOK := hfl_start_rows_ok
theorem labels_halfedge_slots : HehSlotsOK := heh_slots_ok
theorem labels_reference_instance : ReferenceInstanceOK := reference_instance_ok

/-! ## (d) edge collapse -/

/-- S: the abstract collapse — exactly the former cells without the edge, `a` renamed to `b`, in the same
    orientation class, still on four distinct vertices; `a` is gone; cells away from `a` are untouched -/
theorem abstract_collapse (a b : Nat) (hab : a ≠ b) (cells : List (List Nat)) (hq : ∀ t ∈ cells, t.length = 4 ∧ t.Nodup) :
    (∀ q, q ∈ absCollapse a b cells ↔ ∃ t ∈ cells, ¬(a ∈ t ∧ b ∈ t) ∧ q = t.map (substV a b)) ∧
    (∀ q ∈ absCollapse a b cells, q.length = 4 ∧ q.Nodup ∧ a ∉ q ∧
      ∃ t ∈ cells, q = t.map (substV a b) ∧ evenPerms q = (evenPerms t).map (·.map (substV a b))) ∧
    (∀ t ∈ cells, a ∉ t → t ∈ absCollapse a b cells) := by
  refine ⟨mem_absCollapse a b cells, ?_, fun t ht ha => absCollapse_untouched a b cells t ht ha⟩
  intro q hqm
  obtain ⟨h1, h2, t, ht, _, h4, h5⟩ := absCollapse_spec a b cells hq q hqm
  exact ⟨h1, h2, absCollapse_no_a a b hab cells q hqm, t, ht, h4, h5⟩

/-- the handle `collapse_edge` predicts for `b` is `b`'s image under the renumbering of the immediate
    deletion of `a`: unchanged (deferred), `corr1 a` (shift), `relabelId a (n-1)` (swap with last) -/
theorem returned_handle_arithmetic (a b n : Nat) (hab : a ≠ b) :
    (∀ f, survivingVertex true f a b n = b) ∧ survivingVertex false false a b n = corr1 a b ∧
    survivingVertex false true a b n = relabelId a (n - 1) b :=
  ⟨fun f => survivingVertex_deferred f a b n, survivingVertex_shift a b n, survivingVertex_fast a b n hab⟩

/-- M: after the immediate `delete_vertex_core(a)` every vertex column holds, at the predicted handle,
    the value vertex `b` carried: the returned handle designates `b` -/
theorem returned_handle_designates (k : Kernel) (a b : Nat) (hd : k.deferred = false) (hab : a ≠ b)
    (ha : a < k.nV) (hb : b < k.nV) (c : Col) (hc : c ∈ k.props.v) (hlen : c.vals.length = k.nV) :
    ∃ c' ∈ (k.deleteVertexCore a).props.v, c'.key = c.key ∧ c'.vals[survivingVertex false k.fast a b k.nV]? = c.vals[b]? :=
  deleteVertexCore_designates k a b hd hab ha hb c hc hlen

/-- NOT PROVED (named so that the gap is explicit): the model algorithm refines the abstract operation.
    Evaluated by lean/OVM/Tet/Judge.lean on every collapse of the correspondence run, on the
    implementation's own states, through the vertex identity tokens. -/
def CollapseRefines : Prop :=
  ∀ (k : Kernel) (h : Nat), k.linkCondition h = true → k.fullBU = true → k.deferred = true →
    ((k.collapseEdge h).1.liveCells.map (fun c => canonQuad ((k.collapseEdge h).1.cellQuad c))).Perm
      ((absCollapse (k.fromV h) (k.toV h) (k.liveCells.map k.cellQuad)).map canonQuad)

/-- NOT PROVED: the constructor walk labels an `IsTet` cell consistently (the label algebra above is about
    the tables; this is their connection to a cell).  Evaluated for every constructor choice in the
    correspondence run. -/
def LabelsConsistent : Prop :=
  ∀ (k : Kernel) (c abc : Nat) (a : Option Nat), IsTet k c → abc ∈ k.cellAt c → (∀ v, a = some v → v ∈ k.hfVerts abc) →
    let t := Tet.mk k c abc a
    t.fault = false ∧ (∀ r ∈ OVM.Gen.TetLabels.hel, ∃ h, t.hehL r.val = some h ∧
      some (k.fromV h) = t.vhL r.from_ ∧ some (k.toV h) = t.vhL r.to_)

/-! ## non-vacuity -/

/-- two tetrahedra glued along the face (0,1,2), stored once: cell 1 uses its odd halfface -/
def twoTets : Kernel :=
  let k1 := ({} : Kernel).addNVertices 5
  let k2 := (k1.tetAddCell4 0 1 2 3 true).1
  (k2.tetAddCell4 0 2 1 4 true).1

/-- … and a third one on the face (0,2,3) of the first -/
def threeTets : Kernel := (twoTets.addVertex.1.tetAddCell4 0 3 2 5 true).1

example : twoTets.cells = [[0, 2, 4, 6], [1, 8, 10, 12]] ∧ IsTet twoTets 0 ∧ IsTet twoTets 1 ∧ TetShape twoTets ∧
    ValenceShape twoTets ∧ (∀ c ∈ twoTets.liveCells, ∀ h ∈ twoTets.cellAt c, twoTets.cellOf h = some c) := by decide +kernel
-- the shared face is read in the opposite rotation by the second cell
example : twoTets.getCellVertices 0 = [0, 1, 2, 3] ∧ twoTets.getCellVertices 1 = [0, 2, 1, 4] ∧
    twoTets.getCellVerticesHE 1 3 = [2, 1, 0, 4] ∧ twoTets.getCellVerticesCV 1 4 = [4, 2, 0, 1] ∧
    twoTets.halffaceOppositeVertex 1 = some 4 ∧ twoTets.vertexOppositeHalfface 1 4 = some 1 ∧
    twoTets.halffaceOppositeVertex 3 = none := by decide +kernel
-- refused calls (wrong valence, occupied halfface) leave the state alone / leave the cells alone
example : (twoTets.tetAddFace [0, 2] true).1 = twoTets ∧ (twoTets.tetAddCell [0, 2, 4] false).1 = twoTets ∧
    (twoTets.tetAddCellV [0, 1, 2, 4] true).2 = none ∧ (twoTets.tetAddCellV [0, 1, 2, 4] true).1.cells = twoTets.cells := by decide +kernel
-- a collapse that removes two cells and rebuilds the third on the target vertex, in all four modes (tests, labelled so)
example : threeTets.linkCondition 0 = true ∧
    (threeTets.collapseEdge 0).1.liveCells.map (threeTets.collapseEdge 0).1.cellQuad = [[1, 3, 2, 5]] ∧
    absCollapse 0 1 (threeTets.liveCells.map threeTets.cellQuad) = [[1, 3, 2, 5]] ∧ (threeTets.collapseEdge 0).2 = 1 ∧
    ((threeTets.enableDeferred false).collapseEdge 0).2 = 1 ∧
    (((threeTets.enableDeferred false).enableFast false).collapseEdge 0).2 = 0 ∧
    ValenceShape (threeTets.collapseEdge 0).1 ∧ TetShape ((threeTets.enableDeferred false).collapseEdge 0).1 := by decide +kernel
example : Admissible ({} : Kernel) [.base (.addNVertices 5), .addCell4 true 0 1 2 3, .addCell4 true 0 2 1 4, .collapse 0,
    .base .collectGarbage] := by decide +kernel
example : survivingVertex false false 2 5 9 = 4 ∧ survivingVertex false true 2 8 9 = 2 ∧ survivingVertex true true 2 8 9 = 8 := by decide
-- the label of a halfedge whose name spells (D, B) goes from D to B and is the opposite of BD
example : (helRow? (helVal "DB")).map (fun r => (r.from_, r.to_, r.opp)) = some (3, 1, helVal "BD") := by decide

end OVM.Props.C15

import OVM.Tet.ShapeLemmas
import OVM.Tet.ShapeTet
import OVM.Tet.TetLemmas
import OVM.Tet.LabelLemmas
import OVM.Tet.CollapseLemmas
import OVM.Tet.ShapeRun
import OVM.Tet.TetCells
import OVM.Tet.LabelsCell
import OVM.Tet.CollapseQuads
import OVM.Tet.TetConstruct
import OVM.Tet.TetChecked
import OVM.Tet.TetCellV
import OVM.Tet.CollapseGInv
import OVM.Tet.TetFinal
/-
  C15 — tetrahedral kernel: shape invariants, vertex-order contracts, label tables, edge collapse.

  What is proved here (unbounded: any mesh state, any argument):
  (a) `ValenceShape` (every stored face has three halfedges, every stored cell four halffaces) is kept by
      every operation of the tet driver vocabulary IN EVERY DELETION MODE (`shape_step`, `shape_run`): on top of
      K5's global kernel invariant `Global.GInv = WF ∧ oneCell ∧ Closed ∧ FlagInv` (OVM/Refine/Global*.lean), for
      valid arguments (`TetOpOK`: handles in range and not deleted, halffaces of a new cell free and distinct;
      no condition on the deletion mode or the bottom-up configuration).  The index-shifting erase stages
      (`fixHalfList`) only ever see a slot that no stored definition mentions: K4's closure lemmas
      (OVM/Refine/CacheImmediate.lean, CacheGC.lean), threaded through in OVM/Tet/ShapeAll.lean.  Refused calls of
      the three overrides return the very state they were given.
      `collapse_edge`: `TetOpOK (.collapse h)` (the state just before the operation switches back to the caller's
      deletion mode satisfies `GInv`) is a THEOREM for every edge satisfying the link condition, in a mesh of closed
      triangles with all caches (`collapse_keeps_invariant`, `shape_step_collapse`; OVM/Tet/CollapseGInv.lean: the new
      halffaces are live, pairwise different and FREE — the topological content of the link condition).
      Gap (explicit hypothesis in `TetOpOK`) only for the protected `split_edge` / `split_face` (not part of C15's
      statement; discharged on concrete instances in OVM/Tet/ShapeRun.lean).  In deferred or fast mode no hypothesis
      at all is needed (`shape_deletions_deferred_or_fast`).
      FIRST SENTENCE OF C15 AT FULL STRENGTH: `tetShape_run` — `TetShape` (every live cell a tetrahedron on four distinct
      vertices) along every admissible history of the whole vocabulary, every deletion mode (OVM/Tet/TetStable.lean:
      `stable_tetQ`, an instance of H1's `HexAll.Stable`; OVM/Tet/TetFinal.lean).
      Four distinct vertices: a cell that satisfies `IsTet` has exactly four vertices (`tetShape_of_isTet`).  WHICH
      construction paths give `IsTet`: `add_cell(v0,v1,v2,v3)` on four different live vertices in a mesh whose
      stored faces are closed triangles (`addCell4_isTet`, and every stored tetrahedron stays one: `addCell4_allTet`).
      `add_cell(halffaces)` since 64c6d58 (finding /verif/findings/C15-pillow-cell.md, fixed): an ACCEPTED call on loop
      faces stores four distinct vertices, any `topologyCheck` (`addCellHF_fourVerts`; loops needed:
      `addCellHF_loops_needed`); with topology check the cell is `IsTet` (`addCellHF_checked_isTet`; since 4614b67, finding
      /verif/findings/C15-parallel-edge-tet.md, no further hypothesis); the former double pillow and the parallel-edge
      configuration are rejected (`pillow_cell_rejected`, `parallel_edge_cell_rejected`).  Along whole
      construction histories through both paths: `tetShape_of_construction`.
  (b) for `IsTet k c` (and the halfface→cell cache agreeing on `c`): all four `get_cell_vertices`
      overloads, `halfface_opposite_vertex` / `vertex_opposite_halfface` mutually inverse, `tv_iter`.
  (c) the label algebra, by kernel `decide` over the whole regenerated tables (OVM/Gen/TetLabels.lean), AND its
      connection to an actual cell: for an `IsTet` cell whose halffaces are closed loops and which is a closed
      surface (what `add_cell` with topology check verifies), every constructor choice of `TetTopology` labels
      vertices, halfedges, halffaces consistently and `get_label` inverts every accessor (`labels_consistent`,
      OVM/Tet/LabelsCell.lean).  `IsTet` alone is not enough (`labels_need_closed_loops`: three `decide` witnesses).
  (d) the abstract collapse on oriented vertex quadruples; the arithmetic of the returned handle against the
      renumbering of an immediate vertex deletion, down to the model's property columns; and the REFINEMENT:
      in deferred deletion mode the model algorithm `collapseEdge` (rebuild the star of `a` on `b`, deferred delete,
      re-add) yields, as a multiset of canonical oriented quadruples, exactly `absCollapse a b` of the former cells;
      every re-created cell is a tetrahedron again and an even rearrangement of a former cell with `a` renamed to
      `b`; the returned handle is `b`, live afterwards, and `a` is deleted (`collapse_refines_deferred`,
      OVM/Tet/Collapse{Star,Finish,Refine,Quads}.lean).  The two immediate modes are this operation followed by
      `collect_garbage` (`collapseEdge_eq`), which keeps the quadruples up to the renumbering of the vertices
      (OVM/Tet/TetGCQuads.lean, TetGCQuadsFast.lean): `collapse_refines` holds in ALL FOUR deletion modes.
-/
namespace OVM.Props.C15
open OVM OVM.Kernel OVM.Tet

/-! ## (a) shape -/

/-- every construction call of the tet vocabulary, accepted or refused, keeps the valence shape
    (and the deletion modes) — full strength, no hypothesis on the state or the arguments -/
theorem shape_adds (k : Kernel) :
    (∀ hes chk, Keeps k (k.tetAddFace hes chk).1) ∧ (∀ vs, Keeps k (k.tetAddFaceV vs).1) ∧
    (∀ hfs chk, Keeps k (k.tetAddCell hfs chk).1) ∧ (∀ a b, Keeps k (k.tetAddHalfedge a b).1) ∧
    (∀ hes chk, Keeps k (k.tetAddHalfface hes chk).1) ∧ (∀ a b c chk, Keeps k (k.tetAddHalfface3 a b c chk).1) ∧
    (∀ vs chk, Keeps k (k.tetAddCellV vs chk).1) ∧ (∀ a b c d chk, Keeps k (k.tetAddCell4 a b c d chk).1) ∧
    (∀ a b d, Keeps k (k.addEdge a b d).1) ∧ Keeps k k.addVertex.1 :=
  ⟨tetAddFace_keeps k, tetAddFaceV_keeps k, tetAddCell_keeps k, tetAddHalfedge_keeps k, tetAddHalfface_keeps k,
   tetAddHalfface3_keeps k, tetAddCellV_keeps k, tetAddCell4_keeps k, addEdge_keeps k, addVertex_keeps k⟩

/-- refused calls: wrong valence (faces, cells, cells over non-triangles), `add_cell(vertices)` with
    other than four vertices or without all incidences return the unchanged state and the invalid
    handle; and whenever one of the two overrides returns the invalid handle the state is unchanged -/
theorem refused_calls_unchanged (k : Kernel) :
    (∀ hes chk, hes.length ≠ 3 → k.tetAddFace hes chk = (k, none)) ∧
    (∀ vs, vs.length ≠ 3 → k.tetAddFaceV vs = (k, none)) ∧
    (∀ hfs chk, hfs.length ≠ 4 → k.tetAddCell hfs chk = (k, none)) ∧
    (∀ hfs chk x, x ∈ hfs → (k.faceAt (eOf x)).length ≠ 3 → k.tetAddCell hfs chk = (k, none)) ∧
    (∀ vs chk, vs.length ≠ 4 ∨ k.fullBU = false → k.tetAddCellV vs chk = (k, none)) ∧
    (∀ hes chk, (k.tetAddFace hes chk).2 = none → (k.tetAddFace hes chk).1 = k) ∧
    (∀ hfs chk, (k.tetAddCell hfs chk).2 = none → (k.tetAddCell hfs chk).1 = k) :=
  ⟨tetAddFace_wrong_valence k, tetAddFaceV_wrong_valence k, tetAddCell_wrong_valence k,
   fun hfs chk x hx h => tetAddCell_wrong_face_valence k hfs chk x hx h, tetAddCellV_refused_early k,
   tetAddFace_refused k, tetAddCell_refused k⟩

/-- swaps, `delete_cell` and `delete_vertex_core` never change the length of a definition -/
theorem shape_swaps_and_cell_deletion (k : Kernel) :
    (∀ a b, Keeps k (k.swapVertex a b)) ∧ (∀ a b, Keeps k (k.swapEdge a b)) ∧ (∀ a b, Keeps k (k.swapFace a b)) ∧
    (∀ a b, Keeps k (k.swapCell a b)) ∧ (∀ c, Keeps k (k.deleteCell c)) ∧ (∀ v, Keeps k (k.deleteVertexCore v)) :=
  ⟨swapVertex_keeps k, swapEdge_keeps k, swapFace_keeps k, swapCell_keeps k, deleteCell_keeps k, deleteVertexCore_keeps k⟩

/-- deletions, garbage collection, collapse and split in deferred or in fast mode -/
theorem shape_deletions_deferred_or_fast (k : Kernel) (m : ModeOK k) :
    (∀ f, Keeps k (k.deleteFace f)) ∧ (∀ e, Keeps k (k.deleteEdge e)) ∧ (∀ v, Keeps k (k.deleteVertex v)) ∧
    (k.fast = true → Keeps k k.collectGarbage) ∧
    (∀ h, ValenceShape k → ValenceShape (k.collapseEdge h).1) ∧
    (∀ h, ValenceShape k → ValenceShape (k.splitEdge h).1) ∧ (∀ f, ValenceShape k → ValenceShape (k.splitFace f).1) :=
  ⟨fun f => deleteFace_keeps k f m, fun e => deleteEdge_keeps k e m, fun v => deleteVertex_keeps k v m,
   collectGarbage_keeps k, fun h hv => collapseEdge_valence k h hv m, fun h hv => splitEdge_valence k h hv m,
   fun f hv => splitFace_valence k f hv m⟩

/-- the index-shifting erase of a face / an edge keeps every definition's length when no stored cell / face
    still mentions the erased slot … -/
theorem shape_shifting_erase (k : Kernel) (h : Nat) (hv : ValenceShape k) :
    (NoRefF k h → ValenceShape (k.deleteFaceCore h)) ∧ (NoRefE k h → ValenceShape (k.deleteEdgeCore h)) :=
  ⟨fun hn => (deleteFaceCore_keeps k h (Or.inr hn)).shape hv, fun hn => (deleteEdgeCore_keeps k h (Or.inr hn)).shape hv⟩

/-- … and under the global kernel invariant the public deletions and `collect_garbage` reach the erase only in
    such states: `delete_face/edge/vertex`, `collect_garbage`, `enable_deferred_deletion` keep the shape in EVERY
    deletion mode (no `ShiftFree` restriction any more) -/
theorem shape_deletions_all_modes (k : Kernel) (hi : Global.GInv k) (hv : ValenceShape k) :
    (∀ f, f < k.nF → ValenceShape (k.deleteFace f)) ∧ (∀ e, e < k.nE → ValenceShape (k.deleteEdge e)) ∧
    (∀ v, ValenceShape (k.deleteVertex v)) ∧ ValenceShape k.collectGarbage ∧ (∀ b, ValenceShape (k.enableDeferred b)) :=
  ⟨fun _ hf => Global.shape_deleteFace hi hf hv, fun _ he => Global.shape_deleteEdge hi he hv,
   fun v => Global.shape_deleteVertex hi v hv, Global.shape_collectGarbage hi hv, fun b => Global.shape_enableDeferred hi b hv⟩

/-- **one step of the whole driver vocabulary** — base kernel operations with the tet overrides, the
    conveniences, collapse, split — keeps `ValenceShape ∧ GInv`, in every deletion mode, for valid arguments
    (`TetOpOK`, OVM/Tet/ShapeRun.lean; for collapse / split it contains the gap hypothesis described in the header) -/
theorem shape_step (k : Kernel) (op : TetOp) (hi : TInv k) (hok : TetOpOK k op) : TInv (k.stepTetX op).1 :=
  tinv_stepTetX k op hi hok

/-- **any admissible sequence** of additions (including refused ones), deletions, garbage collections, collapses,
    splits, swaps, mode switches keeps `ValenceShape ∧ GInv` -/
theorem shape_run (ops : List TetOp) (k : Kernel) (hi : TInv k) (h : AdmissibleAll k ops) : TInv (runTetX k ops) :=
  tinv_run ops k hi h

/-- **`collapse_edge(a → b)` on an edge satisfying the link condition keeps the global kernel invariant in every
    deletion mode** (mesh of closed triangles, all three caches): K5's precondition of every `add_cell` of the
    re-creation loop holds — the new halffaces are live, pairwise different and in no live cell.  This removes the
    gap hypothesis of `TetOpOK (.collapse h)`. -/
theorem collapse_keeps_invariant (k : Kernel) (h : Nat) (hi : Global.GInv k) (hl : FaceLoops k) (hb : k.fullBU = true)
    (hlc : k.linkCondition h = true) : Global.GInv (k.collapseEdge h).1 ∧ TetOpOK k (.collapse h) :=
  ⟨ginv_collapseEdge hi hl hb hlc, tetOpOK_collapse hi hl hb hlc⟩

/-- … hence the step theorem for `collapse_edge` with valid arguments only, every deletion mode -/
theorem shape_step_collapse (k : Kernel) (h : Nat) (hi : TInv k) (hl : FaceLoops k) (hb : k.fullBU = true)
    (hlc : k.linkCondition h = true) : TInv (k.stepTetX (.collapse h)).1 :=
  tinv_stepTetX k (.collapse h) hi (tetOpOK_collapse hi.ginv hl hb hlc)

/-- **C15, first sentence, at full strength**: after ANY admissible history of the tet driver vocabulary — construction
    through the tet API (`add_halfface(a,b,c)`, `add_cell(v0..v3)`, `add_cell(vector)`, topology-checked
    `add_cell(halffaces)`), every deletion, index swap, `collect_garbage`, mode switch in every deletion mode, `clear`,
    and `collapse_edge` on edges satisfying the link condition — every stored face has three halfedges, every stored
    cell four halffaces, and every LIVE cell is a tetrahedron on four distinct vertices (`TetShape`).  `ShapeOKAll`
    (OVM/Tet/TetFinal.lean, TetStable.lean) are valid arguments plus, for the creating calls, "vertex and edge caches
    enabled, no face / cell deletion flag pending" (stale definitions of flagged entities are not renamed by the swaps:
    witness `sampleStale` in TetStable.lean).  Not covered (`False` in `ShapeOKAll`): `set_*`, unchecked
    `add_face(halfedges)` / `add_cell(halffaces)`, `add_face(vertices)`, `add_halfedge`, `add_halfface(halfedges)`,
    and the protected `split_edge` / `split_face`. -/
theorem tetShape_run (ops : List TetOp) (k : Kernel) (hi : TetSInv k) (h : ShapeAdmissibleAll k ops) :
    TetSInv (runTetX k ops) ∧ ValenceShape (runTetX k ops) ∧ TetShape (runTetX k ops) :=
  tetShape_run_all ops k hi h

theorem tetShape_reachable (ops : List TetOp) (h : ShapeAdmissibleAll {} ops) :
    ValenceShape (runTetX {} ops) ∧ TetShape (runTetX {} ops) :=
  tetShape_reachable_all ops h

/-- … in particular every state reachable from the empty mesh -/
theorem shape_reachable (ops : List TetOp) (h : AdmissibleAll {} ops) :
    ValenceShape (runTetX {} ops) ∧ Global.GInv (runTetX {} ops) :=
  ⟨(tinv_reachable ops h).shape, (tinv_reachable ops h).ginv⟩

theorem shape_empty : ValenceShape ({} : Kernel) := valenceShape_empty

/-- the four-distinct-vertices part: an `IsTet` cell has exactly four vertices, hence `TetShape` follows
    from the valence shape once the live cells are tetrahedra -/
theorem tetShape_of_isTet (k : Kernel) (hv : ValenceShape k) (ht : ∀ c ∈ k.liveCells, IsTet k c) : TetShape k :=
  tetShape_of hv ht

/-- **`add_cell(v0,v1,v2,v3)` builds a tetrahedron**: on four different live vertices, in a mesh whose stored faces
    are closed triangles (`FaceLoops`) with the vertex and edge caches and the global invariant (`BInv`), the cell that
    comes back — if any: the topology check may refuse — is `IsTet`, its first halfface runs `(v0,v1,v2)` up to
    rotation, and its vertices are exactly `v0,v1,v2,v3` -/
theorem addCell4_isTet (k : Kernel) (h : BInv k) (v0 v1 v2 v3 : Nat) (o0 : Global.VOk k v0) (o1 : Global.VOk k v1)
    (o2 : Global.VOk k v2) (o3 : Global.VOk k v3) (hd : [v0, v1, v2, v3].Nodup) (chk : Bool) (c : Nat)
    (hc : (k.tetAddCell4 v0 v1 v2 v3 chk).2 = some c) :
    c = k.nC ∧ IsTet (k.tetAddCell4 v0 v1 v2 v3 chk).1 c ∧
    Rot ((k.tetAddCell4 v0 v1 v2 v3 chk).1.hfVerts (((k.tetAddCell4 v0 v1 v2 v3 chk).1.cellAt c).headD 0)) [v0, v1, v2] ∧
    (∀ x, x ∈ (k.tetAddCell4 v0 v1 v2 v3 chk).1.cellVertSet c ↔ x ∈ [v0, v1, v2, v3]) :=
  tetAddCell4_isTet h o0 o1 o2 o3 hd chk hc

/-- … and every stored cell that was a tetrahedron stays one, whether the new cell is accepted or refused -/
theorem addCell4_allTet (k : Kernel) (h : BInv k) (ht : AllTet k) (v0 v1 v2 v3 : Nat) (o0 : Global.VOk k v0)
    (o1 : Global.VOk k v1) (o2 : Global.VOk k v2) (o3 : Global.VOk k v3) (hd : [v0, v1, v2, v3].Nodup) (chk : Bool) :
    AllTet (k.tetAddCell4 v0 v1 v2 v3 chk).1 :=
  tetAddCell4_allTet h ht o0 o1 o2 o3 hd chk

/-- **`add_cell(std::vector<VertexHandle>)` builds a tetrahedron** as well: four different live vertices, mesh of closed
    triangles with the vertex and edge caches; the cell that comes back (if any) is `IsTet` on exactly these vertices,
    first halfface `(v0,v1,v2)` up to rotation; every stored tetrahedron stays one; with K5's precondition of the final
    `add_cell` (`CellVFree`) the construction invariant is kept.  (Four DIFFERENT vertices are needed: an unchecked
    `add_cell({v,v,w,x})` stores a degenerate cell — witness in OVM/Tet/TetCellV.lean.) -/
theorem addCellV_isTet (k : Kernel) (h : BInv k) (v0 v1 v2 v3 : Nat) (o0 : Global.VOk k v0) (o1 : Global.VOk k v1)
    (o2 : Global.VOk k v2) (o3 : Global.VOk k v3) (hd : [v0, v1, v2, v3].Nodup) (chk : Bool) (c : Nat)
    (hc : (k.tetAddCellV [v0, v1, v2, v3] chk).2 = some c) :
    c = k.nC ∧ IsTet (k.tetAddCellV [v0, v1, v2, v3] chk).1 c ∧
    (∀ x, x ∈ (k.tetAddCellV [v0, v1, v2, v3] chk).1.cellVertSet c ↔ x ∈ [v0, v1, v2, v3]) ∧
    Rot ((k.tetAddCellV [v0, v1, v2, v3] chk).1.hfVerts (((k.tetAddCellV [v0, v1, v2, v3] chk).1.cellAt c).headD 0))
      [v0, v1, v2] :=
  tetAddCellV_isTet h o0 o1 o2 o3 hd chk hc

theorem addCellV_keeps_construction_invariant (k : Kernel) (h : CInv k) (vs : List Nat) (hv : ∀ v ∈ vs, Global.VOk k v)
    (hd : vs.Nodup) (chk : Bool) (hf : CellVFree k vs chk) : CInv (k.tetAddCellV vs chk).1 :=
  tetAddCellV_cinv h hv hd chk hf

/-- **construction histories**: any sequence of `add_vertex`, `add_n_vertices`, `add_halfface(a,b,c)`,
    `add_cell(v0,v1,v2,v3)` (with or without topology check, accepted or refused) and topology-CHECKED
    `add_cell(halffaces)` (accepted or refused) on valid arguments — different live vertices; the halffaces of an
    accepted cell live, free and pairwise different (`Cell4Free` / K5's `OpOK`) — from the empty mesh gives a tetrahedral mesh: every face three halfedges, every cell four
    halffaces and FOUR DISTINCT VERTICES (`TetShape`), every stored cell `IsTet` -/
theorem tetShape_of_construction (ops : List BuildOp) (h : BuildAdmissible {} ops) :
    ValenceShape (runBuild {} ops) ∧ TetShape (runBuild {} ops) ∧ AllTet (runBuild {} ops) :=
  tetShape_construct ops h

/-- two triangles on disjoint vertex triples, each with both of its halffaces -/
def pillow : Kernel :=
  let k0 := ({} : Kernel).addNVertices 6
  let k1 := (k0.tetAddFaceV [0, 1, 2]).1
  (k1.tetAddFaceV [3, 4, 5]).1

/-- the double pillow of finding /verif/findings/C15-pillow-cell.md (two triangles on disjoint vertex triples, each
    with both halffaces: valid, live, free, pairwise different handles; four triangles; a closed surface) is now
    REJECTED by the tet override of `add_cell(halffaces)`, with and without topology check (fix 64c6d58: the four
    halffaces must span exactly four vertices — they span six); the state is unchanged -/
theorem pillow_cell_rejected :
    Global.opOKB pillow (.addCell true [0, 1, 2, 3]) = true ∧ ClosedSurface pillow [0, 1, 2, 3] ∧ FaceLoops pillow ∧
    pillow.spanVertCount [0, 1, 2, 3] = 6 ∧
    pillow.tetAddCell [0, 1, 2, 3] true = (pillow, none) ∧ pillow.tetAddCell [0, 1, 2, 3] false = (pillow, none) := by
  decide +kernel

/-- **an ACCEPTED `add_cell(halffaces)` of the tet kernel — any `topologyCheck` — on halffaces that are closed loops
    stores a cell with four halffaces and exactly FOUR DISTINCT VERTICES** (64c6d58) -/
theorem addCellHF_fourVerts (k : Kernel) (hfs : List Nat) (chk : Bool) (c : Nat) (h : (k.tetAddCell hfs chk).2 = some c)
    (hl : ∀ hf ∈ hfs, Loop3 k (k.hfHes hf)) :
    ((k.tetAddCell hfs chk).1.cellAt c).length = 4 ∧ ((k.tetAddCell hfs chk).1.cellVertSet c).length = 4 :=
  tetAddCell_fourVerts h hl

/-- … **and with topology check it is a tetrahedron** (`IsTet`: the four halffaces are, one to one, the four oriented
    triangles of a tetrahedron).  Four triangles on four vertices whose twelve halfedges run through twelve different
    ordered vertex pairs (4614b67) and are matched by their opposites ARE the boundary of a tetrahedron (`fin_tet`:
    decided over `Fin 4`).  With this "four distinct vertices" is an invariant of every topology-checked construction
    call of the public tet API. -/
theorem addCellHF_checked_isTet (k : Kernel) (hfs : List Nat) (c : Nat) (h : (k.tetAddCell hfs true).2 = some c)
    (hl : ∀ hf ∈ hfs, Loop3 k (k.hfHes hf)) : IsTet (k.tetAddCell hfs true).1 c :=
  tetAddCell_checked_isTet h hl

/-- four faces that are NOT loops (only creatable by an unchecked `add_face(halfedges)`; three of the edges join a vertex
    to itself): twelve halfedges on twelve different ordered vertex pairs, all starting in 0, 1 or 2 -/
def unloopFaces : Kernel :=
  let k0 := ({} : Kernel).addNVertices 4
  let k1 := [(0, 1), (0, 2), (1, 2), (0, 3), (1, 3), (2, 3), (0, 0), (1, 1), (2, 2)].foldl
    (fun k (e : Nat × Nat) => (k.addEdge e.1 e.2 true).1) k0
  [[0, 1, 2], [3, 4, 5], [6, 8, 10], [12, 14, 16]].foldl (fun k f => (k.tetAddFace f false).1) k1

/-- two triangle pairs on (0,1,2) and (0,1,3) through a DUPLICATE edge 0–1 (`add_edge(…, allow_duplicates = true)`) -/
def dupPillow : Kernel :=
  let k0 := ({} : Kernel).addNVertices 4
  let k1 := [(0, 1), (1, 2), (2, 0), (0, 1), (1, 3), (3, 0)].foldl (fun k (e : Nat × Nat) => (k.addEdge e.1 e.2 true).1) k0
  ((k1.tetAddFace [0, 2, 4] true).1.tetAddFace [6, 8, 10] true).1

/-- WITNESS that the loop hypothesis cannot be dropped: without closed loops the vertex count of 64c6d58 (both end points
    of every halfedge: 4) and the vertices of the stored cell (start points: 3) differ — an unchecked call on non-loop
    faces is accepted with THREE vertices (contrived: it needs unchecked faces and edges from a vertex to itself). -/
theorem addCellHF_loops_needed :
    (unloopFaces.tetAddCell [0, 2, 4, 6] false).2 = some 0 ∧ unloopFaces.spanVertCount [0, 2, 4, 6] = 4 ∧
    unloopFaces.noParallel [0, 2, 4, 6] = true ∧
    (unloopFaces.tetAddCell [0, 2, 4, 6] false).1.cellVertSet 0 = [0, 1, 2] := by decide +kernel

/-- the configuration of finding /verif/findings/C15-parallel-edge-tet.md (two triangle pairs on four vertices through a
    duplicate edge: closed loops, a closed surface, four vertices — accepted with topology check before 4614b67, and the
    real `tet_vertices` crashed) is now REJECTED with and without topology check: two of its halfedges run 0 → 1 -/
theorem parallel_edge_cell_rejected :
    FaceLoops dupPillow ∧ ClosedSurface dupPillow [0, 1, 2, 3] ∧ dupPillow.spanVertCount [0, 1, 2, 3] = 4 ∧
    dupPillow.noParallel [0, 1, 2, 3] = false ∧
    dupPillow.tetAddCell [0, 1, 2, 3] true = (dupPillow, none) ∧ dupPillow.tetAddCell [0, 1, 2, 3] false = (dupPillow, none) := by
  decide +kernel

/-! ## (b) vertex-order contracts on a cell with `IsTet` -/

/-- `get_cell_vertices(ch)`: the vertex cycle of the first halfface exactly as stored, then the fourth vertex -/
theorem get_cell_vertices_cell (k : Kernel) (c : Nat) (ht : IsTet k c) (hc : ∀ h ∈ k.cellAt c, k.cellOf h = some c) :
    ∃ p q r s, k.hfVerts ((k.cellAt c).headD 0) = [p, q, r] ∧ [p, q, r, s].Nodup ∧ k.getCellVertices c = [p, q, r, s] := by
  obtain ⟨p, q, r, s, h1, h2, _, h3⟩ := getCellVertices_isTet ht hc
  exact ⟨p, q, r, s, h1, h2, h3⟩

/-- `get_cell_vertices(hfh)`: the cycle of `hfh` as stored, then the one vertex of the cell not on `hfh` -/
theorem get_cell_vertices_halfface (k : Kernel) (c hf : Nat) (ht : IsTet k c)
    (hc : ∀ h ∈ k.cellAt c, k.cellOf h = some c) (hm : hf ∈ k.cellAt c) :
    ∃ w, k.getCellVerticesHF hf = k.hfVerts hf ++ [w] ∧ w ∉ k.hfVerts hf ∧ w ∈ k.cellVertSet c ∧
      (k.hfVerts hf).length = 3 ∧ (∀ v ∈ k.cellVertSet c, v ∉ k.hfVerts hf → v = w) := by
  obtain ⟨p, q, r, s, _, _, hT⟩ := ht.elim
  obtain ⟨w, h1, h2, h3, h4, _, h6⟩ := getCellVerticesHF_tetOn hT hc hm
  have hmem := cellVertSet_mem_iff hT
  exact ⟨w, h1, h2, (hmem w).mpr h3, h6, fun v hv hn => h4 v ((hmem v).mp hv) hn⟩

/-- `get_cell_vertices(hfh, heh)`: the cycle of `hfh` read from the start of `heh`, then the apex -/
theorem get_cell_vertices_halfface_halfedge (k : Kernel) (c hf heh : Nat) (ht : IsTet k c)
    (hc : ∀ h ∈ k.cellAt c, k.cellOf h = some c) (hm : hf ∈ k.cellAt c) (hh : heh ∈ k.hfHes hf) :
    ∃ l w, Rot l (k.hfVerts hf) ∧ l.head? = some (k.fromV heh) ∧ k.getCellVerticesHE hf heh = l ++ [w] ∧
      w ∉ k.hfVerts hf ∧ k.getCellVerticesHF hf = k.hfVerts hf ++ [w] :=
  getCellVerticesHE_isTet ht hc hm hh

/-- `get_cell_vertices(ch, vh)`: a halfface of the cell (the first one if it contains `vh`) read from
    `vh`, then the vertex that halfface misses -/
theorem get_cell_vertices_cell_vertex (k : Kernel) (c v : Nat) (ht : IsTet k c) (hc : ∀ h ∈ k.cellAt c, k.cellOf h = some c)
    (hv : ∃ h ∈ k.cellAt c, v ∈ k.hfVerts h) :
    ∃ h' ∈ k.cellAt c, ∃ l w, Rot l (k.hfVerts h') ∧ l.head? = some v ∧ k.getCellVerticesCV c v = l ++ [w] ∧
      w ∉ k.hfVerts h' ∧ (∃ h'' ∈ k.cellAt c, w ∈ k.hfVerts h'') ∧
      (v ∈ k.hfVerts ((k.cellAt c).headD 0) → h' = (k.cellAt c).headD 0) :=
  getCellVerticesCV_isTet ht hc hv

/-- `halfface_opposite_vertex` and `vertex_opposite_halfface` are mutually inverse on a tetrahedron -/
theorem opposite_vertex_halfface_inverse (k : Kernel) (c : Nat) (ht : IsTet k c) (hc : ∀ h ∈ k.cellAt c, k.cellOf h = some c) :
    (∀ hf ∈ k.cellAt c, ∃ w, k.halffaceOppositeVertex hf = some w ∧ w ∉ k.hfVerts hf ∧ k.vertexOppositeHalfface c w = some hf) ∧
    (∀ v, (∃ h ∈ k.cellAt c, v ∈ k.hfVerts h) →
      ∃ hf, k.vertexOppositeHalfface c v = some hf ∧ hf ∈ k.cellAt c ∧ v ∉ k.hfVerts hf ∧ k.halffaceOppositeVertex hf = some v) :=
  ⟨fun _ hm => voh_hov_isTet ht hc hm, fun _ hv => hov_voh_isTet ht hc hv⟩

/-- the tet vertex iterator visits `get_cell_vertices(ch)`, lap by lap (in the model by construction:
    `TetVertexIter` copies that vector; tied to the code by the correspondence run) -/
theorem tv_iter_agrees (k : Kernel) (c : Nat) :
    k.tvIter c 1 = k.getCellVertices c ∧ k.tvIter c 2 = k.getCellVertices c ++ k.getCellVertices c := by
  simp [tvIter]

/-! ## (c) label algebra of TetTopology — kernel `decide` over the whole generated tables -/

theorem labels_vertices_distinct : OVM.Gen.TetLabels.vl.map (·.2) = [0, 1, 2, 3] := vl_distinct
theorem labels_halfedges : HelTableOK := hel_table_ok
theorem labels_halffaces_without_start : HflOppRowsOK := hfl_opp_rows_ok
theorem labels_halffaces_with_start : HflStartRowsOK := hfl_start_rows_ok
theorem labels_halfedge_slots : HehSlotsOK := heh_slots_ok
theorem labels_reference_instance : ReferenceInstanceOK := reference_instance_ok

/-! ## (d) edge collapse -/

/-- S: the abstract collapse — exactly the former cells without the edge, `a` renamed to `b`, in the same
    orientation class, still on four distinct vertices; `a` is gone; cells away from `a` are untouched -/
theorem abstract_collapse (a b : Nat) (hab : a ≠ b) (cells : List (List Nat)) (hq : ∀ t ∈ cells, t.length = 4 ∧ t.Nodup) :
    (∀ q, q ∈ absCollapse a b cells ↔ ∃ t ∈ cells, ¬(a ∈ t ∧ b ∈ t) ∧ q = t.map (substV a b)) ∧
    (∀ q ∈ absCollapse a b cells, q.length = 4 ∧ q.Nodup ∧ a ∉ q ∧
      ∃ t ∈ cells, q = t.map (substV a b) ∧ evenPerms q = (evenPerms t).map (·.map (substV a b))) ∧
    (∀ t ∈ cells, a ∉ t → t ∈ absCollapse a b cells) := by
  refine ⟨mem_absCollapse a b cells, ?_, fun t ht ha => absCollapse_untouched a b cells t ht ha⟩
  intro q hqm
  obtain ⟨h1, h2, t, ht, _, h4, h5⟩ := absCollapse_spec a b cells hq q hqm
  exact ⟨h1, h2, absCollapse_no_a a b hab cells q hqm, t, ht, h4, h5⟩

/-- the handle `collapse_edge` predicts for `b` is `b`'s image under the renumbering of the immediate
    deletion of `a`: unchanged (deferred), `corr1 a` (shift), `relabelId a (n-1)` (swap with last) -/
theorem returned_handle_arithmetic (a b n : Nat) (hab : a ≠ b) :
    (∀ f, survivingVertex true f a b n = b) ∧ survivingVertex false false a b n = corr1 a b ∧
    survivingVertex false true a b n = relabelId a (n - 1) b :=
  ⟨fun f => survivingVertex_deferred f a b n, survivingVertex_shift a b n, survivingVertex_fast a b n hab⟩

/-- M: after the immediate `delete_vertex_core(a)` every vertex column holds, at the predicted handle,
    the value vertex `b` carried: the returned handle designates `b` -/
theorem returned_handle_designates (k : Kernel) (a b : Nat) (hd : k.deferred = false) (hab : a ≠ b)
    (ha : a < k.nV) (hb : b < k.nV) (c : Col) (hc : c ∈ k.props.v) (hlen : c.vals.length = k.nV) :
    ∃ c' ∈ (k.deleteVertexCore a).props.v, c'.key = c.key ∧ c'.vals[survivingVertex false k.fast a b k.nV]? = c.vals[b]? :=
  deleteVertexCore_designates k a b hd hab ha hb c hc hlen

/-- the hypotheses of the refinement theorem: K5's global invariant, all three bottom-up caches (the C++ needs them:
    `vc_iter`, `find_halfedge`, `find_halfface`), every stored face a closed triangle, deferred deletion mode, and the
    link condition as the decidable predicate `linkCondition` the judge evaluates (it contains: the live mesh is a
    simplicial complex, the edge is live, `a ≠ b`) -/
abbrev CollapsePre (k : Kernel) (h : Nat) : Prop := CPre k h

/-- **the model algorithm refines the abstract operation, deferred deletion mode** (fast or not; all four modes:
    `collapse_refines` below).  After `collapse_edge(a → b)`:
    * the canonical oriented vertex quadruples of the live cells are, as a multiset, `absCollapse a b` of the former
      ones — exactly the former cells that did not contain both `a` and `b`, with `a` replaced by `b`, orientation kept;
    * the returned handle is `b`; `b` is not deleted; `a` is deleted. -/
theorem collapse_refines_deferred (k : Kernel) (h : Nat) (P : CollapsePre k h) :
    ((k.collapseEdge h).1.liveCells.map (fun c => canonQuad ((k.collapseEdge h).1.cellQuad c))).Perm
      ((absCollapse (k.fromV h) (k.toV h) (k.liveCells.map k.cellQuad)).map canonQuad) ∧
    (k.collapseEdge h).2 = k.toV h ∧ (k.collapseEdge h).1.vDeleted (k.toV h) = false ∧
    (k.collapseEdge h).1.vDeleted (k.fromV h) = true := by
  obtain ⟨_, _, _, _, _, _, _, _, _, _, _, _, h1, h2, h3⟩ := collapse_state P
  exact ⟨collapse_refines P, h3, h1, h2⟩

/-- **C15(d) in ALL FOUR deletion modes**: `collapse_edge(a → b)` on an edge satisfying the link condition (global kernel
    invariant, all three caches, closed triangular faces — nothing else) yields exactly the former cells that did not
    contain both `a` and `b`, with `a` replaced by `b`, orientation preserved: the canonical oriented vertex quadruples of
    the live cells afterwards are, as a multiset, those of `absCollapse a b` of the quadruples before, read through the
    renumbering `collapseRenum` of the vertex handles by the final garbage collection (identity in deferred mode, the
    shift `corr1 a` in immediate mode, the exchange of `a` with the last vertex in immediate fast mode); and the
    returned handle is the renumbered `b` — the handle that then designates `b` (property columns travel the same way:
    `returned_handle_designates`). -/
theorem collapse_refines (k : Kernel) (h : Nat) (hi : Global.GInv k) (hl : FaceLoops k) (hb : k.fullBU = true)
    (hlk : k.linkCondition h = true) :
    ((k.collapseEdge h).1.liveCells.map (fun c => canonQuad ((k.collapseEdge h).1.cellQuad c))).Perm
      ((absCollapse (k.fromV h) (k.toV h) (k.liveCells.map k.cellQuad)).map (fun t => canonQuad (t.map (collapseRenum k h)))) ∧
    (k.collapseEdge h).2 = collapseRenum k h (k.toV h) :=
  collapse_refines_all hi hl hb hlk

/-- the canonical representative only depends on the orientation class (so `Perm` of canonical quadruples is
    "the same oriented tetrahedra"), and different classes have different representatives -/
theorem canonQuad_classes (t x : List Nat) (ht : t.length = 4) (hx : x.length = 4) :
    canonQuad x = canonQuad t ↔ x ∈ evenPerms t := canonQuad_eq_iff t x ht hx

/-- the state behind `collapse_refines_deferred`, cell by cell: the re-created cells are appended to the cell array in
    the order of the star; each is a tetrahedron again whose oriented quadruple is an EVEN rearrangement of the
    quadruple of the cell it replaces with `a` renamed to `b`; an old cell is live afterwards iff it was live and
    does not contain `a`, and then its definition is untouched -/
theorem collapse_cellwise_deferred (k : Kernel) (h : Nat) (P : CollapsePre k h) :
    ∃ rem : List (Nat × List Nat), rem.map (·.1) = rebuilt k h ∧
      (k.collapseEdge h).1.cells = k.cells ++ rem.map (·.2) ∧
      (∀ c, c ∈ rebuilt k h ↔ (k.liveC c = true ∧ k.fromV h ∈ k.cellVertSet c ∧ k.toV h ∉ k.cellVertSet c)) ∧
      (∀ c, c < k.nC → ((k.collapseEdge h).1.cDeleted c = false ↔ (k.cDeleted c = false ∧ k.fromV h ∉ k.cellVertSet c))) ∧
      (∀ i (hi : i < rem.length), (k.collapseEdge h).1.cDeleted (k.nC + i) = false ∧
        IsTet (k.collapseEdge h).1 (k.nC + i) ∧
        (k.collapseEdge h).1.cellQuad (k.nC + i) ∈ evenPerms ((k.cellQuad rem[i].1).map (substV (k.fromV h) (k.toV h)))) := by
  obtain ⟨rem, k1, _, _, q5, q6, s1, s2, s3, _, s5, s6, _, _, _⟩ := collapse_state P
  refine ⟨rem, q5, s1, mem_rebuilt_iff P, s5, fun i hi => ?_⟩
  have hmem : rem[i] ∈ rem := List.getElem_mem hi
  have hreb : rem[i].1 ∈ rebuilt k h := by rw [← q5]; exact List.mem_map.mpr ⟨_, hmem, rfl⟩
  obtain ⟨hl, _, hb⟩ := (mem_rebuilt_iff P _).mp hreb
  have hcell : (k.collapseEdge h).1.cellAt (k.nC + i) = rem[i].2 := by
    unfold cellAt; rw [s1, List.getD_eq_getElem?_getD, List.getElem?_append_right (by unfold nC; omega)]
    simp [nC, hi]
  have := newCell_quad (P.isTet hl) (q6 _ hmem) (fun hx => hb hx.2) hcell (fun x _ => hfVerts_of_eq s3 s2 x)
  exact ⟨s6 i hi, this.1, this.2.1⟩

/-- **C15(c), the link from a cell to the tables**: for a cell that is a tetrahedron (`IsTet`), whose halffaces are
    closed loops and which passes the closed-surface test of `add_cell`, every constructor choice
    `TetTopology(mesh, c, abc, a)` labels consistently: no invalid handle is read; four distinct vertices, `A` the
    requested start; every labelled halfedge joins its two labelled vertices and is a halfedge of the cell; every
    labelled halfface (all 32 labels) is the cell's — for outer labels the opposite — halfface on those vertices in
    that rotation, with `triangle_topology` giving the spelled vertices and the halfedges joining them; `get_label`
    (vertex, halfedge, halfface, halfface + start vertex) inverts the accessors.  (`LabelsOK`: OVM/Tet/LabelsCell.lean) -/
theorem labels_consistent (k : Kernel) (c abc : Nat) (a : Option Nat) (ht : IsTet k c) (hm : abc ∈ k.cellAt c)
    (ha : ∀ v, a = some v → v ∈ k.hfVerts abc) (hloop : ∀ hf ∈ k.cellAt c, OVM.Tet.LabelsCell.LoopHF k hf)
    (hcl : ClosedSurface k (k.cellAt c)) :
    OVM.Tet.LabelsCell.LabelsOK k c abc a (Tet.mk k c abc a) :=
  OVM.Tet.LabelsCell.labels_consistent k c abc a ht hm ha hloop hcl

/-- WITNESSES that the two extra hypotheses are needed (`IsTet` only constrains the vertex cycles of the four
    halffaces): duplicate edges — loops, not a closed surface, an invalid handle is read; faces that are not loops,
    accepted by `add_cell` with topology check — a labelled halfedge does not join its labelled vertices, or an
    invalid handle is read.  (A precondition of `TetTopology`, not a defect: see the comment in LabelsCell.lean.) -/
theorem labels_need_closed_loops :
    (∃ k c abc, IsTet k c ∧ abc ∈ k.cellAt c ∧ (∀ hf ∈ k.cellAt c, OVM.Tet.LabelsCell.LoopHF k hf) ∧
      ¬ ClosedSurface k (k.cellAt c) ∧ (Tet.mk k c abc none).fault = true) ∧
    (∃ k c abc, IsTet k c ∧ abc ∈ k.cellAt c ∧ ClosedSurface k (k.cellAt c) ∧ k.cells.length = 1 ∧
      (Tet.mk k c abc none).fault = false ∧ (Tet.mk k c abc none).hehL 0 = some 5 ∧
      some (k.toV 5) ≠ (Tet.mk k c abc none).vhL 1) ∧
    (∃ k c abc, IsTet k c ∧ abc ∈ k.cellAt c ∧ ClosedSurface k (k.cellAt c) ∧ k.cells.length = 1 ∧
      (Tet.mk k c abc none).fault = true) :=
  ⟨OVM.Tet.LabelsCell.labelsConsistent_needs_closed, OVM.Tet.LabelsCell.labelsConsistent_needs_loops,
   OVM.Tet.LabelsCell.labelsConsistent_fault_on_accepted_cell⟩

/-! ## non-vacuity -/

/-- two tetrahedra glued along the face (0,1,2), stored once: cell 1 uses its odd halfface -/
def twoTets : Kernel :=
  let k1 := ({} : Kernel).addNVertices 5
  let k2 := (k1.tetAddCell4 0 1 2 3 true).1
  (k2.tetAddCell4 0 2 1 4 true).1

/-- … and a third one on the face (0,2,3) of the first -/
def threeTets : Kernel := (twoTets.addVertex.1.tetAddCell4 0 3 2 5 true).1

example : twoTets.cells = [[0, 2, 4, 6], [1, 8, 10, 12]] ∧ IsTet twoTets 0 ∧ IsTet twoTets 1 ∧ TetShape twoTets ∧
    ValenceShape twoTets ∧ (∀ c ∈ twoTets.liveCells, ∀ h ∈ twoTets.cellAt c, twoTets.cellOf h = some c) := by decide +kernel
-- the shared face is read in the opposite rotation by the second cell
example : twoTets.getCellVertices 0 = [0, 1, 2, 3] ∧ twoTets.getCellVertices 1 = [0, 2, 1, 4] ∧
    twoTets.getCellVerticesHE 1 3 = [2, 1, 0, 4] ∧ twoTets.getCellVerticesCV 1 4 = [4, 2, 0, 1] ∧
    twoTets.halffaceOppositeVertex 1 = some 4 ∧ twoTets.vertexOppositeHalfface 1 4 = some 1 ∧
    twoTets.halffaceOppositeVertex 3 = none := by decide +kernel
-- refused calls (wrong valence, occupied halfface) leave the state alone / leave the cells alone
example : (twoTets.tetAddFace [0, 2] true).1 = twoTets ∧ (twoTets.tetAddCell [0, 2, 4] false).1 = twoTets ∧
    (twoTets.tetAddCellV [0, 1, 2, 4] true).2 = none ∧ (twoTets.tetAddCellV [0, 1, 2, 4] true).1.cells = twoTets.cells := by decide +kernel
-- a collapse that removes two cells and rebuilds the third on the target vertex, in all four modes (tests, labelled so)
example : threeTets.linkCondition 0 = true ∧
    (threeTets.collapseEdge 0).1.liveCells.map (threeTets.collapseEdge 0).1.cellQuad = [[1, 3, 2, 5]] ∧
    absCollapse 0 1 (threeTets.liveCells.map threeTets.cellQuad) = [[1, 3, 2, 5]] ∧ (threeTets.collapseEdge 0).2 = 1 ∧
    ((threeTets.enableDeferred false).collapseEdge 0).2 = 1 ∧
    (((threeTets.enableDeferred false).enableFast false).collapseEdge 0).2 = 0 ∧
    ValenceShape (threeTets.collapseEdge 0).1 ∧ TetShape ((threeTets.enableDeferred false).collapseEdge 0).1 := by decide +kernel
-- a history in IMMEDIATE NON-FAST mode (index-shifting erases) is admissible; the theorem gives the shape (test: cross-check)
example : AdmissibleAll {} sampleImm ∧ TInv (runTetX {} sampleImm) ∧ (runTetX {} sampleImm).deferred = false ∧
    (runTetX {} sampleImm).fast = false :=
  have h := admissibleAll_of_B _ _ (by decide +kernel : admissibleAllB {} sampleImm = true)
  ⟨h, tinv_reachable _ h, by decide +kernel, by decide +kernel⟩

/-- three tetrahedra around the vertex 0 (as `threeTets`), as a history of the driver vocabulary -/
def fanOps : List TetOp := [.base (.addNVertices 6), .addCell4 true 0 1 2 3, .addCell4 true 0 2 1 4, .addCell4 true 0 3 2 5]

-- the hypotheses of the refinement theorem hold on the 3-tet fan for the halfedge 0 → 1 …
theorem fan_pre : CollapsePre (runTetX {} fanOps) 0 :=
  ⟨(tinv_reachable _ (admissibleAll_of_B _ _ (by decide +kernel))).ginv, by decide +kernel, by decide +kernel,
   by decide +kernel, by decide +kernel⟩

-- … the theorem applies, and its two sides evaluate to what it says (test, labelled so): the two cells with the edge
-- are gone, the third one is rebuilt on vertex 1 in the same orientation
example : runTetX {} fanOps = threeTets ∧ rebuilt threeTets 0 = [2] ∧
    (threeTets.collapseEdge 0).1.liveCells.map (fun c => canonQuad ((threeTets.collapseEdge 0).1.cellQuad c)) = [[1, 2, 5, 3]] ∧
    (absCollapse 0 1 (threeTets.liveCells.map threeTets.cellQuad)).map canonQuad = [[1, 2, 5, 3]] ∧
    (threeTets.collapseEdge 0).1.liveCells.map (threeTets.collapseEdge 0).1.cellQuad = [[1, 3, 2, 5]] ∧
    threeTets.cellQuad 2 = [0, 3, 2, 5] := by decide +kernel
example := collapse_refines_deferred _ 0 fan_pre
-- an admissible history in IMMEDIATE NON-FAST mode with `add_cell(vector)`, a collapse, a swap and a shifting deletion
example : TetShape (runTetX {} sampleAll) := (tetShape_reachable sampleAll sampleAll_admissible).2
-- `add_cell(v0,v1,v2,v3)`: the hypotheses hold on the two glued tets, a third tet on the face (0,2,3) is `IsTet`
example : FaceLoops twoTets.addVertex.1 ∧ AllTet twoTets.addVertex.1 ∧
    (twoTets.addVertex.1.tetAddCell4 0 3 2 5 true).2 = some 2 ∧ IsTet threeTets 2 := by decide +kernel
example : survivingVertex false false 2 5 9 = 4 ∧ survivingVertex false true 2 8 9 = 2 ∧ survivingVertex true true 2 8 9 = 8 := by decide
-- the label of a halfedge whose name spells (D, B) goes from D to B and is the opposite of BD
example : (helRow? (helVal "DB")).map (fun r => (r.from_, r.to_, r.opp)) = some (3, 1, helVal "BD") := by decide

end OVM.Props.C15

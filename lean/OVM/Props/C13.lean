/-
  C13 — Mesh copy and assignment are deep and leave the two meshes independent.

  Property theorems only.  World model: `OVM/Registry/{Registry,World}.lean`
  (`ResourceManager` copy ctor / `operator=`: anonymise, resize, clone persistent,
  ResourceManager.cc:39-84; `PropertyStorageT::clone`; `Tracker` copy semantics; the defaulted
  `TopologyKernel` copy operations as an opaque digest of every kernel field; `GeometryKernel`
  copy ctor / (cross-kind) `operator=` re-creating `"ovm:position"`, GeometryKernel.hh:59-103,216-220).
  Lemmas: `OVM/Registry/{RegistryProofs,OpProofs,WorldProofs,FrameProofs,CopyProofs}.lean`.
  The tie to the C++ is the differential run of `harness/prop_drv.cc` judged by
  `OVM/Registry/Driver.lean` (tools/registry_check.py).
-/
import OVM.Registry.CopyProofs
namespace OVM.Props.C13
open OVM.Registry

/-! ## 1. Reachable states: invariant, disjointness, memory safety of the position copy -/

/-- every state reached from the empty world by any operation sequence (any chain of copies and
    assignments, self-assignment, cross-kind, with any mix of shared / private / persistent
    properties and live handles, any mutation history on either side) satisfies `Inv` -/
theorem reachable_inv (ops : List Op) : Inv (run {} ops) := run_inv ops inv_empty

/-- `Disjoint W`: the storage ids reachable from distinct meshes (position handle, persistent set,
    tracker) are disjoint — every tracked id is owned by exactly one tracker -/
theorem disjoint (ops : List Op) {A B : Nat} (hne : A ≠ B) :
    ∀ i, i ∈ reach (run {} ops) A → i ∉ reach (run {} ops) B :=
  reach_disjoint (reachable_inv ops) hne

/-- the unchecked `std::copy` of the positions in copy construction / assignment (and
    `position_[vh] = p`) never leaves its buffer: source and target position storages have one
    slot per vertex in every reachable state (this is what failed before fix 02a7a45) -/
theorem position_copy_in_bounds (ops : List Op) : (run {} ops).fault = false :=
  (reachable_inv ops).x.noFault

/-! ## 2. Copy construction -/

/-- `Mesh dst(src)` in any state satisfying the invariant:
    * nothing that existed is touched (`heap = old ++ X`, handles unchanged);
    * the new mesh has the source's counts, topology digest (entities, definitions, deletion state,
      modes, incidence settings) and kernel type;
    * every persistent property of the source has an equal-valued clone in a FRESH storage attached
      to the new mesh (same kind, type, name, default, values; shared and persistent) — except that
      a persistent property stored under the position key receives the positions;
    * NOTHING else is attached to the new mesh besides its position property (non-persistent
      properties are not carried over);
    * the position property holds the source's positions. -/
theorem copy_is_deep {w w' : World} {src dst : Nat} {sm : Mesh} {r : Res} (hi : Inv w) (hsm : getM w src = some sm)
    (e : step w (.copy src dst) = .ok (w', r)) :
    ∃ X d p, CopySpec w w' src dst sm X d p :=
  copy_spec hi hsm e

/-- in particular everything attached to the copy lives at ids that did not exist before -/
theorem copy_storages_fresh {w w' : World} {src dst : Nat} {sm : Mesh} {r : Res} (hi : Inv w)
    (hsm : getM w src = some sm) (e : step w (.copy src dst) = .ok (w', r)) :
    ∀ s ∈ w'.heap, s.tracker = some dst → w.next ≤ s.id ∧ ∀ t ∈ w.heap, t.id ≠ s.id := by
  obtain ⟨X, d, p, cs⟩ := copy_spec hi hsm e
  intro s hs ht
  rw [cs.heap] at hs
  rcases List.mem_append.mp hs with h | h
  · -- an old storage cannot be attached to the mesh that did not exist
    exfalso
    obtain ⟨me, hme, e1⟩ := hi.x.trackerLive s h dst ht
    obtain ⟨w1, hc, _⟩ := step_ok e
    simp only [core, copyMesh, hsm] at hc
    cases hd : getM w dst with
    | none => exact getM_none hd me hme e1
    | some x => simp [hd] at hc
  · refine ⟨(cs.fresh s h).2, fun t ht e' => ?_⟩
    have := hi.x.idsLt t ht
    have := (cs.fresh s h).2
    omega

/-! ## 3. Assignment -/

/-- `dst = src` (distinct meshes, same or different kernel types): the target gets the source's
    counts and topology digest and fresh equal-valued clones of its persistent properties, its own
    earlier properties are anonymised (nothing of them is shared or persistent any more), and every
    handle obtained earlier from the target still resolves to the same attached storage, resized to
    the new entity counts, and is no longer findable by name -/
theorem assign_is_deep {w w' : World} {dst src : Nat} {sm dm : Mesh} {r : Res} (hi : Inv w) (hne : dst ≠ src)
    (hsm : getM w src = some sm) (hdm : getM w dst = some dm)
    (e : step w (.assign dst src) = .ok (w', r)) :
    ∃ X d p, AssignSpec w w' dst src sm dm X d p :=
  assign_spec hi hne hsm hdm e

/-- self-assignment is the identity -/
theorem self_assignment_identity {w : World} {a : Nat} (hi : Inv w) (ha : (getM w a).isSome = true) :
    step w (.assign a a) = .ok (w, .unit) :=
  self_assign hi ha

/-- the source of a copy or an assignment is not changed by it -/
theorem source_unchanged {w w' : World} {src dst : Nat} {r : Res} (hi : Inv w) (hne : src ≠ dst) :
    (step w (.copy src dst) = .ok (w', r) → SameView w' w src) ∧
    (step w (.assign dst src) = .ok (w', r) → SameView w' w src) :=
  ⟨fun e => frame_mesh hi e (by simpa [Op.touches] using hne),
   fun e => frame_mesh hi e (by simpa [Op.touches] using hne)⟩

/-! ## 4. Independence afterwards: the frame theorem -/

/-- one operation on mesh `A` (a registry call, a property write or rename through a handle of `A`,
    a handle copy / move / drop, a topology change, a copy into / assignment to / destruction of `A`)
    leaves everything mesh `B ≠ A` can see unchanged: its record (counts, topology digest, position
    handle, persistent set) and the set of storages it tracks with all their contents -/
theorem frame_mesh_step {w w' : World} {op : Op} {r : Res} (hi : Inv w) (e : step w op = .ok (w', r))
    {B : Nat} (hB : B ∉ op.touches w) : SameView w' w B :=
  frame_mesh hi e hB

/-- … and every handle whose storage is neither attached to the operated mesh nor the storage the
    call addresses still sees exactly the same storage (this covers handles that outlived their mesh) -/
theorem frame_handle_step {w w' : World} {op : Op} {r : Res} (hi : Inv w) (e : step w op = .ok (w', r))
    {h : Nat} {s : Storage} (hv : hview w h = some s) (hT : ∀ A ∈ op.touches w, s.tracker ≠ some A)
    (hO : s.id ∉ op.operated w) : hview w' h = some s :=
  frame_handle hi e hv hT hO

/-- for every operation sequence after any reachable state (i.e. after any chain of copies and
    assignments): as long as no operation touches mesh `B`, `B` looks the same at the end -/
theorem frame_history (ops₀ ops : List Op) {B : Nat} (hu : Untouched B (run {} ops₀) ops) :
    SameView (run (run {} ops₀) ops) (run {} ops₀) B :=
  frame_run ops (reachable_inv ops₀) hu

/-! ## 5. Non-vacuity -/

/-- source with a persistent, a shared and a private property and live handles; a copy; an
    assignment into a mesh that has its own persistent + private properties and live handles;
    then mutation of either side -/
def demo : List Op :=
  [.newMesh 0 0 1, .addVertex 0 5 2, .addVertex 0 6 3,
   .createPersistent 0 0 .V .int "p" 7, .write 0 1 42,
   .createShared 0 1 .V .int "s" 1, .createPrivate 0 2 .V .int "q" 2,
   .copy 0 1,                                            -- mesh 1 := copy of mesh 0
   .newMesh 2 1 9, .addVertex 2 8 10, .createPersistent 2 3 .V .int "p" 3, .createPrivate 2 4 .V .int "x" 4,
   .assign 2 0]                                          -- tet mesh 2 := poly mesh 0 (cross-kind)

def demoW : World := run {} demo

/-- the copy (mesh 1) and the assigned-to mesh (mesh 2) hold fresh equal-valued clones of "p" only;
    the old handles 3 and 4 of mesh 2 are anonymised and resized to two vertices -/
example :
    ((demoW.heap.filter (fun s => s.tracker == some 1)).map (fun s => (s.id, s.name, s.pers, s.vals))) =
      [(5, "p", true, [7, 42]), (8, "ovm:position", false, [5, 6])] ∧
    ((demoW.heap.filter (fun s => s.tracker == some 2)).map (fun s => (s.id, s.name, s.shared, s.vals))) =
      [(10, "p", false, [3, 3]), (11, "x", false, [4, 4]), (13, "p", true, [7, 42]), (24, "ovm:position", true, [5, 6])] ∧
    demoW.handles = [(4, 11), (3, 10), (2, 3), (1, 2), (0, 1)] ∧
    find demoW 2 .V .int "p" = some 13 ∧ (getM demoW 2).map (·.cnt.nV) = some 2 ∧
    (getM demoW 2).map (·.topo) = (getM demoW 0).map (·.topo) ∧ demoW.fault = false := by
  decide

/-- mutate one side, inspect the others: writing through the source's handle, adding a vertex to
    the copy and clearing the assigned mesh changes neither of the other two meshes -/
example :
    view (run demoW [.write 0 0 99, .addVertex 1 77 5, .clear 2 true 6]) 0 =
      view (run demoW [.write 0 0 99]) 0 ∧
    view (run demoW [.write 0 0 99, .addVertex 1 77 5, .clear 2 true 6]) 1 =
      view (run demoW [.addVertex 1 77 5]) 1 := by
  decide

/-- the hypothesis of `frame_history` is satisfiable by a history that does a lot to the others -/
example : Untouched 2 demoW [.write 0 0 99, .addVertex 1 77 5, .setName 1 "t", .hdrop 2, .destroy 0] := by
  simp only [Untouched]; decide

/-- self-assignment on a non-trivial state -/
example : (step demoW (.assign 2 2)).toOption = some (demoW, .unit) := by decide

end OVM.Props.C13

/-
  C13 — Mesh copy and assignment are deep and leave the two meshes independent.

  Property theorems only.  World model: `OVM/Registry/{Registry,World}.lean`
  (`ResourceManager` copy ctor / `operator=`: anonymise, resize, clone persistent,
  ResourceManager.cc:39-84; `PropertyStorageT::clone`; `Tracker` copy semantics; the defaulted
  `TopologyKernel` copy operations as an opaque digest of every kernel field; `GeometryKernel`
  copy ctor / (cross-kind) `operator=` re-creating `"ovm:position"`, GeometryKernel.hh:59-103,216-220).
  Lemmas: `OVM/Registry/{RegistryProofs,OpProofs,WorldProofs,FrameProofs,CopyProofs}.lean`.
  The tie to the C++ is the differential run of `harness/prop_drv.cc` judged by
  `OVM/Registry/Driver.lean` (tools/registry_check.py).
  Section 6: the digest line `topo := source.topo` of the model is justified from the table
  `OVM/Gen/CopyFields.lean` that tools/t6_copyfields.py regenerates from the clang AST of the
  current sources (data members, their types, special member functions of the kernel classes);
  predicates and the member-wise copy semantics: `OVM/Registry/CopyFields.lean`.
-/
import OVM.Registry.CopyProofs
import OVM.Registry.CopyFields
namespace OVM.Props.C13
open OVM.Registry

/-! ## 1. Reachable states: invariant, disjointness, memory safety of the position copy -/

/-- every state reached from the empty world by any operation sequence (any chain of copies and
    assignments, self-assignment, cross-kind, with any mix of shared / private / persistent
    properties and live handles, any mutation history on either side) satisfies `Inv` -/
theorem reachable_inv (ops : List Op) : Inv (run {} ops) := run_inv ops inv_empty

/-- `Disjoint W`: the storage ids reachable from distinct meshes (position handle, persistent set,
    tracker) are disjoint — every tracked id is owned by exactly one tracker -/
theorem disjoint (ops : List Op) {A B : Nat} (hne : A ≠ B) :
    ∀ i, i ∈ reach (run {} ops) A → i ∉ reach (run {} ops) B :=
  reach_disjoint (reachable_inv ops) hne

/-- the unchecked `std::copy` of the positions in copy construction / assignment (and
    `position_[vh] = p`) never leaves its buffer: source and target position storages have one
    slot per vertex in every reachable state (this is what failed before fix 02a7a45) -/
theorem position_copy_in_bounds (ops : List Op) : (run {} ops).fault = false :=
  (reachable_inv ops).x.noFault

/-! ## 2. Copy construction -/

/-- `Mesh dst(src)` in any state satisfying the invariant:
    * nothing that existed is touched (`heap = old ++ X`, handles unchanged);
    * the new mesh has the source's counts, topology digest (entities, definitions, deletion state,
      modes, incidence settings) and kernel type;
    * every persistent property of the source has an equal-valued clone in a FRESH storage attached
      to the new mesh (same kind, type, name, default, values; shared and persistent) — except that
      a persistent property stored under the position key receives the positions;
    * NOTHING else is attached to the new mesh besides its position property (non-persistent
      properties are not carried over);
    * the position property holds the source's positions. -/
theorem copy_is_deep {w w' : World} {src dst : Nat} {sm : Mesh} {r : Res} (hi : Inv w) (hsm : getM w src = some sm)
    (e : step w (.copy src dst) = .ok (w', r)) :
    ∃ X d p, CopySpec w w' src dst sm X d p :=
  copy_spec hi hsm e

/-- in particular everything attached to the copy lives at ids that did not exist before -/
theorem copy_storages_fresh {w w' : World} {src dst : Nat} {sm : Mesh} {r : Res} (hi : Inv w)
    (hsm : getM w src = some sm) (e : step w (.copy src dst) = .ok (w', r)) :
    ∀ s ∈ w'.heap, s.tracker = some dst → w.next ≤ s.id ∧ ∀ t ∈ w.heap, t.id ≠ s.id := by
  obtain ⟨X, d, p, cs⟩ := copy_spec hi hsm e
  intro s hs ht
  rw [cs.heap] at hs
  rcases List.mem_append.mp hs with h | h
  · -- an old storage cannot be attached to the mesh that did not exist
    exfalso
    obtain ⟨me, hme, e1⟩ := hi.x.trackerLive s h dst ht
    obtain ⟨w1, hc, _⟩ := step_ok e
    simp only [core, copyMesh, hsm] at hc
    cases hd : getM w dst with
    | none => exact getM_none hd me hme e1
    | some x => simp [hd] at hc
  · refine ⟨(cs.fresh s h).2, fun t ht e' => ?_⟩
    have := hi.x.idsLt t ht
    have := (cs.fresh s h).2
    omega

/-! ## 3. Assignment -/

/-- `dst = src` (distinct meshes, same or different kernel types): the target gets the source's
    counts and topology digest and fresh equal-valued clones of its persistent properties, its own
    earlier properties are anonymised (nothing of them is shared or persistent any more), and every
    handle obtained earlier from the target still resolves to the same attached storage, resized to
    the new entity counts, and is no longer findable by name -/
theorem assign_is_deep {w w' : World} {dst src : Nat} {sm dm : Mesh} {r : Res} (hi : Inv w) (hne : dst ≠ src)
    (hsm : getM w src = some sm) (hdm : getM w dst = some dm)
    (e : step w (.assign dst src) = .ok (w', r)) :
    ∃ X d p, AssignSpec w w' dst src sm dm X d p :=
  assign_spec hi hne hsm hdm e

/-- self-assignment is the identity -/
theorem self_assignment_identity {w : World} {a : Nat} (hi : Inv w) (ha : (getM w a).isSome = true) :
    step w (.assign a a) = .ok (w, .unit) :=
  self_assign hi ha

/-- the source of a copy or an assignment is not changed by it -/
theorem source_unchanged {w w' : World} {src dst : Nat} {r : Res} (hi : Inv w) (hne : src ≠ dst) :
    (step w (.copy src dst) = .ok (w', r) → SameView w' w src) ∧
    (step w (.assign dst src) = .ok (w', r) → SameView w' w src) :=
  ⟨fun e => frame_mesh hi e (by simpa [Op.touches] using hne),
   fun e => frame_mesh hi e (by simpa [Op.touches] using hne)⟩

/-! ## 4. Independence afterwards: the frame theorem -/

/-- one operation on mesh `A` (a registry call, a property write or rename through a handle of `A`,
    a handle copy / move / drop, a topology change, a copy into / assignment to / destruction of `A`)
    leaves everything mesh `B ≠ A` can see unchanged: its record (counts, topology digest, position
    handle, persistent set) and the set of storages it tracks with all their contents -/
theorem frame_mesh_step {w w' : World} {op : Op} {r : Res} (hi : Inv w) (e : step w op = .ok (w', r))
    {B : Nat} (hB : B ∉ op.touches w) : SameView w' w B :=
  frame_mesh hi e hB

/-- … and every handle whose storage is neither attached to the operated mesh nor the storage the
    call addresses still sees exactly the same storage (this covers handles that outlived their mesh) -/
theorem frame_handle_step {w w' : World} {op : Op} {r : Res} (hi : Inv w) (e : step w op = .ok (w', r))
    {h : Nat} {s : Storage} (hv : hview w h = some s) (hT : ∀ A ∈ op.touches w, s.tracker ≠ some A)
    (hO : s.id ∉ op.operated w) : hview w' h = some s :=
  frame_handle hi e hv hT hO

/-- for every operation sequence after any reachable state (i.e. after any chain of copies and
    assignments): as long as no operation touches mesh `B`, `B` looks the same at the end -/
theorem frame_history (ops₀ ops : List Op) {B : Nat} (hu : Untouched B (run {} ops₀) ops) :
    SameView (run (run {} ops₀) ops) (run {} ops₀) B :=
  frame_run ops (reachable_inv ops₀) hu

/-! ## 5. Non-vacuity -/

/-- source with a persistent, a shared and a private property and live handles; a copy; an
    assignment into a mesh that has its own persistent + private properties and live handles;
    then mutation of either side -/
def demo : List Op :=
  [.newMesh 0 0 1, .addVertex 0 5 2, .addVertex 0 6 3,
   .createPersistent 0 0 .V .int "p" 7, .write 0 1 42,
   .createShared 0 1 .V .int "s" 1, .createPrivate 0 2 .V .int "q" 2,
   .copy 0 1,                                            -- mesh 1 := copy of mesh 0
   .newMesh 2 1 9, .addVertex 2 8 10, .createPersistent 2 3 .V .int "p" 3, .createPrivate 2 4 .V .int "x" 4,
   .assign 2 0]                                          -- tet mesh 2 := poly mesh 0 (cross-kind)

def demoW : World := run {} demo

/-- the copy (mesh 1) and the assigned-to mesh (mesh 2) hold fresh equal-valued clones of "p" only;
    the old handles 3 and 4 of mesh 2 are anonymised and resized to two vertices -/
example :
    ((demoW.heap.filter (fun s => s.tracker == some 1)).map (fun s => (s.id, s.name, s.pers, s.vals))) =
      [(5, "p", true, [7, 42]), (8, "ovm:position", false, [5, 6])] ∧
    ((demoW.heap.filter (fun s => s.tracker == some 2)).map (fun s => (s.id, s.name, s.shared, s.vals))) =
      [(10, "p", false, [3, 3]), (11, "x", false, [4, 4]), (13, "p", true, [7, 42]), (24, "ovm:position", true, [5, 6])] ∧
    demoW.handles = [(4, 11), (3, 10), (2, 3), (1, 2), (0, 1)] ∧
    find demoW 2 .V .int "p" = some 13 ∧ (getM demoW 2).map (·.cnt.nV) = some 2 ∧
    (getM demoW 2).map (·.topo) = (getM demoW 0).map (·.topo) ∧ demoW.fault = false := by
  decide

/-- mutate one side, inspect the others: writing through the source's handle, adding a vertex to
    the copy and clearing the assigned mesh changes neither of the other two meshes -/
example :
    view (run demoW [.write 0 0 99, .addVertex 1 77 5, .clear 2 true 6]) 0 =
      view (run demoW [.write 0 0 99]) 0 ∧
    view (run demoW [.write 0 0 99, .addVertex 1 77 5, .clear 2 true 6]) 1 =
      view (run demoW [.addVertex 1 77 5]) 1 := by
  decide

/-- the hypothesis of `frame_history` is satisfiable by a history that does a lot to the others -/
example : Untouched 2 demoW [.write 0 0 99, .addVertex 1 77 5, .setName 1 "t", .hdrop 2, .destroy 0] := by
  simp only [Untouched]; decide

/-- self-assignment on a non-trivial state -/
example : (step demoW (.assign 2 2)).toOption = some (demoW, .unit) := by decide

/-! ## 6. Topology: `topo := source.topo` is member-wise copy of value members (regenerated table T6) -/

open OVM.Registry.CopyFields in
/-- read off the sources by T6: `TopologyKernel` and the tetrahedral / hexahedral kernels have
    implicit or defaulted copy constructor and copy assignment, all their data members are of value
    type (no pointer, reference, smart pointer, function object) and none is `mutable`; the derived
    kernels add no data member at all (so the `TopologyKernel::operator=` call inside
    `GeometryKernel::operator=` copies the whole kernel state also across kernel types); the single
    inheritance chain is GeometryKernel → kernel → TopologyKernel → ResourceManager; the only
    classes with user-provided copy operations are `ResourceManager` and `GeometryKernel`, whose
    data members are exactly the ones the world model mirrors by hand (`persistent_props_`,
    `storage_trackers_`, `position_`); and every data member of `TopologyKernel` is observed by the
    digest the correspondence run compares (`digestCovers`) -/
theorem topology_copy_is_memberwise :
    (∀ n ∈ ["TopologyKernel", "TetrahedralMeshTopologyKernel", "HexahedralMeshTopologyKernel"],
        (find n).map MemberwiseDeep = some true) ∧
    ((find "TetrahedralMeshTopologyKernel").map fieldNames = some [] ∧
     (find "HexahedralMeshTopologyKernel").map fieldNames = some []) ∧
    ((OVM.Gen.CopyFields.classes.filter hasUserCopy).map (·.name) =
      ["ResourceManager", "GeometryKernel<VecT, TopologyKernelT>", "GeometryKernel<Vec3d, TopologyKernel>",
       "GeometryKernel<Vec3d, TetrahedralMeshTopologyKernel>", "GeometryKernel<Vec3d, HexahedralMeshTopologyKernel>"] ∧
     (OVM.Gen.CopyFields.classes.filter (fun c => !hasUserCopy c)).all MemberwiseDeep = true) ∧
    ((find "ResourceManager").map fieldNames = some ["persistent_props_", "storage_trackers_"] ∧
     OVM.Gen.CopyFields.classes.all
       (fun c => !hasUserCopy c || c.name == "ResourceManager" || fieldNames c == ["position_"]) = true) ∧
    ((find "TopologyKernel").map fun c =>
        (fieldNames c).all (fun n => digestCovers.any (·.1 == n)) &&
        digestCovers.all (fun e => (fieldNames c).contains e.1 && e.2 != "")) = some true := by
  refine ⟨?_, derived_kernels_add_no_state, user_provided_copy_classes, hand_mirrored_state, digest_covers_every_field⟩
  intro n hn
  simp only [List.mem_cons, List.not_mem_nil, or_false] at hn
  rcases hn with rfl | rfl | rfl
  · exact topologyKernel_copy_is_memberwise_deep
  · exact tetKernel_copy_is_memberwise_deep
  · exact hexKernel_copy_is_memberwise_deep

open OVM.Registry.CopyFields in
/-- what that gives, for the `TopologyKernel` row `tk` of the regenerated table and ANY kernel
    object state `src` typed by it: the member-wise copy (over whatever `dst` held) agrees with the
    source on every data member, shares no storage with it, and every observer that reads kernel
    members only -- the digest, any public query -- returns the same on copy and source -/
theorem topology_copy_preserves_every_observer :
    ∃ tk, find "TopologyKernel" = some tk ∧ tk.fields ≠ [] ∧
      ∀ (src dst : Obj), Typed tk src →
        (∀ f ∈ tk.fields, memberwise tk src dst f.name = src f.name) ∧
        ¬ Aliases tk (memberwise tk src dst) src ∧
        (∀ {α : Type} (obs : Obj → α), (∀ a b : Obj, (∀ f ∈ tk.fields, a f.name = b f.name) → obs a = obs b) →
          obs (memberwise tk src dst) = obs src) := by
  have h := topologyKernel_copy_is_memberwise_deep
  cases hf : find "TopologyKernel" with
  | none => rw [hf] at h; cases h
  | some tk =>
    rw [hf] at h
    simp only [Option.map_some, Option.some.injEq] at h
    refine ⟨tk, rfl, ?_, fun src dst ht => memberwise_deep_sound h ht dst⟩
    intro he
    have hd := digest_covers_every_field
    rw [hf] at hd
    simp only [Option.map_some, Option.some.injEq, fieldNames, he, List.map_nil, List.all_nil, Bool.true_and] at hd
    revert hd
    decide

open OVM.Registry.CopyFields in
/-- `copy_is_deep` / `assign_is_deep` together with the table: the topology digest the model gives
    the target (`d.topo`) is the digest of the MEMBER-WISE COPY of the source's kernel object, for
    every digest function that reads kernel members only and every typed kernel object `ks` whose
    digest the source carries; and that copy shares no storage with the source -/
theorem copy_assign_topology_is_memberwise_copy {w w' : World} {a b : Nat} {sm : Mesh} {r : Res} (hi : Inv w)
    (hne : a ≠ b) (hsm : getM w a = some sm)
    (e : step w (.copy a b) = .ok (w', r) ∨ ((getM w b).isSome = true ∧ step w (.assign b a) = .ok (w', r))) :
    ∃ d tk, getM w' b = some d ∧ d.cnt = sm.cnt ∧ find "TopologyKernel" = some tk ∧
      ∀ (digest : Obj → Nat), (∀ x y : Obj, (∀ f ∈ tk.fields, x f.name = y f.name) → digest x = digest y) →
        ∀ (ks old : Obj), Typed tk ks → sm.topo = digest ks →
          d.topo = digest (memberwise tk ks old) ∧ ¬ Aliases tk (memberwise tk ks old) ks := by
  obtain ⟨tk, htk, _, hall⟩ := topology_copy_preserves_every_observer
  have key : ∀ d : Mesh, d.topo = sm.topo →
      ∀ (digest : Obj → Nat), (∀ x y : Obj, (∀ f ∈ tk.fields, x f.name = y f.name) → digest x = digest y) →
        ∀ (ks old : Obj), Typed tk ks → sm.topo = digest ks →
          d.topo = digest (memberwise tk ks old) ∧ ¬ Aliases tk (memberwise tk ks old) ks := by
    intro d hd digest hloc ks old ht hs
    obtain ⟨_, hna, hobs⟩ := hall ks old ht
    exact ⟨by rw [hd, hs, hobs digest hloc], hna⟩
  rcases e with e | ⟨hb, e⟩
  · obtain ⟨X, d, p, cs⟩ := copy_spec hi hsm e
    exact ⟨d, tk, cs.mesh, cs.cnt, htk, key d cs.topo⟩
  · cases hdm : getM w b with
    | none => rw [hdm] at hb; cases hb
    | some dm =>
      obtain ⟨X, d, p, as⟩ := assign_spec hi (Ne.symm hne) hsm hdm e
      exact ⟨d, tk, as.mesh, as.cnt, htk, key d as.topo⟩

open OVM.Registry.CopyFields OVM.Gen.CopyFields in
/-- non-vacuity: a typed kernel object exists; the predicate is not trivially true (it is false for
    `ResourceManager`, whose members hold `shared_ptr`s / raw pointers and whose copy operations
    are user-provided); a row with one `std::shared_ptr` member fails it, and its member-wise copy
    does alias the source -/
example :
    (∃ tk, find "TopologyKernel" = some tk ∧ Typed tk (fun _ => .val 0) ∧ tk.fields.length = 20) ∧
    (find "ResourceManager").map MemberwiseDeep = some false ∧
    (let bad : ClassInfo := { name := "K", file := "", bases := [], copyCtor := .defaulted, copyAssign := .defaulted,
                              moveCtor := .absent, moveAssign := .absent, dtor := .implicit,
                              fields := [{ name := "cache_", ty := "std::shared_ptr<std::vector<int>>", written := "",
                                           cls := .pointer, isMutable := false }] }
     MemberwiseDeep bad = false ∧ Aliases bad (memberwise bad (fun _ => .ref 7) (fun _ => .val 0)) (fun _ => .ref 7)) := by
  refine ⟨?_, by decide, by decide, ?_⟩
  · cases hf : find "TopologyKernel" with
    | none => exact absurd hf (by decide)
    | some tk =>
      refine ⟨tk, rfl, fun f _ _ => ⟨0, rfl⟩, ?_⟩
      have : (find "TopologyKernel").map (·.fields.length) = some 20 := by decide
      rw [hf] at this
      simpa using this
  · exact ⟨_, List.mem_singleton.mpr rfl, _, List.mem_singleton.mpr rfl, 7, by decide, rfl⟩

/-- non-vacuity of the combined statement on the demo world: mesh 1 is a copy of mesh 0 -/
example : (getM demoW 1).map (·.topo) = (getM demoW 0).map (·.topo) := by decide

end OVM.Props.C13

import OVM.IO.Ovmb.FramingLemmas
import OVM.IO.Ovmb.RoundTripExample
import OVM.IO.Ovmb.RoundTripInterleavedExample
import OVM.IO.Ovmb.RoundTripPermitted
import OVM.IO.Ovmb.RoundTripWriterLayout
/-
  C06, OVMB half — the format relation and the end-to-end round-trip theorems.

  Subject: lean/OVM/IO/{Prim,Codec}.lean (primitive and property-value codecs), Ovmb/{Format,Encode,Permissive,
  Decode}.lean (abstract file, writer, the *permitted encodings* relation `Encodes`, reader).  Constants come
  from OVM/Gen/OvmbConsts.lean, regenerated from the current sources on every run (translator T4).

  Proved here for values / lists of any size: every layer the writer and reader are built from is a round trip
  (little-endian integers of every width, integer arrays, bit-packed bools, every registered value codec for
  any number of values), the writer's integer-width selection always fits the handles it is used for, the
  writer refuses a mesh with pending deletions without writing a byte.
  **Writer round trip (end to end)**: `writer_roundtrip` — for every well-formed `F` and every reading
  configuration that accepts its faces and cells as written (`Accepts`; every polyhedral read without topology
  check does, `writer_roundtrip_poly`), `decode cfg (encode F) = .ok F`: same counts, positions bit for bit,
  edge / face / cell definitions handle for handle, properties with kind, name, type, default and values, in
  directory order.  Hypothesis besides `WFFile` and `Accepts`: the file is shorter than 2^64 bytes (`SizeOk`, the
  width of the chunk length field; `WFFile` bounds every count by 2^32 but not their product with string
  lengths).  Until /repo commit 5071116 the reader multiplied `valence * count` of a fixed-valence TOPO chunk in
  32 bits and rejected the writer's own file beyond 2^32 / valence faces (finding O2-topo-valence-product-overflow,
  found by this proof; fixed, the model follows the fix, no such hypothesis remains).
  Lemmas: OVM/IO/Ovmb/RoundTrip{Frame,Chunks,Trunc,States,Writer}.lean.
  **Every permitted encoding (end to end)**: `permitted_roundtrip` — for every well-formed `F`, every byte string
  `bytes` with `Encodes bytes F` (any valid `Layout`: spans, widths, offsets, fixed / variable valence, exact float
  vertices, skippable chunks, paddings ≤ 255, file version, chunk order) and every polyhedral read without
  topology check, `decode cfg bytes = .ok F`.  This is the former placeholder `RoundtripStatement`; its hypotheses
  are: `WFFile F`, `Encodes bytes F`, polyhedral target without topology check, and `bytes.length < 2^64` (a
  skippable chunk's payload is otherwise unbounded and would not fit the 64-bit chunk length field).
  Lemmas: OVM/IO/Ovmb/RoundTrip{LayoutBase,Layout,Permitted}.lean (`stOf`, `CurOk`, `lstep_*`, `layout_run`).
  **The writer's bytes conform to the format description**: `writer_bytes_permitted` — for every well-formed `F`,
  `Encodes (encode F) F` (`ValidLayout (writerLayout F) F` and `encodeWith (writerLayout F) F = encode F`;
  OVM/IO/Ovmb/RoundTripWriterLayout.lean).
  **Permitted encodings into tetrahedral / hexahedral targets or with topology check**:
  `permitted_roundtrip_any_layout` — EVERY valid layout (edge, face and cell spans interleaved in any way the
  format permits; no ordering condition), every target kind, topology check on or off, for every configuration with
  `Accepts cfg F`: `decode cfg (encodeWith L F) = .ok F`; `permitted_roundtrip_accepting` is the same statement
  over `Encodes bytes F`.  Why it holds: (1) `ValidLayout` lets a face span reference only halfedges of edges
  written EARLIER (`pieceOk`: handles `< 2 * cur.e`; the reader range-checks handles against the entities read so
  far, not the header counts), likewise cells and faces, so every face read so far uses only edges read so far
  (`FClosed`); (2) `add_face` / `add_cell` — loop check, valence 3 / 4, closed-surface check, distinct-vertex
  guard, parallel-halfedge guard, opposite-pairs guard — read only the edges of the face's halfedges resp. the
  faces of the cell's halffaces and the edges of those (`addFace_congr`, `addCell_transport`), so the verdict
  `Accepts` records for the complete lists is the verdict on the prefix the reader has (`adm_of_accepts`).
  Only hypothesis beyond `Accepts`: for a HEXAHEDRAL target WITH topology check the ordering oracle
  `cfg.hexOrder` (abstract in the model) must be local — `HexLocal`: its answer for a six-halfface cell is the same
  on a prefix of the face list holding the cell's faces as on the full list.  The oracle the compiled judge
  compares with the C++ (`Judge.hexOrderStd`) is proved local (`judge_cfg_hexLocal`), so
  `permitted_roundtrip_any_layout_judge` has no such hypothesis; neither have polyhedral / tetrahedral targets
  or reads without topology check.  `hexLocal_needed`: the hypothesis cannot be dropped for an arbitrary oracle
  (a non-local one accepts the complete two-cube mesh and refuses a valid interleaved layout of it).
  Lemmas: OVM/IO/Ovmb/RoundTrip{Local,Interleaved,HexStd,InterleavedExample}.lean.
  Special cases kept: `permitted_roundtrip_ordered` (layouts with `topoOrdered`, no `HexLocal` needed),
  `permitted_roundtrip_admitted` (any valid layout, given acceptance of each span against the edges / faces read
  so far, `AdmAll`).
-/
namespace OVM.Props.C06
open OVM.Ovmb OVM.Gen.Ovmb Dec

/-- the round-trip statement for every permitted encoding.  Hypotheses: `F` is a well-formed writer input, `bytes`
    is one of its permitted encodings, the target is a polyhedral mesh read without topology check, and the byte
    string is shorter than 2^64 (the width of the chunk length field). -/
def RoundtripStatement : Prop :=
  ∀ (cfg : Cfg) (F : File) (bytes : Bytes), WFFile F = true → Encodes bytes F →
    (cfg.kind = .poly ∧ cfg.topoCheck = false) → bytes.length < 2 ^ 64 →
    decode cfg bytes = .ok F

/-- **every permitted encoding reads to the same mesh** -/
theorem permitted_roundtrip : RoundtripStatement := by
  intro cfg F bytes hwf ⟨L, hval, hb⟩ ⟨hk, ht⟩ hsize
  subst hb
  exact decode_encodeWith cfg F hk ht L hwf hval hsize

/-- **permitted encodings into any accepting target** (tetrahedral / hexahedral mesh types, topology check on): a
    valid layout that writes its topology in dependency order (`topoOrdered`: face spans after all edges, cell
    spans after all edges and faces; spans may be split, everything else goes anywhere) reads to the same mesh
    for every reading configuration that accepts the file's faces and cells as written -/
theorem permitted_roundtrip_ordered (cfg : Cfg) (F : File) (L : Layout) (hwf : WFFile F = true)
    (hval : ValidLayout L F = true) (hsize : (encodeWith L F).length < 2 ^ 64) (hacc : Accepts cfg F)
    (hord : topoOrdered F {} L.pieces = true) : decode cfg (encodeWith L F) = .ok F :=
  decode_encodeWith_ordered cfg F L hwf hval hsize hacc hord

/-- the general form: any valid layout, any target that can hold the topology type and accepts every face / cell
    span at the point where the layout has it read (`AdmAll`: acceptance given the edges / faces read so far) -/
theorem permitted_roundtrip_admitted (cfg : Cfg) (F : File) (L : Layout) (hwf : WFFile F = true)
    (hval : ValidLayout L F = true) (hsize : (encodeWith L F).length < 2 ^ 64)
    (htet : cfg.kind = .tet → F.topo = topoTypeTetrahedral) (hhex : cfg.kind = .hex → F.topo = topoTypeHexahedral)
    (hadm : AdmAll cfg F {} L.pieces) : decode cfg (encodeWith L F) = .ok F :=
  decode_encodeWith_adm cfg F L hwf hval hsize htet hhex hadm

/-- **every permitted encoding into every accepting target**: every valid layout — edge, face and cell spans
    interleaved in any way the format permits, no ordering condition — reads to the same mesh for every reading
    configuration that accepts the file's faces and cells as written: polyhedral, tetrahedral and hexahedral
    targets, topology check on or off.  Hypotheses: `F` well formed, `L` valid for `F`, the bytes shorter than
    2^64, `Accepts cfg F`, and — only for a hexahedral target read with topology check — the ordering oracle is
    local (`HexLocal`: it reads only the faces of the halffaces it is given). -/
theorem permitted_roundtrip_any_layout (cfg : Cfg) (F : File) (L : Layout) (hwf : WFFile F = true)
    (hval : ValidLayout L F = true) (hsize : (encodeWith L F).length < 2 ^ 64) (hacc : Accepts cfg F)
    (hloc : cfg.kind = .hex → cfg.topoCheck = true → HexLocal cfg) : decode cfg (encodeWith L F) = .ok F :=
  decode_encodeWith_any cfg F L hwf hval hsize hacc hloc

/-- the same over the format relation: every byte string the format description permits for `F` -/
theorem permitted_roundtrip_accepting (cfg : Cfg) (F : File) (bytes : Bytes) (hwf : WFFile F = true)
    (henc : Encodes bytes F) (hsize : bytes.length < 2 ^ 64) (hacc : Accepts cfg F)
    (hloc : cfg.kind = .hex → cfg.topoCheck = true → HexLocal cfg) : decode cfg bytes = .ok F := by
  obtain ⟨L, hval, hb⟩ := henc
  subst hb
  exact decode_encodeWith_any cfg F L hwf hval hsize hacc hloc

/-- for the reading configurations the compiled judge compares with the C++ (`Judge.mkCfg k tc`, every mesh kind,
    topology check on or off, the concrete `check_halfface_ordering`) no hypothesis on the oracle remains -/
theorem permitted_roundtrip_any_layout_judge (k : MeshKind) (tc : Bool) (F : File) (L : Layout)
    (hwf : WFFile F = true) (hval : ValidLayout L F = true) (hsize : (encodeWith L F).length < 2 ^ 64)
    (hacc : Accepts (Judge.mkCfg k tc) F) : decode (Judge.mkCfg k tc) (encodeWith L F) = .ok F :=
  decode_encodeWith_any _ F L hwf hval hsize hacc (fun _ _ => judge_cfg_hexLocal k tc)

/-- `HexLocal` cannot be dropped from `permitted_roundtrip_any_layout` (a statement about the model's abstract
    oracle, evaluated on one input): a hexahedral configuration whose ordering step depends on how many faces the
    mesh holds (`Example.nonLocalCfg`) accepts every face and cell of the two-cube file, the layout "first cube
    complete, then the second" is valid and short, and the read is refused.  With the judge's (local) ordering
    check the same bytes read to the same mesh. -/
theorem hexLocal_needed :
    WFFile Example.twoCubes = true ∧ ValidLayout Example.twoCubesLayout Example.twoCubes = true ∧
    (encodeWith Example.twoCubesLayout Example.twoCubes).length < 2 ^ 64 ∧
    Accepts Example.nonLocalCfg Example.twoCubes ∧
    decode Example.nonLocalCfg (encodeWith Example.twoCubesLayout Example.twoCubes) ≠ .ok Example.twoCubes ∧
    decode Example.hexCfg (encodeWith Example.twoCubesLayout Example.twoCubes) = .ok Example.twoCubes := by
  have hlen : (encodeWith Example.twoCubesLayout Example.twoCubes).length < 2 ^ 64 := by
    rw [Example.twoCubesLayout_length]; decide
  refine ⟨Example.twoCubes_wf, Example.twoCubesLayout_valid, hlen, Example.twoCubes_accepts_nonLocal, ?_,
    permitted_roundtrip_any_layout_judge .hex true _ _ Example.twoCubes_wf Example.twoCubesLayout_valid hlen
      Example.twoCubes_accepts⟩
  intro h
  have := Example.twoCubes_nonLocal_rejected
  rw [h] at this
  cases this

/-- **the bytes the writer produces are one of the encodings the format description permits** -/
theorem writer_bytes_permitted (F : File) (hwf : WFFile F = true) : Encodes (encode F) F :=
  ⟨writerLayout F, (writerLayout_spec F hwf).1, (writerLayout_spec F hwf).2.symm⟩

/-- little-endian integers of any width round-trip -/
theorem int_roundtrip (k v : Nat) (h : v < 256 ^ k) (rest : Bytes) : uN k (leN k v ++ rest) = .ok (v, rest) :=
  uN_leN k v h rest

/-- what the reader accepts as a `k`-byte integer is below `256^k` and re-encodes to the bytes read -/
theorem int_decode_sound {k : Nat} {s r : Bytes} {v : Nat} (h : uN k s = .ok (v, r)) : v < 256 ^ k ∧ s = leN k v ++ r :=
  uN_lt h

/-- handle arrays of any length and width -/
theorem ints_roundtrip (w : Nat) (xs : List Nat) (rest : Bytes) (h : ∀ x ∈ xs, x < 256 ^ w) :
    readInts w xs.length (encInts w xs ++ rest) = .ok (xs, rest) := readInts_enc w xs rest h

/-- bit-packed booleans, any count (incl. counts that are not a multiple of 8) -/
theorem bits_roundtrip (bs : List Bool) : unpackBits bs.length (packBits bs) = bs := unpackBits_packBits bs

/-- every registered property value codec, any number of values -/
theorem values_roundtrip (c : Codec) (vals : List Bytes) (rest : Bytes) (h : ∀ v ∈ vals, validVal c v = true) :
    decodeN c vals.length (encodeN c vals ++ rest) = .ok (vals, rest) := decodeN_encodeN c vals rest h

/-- what `decode_n` returns are `n` values of the codec's type -/
theorem values_decode_sound {c : Codec} {n : Nat} {s r : Bytes} {vals : List Bytes}
    (h : decodeN c n s = .ok (vals, r)) : vals.length = n ∧ ∀ v ∈ vals, validVal c v = true := decodeN_ok h

/-- the writer's integer width selection fits every handle up to the count it is chosen for (the 255/256 and
    65535/65536 boundaries included) and never selects `None` -/
theorem width_selection (n v : Nat) (hn : n < 2 ^ 32) (hv : v ≤ n) :
    v < 256 ^ elemSizeInt (suitableIntEncoding n) ∧ suitableIntEncoding n ∈ validIntEncoding ∧
    suitableIntEncoding n ≠ intEncodingNone :=
  ⟨suitable_fits hn hv, suitable_valid n⟩

/-- a mesh with pending deletions is refused and not a byte is written -/
theorem pending_deletions_refused (F : File) (s : Sink) (h : s.good = true) :
    write ⟨F, true⟩ s = (.error, s) := by simp [write, h]

/-- without pending deletions and with a sink that does not fail the bytes written are exactly `encode F` -/
theorem write_is_encode (F : File) (out : Bytes) :
    (write ⟨F, false⟩ ⟨out, true, none⟩).1 = .ok ∧ (write ⟨F, false⟩ ⟨out, true, none⟩).2.out = out ++ encode F := by
  have key : ∀ (ps : List Bytes) (s : Sink), s.good = true → s.cap = none →
      (ps.foldl Sink.write s).good = true ∧ (ps.foldl Sink.write s).out = s.out ++ ps.flatten := by
    intro ps
    induction ps with
    | nil => intro s hg _; simp [hg]
    | cons p ps ih =>
      intro s hg hc
      have h1 : s.write p = { s with out := s.out ++ p } := by simp [Sink.write, hg, hc]
      have := ih (s.write p) (by rw [h1]; exact hg) (by rw [h1]; exact hc)
      simp only [List.foldl_cons, List.flatten_cons]
      rw [h1] at this ⊢
      rw [this.2]
      exact ⟨this.1, by simp⟩
  have := key (writerHeader F :: writerChunks F) ⟨out, true, none⟩ rfl rfl
  simp only [write, Bool.not_true, Bool.false_eq_true, if_false]
  rw [this.1]
  exact ⟨by simp, by rw [this.2]; simp [encode]⟩

/-- **writer round trip**: what the OVMB writer produces for a well-formed mesh reads back as that mesh, for
    every reading configuration that accepts its faces and cells as written -/
theorem writer_roundtrip (cfg : Cfg) (F : File) (hwf : WFFile F = true) (hacc : Accepts cfg F) (hs : SizeOk F) :
    decode cfg (encode F) = .ok F :=
  decode_encode cfg F hwf hacc hs

/-- polyhedral target without topology check: every well-formed file is accepted -/
theorem writer_roundtrip_poly (cfg : Cfg) (F : File) (hk : cfg.kind = .poly) (ht : cfg.topoCheck = false)
    (hwf : WFFile F = true) (hs : SizeOk F) : decode cfg (encode F) = .ok F :=
  decode_encode cfg F hwf (accepts_poly cfg F hk ht) hs

/-- the chunk loop over a complete file of well-framed chunks is the payload readers applied in order (each sees
    exactly its chunk's payload), followed by the final checks -/
theorem chunk_loop_is_sequence (cfg : Cfg) (cs : List ChunkD) (hfit : ∀ c ∈ cs, c.Fits) (s : RState) :
    loop cfg s ⟨(cs.map ChunkD.bytes).flatten.length, (cs.map ChunkD.bytes).flatten⟩ =
      match runChunks cfg s cs with
      | .error e => .error e
      | .ok s' => finish s' := loop_chunks cfg cs hfit s

/-! non-vacuity (evaluation on one input, a test): the one-tetrahedron file with an `i32` vertex property is well
    formed, 440 bytes long, and satisfies every hypothesis of `writer_roundtrip` for a polyhedral read without
    topology check and for a tetrahedral read with topology check -/
example : decode Example.polyCfg (encode Example.tetFile) = .ok Example.tetFile :=
  writer_roundtrip_poly _ _ rfl rfl Example.tetFile_wf Example.tetFile_size
example : decode Example.tetCfg (encode Example.tetFile) = .ok Example.tetFile :=
  writer_roundtrip _ _ Example.tetFile_wf Example.tetFile_accepts Example.tetFile_size

example : Encodes (encode Example.tetFile) Example.tetFile := writer_bytes_permitted _ Example.tetFile_wf

/-! non-vacuity of `permitted_roundtrip` (evaluation on one input, a test): an alternative layout of the
    one-tetrahedron file (`Example.altLayout`) — vertices in two spans (the second float-encoded), edges with 16-bit handles and
    different handle widths in two spans, faces in two spans (the second with handle offset 4), cells with
    handle offset 1, two skippable chunks, the directory after the topology, the property values in two spans,
    explicit padding, a non-mandatory flag — is valid, differs from the writer's bytes, and so reads to the same mesh -/
example : decode Example.polyCfg (encodeWith Example.altLayout Example.tetFile) = .ok Example.tetFile :=
  permitted_roundtrip _ _ _ Example.tetFile_wf ⟨Example.altLayout, Example.altLayout_valid, rfl⟩ ⟨rfl, rfl⟩
    (by rw [Example.altLayout_length]; decide)
example : decode Example.tetCfg (encodeWith Example.altLayout Example.tetFile) = .ok Example.tetFile :=
  permitted_roundtrip_ordered _ _ _ Example.tetFile_wf Example.altLayout_valid
    (by rw [Example.altLayout_length]; decide) Example.tetFile_accepts (by decide)
example : (encodeWith Example.altLayout Example.tetFile).length ≠ (encode Example.tetFile).length := by
  rw [Example.altLayout_length, Example.tetFile_length]; decide

/-! non-vacuity of `permitted_roundtrip_any_layout` (evaluation on two inputs, a test): `Example.interLayout` writes
    the one-tetrahedron file as three edges, the face that uses only these, the directory, the other three edges,
    the other three faces, the cell; `Example.cubeLayout` writes a one-cube hexahedral file as eleven edges, one
    face, the twelfth edge, five faces, the cell.  Both are valid, neither is `topoOrdered` (so neither is covered
    by `permitted_roundtrip_ordered`), and they read to the same mesh into a tetrahedral resp. hexahedral mesh with
    topology check (the latter under the judge's ordering check, which accepts the cell as written) -/
example : decode Example.tetCfg (encodeWith Example.interLayout Example.tetFile) = .ok Example.tetFile :=
  permitted_roundtrip_any_layout _ _ _ Example.tetFile_wf Example.interLayout_valid
    (by rw [Example.interLayout_length]; decide) Example.tetFile_accepts (by intro h; cases h)
example : topoOrdered Example.tetFile {} Example.interLayout.pieces = false := Example.interLayout_not_ordered
example : decode Example.hexCfg (encodeWith Example.cubeLayout Example.cubeFile) = .ok Example.cubeFile :=
  permitted_roundtrip_any_layout_judge .hex true _ _ Example.cubeFile_wf Example.cubeLayout_valid
    (by rw [Example.cubeLayout_length]; decide) Example.cubeFile_accepts
example : topoOrdered Example.cubeFile {} Example.cubeLayout.pieces = false := Example.cubeLayout_not_ordered

/-! test on concrete data (labelled as a test): the file of the empty mesh is header + EOF chunk -/
example : (encode ⟨topoTypePolyhedral, [], [], [], [], []⟩).length = sizeFileHeader + sizeChunkHeader := by decide

end OVM.Props.C06

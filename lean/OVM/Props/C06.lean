import OVM.IO.Ovmb.FramingLemmas
/-
  C06, OVMB half — the format relation and the parts of the round trip that are theorems so far.

  Subject: lean/OVM/IO/{Prim,Codec}.lean (primitive and property-value codecs), Ovmb/{Format,Encode,Permissive,
  Decode}.lean (abstract file, writer, the *permitted encodings* relation `Encodes`, reader).  Constants come
  from OVM/Gen/OvmbConsts.lean, regenerated from the current sources on every run (translator T4).

  Proved here for values / lists of any size: every layer the writer and reader are built from is a round trip
  (little-endian integers of every width, integer arrays, bit-packed bools, every registered value codec for
  any number of values), the writer's integer-width selection always fits the handles it is used for, the
  writer refuses a mesh with pending deletions without writing a byte.
  NOT yet a theorem: `decode cfg (encodeWith L F) = .ok F` for every valid layout `L` (and hence for the
  writer's own layout) — `roundtrip_statement` below is the full statement; until it is proved that step is
  evaluated by the judge on every generated mesh and layout (tools/props/io_ovmb.py).
-/
namespace OVM.Props.C06
open OVM.Ovmb OVM.Gen.Ovmb Dec

/-- the full round-trip statement for every permitted encoding (kept visible; proved instances are evaluated by
    the judge for every generated mesh and layout) -/
def RoundtripStatement : Prop :=
  ∀ (cfg : Cfg) (F : File) (bytes : Bytes), WFFile F = true → Encodes bytes F →
    (cfg.kind = .poly ∧ cfg.topoCheck = false) → decode cfg bytes = .ok F

/-- little-endian integers of any width round-trip -/
theorem int_roundtrip (k v : Nat) (h : v < 256 ^ k) (rest : Bytes) : uN k (leN k v ++ rest) = .ok (v, rest) :=
  uN_leN k v h rest

/-- what the reader accepts as a `k`-byte integer is below `256^k` and re-encodes to the bytes read -/
theorem int_decode_sound {k : Nat} {s r : Bytes} {v : Nat} (h : uN k s = .ok (v, r)) : v < 256 ^ k ∧ s = leN k v ++ r :=
  uN_lt h

/-- handle arrays of any length and width -/
theorem ints_roundtrip (w : Nat) (xs : List Nat) (rest : Bytes) (h : ∀ x ∈ xs, x < 256 ^ w) :
    readInts w xs.length (encInts w xs ++ rest) = .ok (xs, rest) := readInts_enc w xs rest h

/-- bit-packed booleans, any count (incl. counts that are not a multiple of 8) -/
theorem bits_roundtrip (bs : List Bool) : unpackBits bs.length (packBits bs) = bs := unpackBits_packBits bs

/-- every registered property value codec, any number of values -/
theorem values_roundtrip (c : Codec) (vals : List Bytes) (rest : Bytes) (h : ∀ v ∈ vals, validVal c v = true) :
    decodeN c vals.length (encodeN c vals ++ rest) = .ok (vals, rest) := decodeN_encodeN c vals rest h

/-- what `decode_n` returns are `n` values of the codec's type -/
theorem values_decode_sound {c : Codec} {n : Nat} {s r : Bytes} {vals : List Bytes}
    (h : decodeN c n s = .ok (vals, r)) : vals.length = n ∧ ∀ v ∈ vals, validVal c v = true := decodeN_ok h

/-- the writer's integer width selection fits every handle up to the count it is chosen for (the 255/256 and
    65535/65536 boundaries included) and never selects `None` -/
theorem width_selection (n v : Nat) (hn : n < 2 ^ 32) (hv : v ≤ n) :
    v < 256 ^ elemSizeInt (suitableIntEncoding n) ∧ suitableIntEncoding n ∈ validIntEncoding ∧
    suitableIntEncoding n ≠ intEncodingNone :=
  ⟨suitable_fits hn hv, suitable_valid n⟩

/-- a mesh with pending deletions is refused and not a byte is written -/
theorem pending_deletions_refused (F : File) (s : Sink) (h : s.good = true) :
    write ⟨F, true⟩ s = (.error, s) := by simp [write, h]

/-- without pending deletions and with a sink that does not fail the bytes written are exactly `encode F` -/
theorem write_is_encode (F : File) (out : Bytes) :
    (write ⟨F, false⟩ ⟨out, true, none⟩).1 = .ok ∧ (write ⟨F, false⟩ ⟨out, true, none⟩).2.out = out ++ encode F := by
  have key : ∀ (ps : List Bytes) (s : Sink), s.good = true → s.cap = none →
      (ps.foldl Sink.write s).good = true ∧ (ps.foldl Sink.write s).out = s.out ++ ps.flatten := by
    intro ps
    induction ps with
    | nil => intro s hg _; simp [hg]
    | cons p ps ih =>
      intro s hg hc
      have h1 : s.write p = { s with out := s.out ++ p } := by simp [Sink.write, hg, hc]
      have := ih (s.write p) (by rw [h1]; exact hg) (by rw [h1]; exact hc)
      simp only [List.foldl_cons, List.flatten_cons]
      rw [h1] at this ⊢
      rw [this.2]
      exact ⟨this.1, by simp⟩
  have := key (writerHeader F :: writerChunks F) ⟨out, true, none⟩ rfl rfl
  simp only [write, Bool.not_true, Bool.false_eq_true, if_false]
  rw [this.1]
  exact ⟨by simp, by rw [this.2]; simp [encode]⟩

/-! test on concrete data (labelled as a test): the file of the empty mesh is header + EOF chunk -/
example : (encode ⟨topoTypePolyhedral, [], [], [], [], []⟩).length = sizeFileHeader + sizeChunkHeader := by decide

end OVM.Props.C06

import OVM.Props.C05
import OVM.Refine.FaceCycStep
/-
  C05 / C01, the vertex → cells circulator without a hypothesis on the state.
  `C05.vertex_cell_circulator_partial` and `C01Reach.vertex_cells_exact` need `Global.FaceCyc` (every live face is
  cyclically connected) as a hypothesis on the reached state.  Here it is carried through histories
  (OVM/Refine/FaceCycStep.lean): every history of valid calls (`Global.HistoryOK`) that additionally respects
  `Global.CycOK` at every call — an UNCHECKED `add_face(halfedges)` / `set_face` is handed a cyclically connected list, and
  `set_edge` is not applied to an edge of a live face; nothing is asked of `add_face` with topology check,
  `add_face(vertices)`, or any deleting / swapping / collecting / mode call — ends in a state with `FaceCyc`.  On such
  states VertexCellIter is the scan `sVC` and face / halfface / cell → vertices are the `faceTouchesV` sets.
  Without `CycOK` the statement is false (witness below: one unchecked one-halfedge face).
-/
namespace OVM.Props.C05Cyc
open OVM OVM.Circ OVM.Kernel
open OVM.Kernel.Global (GInv CircClass FaceCyc CycOK CycHistory faceCyc_reachable cycHistory_of_B historyOK_of_B ginv_reachable)

/-- one valid call that respects `CycOK` keeps every live face cyclically connected (whole vocabulary, all modes) -/
theorem loops_step (k : Kernel) (op : Op) (hi : GInv k) (hok : Global.OpOK k op) (hc : CycOK k op) (hq : FaceCyc k) :
    FaceCyc (k.step op).1 := Global.faceCyc_step k op hi hok hc hq

/-- every state reached from the empty mesh along such a history has all live faces cyclically connected -/
theorem loops_on_reachable_states (ops : List Op) (hr : Global.HistoryOK {} ops) (hc : CycHistory {} ops) :
    FaceCyc (run {} ops) := faceCyc_reachable ops hr hc

/-- **VertexCellIter on every such state**: the list is the scan `sVC` (the live cells with a live halfface touching the
    vertex), duplicate-free, live cells only; visited `max_laps` times; invalid from the start iff nothing is incident -/
theorem vertex_cell_circulator (ops : List Op) (hr : Global.HistoryOK {} ops) (hc : CycHistory {} ops)
    (v m : Nat) (hm : 1 ≤ m) (hv : v < (run {} ops).nV) (hn : CircClass.vc.needs (run {} ops) = true) :
    let k := run {} ops
    let L := k.qVC v
    L = k.sVC v ∧ L.Nodup ∧ (∀ c ∈ L, k.liveC c = true) ∧
    (k.sVC v ≠ [] → (start L).valid = true ∧ visit L m (L.length * m + 1) (start L) = rep m L ∧
      nextN L m (L.length * m) (start L) = endOf m (start L)) ∧
    (k.sVC v = [] → (start L).valid = false) := by
  intro k L
  have hi : GInv k := ginv_reachable ops hr
  have hy : FaceCyc k := faceCyc_reachable ops hr hc
  simp only [CircClass.needs, Bool.and_eq_true] at hn
  obtain ⟨_, e, hnd, hl⟩ := Global.circ_vc hi.wf hi.one hi.closed hn.1.1 hn.1.2 hn.2 hv
  have e' : L = k.sVC v := e hy
  refine ⟨e', hnd, hl, fun hne => ?_, fun he => ?_⟩
  · have hL : L ≠ [] := by rw [e']; exact hne
    exact ⟨(C05.nonempty_is_valid L hL).1, C05.visits_list_max_laps_times L m hL hm, C05.end_is_begin_advanced L m hL hm⟩
  · have hL : L = [] := by rw [e']; exact he
    rw [hL]; rfl

/-- face → vertices, halfface → vertices, cell → vertices on every such state: exactly the vertices the face (a face of
    the cell) touches -/
theorem touch_circulators (ops : List Op) (hr : Global.HistoryOK {} ops) (hc : CycHistory {} ops) :
    let k := run {} ops
    (∀ f, k.liveF f = true → ∀ v, v ∈ k.qFV f ↔ k.faceTouchesV f v = true) ∧
    (∀ hf, k.liveF (eOf hf) = true → ∀ v, v ∈ k.qHFV hf ↔ k.faceTouchesV (eOf hf) v = true) ∧
    (∀ c, k.liveC c = true → ∀ v, v ∈ k.qCV c ↔ (k.liveV v = true ∧ ∃ hf ∈ k.cellAt c, k.faceTouchesV (eOf hf) v = true)) := by
  intro k
  have hi : GInv k := ginv_reachable ops hr
  have hy : FaceCyc k := faceCyc_reachable ops hr hc
  exact ⟨fun f hl => (Global.circ_f hi.wf hi.closed hl).2.1.2.2 hy,
    fun hf hl => (Global.circ_hf hi.wf hi.closed hl).2.1.2.2 hy,
    fun c hl => (Global.circ_cv hi.wf hi.closed hl).2.2.2 hy⟩

/-! ### non-vacuity -/

set_option maxRecDepth 1000000 in
/-- the glued tetrahedra of Props/C05 with the deferred `delete_face(6)`, then a deferred `delete_vertex(3)`, a swap and
    `collect_garbage`: the history respects `CycOK` (decided at every call), so vertex → cells is the scan; at vertex 0
    after the face deletion only cell 0 is left -/
example :
    let ops := C05.gluedOps ++ [.swapVertex 0 2, .swapEdge 1 4, .deleteVertex 3, .collectGarbage]
    Global.HistoryOK {} ops ∧ CycHistory {} ops ∧ (run {} ops).nV = 5 ∧
    (run {} C05.gluedOps).qVC 0 = (run {} C05.gluedOps).sVC 0 ∧ (run {} C05.gluedOps).sVC 0 = [0] ∧
    (run {} (C05.gluedOps.take 10)).sVC 0 = [0, 1] := by
  intro ops
  have H : Global.HistoryOK {} ops := historyOK_of_B {} _ (by decide)
  have C : CycHistory {} ops := cycHistory_of_B {} _ (by decide)
  have Hg : Global.HistoryOK {} C05.gluedOps := historyOK_of_B {} _ (by decide)
  have Cg : CycHistory {} C05.gluedOps := cycHistory_of_B {} _ (by decide)
  exact ⟨H, C, by decide, (vertex_cell_circulator C05.gluedOps Hg Cg 0 1 (by decide) (by decide) (by decide)).1,
    by decide, by decide⟩

set_option maxRecDepth 1000000 in
/-- `CycOK` cannot be dropped: one unchecked one-halfedge "face" in an unchecked cell — valid calls, but the `add_face`
    violates `CycOK`, the reached state is not `FaceCyc`, and vertex → cells at the END vertex of the halfedge misses
    the cell that the scan finds (witness of `C01Reach.vertex_cells_exact`) -/
example :
    let bad : List Op := [.addNVertices 2, .addEdge 0 1 false, .addFaceHe false [0], .addCell false [0]]
    Global.historyOKB {} bad = true ∧ Global.cycHistoryB {} bad = false ∧
    (run {} bad).qVC 1 = [] ∧ (run {} bad).sVC 1 = [0] := by decide

end OVM.Props.C05Cyc

import OVM.Refine.DeleteFrames
import OVM.Refine.Inv
import OVM.Refine.CacheClosed
import OVM.Refine.CacheSet
import OVM.Refine.CacheImmediate
import OVM.Refine.CacheAssembly
import OVM.Refine.LogicalRead
import OVM.Refine.LogicalDeleteList
import OVM.Refine.LogicalDeleteCount
/-
  C04 — garbage collection preserves the logical mesh and remaps tracked handles.
  Proved here for every state:
  * `collect_garbage` is the identity when there is nothing to collect or deferred mode is off;
  * when it runs it leaves deferred mode, fast mode and the three incidence flags exactly as
    they were, and all four pending-deletion counters are zero afterwards
    (`needs_garbage_collection` is false);
  * `enable_deferred_deletion(false)` is `collect_garbage` followed by clearing the flag;
  * each sweep visits the slots from the back; a slot is handed to `delete_*_core` only if it is
    flagged at that moment, in immediate mode.
  That the surviving definitions and property values are those of the logical mesh is checked
  on every garbage-collection step of the correspondence run (token-named-mesh oracle) and is
  on the refinement ladder (it is a composition of the `delete_*_core` refinements).
-/
namespace OVM.Props.C04
open OVM OVM.Kernel

theorem collectGarbage_noop (k : Kernel) (h : k.deferred = false ∨ k.needsGC = false) :
    k.collectGarbage = k := by
  unfold collectGarbage
  rcases h with h | h <;> simp [h]

/-- what a garbage-collection sweep cannot change: modes, incidence flags, counters -/
def Modes (k : Kernel) : Bool × Bool × Bool × Bool × Bool × Nat × Nat × Nat × Nat :=
  (k.deferred, k.fast, k.vBU, k.eBU, k.fBU, k.nDelV, k.nDelE, k.nDelF, k.nDelC)

theorem sweep_modes (k : Kernel) (hd : k.deferred = false) (n : Nat) (isDel : Kernel → Nat → Bool)
    (unflag core : Kernel → Nat → Kernel)
    (hu : ∀ k i, Modes (unflag k i) = Modes k)
    (hc : ∀ k i, k.deferred = false → Modes (core k i) = Modes k) :
    Modes (gcSweep k n isDel unflag core) = Modes k := by
  refine (gcSweep_frame Modes (fun k => k.deferred = false) isDel unflag core ?_ ?_ k hd n).1
  · intro k i hk
    have := hu k i
    refine ⟨this, ?_⟩
    have e : (unflag k i).deferred = k.deferred := congrArg (·.1) this
    rw [e]; exact hk
  · intro k i hk
    have := hc k i hk
    refine ⟨this, ?_⟩
    have e : (core k i).deferred = k.deferred := congrArg (·.1) this
    rw [e]; exact hk

theorem core_modes (k : Kernel) (i : Nat) (hd : k.deferred = false) :
    Modes (k.deleteCellCore i) = Modes k ∧ Modes (k.deleteFaceCore i) = Modes k ∧
    Modes (k.deleteEdgeCore i) = Modes k ∧ Modes (k.deleteVertexCore i) = Modes k := by
  unfold Modes
  simp [deleteCellCore_nDelV_imm k i hd, deleteCellCore_nDelE_imm k i hd, deleteCellCore_nDelF_imm k i hd,
    deleteCellCore_nDelC_imm k i hd, deleteFaceCore_nDelV_imm k i hd, deleteFaceCore_nDelE_imm k i hd,
    deleteFaceCore_nDelF_imm k i hd, deleteFaceCore_nDelC_imm k i hd, deleteEdgeCore_nDelV_imm k i hd,
    deleteEdgeCore_nDelE_imm k i hd, deleteEdgeCore_nDelF_imm k i hd, deleteEdgeCore_nDelC_imm k i hd,
    deleteVertexCore_nDelV_imm k i hd, deleteVertexCore_nDelE_imm k i hd, deleteVertexCore_nDelF_imm k i hd,
    deleteVertexCore_nDelC_imm k i hd]

/-- the four sweeps: modes and flags kept, own counter reset, other counters kept -/
theorem gc_stages (k : Kernel) (hd : k.deferred = false) :
    Modes (gcCells k) = (k.deferred, k.fast, k.vBU, k.eBU, k.fBU, k.nDelV, k.nDelE, k.nDelF, 0) ∧
    Modes (gcFaces k) = (k.deferred, k.fast, k.vBU, k.eBU, k.fBU, k.nDelV, k.nDelE, 0, k.nDelC) ∧
    Modes (gcEdges k) = (k.deferred, k.fast, k.vBU, k.eBU, k.fBU, k.nDelV, 0, k.nDelF, k.nDelC) ∧
    Modes (gcVerts k) = (k.deferred, k.fast, k.vBU, k.eBU, k.fBU, 0, k.nDelE, k.nDelF, k.nDelC) := by
  have h1 := sweep_modes k hd k.nC cDeleted (fun k i => { k with cDel := k.cDel.set i false }) deleteCellCore
    (fun _ _ => rfl) (fun k i h => (core_modes k i h).1)
  have h2 := sweep_modes k hd k.nF fDeleted (fun k i => { k with fDel := k.fDel.set i false }) deleteFaceCore
    (fun _ _ => rfl) (fun k i h => (core_modes k i h).2.1)
  have h3 := sweep_modes k hd k.nE eDeleted (fun k i => { k with eDel := k.eDel.set i false }) deleteEdgeCore
    (fun _ _ => rfl) (fun k i h => (core_modes k i h).2.2.1)
  have h4 := sweep_modes k hd k.nV vDeleted (fun k i => { k with vDel := k.vDel.set i false }) deleteVertexCore
    (fun _ _ => rfl) (fun k i h => (core_modes k i h).2.2.2)
  unfold Modes at h1 h2 h3 h4 ⊢
  simp only [Prod.mk.injEq] at h1 h2 h3 h4
  unfold gcCells gcFaces gcEdges gcVerts
  simp only [Prod.mk.injEq]
  refine ⟨⟨h1.1, h1.2.1, h1.2.2.1, h1.2.2.2.1, h1.2.2.2.2.1, h1.2.2.2.2.2.1, h1.2.2.2.2.2.2.1, h1.2.2.2.2.2.2.2.1, trivial⟩,
          ⟨h2.1, h2.2.1, h2.2.2.1, h2.2.2.2.1, h2.2.2.2.2.1, h2.2.2.2.2.2.1, h2.2.2.2.2.2.2.1, trivial, h2.2.2.2.2.2.2.2.2⟩,
          ⟨h3.1, h3.2.1, h3.2.2.1, h3.2.2.2.1, h3.2.2.2.2.1, h3.2.2.2.2.2.1, trivial, h3.2.2.2.2.2.2.2.1, h3.2.2.2.2.2.2.2.2⟩,
          ⟨h4.1, h4.2.1, h4.2.2.1, h4.2.2.2.1, h4.2.2.2.2.1, trivial, h4.2.2.2.2.2.2.1, h4.2.2.2.2.2.2.2.1, h4.2.2.2.2.2.2.2.2⟩⟩

attribute [local irreducible] gcCells gcFaces gcEdges gcVerts in
/-- all four sweeps in sequence -/
theorem gc_all (k : Kernel) (hd : k.deferred = false) :
    Modes (gcVerts (gcEdges (gcFaces (gcCells k)))) = (false, k.fast, k.vBU, k.eBU, k.fBU, 0, 0, 0, 0) := by
  have s1 := (gc_stages k hd).1
  have d1 : (gcCells k).deferred = false := (congrArg (·.1) s1).trans hd
  have s2 := (gc_stages (gcCells k) d1).2.1
  have d2 : (gcFaces (gcCells k)).deferred = false := (congrArg (·.1) s2).trans d1
  have s3 := (gc_stages (gcFaces (gcCells k)) d2).2.2.1
  have d3 : (gcEdges (gcFaces (gcCells k))).deferred = false := (congrArg (·.1) s3).trans d2
  have s4 := (gc_stages (gcEdges (gcFaces (gcCells k))) d3).2.2.2
  rw [s4]
  unfold Modes at s1 s2 s3
  simp only [Prod.mk.injEq] at s1 s2 s3 ⊢
  refine ⟨d3, ?_, ?_, ?_, ?_, trivial, ?_, ?_, ?_⟩
  · rw [s3.2.1, s2.2.1, s1.2.1]
  · rw [s3.2.2.1, s2.2.2.1, s1.2.2.1]
  · rw [s3.2.2.2.1, s2.2.2.2.1, s1.2.2.2.1]
  · rw [s3.2.2.2.2.1, s2.2.2.2.2.1, s1.2.2.2.2.1]
  · exact s3.2.2.2.2.2.2.1
  · rw [s3.2.2.2.2.2.2.2.1]; exact s2.2.2.2.2.2.2.2.1
  · rw [s3.2.2.2.2.2.2.2.2, s2.2.2.2.2.2.2.2.2]; exact s1.2.2.2.2.2.2.2.2

attribute [local irreducible] gcCells gcFaces gcEdges gcVerts in
/-- modes and incidence flags survive garbage collection; nothing is pending afterwards -/
theorem collectGarbage_modes (k : Kernel) :
    k.collectGarbage.deferred = k.deferred ∧ k.collectGarbage.fast = k.fast ∧
    k.collectGarbage.vBU = k.vBU ∧ k.collectGarbage.eBU = k.eBU ∧ k.collectGarbage.fBU = k.fBU ∧
    (k.deferred = true → k.collectGarbage.needsGC = false) := by
  unfold collectGarbage
  split
  · rename_i h
    refine ⟨rfl, rfl, rfl, rfl, rfl, ?_⟩
    intro hd
    simpa [hd] using h
  · rename_i h
    simp only [Bool.or_eq_true, Bool.not_eq_true', not_or, Bool.not_eq_false] at h
    have g := gc_all { k with deferred := false } rfl
    unfold Modes at g
    simp only [Prod.mk.injEq] at g
    refine ⟨h.1.symm, g.2.1, g.2.2.1, g.2.2.2.1, g.2.2.2.2.1, ?_⟩
    intro _
    unfold needsGC
    simp only [g.2.2.2.2.2.1, g.2.2.2.2.2.2.1, g.2.2.2.2.2.2.2.1, g.2.2.2.2.2.2.2.2]
    decide

/-- leaving deferred mode collects first -/
theorem enableDeferred_false (k : Kernel) :
    k.enableDeferred false = { (if k.deferred then k.collectGarbage else k) with deferred := false } := by
  unfold enableDeferred; simp

theorem enableDeferred_false_flag (k : Kernel) : (k.enableDeferred false).deferred = false := by
  unfold enableDeferred; simp

example :
    let k : Kernel := { nV := 3, vDel := [false, true, false], nDelV := 1, vBU := false, eBU := false, fBU := false,
                        edges := [(0, 2)], eDel := [false],
                        props := { v := [{ key := "t", dflt := 0, vals := [7, 8, 9] }] } }
    k.collectGarbage.nV = 2 ∧ k.collectGarbage.edges = [(0, 1)] ∧ k.collectGarbage.needsGC = false ∧
    k.collectGarbage.props.v = [{ key := "t", dflt := 0, vals := [7, 9] }] := by decide +kernel

end OVM.Props.C04

/-! ======================= appended by builder K4 (erase / GC / set side of rung B) ======================= -/
namespace OVM.Props.C04
open OVM OVM.Kernel

/-! ------------------------------------------------------------------------------------------
    Rung B, erase side (builder K4): `set_*`, immediate deletion with index shifting and
    `collect_garbage` keep the cache invariant `WF = LenInv ∧ RangeInv ∧ CacheInv`
    (OVM/Refine/CacheSet.lean, CacheErase.lean, CacheGC.lean, CacheClosed.lean).
    ------------------------------------------------------------------------------------------ -/

/-- **`set_edge` / `set_face` / `set_cell` keep the cache invariant** for an in-range, NOT-deleted entity and
    in-range new handles (cc:503-592).  Liveness is needed: the caches are compared with scans over the
    not-deleted entities and `set_*` links the entity unconditionally (TESTs `setEdge_deleted_breaks` … in
    CacheSet.lean).  `set_cell` needs C01's `oneCell` before and after (`incident_cell_per_hf_` holds one cell
    per halfface; it is cleared / overwritten unconditionally). -/
theorem set_ops_keep_cache_invariant (k : Kernel) (hw : WF k) :
    (∀ e a b, e < k.nE → k.eDeleted e = false → a < k.nV → b < k.nV →
      WF (k.setEdge e a b) ∧ (k.setEdge e a b).oneCell = k.oneCell) ∧
    (∀ f hes, f < k.nF → k.fDeleted f = false → (∀ h ∈ hes, h < k.nHE) →
      WF (k.setFace f hes) ∧ (k.setFace f hes).oneCell = k.oneCell) ∧
    (∀ c hfs, c < k.nC → k.cDeleted c = false → (∀ h ∈ hfs, h < k.nHF) → k.oneCell = true →
      (k.setCell c hfs).oneCell = true → WF (k.setCell c hfs)) :=
  ⟨fun e a b he hl ha hb => ⟨wf_setEdge he hl ha hb hw, oneCell_setEdge k e a b⟩,
   fun f hes hf hl hr => ⟨wf_setFace hf hl hr hw, oneCell_setFace k f hes⟩,
   fun _ _ hc hl hr h1 h1' => wf_setCell hc hl hr hw h1 h1'⟩

/-- non-vacuity: the tetrahedron; `set_edge(0, 1, 0)` reverses edge 0 and the vertex cache follows -/
example : WF tetK ∧ (0 : Nat) < tetK.nE ∧ tetK.eDeleted 0 = false ∧
    (tetK.setEdge 0 1 0).edges.head? = some (1, 0) ∧ (tetK.setEdge 0 1 0).cacheInvB = true :=
  ⟨wf_tetK, by decide, by decide, by decide, by decide⟩

/-- **`collect_garbage` keeps the cache invariant** in index-shifting mode (`fast = false`): from a
    well-formed state with C01's `oneCell` whose deleted flags are closure-consistent (`Closed`: nothing live
    uses something flagged) it yields such a state again, and when it runs, no flagged cell / face / edge /
    vertex remains.  `Closed` is necessary (TEST at the end of CacheGC.lean: an edge added onto a
    deferred-deleted vertex is renamed to a loop by the vertex sweep) and is what the closure-deleting
    `delete_*` of deferred mode maintain (`deferred_deletions_then_collect_garbage` below).
    `_partial`: fast mode (`fast = true`: each sweep step swaps the victim to the last slot first) is not
    covered here. -/
theorem collect_garbage_keeps_cache_invariant_partial (k : Kernel) (hf : k.fast = false) (hw : WF k)
    (h1 : k.oneCell = true) (hc : Closed k) :
    (WF k.collectGarbage ∧ k.collectGarbage.oneCell = true ∧ Closed k.collectGarbage) ∧
    (k.deferred = true → k.needsGC = true →
      CellsLive k.collectGarbage ∧ FacesLive k.collectGarbage ∧ EdgesLive k.collectGarbage ∧
      VertsLive k.collectGarbage) :=
  ⟨wf_collectGarbage hf hw h1 hc, fun hd hg =>
    have c := collected_collectGarbage hd hg hf hw h1 hc
    ⟨c.cells, c.faces, c.edges, c.verts⟩⟩

/-- the deferred-mode invariant `DefInvC` (deferred, `WF`, `oneCell`, `Closed`) along a history of deletions -/
theorem defInvC_run (k : Kernel) (hi : DefInvC k) (ops : List Op)
    (hops : ∀ op ∈ ops, ∃ x, op = .deleteCell x ∨ op = .deleteFace x ∨ op = .deleteEdge x ∨ op = .deleteVertex x) :
    DefInvC (k.run ops) ∧ (k.run ops).fast = k.fast := by
  induction ops generalizing k with
  | nil => exact ⟨hi, rfl⟩
  | cons op t ih =>
    simp only [run, List.foldl_cons]
    obtain ⟨x, hx⟩ := hops op (by simp)
    have hfa := deleteOps_deferred_fast hi.1.1 x
    have step : DefInvC (k.step op).1 ∧ (k.step op).1.fast = k.fast := by
      rcases hx with rfl | rfl | rfl | rfl
      · exact ⟨defInvC_deleteCell x hi, hfa.1⟩
      · exact ⟨defInvC_deleteFace x hi, hfa.2.1⟩
      · exact ⟨defInvC_deleteEdge x hi, hfa.2.2.1⟩
      · exact ⟨defInvC_deleteVertex x hi, hfa.2.2.2⟩
    have := ih _ step.1 (fun o ho => hops o (by simp [ho]))
    exact ⟨this.1, this.2.trans step.2⟩

/-- **deferred deletions followed by `collect_garbage`** (index-shifting mode): from a well-formed deferred
    state with `oneCell` and closure-consistent flags (e.g. no flag at all: `closed_of_allLive`), after ANY
    history of `delete_cell / delete_face / delete_edge / delete_vertex` (any handles) and one
    `collect_garbage`, the cache invariant and `oneCell` hold, and if something was pending no flagged entity
    is left. -/
theorem deferred_deletions_then_collect_garbage (k : Kernel) (hd : k.deferred = true) (hf : k.fast = false)
    (hw : WF k) (h1 : k.oneCell = true) (hc : Closed k) (ops : List Op)
    (hops : ∀ op ∈ ops, ∃ x, op = .deleteCell x ∨ op = .deleteFace x ∨ op = .deleteEdge x ∨ op = .deleteVertex x) :
    let k' := (k.run ops).collectGarbage
    WF k' ∧ k'.oneCell = true ∧ CacheInv k' ∧
    ((k.run ops).needsGC = true → CellsLive k' ∧ FacesLive k' ∧ EdgesLive k' ∧ VertsLive k') := by
  obtain ⟨hi, hfa⟩ := defInvC_run k ⟨⟨hd, hw, h1⟩, hc⟩ ops hops
  have g := collect_garbage_keeps_cache_invariant_partial (k.run ops) (hfa.trans hf) hi.1.2.1 hi.1.2.2 hi.2
  exact ⟨g.1.1, g.1.2.1, g.1.1.cache, fun hg => g.2 hi.1.1 hg⟩

/-- the tetrahedron in index-shifting mode -/
def tetS : Kernel := { tetK with fast := false }

theorem wf_tetS : WF tetS :=
  wf_of_fans_perm (k := tetK) rfl rfl rfl rfl rfl rfl rfl rfl rfl rfl rfl rfl rfl rfl rfl (fun _ => List.Perm.refl _) wf_tetK

set_option maxRecDepth 8000 in
/-- non-vacuity (a state with a pending deletion): the tetrahedron, `delete_vertex(0)` in deferred mode
    flags the cell, three faces, three edges and the vertex; `collect_garbage` erases and renumbers; one
    triangle is left and the caches equal the scans (executable invariant as a cross-check) -/
example : tetS.deferred = true ∧ tetS.fast = false ∧ WF tetS ∧ tetS.oneCell = true ∧
    Closed tetS ∧
    (tetS.run [.deleteVertex 0]).needsGC = true ∧
    ((tetS.run [.deleteVertex 0]).collectGarbage).nV = 3 ∧
    ((tetS.run [.deleteVertex 0]).collectGarbage).edges = [(0, 1), (2, 0), (2, 1)] ∧
    ((tetS.run [.deleteVertex 0]).collectGarbage).faces = [[3, 4, 1]] ∧
    ((tetS.run [.deleteVertex 0]).collectGarbage).cells = [] ∧
    ((tetS.run [.deleteVertex 0]).collectGarbage).cacheInvB = true :=
  ⟨rfl, rfl, wf_tetS, by decide,
   closed_of_allLive (by unfold FacesLive; decide) (by unfold EdgesLive; decide) (by unfold VertsLive; decide)
     wf_tetS.range,
   by decide, by decide, by decide, by decide, by decide, by decide⟩

/-- **immediate deletion with index shifting keeps the cache invariant — the four cores** (`deferred = false`,
    `fast = false`; cc:1359-1429, 1206-1340, 1041-1183, 936-1018): the slot is erased and every stored handle
    and cache entry above it renumbered.  `delete_cell_core` needs only an in-range handle (its assertion) and
    `oneCell`.  The lower cores need the upward-closure fact as stated: nothing of the level above is flagged
    and no stored definition of the level above uses the victim — which `delete_face / delete_edge /
    delete_vertex` establish by deleting the incident cells / faces / edges first (closure versions:
    `immediate_deletion_keeps_cache_invariant` below, OVM/Refine/CacheImmediate.lean).  Without it the code
    really misbehaves: `fixHalfList` drops the victim's half-entities from the users, and
    `delete_vertex_core` renames the endpoint of an incident edge to the PREVIOUS vertex (cc:965-978).
    `_partial`: the fast-mode variants (swap to the last slot, then pop) are builder K3's
    (OVM/Refine/CacheFastDelete.lean). -/
theorem immediate_deletion_keeps_cache_invariant_partial (k : Kernel) (hd : k.deferred = false)
    (hf : k.fast = false) (hw : WF k) (h1 : k.oneCell = true) (h : Nat) :
    (h < k.nC → WF (k.deleteCell h) ∧ (k.deleteCell h).oneCell = true) ∧
    (h < k.nF → CellsLive k → (∀ c ∈ k.cells, ∀ a ∈ c, eOf a ≠ h) →
      WF (k.deleteFaceCore h) ∧ (k.deleteFaceCore h).oneCell = true) ∧
    (h < k.nE → FacesLive k → (∀ f ∈ k.faces, ∀ a ∈ f, eOf a ≠ h) →
      WF (k.deleteEdgeCore h) ∧ (k.deleteEdgeCore h).oneCell = true) ∧
    (h < k.nV → EdgesLive k → (∀ e ∈ k.edges, e.1 ≠ h ∧ e.2 ≠ h) →
      WF (k.deleteVertexCore h) ∧ (k.deleteVertexCore h).oneCell = true) :=
  ⟨fun hh => wf_deleteCellCore_shift hd hf hh hw h1,
   fun hh hl hu => wf_deleteFaceCore_shift hd hf hh hw h1 hl hu,
   fun hh hl hu => wf_deleteEdgeCore_shift hd hf hh hw h1 hl hu,
   fun hh hl hu => wf_deleteVertexCore_shift hd hf hh hw h1 hl hu⟩

/-- the tetrahedron in immediate index-shifting mode -/
def tetI : Kernel := { tetK with deferred := false, fast := false }

theorem wf_tetI : WF tetI :=
  wf_of_fans_perm (k := tetK) rfl rfl rfl rfl rfl rfl rfl rfl rfl rfl rfl rfl rfl rfl rfl (fun _ => List.Perm.refl _) wf_tetK

set_option maxRecDepth 8000 in
/-- non-vacuity: `delete_cell(0)` then `delete_face_core(1)` on the tetrahedron in immediate index-shifting
    mode: hypotheses hold (no cell left uses face 1), face slots 2,3 move down to 1,2, their halffaces in the
    fans are renumbered, and the executable invariant agrees -/
example : tetI.deferred = false ∧ tetI.fast = false ∧ WF tetI ∧ tetI.oneCell = true ∧ (0 : Nat) < tetI.nC ∧
    CellsLive (tetI.deleteCell 0) ∧ (∀ c ∈ (tetI.deleteCell 0).cells, ∀ a ∈ c, eOf a ≠ 1) ∧
    ((tetI.deleteCell 0).deleteFaceCore 1).faces = [[0, 2, 4], [9, 10, 3], [5, 11, 7]] ∧
    ((tetI.deleteCell 0).deleteFaceCore 1).incHfs = [[0], [1], [3, 0], [1, 2], [5, 0], [1, 4], [5], [4], [3], [2], [5, 2], [3, 4]] ∧
    ((tetI.deleteCell 0).deleteFaceCore 1).cacheInvB = true :=
  ⟨rfl, rfl, wf_tetI, by decide, by decide, by unfold CellsLive; decide, by decide, by decide, by decide, by decide⟩


/-- **immediate deletion with index shifting keeps the cache invariant — the closure versions**
    `delete_cell / delete_face / delete_edge / delete_vertex` (`deferred = false`, `fast = false`) with an
    in-range handle map `ImmInv` (immediate index-shifting mode, `WF`, `oneCell`, nothing flagged) to `ImmInv`:
    the incident cells / faces / edges are deleted first, from the highest handle down, which establishes the
    "no stored definition uses the victim" hypothesis of every erase stage
    (`immediate_deletion_keeps_cache_invariant_partial`).  "Nothing flagged" is what immediate mode maintains:
    flags only arise in deferred mode and `enable_deferred_deletion(false)` collects them first. -/
theorem immediate_deletion_keeps_cache_invariant (k : Kernel) (hi : Shift.ImmInv k) (x : Nat) :
    (x < k.nC → Shift.ImmInv (k.deleteCell x)) ∧ (x < k.nF → Shift.ImmInv (k.deleteFace x)) ∧
    (x < k.nE → Shift.ImmInv (k.deleteEdge x)) ∧ (x < k.nV → Shift.ImmInv (k.deleteVertex x)) :=
  ⟨fun h => Shift.immInv_deleteCell hi h, fun h => Shift.immInv_deleteFace hi h,
   fun h => Shift.immInv_deleteEdge hi h, fun h => Shift.immInv_deleteVertex hi h⟩

set_option maxRecDepth 8000 in
/-- non-vacuity: the tetrahedron in immediate index-shifting mode satisfies `ImmInv`; `delete_vertex(0)`
    removes the cell, three faces, three edges and the vertex, renumbers the rest, and two such deletions chain;
    the executable invariant agrees (cross-check) -/
example : Shift.ImmInv Shift.tetImm ∧ (0 : Nat) < Shift.tetImm.nV ∧
    Shift.ImmInv (Shift.tetImm.deleteVertex 0) ∧ WF ((Shift.tetImm.deleteVertex 0).deleteVertex 1) ∧
    (Shift.tetImm.deleteVertex 0).faces = [[3, 4, 1]] ∧ (Shift.tetImm.deleteVertex 0).nV = 3 ∧
    (Shift.tetImm.deleteVertex 0).cacheInvB = true := by
  have h0 := Shift.immInv_tetImm
  have h1 := (immediate_deletion_keeps_cache_invariant _ h0 0).2.2.2 (by decide)
  have h2 := (immediate_deletion_keeps_cache_invariant _ h1 1).2.2.2 (by decide)
  exact ⟨h0, by decide, h1, h2.wf, by decide, by decide, by decide⟩

/-- **assembly** (OVM/Refine/CacheAssembly.lean): every history of the driver vocabulary whose operations satisfy
    the explicit side condition `OpOK` at the time of their call keeps `WF ∧ oneCell`.  `_partial`: `OpOK` is
    `False` for `swap_edge_indices` / `swap_face_indices`, and excludes immediate fast-mode
    `delete_face/edge/vertex` and fast-mode `collect_garbage` (builder K3's files). -/
theorem history_keeps_cache_invariant_partial (k : Kernel) (ops : List Op) (hw : WF k) (h1 : k.oneCell = true)
    (hr : HistoryOK k ops) : WF (k.run ops) ∧ (k.run ops).oneCell = true ∧ CacheInv (k.run ops) :=
  have h := sinv_run_partial k ops ⟨hw, h1⟩ hr
  ⟨h.wf, h.one, h.wf.cache⟩

end OVM.Props.C04

/-! ======================= appended by builder L1 (logical mesh, C04) ======================= -/
namespace OVM.Props.C04
open OVM OVM.Kernel OVM.Kernel.Logical

/-! ------------------------------------------------------------------------------------------
    The property itself, kernel part (builder L1; OVM/Refine/Logical*.lean, LogicalGC.lean).
    `LogIso k k' ρ` = equal logical meshes up to the renumbering `ρ` (`LogMinus` with nothing removed): `ρ` is a bijection
    between the live slots of every kind, every live definition of `k` is found in `k'` at the new handle with every
    handle renamed, and every property column of every kind holds at the new handle what it held at the old one.
    ------------------------------------------------------------------------------------------ -/

/-- **`collect_garbage` and leaving deferred mode keep the logical mesh and leave nothing pending** — both deletion
    styles (index shifting / swap-with-last), every bottom-up configuration, every state satisfying the reachability
    invariant `GInv` (C01: `reach_inv`; any set of pending deletions a history can produce).  The result satisfies the
    invariant again, has the same logical mesh (entities, definitions, all property values: `LogIso`, elementary form
    `Carried … Rem.none`), and when deferred mode was on, no flag and no pending counter is left; the same for
    `enable_deferred_deletion(false)`. -/
theorem garbage_collection_preserves_logical_mesh (k : Kernel) (hi : Global.GInv k) :
    (∃ ρ, LogIso k k.collectGarbage ρ ∧ Carried k k.collectGarbage ρ Rem.none) ∧ Global.GInv k.collectGarbage ∧
    (k.deferred = true → NoFlag k.collectGarbage.cDel ∧ NoFlag k.collectGarbage.fDel ∧ NoFlag k.collectGarbage.eDel ∧
      NoFlag k.collectGarbage.vDel ∧ k.collectGarbage.needsGC = false) ∧
    (∃ ρ, LogIso k (k.enableDeferred false) ρ) ∧ (k.enableDeferred false).deferred = false := by
  obtain ⟨ρ, s⟩ := collectGarbage_log hi
  refine ⟨⟨ρ, s, carried_of_logMinus s⟩, Global.ginv_collectGarbage hi, ?_, ?_, enableDeferred_false_flag k⟩
  · intro hd
    have hn := (collectGarbage_modes k).2.2.2.2.2 hd
    by_cases hg : k.needsGC = true
    · obtain ⟨_, _, n1, n2, n3, n4⟩ := Global.gc_noFlag hi hd hg
      exact ⟨n1, n2, n3, n4, hn⟩
    · rw [Global.collectGarbage_id (fun h => hg h.2)] at hn ⊢
      obtain ⟨n1, n2, n3, n4⟩ := hi.noFlag_of_noGC (by simpa using hg)
      exact ⟨n1, n2, n3, n4, hn⟩
  · rw [enableDeferred_false]
    by_cases hd : k.deferred = true
    · simp only [hd, if_true]
      generalize k.collectGarbage = g at s
      exact ⟨ρ, s.congr_right rfl rfl rfl rfl rfl rfl rfl rfl rfl⟩
    · simp only [hd, Bool.false_eq_true, if_false]
      exact ⟨Ren.id, (LogIso.refl k).congr_right rfl rfl rfl rfl rfl rfl rfl rfl rfl⟩

/-- **Deferred deletion followed by `collect_garbage` equals the same deletion performed immediately, up to
    renumbering**: from a deferred-mode state with nothing pending, for each of `delete_cell/face/edge/vertex` and every
    in-range handle, the mesh after "delete, then collect" and the mesh after switching deferred deletion off and
    deleting have the same logical mesh (`LogIso`: entities, definitions, all property values), in both deletion styles
    (both sides use the `fast` setting of `k`) and every bottom-up configuration.
    `_partial`: ONE deletion.  For a list of deletions the two runs use different handles from the second call on (the
    immediate run renumbers after every call), so the statement needs the arguments of the immediate run translated
    through the renumbering so far: that is `deferred_list_then_gc_equals_immediate` below (this theorem is its
    one-request instance, `single_request_instance`). -/
theorem deferred_then_gc_equals_immediate_partial (k : Kernel) (hi : Global.GInv k) (hd : k.deferred = true)
    (hn : k.needsGC = false) :
    (∀ c, c < k.nC → ∃ ρ, LogIso (k.deleteCell c).collectGarbage (({ k with deferred := false } : Kernel).deleteCell c) ρ) ∧
    (∀ f, f < k.nF → ∃ ρ, LogIso (k.deleteFace f).collectGarbage (({ k with deferred := false } : Kernel).deleteFace f) ρ) ∧
    (∀ e, e < k.nE → ∃ ρ, LogIso (k.deleteEdge e).collectGarbage (({ k with deferred := false } : Kernel).deleteEdge e) ρ) ∧
    (∀ v, v < k.nV → ∃ ρ, LogIso (k.deleteVertex v).collectGarbage (({ k with deferred := false } : Kernel).deleteVertex v) ρ) :=
  deferred_gc_eq_immediate hi hd hn

/-- **the quantifier of the property**: after every history of valid calls from the empty mesh (any set of pending
    deferred deletions such a history can leave, `fast` on or off, any bottom-up configuration), `collect_garbage` keeps
    the logical mesh and leaves nothing pending -/
theorem garbage_collection_on_reachable_states (ops : List Op) (h : Global.HistoryOK {} ops) :
    (∃ ρ, LogIso (({} : Kernel).run ops) (({} : Kernel).run ops).collectGarbage ρ) ∧
    ((({} : Kernel).run ops).deferred = true → (({} : Kernel).run ops).collectGarbage.needsGC = false ∧
      NoFlag (({} : Kernel).run ops).collectGarbage.cDel ∧ NoFlag (({} : Kernel).run ops).collectGarbage.fDel ∧
      NoFlag (({} : Kernel).run ops).collectGarbage.eDel ∧ NoFlag (({} : Kernel).run ops).collectGarbage.vDel) := by
  obtain ⟨⟨ρ, s, _⟩, _, n, _⟩ := garbage_collection_preserves_logical_mesh _ (Global.ginv_reachable ops h)
  exact ⟨⟨ρ, s⟩, fun hd => ⟨(n hd).2.2.2.2, (n hd).1, (n hd).2.1, (n hd).2.2.1, (n hd).2.2.2.1⟩⟩

/-! non-vacuity -/

set_option maxRecDepth 8000 in
/-- a state with pending deletions that satisfies the hypotheses (the tetrahedron after a deferred `delete_vertex(0)`:
    eight entities flagged), swap-with-last style; `collect_garbage` leaves one triangle, nothing pending (TEST by
    evaluation next to the theorem's conclusion) -/
example : Global.GInv (tetK.deleteVertex 0) ∧ (tetK.deleteVertex 0).deferred = true ∧ (tetK.deleteVertex 0).needsGC = true ∧
    (tetK.deleteVertex 0).fast = true ∧
    (∃ ρ, LogIso (tetK.deleteVertex 0) (tetK.deleteVertex 0).collectGarbage ρ) ∧
    (tetK.deleteVertex 0).collectGarbage.edges = [(0, 2), (1, 2), (0, 1)] ∧
    (tetK.deleteVertex 0).collectGarbage.faces = [[5, 0, 3]] ∧ (tetK.deleteVertex 0).collectGarbage.nV = 3 ∧
    (tetK.deleteVertex 0).collectGarbage.needsGC = false := by
  have g := Global.ginv_deleteVertex (v := 0) (by decide) ginv_tetK
  obtain ⟨⟨ρ, s, _⟩, _, _⟩ := garbage_collection_preserves_logical_mesh _ g
  exact ⟨g, by decide, by decide, by decide, ⟨ρ, s⟩, by decide, by decide, by decide, by decide⟩

set_option maxRecDepth 8000 in
/-- the same in index-shifting style (`tetS`), where the survivors keep their order -/
example : Global.GInv (tetS.deleteVertex 0) ∧ (tetS.deleteVertex 0).fast = false ∧ (tetS.deleteVertex 0).needsGC = true ∧
    (∃ ρ, LogIso (tetS.deleteVertex 0) (tetS.deleteVertex 0).collectGarbage ρ) ∧
    (tetS.deleteVertex 0).collectGarbage.edges = [(0, 1), (2, 0), (2, 1)] ∧
    (tetS.deleteVertex 0).collectGarbage.faces = [[3, 4, 1]] := by
  have g0 : Global.GInv tetS := Global.ginv_of_noFlag wf_tetS (by decide) (by unfold NoFlag; decide)
    (by unfold NoFlag; decide) (by unfold NoFlag; decide) (by unfold NoFlag; decide)
  have g := Global.ginv_deleteVertex (v := 0) (by decide) g0
  obtain ⟨⟨ρ, s, _⟩, _, _⟩ := garbage_collection_preserves_logical_mesh _ g
  exact ⟨g, by decide, by decide, ⟨ρ, s⟩, by decide, by decide⟩

set_option maxRecDepth 8000 in
/-- deferred + collect = immediate on the tetrahedron (hypotheses hold; both sides by evaluation: one triangle) -/
example : Global.GInv tetK ∧ tetK.deferred = true ∧ tetK.needsGC = false ∧ (0 : Nat) < tetK.nV ∧
    (∃ ρ, LogIso (tetK.deleteVertex 0).collectGarbage (({ tetK with deferred := false } : Kernel).deleteVertex 0) ρ) ∧
    (tetK.deleteVertex 0).collectGarbage.faces = [[5, 0, 3]] ∧
    (({ tetK with deferred := false } : Kernel).deleteVertex 0).faces = [[5, 0, 3]] :=
  ⟨ginv_tetK, rfl, by decide, by decide,
   (deferred_then_gc_equals_immediate_partial tetK ginv_tetK rfl (by decide)).2.2.2 0 (by decide), by decide, by decide⟩

end OVM.Props.C04

/-! ======================= appended by builder (lists of deletions, C04) ======================= -/
namespace OVM.Props.C04
open OVM OVM.Kernel OVM.Kernel.Logical

/-! ------------------------------------------------------------------------------------------
    Lists of deletions (OVM/Refine/LogicalDeleteList.lean).  A request list `ds : List Req` (kind + handle) is written
    in the handles of the start state `k`.
    * `runDef k ds` — the deferred run: `delete_*` with the handles as written (nothing moves in deferred mode); a
      request whose entity does not exist or is flagged already is skipped (`delete_*` asserts `!is_deleted(_h)`,
      TopologyKernel.cc:629/681/724/755).
    * `ImmRun k ds kf` — an immediate run from `{k with deferred := false}` ending in `kf`: the bookkeeping carries the
      renumbering `σ` from `k`'s handles to the current ones and the set `R` of `k`'s entities removed so far; a request is
      skipped when its entity was not live in `k` or is in `R` (removed by the cascade of an earlier request), otherwise
      `delete_*` is called at the handle read through `σ`, and `σ`, `R` are updated with ANY renumbering `ρ` for which
      that call is "the current logical mesh minus the closure of the victim" (`TrackedRun.exec`; the real renumbering of
      every mode is one: `deletion_removes_exactly_the_closure`, C02).
    * `closure k (reqSet k ds)` — the abstract specification: the requested live entities and everything incident
      upwards to a removed entity (edges of removed vertices, faces of removed edges, cells of removed faces).
    ------------------------------------------------------------------------------------------ -/

/-- **Any list of deferred deletions followed by `collect_garbage` equals the same deletions performed immediately, up
    to renumbering.**  Let `k` be a deferred-mode state with nothing pending that satisfies the reachability invariant
    (`fast` on or off, every bottom-up configuration).  For every request list `ds`: an immediate run exists (it never
    gets stuck), and for EVERY immediate run `kf` (whatever renumberings were used to track the handles)
      * `(runDef k ds).collectGarbage` is the logical mesh of `k` minus the upward closure of the requested set,
      * so is `kf`,
      * hence the two have the same logical mesh (`LogIso`: entities, definitions, all property values),
      * and the collected state satisfies the invariant again with nothing pending.
    The order of the requests, repetitions and requests made void by an earlier cascade do not matter. -/
theorem deferred_list_then_gc_equals_immediate (k : Kernel) (hi : Global.GInv k) (hd : k.deferred = true)
    (hn : k.needsGC = false) (ds : List Req) :
    (∃ kf, ImmRun k ds kf) ∧
    ∀ kf, ImmRun k ds kf →
      (∃ ρ, LogMinus k (runDef k ds).collectGarbage ρ (closure k (reqSet k ds))) ∧
      (∃ ρ, LogMinus k kf ρ (closure k (reqSet k ds))) ∧
      (∃ ρ, LogIso (runDef k ds).collectGarbage kf ρ) ∧
      Global.GInv (runDef k ds).collectGarbage ∧ (runDef k ds).collectGarbage.needsGC = false := by
  obtain ⟨ex, h⟩ := deferred_list_gc_eq_immediate hi hd hn ds
  refine ⟨ex, fun kf r => ?_⟩
  obtain ⟨a, b, c, g⟩ := h kf r
  obtain ⟨gd, dd⟩ := runDef_ginv hi hd ds
  exact ⟨a, b, c, g, ((garbage_collection_preserves_logical_mesh _ gd).2.2.1 dd).2.2.2.2⟩

/-- the specification side alone, for any tracked run in any mode (in particular a list of deletions in ONE mode,
    C02): from a state `k` satisfying the invariant, every run of the requests `ds` — handles read through the
    renumberings so far — ends in the logical mesh of `k` minus the upward closure of the requested set -/
theorem deletion_list_removes_exactly_the_closure (k : Kernel) (hi : Global.GInv k) (ds : List Req) :
    (∃ kf, TrackedRun k k Ren.id Rem.none ds kf) ∧
    ∀ kf, TrackedRun k k Ren.id Rem.none ds kf → ∃ ρ, LogMinus k kf ρ (closure k (reqSet k ds)) := by
  refine ⟨tracked_exists ds k _ _ hi (LogIso.refl k), fun kf r => ?_⟩
  obtain ⟨σ, s⟩ := tracked_spec hi.wf hi.closed r Rem.none (EqLive.refl _ _) (upClosed_none k) (LogIso.refl k)
  exact ⟨σ, (s.congrLive (eqLive_none_union k _)).congrLive (eqLive_cloSet_closure k ds)⟩

/-- the one-request instance: `deferred_then_gc_equals_immediate_partial` (live victims) is a corollary -/
theorem single_request_instance (k : Kernel) (hi : Global.GInv k) (hd : k.deferred = true) (hn : k.needsGC = false)
    (d : Req) (hl : d.live k = true) :
    ∃ ρ, LogIso (d.apply k).collectGarbage (d.apply ({ k with deferred := false } : Kernel)) ρ := by
  have gI := ginv_immediate hi hn
  have hlI : d.live ({ k with deferred := false } : Kernel) = true := by cases d <;> exact hl
  obtain ⟨ρ, _, step⟩ := Req.logical gI hlI
  have h := ((deferred_list_then_gc_equals_immediate k hi hd hn [d]).2 _ (immRun_single hl step)).2.2.1
  have e : runDef k [d] = d.apply k := by simp [runDef, hl]
  rw [e] at h
  exact h

/-! non-vacuity -/

set_option maxRecDepth 8000 in
/-- the hypotheses hold for the tetrahedron, and the relation `ImmRun` really is the immediate call sequence with
    translated handles: for the requests "vertex 0, face 2, cell 0" (face 2 is the face opposite vertex 0; cell 0 is in
    the closure of both, so the third request is void) the immediate run is `delete_vertex(0)` followed by
    `delete_face(0)` — after the first call the surviving face 2 carries the handle 0 — and the third request is skipped.
    Both runs leave the triangle's three vertices and three edges (the evaluations are a TEST next to the theorem). -/
example : Global.GInv tetK ∧ tetK.deferred = true ∧ tetK.needsGC = false ∧
    (∃ kf, ImmRun tetK [Req.vertex 0, Req.face 2, Req.cell 0] kf ∧ kf = (tetFI.deleteVertex 0).deleteFace 0 ∧
      ∃ ρ, LogIso (runDef tetK [Req.vertex 0, Req.face 2, Req.cell 0]).collectGarbage kf ρ) ∧
    (runDef tetK [Req.vertex 0, Req.face 2, Req.cell 0]).fDel = [true, true, true, true] ∧
    (runDef tetK [Req.vertex 0, Req.face 2, Req.cell 0]).collectGarbage.edges = [(0, 2), (1, 2), (0, 1)] ∧
    (runDef tetK [Req.vertex 0, Req.face 2, Req.cell 0]).collectGarbage.faces = [] ∧
    (runDef tetK [Req.vertex 0, Req.face 2, Req.cell 0]).collectGarbage.nV = 3 ∧
    ((tetFI.deleteVertex 0).deleteFace 0).edges = [(0, 2), (1, 2), (0, 1)] ∧
    ((tetFI.deleteVertex 0).deleteFace 0).faces = [] ∧ ((tetFI.deleteVertex 0).deleteFace 0).nV = 3 := by
  have g0 : Global.GInv tetFI := ginv_immediate (k := tetK) ginv_tetK (by decide)
  obtain ⟨ρ1, _, s1⟩ := Req.logical g0 (d := Req.vertex 0) (by decide)
  have g1 := Req.ginv g0 (d := Req.vertex 0) (by decide)
  have hnot : ¬ upF tetFI (upE tetFI (· = 0)) 2 := by unfold upF upE; decide
  have hsurv : SurvF tetFI (cloV tetFI 0) 2 := ⟨by decide, by decide, hnot⟩
  have h2 : ρ1.f 2 < (tetFI.deleteVertex 0).faces.length := (s1.f.into 2 hsurv).1
  have hlen : (tetFI.deleteVertex 0).faces.length = 1 := by decide
  have e2 : ρ1.f 2 = 0 := by omega
  have em : (Req.face 2).map (ρ1.comp Ren.id) = Req.face 0 := by
    show Req.face (ρ1.f 2) = _
    rw [e2]
  obtain ⟨ρ2, _, s2⟩ := Req.logical g1 (d := Req.face 0) (by decide)
  have run : ImmRun tetK [Req.vertex 0, Req.face 2, Req.cell 0] ((tetFI.deleteVertex 0).deleteFace 0) := by
    have r : TrackedRun tetK tetFI Ren.id Rem.none [Req.vertex 0, Req.face 2, Req.cell 0]
        (Req.apply (tetFI.deleteVertex 0) ((Req.face 2).map (ρ1.comp Ren.id))) :=
      TrackedRun.exec (k0 := tetK) (d := Req.vertex 0) (ρ := ρ1) (by decide) (fun h => h) s1
      (TrackedRun.exec (d := Req.face 2) (ρ := ρ2) (by decide) (fun h => h.elim (fun x => x) hnot) (by rw [em]; exact s2)
        (TrackedRun.skip (Or.inr (Or.inl (Or.inr (by
          show upC tetFI (upF tetFI (upE tetFI (· = 0))) 0
          unfold upC upF upE; decide)))) (TrackedRun.done _ _ _)))
    rw [em] at r
    exact r
  have h := (deferred_list_then_gc_equals_immediate tetK ginv_tetK rfl (by decide)
    [Req.vertex 0, Req.face 2, Req.cell 0]).2 _ run
  exact ⟨ginv_tetK, rfl, by decide, ⟨_, run, rfl, h.2.2.1⟩, by decide, by decide, by decide, by decide, by decide,
    by decide, by decide⟩

set_option maxRecDepth 8000 in
/-- the other order ("face 2, vertex 0") gives the same mesh on both sides (TEST by evaluation; that it must is the
    theorem: the closure of the requested set does not depend on the order) -/
example : (∃ kf, ImmRun tetK [Req.face 2, Req.vertex 0] kf ∧
      ∃ ρ, LogIso (runDef tetK [Req.face 2, Req.vertex 0]).collectGarbage kf ρ) ∧
    (runDef tetK [Req.face 2, Req.vertex 0]).collectGarbage.edges = [(0, 2), (1, 2), (0, 1)] ∧
    (runDef tetK [Req.face 2, Req.vertex 0]).collectGarbage.faces = [] ∧
    ((tetFI.deleteFace 2).deleteVertex 0).edges = [(0, 2), (1, 2), (0, 1)] ∧
    ((tetFI.deleteFace 2).deleteVertex 0).faces = [] := by
  obtain ⟨⟨kf, r⟩, h⟩ := deferred_list_then_gc_equals_immediate tetK ginv_tetK rfl (by decide) [Req.face 2, Req.vertex 0]
  exact ⟨⟨kf, r, (h kf r).2.2.1⟩, by decide, by decide, by decide, by decide⟩

end OVM.Props.C04

/-! ======================= appended by builder (pending counters, C04) ======================= -/
namespace OVM.Props.C04
open OVM OVM.Kernel OVM.Kernel.Logical

/-- **The pending-deletion counters count the flags, along deletion histories.**  `CountInv k`: `n_deleted_* = number of
    flagged slots`, per kind.  It holds in every state with nothing pending, and from a state satisfying it and the
    reachability invariant it is kept by `delete_*` of a live entity in every mode, by `collect_garbage`, by
    `enable_deferred_deletion`, hence along every list of deletion requests followed or not by a collection; and it
    makes `n_logical_*` the number of live entities (`nLive`: not-flagged slots) — the truncated subtraction hides nothing.
    `_partial`: the other operations of the vocabulary (`add_*`, `set_*`, `swap_*`, the bottom-up switches, `clear`) are
    not covered (they do not touch the counters and only append unflagged slots / permute flags); and the victim of a
    `delete_*` must be live — the C++ `assert(!is_deleted(_h))`: the deferred cores bump the counter unconditionally, so
    deleting a flagged entity again would leave `n_deleted_*` one too high. -/
theorem pending_counters_count_flags_partial (k : Kernel) (hi : Global.GInv k) :
    (k.needsGC = false → CountInv k) ∧
    (CountInv k →
      (∀ d : Req, d.live k = true → CountInv (d.apply k)) ∧ CountInv k.collectGarbage ∧
      (∀ b, CountInv (k.enableDeferred b)) ∧
      (∀ ds, CountInv (runDef k ds) ∧ CountInv (runDef k ds).collectGarbage) ∧
      (k.nLogV = nLive k.nV k.vDel ∧ k.nLogE = nLive k.edges.length k.eDel ∧ k.nLogF = nLive k.faces.length k.fDel ∧
        k.nLogC = nLive k.cells.length k.cDel)) := by
  refine ⟨fun hn => ?_, fun ci => ⟨fun d hl => Req.countInv hi hl ci, ?_, fun b => ?_, fun ds => ?_, nLog_eq_nLive hi.wf ci⟩⟩
  · obtain ⟨n1, n2, n3, n4⟩ := hi.noFlag_of_noGC hn
    obtain ⟨z1, z2, z3, z4⟩ := needsGC_false_iff hn
    exact countInv_of_noFlag n1 n2 n3 n4 z1 z2 z3 z4
  · exact countInv_collectGarbage hi (collectGarbage_modes k).2.2.2.2.2 ci
  · exact countInv_enableDeferred hi (collectGarbage_modes k).2.2.2.2.2 b ci
  · obtain ⟨c, g⟩ := countInv_runDef ds hi ci
    exact ⟨c, countInv_collectGarbage g (collectGarbage_modes _).2.2.2.2.2 c⟩

set_option maxRecDepth 8000 in
/-- non-vacuity: the tetrahedron has exact counters; after the deferred requests "vertex 0, face 2, cell 0" one vertex,
    three edges, four faces and the cell are flagged and the counters say so (TEST by evaluation next to the theorem):
    `n_logical_faces = 0` -/
example : CountInv tetK ∧ CountInv (runDef tetK [Req.vertex 0, Req.face 2, Req.cell 0]) ∧
    (runDef tetK [Req.vertex 0, Req.face 2, Req.cell 0]).nDelV = 1 ∧
    (runDef tetK [Req.vertex 0, Req.face 2, Req.cell 0]).nDelE = 3 ∧
    (runDef tetK [Req.vertex 0, Req.face 2, Req.cell 0]).nDelF = 4 ∧
    (runDef tetK [Req.vertex 0, Req.face 2, Req.cell 0]).nDelC = 1 ∧
    (runDef tetK [Req.vertex 0, Req.face 2, Req.cell 0]).eDel = [true, false, true, true, false, false] ∧
    (runDef tetK [Req.vertex 0, Req.face 2, Req.cell 0]).nLogF = 0 := by
  have c0 := (pending_counters_count_flags_partial tetK ginv_tetK).1 (by decide)
  exact ⟨c0, ((pending_counters_count_flags_partial tetK ginv_tetK).2 c0).2.2.2.1 _ |>.1, by decide, by decide, by decide,
    by decide, by decide, by decide⟩

end OVM.Props.C04

import OVM.Refine.DeleteFrames
import OVM.Refine.Inv
/-
  C04 — garbage collection preserves the logical mesh and remaps tracked handles.
  Proved here for every state:
  * `collect_garbage` is the identity when there is nothing to collect or deferred mode is off;
  * when it runs it leaves deferred mode, fast mode and the three incidence flags exactly as
    they were, and all four pending-deletion counters are zero afterwards
    (`needs_garbage_collection` is false);
  * `enable_deferred_deletion(false)` is `collect_garbage` followed by clearing the flag;
  * each sweep visits the slots from the back; a slot is handed to `delete_*_core` only if it is
    flagged at that moment, in immediate mode.
  That the surviving definitions and property values are those of the logical mesh is checked
  on every garbage-collection step of the correspondence run (token-named-mesh oracle) and is
  on the refinement ladder (it is a composition of the `delete_*_core` refinements).
-/
namespace OVM.Props.C04
open OVM OVM.Kernel

theorem collectGarbage_noop (k : Kernel) (h : k.deferred = false ∨ k.needsGC = false) :
    k.collectGarbage = k := by
  unfold collectGarbage
  rcases h with h | h <;> simp [h]

/-- what a garbage-collection sweep cannot change: modes, incidence flags, counters -/
def Modes (k : Kernel) : Bool × Bool × Bool × Bool × Bool × Nat × Nat × Nat × Nat :=
  (k.deferred, k.fast, k.vBU, k.eBU, k.fBU, k.nDelV, k.nDelE, k.nDelF, k.nDelC)

theorem sweep_modes (k : Kernel) (hd : k.deferred = false) (n : Nat) (isDel : Kernel → Nat → Bool)
    (unflag core : Kernel → Nat → Kernel)
    (hu : ∀ k i, Modes (unflag k i) = Modes k)
    (hc : ∀ k i, k.deferred = false → Modes (core k i) = Modes k) :
    Modes (gcSweep k n isDel unflag core) = Modes k := by
  refine (gcSweep_frame Modes (fun k => k.deferred = false) isDel unflag core ?_ ?_ k hd n).1
  · intro k i hk
    have := hu k i
    refine ⟨this, ?_⟩
    have e : (unflag k i).deferred = k.deferred := congrArg (·.1) this
    rw [e]; exact hk
  · intro k i hk
    have := hc k i hk
    refine ⟨this, ?_⟩
    have e : (core k i).deferred = k.deferred := congrArg (·.1) this
    rw [e]; exact hk

theorem core_modes (k : Kernel) (i : Nat) (hd : k.deferred = false) :
    Modes (k.deleteCellCore i) = Modes k ∧ Modes (k.deleteFaceCore i) = Modes k ∧
    Modes (k.deleteEdgeCore i) = Modes k ∧ Modes (k.deleteVertexCore i) = Modes k := by
  unfold Modes
  simp [deleteCellCore_nDelV_imm k i hd, deleteCellCore_nDelE_imm k i hd, deleteCellCore_nDelF_imm k i hd,
    deleteCellCore_nDelC_imm k i hd, deleteFaceCore_nDelV_imm k i hd, deleteFaceCore_nDelE_imm k i hd,
    deleteFaceCore_nDelF_imm k i hd, deleteFaceCore_nDelC_imm k i hd, deleteEdgeCore_nDelV_imm k i hd,
    deleteEdgeCore_nDelE_imm k i hd, deleteEdgeCore_nDelF_imm k i hd, deleteEdgeCore_nDelC_imm k i hd,
    deleteVertexCore_nDelV_imm k i hd, deleteVertexCore_nDelE_imm k i hd, deleteVertexCore_nDelF_imm k i hd,
    deleteVertexCore_nDelC_imm k i hd]

/-- the four sweeps: modes and flags kept, own counter reset, other counters kept -/
theorem gc_stages (k : Kernel) (hd : k.deferred = false) :
    Modes (gcCells k) = (k.deferred, k.fast, k.vBU, k.eBU, k.fBU, k.nDelV, k.nDelE, k.nDelF, 0) ∧
    Modes (gcFaces k) = (k.deferred, k.fast, k.vBU, k.eBU, k.fBU, k.nDelV, k.nDelE, 0, k.nDelC) ∧
    Modes (gcEdges k) = (k.deferred, k.fast, k.vBU, k.eBU, k.fBU, k.nDelV, 0, k.nDelF, k.nDelC) ∧
    Modes (gcVerts k) = (k.deferred, k.fast, k.vBU, k.eBU, k.fBU, 0, k.nDelE, k.nDelF, k.nDelC) := by
  have h1 := sweep_modes k hd k.nC cDeleted (fun k i => { k with cDel := k.cDel.set i false }) deleteCellCore
    (fun _ _ => rfl) (fun k i h => (core_modes k i h).1)
  have h2 := sweep_modes k hd k.nF fDeleted (fun k i => { k with fDel := k.fDel.set i false }) deleteFaceCore
    (fun _ _ => rfl) (fun k i h => (core_modes k i h).2.1)
  have h3 := sweep_modes k hd k.nE eDeleted (fun k i => { k with eDel := k.eDel.set i false }) deleteEdgeCore
    (fun _ _ => rfl) (fun k i h => (core_modes k i h).2.2.1)
  have h4 := sweep_modes k hd k.nV vDeleted (fun k i => { k with vDel := k.vDel.set i false }) deleteVertexCore
    (fun _ _ => rfl) (fun k i h => (core_modes k i h).2.2.2)
  unfold Modes at h1 h2 h3 h4 ⊢
  simp only [Prod.mk.injEq] at h1 h2 h3 h4
  unfold gcCells gcFaces gcEdges gcVerts
  simp only [Prod.mk.injEq]
  refine ⟨⟨h1.1, h1.2.1, h1.2.2.1, h1.2.2.2.1, h1.2.2.2.2.1, h1.2.2.2.2.2.1, h1.2.2.2.2.2.2.1, h1.2.2.2.2.2.2.2.1, trivial⟩,
          ⟨h2.1, h2.2.1, h2.2.2.1, h2.2.2.2.1, h2.2.2.2.2.1, h2.2.2.2.2.2.1, h2.2.2.2.2.2.2.1, trivial, h2.2.2.2.2.2.2.2.2⟩,
          ⟨h3.1, h3.2.1, h3.2.2.1, h3.2.2.2.1, h3.2.2.2.2.1, h3.2.2.2.2.2.1, trivial, h3.2.2.2.2.2.2.2.1, h3.2.2.2.2.2.2.2.2⟩,
          ⟨h4.1, h4.2.1, h4.2.2.1, h4.2.2.2.1, h4.2.2.2.2.1, trivial, h4.2.2.2.2.2.2.1, h4.2.2.2.2.2.2.2.1, h4.2.2.2.2.2.2.2.2⟩⟩

attribute [local irreducible] gcCells gcFaces gcEdges gcVerts in
/-- all four sweeps in sequence -/
theorem gc_all (k : Kernel) (hd : k.deferred = false) :
    Modes (gcVerts (gcEdges (gcFaces (gcCells k)))) = (false, k.fast, k.vBU, k.eBU, k.fBU, 0, 0, 0, 0) := by
  have s1 := (gc_stages k hd).1
  have d1 : (gcCells k).deferred = false := (congrArg (·.1) s1).trans hd
  have s2 := (gc_stages (gcCells k) d1).2.1
  have d2 : (gcFaces (gcCells k)).deferred = false := (congrArg (·.1) s2).trans d1
  have s3 := (gc_stages (gcFaces (gcCells k)) d2).2.2.1
  have d3 : (gcEdges (gcFaces (gcCells k))).deferred = false := (congrArg (·.1) s3).trans d2
  have s4 := (gc_stages (gcEdges (gcFaces (gcCells k))) d3).2.2.2
  rw [s4]
  unfold Modes at s1 s2 s3
  simp only [Prod.mk.injEq] at s1 s2 s3 ⊢
  refine ⟨d3, ?_, ?_, ?_, ?_, trivial, ?_, ?_, ?_⟩
  · rw [s3.2.1, s2.2.1, s1.2.1]
  · rw [s3.2.2.1, s2.2.2.1, s1.2.2.1]
  · rw [s3.2.2.2.1, s2.2.2.2.1, s1.2.2.2.1]
  · rw [s3.2.2.2.2.1, s2.2.2.2.2.1, s1.2.2.2.2.1]
  · exact s3.2.2.2.2.2.2.1
  · rw [s3.2.2.2.2.2.2.2.1]; exact s2.2.2.2.2.2.2.2.1
  · rw [s3.2.2.2.2.2.2.2.2, s2.2.2.2.2.2.2.2.2]; exact s1.2.2.2.2.2.2.2.2

attribute [local irreducible] gcCells gcFaces gcEdges gcVerts in
/-- modes and incidence flags survive garbage collection; nothing is pending afterwards -/
theorem collectGarbage_modes (k : Kernel) :
    k.collectGarbage.deferred = k.deferred ∧ k.collectGarbage.fast = k.fast ∧
    k.collectGarbage.vBU = k.vBU ∧ k.collectGarbage.eBU = k.eBU ∧ k.collectGarbage.fBU = k.fBU ∧
    (k.deferred = true → k.collectGarbage.needsGC = false) := by
  unfold collectGarbage
  split
  · rename_i h
    refine ⟨rfl, rfl, rfl, rfl, rfl, ?_⟩
    intro hd
    simpa [hd] using h
  · rename_i h
    simp only [Bool.or_eq_true, Bool.not_eq_true', not_or, Bool.not_eq_false] at h
    have g := gc_all { k with deferred := false } rfl
    unfold Modes at g
    simp only [Prod.mk.injEq] at g
    refine ⟨h.1.symm, g.2.1, g.2.2.1, g.2.2.2.1, g.2.2.2.2.1, ?_⟩
    intro _
    unfold needsGC
    simp only [g.2.2.2.2.2.1, g.2.2.2.2.2.2.1, g.2.2.2.2.2.2.2.1, g.2.2.2.2.2.2.2.2]
    decide

/-- leaving deferred mode collects first -/
theorem enableDeferred_false (k : Kernel) :
    k.enableDeferred false = { (if k.deferred then k.collectGarbage else k) with deferred := false } := by
  unfold enableDeferred; simp

theorem enableDeferred_false_flag (k : Kernel) : (k.enableDeferred false).deferred = false := by
  unfold enableDeferred; simp

example :
    let k : Kernel := { nV := 3, vDel := [false, true, false], nDelV := 1, vBU := false, eBU := false, fBU := false,
                        edges := [(0, 2)], eDel := [false],
                        props := { v := [{ key := "t", dflt := 0, vals := [7, 8, 9] }] } }
    k.collectGarbage.nV = 2 ∧ k.collectGarbage.edges = [(0, 1)] ∧ k.collectGarbage.needsGC = false ∧
    k.collectGarbage.props.v = [{ key := "t", dflt := 0, vals := [7, 9] }] := by decide +kernel

end OVM.Props.C04

import OVM.Refine.DeleteFrames
import OVM.Refine.Inv
import OVM.Refine.CacheClosed
import OVM.Refine.CacheSet
import OVM.Refine.CacheImmediate
import OVM.Refine.CacheAssembly
import OVM.Refine.LogicalRead
/-
  C04 — garbage collection preserves the logical mesh and remaps tracked handles.
  Proved here for every state:
  * `collect_garbage` is the identity when there is nothing to collect or deferred mode is off;
  * when it runs it leaves deferred mode, fast mode and the three incidence flags exactly as
    they were, and all four pending-deletion counters are zero afterwards
    (`needs_garbage_collection` is false);
  * `enable_deferred_deletion(false)` is `collect_garbage` followed by clearing the flag;
  * each sweep visits the slots from the back; a slot is handed to `delete_*_core` only if it is
    flagged at that moment, in immediate mode.
  That the surviving definitions and property values are those of the logical mesh is checked
  on every garbage-collection step of the correspondence run (token-named-mesh oracle) and is
  on the refinement ladder (it is a composition of the `delete_*_core` refinements).
-/
namespace OVM.Props.C04
open OVM OVM.Kernel

theorem collectGarbage_noop (k : Kernel) (h : k.deferred = false ∨ k.needsGC = false) :
    k.collectGarbage = k := by
  unfold collectGarbage
  rcases h with h | h <;> simp [h]

/-- what a garbage-collection sweep cannot change: modes, incidence flags, counters -/
def Modes (k : Kernel) : Bool × Bool × Bool × Bool × Bool × Nat × Nat × Nat × Nat :=
  (k.deferred, k.fast, k.vBU, k.eBU, k.fBU, k.nDelV, k.nDelE, k.nDelF, k.nDelC)

theorem sweep_modes (k : Kernel) (hd : k.deferred = false) (n : Nat) (isDel : Kernel → Nat → Bool)
    (unflag core : Kernel → Nat → Kernel)
    (hu : ∀ k i, Modes (unflag k i) = Modes k)
    (hc : ∀ k i, k.deferred = false → Modes (core k i) = Modes k) :
    Modes (gcSweep k n isDel unflag core) = Modes k := by
  refine (gcSweep_frame Modes (fun k => k.deferred = false) isDel unflag core ?_ ?_ k hd n).1
  · intro k i hk
    have := hu k i
    refine ⟨this, ?_⟩
    have e : (unflag k i).deferred = k.deferred := congrArg (·.1) this
    rw [e]; exact hk
  · intro k i hk
    have := hc k i hk
    refine ⟨this, ?_⟩
    have e : (core k i).deferred = k.deferred := congrArg (·.1) this
    rw [e]; exact hk

theorem core_modes (k : Kernel) (i : Nat) (hd : k.deferred = false) :
    Modes (k.deleteCellCore i) = Modes k ∧ Modes (k.deleteFaceCore i) = Modes k ∧
    Modes (k.deleteEdgeCore i) = Modes k ∧ Modes (k.deleteVertexCore i) = Modes k := by
  unfold Modes
  simp [deleteCellCore_nDelV_imm k i hd, deleteCellCore_nDelE_imm k i hd, deleteCellCore_nDelF_imm k i hd,
    deleteCellCore_nDelC_imm k i hd, deleteFaceCore_nDelV_imm k i hd, deleteFaceCore_nDelE_imm k i hd,
    deleteFaceCore_nDelF_imm k i hd, deleteFaceCore_nDelC_imm k i hd, deleteEdgeCore_nDelV_imm k i hd,
    deleteEdgeCore_nDelE_imm k i hd, deleteEdgeCore_nDelF_imm k i hd, deleteEdgeCore_nDelC_imm k i hd,
    deleteVertexCore_nDelV_imm k i hd, deleteVertexCore_nDelE_imm k i hd, deleteVertexCore_nDelF_imm k i hd,
    deleteVertexCore_nDelC_imm k i hd]

/-- the four sweeps: modes and flags kept, own counter reset, other counters kept -/
theorem gc_stages (k : Kernel) (hd : k.deferred = false) :
    Modes (gcCells k) = (k.deferred, k.fast, k.vBU, k.eBU, k.fBU, k.nDelV, k.nDelE, k.nDelF, 0) ∧
    Modes (gcFaces k) = (k.deferred, k.fast, k.vBU, k.eBU, k.fBU, k.nDelV, k.nDelE, 0, k.nDelC) ∧
    Modes (gcEdges k) = (k.deferred, k.fast, k.vBU, k.eBU, k.fBU, k.nDelV, 0, k.nDelF, k.nDelC) ∧
    Modes (gcVerts k) = (k.deferred, k.fast, k.vBU, k.eBU, k.fBU, 0, k.nDelE, k.nDelF, k.nDelC) := by
  have h1 := sweep_modes k hd k.nC cDeleted (fun k i => { k with cDel := k.cDel.set i false }) deleteCellCore
    (fun _ _ => rfl) (fun k i h => (core_modes k i h).1)
  have h2 := sweep_modes k hd k.nF fDeleted (fun k i => { k with fDel := k.fDel.set i false }) deleteFaceCore
    (fun _ _ => rfl) (fun k i h => (core_modes k i h).2.1)
  have h3 := sweep_modes k hd k.nE eDeleted (fun k i => { k with eDel := k.eDel.set i false }) deleteEdgeCore
    (fun _ _ => rfl) (fun k i h => (core_modes k i h).2.2.1)
  have h4 := sweep_modes k hd k.nV vDeleted (fun k i => { k with vDel := k.vDel.set i false }) deleteVertexCore
    (fun _ _ => rfl) (fun k i h => (core_modes k i h).2.2.2)
  unfold Modes at h1 h2 h3 h4 ⊢
  simp only [Prod.mk.injEq] at h1 h2 h3 h4
  unfold gcCells gcFaces gcEdges gcVerts
  simp only [Prod.mk.injEq]
  refine ⟨⟨h1.1, h1.2.1, h1.2.2.1, h1.2.2.2.1, h1.2.2.2.2.1, h1.2.2.2.2.2.1, h1.2.2.2.2.2.2.1, h1.2.2.2.2.2.2.2.1, trivial⟩,
          ⟨h2.1, h2.2.1, h2.2.2.1, h2.2.2.2.1, h2.2.2.2.2.1, h2.2.2.2.2.2.1, h2.2.2.2.2.2.2.1, trivial, h2.2.2.2.2.2.2.2.2⟩,
          ⟨h3.1, h3.2.1, h3.2.2.1, h3.2.2.2.1, h3.2.2.2.2.1, h3.2.2.2.2.2.1, trivial, h3.2.2.2.2.2.2.2.1, h3.2.2.2.2.2.2.2.2⟩,
          ⟨h4.1, h4.2.1, h4.2.2.1, h4.2.2.2.1, h4.2.2.2.2.1, trivial, h4.2.2.2.2.2.2.1, h4.2.2.2.2.2.2.2.1, h4.2.2.2.2.2.2.2.2⟩⟩

attribute [local irreducible] gcCells gcFaces gcEdges gcVerts in
/-- all four sweeps in sequence -/
theorem gc_all (k : Kernel) (hd : k.deferred = false) :
    Modes (gcVerts (gcEdges (gcFaces (gcCells k)))) = (false, k.fast, k.vBU, k.eBU, k.fBU, 0, 0, 0, 0) := by
  have s1 := (gc_stages k hd).1
  have d1 : (gcCells k).deferred = false := (congrArg (·.1) s1).trans hd
  have s2 := (gc_stages (gcCells k) d1).2.1
  have d2 : (gcFaces (gcCells k)).deferred = false := (congrArg (·.1) s2).trans d1
  have s3 := (gc_stages (gcFaces (gcCells k)) d2).2.2.1
  have d3 : (gcEdges (gcFaces (gcCells k))).deferred = false := (congrArg (·.1) s3).trans d2
  have s4 := (gc_stages (gcEdges (gcFaces (gcCells k))) d3).2.2.2
  rw [s4]
  unfold Modes at s1 s2 s3
  simp only [Prod.mk.injEq] at s1 s2 s3 ⊢
  refine ⟨d3, ?_, ?_, ?_, ?_, trivial, ?_, ?_, ?_⟩
  · rw [s3.2.1, s2.2.1, s1.2.1]
  · rw [s3.2.2.1, s2.2.2.1, s1.2.2.1]
  · rw [s3.2.2.2.1, s2.2.2.2.1, s1.2.2.2.1]
  · rw [s3.2.2.2.2.1, s2.2.2.2.2.1, s1.2.2.2.2.1]
  · exact s3.2.2.2.2.2.2.1
  · rw [s3.2.2.2.2.2.2.2.1]; exact s2.2.2.2.2.2.2.2.1
  · rw [s3.2.2.2.2.2.2.2.2, s2.2.2.2.2.2.2.2.2]; exact s1.2.2.2.2.2.2.2.2

attribute [local irreducible] gcCells gcFaces gcEdges gcVerts in
/-- modes and incidence flags survive garbage collection; nothing is pending afterwards -/
theorem collectGarbage_modes (k : Kernel) :
    k.collectGarbage.deferred = k.deferred ∧ k.collectGarbage.fast = k.fast ∧
    k.collectGarbage.vBU = k.vBU ∧ k.collectGarbage.eBU = k.eBU ∧ k.collectGarbage.fBU = k.fBU ∧
    (k.deferred = true → k.collectGarbage.needsGC = false) := by
  unfold collectGarbage
  split
  · rename_i h
    refine ⟨rfl, rfl, rfl, rfl, rfl, ?_⟩
    intro hd
    simpa [hd] using h
  · rename_i h
    simp only [Bool.or_eq_true, Bool.not_eq_true', not_or, Bool.not_eq_false] at h
    have g := gc_all { k with deferred := false } rfl
    unfold Modes at g
    simp only [Prod.mk.injEq] at g
    refine ⟨h.1.symm, g.2.1, g.2.2.1, g.2.2.2.1, g.2.2.2.2.1, ?_⟩
    intro _
    unfold needsGC
    simp only [g.2.2.2.2.2.1, g.2.2.2.2.2.2.1, g.2.2.2.2.2.2.2.1, g.2.2.2.2.2.2.2.2]
    decide

/-- leaving deferred mode collects first -/
theorem enableDeferred_false (k : Kernel) :
    k.enableDeferred false = { (if k.deferred then k.collectGarbage else k) with deferred := false } := by
  unfold enableDeferred; simp

theorem enableDeferred_false_flag (k : Kernel) : (k.enableDeferred false).deferred = false := by
  unfold enableDeferred; simp

example :
    let k : Kernel := { nV := 3, vDel := [false, true, false], nDelV := 1, vBU := false, eBU := false, fBU := false,
                        edges := [(0, 2)], eDel := [false],
                        props := { v := [{ key := "t", dflt := 0, vals := [7, 8, 9] }] } }
    k.collectGarbage.nV = 2 ∧ k.collectGarbage.edges = [(0, 1)] ∧ k.collectGarbage.needsGC = false ∧
    k.collectGarbage.props.v = [{ key := "t", dflt := 0, vals := [7, 9] }] := by decide +kernel

end OVM.Props.C04

/-! ======================= appended by builder K4 (erase / GC / set side of rung B) ======================= -/
namespace OVM.Props.C04
open OVM OVM.Kernel

/-! ------------------------------------------------------------------------------------------
    Rung B, erase side (builder K4): `set_*`, immediate deletion with index shifting and
    `collect_garbage` keep the cache invariant `WF = LenInv ∧ RangeInv ∧ CacheInv`
    (OVM/Refine/CacheSet.lean, CacheErase.lean, CacheGC.lean, CacheClosed.lean).
    ------------------------------------------------------------------------------------------ -/

/-- **`set_edge` / `set_face` / `set_cell` keep the cache invariant** for an in-range, NOT-deleted entity and
    in-range new handles (cc:503-592).  Liveness is needed: the caches are compared with scans over the
    not-deleted entities and `set_*` links the entity unconditionally (TESTs `setEdge_deleted_breaks` … in
    CacheSet.lean).  `set_cell` needs C01's `oneCell` before and after (`incident_cell_per_hf_` holds one cell
    per halfface; it is cleared / overwritten unconditionally). -/
theorem set_ops_keep_cache_invariant (k : Kernel) (hw : WF k) :
    (∀ e a b, e < k.nE → k.eDeleted e = false → a < k.nV → b < k.nV →
      WF (k.setEdge e a b) ∧ (k.setEdge e a b).oneCell = k.oneCell) ∧
    (∀ f hes, f < k.nF → k.fDeleted f = false → (∀ h ∈ hes, h < k.nHE) →
      WF (k.setFace f hes) ∧ (k.setFace f hes).oneCell = k.oneCell) ∧
    (∀ c hfs, c < k.nC → k.cDeleted c = false → (∀ h ∈ hfs, h < k.nHF) → k.oneCell = true →
      (k.setCell c hfs).oneCell = true → WF (k.setCell c hfs)) :=
  ⟨fun e a b he hl ha hb => ⟨wf_setEdge he hl ha hb hw, oneCell_setEdge k e a b⟩,
   fun f hes hf hl hr => ⟨wf_setFace hf hl hr hw, oneCell_setFace k f hes⟩,
   fun _ _ hc hl hr h1 h1' => wf_setCell hc hl hr hw h1 h1'⟩

/-- non-vacuity: the tetrahedron; `set_edge(0, 1, 0)` reverses edge 0 and the vertex cache follows -/
example : WF tetK ∧ (0 : Nat) < tetK.nE ∧ tetK.eDeleted 0 = false ∧
    (tetK.setEdge 0 1 0).edges.head? = some (1, 0) ∧ (tetK.setEdge 0 1 0).cacheInvB = true :=
  ⟨wf_tetK, by decide, by decide, by decide, by decide⟩

/-- **`collect_garbage` keeps the cache invariant** in index-shifting mode (`fast = false`): from a
    well-formed state with C01's `oneCell` whose deleted flags are closure-consistent (`Closed`: nothing live
    uses something flagged) it yields such a state again, and when it runs, no flagged cell / face / edge /
    vertex remains.  `Closed` is necessary (TEST at the end of CacheGC.lean: an edge added onto a
    deferred-deleted vertex is renamed to a loop by the vertex sweep) and is what the closure-deleting
    `delete_*` of deferred mode maintain (`deferred_deletions_then_collect_garbage` below).
    `_partial`: fast mode (`fast = true`: each sweep step swaps the victim to the last slot first) is not
    covered here. -/
theorem collect_garbage_keeps_cache_invariant_partial (k : Kernel) (hf : k.fast = false) (hw : WF k)
    (h1 : k.oneCell = true) (hc : Closed k) :
    (WF k.collectGarbage ∧ k.collectGarbage.oneCell = true ∧ Closed k.collectGarbage) ∧
    (k.deferred = true → k.needsGC = true →
      CellsLive k.collectGarbage ∧ FacesLive k.collectGarbage ∧ EdgesLive k.collectGarbage ∧
      VertsLive k.collectGarbage) :=
  ⟨wf_collectGarbage hf hw h1 hc, fun hd hg =>
    have c := collected_collectGarbage hd hg hf hw h1 hc
    ⟨c.cells, c.faces, c.edges, c.verts⟩⟩

/-- the deferred-mode invariant `DefInvC` (deferred, `WF`, `oneCell`, `Closed`) along a history of deletions -/
theorem defInvC_run (k : Kernel) (hi : DefInvC k) (ops : List Op)
    (hops : ∀ op ∈ ops, ∃ x, op = .deleteCell x ∨ op = .deleteFace x ∨ op = .deleteEdge x ∨ op = .deleteVertex x) :
    DefInvC (k.run ops) ∧ (k.run ops).fast = k.fast := by
  induction ops generalizing k with
  | nil => exact ⟨hi, rfl⟩
  | cons op t ih =>
    simp only [run, List.foldl_cons]
    obtain ⟨x, hx⟩ := hops op (by simp)
    have hfa := deleteOps_deferred_fast hi.1.1 x
    have step : DefInvC (k.step op).1 ∧ (k.step op).1.fast = k.fast := by
      rcases hx with rfl | rfl | rfl | rfl
      · exact ⟨defInvC_deleteCell x hi, hfa.1⟩
      · exact ⟨defInvC_deleteFace x hi, hfa.2.1⟩
      · exact ⟨defInvC_deleteEdge x hi, hfa.2.2.1⟩
      · exact ⟨defInvC_deleteVertex x hi, hfa.2.2.2⟩
    have := ih _ step.1 (fun o ho => hops o (by simp [ho]))
    exact ⟨this.1, this.2.trans step.2⟩

/-- **deferred deletions followed by `collect_garbage`** (index-shifting mode): from a well-formed deferred
    state with `oneCell` and closure-consistent flags (e.g. no flag at all: `closed_of_allLive`), after ANY
    history of `delete_cell / delete_face / delete_edge / delete_vertex` (any handles) and one
    `collect_garbage`, the cache invariant and `oneCell` hold, and if something was pending no flagged entity
    is left. -/
theorem deferred_deletions_then_collect_garbage (k : Kernel) (hd : k.deferred = true) (hf : k.fast = false)
    (hw : WF k) (h1 : k.oneCell = true) (hc : Closed k) (ops : List Op)
    (hops : ∀ op ∈ ops, ∃ x, op = .deleteCell x ∨ op = .deleteFace x ∨ op = .deleteEdge x ∨ op = .deleteVertex x) :
    let k' := (k.run ops).collectGarbage
    WF k' ∧ k'.oneCell = true ∧ CacheInv k' ∧
    ((k.run ops).needsGC = true → CellsLive k' ∧ FacesLive k' ∧ EdgesLive k' ∧ VertsLive k') := by
  obtain ⟨hi, hfa⟩ := defInvC_run k ⟨⟨hd, hw, h1⟩, hc⟩ ops hops
  have g := collect_garbage_keeps_cache_invariant_partial (k.run ops) (hfa.trans hf) hi.1.2.1 hi.1.2.2 hi.2
  exact ⟨g.1.1, g.1.2.1, g.1.1.cache, fun hg => g.2 hi.1.1 hg⟩

/-- the tetrahedron in index-shifting mode -/
def tetS : Kernel := { tetK with fast := false }

theorem wf_tetS : WF tetS :=
  wf_of_fans_perm (k := tetK) rfl rfl rfl rfl rfl rfl rfl rfl rfl rfl rfl rfl rfl rfl rfl (fun _ => List.Perm.refl _) wf_tetK

set_option maxRecDepth 8000 in
/-- non-vacuity (a state with a pending deletion): the tetrahedron, `delete_vertex(0)` in deferred mode
    flags the cell, three faces, three edges and the vertex; `collect_garbage` erases and renumbers; one
    triangle is left and the caches equal the scans (executable invariant as a cross-check) -/
example : tetS.deferred = true ∧ tetS.fast = false ∧ WF tetS ∧ tetS.oneCell = true ∧
    Closed tetS ∧
    (tetS.run [.deleteVertex 0]).needsGC = true ∧
    ((tetS.run [.deleteVertex 0]).collectGarbage).nV = 3 ∧
    ((tetS.run [.deleteVertex 0]).collectGarbage).edges = [(0, 1), (2, 0), (2, 1)] ∧
    ((tetS.run [.deleteVertex 0]).collectGarbage).faces = [[3, 4, 1]] ∧
    ((tetS.run [.deleteVertex 0]).collectGarbage).cells = [] ∧
    ((tetS.run [.deleteVertex 0]).collectGarbage).cacheInvB = true :=
  ⟨rfl, rfl, wf_tetS, by decide,
   closed_of_allLive (by unfold FacesLive; decide) (by unfold EdgesLive; decide) (by unfold VertsLive; decide)
     wf_tetS.range,
   by decide, by decide, by decide, by decide, by decide, by decide⟩

/-- **immediate deletion with index shifting keeps the cache invariant — the four cores** (`deferred = false`,
    `fast = false`; cc:1359-1429, 1206-1340, 1041-1183, 936-1018): the slot is erased and every stored handle
    and cache entry above it renumbered.  `delete_cell_core` needs only an in-range handle (its assertion) and
    `oneCell`.  The lower cores need the upward-closure fact as stated: nothing of the level above is flagged
    and no stored definition of the level above uses the victim — which `delete_face / delete_edge /
    delete_vertex` establish by deleting the incident cells / faces / edges first (closure versions:
    `immediate_deletion_keeps_cache_invariant` below, OVM/Refine/CacheImmediate.lean).  Without it the code
    really misbehaves: `fixHalfList` drops the victim's half-entities from the users, and
    `delete_vertex_core` renames the endpoint of an incident edge to the PREVIOUS vertex (cc:965-978).
    `_partial`: the fast-mode variants (swap to the last slot, then pop) are builder K3's
    (OVM/Refine/CacheFastDelete.lean). -/
theorem immediate_deletion_keeps_cache_invariant_partial (k : Kernel) (hd : k.deferred = false)
    (hf : k.fast = false) (hw : WF k) (h1 : k.oneCell = true) (h : Nat) :
    (h < k.nC → WF (k.deleteCell h) ∧ (k.deleteCell h).oneCell = true) ∧
    (h < k.nF → CellsLive k → (∀ c ∈ k.cells, ∀ a ∈ c, eOf a ≠ h) →
      WF (k.deleteFaceCore h) ∧ (k.deleteFaceCore h).oneCell = true) ∧
    (h < k.nE → FacesLive k → (∀ f ∈ k.faces, ∀ a ∈ f, eOf a ≠ h) →
      WF (k.deleteEdgeCore h) ∧ (k.deleteEdgeCore h).oneCell = true) ∧
    (h < k.nV → EdgesLive k → (∀ e ∈ k.edges, e.1 ≠ h ∧ e.2 ≠ h) →
      WF (k.deleteVertexCore h) ∧ (k.deleteVertexCore h).oneCell = true) :=
  ⟨fun hh => wf_deleteCellCore_shift hd hf hh hw h1,
   fun hh hl hu => wf_deleteFaceCore_shift hd hf hh hw h1 hl hu,
   fun hh hl hu => wf_deleteEdgeCore_shift hd hf hh hw h1 hl hu,
   fun hh hl hu => wf_deleteVertexCore_shift hd hf hh hw h1 hl hu⟩

/-- the tetrahedron in immediate index-shifting mode -/
def tetI : Kernel := { tetK with deferred := false, fast := false }

theorem wf_tetI : WF tetI :=
  wf_of_fans_perm (k := tetK) rfl rfl rfl rfl rfl rfl rfl rfl rfl rfl rfl rfl rfl rfl rfl (fun _ => List.Perm.refl _) wf_tetK

set_option maxRecDepth 8000 in
/-- non-vacuity: `delete_cell(0)` then `delete_face_core(1)` on the tetrahedron in immediate index-shifting
    mode: hypotheses hold (no cell left uses face 1), face slots 2,3 move down to 1,2, their halffaces in the
    fans are renumbered, and the executable invariant agrees -/
example : tetI.deferred = false ∧ tetI.fast = false ∧ WF tetI ∧ tetI.oneCell = true ∧ (0 : Nat) < tetI.nC ∧
    CellsLive (tetI.deleteCell 0) ∧ (∀ c ∈ (tetI.deleteCell 0).cells, ∀ a ∈ c, eOf a ≠ 1) ∧
    ((tetI.deleteCell 0).deleteFaceCore 1).faces = [[0, 2, 4], [9, 10, 3], [5, 11, 7]] ∧
    ((tetI.deleteCell 0).deleteFaceCore 1).incHfs = [[0], [1], [3, 0], [1, 2], [5, 0], [1, 4], [5], [4], [3], [2], [5, 2], [3, 4]] ∧
    ((tetI.deleteCell 0).deleteFaceCore 1).cacheInvB = true :=
  ⟨rfl, rfl, wf_tetI, by decide, by decide, by unfold CellsLive; decide, by decide, by decide, by decide, by decide⟩


/-- **immediate deletion with index shifting keeps the cache invariant — the closure versions**
    `delete_cell / delete_face / delete_edge / delete_vertex` (`deferred = false`, `fast = false`) with an
    in-range handle map `ImmInv` (immediate index-shifting mode, `WF`, `oneCell`, nothing flagged) to `ImmInv`:
    the incident cells / faces / edges are deleted first, from the highest handle down, which establishes the
    "no stored definition uses the victim" hypothesis of every erase stage
    (`immediate_deletion_keeps_cache_invariant_partial`).  "Nothing flagged" is what immediate mode maintains:
    flags only arise in deferred mode and `enable_deferred_deletion(false)` collects them first. -/
theorem immediate_deletion_keeps_cache_invariant (k : Kernel) (hi : Shift.ImmInv k) (x : Nat) :
    (x < k.nC → Shift.ImmInv (k.deleteCell x)) ∧ (x < k.nF → Shift.ImmInv (k.deleteFace x)) ∧
    (x < k.nE → Shift.ImmInv (k.deleteEdge x)) ∧ (x < k.nV → Shift.ImmInv (k.deleteVertex x)) :=
  ⟨fun h => Shift.immInv_deleteCell hi h, fun h => Shift.immInv_deleteFace hi h,
   fun h => Shift.immInv_deleteEdge hi h, fun h => Shift.immInv_deleteVertex hi h⟩

set_option maxRecDepth 8000 in
/-- non-vacuity: the tetrahedron in immediate index-shifting mode satisfies `ImmInv`; `delete_vertex(0)`
    removes the cell, three faces, three edges and the vertex, renumbers the rest, and two such deletions chain;
    the executable invariant agrees (cross-check) -/
example : Shift.ImmInv Shift.tetImm ∧ (0 : Nat) < Shift.tetImm.nV ∧
    Shift.ImmInv (Shift.tetImm.deleteVertex 0) ∧ WF ((Shift.tetImm.deleteVertex 0).deleteVertex 1) ∧
    (Shift.tetImm.deleteVertex 0).faces = [[3, 4, 1]] ∧ (Shift.tetImm.deleteVertex 0).nV = 3 ∧
    (Shift.tetImm.deleteVertex 0).cacheInvB = true := by
  have h0 := Shift.immInv_tetImm
  have h1 := (immediate_deletion_keeps_cache_invariant _ h0 0).2.2.2 (by decide)
  have h2 := (immediate_deletion_keeps_cache_invariant _ h1 1).2.2.2 (by decide)
  exact ⟨h0, by decide, h1, h2.wf, by decide, by decide, by decide⟩

/-- **assembly** (OVM/Refine/CacheAssembly.lean): every history of the driver vocabulary whose operations satisfy
    the explicit side condition `OpOK` at the time of their call keeps `WF ∧ oneCell`.  `_partial`: `OpOK` is
    `False` for `swap_edge_indices` / `swap_face_indices`, and excludes immediate fast-mode
    `delete_face/edge/vertex` and fast-mode `collect_garbage` (builder K3's files). -/
theorem history_keeps_cache_invariant_partial (k : Kernel) (ops : List Op) (hw : WF k) (h1 : k.oneCell = true)
    (hr : HistoryOK k ops) : WF (k.run ops) ∧ (k.run ops).oneCell = true ∧ CacheInv (k.run ops) :=
  have h := sinv_run_partial k ops ⟨hw, h1⟩ hr
  ⟨h.wf, h.one, h.wf.cache⟩

end OVM.Props.C04

/-! ======================= appended by builder L1 (logical mesh, C04) ======================= -/
namespace OVM.Props.C04
open OVM OVM.Kernel OVM.Kernel.Logical

/-! ------------------------------------------------------------------------------------------
    The property itself, kernel part (builder L1; OVM/Refine/Logical*.lean, LogicalGC.lean).
    `LogIso k k' ρ` = equal logical meshes up to the renumbering `ρ` (`LogMinus` with nothing removed): `ρ` is a bijection
    between the live slots of every kind, every live definition of `k` is found in `k'` at the new handle with every
    handle renamed, and every property column of every kind holds at the new handle what it held at the old one.
    ------------------------------------------------------------------------------------------ -/

/-- **`collect_garbage` and leaving deferred mode keep the logical mesh and leave nothing pending** — both deletion
    styles (index shifting / swap-with-last), every bottom-up configuration, every state satisfying the reachability
    invariant `GInv` (C01: `reach_inv`; any set of pending deletions a history can produce).  The result satisfies the
    invariant again, has the same logical mesh (entities, definitions, all property values: `LogIso`, elementary form
    `Carried … Rem.none`), and when deferred mode was on, no flag and no pending counter is left; the same for
    `enable_deferred_deletion(false)`. -/
theorem garbage_collection_preserves_logical_mesh (k : Kernel) (hi : Global.GInv k) :
    (∃ ρ, LogIso k k.collectGarbage ρ ∧ Carried k k.collectGarbage ρ Rem.none) ∧ Global.GInv k.collectGarbage ∧
    (k.deferred = true → NoFlag k.collectGarbage.cDel ∧ NoFlag k.collectGarbage.fDel ∧ NoFlag k.collectGarbage.eDel ∧
      NoFlag k.collectGarbage.vDel ∧ k.collectGarbage.needsGC = false) ∧
    (∃ ρ, LogIso k (k.enableDeferred false) ρ) ∧ (k.enableDeferred false).deferred = false := by
  obtain ⟨ρ, s⟩ := collectGarbage_log hi
  refine ⟨⟨ρ, s, carried_of_logMinus s⟩, Global.ginv_collectGarbage hi, ?_, ?_, enableDeferred_false_flag k⟩
  · intro hd
    have hn := (collectGarbage_modes k).2.2.2.2.2 hd
    by_cases hg : k.needsGC = true
    · obtain ⟨_, _, n1, n2, n3, n4⟩ := Global.gc_noFlag hi hd hg
      exact ⟨n1, n2, n3, n4, hn⟩
    · rw [Global.collectGarbage_id (fun h => hg h.2)] at hn ⊢
      obtain ⟨n1, n2, n3, n4⟩ := hi.noFlag_of_noGC (by simpa using hg)
      exact ⟨n1, n2, n3, n4, hn⟩
  · rw [enableDeferred_false]
    by_cases hd : k.deferred = true
    · simp only [hd, if_true]
      generalize k.collectGarbage = g at s
      exact ⟨ρ, s.congr_right rfl rfl rfl rfl rfl rfl rfl rfl rfl⟩
    · simp only [hd, Bool.false_eq_true, if_false]
      exact ⟨Ren.id, (LogIso.refl k).congr_right rfl rfl rfl rfl rfl rfl rfl rfl rfl⟩

/-- **Deferred deletion followed by `collect_garbage` equals the same deletion performed immediately, up to
    renumbering**: from a deferred-mode state with nothing pending, for each of `delete_cell/face/edge/vertex` and every
    in-range handle, the mesh after "delete, then collect" and the mesh after switching deferred deletion off and
    deleting have the same logical mesh (`LogIso`: entities, definitions, all property values), in both deletion styles
    (both sides use the `fast` setting of `k`) and every bottom-up configuration.
    `_partial`: ONE deletion.  For a list of deletions the two runs use different handles from the second call on (the
    immediate run renumbers after every call), so the statement needs the arguments of the immediate run translated
    through the renumbering so far; the ingredients are here (`LogMinus.comp`, `LogMinus.iso_of_same`,
    `deletion_removes_exactly_the_closure` on every intermediate state) but the induction is not carried out. -/
theorem deferred_then_gc_equals_immediate_partial (k : Kernel) (hi : Global.GInv k) (hd : k.deferred = true)
    (hn : k.needsGC = false) :
    (∀ c, c < k.nC → ∃ ρ, LogIso (k.deleteCell c).collectGarbage (({ k with deferred := false } : Kernel).deleteCell c) ρ) ∧
    (∀ f, f < k.nF → ∃ ρ, LogIso (k.deleteFace f).collectGarbage (({ k with deferred := false } : Kernel).deleteFace f) ρ) ∧
    (∀ e, e < k.nE → ∃ ρ, LogIso (k.deleteEdge e).collectGarbage (({ k with deferred := false } : Kernel).deleteEdge e) ρ) ∧
    (∀ v, v < k.nV → ∃ ρ, LogIso (k.deleteVertex v).collectGarbage (({ k with deferred := false } : Kernel).deleteVertex v) ρ) :=
  deferred_gc_eq_immediate hi hd hn

/-- **the quantifier of the property**: after every history of valid calls from the empty mesh (any set of pending
    deferred deletions such a history can leave, `fast` on or off, any bottom-up configuration), `collect_garbage` keeps
    the logical mesh and leaves nothing pending -/
theorem garbage_collection_on_reachable_states (ops : List Op) (h : Global.HistoryOK {} ops) :
    (∃ ρ, LogIso (({} : Kernel).run ops) (({} : Kernel).run ops).collectGarbage ρ) ∧
    ((({} : Kernel).run ops).deferred = true → (({} : Kernel).run ops).collectGarbage.needsGC = false ∧
      NoFlag (({} : Kernel).run ops).collectGarbage.cDel ∧ NoFlag (({} : Kernel).run ops).collectGarbage.fDel ∧
      NoFlag (({} : Kernel).run ops).collectGarbage.eDel ∧ NoFlag (({} : Kernel).run ops).collectGarbage.vDel) := by
  obtain ⟨⟨ρ, s, _⟩, _, n, _⟩ := garbage_collection_preserves_logical_mesh _ (Global.ginv_reachable ops h)
  exact ⟨⟨ρ, s⟩, fun hd => ⟨(n hd).2.2.2.2, (n hd).1, (n hd).2.1, (n hd).2.2.1, (n hd).2.2.2.1⟩⟩

/-! non-vacuity -/

set_option maxRecDepth 8000 in
/-- a state with pending deletions that satisfies the hypotheses (the tetrahedron after a deferred `delete_vertex(0)`:
    eight entities flagged), swap-with-last style; `collect_garbage` leaves one triangle, nothing pending (TEST by
    evaluation next to the theorem's conclusion) -/
example : Global.GInv (tetK.deleteVertex 0) ∧ (tetK.deleteVertex 0).deferred = true ∧ (tetK.deleteVertex 0).needsGC = true ∧
    (tetK.deleteVertex 0).fast = true ∧
    (∃ ρ, LogIso (tetK.deleteVertex 0) (tetK.deleteVertex 0).collectGarbage ρ) ∧
    (tetK.deleteVertex 0).collectGarbage.edges = [(0, 2), (1, 2), (0, 1)] ∧
    (tetK.deleteVertex 0).collectGarbage.faces = [[5, 0, 3]] ∧ (tetK.deleteVertex 0).collectGarbage.nV = 3 ∧
    (tetK.deleteVertex 0).collectGarbage.needsGC = false := by
  have g := Global.ginv_deleteVertex (v := 0) (by decide) ginv_tetK
  obtain ⟨⟨ρ, s, _⟩, _, _⟩ := garbage_collection_preserves_logical_mesh _ g
  exact ⟨g, by decide, by decide, by decide, ⟨ρ, s⟩, by decide, by decide, by decide, by decide⟩

set_option maxRecDepth 8000 in
/-- the same in index-shifting style (`tetS`), where the survivors keep their order -/
example : Global.GInv (tetS.deleteVertex 0) ∧ (tetS.deleteVertex 0).fast = false ∧ (tetS.deleteVertex 0).needsGC = true ∧
    (∃ ρ, LogIso (tetS.deleteVertex 0) (tetS.deleteVertex 0).collectGarbage ρ) ∧
    (tetS.deleteVertex 0).collectGarbage.edges = [(0, 1), (2, 0), (2, 1)] ∧
    (tetS.deleteVertex 0).collectGarbage.faces = [[3, 4, 1]] := by
  have g0 : Global.GInv tetS := Global.ginv_of_noFlag wf_tetS (by decide) (by unfold NoFlag; decide)
    (by unfold NoFlag; decide) (by unfold NoFlag; decide) (by unfold NoFlag; decide)
  have g := Global.ginv_deleteVertex (v := 0) (by decide) g0
  obtain ⟨⟨ρ, s, _⟩, _, _⟩ := garbage_collection_preserves_logical_mesh _ g
  exact ⟨g, by decide, by decide, ⟨ρ, s⟩, by decide, by decide⟩

set_option maxRecDepth 8000 in
/-- deferred + collect = immediate on the tetrahedron (hypotheses hold; both sides by evaluation: one triangle) -/
example : Global.GInv tetK ∧ tetK.deferred = true ∧ tetK.needsGC = false ∧ (0 : Nat) < tetK.nV ∧
    (∃ ρ, LogIso (tetK.deleteVertex 0).collectGarbage (({ tetK with deferred := false } : Kernel).deleteVertex 0) ρ) ∧
    (tetK.deleteVertex 0).collectGarbage.faces = [[5, 0, 3]] ∧
    (({ tetK with deferred := false } : Kernel).deleteVertex 0).faces = [[5, 0, 3]] :=
  ⟨ginv_tetK, rfl, by decide, by decide,
   (deferred_then_gc_equals_immediate_partial tetK ginv_tetK rfl (by decide)).2.2.2 0 (by decide), by decide, by decide⟩

end OVM.Props.C04

/-
  C19 — Vector algebra and geometric queries match their defining formulas.

  Property theorems about the model `OVM/Vec/Model.lean` of
  `src/OpenVolumeMesh/Geometry/Vector11T.hh` and `Core/GeometryKernel.hh:137-205`
  (the tie model ↔ C++ is the differential run of `harness/vec_drv.cc` against
  `OVM/Vec/Driver.lean`, see `tools/props/c19.py`).

  Conventions.  A vector is the list of its components; the C++ fixes the dimension by type,
  here binary statements carry `v.length = w.length` and 3-vector statements carry
  `length = 3`.  Ring identities are stated ONCE for an arbitrary commutative ring `R`
  (section `ring`), which covers `Int` (C++ `int` without overflow), `ZMod (2^32)` and `UInt32`
  (C++ `unsigned`, wrap-around) — the instantiations are spelled out in section `instances`.
  Order statements are for an arbitrary linear order (`Int`, and `UInt32`'s order, are
  instances).  Truncating division and `abs` are `Int`-specific.
  Every theorem is followed by a non-vacuity `example` (a concrete instance, checked by `decide`
  or by applying the theorem to concrete data).  Nothing here is a test: `decide` is only used
  in examples and in the two explicit counterexample theorems.
-/
import Mathlib.Tactic.Ring
import Mathlib.Order.Defs.LinearOrder
import Mathlib.Data.ZMod.Defs
import Mathlib.Data.UInt
import OVM.Vec.Ring

namespace OVM.Props.C19
open OVM.Vec

/-! ## A. component-wise operators equal their component-wise definitions -/

section componentwise
variable {α : Type}

/-- `v + w` / `v += w`: component `i` is `v[i] + w[i]`. -/
theorem add_componentwise [Add α] (v w : List α) (h : v.length = w.length) :
    (add v w).length = v.length ∧
    ∀ i (hi : i < v.length), (add v w)[i]? = some (v[i] + w[i]'(h ▸ hi)) :=
  zipWith_cw (· + ·) v w h
example : add [1, -2, (3 : Int)] [10, 20, 30] = [11, 18, 33] := by decide

/-- `v - w` / `v -= w`. -/
theorem sub_componentwise [Sub α] (v w : List α) (h : v.length = w.length) :
    (sub v w).length = v.length ∧
    ∀ i (hi : i < v.length), (sub v w)[i]? = some (v[i] - w[i]'(h ▸ hi)) :=
  zipWith_cw (· - ·) v w h
example : sub [1, -2, (3 : Int)] [10, 20, 30] = [-9, -22, -27] := by decide

/-- component-wise `v * w` / `v *= w`. -/
theorem mul_componentwise [Mul α] (v w : List α) (h : v.length = w.length) :
    (mul v w).length = v.length ∧
    ∀ i (hi : i < v.length), (mul v w)[i]? = some (v[i] * w[i]'(h ▸ hi)) :=
  zipWith_cw (· * ·) v w h
example : mul [1, -2, (3 : Int), 4] [10, 20, 30, -1] = [10, -40, 90, -4] := by decide

/-- component-wise `v / w` / `v /= w`: component `i` is the scalar quotient `v[i] / w[i]`. -/
theorem div_componentwise [CDiv α] (v w : List α) (h : v.length = w.length) :
    (divv v w).length = v.length ∧
    ∀ i (hi : i < v.length), (divv v w)[i]? = some (cdiv v[i] (w[i]'(h ▸ hi))) :=
  zipWith_cw cdiv v w h
example : divv [7, -7, (7 : Int)] [2, 2, -2] = [3, -3, -3] := by decide

/-- on `int` the scalar quotient is truncation toward zero; the divisor is non-zero by hypothesis:
`a = b*q + r` with `|r| < |b|` and `r` of the sign of `a`. -/
theorem int_div_truncates (a b : Int) (hb : b ≠ 0) :
    a = b * cdiv a b + Int.tmod a b ∧ (Int.tmod a b).natAbs < b.natAbs ∧
    (0 ≤ a → 0 ≤ Int.tmod a b) ∧ (a ≤ 0 → Int.tmod a b ≤ 0) := by
  rw [cdiv_int]
  refine ⟨(Int.mul_tdiv_add_tmod a b).symm, ?_, fun h => Int.tmod_nonneg _ h, ?_⟩
  · rcases Int.lt_or_gt_of_ne hb with hneg | hpos
    · have h1 := Int.tmod_lt_of_pos a (b := -b) (by omega)
      have h2 := Int.lt_tmod_of_pos a (b := -b) (by omega)
      rw [Int.tmod_neg] at h1 h2; omega
    · have h1 := Int.tmod_lt_of_pos a hpos
      have h2 := Int.lt_tmod_of_pos a hpos
      omega
  · intro h
    have h0 : 0 ≤ Int.tmod (-a) b := Int.tmod_nonneg _ (by omega)
    rw [Int.neg_tmod] at h0; omega
example : cdiv (-7 : Int) 2 = -3 ∧ Int.tmod (-7) 2 = -1 := by decide

/-- unary minus. -/
theorem neg_componentwise [Neg α] (v : List α) :
    (neg v).length = v.length ∧ ∀ i (hi : i < v.length), (neg v)[i]? = some (- v[i]) :=
  map_cw (- ·) v
example : neg [1, -2, (0 : Int)] = [-1, 2, 0] := by decide

/-- `v * s`, `s * v`, `v *= s`. -/
theorem smul_componentwise [Mul α] (v : List α) (s : α) :
    (smul v s).length = v.length ∧ ∀ i (hi : i < v.length), (smul v s)[i]? = some (v[i] * s) :=
  map_cw (· * s) v
example : smul [1, -2, (3 : Int)] (-2) = [-2, 4, -6] := by decide

/-- `v / s`, `v /= s`. -/
theorem sdiv_componentwise [CDiv α] (v : List α) (s : α) :
    (sdiv v s).length = v.length ∧ ∀ i (hi : i < v.length), (sdiv v s)[i]? = some (cdiv v[i] s) :=
  map_cw (cdiv · s) v
example : sdiv [5, -5, (4 : Int)] 2 = [2, -2, 2] := by decide

/-- `vectorize(s)` / `vectorized(s)` / `VectorT(s)`: `n` copies of `s`. -/
theorem vectorize_spec (n : Nat) (s : α) :
    (vectorize n s).length = n ∧ ∀ x ∈ vectorize n s, x = s := by
  simp [vectorize]
example : vectorize 4 (7 : Int) = [7, 7, 7, 7] := by decide

/-- `swap`. -/
theorem swap_spec (v w : List α) : swapv v w = (w, v) ∧ swapv (swapv v w).1 (swapv v w).2 = (v, w) :=
  ⟨rfl, rfl⟩
example : swapv [1, (2 : Int)] [3, 4] = ([3, 4], [1, 2]) := by decide

/-- `homogenized()` of a 4-vector (`w ≠ 0` is the caller's obligation). -/
theorem homogenized_spec [CDiv α] [OfNat α 1] (x y z w : α) :
    homogenized [x, y, z, w] = [cdiv x w, cdiv y w, cdiv z w, 1] := rfl
example : homogenized [4, -6, 9, (2 : Int)] = [2, -3, 4, 1] := by decide

end componentwise

/-! ## B. `==`, `!=` and the lexicographic `<` -/

section comparison
variable {α : Type}

/-- `operator==` is equality of all components. -/
theorem eq_iff [DecidableEq α] (v w : List α) (h : v.length = w.length) :
    eqv w v = true ↔ v = w := by
  rw [eqv_iff w v h.symm]; exact eq_comm
example : eqv [1, 2, (3 : Int)] [1, 2, 3] = true ∧ eqv [1, 2, (3 : Int)] [1, 2, 4] = false := by decide

/-- `operator!=` is the negation of `operator==`. -/
theorem ne_iff [DecidableEq α] (v w : List α) (h : v.length = w.length) :
    nev v w = true ↔ v ≠ w := by
  unfold nev
  have := eq_iff v w h
  cases hc : eqv w v <;> simp_all
example : nev [1, 2, (3 : Int)] [1, 2, 4] = true := by decide

variable [LinearOrder α]

/-- `<` is irreflexive. -/
theorem lt_irrefl (v : List α) : ltv v v = false := ltv_irrefl v
example : ltv [1, 2, (3 : Int)] [1, 2, 3] = false := by decide

/-- `<` is transitive. -/
theorem lt_trans (a b c : List α) (hab : ltv a b = true) (hbc : ltv b c = true) : ltv a c = true :=
  ltv_trans a b c hab hbc
example : ltv [0, 5, (5 : Int)] [1, 0, 0] = true ∧ ltv [1, 0, (0 : Int)] [1, 0, 1] = true ∧
    ltv [0, 5, (5 : Int)] [1, 0, 1] = true := by decide

/-- `<` is asymmetric. -/
theorem lt_asymm (a b : List α) (hab : ltv a b = true) : ltv b a = false := ltv_asymm a b hab
example : ltv [1, 2, (3 : Int)] [1, 3, 0] = true ∧ ltv [1, 3, (0 : Int)] [1, 2, 3] = false := by decide

/-- `<` is total on vectors of one dimension: exactly one of `a < b`, `a = b`, `b < a`. -/
theorem lt_trichotomy (a b : List α) (h : a.length = b.length) :
    (ltv a b = true ∧ a ≠ b ∧ ltv b a = false) ∨
    (ltv a b = false ∧ a = b ∧ ltv b a = false) ∨
    (ltv a b = false ∧ a ≠ b ∧ ltv b a = true) := by
  rcases ltv_trichotomy a b h with h1 | h1 | h1
  · left
    refine ⟨h1, ?_, ltv_asymm a b h1⟩
    intro e; subst e; simp [ltv_irrefl] at h1
  · right; left; subst h1; simp [ltv_irrefl]
  · right; right
    refine ⟨ltv_asymm b a h1, ?_, h1⟩
    intro e; subst e; simp [ltv_irrefl] at h1
example : ltv [2, (0 : Int)] [1, 9] = false ∧ ltv [1, (9 : Int)] [2, 0] = true := by decide

/-- `<` is consistent with `==`: two vectors compare equal iff neither is less. -/
theorem lt_consistent_with_eq (a b : List α) (h : a.length = b.length) :
    eqv b a = true ↔ (ltv a b = false ∧ ltv b a = false) := by
  rw [eq_iff a b h]
  rcases lt_trichotomy a b h with ⟨h1, h2, h3⟩ | ⟨h1, h2, h3⟩ | ⟨h1, h2, h3⟩ <;> simp_all
example : eqv [1, (2 : Int)] [1, 2] = true ∧ ltv [1, (2 : Int)] [1, 2] = false := by decide

/-- the first differing component decides `<` (the defining clause of lexicographic order). -/
theorem lt_cons (x y : α) (xs ys : List α) :
    ltv (x :: xs) (y :: ys) = true ↔ (x < y ∨ (x = y ∧ ltv xs ys = true)) := by
  simp only [ltv]
  rcases _root_.lt_trichotomy x y with h | h | h
  · simp [h]
  · subst h; simp
  · simp [h, not_lt_of_gt h, ne_of_gt h]
example : ltv [1, 5, (0 : Int)] [1, 5, 1] = true := by decide

end comparison

/-! ## C.–D. ring identities, stated once for every commutative ring -/

section ring
variable {R : Type} [CommRing R]

/-- `v | w` is `Σ v[i]*w[i]`. -/
theorem dot_eq_sum (v w : List R) : dot v w = (List.zipWith (· * ·) v w).sum := Vec.dot_eq_sum v w
example : dot [1, 2, (3 : Int)] [4, -5, 6] = 12 := by decide

/-- dot is symmetric. -/
theorem dot_comm (v w : List R) : dot v w = dot w v := Vec.dot_comm v w
example : dot [1, 2, (3 : Int), 4] [4, -5, 6, 1] = dot [4, -5, 6, 1] [1, 2, (3 : Int), 4] := by decide

/-- dot is additive in each argument. -/
theorem dot_add (u v w : List R) (h : u.length = v.length) :
    dot (add u v) w = dot u w + dot v w ∧ dot w (add u v) = dot w u + dot w v :=
  ⟨dot_add_left u v w h, dot_add_right w u v h⟩
example : dot (add [1, (2 : Int)] [3, 4]) [5, 6] = dot [1, 2] [5, 6] + dot [3, 4] [5, 6] := by decide

/-- dot is homogeneous in each argument. -/
theorem dot_smul (v w : List R) (s : R) :
    dot (smul v s) w = s * dot v w ∧ dot v (smul w s) = s * dot v w :=
  ⟨dot_smul_left v w s, dot_smul_right v w s⟩
example : dot (smul [1, 2, (3 : Int)] 2) [4, 5, 6] = 2 * dot [1, 2, 3] [4, 5, 6] := by decide

/-- `sqrnorm` is `Σ v[i]²`, and equals `v | v`. -/
theorem sqrnorm_spec (v : List R) :
    sqrnorm v = (v.map (fun x => x * x)).sum ∧ sqrnorm v = dot v v :=
  ⟨sqrnorm_eq_sum v, sqrnorm_eq_dot v⟩
example : sqrnorm [1, -2, (2 : Int)] = 9 := by decide

/-- `l1_norm()` is the plain sum of the components (see `l1_ne_manhattan` below). -/
theorem l1_eq_sum (v : List R) : l1 v = v.sum := Vec.l1_eq_sum v
example : l1 [1, -2, (4 : Int), 1] = 4 := by decide

/-- `%`: the component formula. -/
theorem cross_components (a0 a1 a2 b0 b1 b2 : R) :
    cross [a0, a1, a2] [b0, b1, b2] = [a1 * b2 - a2 * b1, a2 * b0 - a0 * b2, a0 * b1 - a1 * b0] := rfl
example : cross [1, 2, (3 : Int)] [4, 5, 6] = [-3, 6, -3] := by decide

/-- cross is anticommutative. -/
theorem cross_anticomm (a b : List R) (ha : a.length = 3) (hb : b.length = 3) :
    cross a b = neg (cross b a) := by
  obtain ⟨a0, a1, a2, rfl⟩ := len3 ha
  obtain ⟨b0, b1, b2, rfl⟩ := len3 hb
  exact cross_anticomm3 ..
example : cross [1, 2, (3 : Int)] [4, 5, 6] = neg (cross [4, 5, 6] [1, 2, 3]) := by decide

/-- `a × b` is orthogonal to `a` and to `b`. -/
theorem cross_orthogonal (a b : List R) (ha : a.length = 3) (hb : b.length = 3) :
    dot a (cross a b) = 0 ∧ dot b (cross a b) = 0 := by
  obtain ⟨a0, a1, a2, rfl⟩ := len3 ha
  obtain ⟨b0, b1, b2, rfl⟩ := len3 hb
  exact ⟨cross_orth_left3 .., cross_orth_right3 ..⟩
example : dot [1, 2, (3 : Int)] (cross [1, 2, 3] [4, 5, 6]) = 0 := by decide

/-- Lagrange identity `|a×b|² = |a|²|b|² − (a·b)²`. -/
theorem cross_lagrange (a b : List R) (ha : a.length = 3) (hb : b.length = 3) :
    sqrnorm (cross a b) = sqrnorm a * sqrnorm b - dot a b * dot a b := by
  obtain ⟨a0, a1, a2, rfl⟩ := len3 ha
  obtain ⟨b0, b1, b2, rfl⟩ := len3 hb
  exact cross_lagrange3 ..
example : sqrnorm (cross [1, 2, (3 : Int)] [4, 5, 6]) = 14 * 77 - 32 * 32 := by decide

/-- `e1×e2 = e3`, `e2×e3 = e1`, `e3×e1 = e2`. -/
theorem cross_basis :
    cross [1, 0, 0] [0, 1, (0 : R)] = [0, 0, 1] ∧
    cross [0, 1, 0] [0, 0, (1 : R)] = [1, 0, 0] ∧
    cross [0, 0, 1] [1, 0, (0 : R)] = [0, 1, 0] := by
  simp [cross]
example : cross [1, 0, 0] [0, 1, (0 : Int)] = [0, 0, 1] := by decide

/-- `a × a = 0`, and cross is additive in its first argument. -/
theorem cross_self_add (a b c : List R) (ha : a.length = 3) (hb : b.length = 3) (hc : c.length = 3) :
    cross a a = [0, 0, 0] ∧ cross (add a b) c = add (cross a c) (cross b c) := by
  obtain ⟨a0, a1, a2, rfl⟩ := len3 ha
  obtain ⟨b0, b1, b2, rfl⟩ := len3 hb
  obtain ⟨c0, c1, c2, rfl⟩ := len3 hc
  exact ⟨cross_self3 .., cross_add_left3 ..⟩
example : cross [1, 2, (3 : Int)] [1, 2, 3] = [0, 0, 0] := by decide

/-! ### geometry formulas that are ring identities -/

/-- `vector(e)`: `from + vector(e) = to` (`vector(e) = to − from` component-wise by
`sub_componentwise`). -/
theorem edge_vector_spec (pFrom pTo : List R) (h : pFrom.length = pTo.length) :
    edgeVector pFrom pTo = sub pTo pFrom ∧ add pFrom (edgeVector pFrom pTo) = pTo :=
  ⟨rfl, add_edgeVector pFrom pTo h⟩
example : edgeVector [1, 2, (3 : Int)] [4, 4, 4] = [3, 2, 1] := by decide

/-- `barycenter(e)`: twice the result is the sum of the end points (`half` is the scalar 0.5). -/
theorem edge_barycenter_spec (half : R) (hh : half * 2 = 1) (a b : List R) :
    smul (baryEdge half a b) 2 = add a b := baryEdge_double half hh a b
example : (3 : ZMod 5) * 2 = 1 ∧ smul (baryEdge (3 : ZMod 5) [1, 2, 3] [2, 4, 4]) 2 = add [1, 2, 3] [2, 4, 4] := by decide

/-- the un-normalised halfface normal is `(p2−p1) × (p3−p2)` of the first three vertices of the
halfface's cycle; it is orthogonal to both edge vectors. -/
theorem normalU_spec (p1 p2 p3 : List R) (rest : List (List R))
    (h1 : p1.length = 3) (h2 : p2.length = 3) (h3 : p3.length = 3) :
    normalU? (p1 :: p2 :: p3 :: rest) = some (cross (sub p2 p1) (sub p3 p2)) ∧
    dot (sub p2 p1) (cross (sub p2 p1) (sub p3 p2)) = 0 ∧
    dot (sub p3 p2) (cross (sub p2 p1) (sub p3 p2)) = 0 := by
  refine ⟨rfl, ?_⟩
  have l1 : (sub p2 p1).length = 3 := by simp [sub, h1, h2]
  have l2 : (sub p3 p2).length = 3 := by simp [sub, h2, h3]
  exact cross_orthogonal _ _ l1 l2
example : normalU? [[0, 0, 0], [1, 0, 0], [1, 1, (0 : Int)], [0, 1, 0]] = some [0, 0, 1] := by decide

/-- Reversing the three points negates the formula. -/
theorem normalU_reverse_triple (a b c : List R) (ha : a.length = 3) (hb : b.length = 3) (hc : c.length = 3) :
    normalU? [c, b, a] = (normalU? [a, b, c]).map neg := by
  obtain ⟨a0, a1, a2, rfl⟩ := len3 ha
  obtain ⟨b0, b1, b2, rfl⟩ := len3 hb
  obtain ⟨c0, c1, c2, rfl⟩ := len3 hc
  simp only [normalU?, Option.map_some, Option.some.injEq]
  exact normal_triple_reverse ..
example : normalU? [[1, 1, 0], [1, 0, 0], [0, 0, (0 : Int)]] = some [0, 0, -1] := by decide

/-- FULL STRENGTH, all polygons: the C++ computes the normal of the opposite halfface from the
first two halfedges of the *opposite* halfface, whose vertex cycle is `v0, v(k-1), …, v1`; the
result is the negated corner normal at the LAST vertex of the original cycle (not at its
second vertex, which `normal(hf)` itself uses). -/
theorem normalU_opposite_eq_neg_lastCorner (cyc : List (List R)) (hk : 3 ≤ cyc.length)
    (hp : ∀ p ∈ cyc, p.length = 3) :
    ∃ n, lastCornerNormal? cyc = some n ∧ normalU? (oppCycle cyc) = some (neg n) := by
  obtain ⟨v0, mid, l2, l1, rfl⟩ := cycle_shape cyc hk
  have h0 := hp v0 (by simp)
  have h1 := hp l1 (by simp)
  have h2 := hp l2 (by simp)
  obtain ⟨a0, a1, a2, rfl⟩ := len3 h0
  obtain ⟨b0, b1, b2, rfl⟩ := len3 h1
  obtain ⟨c0, c1, c2, rfl⟩ := len3 h2
  refine ⟨cross (sub [b0, b1, b2] [c0, c1, c2]) (sub [a0, a1, a2] [b0, b1, b2]), ?_, ?_⟩
  · simp [lastCornerNormal?, List.reverse_append]
  · simp only [oppCycle, List.reverse_append, List.reverse_cons, List.reverse_nil, List.nil_append,
      List.cons_append, normalU?, Option.some.injEq]
    exact normal_triple_reverse c0 c1 c2 b0 b1 b2 a0 a1 a2
example : lastCornerNormal? [[0, 0, 0], [2, 0, 0], [1, 1, 0], [0, 1, (0 : Int)]] = some [0, 0, 1] ∧
    normalU? (oppCycle [[0, 0, 0], [2, 0, 0], [1, 1, 0], [0, 1, (0 : Int)]]) = some [0, 0, -1] := by decide

/-- "the normals of the two sides of a face are opposite", un-normalised, for TRIANGLES:
exact, for every triangle. -/
theorem normalU_opposite_triangle (a b c : List R) (ha : a.length = 3) (hb : b.length = 3)
    (hc : c.length = 3) :
    normalU? (oppCycle [a, b, c]) = (normalU? [a, b, c]).map neg := by
  obtain ⟨a0, a1, a2, rfl⟩ := len3 ha
  obtain ⟨b0, b1, b2, rfl⟩ := len3 hb
  obtain ⟨c0, c1, c2, rfl⟩ := len3 hc
  simp only [oppCycle, List.reverse_cons, List.reverse_nil, List.nil_append, List.cons_append,
    normalU?, Option.map_some, Option.some.injEq]
  exact normal_triangle_opp ..
example : normalU? (oppCycle [[0, 0, 0], [3, 0, 0], [0, 2, (1 : Int)]]) = some [0, 3, -6] ∧
    normalU? [[0, 0, 0], [3, 0, 0], [0, 2, (1 : Int)]] = some [0, -3, 6] := by decide

/-- … and for PARALLELOGRAMS (`a + c = b + d`; every face of a parallelepiped). -/
theorem normalU_opposite_parallelogram (a b c d : List R) (ha : a.length = 3) (hb : b.length = 3)
    (hc : c.length = 3) (hd : d.length = 3) (hpar : add a c = add b d) :
    normalU? (oppCycle [a, b, c, d]) = (normalU? [a, b, c, d]).map neg := by
  obtain ⟨a0, a1, a2, rfl⟩ := len3 ha
  obtain ⟨b0, b1, b2, rfl⟩ := len3 hb
  obtain ⟨c0, c1, c2, rfl⟩ := len3 hc
  obtain ⟨d0, d1, d2, rfl⟩ := len3 hd
  simp only [add, List.zipWith_cons_cons, List.zipWith_nil_left, List.cons.injEq, and_true] at hpar
  obtain ⟨e0, e1, e2⟩ := hpar
  have f0 : d0 = a0 + c0 - b0 := by rw [e0]; ring
  have f1 : d1 = a1 + c1 - b1 := by rw [e1]; ring
  have f2 : d2 = a2 + c2 - b2 := by rw [e2]; ring
  subst f0 f1 f2
  simp only [oppCycle, List.reverse_cons, List.reverse_nil, List.nil_append, List.cons_append,
    normalU?, Option.map_some, Option.some.injEq, cross, sub, neg, List.zipWith_cons_cons,
    List.zipWith_nil_left, List.map_cons, List.map_nil, List.cons.injEq, and_true]
  refine ⟨?_, ?_, ?_⟩ <;> ring
example : normalU? (oppCycle [[0, 0, 0], [2, 0, 0], [3, 1, 0], [1, 1, (0 : Int)]]) = some [0, 0, -2] ∧
    normalU? [[0, 0, 0], [2, 0, 0], [3, 1, 0], [1, 1, (0 : Int)]] = some [0, 0, 2] := by decide

/-- PARTIAL (what is missing: it is conditional): for a general polygon the two un-normalised
normals are opposite exactly when the corner normal at the last vertex equals the one at the
second vertex.  For planar strictly convex polygons both corner normals are positive multiples
of one vector, so the *normalised* normals are opposite up to rounding; for non-convex or
non-planar polygons they need not be (see `normalU_opposite_fails_general`). -/
theorem normalU_opposite_partial (cyc : List (List R)) (hk : 3 ≤ cyc.length)
    (hp : ∀ p ∈ cyc, p.length = 3) (hcorner : lastCornerNormal? cyc = normalU? cyc) :
    normalU? (oppCycle cyc) = (normalU? cyc).map neg := by
  obtain ⟨n, h1, h2⟩ := normalU_opposite_eq_neg_lastCorner cyc hk hp
  rw [h2, ← hcorner, h1]; rfl
example : lastCornerNormal? [[0, 0, 0], [2, 0, 0], [2, 2, 0], [0, 2, (0 : Int)]]
    = normalU? [[0, 0, 0], [2, 0, 0], [2, 2, 0], [0, 2, (0 : Int)]] := by decide

/-- planar convex case, un-normalised: if the two corner normals are multiples `c1•N`, `c2•N`
of one vector then `c2 • normal(hf) + c1 • normal(opp hf) = 0` (antiparallel for `c1,c2 > 0`). -/
theorem normalU_opposite_collinear (cyc : List (List R)) (hk : 3 ≤ cyc.length)
    (hp : ∀ p ∈ cyc, p.length = 3) (N n0 : List R) (c1 c2 : R)
    (h0 : normalU? cyc = some n0) (hn0 : n0 = smul N c1)
    (hl : lastCornerNormal? cyc = some (smul N c2)) :
    ∃ n1, normalU? (oppCycle cyc) = some n1 ∧ add (smul n0 c2) (smul n1 c1) = N.map (fun _ => 0) := by
  obtain ⟨n, h1, h2⟩ := normalU_opposite_eq_neg_lastCorner cyc hk hp
  rw [hl] at h1; cases h1
  refine ⟨_, h2, ?_⟩
  subst hn0
  clear h0 hl h2
  simp only [add, smul, neg, List.map_map]
  induction N with
  | nil => rfl
  | cons x xs ih => simp only [List.map_cons, List.zipWith_cons_cons, ih, Function.comp]; congr 1; ring
example : normalU? [[0, 0, 0], [2, 0, 0], [1, 1, 0], [0, 1, (0 : Int)]] = some (smul [0, 0, 1] 2) ∧
    lastCornerNormal? [[0, 0, 0], [2, 0, 0], [1, 1, 0], [0, 1, (0 : Int)]] = some (smul [0, 0, 1] 1) := by decide

end ring

/-- The un-normalised statement is FALSE for general (even planar convex) polygons: for the
trapezoid `(0,0) (2,0) (1,1) (0,1)` the two sides give `(0,0,2)` and `(0,0,-1)`. -/
theorem normalU_opposite_fails_general :
    ∃ cyc : List (List Int), (∀ p ∈ cyc, p.length = 3) ∧
      normalU? (oppCycle cyc) ≠ (normalU? cyc).map neg :=
  ⟨[[0, 0, 0], [2, 0, 0], [1, 1, 0], [0, 1, 0]], by decide, by decide⟩

/-- … and for a planar NON-CONVEX quadrilateral (reflex corner at the last vertex) the formulas
of the two sides even point the SAME way (`dot > 0`): `normal(hf)` and `normal(opp hf)` are then
equal after normalisation, not opposite.  (GeometryKernel.hh:185 documents "assuming planarity
(just uses first 2 edges)"; convexity of the two corners used is needed as well.) -/
theorem normalU_opposite_same_direction_nonconvex :
    ∃ cyc : List (List Int), ∃ n0 n1, normalU? cyc = some n0 ∧ normalU? (oppCycle cyc) = some n1 ∧
      (∀ p ∈ cyc, p.getD 2 0 = 0) ∧ 0 < dot n0 n1 :=
  ⟨[[0, 0, 0], [4, 0, 0], [4, 4, 0], [2, 1, 0]], [0, 0, 16], [0, 0, 4], by decide, by decide,
    by decide, by decide⟩

/-! ## instances: `Int`, `ZMod (2^32)`, `UInt32` -/

section instances

/-- the identities at C++ `int` (no overflow): instance of the generic statements. -/
theorem int_ring_identities (a b : List Int) (ha : a.length = 3) (hb : b.length = 3) :
    cross a b = neg (cross b a) ∧ dot a (cross a b) = 0 ∧ dot b (cross a b) = 0 ∧
    sqrnorm (cross a b) = sqrnorm a * sqrnorm b - dot a b * dot a b ∧
    dot a b = dot b a ∧ sqrnorm a = dot a a :=
  ⟨cross_anticomm a b ha hb, (cross_orthogonal a b ha hb).1, (cross_orthogonal a b ha hb).2,
    cross_lagrange a b ha hb, dot_comm a b, (sqrnorm_spec a).2⟩
example : sqrnorm (cross [2, -1, (0 : Int)] [1, 1, 1]) = 5 * 3 - 1 * 1 := by decide

/-- wrap-around arithmetic of C++ `unsigned` as the ring `ZMod (2^32)`. -/
theorem zmod_ring_identities (a b : List (ZMod (2 ^ 32))) (ha : a.length = 3) (hb : b.length = 3) :
    cross a b = neg (cross b a) ∧ dot a (cross a b) = 0 ∧ dot b (cross a b) = 0 ∧
    sqrnorm (cross a b) = sqrnorm a * sqrnorm b - dot a b * dot a b ∧
    dot a b = dot b a ∧ sqrnorm a = dot a a :=
  ⟨cross_anticomm a b ha hb, (cross_orthogonal a b ha hb).1, (cross_orthogonal a b ha hb).2,
    cross_lagrange a b ha hb, dot_comm a b, (sqrnorm_spec a).2⟩
example : ([1, 2, 3] : List (ZMod (2 ^ 32))).length = 3 := rfl

open scoped UInt32.CommRing in
/-- … and at `UInt32`, the type at which the evaluator runs the model for `unsigned`. -/
theorem uint32_ring_identities (a b : List UInt32) (ha : a.length = 3) (hb : b.length = 3) :
    cross a b = neg (cross b a) ∧ dot a (cross a b) = 0 ∧ dot b (cross a b) = 0 ∧
    sqrnorm (cross a b) = sqrnorm a * sqrnorm b - dot a b * dot a b ∧
    dot a b = dot b a ∧ sqrnorm a = dot a a :=
  ⟨cross_anticomm a b ha hb, (cross_orthogonal a b ha hb).1, (cross_orthogonal a b ha hb).2,
    cross_lagrange a b ha hb, dot_comm a b, (sqrnorm_spec a).2⟩
example : cross [4294967295, 2, (3 : UInt32)] [4, 5, 6] = neg (cross [4, 5, 6] [4294967295, 2, 3]) := by decide

end instances

/-! ## E. reductions: max, min, max_abs, min_abs, l8, mean, mean_abs, l1 -/

section reductions
variable {α : Type} [LinearOrder α]

/-- `max()` is a component and is ≥ every component; it is the fold of the binary maximum. -/
theorem max_spec (v : List α) (m : α) (h : vmax v = some m) : m ∈ v ∧ ∀ x ∈ v, x ≤ m :=
  maxElemBy_key_spec id v m h
theorem max_eq_fold (a : α) (as : List α) : vmax (a :: as) = some (as.foldl max a) := vmax_eq_foldl a as
example : vmax [1, 5, -2, (5 : Int)] = some 5 := by decide

/-- `min()` is a component and is ≤ every component; it is the fold of the binary minimum. -/
theorem min_spec (v : List α) (m : α) (h : vmin v = some m) : m ∈ v ∧ ∀ x ∈ v, m ≤ x :=
  minElemBy_key_spec id v m h
theorem min_eq_fold (a : α) (as : List α) : vmin (a :: as) = some (as.foldl min a) := vmin_eq_foldl a as
example : vmin [1, 5, -2, (5 : Int)] = some (-2) := by decide

/-- reductions of a vector of dimension ≥ 1 are defined. -/
theorem reductions_defined (a : α) (as : List α) :
    (vmax (a :: as)).isSome ∧ (vmin (a :: as)).isSome := by
  simp [vmax, vmin, maxElemBy, minElemBy]
example : (vmax [(0 : Int)]).isSome := by decide

end reductions

section int_reductions

/-- `max_abs()` / `l8_norm()`: the absolute value of some component, ≥ every absolute value. -/
theorem maxAbs_spec (v : List Int) (m : Int) (h : maxAbs v = some m) :
    (∃ x ∈ v, m = cabs x) ∧ (∀ x ∈ v, cabs x ≤ m) ∧ l8 v = some m := by
  unfold maxAbs at h
  obtain ⟨e, he, rfl⟩ := Option.map_eq_some_iff.mp h
  obtain ⟨h1, h2⟩ := maxElemBy_key_spec (α := Int) cabs v e he
  exact ⟨⟨e, h1, rfl⟩, h2, h⟩
example : maxAbs [1, -5, (3 : Int)] = some 5 ∧ l8 [1, -5, (3 : Int)] = some 5 := by decide

/-- `min_abs()`: the absolute value of some component, ≤ every absolute value. -/
theorem minAbs_spec (v : List Int) (m : Int) (h : minAbs v = some m) :
    (∃ x ∈ v, m = cabs x) ∧ ∀ x ∈ v, m ≤ cabs x := by
  unfold minAbs at h
  obtain ⟨e, he, rfl⟩ := Option.map_eq_some_iff.mp h
  obtain ⟨h1, h2⟩ := minElemBy_key_spec (α := Int) cabs v e he
  exact ⟨⟨e, h1, rfl⟩, h2⟩
example : minAbs [2, -1, (3 : Int)] = some 1 := by decide

/-- `std::abs` on `int`. -/
theorem abs_spec (x : Int) : 0 ≤ cabs x ∧ (cabs x = x ∨ cabs x = -x) ∧ cabs x = (x.natAbs : Int) :=
  ⟨cabs_nonneg x, cabs_eq_or x, cabs_eq_natAbs x⟩
example : cabs (-3 : Int) = 3 := by decide

/-- `mean()` on `int`: the sum divided by `DIM` with truncation toward zero:
`Σ = DIM*mean + r`, `|r| < DIM`, `r` of the sign of `Σ`. -/
theorem mean_spec (v : List Int) (hv : 0 < v.length) :
    mean v = Int.tdiv v.sum v.length ∧
    v.sum = v.length * mean v + Int.tmod v.sum v.length ∧
    -(v.length : Int) < Int.tmod v.sum v.length ∧ Int.tmod v.sum v.length < v.length ∧
    (0 ≤ v.sum → 0 ≤ Int.tmod v.sum v.length) ∧ (v.sum ≤ 0 → Int.tmod v.sum v.length ≤ 0) := by
  have e : mean v = Int.tdiv v.sum v.length := by
    unfold mean; rw [cdiv_int, cnat_int, Vec.l1_eq_sum]
  rw [e]
  exact ⟨rfl, tdiv_spec v.sum v.length hv⟩
example : mean [-1, -2, (0 : Int)] = -1 ∧ mean [1, 2, (2 : Int)] = 1 ∧ mean [-1, -2, -2, (0 : Int)] = -1 := by decide

/-- the truncated mean lies between the minimal and the maximal component. -/
theorem mean_bounds (v : List Int) (lo hi : Int) (hlo : vmin v = some lo) (hhi : vmax v = some hi) :
    lo ≤ mean v ∧ mean v ≤ hi := by
  have hv : 0 < v.length := by
    cases v with
    | nil => simp [vmin, minElemBy] at hlo
    | cons a as => simp
  have h1 := (min_spec v lo hlo).2
  have h2 := (max_spec v hi hhi).2
  have hb := sum_bounds v lo hi (fun x hx => ⟨h1 x hx, h2 x hx⟩)
  rw [(mean_spec v hv).1]
  exact tdiv_bounds v.sum lo hi v.length hv hb.1 hb.2
example : vmin [-1, -2, (0 : Int)] = some (-2) ∧ vmax [-1, -2, (0 : Int)] = some 0 := by decide

/-- `mean_abs()` on `int`: the truncated quotient of `Σ|v[i]|` by `DIM`. -/
theorem meanAbs_spec (a : Int) (as : List Int) :
    meanAbs (a :: as) = Int.tdiv ((a :: as).map cabs).sum (a :: as).length := by
  show Int.tdiv (as.foldl (fun l r => l + cabs r) (cabs a)) ((as.length + 1 : Nat) : Int) = _
  congr 1
  have : ∀ (l : List Int) (init : Int), l.foldl (fun l r => l + cabs r) init = init + (l.map cabs).sum := by
    intro l
    induction l with
    | nil => intro init; simp
    | cons x xs ih => intro init; simp [ih, Int.add_assoc]
  rw [this]; simp
example : meanAbs [-1, -2, (2 : Int)] = 1 := by decide

/-- PARTIAL (restricted to non-negative vectors): `l1_norm()` is the Manhattan norm `Σ|v[i]|`
only when no component is negative … -/
theorem l1_eq_manhattan_partial (v : List Int) (h : ∀ x ∈ v, 0 ≤ x) : l1 v = (v.map cabs).sum := by
  rw [Vec.l1_eq_sum]
  induction v with
  | nil => rfl
  | cons a as ih =>
    have ha := h a (by simp)
    have : cabs a = a := by rw [cabs_int]; split <;> omega
    simp only [List.sum_cons, List.map_cons, this, ih (fun x hx => h x (by simp [hx]))]
example : l1 [1, 2, (3 : Int)] = 6 := by decide

/-- … and in general it is NOT: `l1_norm((1,-2)) = -1`, the L1 norm is 3.  (`l1_norm` is
documented "compute L1 (Manhattan) norm" at Vector11T.hh:494; `mean()` relies on it being the
plain sum.  Reported in findings/C19.md.) -/
theorem l1_ne_manhattan : ∃ v : List Int, l1 v ≠ (v.map cabs).sum ∧ l1 v < 0 :=
  ⟨[1, -2], by decide, by decide⟩

/-- `norm()` where it is exact on `int`: the non-negative root of `sqrnorm`. -/
theorem norm_spec (v : List Int) (r : Int) (h : norm? v = some r) : 0 ≤ r ∧ r * r = sqrnorm v := by
  unfold norm? at h
  change (if sqrnorm v < 0 then none else (natSqrt? (sqrnorm v).toNat).map Int.ofNat) = some r at h
  split at h
  · cases h
  · next hneg =>
    obtain ⟨k, hk, rfl⟩ := Option.map_eq_some_iff.mp h
    have := natSqrt?_spec _ _ hk
    refine ⟨Int.natCast_nonneg k, ?_⟩
    have h2 : ((k * k : Nat) : Int) = ((sqrnorm v).toNat : Int) := by rw [this]
    rw [Int.natCast_mul, Int.toNat_of_nonneg (by omega)] at h2
    exact h2
example : norm? [3, (4 : Int)] = some 5 ∧ norm? [1, (1 : Int)] = none ∧ norm? [2, 3, (6 : Int)] = some 7 := by decide

/-- `normalized()` / `normalize()` where the norm is exact and non-zero: every component divided
by the norm; `normalize_cond()` leaves the zero vector alone. -/
theorem normalized_spec (v : List Int) (r : List Int) (h : normalized? v = some r) :
    ∃ n, norm? v = some n ∧ n ≠ 0 ∧ r = sdiv v n ∧ normalizeCond? v = some r := by
  unfold normalized? at h
  cases hn : norm? v with
  | none => simp [hn] at h
  | some n =>
    simp only [hn] at h
    by_cases h0 : n = 0
    · simp [h0] at h
    · simp only [h0, if_false, Option.some.injEq] at h
      exact ⟨n, rfl, h0, h.symm, by simp [normalizeCond?, hn, h0, h]⟩
example : normalized? [0, -5, (0 : Int)] = some [0, -1, 0] ∧ normalizeCond? [0, (0 : Int)] = some [0, 0] ∧
    normalized? [0, (0 : Int)] = none := by decide

end int_reductions

/-! ## F. minimize / maximize -/

section minmax
variable {α : Type} [LinearOrder α]

/-- `minimize` / `min(rhs)` is the component-wise minimum, `maximize` / `max(rhs)` the maximum. -/
theorem minimize_maximize_componentwise (v w : List α) (h : v.length = w.length) :
    minimize v w = List.zipWith min v w ∧ maximize v w = List.zipWith max v w ∧
    (∀ i (hi : i < v.length), (minimize v w)[i]? = some (min v[i] (w[i]'(h ▸ hi)))) ∧
    (∀ i (hi : i < v.length), (maximize v w)[i]? = some (max v[i] (w[i]'(h ▸ hi)))) := by
  refine ⟨minimize_eq v w, maximize_eq v w, ?_, ?_⟩
  · intro i hi; rw [minimize_eq]; exact (zipWith_cw min v w h).2 i hi
  · intro i hi; rw [maximize_eq]; exact (zipWith_cw max v w h).2 i hi
example : minimize [1, 5, (3 : Int)] [2, 4, 3] = [1, 4, 3] ∧ maximize [1, 5, (3 : Int)] [2, 4, 3] = [2, 5, 3] := by decide

/-- idempotent and commutative. -/
theorem minimize_maximize_idem_comm (v w : List α) :
    minimize v v = v ∧ maximize v v = v ∧ minimize v w = minimize w v ∧ maximize v w = maximize w v := by
  refine ⟨?_, ?_, ?_, ?_⟩
  · rw [minimize_eq]; exact zipWith_self_of min (fun a => min_self a) v
  · rw [maximize_eq]; exact zipWith_self_of max (fun a => max_self a) v
  · rw [minimize_eq, minimize_eq]; exact zipWith_comm_of min min_comm v w
  · rw [maximize_eq, maximize_eq]; exact zipWith_comm_of max max_comm v w
example : minimize [1, (5 : Int)] [2, 4] = minimize [2, 4] [1, (5 : Int)] := by decide

/-- `minimize` twice is `minimize` once (`min(min(v,w),w) = min(v,w)`). -/
theorem minimize_maximize_absorb (v w : List α) :
    minimize (minimize v w) w = minimize v w ∧ maximize (maximize v w) w = maximize v w := by
  simp only [minimize_eq, maximize_eq]
  constructor
  · induction v generalizing w with
    | nil => simp
    | cons a as ih => cases w with
      | nil => simp
      | cons b bs => simp [ih bs]
  · induction v generalizing w with
    | nil => simp
    | cons a as ih => cases w with
      | nil => simp
      | cons b bs => simp [ih bs]
example : minimize (minimize [1, (5 : Int)] [2, 4]) [2, 4] = [1, 4] := by decide

/-- `minimized(rhs)` / `maximized(rhs)`: the same new value as `minimize` / `maximize`; the flag
says that some component took the `else` branch, i.e. `rhs[i] ≤ this[i]` (resp. `≥`) — it is
also set when the two components are equal. -/
theorem minimized_maximized_spec (v w : List α) :
    (minimized v w).2 = minimize v w ∧ (maximized v w).2 = maximize v w ∧
    ((minimized v w).1 = true ↔ ∃ p ∈ List.zip v w, p.2 ≤ p.1) ∧
    ((maximized v w).1 = true ↔ ∃ p ∈ List.zip v w, p.1 ≤ p.2) := by
  refine ⟨?_, ?_, ?_, ?_⟩
  · have e : (fun (l r : α) => if l < r then l else r) = smin := by
      funext l r; unfold smin
      rcases _root_.lt_trichotomy l r with h | h | h
      · simp [h, not_lt_of_gt h]
      · subst h; simp
      · simp [h, not_lt_of_gt h]
    simp only [minimized, minimize, e]
  · have e : (fun (l r : α) => if r < l then l else r) = smax := by
      funext l r; unfold smax
      rcases _root_.lt_trichotomy l r with h | h | h
      · simp [h, not_lt_of_gt h]
      · subst h; simp
      · simp [h, not_lt_of_gt h]
    simp only [maximized, maximize, e]
  · simp only [minimized, List.any_eq_true]
    induction v generalizing w with
    | nil => simp
    | cons a as ih => cases w with
      | nil => simp
      | cons b bs =>
        simp only [List.zipWith_cons_cons, List.mem_cons, List.zip_cons_cons] at ih ⊢
        constructor
        · rintro ⟨x, hx | hx, hid⟩
          · subst hx; exact ⟨(a, b), Or.inl rfl, by simpa using hid⟩
          · obtain ⟨p, hp, hle⟩ := (ih bs).mp ⟨x, hx, hid⟩; exact ⟨p, Or.inr hp, hle⟩
        · rintro ⟨p, hp | hp, hle⟩
          · subst hp; exact ⟨true, Or.inl (by simpa using hle), rfl⟩
          · obtain ⟨x, hx, hid⟩ := (ih bs).mpr ⟨p, hp, hle⟩; exact ⟨x, Or.inr hx, hid⟩
  · simp only [maximized, List.any_eq_true]
    induction v generalizing w with
    | nil => simp
    | cons a as ih => cases w with
      | nil => simp
      | cons b bs =>
        simp only [List.zipWith_cons_cons, List.mem_cons, List.zip_cons_cons] at ih ⊢
        constructor
        · rintro ⟨x, hx | hx, hid⟩
          · subst hx; exact ⟨(a, b), Or.inl rfl, by simpa using hid⟩
          · obtain ⟨p, hp, hle⟩ := (ih bs).mp ⟨x, hx, hid⟩; exact ⟨p, Or.inr hp, hle⟩
        · rintro ⟨p, hp | hp, hle⟩
          · subst hp; exact ⟨true, Or.inl (by simpa using hle), rfl⟩
          · obtain ⟨x, hx, hid⟩ := (ih bs).mpr ⟨p, hp, hle⟩; exact ⟨x, Or.inr hx, hid⟩
example : minimized [1, 5, (3 : Int)] [2, 4, 9] = (true, [1, 4, 3]) ∧
    minimized [1, (2 : Int)] [5, 6] = (false, [1, 2]) ∧ minimized [(1 : Int)] [1] = (true, [1]) ∧
    maximized [1, 5, (3 : Int)] [2, 4, 9] = (true, [2, 5, 9]) := by decide

end minmax

/-! ## G. stream operators at token level -/

/-- `is >> v` after `os << v` (followed by anything) reads back `v` and leaves the rest. -/
theorem stream_roundtrip {α : Type} (v rest : List α) :
    readTokens v.length (writeTokens v ++ rest) = some (v, rest) := by
  simp [readTokens, writeTokens]
example : readTokens 3 (writeTokens [1, -2, (3 : Int)] ++ [7]) = some ([1, -2, 3], [7]) := by decide

/-- `is >> v` consumes exactly `DIM` tokens, in order; fewer tokens is the failure case. -/
theorem read_spec {α : Type} (n : Nat) (toks : List α) :
    (n ≤ toks.length → readTokens n toks = some (toks.take n, toks.drop n)) ∧
    (toks.length < n → readTokens n toks = none) := by
  unfold readTokens
  constructor
  · intro h; simp [h]
  · intro h; have : ¬ n ≤ toks.length := by omega
    simp [this]
example : readTokens 3 [1, (2 : Int)] = none := by decide

/-! ## H. barycenters of faces and cells -/

/-- `barycenter(face/cell)` on `int` positions: component `i` is the truncated quotient of the
sum of the vertices' `i`-th coordinates by the number of vertices (valence ≥ 1 by hypothesis). -/
theorem barycenter_spec (n : Nat) (ps : List (List Int)) (hp : ∀ p ∈ ps, p.length = n)
    (i : Nat) (hi : i < n) :
    (baryList n ps)[i]? = some (Int.tdiv (ps.map (fun p => p[i]?.getD 0)).sum ps.length) := by
  unfold baryList sdiv
  have h := foldl_add_getElem? (R := Int) n ps (vectorize n 0) (by simp [vectorize]) hp i hi
  rw [List.getElem?_map, h]
  simp [vectorize, hi, cdiv_int, cnat_int]
example : baryList 3 [[0, 0, 0], [3, 0, 0], [0, 3, 0], [0, 0, (4 : Int)]] = [0, 0, 1] := by decide

end OVM.Props.C19

import OVM.IO.Ascii.Parse
namespace OVM.Ascii
theorem placeholder_c07 : True := trivial
end OVM.Ascii

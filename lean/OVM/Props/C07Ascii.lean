import OVM.IO.Ascii.PropLemmas
/-
  C07, OVM-ASCII half.  Subject: `parse` (lean/OVM/IO/Ascii/Parse.lean), the model of
  `FileManager::readStream` as of d1ec4f8 (all of F4 F5 F6 A1 A2 A3 A4 applied); the model is tied to
  the code by the differential run of tools/props/io_ascii.py (same bytes to both, result class and
  mesh compared).

  For every byte string and every reader configuration (mesh type, topology check, allocation limit,
  and any hex ordering step that only hands on halffaces it was given):
    * `parse_fault_free`   no kernel entry point is ever called with a handle that does not exist
                           (the `fault` flag of the model: the out-of-bounds accesses of F4 / F6)
    * `parse_terminates`   the loop `while(!_istream.eof())` consumes input on every pass: the fuel
                           `|input|+2` is never exhausted; every other loop of the model is
                           structural recursion on the input or on a declared count
    * `parse_ok_valid`     success ⇒ every stored handle designates an existing entity and every
                           property has one element per entity
-/
namespace OVM.Ascii

/-- **C07 (a)**: the reader never uses a handle that does not designate an existing entity. -/
theorem parse_fault_free (cfg : Cfg) (hx : HexOK cfg) (input : Str) : (parse cfg input).fault = false :=
  (readAll_facts cfg hx input).1

/-- **C07 (b)**: termination — the only fuel-bounded loop never runs out of fuel. -/
theorem parse_terminates (cfg : Cfg) (hx : HexOK cfg) (input : Str) : (parse cfg input).res ≠ .error .fuel := by
  have h := (readAll_facts cfg hx input).2.1
  unfold parse
  simp only
  split
  · rename_i e he
    intro hc
    apply h
    rw [he]
    cases hc
    rfl
  · simp

/-- **C07 (c)**: success ⇒ valid mesh. -/
theorem parse_ok_valid (cfg : Cfg) (hx : HexOK cfg) (input : Str) (F : AFile)
    (h : (parse cfg input).res = .ok F) : ValidFile F := by
  have hv := (readAll_facts cfg hx input).2.2
  unfold parse at h
  simp only at h
  split at h
  · simp at h
  · rename_i he
    simp only [Except.ok.injEq] at h
    rw [← h]
    exact hv he

/-! ### non-vacuity, and the replays of the confirmed defects evaluated on the model of the repaired code -/

/-- a concrete configuration satisfying the hypothesis -/
def cfgOf (k : Kind) (chk : Bool) : Cfg := ⟨k, chk, 1000, fun _ hfs => some hfs⟩

theorem cfgOf_hexOK (k : Kind) (chk : Bool) : HexOK (cfgOf k chk) := by
  intro faces hfs l h
  simp [cfgOf] at h
  rw [← h]; exact fun x hx => hx

set_option maxRecDepth 100000
set_option exponentiation.threshold 2048

def errOf (o : Outcome) : Option Err := match o.res with | .error e => some e | .ok _ => none
def okOf (o : Outcome) : Option AFile := match o.res with | .ok F => some F | .error _ => none

/-- one tetrahedron with a vertex property reads successfully (so `parse_ok_valid` is not vacuous) -/
def tetText : Str := kw "OVM ASCII\nVertices\n4\n0 0 0\n1 0 0\n0 1 0\n0 0 1\nEdges\n6\n0 1\n1 2\n2 0\n0 3\n1 3\n2 3\nFaces\n4\n3 0 2 4\n3 0 8 7\n3 2 10 9\n3 4 6 11\nPolyhedra\n1\n4 1 2 4 6\nVProp int \"w\"\n5\n6\n7\n8\n"

example : okOf (parse (cfgOf .tet true) tetText) =
    some { verts := [(kw "0", kw "0", kw "0"), (kw "1", kw "0", kw "0"), (kw "0", kw "1", kw "0"), (kw "0", kw "0", kw "1")],
           edges := [(0, 1), (1, 2), (2, 0), (0, 3), (1, 3), (2, 3)],
           faces := [[0, 2, 4], [0, 8, 7], [2, 10, 9], [4, 6, 11]], cells := [[1, 2, 4, 6]],
           props := [⟨.v, .sc .i32, kw "w", [.sc (.int 5), .sc (.int 6), .sc (.int 7), .sc (.int 8)]⟩] } := by decide

/-- F5 (`VProp int "x"` + `abc`): the repaired reader reports failure instead of spinning -/
def f5Text : Str := kw "OVM ASCII\nVertices\n1\n0 0 0\nEdges\n0\nFaces\n0\nPolyhedra\n0\nVProp int \"x\"\nabc\n"
example : errOf (parse (cfgOf .poly true) f5Text) = some .propData := by decide

/-- F4: quads read into a tet mesh: `add_face` rejects, the reader stops (before: out-of-bounds in `add_cell`) -/
def f4Text : Str := kw "OVM ASCII\nVertices\n4\n0 0 0\n1 0 0\n0 1 0\n0 0 1\nEdges\n4\n0 1\n1 2\n2 3\n3 0\nFaces\n2\n4 0 2 4 6\n4 0 2 4 6\nPolyhedra\n1\n4 0 1 2 3\n"
example : errOf (parse (cfgOf .tet false) f4Text) = some (.addFace 0) := by decide

/-- F6: a face line of valence 0 -/
def f6Text : Str := kw "OVM ASCII\nVertices\n1\n0 0 0\nEdges\n0\nFaces\n1\n0\nPolyhedra\n0\n"
example : errOf (parse (cfgOf .poly false) f6Text) = some (.zeroValence 0) := by decide

/- a halfedge index equal to `2*n_edges` is refused, the largest legal one is accepted -/
example : errOf (parse (cfgOf .poly false) (kw "OVM ASCII\nVertices\n2\n0 0 0\n1 1 1\nEdges\n1\n0 1\nFaces\n1\n2 0 2\nPolyhedra\n0\n")) = some (.badHalfedge 0)
    ∧ errOf (parse (cfgOf .poly false) (kw "OVM ASCII\nVertices\n2\n0 0 0\n1 1 1\nEdges\n1\n0 1\nFaces\n1\n2 0 1\nPolyhedra\n0\n")) = none := by decide

/- a declared count above the allocation limit is the exception outcome -/
example : errOf (parse (cfgOf .poly false) (kw "OVM ASCII\nVertices\n18446744073709551615\n")) = some (.alloc 18446744073709551615) := by decide

end OVM.Ascii

import OVM.Iter.Lemmas
import OVM.Kernel.Query
import OVM.Base.ListLemmas
import OVM.Refine.CircTable
import OVM.Refine.CircTetHex
import OVM.Refine.EntityBack
/-
  C05 — iterators and circulators enumerate exactly the live / incident entities.
  Two machines (OVM/Iter/Circ.lean) model every iterator class: the entity iterator with its
  skip-deleted loops and the circulator `(idx, lap, valid, cur)` over the list `L` the
  constructor builds.  Proved here for every flag array / every list / every `max_laps ≥ 1`:
  * entity iteration from slot 0 visits exactly the not-deleted slots, each once, ascending;
  * a circulator dereferences `L` repeated `max_laps` times and nothing else;
  * after `|L|·max_laps` increments it equals `make_end_circulator(begin)` field by field;
  * stepping back undoes stepping forward whenever the forward step lands on a valid position;
  * an empty incident list gives an immediately-invalid circulator;
  * the lists built by `std::sort`+`std::unique` are strictly ascending, duplicate-free and
    have the same members as the collected relation.
  Which list each class builds (Kernel/Query.lean) is tied to the C++ by the correspondence run
  over every class × centre × max_laps 1..3; that it equals the incident set on every reachable
  mesh state is the second half of this file (`circulator_enumerates_incident_set`,
  `entity_iterators_on_reachable_states`, `boundary_iterators_on_reachable_states`, …; lemmas in
  OVM/Refine/CircReach.lean, CircTable.lean, CircTetHex.lean, EntityBack.lean on top of C01's
  `Global.GInv`; the meshes of the tetrahedral kernel: Props/C05Tet.lean).
  Known finding (F10): `operator--` never sets `valid` back, so stepping back from the end state
  gives the right handle but an invalid iterator — proved as `prev_from_end_stays_invalid`.
-/
namespace OVM.Props.C05
open OVM OVM.Circ

/-- entity iterators: every not-deleted slot exactly once, in ascending order, nothing else -/
theorem entity_iteration (del : List Bool) (n : Nat) :
    enumFrom del n 0 = (List.range n).filter (liveFlag del) := by
  simpa using enumFrom_eq del n 0

/-- an iterator constructed at a deleted slot moves on to the next live one (or to `n`) -/
theorem entity_iter_skips (del : List Bool) (n s : Nat) :
    s ≤ skipFwd del n s ∧ (skipFwd del n s < n → liveFlag del (skipFwd del n s) = true) := by
  refine ⟨le_skipFwdP _ n s, ?_⟩
  intro h
  unfold skipFwd skipFwdP at h ⊢
  cases hf : ((List.range n).drop s).find? (liveFlag del) with
  | none => rw [hf] at h; simp at h; omega
  | some x => simpa using List.find?_some hf

/-- a centre with nothing incident yields an immediately-invalid circulator -/
theorem empty_is_invalid : (start []).valid = false := rfl
theorem nonempty_is_valid (L : List Nat) (h : L ≠ []) : (start L).valid = true ∧ (start L).cur = L.head? := by
  cases L <;> simp_all [start]

/-- the loop `for (c = begin; c.valid(); ++c)` dereferences the incident list `max_laps` times -/
theorem visits_list_max_laps_times (L : List Nat) (m : Nat) (hL : L ≠ []) (hm : 1 ≤ m) :
    visit L m (L.length * m + 1) (start L) = rep m L := by
  have hpos : 0 < L.length := List.length_pos_iff.mpr hL
  rw [start_eq_pos]
  have hne : (!L.isEmpty) = true := by cases L <;> simp_all
  rw [hne]
  obtain ⟨r, rfl⟩ : ∃ r, m = r + 1 := ⟨m - 1, by omega⟩
  have := visit_from L (r + 1) r 0 (by omega) (L.length - 1) 0 (by omega) (L.length * (r + 1) + 1) (by
    rw [Nat.mul_succ, Nat.mul_comm]; omega)
  simpa [rep_succ] using this

/-- successor of a quotient / remainder pair -/
theorem succ_div_mod (k n : Nat) (hn : 0 < n) :
    (k % n + 1 = n → (k + 1) % n = 0 ∧ (k + 1) / n = k / n + 1) ∧
    (k % n + 1 ≠ n → (k + 1) % n = k % n + 1 ∧ (k + 1) / n = k / n) := by
  have hlt := Nat.mod_lt k hn
  have hdm := Nat.div_add_mod k n
  constructor
  · intro h
    have e : k + 1 = n * (k / n + 1) + 0 := by rw [Nat.mul_succ]; omega
    constructor
    · rw [e]; simp
    · rw [e]; simp [Nat.mul_div_cancel_left _ hn]
  · intro h
    have hlt' : k % n + 1 < n := by omega
    have e : k + 1 = n * (k / n) + (k % n + 1) := by omega
    constructor
    · rw [e, Nat.mul_add_mod, Nat.mod_eq_of_lt hlt']
    · rw [e, Nat.mul_add_div hn, Nat.div_eq_of_lt hlt']; simp

/-- closed form of the state after `k` increments: position `k mod |L|` of lap `k div |L|`,
    valid exactly while that lap is below `max_laps` -/
theorem after_k_steps (L : List Nat) (m : Nat) (hL : L ≠ []) (hm : 1 ≤ m) (k : Nat) :
    nextN L m k (start L) = pos L (k % L.length) ((k / L.length : Nat) : Int) (decide (k / L.length < m)) := by
  have hpos : 0 < L.length := List.length_pos_iff.mpr hL
  induction k with
  | zero =>
    rw [start_eq_pos]
    have hne : (!L.isEmpty) = true := by cases L <;> simp_all
    have : (0 : Nat) < m := by omega
    simp [nextN, hne, this]
  | succ k ih =>
    simp only [nextN, ih]
    have sdm := succ_div_mod k L.length hpos
    have hlt := Nat.mod_lt k hpos
    by_cases h : k % L.length + 1 = L.length
    · obtain ⟨e1, e2⟩ := sdm.1 h
      rw [next_wrap L m _ _ _ h, e1, e2]
      unfold pos
      have cast : (((k / L.length : Nat) : Int) + 1) = ((k / L.length + 1 : Nat) : Int) := by simp
      have : (decide (k / L.length < m) && decide (((k / L.length : Nat) : Int) + 1 < (m : Int))) = decide (k / L.length + 1 < m) := by
        by_cases h1 : k / L.length + 1 < m
        · have : k / L.length < m := by omega
          simp [h1, this]; omega
        · simp [h1]; intro _; omega
      rw [this, cast]
    · obtain ⟨e1, e2⟩ := sdm.2 h
      rw [next_inner L m _ _ _ (by omega), e1, e2]

/-- the end circulator equals the begin circulator advanced past the last lap -/
theorem end_is_begin_advanced (L : List Nat) (m : Nat) (hL : L ≠ []) (hm : 1 ≤ m) :
    nextN L m (L.length * m) (start L) = endOf m (start L) := by
  have hpos : 0 < L.length := List.length_pos_iff.mpr hL
  rw [after_k_steps L m hL hm]
  have e1 : L.length * m % L.length = 0 := Nat.mul_mod_right _ _
  have e2 : L.length * m / L.length = m := Nat.mul_div_cancel_left m hpos
  rw [e1, e2]
  have hv : (start L).valid = true := (nonempty_is_valid L hL).1
  unfold endOf; simp only [hv, if_true]
  unfold pos start
  cases L <;> simp_all

/-- stepping backward undoes stepping forward (at every position whose successor is valid) -/
theorem backward_undoes_forward (L : List Nat) (m i : Nat) (l : Nat) (hi : i < L.length)
    (hv : (next L m (pos L i l true)).valid = true) : prev L (next L m (pos L i l true)) = pos L i l true :=
  prev_next L m i l hi (by omega) hv

/-- F10 (known finding): from the end state `operator--` yields the last handle but stays invalid -/
theorem prev_from_end_stays_invalid (L : List Nat) (m : Nat) (hL : L ≠ []) :
    (prev L (endOf m (start L))).valid = false ∧ (prev L (endOf m (start L))).cur = L.getLast? := by
  have hv : (start L).valid = true := (nonempty_is_valid L hL).1
  unfold endOf; simp only [hv, if_true]
  unfold prev start
  simp
  cases L with
  | nil => exact absurd rfl hL
  | cons a t => simp [List.getLast?_eq_getElem?]

/-- lists built by sort + unique: strictly ascending, no duplicates, same members -/
theorem sorted_unique_lists (k : Kernel) (x : Nat) :
    (k.qVF x).Nodup ∧ (k.qVC x).Nodup ∧ (k.qVHF x).Nodup ∧ (k.qHEF x).Nodup ∧ (k.qCC x).Nodup ∧
    (k.qCE x).Nodup ∧ (k.qCV x).Nodup := by
  refine ⟨?_, ?_, sortUniq_nodup _, sortUniq_nodup _, ?_, sortUniq_nodup _, sortUniq_nodup _⟩
  · unfold Kernel.qVF; split <;> first | exact sortUniq_nodup _ | exact List.nodup_nil
  · unfold Kernel.qVC; split <;> first | exact sortUniq_nodup _ | exact List.nodup_nil
  · unfold Kernel.qCC; split <;> first | exact sortUniq_nodup _ | exact List.nodup_nil

/-- membership in a sorted-unique circulator list is membership in the collected relation -/
theorem cell_vertices_members (k : Kernel) (c v : Nat) :
    v ∈ k.qCV c ↔ ∃ hf ∈ k.cellAt c, v ∈ k.qFV (Kernel.eOf hf) := by
  unfold Kernel.qCV; rw [mem_sortUniq]; simp [List.mem_flatMap]

example : visit [4, 7, 9] 2 7 (start [4, 7, 9]) = [4, 7, 9, 4, 7, 9] ∧
    nextN [4, 7, 9] 2 6 (start [4, 7, 9]) = endOf 2 (start [4, 7, 9]) := by decide

example : enumFrom [true, false, true, false, false, true] 6 0 = [1, 3, 4] := by
  rw [entity_iteration]; decide

open OVM.Kernel
open OVM.Kernel.Global (GInv CircClass EKind ginv_reachable class_facts class_disabled entity_lists boundary_lists halfLive
  historyOKB historyOK_of_B FaceCyc deleted_centre_nothing_incident)

/-! ## On reachable mesh states: the list each circulator runs over IS the incident set

Everything above is about the two machines on an arbitrary list.  Which list each of the 26 `TopologyKernel`
circulator classes builds is `CircClass.list` (OVM/Refine/CircTable.lean — the assignment of `Judge.circList`, compared
with the C++ on every run for every class × centre × max_laps 1..3); that this list is the incident set of the centre on
EVERY state reachable from the empty mesh by valid calls (`Global.HistoryOK`, the reachability notion of C01: whole
vocabulary, all four deletion modes, all eight bottom-up configurations, deferred-deleted entities anywhere) is
OVM/Refine/CircReach.lean on top of `Global.GInv`.  `CircClass.spec` is the brute-force scan over the stored definitions
of the not-deleted entities (OVM/Spec/Incidence.lean); `CircClass.isSet` marks the classes whose relation is a set, the
others enumerate with the multiplicity stated at `CircClass.isSet` (and then `Perm` says the multiplicities agree). -/

/-- the machine on one list: what the `valid()` loop dereferences, where the end is, the back step -/
theorem machine_on_list (L : List Nat) (m : Nat) (hm : 1 ≤ m) :
    (L ≠ [] → (start L).valid = true ∧ (start L).cur = L.head? ∧
      visit L m (L.length * m + 1) (start L) = rep m L ∧
      nextN L m (L.length * m) (start L) = endOf m (start L) ∧
      ∀ i (l : Nat), i < L.length → (next L m (pos L i l true)).valid = true →
        prev L (next L m (pos L i l true)) = pos L i l true) ∧
    (L = [] → (start L).valid = false) := by
  refine ⟨fun hL => ⟨(nonempty_is_valid L hL).1, (nonempty_is_valid L hL).2, visits_list_max_laps_times L m hL hm,
    end_is_begin_advanced L m hL hm, fun i l hi hv => backward_undoes_forward L m i l hi hv⟩, ?_⟩
  rintro rfl; rfl

/-- **every circulator class, every reachable state, every centre with `CircClass.centreOK`, every `max_laps ≥ 1`.**
    (`centreOK`: a not-deleted centre in range — `Global.centreOK_of_live` — and, for the classes that read a bottom-up
    cache, even any handle in range.)  With the needed incidence kinds enabled the constructor's list `L` is a
    rearrangement of the brute-force incident list (same members, same multiplicities), duplicate-free for the set
    relations, and names only live entities; if
    the centre has something incident, the circulator starts valid, `for (; c.valid(); ++c)` dereferences exactly `L`
    repeated `max_laps` times, begin advanced `|L|·max_laps` times IS the end circulator, and a back step undoes a
    forward step; if nothing is incident it is invalid from the start.  With a needed kind disabled the circulator is
    invalid from the start.
    (FaceHalfEdgeIter / FaceEdgeIter on a face with NO halfedges: the model says "invalid", the C++ constructor reads
    `halfedges_[0]` — finding F6; such a centre is outside C05's quantifier "with at least one sub-entity".) -/
theorem circulator_enumerates_incident_set (cls : CircClass) (ops : List Op) (h : Global.HistoryOK {} ops)
    (x m : Nat) (hm : 1 ≤ m) (hx : cls.centreOK (run {} ops) x = true) :
    let k := run {} ops
    let L := cls.list k x
    (cls.needs k = true →
      L.Perm (cls.spec k x) ∧ (∀ y, y ∈ L ↔ y ∈ cls.spec k x) ∧ (cls.isSet = true → L.Nodup) ∧
      (∀ y ∈ L, cls.target.live k y = true) ∧
      (cls.spec k x ≠ [] →
        (start L).valid = true ∧ (start L).cur = L.head? ∧
        visit L m (L.length * m + 1) (start L) = rep m L ∧
        nextN L m (L.length * m) (start L) = endOf m (start L) ∧
        ∀ i (l : Nat), i < L.length → (next L m (pos L i l true)).valid = true →
          prev L (next L m (pos L i l true)) = pos L i l true) ∧
      (cls.spec k x = [] → (start L).valid = false)) ∧
    (cls.needs k = false → L = [] ∧ (start L).valid = false) := by
  intro k L
  have hi : GInv k := ginv_reachable ops h
  constructor
  · intro hn
    obtain ⟨hp, hs, hl⟩ := class_facts cls hi hx hn
    refine ⟨hp, fun y => hp.mem_iff, hs, hl, ?_, ?_⟩
    · intro hne
      have hL : L ≠ [] := fun e => hne (by have := hp; rw [show cls.list k x = L from rfl, e] at this; exact this.nil_eq.symm)
      exact (machine_on_list L m hm).1 hL
    · intro he
      have hL : L = [] := by have := hp; rw [he] at this; exact this.eq_nil
      exact (machine_on_list L m hm).2 hL
  · intro hn
    have hL : L = [] := class_disabled cls k x hn
    exact ⟨hL, (machine_on_list L m hm).2 hL⟩

/-- **a deferred-deleted centre has nothing incident**: on every reachable state, a vertex / edge / halfedge that is
    flagged deleted but not yet collected yields an immediately-invalid circulator in every vertex-, edge- and
    halfedge-centred class (whatever incidence kinds are enabled) -/
theorem deleted_centre_immediately_invalid (cls : CircClass) (ops : List Op) (h : Global.HistoryOK {} ops) (x : Nat)
    (hb : cls.bottomUp = true) (hcc : cls ≠ .cc) (hx : cls.centre.inRange (run {} ops) x = true)
    (hd : cls.centre.live (run {} ops) x = false) :
    cls.list (run {} ops) x = [] ∧ (start (cls.list (run {} ops) x)).valid = false := by
  have e := deleted_centre_nothing_incident cls (ginv_reachable ops h) hb hcc hx hd
  exact ⟨e, by rw [e]; rfl⟩

/-- vertex → cells against the scan `sVC` ("a live halfface of the cell TOUCHES the vertex") needs the one hypothesis
    beyond reachability that C01 needs for it: every live face is cyclically connected (`Global.FaceCyc`, what a
    checked `add_face` / `add_face(vertices)` establishes; witness without it at `C01Reach.vertex_cells_exact`).
    Unconditionally (`circulator_enumerates_incident_set`, class `vc`) the list is `sVCout`: the live cells with a
    live halfface one of whose halfedges STARTS at the vertex. -/
theorem vertex_cell_circulator_partial (ops : List Op) (h : Global.HistoryOK {} ops) (hy : FaceCyc (run {} ops))
    (v : Nat) (hv : (run {} ops).liveV v = true) (hn : CircClass.vc.needs (run {} ops) = true) :
    (run {} ops).qVC v = (run {} ops).sVC v := by
  have hi : GInv (run {} ops) := ginv_reachable ops h
  simp only [CircClass.needs, Bool.and_eq_true] at hn
  have hlt : v < (run {} ops).nV := by unfold Kernel.liveV at hv; simp at hv; exact hv.1
  exact (Global.circ_vc hi.wf hi.one hi.closed hn.1.1 hn.1.2 hn.2 hlt).2.1 hy

/-- membership of the top-down views in terms that do not mention the stored order: face/halfface → edges is
    `faceHasEdge`, cell → faces is `cellHasFace`, and under `FaceCyc` face/halfface → vertices is `faceTouchesV` -/
theorem top_down_members (ops : List Op) (h : Global.HistoryOK {} ops) :
    let k := run {} ops
    (∀ hf, k.liveF (eOf hf) = true → (∀ e, e ∈ k.qHFE hf ↔ k.faceHasEdge (eOf hf) e = true) ∧
        (FaceCyc k → ∀ v, v ∈ k.qHFV hf ↔ k.faceTouchesV (eOf hf) v = true)) ∧
    (∀ f, k.liveF f = true → (∀ e, e ∈ k.qFE f ↔ k.faceHasEdge f e = true) ∧
        (FaceCyc k → ∀ v, v ∈ k.qFV f ↔ k.faceTouchesV f v = true)) ∧
    (∀ c, k.liveC c = true → (∀ f, f ∈ k.qCF c ↔ k.cellHasFace c f = true) ∧
        (FaceCyc k → ∀ v, v ∈ k.qCV c ↔ (k.liveV v = true ∧ ∃ hf ∈ k.cellAt c, k.faceTouchesV (eOf hf) v = true))) := by
  intro k
  have hi : GInv k := ginv_reachable ops h
  refine ⟨fun hf hl => ?_, fun f hl => ?_, fun c hl => ?_⟩
  · obtain ⟨_, ⟨_, _, b⟩, ⟨_, _, c⟩⟩ := Global.circ_hf hi.wf hi.closed hl; exact ⟨c, b⟩
  · obtain ⟨_, ⟨_, _, b⟩, ⟨_, _, c⟩⟩ := Global.circ_f hi.wf hi.closed hl; exact ⟨c, b⟩
  · exact ⟨(Global.circ_c_views hi.wf hi.one hi.closed hl).2.1.2.2, (Global.circ_cv hi.wf hi.closed hl).2.2.2⟩

/-- **the six entity iterators on every reachable state**: run on the state's own deletion-flag arrays (one flag per
    slot: `LenInv`), `vertices()`, `edges()`, `faces()`, `cells()` visit exactly the not-deleted slots, each once,
    ascending; `halfedges()` / `halffaces()` (whose `is_deleted` looks at the edge / face) visit both halves of
    every not-deleted edge / face, ascending -/
theorem entity_iterators_on_reachable_states (ops : List Op) (h : Global.HistoryOK {} ops) :
    let k := run {} ops
    (enumFrom k.vDel k.nV 0 = k.liveVerts ∧ enumFrom k.eDel k.nE 0 = k.liveEdges ∧
     enumFrom k.fDel k.nF 0 = k.liveFaces ∧ enumFrom k.cDel k.nC 0 = k.liveCells ∧
     enumFromP (halfLive k.eDel) k.nHE 0 = k.liveEdges.flatMap (fun e => [2 * e, 2 * e + 1]) ∧
     enumFromP (halfLive k.fDel) k.nHF 0 = k.liveFaces.flatMap (fun e => [2 * e, 2 * e + 1])) ∧
    (k.vDel.length = k.nV ∧ k.eDel.length = k.nE ∧ k.fDel.length = k.nF ∧ k.cDel.length = k.nC) ∧
    (∀ v, v ∈ k.liveVerts ↔ (v < k.nV ∧ k.vDeleted v = false)) ∧ k.liveVerts.Pairwise (· < ·) ∧
    (k.liveEdges.flatMap (fun e => [2 * e, 2 * e + 1])).Pairwise (· < ·) := by
  intro k
  have hi : GInv k := ginv_reachable ops h
  obtain ⟨a, b⟩ := entity_lists hi.wf.len
  refine ⟨a, b, ?_, Global.liveVerts_pairwise k, Global.pairwise_halves _ (Global.liveEdges_pairwise k)⟩
  intro v; unfold liveVerts; simp

/-- **entity iterators, backward stepping** (`operator--`: `--i; while (i >= 0 && is_deleted(i)) --i;`,
    OVM/Refine/EntityBack.lean `skipBwdP`): from any valid position `a`, `--(++it)` is `a` again — for every flag
    array, every count, also when `++` ran off the end; and `--end` is the last not-deleted slot (none: below 0) -/
theorem entity_backward_undoes_forward (del : List Bool) (n a : Nat) (ha : liveFlag del a = true) :
    skipBwdP (liveFlag del) (skipFwd del n (a + 1)) = some a ∧
    (∀ b, skipBwdP (liveFlag del) n = some b → b < n ∧ liveFlag del b = true ∧ ∀ j, b < j → j < n → liveFlag del j = false) :=
  ⟨entity_back_undoes_forward _ n a ha, (entity_prev_of_end _ n).1⟩

/-- **the six boundary iterators on every reachable state** (BoundaryItemIter: the entity iterator that also skips
    items with `!is_boundary`): with the incidence kinds `has_incidences()` asks for they visit exactly the not-deleted
    items that are boundary by the brute-force definitions of OVM/Spec/Incidence.lean, each once, ascending
    (with a kind missing the constructor comes back invalid: `Kernel.qBIV` … `qBIC`, `else []`) -/
theorem boundary_iterators_on_reachable_states (ops : List Op) (h : Global.HistoryOK {} ops) :
    let k := run {} ops
    (k.vBU = true → k.eBU = true → k.fBU = true →
      enumFromP (fun v => liveFlag k.vDel v && k.qBoundaryV v) k.nV 0 = k.liveVerts.filter k.sBoundaryV) ∧
    (k.eBU = true → k.fBU = true →
      enumFromP (fun h => halfLive k.eDel h && k.qBoundaryHE h) k.nHE 0 =
        (k.liveEdges.flatMap (fun e => [2 * e, 2 * e + 1])).filter k.sBoundaryHE) ∧
    (k.eBU = true → k.fBU = true →
      enumFromP (fun e => liveFlag k.eDel e && k.qBoundaryE e) k.nE 0 = k.liveEdges.filter k.sBoundaryE) ∧
    (k.fBU = true →
      enumFromP (fun h => halfLive k.fDel h && k.qBoundaryHF h) k.nHF 0 =
        (k.liveFaces.flatMap (fun e => [2 * e, 2 * e + 1])).filter k.sBoundaryHF) ∧
    (k.fBU = true →
      enumFromP (fun f => liveFlag k.fDel f && k.qBoundaryF f) k.nF 0 = k.liveFaces.filter k.sBoundaryF) ∧
    (k.fBU = true →
      enumFromP (fun c => liveFlag k.cDel c && k.qBoundaryC c) k.nC 0 = k.liveCells.filter k.sBoundaryC) :=
  boundary_lists (ginv_reachable ops h).wf

/-- **TetVertexIter** (`tv_iter`): its list is `get_cell_vertices(ch)`.  On a state with the invariant, the face kind
    enabled (the C++ reads `incident_cell`), a live cell that is a topological tetrahedron (`IsTet`): four pairwise
    distinct entries, exactly the vertices of the cell, visited `max_laps` times (`Kernel.tvIter`, the sequence the
    driver records), end = begin advanced.  `_partial`: stated for a state satisfying `GInv` and a cell satisfying
    `IsTet` — what Props/C15 (`shape_reachable`, `tetShape_reachable`, `tetShape_of_construction`) delivers along the
    histories of the tetrahedral kernel — not re-quantified over those histories here; the ORDER of the four
    vertices is Props/C15 `get_cell_vertices_cell`. -/
theorem tet_vertex_circulator_partial (k : Kernel) (hi : GInv k) (hb : k.fBU = true) (c : Nat) (hl : k.liveC c = true)
    (ht : IsTet k c) (m : Nat) (hm : 1 ≤ m) :
    let L := k.getCellVertices c
    L.length = 4 ∧ L.Nodup ∧ (∀ v, v ∈ L ↔ v ∈ k.cellVertSet c) ∧ (start L).valid = true ∧
    visit L m (L.length * m + 1) (start L) = k.tvIter c m ∧
    nextN L m (L.length * m) (start L) = endOf m (start L) := by
  intro L
  obtain ⟨h4, hn, hmem, hrep⟩ := Global.tet_vertex_list hi hb hl ht
  have hL : L ≠ [] := by intro e; rw [show k.getCellVertices c = L from rfl, e] at h4; cases h4
  obtain ⟨hv, _, hvis, hend, _⟩ := (machine_on_list L m hm).1 hL
  exact ⟨h4, hn, hmem, hv, by rw [hvis, hrep m], hend⟩

/-- **CellSheetCellIter** (`csc_iter`) of the hexahedral kernel: on a state with the invariant, a live cell and a
    direction `< 6`, with the face kind enabled the list is the brute-force sheet neighbourhood `sSheetCells` (cells
    across the halffaces stored at the positions of the two other axes), duplicate-free, live cells only, and the
    machine visits it `max_laps` times; with the face kind off the circulator is invalid from the start.
    `_partial`: for a `GInv` state (Props/C16 `shape_reachable` delivers it along hexahedral-kernel histories).
    HexVertexIter: Props/C16 `hex_vertices_pattern` (OVM/Hex/VerticesPattern.lean `Frame.hexVertices_eq`).
    HalfFaceSheetHalfFaceIter: only judged per state and decided on the two-cube mesh (Props/C16); no theorem. -/
theorem cell_sheet_circulator_partial (k : Kernel) (hi : GInv k) (c dir : Nat) (hl : k.liveC c = true) (hd : dir < 6)
    (m : Nat) (hm : 1 ≤ m) :
    let L := k.cellSheetCells c dir
    (k.fBU = true → L = k.sSheetCells c dir ∧ L.Nodup ∧ (∀ x ∈ L, k.liveC x = true) ∧
      (L ≠ [] → (start L).valid = true ∧ visit L m (L.length * m + 1) (start L) = rep m L ∧
        nextN L m (L.length * m) (start L) = endOf m (start L))) ∧
    (L = [] → (start L).valid = false) ∧ (k.fBU = false → L = []) := by
  intro L
  refine ⟨fun hb => ?_, (machine_on_list L m hm).2, fun hb => Global.sheet_cells_disabled k c dir hb⟩
  obtain ⟨e, n, l⟩ := Global.sheet_cells_exact hi hb hl hd
  refine ⟨e, n, l, fun hL => ?_⟩
  obtain ⟨hv, _, hvis, hend, _⟩ := (machine_on_list L m hm).1 hL
  exact ⟨hv, hvis, hend⟩

/-! ### non-vacuity: two glued tetrahedra, a deferred deletion pending -/

/-- tetrahedra `0123` and `0124` glued along face 0 (built through `add_face(vertices)` and checked `add_cell`), an
    isolated vertex 5, then a DEFERRED `delete_face(6)`: face 6 and with it cell 1 are flagged, nothing is collected -/
def gluedOps : List Op :=
  [.addNVertices 6, .addFaceV [0,1,2], .addFaceV [0,3,1], .addFaceV [1,3,2], .addFaceV [0,2,3],
   .addCell true [0,2,4,6],
   .addFaceV [0,1,4], .addFaceV [1,2,4], .addFaceV [2,0,4], .addCell true [1,8,10,12],
   .deleteFace 6]

set_option maxRecDepth 1000000 in
/-- the history is valid at every call, the deletion is pending, face 6 and cell 1 carry flags -/
example : Global.HistoryOK {} gluedOps ∧ (run {} gluedOps).needsGC = true ∧
    (run {} gluedOps).fDel = [false, false, false, false, false, false, true] ∧ (run {} gluedOps).cDel = [false, true] :=
  ⟨historyOK_of_B {} _ (by decide), by decide, by decide, by decide⟩

set_option maxRecDepth 1000000 in
/-- vertex → faces at vertex 0 with two laps: the theorem applies (live centre, kinds enabled, non-empty incident set)
    and the loop dereferences `[0,1,3,4]` twice — face 6, which also touches vertex 0, is flagged and not visited -/
example :
    let k := run {} gluedOps
    let L := CircClass.vf.list k 0
    L = [0, 1, 3, 4] ∧ k.faceTouchesV 6 0 = true ∧
    visit L 2 (L.length * 2 + 1) (start L) = [0, 1, 3, 4, 0, 1, 3, 4] ∧
    nextN L 2 (L.length * 2) (start L) = endOf 2 (start L) := by
  intro k L
  have hL : L = [0, 1, 3, 4] := by decide
  have hs : CircClass.vf.spec k 0 ≠ [] := by decide
  have T := (circulator_enumerates_incident_set .vf gluedOps (historyOK_of_B {} _ (by decide)) 0 2 (by decide)
    (by decide)).1 (by decide)
  obtain ⟨_, _, hv, he, _⟩ := T.2.2.2.2.1 hs
  refine ⟨hL, by decide, ?_, he⟩
  rw [show visit L 2 (L.length * 2 + 1) (start L) = rep 2 L from hv, hL]; decide

set_option maxRecDepth 1000000 in
/-- the other clauses are met by the same state: cell → cells at cell 0 is EMPTY (its only neighbour is flagged) and the
    circulator is invalid from the start; so is every vertex circulator at the isolated vertex 5; halfedge →
    halffaces at halfedge 0 lists three halffaces in fan order (a rearrangement of the ascending scan);
    BoundaryHalfFaceHalfFace at halfface 0 lists halfface 1 three times (multiplicity); with the vertex kind
    switched off VertexOHalfEdgeIter is invalid from the start -/
example :
    let k := run {} gluedOps
    CircClass.cc.spec k 0 = [] ∧ (start (CircClass.cc.list k 0)).valid = false ∧ k.sCC 1 = [0] ∧
    (start (CircClass.voh.list k 5)).valid = false ∧
    CircClass.hehf.list k 0 = [8, 0, 3] ∧ CircClass.hehf.spec k 0 = [0, 3, 8] ∧
    CircClass.bhfhf.list k 0 = [1, 9, 1, 11, 1] ∧
    (start (CircClass.voh.list (run {} (gluedOps ++ [.enableBU 0 false])) 0)).valid = false := by
  intro k
  have H : Global.HistoryOK {} gluedOps := historyOK_of_B {} _ (by decide)
  have T := (circulator_enumerates_incident_set .cc gluedOps H 0 1 (by decide) (by decide)).1 (by decide)
  have hs : CircClass.cc.spec k 0 = [] := by decide
  have T5 := (circulator_enumerates_incident_set .voh gluedOps H 5 1 (by decide) (by decide)).1 (by decide)
  have hs5 : CircClass.voh.spec k 5 = [] := by decide
  have Toff := (circulator_enumerates_incident_set .voh (gluedOps ++ [.enableBU 0 false])
    (historyOK_of_B {} _ (by decide)) 0 1 (by decide) (by decide)).2 (by decide)
  exact ⟨hs, T.2.2.2.2.2 hs, by decide, T5.2.2.2.2.2 hs5, by decide, by decide, by decide, Toff.2⟩

set_option maxRecDepth 1000000 in
/-- test (a sample, not a proof): on this state, for every class and every centre slot 0..13, live centre and kinds
    enabled ⇒ the list sorted equals the brute-force list sorted — the instance of the theorem, evaluated -/
example :
    let k := run {} gluedOps
    CircClass.all.all (fun cls => (List.range 14).all (fun x =>
      !(cls.centre.live k x) || sortL (cls.list k x) == sortL (cls.spec k x))) = true := by decide

set_option maxRecDepth 1000000 in
/-- the entity iterators on this state: the flagged face 6 / cell 1 and their halffaces are skipped -/
example :
    let k := run {} gluedOps
    enumFrom k.fDel k.nF 0 = [0, 1, 2, 3, 4, 5] ∧ enumFrom k.cDel k.nC 0 = [0] ∧
    enumFromP (halfLive k.fDel) k.nHF 0 = [0, 1, 2, 3, 4, 5, 6, 7, 8, 9, 10, 11] ∧ k.nHF = 14 := by
  intro k
  obtain ⟨⟨_, _, hf, hc, _, hhf⟩, _⟩ := entity_iterators_on_reachable_states gluedOps (historyOK_of_B {} _ (by decide))
  exact ⟨hf.trans (by decide), hc.trans (by decide), hhf.trans (by decide), by decide⟩

set_option maxRecDepth 1000000 in
/-- the boundary iterators on this state: every live face is boundary (cell 1 is flagged, so face 0 is boundary too);
    before the deletion face 0 is interior -/
example :
    let k := run {} gluedOps
    enumFromP (fun f => liveFlag k.fDel f && k.qBoundaryF f) k.nF 0 = [0, 1, 2, 3, 4, 5] ∧
    (run {} (gluedOps.take 10)).liveFaces.filter (run {} (gluedOps.take 10)).sBoundaryF = [1, 2, 3, 4, 5, 6] := by
  intro k
  have := (boundary_iterators_on_reachable_states gluedOps (historyOK_of_B {} _ (by decide))).2.2.2.2.1 (by decide)
  exact ⟨this.trans (by decide), by decide⟩

set_option maxRecDepth 1000000 in
/-- TetVertexIter and CellSheetCellIter before the deletion (both cells live): cell 1 is a tetrahedron, its vertex list
    is the cycle of its first halfface `1` (= face 0 reversed: 0, 2, 1) then the apex 4; across the halffaces at
    positions 0, 1 of cell 0 (direction 2 or 3) lies cell 1 -/
example :
    let k := run {} (gluedOps.take 10)
    k.getCellVertices 1 = [0, 2, 1, 4] ∧ k.tvIter 1 2 = [0, 2, 1, 4, 0, 2, 1, 4] ∧
    visit (k.getCellVertices 1) 2 9 (start (k.getCellVertices 1)) = k.tvIter 1 2 ∧
    k.cellSheetCells 0 2 = [1] ∧ k.sSheetCells 0 2 = [1] ∧ k.cellSheetCells 0 0 = [] := by
  intro k
  have hi : GInv k := ginv_reachable _ (historyOK_of_B {} _ (by decide))
  have T := tet_vertex_circulator_partial k hi (by decide) 1 (by decide) (by decide) 2 (by decide)
  have hL : k.getCellVertices 1 = [0, 2, 1, 4] := by decide
  have S := (cell_sheet_circulator_partial k hi 0 2 (by decide) (by decide) 1 (by decide)).1 (by decide)
  have hS : k.cellSheetCells 0 2 = [1] := by decide
  refine ⟨hL, by decide, ?_, hS, by rw [← S.1, hS], by decide⟩
  have := T.2.2.2.2.1
  rw [T.1] at this
  exact this

set_option maxRecDepth 1000000 in
/-- a deferred `delete_vertex(4)` on top: vertex 4 and edges 6, 7, 8 are flagged and still occupy their slots; every
    circulator around vertex 4 and around edge 6 is invalid from the start, while vertex 1 keeps exactly its live
    neighbours (`vv`: 0, 2, 3 — not 4) -/
example :
    let k := run {} (gluedOps ++ [.deleteVertex 4])
    k.nV = 6 ∧ k.vDeleted 4 = true ∧ k.eDeleted 6 = true ∧
    (start (CircClass.vv.list k 4)).valid = false ∧ (start (CircClass.ehf.list k 6)).valid = false ∧
    sortL (CircClass.vv.list k 1) = [0, 2, 3] := by
  intro k
  have H : Global.HistoryOK {} (gluedOps ++ [.deleteVertex 4]) := historyOK_of_B {} _ (by decide)
  exact ⟨by decide, by decide, by decide,
    (deleted_centre_immediately_invalid .vv _ H 4 rfl (by decide) (by decide) (by decide)).2,
    (deleted_centre_immediately_invalid .ehf _ H 6 rfl (by decide) (by decide) (by decide)).2, by decide⟩

/-- a loop edge and two parallel edges at vertex 0 (valid calls: `add_edge` does not reject either) -/
def loopOps : List Op := [.addNVertices 2, .addEdge 0 0 false, .addEdge 0 1 true, .addEdge 0 1 true]

/-- why `ve` and `vv` are NOT in `CircClass.isSet`: they list one entry per outgoing halfedge — the loop edge 0 twice,
    the neighbour 1 once per parallel edge (the C++ prints the same: findings/C05-loop-edge-multiplicity.md); the
    theorem still applies in its multiplicity form, and `voh` stays duplicate-free -/
example :
    let k := run {} loopOps
    Global.HistoryOK {} loopOps ∧ CircClass.ve.list k 0 = [0, 0, 1, 2] ∧ CircClass.vv.list k 0 = [0, 0, 1, 1] ∧
    (CircClass.ve.list k 0).Perm (CircClass.ve.spec k 0) ∧ CircClass.voh.list k 0 = [0, 1, 2, 4] := by
  intro k
  have H : Global.HistoryOK {} loopOps := historyOK_of_B {} _ (by decide)
  exact ⟨H, by decide, by decide,
    ((circulator_enumerates_incident_set .ve loopOps H 0 1 (by decide) (by decide)).1 (by decide)).1, by decide⟩

end OVM.Props.C05

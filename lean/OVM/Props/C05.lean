import OVM.Iter.Lemmas
import OVM.Kernel.Query
import OVM.Base.ListLemmas
/-
  C05 — iterators and circulators enumerate exactly the live / incident entities.
  Two machines (OVM/Iter/Circ.lean) model every iterator class: the entity iterator with its
  skip-deleted loops and the circulator `(idx, lap, valid, cur)` over the list `L` the
  constructor builds.  Proved here for every flag array / every list / every `max_laps ≥ 1`:
  * entity iteration from slot 0 visits exactly the not-deleted slots, each once, ascending;
  * a circulator dereferences `L` repeated `max_laps` times and nothing else;
  * after `|L|·max_laps` increments it equals `make_end_circulator(begin)` field by field;
  * stepping back undoes stepping forward whenever the forward step lands on a valid position;
  * an empty incident list gives an immediately-invalid circulator;
  * the lists built by `std::sort`+`std::unique` are strictly ascending, duplicate-free and
    have the same members as the collected relation.
  Which list each class builds (Kernel/Query.lean) is tied to the C++ by the correspondence run
  over every class × centre × max_laps 1..3; that it equals the incident set is C01.
  Known finding (F10): `operator--` never sets `valid` back, so stepping back from the end state
  gives the right handle but an invalid iterator — proved as `prev_from_end_stays_invalid`.
-/
namespace OVM.Props.C05
open OVM OVM.Circ

/-- entity iterators: every not-deleted slot exactly once, in ascending order, nothing else -/
theorem entity_iteration (del : List Bool) (n : Nat) :
    enumFrom del n 0 = (List.range n).filter (liveFlag del) := by
  simpa using enumFrom_eq del n 0

/-- an iterator constructed at a deleted slot moves on to the next live one (or to `n`) -/
theorem entity_iter_skips (del : List Bool) (n s : Nat) :
    s ≤ skipFwd del n s ∧ (skipFwd del n s < n → liveFlag del (skipFwd del n s) = true) := by
  refine ⟨le_skipFwdP _ n s, ?_⟩
  intro h
  unfold skipFwd skipFwdP at h ⊢
  cases hf : ((List.range n).drop s).find? (liveFlag del) with
  | none => rw [hf] at h; simp at h; omega
  | some x => simpa using List.find?_some hf

/-- a centre with nothing incident yields an immediately-invalid circulator -/
theorem empty_is_invalid : (start []).valid = false := rfl
theorem nonempty_is_valid (L : List Nat) (h : L ≠ []) : (start L).valid = true ∧ (start L).cur = L.head? := by
  cases L <;> simp_all [start]

/-- the loop `for (c = begin; c.valid(); ++c)` dereferences the incident list `max_laps` times -/
theorem visits_list_max_laps_times (L : List Nat) (m : Nat) (hL : L ≠ []) (hm : 1 ≤ m) :
    visit L m (L.length * m + 1) (start L) = rep m L := by
  have hpos : 0 < L.length := List.length_pos_iff.mpr hL
  rw [start_eq_pos]
  have hne : (!L.isEmpty) = true := by cases L <;> simp_all
  rw [hne]
  obtain ⟨r, rfl⟩ : ∃ r, m = r + 1 := ⟨m - 1, by omega⟩
  have := visit_from L (r + 1) r 0 (by omega) (L.length - 1) 0 (by omega) (L.length * (r + 1) + 1) (by
    rw [Nat.mul_succ, Nat.mul_comm]; omega)
  simpa [rep_succ] using this

/-- successor of a quotient / remainder pair -/
theorem succ_div_mod (k n : Nat) (hn : 0 < n) :
    (k % n + 1 = n → (k + 1) % n = 0 ∧ (k + 1) / n = k / n + 1) ∧
    (k % n + 1 ≠ n → (k + 1) % n = k % n + 1 ∧ (k + 1) / n = k / n) := by
  have hlt := Nat.mod_lt k hn
  have hdm := Nat.div_add_mod k n
  constructor
  · intro h
    have e : k + 1 = n * (k / n + 1) + 0 := by rw [Nat.mul_succ]; omega
    constructor
    · rw [e]; simp
    · rw [e]; simp [Nat.mul_div_cancel_left _ hn]
  · intro h
    have hlt' : k % n + 1 < n := by omega
    have e : k + 1 = n * (k / n) + (k % n + 1) := by omega
    constructor
    · rw [e, Nat.mul_add_mod, Nat.mod_eq_of_lt hlt']
    · rw [e, Nat.mul_add_div hn, Nat.div_eq_of_lt hlt']; simp

/-- closed form of the state after `k` increments: position `k mod |L|` of lap `k div |L|`,
    valid exactly while that lap is below `max_laps` -/
theorem after_k_steps (L : List Nat) (m : Nat) (hL : L ≠ []) (hm : 1 ≤ m) (k : Nat) :
    nextN L m k (start L) = pos L (k % L.length) ((k / L.length : Nat) : Int) (decide (k / L.length < m)) := by
  have hpos : 0 < L.length := List.length_pos_iff.mpr hL
  induction k with
  | zero =>
    rw [start_eq_pos]
    have hne : (!L.isEmpty) = true := by cases L <;> simp_all
    have : (0 : Nat) < m := by omega
    simp [nextN, hne, this]
  | succ k ih =>
    simp only [nextN, ih]
    have sdm := succ_div_mod k L.length hpos
    have hlt := Nat.mod_lt k hpos
    by_cases h : k % L.length + 1 = L.length
    · obtain ⟨e1, e2⟩ := sdm.1 h
      rw [next_wrap L m _ _ _ h, e1, e2]
      unfold pos
      have cast : (((k / L.length : Nat) : Int) + 1) = ((k / L.length + 1 : Nat) : Int) := by simp
      have : (decide (k / L.length < m) && decide (((k / L.length : Nat) : Int) + 1 < (m : Int))) = decide (k / L.length + 1 < m) := by
        by_cases h1 : k / L.length + 1 < m
        · have : k / L.length < m := by omega
          simp [h1, this]; omega
        · simp [h1]; intro _; omega
      rw [this, cast]
    · obtain ⟨e1, e2⟩ := sdm.2 h
      rw [next_inner L m _ _ _ (by omega), e1, e2]

/-- the end circulator equals the begin circulator advanced past the last lap -/
theorem end_is_begin_advanced (L : List Nat) (m : Nat) (hL : L ≠ []) (hm : 1 ≤ m) :
    nextN L m (L.length * m) (start L) = endOf m (start L) := by
  have hpos : 0 < L.length := List.length_pos_iff.mpr hL
  rw [after_k_steps L m hL hm]
  have e1 : L.length * m % L.length = 0 := Nat.mul_mod_right _ _
  have e2 : L.length * m / L.length = m := Nat.mul_div_cancel_left m hpos
  rw [e1, e2]
  have hv : (start L).valid = true := (nonempty_is_valid L hL).1
  unfold endOf; simp only [hv, if_true]
  unfold pos start
  cases L <;> simp_all

/-- stepping backward undoes stepping forward (at every position whose successor is valid) -/
theorem backward_undoes_forward (L : List Nat) (m i : Nat) (l : Nat) (hi : i < L.length)
    (hv : (next L m (pos L i l true)).valid = true) : prev L (next L m (pos L i l true)) = pos L i l true :=
  prev_next L m i l hi (by omega) hv

/-- F10 (known finding): from the end state `operator--` yields the last handle but stays invalid -/
theorem prev_from_end_stays_invalid (L : List Nat) (m : Nat) (hL : L ≠ []) :
    (prev L (endOf m (start L))).valid = false ∧ (prev L (endOf m (start L))).cur = L.getLast? := by
  have hv : (start L).valid = true := (nonempty_is_valid L hL).1
  unfold endOf; simp only [hv, if_true]
  unfold prev start
  simp
  cases L with
  | nil => exact absurd rfl hL
  | cons a t => simp [List.getLast?_eq_getElem?]

/-- lists built by sort + unique: strictly ascending, no duplicates, same members -/
theorem sorted_unique_lists (k : Kernel) (x : Nat) :
    (k.qVF x).Nodup ∧ (k.qVC x).Nodup ∧ (k.qVHF x).Nodup ∧ (k.qHEF x).Nodup ∧ (k.qCC x).Nodup ∧
    (k.qCE x).Nodup ∧ (k.qCV x).Nodup := by
  refine ⟨?_, ?_, sortUniq_nodup _, sortUniq_nodup _, ?_, sortUniq_nodup _, sortUniq_nodup _⟩
  · unfold Kernel.qVF; split <;> first | exact sortUniq_nodup _ | exact List.nodup_nil
  · unfold Kernel.qVC; split <;> first | exact sortUniq_nodup _ | exact List.nodup_nil
  · unfold Kernel.qCC; split <;> first | exact sortUniq_nodup _ | exact List.nodup_nil

/-- membership in a sorted-unique circulator list is membership in the collected relation -/
theorem cell_vertices_members (k : Kernel) (c v : Nat) :
    v ∈ k.qCV c ↔ ∃ hf ∈ k.cellAt c, v ∈ k.qFV (Kernel.eOf hf) := by
  unfold Kernel.qCV; rw [mem_sortUniq]; simp [List.mem_flatMap]

example : visit [4, 7, 9] 2 7 (start [4, 7, 9]) = [4, 7, 9, 4, 7, 9] ∧
    nextN [4, 7, 9] 2 6 (start [4, 7, 9]) = endOf 2 (start [4, 7, 9]) := by decide

example : enumFrom [true, false, true, false, false, true] 6 0 = [1, 3, 4] := by
  rw [entity_iteration]; decide

end OVM.Props.C05

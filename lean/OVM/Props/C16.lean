import OVM.Hex.Spec
/-
  C16 — hexahedral kernel: shape and halfface-order invariants, hex navigation.
  Part 1 is about the tables *generated from the C++ sources* (OVM.Gen.HexTables, T2): an edit of an
  orientation constant, of `opposite_orientation`, of one entry of `orthogonal_orientation`, of
  `orderTop` / `orderBot` or of the offset chains breaks these proofs on the next run.
-/
namespace OVM.Props.C16
open OVM OVM.Kernel OVM.Gen.HexTables

/-! ## Part 1: orientation algebra on the generated tables (kernel `decide` over the complete tables) -/

/-- the constants are the positions of the x-front … z-back convention -/
theorem constants : (XF, XB, YF, YB, ZF, ZB, INVALID) = (0, 1, 2, 3, 4, 5, 6) := by decide

/-- `opposite_orientation` is an involution on the six orientations, without fixed points, and stays
    on the same axis (axis = orientation / 2) -/
theorem opposite_involutive : ∀ o < 6, oppositeOrientation (oppositeOrientation o) = o := by decide
theorem opposite_no_fixed_point : ∀ o < 6, oppositeOrientation o ≠ o ∧ oppositeOrientation o < 6 := by decide
theorem opposite_same_axis : ∀ o < 6, oppositeOrientation o / 2 = o / 2 := by decide
/-- it is the front/back exchange `o xor 1` -/
theorem opposite_eq_xor : ∀ o < 6, oppositeOrientation o = o ^^^ 1 := by decide

/-- `orthogonal_orientation` is defined exactly for two orientations of different axes … -/
theorem orthogonal_valid_iff : ∀ o1 < 6, ∀ o2 < 6, (orthogonalOrientation o1 o2 ≠ INVALID ↔ o1 / 2 ≠ o2 / 2) := by decide
/-- … its value is an orientation of the third axis: the three axes are pairwise distinct -/
theorem orthogonal_axes_distinct : ∀ o1 < 6, ∀ o2 < 6, orthogonalOrientation o1 o2 ≠ INVALID →
    orthogonalOrientation o1 o2 < 6 ∧ orthogonalOrientation o1 o2 / 2 ≠ o1 / 2 ∧
    orthogonalOrientation o1 o2 / 2 ≠ o2 / 2 ∧ o1 / 2 ≠ o2 / 2 := by decide
/-- INVALID is absorbing -/
theorem orthogonal_invalid_arg : ∀ o < 7, orthogonalOrientation INVALID o = INVALID ∧ orthogonalOrientation o INVALID = INVALID := by decide
/-- sign rules: flipping either argument flips the result; exchanging the arguments flips the result -/
theorem orthogonal_opp_left : ∀ o1 < 6, ∀ o2 < 6, o1 / 2 ≠ o2 / 2 →
    orthogonalOrientation (oppositeOrientation o1) o2 = oppositeOrientation (orthogonalOrientation o1 o2) := by decide
theorem orthogonal_opp_right : ∀ o1 < 6, ∀ o2 < 6, o1 / 2 ≠ o2 / 2 →
    orthogonalOrientation o1 (oppositeOrientation o2) = oppositeOrientation (orthogonalOrientation o1 o2) := by decide
theorem orthogonal_antisymm : ∀ o1 < 6, ∀ o2 < 6, o1 / 2 ≠ o2 / 2 →
    orthogonalOrientation o2 o1 = oppositeOrientation (orthogonalOrientation o1 o2) := by decide
/-- handedness: the rule is cyclic (x·y = z ⇒ y·z = x ∧ z·x = y), with XF·YF = ZF fixing the hand -/
theorem orthogonal_cyclic : ∀ o1 < 6, ∀ o2 < 6, o1 / 2 ≠ o2 / 2 →
    orthogonalOrientation o2 (orthogonalOrientation o1 o2) = o1 ∧
    orthogonalOrientation (orthogonalOrientation o1 o2) o1 = o2 := by decide
theorem orthogonal_handedness : orthogonalOrientation XF YF = ZF ∧ orthogonalOrientation YF ZF = XF ∧
    orthogonalOrientation ZF XF = YF := by decide

/-- the order tables of the code are the order of the property text (2,4,3,5 around the first halfface;
    seen from the second halfface the opposite sense 3,4,2,5), the re-ordering path and the check use
    the same table, and the offset chains enumerate exactly these tables -/
theorem order_tables : orderTopCheck = specOrderTop ∧ orderTopAdd = specOrderTop ∧ orderBotCheck = specOrderBot ∧
    offsetTopChain = specOrderTop.zipIdx ∧ offsetBotChain = specOrderBot.zipIdx ∧ topPos = 0 ∧ botPos = 1 := by decide

/-- `orthogonal_orientation` describes the same layout as the order tables: going round the x-front
    (x-back) halfface, after the neighbour `o` comes the neighbour `orthogonal_orientation(XF, o)` -/
theorem orthogonal_matches_order : ∀ i < 4,
    orthogonalOrientation XF (specOrderTop.getD i 0) = specOrderTop.getD ((i + 1) % 4) 0 ∧
    orthogonalOrientation XB (specOrderBot.getD i 0) = specOrderBot.getD ((i + 1) % 4) 0 := by decide

example : orthogonalOrientation XF ZB = YF ∧ orthogonalOrientation ZB XF = YB ∧ oppositeOrientation YF = YB := by decide

end OVM.Props.C16

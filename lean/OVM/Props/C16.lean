import OVM.Hex.Spec
import OVM.Hex.Lemmas
import OVM.Hex.CubePerms
import OVM.Hex.ShapeAll
import OVM.Hex.ConvAll
import OVM.Hex.CubeIso
import OVM.Hex.EightVerts
import OVM.Hex.VerticesGeneral
import OVM.Hex.CheckedConv
import OVM.Hex.VerticesPattern
import OVM.Hex.ApiAll
import OVM.Hex.SheetGeneral
import OVM.Hex.FrameClassify
import OVM.Hex.SheetAdj
import OVM.Hex.FrameB
import OVM.Hex.CubeAllDemo
/-
  C16 — hexahedral kernel: shape and halfface-order invariants, hex navigation.
  Part 1 is about the tables *generated from the C++ sources* (OVM.Gen.HexTables, T2): an edit of an
  orientation constant, of `opposite_orientation`, of one entry of `orthogonal_orientation`, of
  `orderTop` / `orderBot` or of the offset chains breaks these proofs on the next run.
  Part 2: the length part of `HexShape` (four halfedges per face, six halffaces per cell, over all
  slots) is an invariant of EVERY operation of the hexahedral kernel in EVERY deletion mode
  (`all_ops_preserve_len`, history version `shape_run` / `shape_reachable`): the guarded adds (rejected ⇒
  the state itself is returned), `set_*` with four / six handles, the four index swaps, `delete_*` deferred,
  immediate fast and immediate index-shifting, `collect_garbage`, the mode switches.  Immediate index-shifting
  deletion and garbage collection erase slots and *filter* the erased halffaces out of the remaining
  definitions (`fixHalfList`); on the states reachable by valid calls (`Global.GInv`, builders K1-K5:
  exact caches, `oneCell`, upward-closed deletion flags) nothing that survives mentions an erased entity,
  so the filters remove nothing (OVM/Hex/Stable.lean decomposes every operation into the stage lemmas
  of OVM/Refine/Cache*.lean).  The "eight distinct vertices" clause of `HexShape` is judged on the
  implementation's dumps by the oracle `hexShapeB` (OVM/Hex/Judge.lean); see C16J.
  Part 2b: the stored convention `HexConv` of every live cell is an invariant of histories
  (`conv_invariant_step`, `conv_run`): a cell's halfface list never changes after creation except by the
  renumbering bijections of the swaps and of the shifting erase stages, and the convention predicates are
  stated through halfedge incidences and vertices that are renumbered consistently (`conv_transport`,
  `conv_swap_*`, `conv_erase_*`).  `set_edge / set_face / set_cell` overwrite definitions in place and are
  outside this invariant; the unchecked `add_cell(halffaces, false)` stores what it is given.
  Part 3: what the topology-checked `add_cell` stores.  `check_halfface_ordering` accepting implies
  both walk clauses (`checkOrdering_walk`, under the hypothesis that the first halfedge of either of
  the first two halffaces borders a side halfface); the re-ordering path always stores a list whose
  walk clause holds, made of the given halffaces (`reorder_walk`).  The clause "halffaces 2k, 2k+1
  share no vertex" did not follow from acceptance before 7b999c9 (the pinched hexahedron, C16J); since
  that repair the override rejects six quads that do not span exactly eight distinct vertices
  (`pinched_rejected`), every accepted call stores eight distinct vertices (`accepted_cell_spans_eight`,
  `checked_add_cell_eight_distinct`).  Eight vertices are not enough (C16K: a closed surface of six proper quads
  on eight distinct vertices, with both walk clauses, whose first two halffaces share two vertices); since
  7800c85 the checked call rejects a list whose opposite pairs are not vertex-disjoint (`quadSphere_rejected`),
  and an accepted checked call stores a `HexConv` cell (`checked_add_cell_conv`).
  For every cell that is a consistently renamed copy of the standard cube — any state, any handles — every
  one of the 720 permutations of its halfface list is accepted and stored as a `HexConv` re-ordering, and a
  list accepted as given has its first two halffaces vertex-disjoint (`hexCopy_all_permutations_partial`:
  by equivariance of the checked call, OVM/Hex/CubeIso.lean, from the exhaustive run on the standard cube
  `cube_all_permutations_partial`).
  Part 4: orientation / accessors / opposite halfface are the positions of the stored list.
  Part 5: `add_cell(8 vertices)` stores a `HexConv` cell, symbolically, for eight arbitrary distinct vertices of
  any reachable state with unique edges among them, fresh or pre-existing faces in any rotation / side
  (`add_cell_vertices_conv`); hence `conv_run_api`: histories through the public API need no "created in
  convention" assumption for the vertex-based path; `hex_vertices` of the new cell reports the documented pattern
  (`add_cell_vertices_hex_vertices`, symbolic).  The sheet circulators, the orthogonal layout and the two concrete
  cubes: `…_partial` (kernel evaluation on the standard and on a glued cube).
  Summary of what is general and what is not (after builders' rounds 3-4):
  * GENERAL (any reachable state, any deletion mode): lengths (`all_ops_preserve_len`), convention and eight distinct
    vertices of every live cell along histories (`hex_run_api`, `conv_run_api`; renaming invariance `conv_transport`),
    positions / accessors / opposite halfface (Part 4), CellSheetCellIter (`sheet_cells_general`, builder I1) and
    HalfFaceSheetHalfFaceIter (`sheet_halffaces_general`), creation by the checked `add_cell(halffaces)`
    (`checked_add_cell_conv`, `checked_add_cell_eight_distinct`; rejections leave the mesh unchanged), creation by
    `add_cell(8 vertices)` with fresh or pre-existing faces in any rotation / side: convention, eight vertices,
    `orthogonal_orientation` layout, `hex_vertices` pattern (`add_cell_vertices_conv`, `add_cell_vertices_shape_layout`,
    `add_cell_vertices_hex_vertices`), and all 720 permutations of such a hexahedron for all stored rotations
    (`frame_all_permutations`: never rejected, never stored out of convention).
  * CLASSIFICATION (Part 6, builder round 5): a cell accepted by the topology-checked `add_cell(halffaces)` — six valid
    proper loop quads, no hypothesis on other edges — IS a `Frame` (`checked_add_cell_is_frame`; OVM/Hex/QuadBelt.lean,
    FrameClassify.lean), so the `orthogonal_orientation` layout, the `hex_vertices` pattern and "all 720 permutations are
    accepted and stored in convention" hold for it exactly as for cells from `add_cell(8 vertices)`
    (`checked_add_cell_shape_layout`, `checked_add_cell_hex_vertices`, `checked_add_cell_all_permutations`).
  * HISTORIES (Part 8): the cube structure of EVERY live cell (`CubeAll`: convention + closed surface + proper loop quads,
    a renaming-invariant Boolean predicate) is carried through every operation of the public API in every deletion mode
    (`cube_structure_run_api`, on the generic machinery of OVM/Hex/Stable.lean / ConvAll.lean); on the final state every
    live cell has cube cycles and is a `Frame`, so the
    `orthogonal_orientation` layout and the `hex_vertices` pattern hold for every cell of every reachable state, not only
    for the newest one (`layout_on_reachable_states`, `hex_vertices_on_reachable_states`).
  * PARTIAL: `set_edge / set_face / set_cell` and cells stored by the unchecked `add_cell(halffaces, false)` are outside
    (caller's obligation); `adjacent_halfface_on_sheet` is specified (`SheetAdjSpec`, OVM/Hex/SheetAdj.lean) and proved on two glued
    `Frame` cells, both ways of the C++ (Part 7); what it returns when the cell behind the side face is missing, and
    `adjacent_halfface_on_surface`, `neighboring_outside_halfface`, have no specification and are compared model-vs-code only; `add_cell_vertices_cube_partial` /
    `…_glued_partial` remain as evaluated instances.
-/
namespace OVM.Props.C16
open OVM OVM.Kernel OVM.Gen.HexTables OVM.Kernel.HexAll

/-! ## Part 1: orientation algebra on the generated tables (kernel `decide` over the complete tables) -/

/-- the constants are the positions of the x-front … z-back convention -/
theorem constants : (XF, XB, YF, YB, ZF, ZB, INVALID) = (0, 1, 2, 3, 4, 5, 6) := by decide

/-- `opposite_orientation` is an involution on the six orientations, without fixed points, and stays
    on the same axis (axis = orientation / 2) -/
theorem opposite_involutive : ∀ o < 6, oppositeOrientation (oppositeOrientation o) = o := by decide
theorem opposite_no_fixed_point : ∀ o < 6, oppositeOrientation o ≠ o ∧ oppositeOrientation o < 6 := by decide
theorem opposite_same_axis : ∀ o < 6, oppositeOrientation o / 2 = o / 2 := by decide
/-- it is the front/back exchange `o xor 1` -/
theorem opposite_eq_xor : ∀ o < 6, oppositeOrientation o = o ^^^ 1 := by decide

/-- `orthogonal_orientation` is defined exactly for two orientations of different axes … -/
theorem orthogonal_valid_iff : ∀ o1 < 6, ∀ o2 < 6, (orthogonalOrientation o1 o2 ≠ INVALID ↔ o1 / 2 ≠ o2 / 2) := by decide
/-- … its value is an orientation of the third axis: the three axes are pairwise distinct -/
theorem orthogonal_axes_distinct : ∀ o1 < 6, ∀ o2 < 6, orthogonalOrientation o1 o2 ≠ INVALID →
    orthogonalOrientation o1 o2 < 6 ∧ orthogonalOrientation o1 o2 / 2 ≠ o1 / 2 ∧
    orthogonalOrientation o1 o2 / 2 ≠ o2 / 2 ∧ o1 / 2 ≠ o2 / 2 := by decide
/-- INVALID is absorbing -/
theorem orthogonal_invalid_arg : ∀ o < 7, orthogonalOrientation INVALID o = INVALID ∧ orthogonalOrientation o INVALID = INVALID := by decide
/-- sign rules: flipping either argument flips the result; exchanging the arguments flips the result -/
theorem orthogonal_opp_left : ∀ o1 < 6, ∀ o2 < 6, o1 / 2 ≠ o2 / 2 →
    orthogonalOrientation (oppositeOrientation o1) o2 = oppositeOrientation (orthogonalOrientation o1 o2) := by decide
theorem orthogonal_opp_right : ∀ o1 < 6, ∀ o2 < 6, o1 / 2 ≠ o2 / 2 →
    orthogonalOrientation o1 (oppositeOrientation o2) = oppositeOrientation (orthogonalOrientation o1 o2) := by decide
theorem orthogonal_antisymm : ∀ o1 < 6, ∀ o2 < 6, o1 / 2 ≠ o2 / 2 →
    orthogonalOrientation o2 o1 = oppositeOrientation (orthogonalOrientation o1 o2) := by decide
/-- handedness: the rule is cyclic (x·y = z ⇒ y·z = x ∧ z·x = y), with XF·YF = ZF fixing the hand -/
theorem orthogonal_cyclic : ∀ o1 < 6, ∀ o2 < 6, o1 / 2 ≠ o2 / 2 →
    orthogonalOrientation o2 (orthogonalOrientation o1 o2) = o1 ∧
    orthogonalOrientation (orthogonalOrientation o1 o2) o1 = o2 := by decide
theorem orthogonal_handedness : orthogonalOrientation XF YF = ZF ∧ orthogonalOrientation YF ZF = XF ∧
    orthogonalOrientation ZF XF = YF := by decide

/-- the order tables of the code are the order of the property text (2,4,3,5 around the first halfface;
    seen from the second halfface the opposite sense 3,4,2,5), the re-ordering path and the check use
    the same table, and the offset chains enumerate exactly these tables -/
theorem order_tables : orderTopCheck = specOrderTop ∧ orderTopAdd = specOrderTop ∧ orderBotCheck = specOrderBot ∧
    offsetTopChain = specOrderTop.zipIdx ∧ offsetBotChain = specOrderBot.zipIdx ∧ topPos = 0 ∧ botPos = 1 := by decide

/-- `orthogonal_orientation` describes the same layout as the order tables: going round the x-front
    (x-back) halfface, after the neighbour `o` comes the neighbour `orthogonal_orientation(XF, o)` -/
theorem orthogonal_matches_order : ∀ i < 4,
    orthogonalOrientation XF (specOrderTop.getD i 0) = specOrderTop.getD ((i + 1) % 4) 0 ∧
    orthogonalOrientation XB (specOrderBot.getD i 0) = specOrderBot.getD ((i + 1) % 4) 0 := by decide

example : orthogonalOrientation XF ZB = YF ∧ orthogonalOrientation ZB XF = YB ∧ oppositeOrientation YF = YB := by decide

/-! ## Part 2: the length part of HexShape is preserved -/

theorem hexLen_empty : HexLen ({} : Kernel) := by constructor <;> simp

/-- `HexLen` is what the executable test computes -/
theorem hexLen_iff_test (k : Kernel) : HexLen k ↔ k.hexLenB = true := by
  unfold HexLen hexLenB; simp [List.all_eq_true]

/-- a rejected guarded add returns the state itself (every field: definitions, flags, caches, properties) -/
theorem add_face_reject_unchanged (k : Kernel) (hes : List Nat) (chk : Bool)
    (h : (k.hexAddFace hes chk).2 = none) : (k.hexAddFace hes chk).1 = k := hexAddFace_reject_unchanged k hes chk h
theorem add_cell_reject_unchanged (k : Kernel) (hfs : List Nat) (chk : Bool)
    (h : (k.hexAddCell hfs chk).2 = none) : (k.hexAddCell hfs chk).1 = k := hexAddCell_reject_unchanged k hfs chk h

/-- all four adds of the hexahedral kernel keep four halfedges per face and six halffaces per cell,
    for every state and every argument list -/
theorem adds_preserve_len (k : Kernel) (h : HexLen k) :
    (∀ hes chk, HexLen (k.hexAddFace hes chk).1) ∧ (∀ vs, HexLen (k.hexAddFaceV vs).1) ∧
    (∀ hfs chk, HexLen (k.hexAddCell hfs chk).1) ∧ (∀ vs chk, HexLen (k.hexAddCellV vs chk).1) :=
  ⟨fun hes chk => hexAddFace_len k hes chk h, fun vs => hexAddFaceV_len k vs h,
   fun hfs chk => hexAddCell_len k hfs chk h, fun vs chk => hexAddCellV_len k vs chk h⟩

theorem swaps_preserve_len (k : Kernel) (a b : Nat) (h : HexLen k) :
    HexLen (k.swapVertex a b) ∧ HexLen (k.swapEdge a b) ∧ HexLen (k.swapFace a b) ∧ HexLen (k.swapCell a b) :=
  ⟨swapVertex_len k a b h, swapEdge_len k a b h, swapFace_len k a b h, swapCell_len k a b h⟩

/-- `delete_cell` in every deletion mode (deferred, immediate, fast) -/
theorem delete_cell_preserves_len (k : Kernel) (c : Nat) (h : HexLen k) : HexLen (k.deleteCell c) :=
  deleteCellCore_len k c h

/-- deferred deletion of a vertex, edge, face or cell leaves every face and cell definition as it is -/
theorem deferred_delete_preserves_len (k : Kernel) (x : Nat) (hd : k.deferred = true) (h : HexLen k) :
    HexLen (k.deleteCell x) ∧ HexLen (k.deleteFace x) ∧ HexLen (k.deleteEdge x) ∧ HexLen (k.deleteVertex x) := by
  obtain ⟨a, b, c, d⟩ := delete_deferred_sameDefs k x hd
  exact ⟨h.of_eq a.1 a.2.1, h.of_eq b.1 b.2.1, h.of_eq c.1 c.2.1, h.of_eq d.1 d.2.1⟩

/-- non-vacuity: the standard cube satisfies `HexLen`, and a five-halfface list, a list over a
    triangle-free mesh with a wrong count, and a three-halfedge face are rejected unchanged -/
example : HexLen Hex.Cube.kF ∧ (Hex.Cube.kF.hexAddCell [0, 2, 4, 6, 8] true) = (Hex.Cube.kF, none) ∧
    (Hex.Cube.kF.hexAddFace [0, 2, 4] true) = (Hex.Cube.kF, none) ∧
    (Hex.Cube.kF.hexAddCell [0, 2, 4, 6, 8, 11] true) = (Hex.Cube.kF, none) := by
  refine ⟨(hexLen_iff_test _).mpr (by decide +kernel), by decide +kernel, by decide +kernel, by decide +kernel⟩

/-- **every operation of the hexahedral kernel, every deletion mode, every bottom-up configuration**: on
    a state satisfying the global invariant (`Global.GInv`: what every history of valid calls maintains,
    `Global.ginv_reachable`) one valid call keeps four halfedges per face and six halffaces per cell — also
    the immediate index-shifting `delete_face / delete_edge / delete_vertex` and `collect_garbage`.
    `HexOpOK` (OVM/Hex/ShapeAll.lean): `Global.OpOK` + four halfedges for `set_face`, six halffaces for
    `set_cell`, and for `add_cell(8 vertices)` valid vertices and free, distinct halffaces. -/
theorem all_ops_preserve_len (k : Kernel) (op : HexOp) (hi : Global.GInv k) (hok : HexOpOK k op) (h : HexLen k) :
    HexLen (hexStep k op) := hexLen_hexStep k op hi hok h

/-- the global invariant itself is kept by the hex vocabulary (the re-ordered list handed to the base class is
    duplicate-free whenever the base class accepts it) -/
theorem all_ops_preserve_ginv (k : Kernel) (op : HexOp) (hi : Global.GInv k) (hok : HexOpOK k op) :
    Global.GInv (hexStep k op) := ginv_hexStep k op hi hok

/-- history version, no mode restriction -/
theorem shape_run (ops : List HexOp) (k : Kernel) (hi : Global.GInv k) (h : HexLen k) (hr : HexHistoryOK k ops) :
    Global.GInv (hexRun k ops) ∧ HexLen (hexRun k ops) := HexAll.shape_run ops k hi h hr

theorem shape_reachable (ops : List HexOp) (hr : HexHistoryOK {} ops) :
    Global.GInv (hexRun {} ops) ∧ HexLen (hexRun {} ops) := HexAll.shape_reachable ops hr

/-- a history through all the deletion modes: two glued cubes from vertices; immediate index-shifting
    `delete_face` (erases a cell, a face and renumbers); `swap_face_indices`, `swap_edge_indices`; back to
    deferred mode, `delete_vertex` (flags the second cube's closure), `collect_garbage` -/
def demoOps : List HexOp :=
  [.base (.addNVertices 8), .addCellV true [0, 1, 2, 3, 4, 5, 6, 7], .base (.addNVertices 4),
   .addCellV true [7, 11, 10, 6, 4, 5, 9, 8],
   .base (.enableFast false), .base (.enableDeferred false), .base (.deleteFace 10),
   .base (.swapFace 0 4), .base (.swapEdge 1 7), .base (.enableDeferred true), .base (.deleteVertex 9),
   .base .collectGarbage]

/-- non-vacuity of `shape_reachable`: the history is valid, so the theorem applies; the executable test agrees
    (cross-check), one renumbered cell survives -/
example : HexHistoryOK {} demoOps ∧ HexLen (hexRun {} demoOps) ∧ (hexRun {} demoOps).hexLenB = true ∧
    (hexRun {} demoOps).cells = [[8, 2, 4, 6, 0, 10]] ∧ (hexRun {} demoOps).nF = 8 := by
  have h : HexHistoryOK {} demoOps := hexHistoryOK_of_B _ _ (by decide +kernel)
  exact ⟨h, (shape_reachable demoOps h).2, by decide +kernel, by decide +kernel, by decide +kernel⟩

/-! ## Part 2b: the stored convention of the live cells is an invariant of histories -/

/-- **the convention predicate is invariant under a consistent renaming** of what a cell uses: halffaces by
    `ρ`, halfedges by `σ` (commuting with `opp`), vertices by `τ`, `σ` and `τ` injective on the handles the cell
    uses (`R`, `S`) -/
theorem conv_transport {k k' : Kernel} {hfs : List Nat} {ρ σ τ : Nat → Nat} {R S : Nat → Prop}
    (m : CellMap k k' hfs ρ σ τ R S) : k'.hexConvListB (hfs.map ρ) = k.hexConvListB hfs := HexAll.conv_transport m

/-- the four index swaps relabel every live cell consistently (`Closed`: a live cell uses live faces and
    edges, which the cache-guided swaps reach) -/
theorem conv_swap_cell {k : Kernel} (a b : Nat) (hw : WF k) (h1 : k.oneCell = true) (hc : Closed k) (ha : a < k.nC)
    (hb : b < k.nC) (h : ConvAll k) : ConvAll (k.swapCell a b) := stable_convAll.swapC a b hw h1 hc ha hb h
theorem conv_swap_face {k : Kernel} (a b : Nat) (hw : WF k) (h1 : k.oneCell = true) (hc : Closed k) (ha : a < k.nF)
    (hb : b < k.nF) (h : ConvAll k) : ConvAll (k.swapFace a b) := stable_convAll.swapF a b hw h1 hc ha hb h
theorem conv_swap_edge {k : Kernel} (a b : Nat) (hw : WF k) (h1 : k.oneCell = true) (hc : Closed k) (ha : a < k.nE)
    (hb : b < k.nE) (h : ConvAll k) : ConvAll (k.swapEdge a b) := stable_convAll.swapE a b hw h1 hc ha hb h
theorem conv_swap_vertex {k : Kernel} (a b : Nat) (hw : WF k) (h1 : k.oneCell = true) (hc : Closed k) (ha : a < k.nV)
    (hb : b < k.nV) (h : ConvAll k) : ConvAll (k.swapVertex a b) := stable_convAll.swapV a b hw h1 hc ha hb h

/-- the shifting erase stages: a face slot no stored cell uses / an edge slot no stored face uses / a vertex
    slot no stored edge touches is erased and the level above renumbered by `corr2` / `corr1` -/
theorem conv_erase_face {k k' : Kernel} (h : Nat) (hw : WF k) (hh : h < k.nF) (hun : UnrefF k h) (hnV : k'.nV = k.nV)
    (he : k'.edges = k.edges) (hf : k'.faces = k.faces.eraseIdx h)
    (hc : k'.cells = k.cells.map (·.map (corr2 (2 * h + 1)))) (hvd : k'.vDel = k.vDel) (hed : k'.eDel = k.eDel)
    (hfd : k'.fDel = k.fDel.eraseIdx h) (hcd : k'.cDel = k.cDel) (hq : ConvAll k) : ConvAll k' :=
  stable_convAll.eraseF h hw hh hun hnV he hf hc hvd hed hfd hcd hq
theorem conv_erase_edge {k k' : Kernel} (h : Nat) (hw : WF k) (hh : h < k.nE) (hun : UnrefE k h) (hnV : k'.nV = k.nV)
    (he : k'.edges = k.edges.eraseIdx h) (hf : k'.faces = k.faces.map (·.map (corr2 (2 * h + 1))))
    (hc : k'.cells = k.cells) (hvd : k'.vDel = k.vDel) (hed : k'.eDel = k.eDel.eraseIdx h) (hfd : k'.fDel = k.fDel)
    (hcd : k'.cDel = k.cDel) (hq : ConvAll k) : ConvAll k' :=
  stable_convAll.eraseE h hw hh hun hnV he hf hc hvd hed hfd hcd hq
theorem conv_erase_vertex {k k' : Kernel} (h : Nat) (hw : WF k) (hh : h < k.nV) (hun : UnrefV k h)
    (hnV : k'.nV = k.nV - 1) (he : k'.edges = k.edges.map (fun p => (corr1 h p.1, corr1 h p.2)))
    (hf : k'.faces = k.faces) (hc : k'.cells = k.cells) (hvd : k'.vDel = k.vDel.eraseIdx h) (hed : k'.eDel = k.eDel)
    (hfd : k'.fDel = k.fDel) (hcd : k'.cDel = k.cDel) (hq : ConvAll k) : ConvAll k' :=
  stable_convAll.eraseV h hw hh hun hnV he hf hc hvd hed hfd hcd hq

/-- `collect_garbage`, every mode -/
theorem conv_collect_garbage {k : Kernel} (hi : Global.GInv k) (h : ConvAll k) : ConvAll k.collectGarbage :=
  stable_collectGarbage stable_convAll hi h

/-- **one valid call keeps every live cell in convention**, in every deletion mode.  `ConvOpOK`
    (OVM/Hex/ConvAll.lean): a created cell is in convention; `set_*` excluded. -/
theorem conv_invariant_step (k : Kernel) (op : HexOp) (hi : Global.GInv k) (hok : HexOpOK k op) (hc : ConvOpOK k op)
    (h : ConvAll k) : ConvAll (hexStep k op) := convAll_hexStep k op hi hok hc h

theorem conv_run (ops : List HexOp) (k : Kernel) (hi : Global.GInv k) (h : ConvAll k) (hr : ConvHistoryOK k ops) :
    Global.GInv (hexRun k ops) ∧ ConvAll (hexRun k ops) := HexAll.conv_run ops k hi h hr

/-- non-vacuity: the history of Part 2 creates its cells in convention; after the immediate deletion, the two
    swaps and the garbage collection the surviving cell — stored under other handles — is in convention
    (theorem), and the executable predicate agrees (cross-check) -/
example : ConvHistoryOK {} demoOps ∧ ConvAll (hexRun {} demoOps) ∧ (hexRun {} demoOps).liveC 0 = true ∧
    (hexRun {} demoOps).hexConvB 0 = true := by
  have h : ConvHistoryOK {} demoOps := convHistoryOK_of_B _ _ (by decide +kernel)
  have hl : (hexRun {} demoOps).liveC 0 = true := by decide +kernel
  have hc := (HexAll.conv_reachable demoOps h).2
  exact ⟨h, hc, hl, hc 0 hl⟩

/-! ## Part 3: what the topology-checked add_cell stores -/

/-- an accepted call appends exactly one cell of six halffaces, over faces of valence four; it is the
    given list (unchecked, or `check_halfface_ordering` accepted it) or the re-ordered one -/
theorem add_cell_accept (k : Kernel) (hfs : List Nat) (chk : Bool) (c : Nat) (h : (k.hexAddCell hfs chk).2 = some c) :
    c = k.nC ∧ (k.hexAddCell hfs chk).1.faces = k.faces ∧
    ∃ l, (k.hexAddCell hfs chk).1.cells = k.cells ++ [l] ∧ l.length = 6 ∧
      (∀ hf ∈ hfs, (k.faceAt (eOf hf)).length = 4) ∧
      (chk = false ∧ l = hfs ∨ chk = true ∧ l = hfs ∧ k.hexCheckOrdering hfs = true ∨
       chk = true ∧ k.hexCheckOrdering hfs = false ∧ k.hexReorder hfs = some l) :=
  hexAddCell_accept k hfs chk c h

/-- `check_halfface_ordering` accepts ⇒ walking the first halfface meets positions 2,4,3,5 and walking
    the second meets 3,4,2,5 (cyclically, fixed handedness).  Hypothesis: the neighbour across the
    first halfedge of the first (second) halfface exists in the list and is not the second (first)
    halfface.  Without it the C++ check is weaker than HexConv: it only constrains the neighbours
    from the first side halfface it meets onwards. -/
theorem checkOrdering_walk (k : Kernel) (h0 h1 h2 h3 h4 h5 e0 e1 e2 e3 f0 f1 f2 f3 x y : Nat)
    (htop : k.hfHes h0 = [e0, e1, e2, e3]) (hbot : k.hfHes h1 = [f0, f1, f2, f3])
    (hchk : k.hexCheckOrdering [h0, h1, h2, h3, h4, h5] = true)
    (hx : k.hexGetAdj h0 e0 [h0, h1, h2, h3, h4, h5] = some x) (hxb : x ≠ h1)
    (hy : k.hexGetAdj h1 f0 [h0, h1, h2, h3, h4, h5] = some y) (hyt : y ≠ h0) :
    k.hexWalkB [h0, h1, h2, h3, h4, h5] = true ∧ k.hexWalkAtB [h0, h1, h2, h3, h4, h5] 1 specOrderBot = true :=
  Kernel.checkOrdering_walk k h0 h1 h2 h3 h4 h5 e0 e1 e2 e3 f0 f1 f2 f3 x y htop hbot hchk hx hxb hy hyt

/-- the re-ordering path: whatever list of six valence-four halffaces comes in, the list handed to the
    base class keeps the first halfface, consists of halffaces of the given list, and walking its
    first halfface meets positions 2,4,3,5 -/
theorem reorder_walk (k : Kernel) (hfs ord : List Nat) (hne : hfs ≠ []) (h4 : (k.faceAt (eOf (hfs.getD 0 0))).length = 4)
    (h : k.hexReorder hfs = some ord) :
    ord.length = 6 ∧ ord.getD 0 0 = hfs.getD 0 0 ∧ (∀ x ∈ ord, x ∈ hfs) ∧ k.hexWalkB ord = true := by
  have h4' : (k.hfHes (hfs.getD 0 0)).length = 4 := by rw [hfHes_length]; exact h4
  obtain ⟨a, b⟩ := hexReorder_walk k hfs ord h4' h
  exact ⟨hexReorder_length k hfs ord h, b, hexReorder_subset k hfs ord h4' hne h, a⟩

/-- together: a cell accepted by the checked call through the re-ordering path satisfies the walk
    clause *in the new state* -/
theorem checked_add_cell_reordered_walk (k : Kernel) (hfs : List Nat) (c : Nat)
    (h : (k.hexAddCell hfs true).2 = some c) (hno : k.hexCheckOrdering hfs = false) :
    (k.hexAddCell hfs true).1.hexWalkB ((k.hexAddCell hfs true).1.cellAt c) = true := by
  obtain ⟨hc, hf, l, hcells, hl, hv, hcase⟩ := hexAddCell_accept k hfs true c h
  have hne : hfs ≠ [] := by
    intro e; subst e; unfold hexAddCell at h; simp at h
  have hfirst : hfs.getD 0 0 ∈ hfs := by
    cases hfs with
    | nil => exact absurd rfl hne
    | cons a t => simp
  have hre : k.hexReorder hfs = some l := by
    rcases hcase with ⟨e, _⟩ | ⟨_, _, e⟩ | ⟨_, _, e⟩
    · simp at e
    · rw [hno] at e; simp at e
    · exact e
  have hw := (reorder_walk k hfs l hne (hv _ hfirst) hre).2.2.2
  have hcell : (k.hexAddCell hfs true).1.cellAt c = l := by
    unfold cellAt; rw [hcells, hc]; simp [nC]
  rw [hcell]
  unfold hexWalkB
  rw [hexWalkAtB_congr k _ hf]
  exact hw

/-- the pinched hexahedron (two diagonally opposite vertices identified: six proper quads, closed surface,
    7 distinct vertices; C16J, findings/C16-pinched-hex.md) is REJECTED since 7b999c9, by the checked and by the
    unchecked call, and the state is returned unchanged.  It is the new guard that rejects it: the list still
    passes `check_halfface_ordering` and the closed-surface test of the base class, and its first two
    halffaces share a vertex. -/
theorem pinched_rejected :
    let vs := [0, 1, 2, 3, 4, 5, 0, 7]
    let kP := cellVAdd.foldl (fun k a => (k.hexAddFaceV (hexPick vs a.2.1)).1) (({} : Kernel).addNVertices 8)
    kP.hexAddCell [0, 2, 4, 6, 8, 10] true = (kP, none) ∧ kP.hexAddCell [0, 2, 4, 6, 8, 10] false = (kP, none) ∧
    kP.spanVertCount [0, 2, 4, 6, 8, 10] = 7 ∧ kP.hexCheckOrdering [0, 2, 4, 6, 8, 10] = true ∧
    kP.cellCheck [0, 2, 4, 6, 8, 10] = true ∧ kP.hexOppDisjointB [0, 2, 4, 6, 8, 10] = false := by decide +kernel

/-- C16K (findings/C16-quad-sphere-hex.md): the sphere has a second quadrangulation with six proper quads, twelve
    edges and EIGHT distinct vertices (degrees 4,4,3,3,3,3,2,2).  Its faces form a closed surface, both walks of
    `check_halfface_ordering` succeed and the guard of 7b999c9 passes, but its first two halffaces share two
    vertices.  Since 7800c85 the topology-checked call REJECTS it (the guard `oppPairsDisjoint` on the list about
    to be stored) and returns the state unchanged; the unchecked call stores what it is given, as before. -/
theorem quadSphere_rejected :
    let kW := [[0, 1, 2, 3], [4, 0, 5, 2], [1, 0, 4, 6], [3, 2, 5, 7], [2, 1, 6, 4], [0, 3, 7, 5]].foldl
      (fun k vs => (k.hexAddFaceV vs).1) (({} : Kernel).addNVertices 8)
    kW.hexAddCell [0, 2, 4, 6, 8, 10] true = (kW, none) ∧
    kW.hexCheckOrdering [0, 2, 4, 6, 8, 10] = true ∧ kW.cellCheck [0, 2, 4, 6, 8, 10] = true ∧
    kW.spanVertCount [0, 2, 4, 6, 8, 10] = 8 ∧ kW.oppPairsDisjoint [0, 2, 4, 6, 8, 10] = false ∧
    kW.hfVerts 0 = [0, 1, 2, 3] ∧ kW.hfVerts 2 = [4, 0, 5, 2] ∧
    (kW.hexAddCell [0, 2, 4, 6, 8, 10] false).2 = some 0 := by decide +kernel

/-- **an accepted `add_cell(halffaces)` — checked or unchecked — stores six quads that span exactly eight
    distinct vertices** (the guard of 7b999c9, read in the new state) -/
theorem accepted_cell_spans_eight (k : Kernel) (hfs : List Nat) (chk : Bool) (c : Nat)
    (h : (k.hexAddCell hfs chk).2 = some c) :
    (k.hexAddCell hfs chk).1.spanVertCount ((k.hexAddCell hfs chk).1.cellAt c) = 8 :=
  hexAddCell_stored_span k hfs chk c h

/-- **an accepted topology-checked `add_cell(halffaces)` creates a cell with six halffaces and eight distinct
    vertices** — the cell clause of `HexShape`, no hypothesis (on the checked path the base class has verified
    the closed surface, so every target of a halfedge is the source of its opposite) -/
theorem checked_add_cell_eight_distinct (k : Kernel) (hfs : List Nat) (c : Nat)
    (h : (k.hexAddCell hfs true).2 = some c) : (k.hexAddCell hfs true).1.hexCellShapeB c = true :=
  hexAddCell_checked_shape k hfs c h

/-- on the standard cube all 720 permutations of the halfface list are accepted by the checked call
    and stored as a HexConv re-ordering of the given list (`_partial`: this cube only; the general
    statement needs "a permutation of a HexConv list is re-ordered into a HexConv list", of which
    `reorder_walk` is the walk half) -/
theorem cube_all_permutations_partial (p : List Nat) (hp : p.Perm [0, 2, 4, 6, 8, 10]) :
    let r := Hex.Cube.kG.hexAddCell p true
    r.2 = some 0 ∧ r.1.hexConvB 0 = true ∧ (r.1.cellAt 0).Perm p := by
  have hm := Hex.Cube.mem_perms_of_perm Hex.Cube.L p hp
  have hg := List.all_eq_true.mp Hex.Cube.all_perms_good p hm
  unfold Hex.Cube.good at hg
  simp only [Bool.and_eq_true, beq_iff_eq] at hg
  refine ⟨hg.1.1, hg.1.2, ?_⟩
  -- both are permutations of L: equal after sorting
  have h1 : sortL (((Hex.Cube.kG.hexAddCell p true).1).cellAt 0) = Hex.Cube.L := hg.2
  have hs : ∀ l : List Nat, (sortL l).Perm l := by
    intro l; unfold sortL
    induction l with
    | nil => exact List.Perm.refl _
    | cons a t ih =>
      simp only [List.foldr_cons]
      have hi : ∀ (x : Nat) (m : List Nat), (insertDup x m).Perm (x :: m) := by
        intro x m
        induction m with
        | nil => exact List.Perm.refl _
        | cons y ys ihm =>
          unfold insertDup; split
          · exact List.Perm.refl _
          · exact (List.Perm.cons y ihm).trans (List.Perm.swap x y ys)
      exact (hi a _).trans (List.Perm.cons a ih)
  exact ((hs _).symm.trans (h1 ▸ List.Perm.refl _)).trans hp.symm

example : (Hex.Cube.perms Hex.Cube.L).length = 720 := Hex.Cube.perms_count

/-- **an accepted topology-checked `add_cell(halffaces)` stores a cell in convention** (since 7800c85 the list about
    to be stored must have vertex-disjoint opposite pairs; `oppPairs_eq`: that guard, written from the C++, is the
    first clause of `HexConv`).  Through the re-ordering path there is no hypothesis.  A list accepted as given needs
    its first two halffaces to be proper loop quads (`ProperQuad`: four chained halfedges through four distinct
    vertices — what `add_face(vertices)` and the checked `add_face(halfedges)` produce): then the neighbour across the
    first halfedge of either one is a side halfface, which is what `check_halfface_ordering` needs to pin the whole
    walk (`checkOrdering_walk`). -/
theorem checked_add_cell_conv (k : Kernel) (hfs : List Nat) (c : Nat) (h : (k.hexAddCell hfs true).2 = some c)
    (hq : k.hexCheckOrdering hfs = true → ProperQuad k (hfs.getD 0 0) ∧ ProperQuad k (hfs.getD 1 0)) :
    (k.hexAddCell hfs true).1.hexConvB c = true := hexAddCell_checked_conv k hfs c h hq

/-- the re-ordering path alone: no hypothesis -/
theorem checked_add_cell_reordered_conv (k : Kernel) (hfs : List Nat) (c : Nat)
    (h : (k.hexAddCell hfs true).2 = some c) (hno : k.hexCheckOrdering hfs = false) :
    (k.hexAddCell hfs true).1.hexConvB c = true :=
  hexAddCell_checked_conv k hfs c h (fun e => by rw [hno] at e; cases e)

/-- **every permutation of every renamed copy of the standard cube** (any state `k`, any handles: the cell's
    halffaces are `L.map ρ`, its halfedges and vertices the images under `σ`, `τ` of the standard cube's):
    the topology-checked `add_cell` never rejects it and never stores it out of convention — the stored list
    is a `HexConv` re-ordering of the given one — and a list that `check_halfface_ordering` accepts as given
    is stored as given and has its FIRST TWO HALFFACES VERTEX-DISJOINT (a check that tolerated adjacent first
    halffaces would violate this clause).
    `_partial`: the cells covered are the consistently renamed copies of the standard cube of
    OVM/Hex/CubePerms.lean — every hexahedron created by `add_cell(8 vertices)` on fresh faces, at any handles
    and after any renumbering, is one — with each face's halfedge list stored in the same rotation as there.
    Not proved: faces stored in another rotation (glued cells whose shared face pre-existed), and that
    `HexConv` + eight distinct vertices + closed surface forces a cell to be such a copy. -/
theorem hexCopy_all_permutations_partial (k : Kernel) (ρ σ τ : Nat → Nat)
    (m : CubeMap Hex.Cube.kG k Hex.Cube.L ρ σ τ) (p : List Nat) (hp : p.Perm (Hex.Cube.L.map ρ)) :
    (k.hexAddCell p true).2 = some k.nC ∧ (k.hexAddCell p true).1.hexConvB k.nC = true ∧
    ((k.hexAddCell p true).1.cellAt k.nC).Perm p ∧
    (k.hexCheckOrdering p = true → (k.hexAddCell p true).1.cellAt k.nC = p ∧
      disjointL (k.hfVerts (p.getD 0 0)) (k.hfVerts (p.getD 1 0)) = true) :=
  cubeCopy_all_permutations k ρ σ τ m p hp (fun q hq => cube_all_permutations_partial q hq)

/-- a cube at other handles, in a mesh that already holds a triangle: three vertices and a triangle first, then
    the six faces of a cube on the vertices 3 … 10 -/
def kT : Kernel :=
  cellVAdd.foldl (fun k a => (k.hexAddFaceV (hexPick [3, 4, 5, 6, 7, 8, 9, 10] a.2.1)).1)
    (((({} : Kernel).addNVertices 3).addFaceV [0, 1, 2]).1.addNVertices 8)

theorem shift_opp (a : Nat) : (fun x => x + 6) (opp a) = opp ((fun x => x + 6) a) := by
  show opp a + 6 = opp (a + 6)
  unfold opp; rw [xor_one_eq, xor_one_eq]; split <;> split <;> omega

/-- it is a renamed copy of the standard cube: halffaces `+2`, halfedges `+6`, vertices `+3` -/
theorem cubeMap_kT : CubeMap Hex.Cube.kG kT Hex.Cube.L (· + 2) (· + 6) (· + 3) :=
  ⟨by decide +kernel, by decide +kernel, by decide +kernel, shift_opp, fun a b e => by simpa using e, fun a b e => by simpa using e,
   fun a b e => by simpa using e⟩

/-- non-vacuity of `hexCopy_all_permutations_partial`: a mirrored list of the shifted cube is re-ordered (not
    accepted as given), the convention order is accepted as given; cross-check of the stored lists by
    evaluation -/
example :
    ((kT.hexAddCell [2, 4, 6, 8, 12, 10] true).2 = some 0 ∧ (kT.hexAddCell [2, 4, 6, 8, 12, 10] true).1.hexConvB 0 = true) ∧
    (kT.hexAddCell [2, 4, 6, 8, 12, 10] true).1.cellAt 0 = [2, 4, 12, 10, 6, 8] ∧
    kT.hexCheckOrdering [2, 4, 6, 8, 10, 12] = true ∧
    disjointL (kT.hfVerts 2) (kT.hfVerts 4) = true := by
  have h1 := hexCopy_all_permutations_partial kT _ _ _ cubeMap_kT [2, 4, 6, 8, 12, 10] (by decide)
  have h2 := hexCopy_all_permutations_partial kT _ _ _ cubeMap_kT [2, 4, 6, 8, 10, 12] (by decide)
  have hc : kT.hexCheckOrdering [2, 4, 6, 8, 10, 12] = true := by decide +kernel
  have hn : kT.nC = 0 := by decide +kernel
  rw [hn] at h1
  exact ⟨⟨h1.1, h1.2.1⟩, by decide +kernel, hc, (h2.2.2.2 hc).2⟩

/-- non-vacuity of `checkOrdering_walk` and `reorder_walk`: the hypotheses hold on the standard cube
    (convention order accepted by the check; a mirrored order goes through the re-ordering) -/
example : Hex.Cube.kG.hexCheckOrdering [0, 2, 4, 6, 8, 10] = true ∧
    Hex.Cube.kG.hexGetAdj 0 (Hex.Cube.kG.hfHes 0).head! [0, 2, 4, 6, 8, 10] = some 10 ∧
    Hex.Cube.kG.hexGetAdj 2 (Hex.Cube.kG.hfHes 2).head! [0, 2, 4, 6, 8, 10] = some 4 ∧
    Hex.Cube.kG.hexCheckOrdering [0, 2, 4, 6, 10, 8] = false ∧
    Hex.Cube.kG.hexReorder [0, 2, 4, 6, 10, 8] = some [0, 2, 10, 8, 4, 6] := by decide +kernel

/-! ## Part 4: orientation, accessors, opposite halfface -/

/-- the six accessors are the positions 0 … 5 of the stored list (`none` = out of range) -/
theorem accessors_are_positions (k : Kernel) (c : Nat) :
    k.xfrontHalfface c = (k.cellAt c)[0]? ∧ k.xbackHalfface c = (k.cellAt c)[1]? ∧
    k.yfrontHalfface c = (k.cellAt c)[2]? ∧ k.ybackHalfface c = (k.cellAt c)[3]? ∧
    k.zfrontHalfface c = (k.cellAt c)[4]? ∧ k.zbackHalfface c = (k.cellAt c)[5]? := ⟨rfl, rfl, rfl, rfl, rfl, rfl⟩

theorem get_oriented_is_position (k : Kernel) (c o : Nat) (ho : o < 6) : k.getOrientedHalfface o c = (k.cellAt c)[o]? :=
  getOriented_pos k c o ho

/-- `orientation(hf, c)` is the position of `hf` in the stored list, INVALID for a halfface that is
    not in the cell (cells without repeated halffaces) -/
theorem orientation_is_position (k : Kernel) (c i : Nat) (hn : (k.cellAt c).Nodup) (hi : i < (k.cellAt c).length) :
    k.hexOrientation ((k.cellAt c)[i]) c = i := orientation_pos k c i hn hi
theorem orientation_of_foreign (k : Kernel) (c hf : Nat) (h : hf ∉ k.cellAt c) : k.hexOrientation hf c = INVALID :=
  orientation_invalid k c hf h

/-- `opposite_halfface_handle_in_cell` maps position i to position i xor 1 … -/
theorem opposite_in_cell_is_other_of_axis (k : Kernel) (c i : Nat) (hn : (k.cellAt c).Nodup) (hl : (k.cellAt c).length = 6)
    (hi : i < 6) : k.oppositeHalffaceInCell ((k.cellAt c)[i]'(by omega)) c = (k.cellAt c)[i ^^^ 1]? :=
  oppositeInCell_pos k c i hn hl hi

/-- … and is a fixed-point-free involution on the six halffaces of a cell -/
theorem opposite_in_cell_involutive (k : Kernel) (c hf : Nat) (hn : (k.cellAt c).Nodup) (hl : (k.cellAt c).length = 6)
    (hm : hf ∈ k.cellAt c) :
    ∃ r, k.oppositeHalffaceInCell hf c = some r ∧ r ∈ k.cellAt c ∧ r ≠ hf ∧ k.oppositeHalffaceInCell r c = some hf :=
  oppositeInCell_involutive k c hf hn hl hm

/-! ## Part 5: add_cell(8 vertices), hex_vertices and the sheet circulators on concrete cubes -/

/-- **`add_cell(8 vertices)` stores a cell in convention — symbolically**: any state satisfying the reachability
    invariant, eight valid pairwise distinct vertices between any two of which at most one live edge runs
    (`UniqEdges`), every halfface returned by one of the six `find_halfface_extensive` look-ups a closed loop
    (`HfLoop`).  Whether the six faces are fresh, or some pre-exist — found in any rotation and on either side —
    an accepting call stores its six halffaces in the x-front … z-back convention.
    Ingredients (OVM/Hex/FaceSpec.lean, VerticesGeneral.lean): the specification of `add_face(vertices)`
    (`addFaceV_spec`: halfedges run v0→v1→…→v0 on live edges; `add_edge` creates an edge only if none joins the
    two vertices, so edge uniqueness is kept), `opp_of_runs` (with unique edges the halfedge w→u IS the opposite
    of u→w) and `conv_of_cycles` (six loops through the quadruples of the source tables are `HexConv`). -/
theorem add_cell_vertices_conv (k : Kernel) (vs : List Nat) (chk : Bool) (hi : Global.GInv k)
    (hvs : ∀ v ∈ vs, Global.VOk k v) (hd : vs.Nodup) (hu : UniqEdges k vs)
    (hloop : ∀ I ∈ cellVFind, ∀ x, k.findHalffaceExtensive (hexPick vs I) = some x → HfLoop k x)
    (c : Nat) (h : (k.hexAddCellV vs chk).2 = some c) : (k.hexAddCellV vs chk).1.hexConvB c = true :=
  hexAddCellV_conv k vs chk hi hvs hd hu hloop c h

/-- **`hex_vertices` of a cell created by `add_cell(8 vertices)` reports the documented cube pattern — symbolically**
    (same conditions as `add_cell_vertices_conv`, and valid arguments `HexOpOK`: the six halffaces found or created
    are free and distinct): first four = the first halfface's vertices against its cyclic order from the source of
    its first halfedge, last four = the opposite halfface's vertices, positions 0-4, 1-7, 2-6, 3-5 joined by edges of
    the cell, eight distinct vertices (`hexVertsPatternB`, OVM/Hex/Spec.lean).  The walk of `HexVertexIter`
    (`prev_halfedge_in_halfface`, `adjacent_halfface_in_cell`, `next_halfedge_in_halfface`) is evaluated on the
    six loops for an arbitrary stored rotation of every face (OVM/Hex/VerticesPattern.lean: `Frame.hexVertices_eq`;
    which vertex / face / position comes next is decided on the source tables, `tbl_*`). -/
theorem add_cell_vertices_hex_vertices (k : Kernel) (vs : List Nat) (chk : Bool) (hi : Global.GInv k)
    (hok : HexOpOK k (.addCellV chk vs)) (hd : vs.Nodup) (hu : UniqEdges k vs)
    (hloop : ∀ I ∈ cellVFind, ∀ x, k.findHalffaceExtensive (hexPick vs I) = some x → HfLoop k x)
    (c : Nat) (h : (k.hexAddCellV vs chk).2 = some c) :
    ∃ r, (k.hexAddCellV vs chk).1.hexVertices c = some r ∧ (k.hexAddCellV vs chk).1.hexVertsPatternB c r = true :=
  hexAddCellV_pattern k vs chk hi hok hd hu hloop c h

/-- non-vacuity: the second cube of `demoOps`, glued onto the first one through a face that pre-exists in another
    rotation and is used from its other side, satisfies every hypothesis of the two symbolic theorems -/
example :
    let k := hexRun {} (demoOps.take 3)
    let vs := [7, 11, 10, 6, 4, 5, 9, 8]
    (k.hexAddCellV vs true).2 = some 1 ∧ (k.hexAddCellV vs true).1.hexConvB 1 = true ∧
    ∃ r, (k.hexAddCellV vs true).1.hexVertices 1 = some r ∧ (k.hexAddCellV vs true).1.hexVertsPatternB 1 r = true := by
  intro k vs
  have hi : Global.GInv k := (shape_reachable (demoOps.take 3) (hexHistoryOK_of_B _ _ (by decide +kernel))).1
  have hok : HexOpOK k (.addCellV true vs) := hexOpOK_of_B _ _ (by decide +kernel)
  have hu : UniqEdges k vs := uniqEdges_of_B (by decide +kernel)
  have hloop : ∀ I ∈ cellVFind, ∀ x, k.findHalffaceExtensive (hexPick vs I) = some x → HfLoop k x := by
    intro I hI x hx
    have hb : cellVFind.all (fun I => match k.findHalffaceExtensive (hexPick vs I) with | some x => hfLoopB k x | none => true) = true := by
      decide +kernel
    have := List.all_eq_true.mp hb I hI
    rw [hx] at this
    exact hfLoop_of_B this
  have hs : (k.hexAddCellV vs true).2 = some 1 := by decide +kernel
  exact ⟨hs, add_cell_vertices_conv k vs true hi hok.1 (by decide) hu hloop 1 hs,
    add_cell_vertices_hex_vertices k vs true hi hok (by decide) hu hloop 1 hs⟩

/-- the cell created by `add_cell(8 vertices)` has six halffaces and eight distinct vertices, and the layout that
    `orthogonal_orientation` describes (`hexOrthLayoutB`: for two orientations of different axes the halfface at `o1`
    shares exactly one halfedge with the halfface at `o2`, and its next halfedge is shared with the halfface at
    `orthogonal_orientation(o1, o2)`; the generated table is compared with the vertex tables in `tbl_orth`) -/
theorem add_cell_vertices_shape_layout (k : Kernel) (vs : List Nat) (chk : Bool) (hi : Global.GInv k)
    (hok : HexOpOK k (.addCellV chk vs)) (hd : vs.Nodup) (hu : UniqEdges k vs)
    (hloop : ∀ I ∈ cellVFind, ∀ x, k.findHalffaceExtensive (hexPick vs I) = some x → HfLoop k x)
    (c : Nat) (h : (k.hexAddCellV vs chk).2 = some c) :
    (k.hexAddCellV vs chk).1.hexCellShapeB c = true ∧ (k.hexAddCellV vs chk).1.hexOrthLayoutB c = true :=
  ⟨hexAddCellV_shape k vs chk hi hok hd hu hloop c h, hexAddCellV_orthLayout k vs chk hi hok hd hu hloop c h⟩

/-- **every permutation of the halfface list of a hexahedron, whatever the rotations in which its faces are stored**
    (`Frame`: six loop quads through the vertex quadruples of the source tables over eight distinct vertices — every
    cell created by `add_cell(8 vertices)` is one, `hexAddCellV_frame`): the topology-checked `add_cell` accepts it,
    stores a re-arrangement in convention, and a list accepted as given is stored as given with its first two
    halffaces vertex-disjoint; NO permutation is rejected.  (`check_halfface_ordering` and the re-ordering are run on
    the index tables for all 720 arrangements and all stored rotations of the first two faces: `tbl_check`,
    `tbl_reorder_a/b`.)  Generalises `hexCopy_all_permutations_partial` (same rotations as the standard cube). -/
theorem frame_all_permutations {k : Kernel} {vs xs : List Nat} {rot : Nat → Nat} (F : Frame k vs xs rot) (p : List Nat)
    (hp : p.Perm xs) :
    (k.hexAddCell p true).2 = some k.nC ∧ (k.hexAddCell p true).1.hexConvB k.nC = true ∧
    ((k.hexAddCell p true).1.cellAt k.nC).Perm p ∧
    (k.hexCheckOrdering p = true → (k.hexAddCell p true).1.cellAt k.nC = p ∧
      disjointL (k.hfVerts (p.getD 0 0)) (k.hfVerts (p.getD 1 0)) = true) := F.all_permutations p hp

/-- **CellSheetCellIter in general** (builder I1, `Global.sheet_cells_exact`): on a state with the invariant the cells
    reported for a live cell and a direction are exactly the live cells across the halffaces of the other two axes -/
theorem sheet_cells_general {k : Kernel} (hi : Global.GInv k) (hb : k.fBU = true) {c : Nat} (hl : k.liveC c = true)
    {dir : Nat} (hd : dir < 6) :
    k.cellSheetCells c dir = k.sSheetCells c dir ∧ (k.cellSheetCells c dir).Nodup ∧
    ∀ x ∈ k.cellSheetCells c dir, k.liveC x = true := Global.sheet_cells_exact hi hb hl hd

/-- **HalfFaceSheetHalfFaceIter in general**: for a halfface of a live six-halfface cell the halffaces reported are
    exactly the halffaces of the sheet neighbours (the cells across the four halffaces of the other two axes) that
    contain the opposite of one of its halfedges; the judge's brute-force list `sSheetHalffaces` is contained in it -/
theorem sheet_halffaces_general {k : Kernel} (hi : Global.GInv k) (hb : k.fBU = true) {hf c : Nat} (hl : k.liveC c = true)
    (hm : hf ∈ k.cellAt c) (h6 : (k.cellAt c).length = 6) :
    (∀ x, x ∈ (k.halffaceSheetHalffaces hf).map (·.1) ↔
      ∃ n ∈ k.sSheetCells c (k.hexOrientation hf c), x ∈ k.cellAt n ∧ ∃ h ∈ k.hfHes hf, opp h ∈ k.hfHes x) ∧
    (∀ x ∈ k.sSheetHalffaces hf, x ∈ (k.halffaceSheetHalffaces hf).map (·.1)) :=
  ⟨sheet_halffaces_exact hi hb hl hm h6, sSheetHalffaces_sub hi hb hl hm h6⟩

/-- **`HexShape` and `HexConv` along every history through the public API, all deletion modes**: the global
    invariant, four halfedges per face and six halffaces per cell (all slots), every live cell in convention, every
    live cell with eight distinct vertices.  `FullHistoryOK`: valid arguments (`HexOpOK`), `ApiOpOK` (vertex path:
    distinct vertices, unique edges, found faces are loops; checked halfface path: first two halffaces proper loop
    quads when accepted as given), and for the unchecked `add_cell(halffaces, false)` — which stores what it is given —
    "in convention, eight distinct vertices" as the caller's obligation; `set_*` not covered. -/
theorem hex_run_api (ops : List HexOp) (k : Kernel) (hi : Global.GInv k) (hl : HexLen k) (hq : ConvAll k)
    (hs : ShapeAll8 k) (hr : FullHistoryOK k ops) :
    Global.GInv (hexRun k ops) ∧ HexLen (hexRun k ops) ∧ ConvAll (hexRun k ops) ∧ ShapeAll8 (hexRun k ops) :=
  HexAll.hex_run_api ops k hi hl hq hs hr

/-- **histories through the public API**: with valid arguments (`HexOpOK`), cells created by
    `add_cell(8 vertices)` under the conditions of `add_cell_vertices_conv` or by the topology-checked
    `add_cell(halffaces)` on proper loop quads (`ApiOpOK`; only the UNCHECKED `add_cell(halffaces, false)`, which
    stores what it is given, keeps "in convention" as the caller's obligation), every live cell is in convention
    after every history — all deletion modes, `collect_garbage`, swaps -/
theorem conv_run_api (ops : List HexOp) (k : Kernel) (hi : Global.GInv k) (h : ConvAll k) (hr : ApiHistoryOK k ops) :
    Global.GInv (hexRun k ops) ∧ ConvAll (hexRun k ops) := HexAll.conv_run_api ops k hi h hr

/-- non-vacuity: in `demoOps` both cubes come from `add_cell(8 vertices)` — the second one finds the shared face,
    which pre-exists in another rotation and is used from its other side — and the primitive conditions hold at
    each call; no "created in convention" assumption is used -/
example : ApiHistoryOK {} demoOps ∧ ConvAll (hexRun {} demoOps) := by
  have h : ApiHistoryOK {} demoOps := apiHistoryOK_of_B _ _ (by decide +kernel)
  exact ⟨h, (conv_run_api demoOps {} Global.ginv_empty (fun c hl => by unfold liveC nC at hl; simp at hl) h).2⟩

/-- a history that creates its cells through the topology-checked `add_cell(halffaces)`: six quads by
    `add_face(vertices)`, a mirrored list (re-ordered by the call), deferred `delete_cell`, the convention order
    (accepted as given), `collect_garbage`, `swap_face_indices` -/
def demoOps2 : List HexOp :=
  [.base (.addNVertices 8), .base (.addFaceV [3, 2, 1, 0]), .base (.addFaceV [7, 6, 5, 4]), .base (.addFaceV [1, 2, 6, 7]),
   .base (.addFaceV [4, 5, 3, 0]), .base (.addFaceV [1, 7, 4, 0]), .base (.addFaceV [2, 3, 5, 6]),
   .base (.addCell true [0, 2, 4, 6, 10, 8]), .base (.deleteCell 0), .base (.addCell true [0, 2, 4, 6, 8, 10]),
   .base .collectGarbage, .base (.swapFace 0 3)]

/-- non-vacuity of `conv_run_api` for the checked halfface-based path: only "the first two halffaces are proper
    loop quads" is asked at the call that is accepted as given -/
example : ApiHistoryOK {} demoOps2 ∧ ConvAll (hexRun {} demoOps2) ∧ (hexRun {} demoOps2).cells = [[6, 2, 4, 0, 8, 10]] := by
  have h : ApiHistoryOK {} demoOps2 := apiHistoryOK_of_B _ _ (by decide +kernel)
  exact ⟨h, (conv_run_api demoOps2 {} Global.ginv_empty (fun c hl => by unfold liveC nC at hl; simp at hl) h).2,
    by decide +kernel⟩

/-- `add_cell(8 vertices)` on a fresh standard cube: accepted as cell 0 in the convention order; the
    cell is HexConv, the mesh HexShape, the layout agrees with `orthogonal_orientation`, and
    `hex_vertices` yields the documented pattern -/
theorem add_cell_vertices_cube_partial :
    let r := Hex.Cube.k0.hexAddCellV [0, 1, 2, 3, 4, 5, 6, 7] true
    r.2 = some 0 ∧ r.1.cellAt 0 = [0, 2, 4, 6, 8, 10] ∧ r.1.hexConvB 0 = true ∧ r.1.hexShapeB = true ∧
    r.1.hexOrthLayoutB 0 = true ∧ r.1.hexVertices 0 = some [3, 0, 1, 2, 5, 6, 7, 4] ∧
    r.1.hexVertsPatternB 0 [3, 0, 1, 2, 5, 6, 7, 4] = true := by decide +kernel

/-- a second cube glued onto the x-back face of the first, given in another of its 24 orientations (its
    shared face pre-exists in another rotation and is used from its other side): both cells HexConv,
    `hex_vertices` follows the pattern, and the sheet circulators of either cell see the other one
    exactly in the four directions orthogonal to the shared face's axis -/
theorem add_cell_vertices_glued_partial :
    let k1 := (Hex.Cube.k0.hexAddCellV [0, 1, 2, 3, 4, 5, 6, 7] true).1
    let k2 := k1.addNVertices 4
    -- second cube behind the first: front = (4,7,6,5)-side of the first; given rotated
    let r := k2.hexAddCellV [7, 11, 10, 6, 4, 5, 9, 8] true
    r.2 = some 1 ∧ r.1.hexConvB 0 = true ∧ r.1.hexConvB 1 = true ∧ r.1.hexShapeB = true ∧
    r.1.hexOrthLayoutB 1 = true ∧
    (match r.1.hexVertices 1 with | some v => r.1.hexVertsPatternB 1 v | none => false) = true ∧
    (List.range 6).all (fun d => r.1.cellSheetCells 0 d == r.1.sSheetCells 0 d && r.1.cellSheetCells 1 d == r.1.sSheetCells 1 d) = true ∧
    (List.range r.1.nHF).all (fun hf => sortUniq ((r.1.halffaceSheetHalffaces hf).map (·.1)) == r.1.sSheetHalffaces hf) = true ∧
    r.1.cellSheetCells 0 2 = [1] ∧ r.1.cellSheetCells 0 0 = [] := by decide +kernel

/-- non-vacuity: both demo histories (vertex-based creation with a pre-existing rotated face; checked halfface-based
    creation through the re-ordering and as given) satisfy `FullHistoryOK` -/
example : FullHistoryOK {} demoOps ∧ FullHistoryOK {} demoOps2 ∧ ShapeAll8 (hexRun {} demoOps) ∧ ShapeAll8 (hexRun {} demoOps2) := by
  have h1 : FullHistoryOK {} demoOps := full_of_api _ _ (apiHistoryOK_of_B _ _ (by decide +kernel)) (by decide)
  have h2 : FullHistoryOK {} demoOps2 := full_of_api _ _ (apiHistoryOK_of_B _ _ (by decide +kernel)) (by decide)
  exact ⟨h1, h2, (hex_reachable_api demoOps h1).2.2.2, (hex_reachable_api demoOps2 h2).2.2.2⟩

/-! ## Part 6: the classification — a cell accepted by the topology-checked add_cell(halffaces) IS a hexahedron (`Frame`) -/

/-- **the classification theorem.**  On a state satisfying the reachability invariant, let the topology-checked
    `add_cell(halffaces)` accept six valid, live, free halffaces (`HexOpOK`) that are proper loop quads (`ProperQuad`:
    four chained halfedges through four distinct vertices — what `add_face(vertices)` and the checked
    `add_face(halfedges)` produce).  Then the
    stored cell is a `Frame`: there are eight distinct vertices `vs` such that the six stored halffaces are loops through
    the vertex quadruples of the source tables of `add_cell(8 vertices)`, each in some stored rotation `rot i` — i.e.
    the cell is combinatorially the hexahedron, exactly as if it had been created by `add_cell(8 vertices)`; the stored
    list is a permutation of the given one.  Route (OVM/Hex/QuadBelt.lean, FrameClassify.lean): the base class has
    verified the closed surface, the guard of 7800c85 makes the three opposite pairs vertex-disjoint, the walk clause
    puts the four side halffaces around the first one in cyclic order; the reverse of the arc of a side face that
    leaves a top vertex can then lie in the next side face only, and the reverses of the four lower arcs of the side
    faces in the second halfface only (`QB.Belt.classify`; the eight-vertex guard of 7b999c9 is not needed for this).
    No hypothesis on other edges of the mesh: the override has no parallel-edge guard, but the surface being closed, the
    opposite of every halfedge of the cell is the halfedge the tables give (`FrameCore.opp_of_closed`), and a parallel
    edge between two of the cell's vertices that the cell does not use is harmless (`checked_add_cell_frame_parallel_edge`). -/
theorem checked_add_cell_is_frame (k : Kernel) (hfs : List Nat) (c : Nat) (hi : Global.GInv k)
    (hok : HexOpOK k (.base (.addCell true hfs))) (hpq : ∀ hf ∈ hfs, ProperQuad k hf)
    (h : (k.hexAddCell hfs true).2 = some c) :
    ∃ vs rot, Frame (k.hexAddCell hfs true).1 vs ((k.hexAddCell hfs true).1.cellAt c) rot ∧
      ((k.hexAddCell hfs true).1.cellAt c).Perm hfs := by
  obtain ⟨vs, rot, _, F, hp⟩ := hexAddCell_checked_frame k hfs c hi (fun hf hm => (hok.1 hf hm).1) hpq h
  exact ⟨vs, rot, F, hp⟩

/-- **the classification without `UniqEdges`**: whatever other edges the mesh holds, the six halffaces stored by an
    accepted topology-checked `add_cell(halffaces)` on proper loop quads are loops through the vertex quadruples of the
    source tables of `add_cell(8 vertices)` — `(v3,v2,v1,v0)`, `(v7,v6,v5,v4)`, `(v1,v2,v6,v7)`, `(v4,v5,v3,v0)`,
    `(v1,v7,v4,v0)`, `(v2,v3,v5,v6)`, each from some rotation on — over eight distinct vertices (`Cyc`,
    OVM/Hex/VerticesGeneral.lean; read in the state before the call: `add_cell` changes neither faces nor edges).  In
    particular the cell itself never uses two parallel edges, although the override has no parallel-edge guard: its
    twelve edges join twelve different vertex pairs. -/
theorem checked_add_cell_cube_cycles (k : Kernel) (hfs : List Nat) (c : Nat) (hi : Global.GInv k)
    (hok : HexOpOK k (.base (.addCell true hfs))) (hpq : ∀ hf ∈ hfs, ProperQuad k hf)
    (h : (k.hexAddCell hfs true).2 = some c) :
    ∃ x0 x1 x2 x3 x4 x5 v0 v1 v2 v3 v4 v5 v6 v7, (k.hexAddCell hfs true).1.cellAt c = [x0, x1, x2, x3, x4, x5] ∧
      [v0, v1, v2, v3, v4, v5, v6, v7].Nodup ∧
      Cyc k x0 [v3, v2, v1, v0] ∧ Cyc k x1 [v7, v6, v5, v4] ∧ Cyc k x2 [v1, v2, v6, v7] ∧
      Cyc k x3 [v4, v5, v3, v0] ∧ Cyc k x4 [v1, v7, v4, v0] ∧ Cyc k x5 [v2, v3, v5, v6] :=
  hexAddCell_checked_cycles k hfs c hi (fun hf hm => (hok.1 hf hm).1) hpq h

/-- hence the cell has six halffaces, eight distinct vertices and the layout that `orthogonal_orientation` describes … -/
theorem checked_add_cell_shape_layout (k : Kernel) (hfs : List Nat) (c : Nat) (hi : Global.GInv k)
    (hok : HexOpOK k (.base (.addCell true hfs))) (hpq : ∀ hf ∈ hfs, ProperQuad k hf)
    (h : (k.hexAddCell hfs true).2 = some c) :
    (k.hexAddCell hfs true).1.hexCellShapeB c = true ∧ (k.hexAddCell hfs true).1.hexOrthLayoutB c = true :=
  ⟨hexAddCell_checked_shape k hfs c h,
   hexAddCell_checked_orthLayout k hfs c hi (fun hf hm => (hok.1 hf hm).1) hpq h⟩

/-- … `hex_vertices` of the new cell reports the documented cube pattern (face incidences enabled: the walk of
    `HexVertexIter` uses `adjacent_halfface_in_cell`) … -/
theorem checked_add_cell_hex_vertices (k : Kernel) (hfs : List Nat) (c : Nat) (hi : Global.GInv k)
    (hok : HexOpOK k (.base (.addCell true hfs))) (hfb : k.fBU = true) (hpq : ∀ hf ∈ hfs, ProperQuad k hf)
    (h : (k.hexAddCell hfs true).2 = some c) :
    ∃ r, (k.hexAddCell hfs true).1.hexVertices c = some r ∧ (k.hexAddCell hfs true).1.hexVertsPatternB c r = true :=
  hexAddCell_checked_pattern k hfs c hi hok hfb hpq h

/-- … and **if one arrangement of six halffaces is accepted, every one of its 720 permutations is accepted**, stored as a
    re-arrangement in convention, and stored as given exactly when `check_halfface_ordering` accepts it, its first two
    halffaces then being vertex-disjoint: the checked call never rejects a permuted valid list -/
theorem checked_add_cell_all_permutations (k : Kernel) (hfs : List Nat) (c : Nat) (hi : Global.GInv k)
    (hok : HexOpOK k (.base (.addCell true hfs))) (hpq : ∀ hf ∈ hfs, ProperQuad k hf)
    (h : (k.hexAddCell hfs true).2 = some c) (p : List Nat) (hp : p.Perm hfs) :
    (k.hexAddCell p true).2 = some k.nC ∧ (k.hexAddCell p true).1.hexConvB k.nC = true ∧
    ((k.hexAddCell p true).1.cellAt k.nC).Perm p ∧
    (k.hexCheckOrdering p = true → (k.hexAddCell p true).1.cellAt k.nC = p ∧
      disjointL (k.hfVerts (p.getD 0 0)) (k.hfVerts (p.getD 1 0)) = true) :=
  hexAddCell_checked_all_permutations k hfs c hi (fun hf hm => (hok.1 hf hm).1) hpq h p hp

/-- the state of `demoOps2` before its first `add_cell`: eight vertices, six quads by `add_face(vertices)` -/
def kQ : Kernel := hexRun {} (demoOps2.take 7)

/-- non-vacuity: the mirrored list `[0, 2, 4, 6, 10, 8]` of `demoOps2` (re-ordered by the call) satisfies every
    hypothesis of the four theorems; cross-check of the stored list by evaluation -/
example :
    (∃ vs rot, Frame (kQ.hexAddCell [0, 2, 4, 6, 10, 8] true).1 vs ((kQ.hexAddCell [0, 2, 4, 6, 10, 8] true).1.cellAt 0) rot) ∧
    (kQ.hexAddCell [0, 2, 4, 6, 10, 8] true).1.hexOrthLayoutB 0 = true ∧
    (∃ r, (kQ.hexAddCell [0, 2, 4, 6, 10, 8] true).1.hexVertices 0 = some r ∧
      (kQ.hexAddCell [0, 2, 4, 6, 10, 8] true).1.hexVertsPatternB 0 r = true) ∧
    (kQ.hexAddCell [10, 6, 0, 8, 2, 4] true).2 = some 0 ∧
    (kQ.hexAddCell [0, 2, 4, 6, 10, 8] true).1.cellAt 0 = [0, 2, 10, 8, 4, 6] := by
  have hi : Global.GInv kQ := (shape_reachable (demoOps2.take 7) (hexHistoryOK_of_B _ _ (by decide +kernel))).1
  have hok : HexOpOK kQ (.base (.addCell true [0, 2, 4, 6, 10, 8])) := hexOpOK_of_B _ _ (by decide +kernel)
  have hfb : kQ.fBU = true := by decide +kernel
  have hpq : ∀ hf ∈ [0, 2, 4, 6, 10, 8], ProperQuad kQ hf := by
    intro hf hm
    have hb : [0, 2, 4, 6, 10, 8].all (fun hf => properQuadB kQ hf) = true := by decide +kernel
    exact properQuad_of_B (List.all_eq_true.mp hb hf hm)
  have hs : (kQ.hexAddCell [0, 2, 4, 6, 10, 8] true).2 = some 0 := by decide +kernel
  have hn : kQ.nC = 0 := by decide +kernel
  obtain ⟨vs, rot, F, _⟩ := checked_add_cell_is_frame kQ _ 0 hi hok hpq hs
  have hp := (checked_add_cell_all_permutations kQ _ 0 hi hok hpq hs [10, 6, 0, 8, 2, 4] (by decide)).1
  rw [hn] at hp
  exact ⟨⟨vs, rot, F⟩, (checked_add_cell_shape_layout kQ _ 0 hi hok hpq hs).2,
    checked_add_cell_hex_vertices kQ _ 0 hi hok hfb hpq hs, hp, by decide +kernel⟩

/-- the same six quads with a second, parallel edge between the vertices 0 and 1 (`add_edge(v0, v1, allowDuplicates =
    true)`; no face uses it) -/
def opsQ2 : List HexOp := demoOps2.take 7 ++ [.base (.addEdge 0 1 true)]
def kQ2 : Kernel := hexRun {} opsQ2

/-- **a parallel edge does not matter**: with a second live edge between two of the cell's vertices (the hypothesis
    `UniqEdges` of `add_cell_vertices_*` fails on this state) the checked call is accepted and the stored cell is a
    `Frame`, with the layout and the `hex_vertices` pattern (cross-checked by evaluation) -/
theorem checked_add_cell_frame_parallel_edge :
    uniqEdgesB kQ2 [0, 1] = false ∧
    (∃ vs rot, Frame (kQ2.hexAddCell [0, 2, 4, 6, 10, 8] true).1 vs ((kQ2.hexAddCell [0, 2, 4, 6, 10, 8] true).1.cellAt 0) rot) ∧
    (kQ2.hexAddCell [0, 2, 4, 6, 10, 8] true).1.hexOrthLayoutB 0 = true := by
  have hh : HexHistoryOK {} opsQ2 := hexHistoryOK_of_B _ _ (by decide +kernel)
  have hi : Global.GInv kQ2 := (shape_reachable opsQ2 hh).1
  have hok : HexOpOK kQ2 (.base (.addCell true [0, 2, 4, 6, 10, 8])) := hexOpOK_of_B _ _ (by decide +kernel)
  have hpq : ∀ hf ∈ [0, 2, 4, 6, 10, 8], ProperQuad kQ2 hf := by
    intro hf hm
    have hb : [0, 2, 4, 6, 10, 8].all (fun hf => properQuadB kQ2 hf) = true := by decide +kernel
    exact properQuad_of_B (List.all_eq_true.mp hb hf hm)
  have hs : (kQ2.hexAddCell [0, 2, 4, 6, 10, 8] true).2 = some 0 := by decide +kernel
  obtain ⟨vs, rot, F, _⟩ := checked_add_cell_is_frame kQ2 _ 0 hi hok hpq hs
  exact ⟨by decide +kernel, ⟨vs, rot, F⟩, (checked_add_cell_shape_layout kQ2 _ 0 hi hok hpq hs).2⟩

/-- non-vacuity of `checked_add_cell_cube_cycles`: its hypotheses hold on `kQ2`, where a parallel edge joins two of the
    cell's vertices -/
example : ∃ x0 x1 x2 x3 x4 x5 v0 v1 v2 v3 v4 v5 v6 v7,
    (kQ2.hexAddCell [0, 2, 4, 6, 10, 8] true).1.cellAt 0 = [x0, x1, x2, x3, x4, x5] ∧ [v0, v1, v2, v3, v4, v5, v6, v7].Nodup ∧
    Cyc kQ2 x0 [v3, v2, v1, v0] ∧ Cyc kQ2 x1 [v7, v6, v5, v4] ∧ Cyc kQ2 x2 [v1, v2, v6, v7] ∧
    Cyc kQ2 x3 [v4, v5, v3, v0] ∧ Cyc kQ2 x4 [v1, v7, v4, v0] ∧ Cyc kQ2 x5 [v2, v3, v5, v6] := by
  have hh : HexHistoryOK {} opsQ2 := hexHistoryOK_of_B _ _ (by decide +kernel)
  have hi : Global.GInv kQ2 := (shape_reachable opsQ2 hh).1
  have hok : HexOpOK kQ2 (.base (.addCell true [0, 2, 4, 6, 10, 8])) := hexOpOK_of_B _ _ (by decide +kernel)
  have hpq : ∀ hf ∈ [0, 2, 4, 6, 10, 8], ProperQuad kQ2 hf := by
    intro hf hm
    have hb : [0, 2, 4, 6, 10, 8].all (fun hf => properQuadB kQ2 hf) = true := by decide +kernel
    exact properQuad_of_B (List.all_eq_true.mp hb hf hm)
  exact checked_add_cell_cube_cycles kQ2 _ 0 hi hok hpq (by decide +kernel)

/-! ## Part 7: adjacent_halfface_on_sheet on hexahedra -/

/-- **`adjacent_halfface_on_sheet(hf, he)` meets its specification on hexahedra** (hh:286-324, first way).
    `SheetAdjSpec k hf he r` (OVM/Hex/SheetAdj.lean): `hf` lies in a cell `c` and contains `he`; `a` is the halfface of
    `c` on the other side of `he`; `opp a` lies in a cell `n`; `r` is the halfface of `n`, other than `opp a`, that
    contains the opposite of `he` — the continuation of `hf` on the sheet through `he`.
    On a reachable state with face incidences, for two live `Frame` cells `c` (halffaces `xs`) and `n` (halffaces `ys`)
    glued along the side face of `c` across the `j`-th halfedge of `xs[i]`: the function returns such an `r`, and `r` is
    the ONLY halfface of `n` that contains the opposite of that halfedge. -/
theorem adjacent_halfface_on_sheet_inside {k : Kernel} {vs xs ws ys : List Nat} {rot rot' : Nat → Nat}
    (F : Frame k vs xs rot) (G : Frame k ws ys rot') {c n : Nat} (hg : Global.GInv k) (hb : k.fBU = true)
    (hl : k.liveC c = true) (hl' : k.liveC n = true) (hcell : k.cellAt c = xs) (hcell' : k.cellAt n = ys)
    {i j i' : Nat} (hi : i < 6) (hj : j < 4) (hi' : i' < 6)
    (hglue : opp (xs.getD (rev i ((j + rot i) % 4)).1 0) = ys.getD i' 0) :
    ∃ r, k.adjacentHalffaceOnSheet (xs.getD i 0) ((k.hfHes (xs.getD i 0)).getD j 0) = some r ∧
      SheetAdjSpec k (xs.getD i 0) ((k.hfHes (xs.getD i 0)).getD j 0) r ∧
      ∀ r', r' ∈ ys → opp ((k.hfHes (xs.getD i 0)).getD j 0) ∈ k.hfHes r' → r' = r :=
  F.sheet_adj G hb hcell
    (fun i hi => cellOf_of_ginv hg hb hl (by rw [hcell]; exact getD_mem_lt xs i (by rw [F.xlen]; exact hi))) hcell'
    (fun i hi => cellOf_of_ginv hg hb hl' (by rw [hcell']; exact getD_mem_lt ys i (by rw [G.xlen]; exact hi))) hi hj hi' hglue

/-- the second way of the C++: called with a boundary halfface `opp xs[i]` (no incident cell) and the halfedge
    `opp he` it contains, the function walks on the other side and returns the OPPOSITE of the continuation of `xs[i]`
    through `he` -/
theorem adjacent_halfface_on_sheet_boundary {k : Kernel} {vs xs ws ys : List Nat} {rot rot' : Nat → Nat}
    (F : Frame k vs xs rot) (G : Frame k ws ys rot') {c n : Nat} (hg : Global.GInv k) (hb : k.fBU = true)
    (hl : k.liveC c = true) (hl' : k.liveC n = true) (hcell : k.cellAt c = xs) (hcell' : k.cellAt n = ys)
    {i j i' : Nat} (hi : i < 6) (hj : j < 4) (hi' : i' < 6)
    (hglue : opp (xs.getD (rev i ((j + rot i) % 4)).1 0) = ys.getD i' 0)
    (hnone : k.cellOf (opp (xs.getD i 0)) = none) :
    ∃ r, k.adjacentHalffaceOnSheet (opp (xs.getD i 0)) (opp ((k.hfHes (xs.getD i 0)).getD j 0)) = some (opp r) ∧
      SheetAdjSpec k (xs.getD i 0) ((k.hfHes (xs.getD i 0)).getD j 0) r ∧
      ∀ r', r' ∈ ys → opp ((k.hfHes (xs.getD i 0)).getD j 0) ∈ k.hfHes r' → r' = r :=
  F.sheet_adj_boundary G hb hcell
    (fun i hi => cellOf_of_ginv hg hb hl (by rw [hcell]; exact getD_mem_lt xs i (by rw [F.xlen]; exact hi))) hcell'
    (fun i hi => cellOf_of_ginv hg hb hl' (by rw [hcell']; exact getD_mem_lt ys i (by rw [G.xlen]; exact hi))) hi hj hi' hglue hnone

/-- non-vacuity: the two glued cubes of `demoOps` (the second one given rotated, the shared face pre-existing in
    another rotation and used from its other side) are frames (`frameB`, executable test); from halfface 4 of the first
    cube across its third halfedge the continuation is halfface 12 of the second cube, and from the boundary halfface 5
    the answer is 13; cross-check by evaluation -/
example :
    let k := hexRun {} (demoOps.take 4)
    (∃ r, k.adjacentHalffaceOnSheet 4 ((k.hfHes 4).getD 2 0) = some r ∧ SheetAdjSpec k 4 ((k.hfHes 4).getD 2 0) r) ∧
    (∃ r, k.adjacentHalffaceOnSheet 5 (opp ((k.hfHes 4).getD 2 0)) = some (opp r)) ∧
    k.adjacentHalffaceOnSheet 4 ((k.hfHes 4).getD 2 0) = some 12 ∧
    k.adjacentHalffaceOnSheet 5 (opp ((k.hfHes 4).getD 2 0)) = some 13 := by
  intro k
  have hg : Global.GInv k := (shape_reachable (demoOps.take 4) (hexHistoryOK_of_B _ _ (by decide +kernel))).1
  have hb : k.fBU = true := by decide +kernel
  have F : Frame k [0, 1, 2, 3, 4, 5, 6, 7] [0, 2, 4, 6, 8, 10] (fun i => [0, 0, 0, 0, 0, 0].getD i 0) :=
    frame_of_B (by decide +kernel)
  have G : Frame k [7, 11, 10, 6, 4, 5, 9, 8] [12, 14, 16, 3, 18, 20] (fun i => [0, 0, 0, 3, 0, 0].getD i 0) :=
    frame_of_B (by decide +kernel)
  have hl : k.liveC 0 = true := by decide +kernel
  have hl' : k.liveC 1 = true := by decide +kernel
  have hc : k.cellAt 0 = [0, 2, 4, 6, 8, 10] := by decide +kernel
  have hc' : k.cellAt 1 = [12, 14, 16, 3, 18, 20] := by decide +kernel
  have hglue : opp ([0, 2, 4, 6, 8, 10].getD (rev 2 ((2 + (fun i => [0, 0, 0, 0, 0, 0].getD i 0) 2) % 4)).1 0) =
      [12, 14, 16, 3, 18, 20].getD 3 0 := by decide
  obtain ⟨r, h1, h2, _⟩ := adjacent_halfface_on_sheet_inside F G hg hb hl hl' hc hc' (i := 2) (j := 2) (i' := 3)
    (by omega) (by omega) (by omega) hglue
  obtain ⟨r', h3, _⟩ := adjacent_halfface_on_sheet_boundary F G hg hb hl hl' hc hc' (i := 2) (j := 2) (i' := 3)
    (by omega) (by omega) (by omega) hglue (by decide +kernel)
  exact ⟨⟨r, h1, h2⟩, ⟨r', h3⟩, by decide +kernel, by decide +kernel⟩

/-! ## Part 8: the cube structure of EVERY live cell is an invariant of histories -/

/-- **the cube structure of every live cell along every history through the public hex API** — all deletion modes,
    the four index swaps, the shifting erase stages, garbage collection, mode switches.
    `CubeAll k` (OVM/Hex/CubeAll.lean): every live cell's halfface list is in convention, a closed surface, and made of
    proper loop quads (`CubeProp`; a Boolean predicate of the state, invariant under every consistent renaming of
    halffaces / halfedges / vertices: `cubePred`).  `CubeHistoryOK`: valid arguments (`HexOpOK`) and `CubeOpOK` — for
    `add_cell(8 vertices)` the conditions of `add_cell_vertices_conv`, for the topology-checked `add_cell(halffaces)`
    that the given halffaces are proper loop quads, for the UNCHECKED `add_cell(halffaces, false)` — which stores what
    it is given — the predicate itself as the caller's obligation; `set_*` not covered.
    Conclusion: the invariant holds in the final state, and EVERY live cell of it — old or new, whatever happened to its
    handles since it was created — consists of six loops through the vertex quadruples of the source tables of
    `add_cell(8 vertices)` over eight distinct vertices (the classification `cycles_of_conv`, re-run on the final
    state). -/
theorem cube_structure_run_api (ops : List HexOp) (k : Kernel) (hi : Global.GInv k) (hq : CubeAll k)
    (hr : CubeHistoryOK k ops) :
    Global.GInv (hexRun k ops) ∧ CubeAll (hexRun k ops) ∧ ∀ c, (hexRun k ops).liveC c = true →
      ∃ x0 x1 x2 x3 x4 x5 v0 v1 v2 v3 v4 v5 v6 v7, (hexRun k ops).cellAt c = [x0, x1, x2, x3, x4, x5] ∧
        [v0, v1, v2, v3, v4, v5, v6, v7].Nodup ∧
        Cyc (hexRun k ops) x0 [v3, v2, v1, v0] ∧ Cyc (hexRun k ops) x1 [v7, v6, v5, v4] ∧
        Cyc (hexRun k ops) x2 [v1, v2, v6, v7] ∧ Cyc (hexRun k ops) x3 [v4, v5, v3, v0] ∧
        Cyc (hexRun k ops) x4 [v1, v7, v4, v0] ∧ Cyc (hexRun k ops) x5 [v2, v3, v5, v6] := by
  obtain ⟨hg, ha⟩ := cube_run ops k hi hq hr
  exact ⟨hg, ha, fun c hl => cubeAll_cycles hg ha hl⟩

/-- **`orthogonal_orientation` layout on every live cell of every reachable state**: after any history through the
    public API from the empty mesh, every live cell `c` of the final state is a `Frame`, hence has the layout the
    generated `orthogonal_orientation` table describes -/
theorem layout_on_reachable_states (ops : List HexOp) (hr : CubeHistoryOK {} ops) (c : Nat)
    (hl : (hexRun {} ops).liveC c = true) :
    (∃ vs rot, Frame (hexRun {} ops) vs ((hexRun {} ops).cellAt c) rot) ∧ (hexRun {} ops).hexOrthLayoutB c = true := by
  obtain ⟨hg, ha⟩ := cube_run ops {} Global.ginv_empty cubeAll_empty hr
  exact ⟨cubeAll_frame hg ha hl, cubeAll_layout hg ha hl⟩

/-- **`hex_vertices` on every live cell of every reachable state** reports the documented cube pattern (face
    incidences enabled in the final state) -/
theorem hex_vertices_on_reachable_states (ops : List HexOp) (hr : CubeHistoryOK {} ops) (c : Nat)
    (hb : (hexRun {} ops).fBU = true) (hl : (hexRun {} ops).liveC c = true) :
    ∃ r, (hexRun {} ops).hexVertices c = some r ∧ (hexRun {} ops).hexVertsPatternB c r = true := by
  obtain ⟨hg, ha⟩ := cube_run ops {} Global.ginv_empty cubeAll_empty hr
  exact cubeAll_pattern hg ha hb hl

/-- non-vacuity (facts evaluated in OVM/Hex/CubeAllDemo.lean): `cubeDemoOps` = `demoOps` creates two glued cubes,
    deletes the second one by an immediate index-shifting `delete_face`, swaps face and edge indices, deletes a vertex
    in deferred mode and collects garbage; the cell that survives is the OLD first cube under other handles
    (`[8, 2, 4, 6, 0, 10]`), and the three theorems apply to it.  `cubeDemoOps2` = `demoOps2` creates its cells through
    the topology-checked `add_cell(halffaces)`. -/
example : cubeDemoOps = demoOps ∧ cubeDemoOps2 = demoOps2 ∧
    (hexRun {} demoOps).cells = [[8, 2, 4, 6, 0, 10]] ∧ CubeAll (hexRun {} demoOps) ∧ CubeAll (hexRun {} demoOps2) ∧
    (∃ vs rot, Frame (hexRun {} demoOps) vs ((hexRun {} demoOps).cellAt 0) rot) ∧
    (hexRun {} demoOps).hexOrthLayoutB 0 = true ∧
    (∃ r, (hexRun {} demoOps).hexVertices 0 = some r ∧ (hexRun {} demoOps).hexVertsPatternB 0 r = true) ∧
    (hexRun {} demoOps2).hexOrthLayoutB 0 = true := by
  have e1 : cubeDemoOps = demoOps := rfl
  have e2 : cubeDemoOps2 = demoOps2 := rfl
  rw [← e1, ← e2]
  have L := layout_on_reachable_states cubeDemoOps cubeDemo_history 0 cubeDemo_final.2.1
  exact ⟨rfl, rfl, cubeDemo_final.1, (cube_structure_run_api _ _ Global.ginv_empty cubeAll_empty cubeDemo_history).2.1,
    (cube_structure_run_api _ _ Global.ginv_empty cubeAll_empty cubeDemo2_history).2.1, L.1, L.2,
    hex_vertices_on_reachable_states cubeDemoOps cubeDemo_history 0 cubeDemo_final.2.2 cubeDemo_final.2.1,
    (layout_on_reachable_states cubeDemoOps2 cubeDemo2_history 0 cubeDemo2_final.2.1).2⟩

end OVM.Props.C16

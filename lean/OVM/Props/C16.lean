import OVM.Hex.Spec
import OVM.Hex.Lemmas
import OVM.Hex.CubePerms
/-
  C16 — hexahedral kernel: shape and halfface-order invariants, hex navigation.
  Part 1 is about the tables *generated from the C++ sources* (OVM.Gen.HexTables, T2): an edit of an
  orientation constant, of `opposite_orientation`, of one entry of `orthogonal_orientation`, of
  `orderTop` / `orderBot` or of the offset chains breaks these proofs on the next run.
  Part 2: the length part of `HexShape` (four halfedges per face, six halffaces per cell, over all
  slots) is an invariant of the guarded adds (rejected ⇒ the state itself is returned), of the four
  index swaps, of `delete_cell` in every mode and of deferred deletion of anything.  Immediate
  deletion of faces / edges / vertices and garbage collection erase slots and *filter* the erased
  halffaces out of the remaining definitions (`fixHalfList`): there the lengths are preserved only
  on states whose deleted set is upward closed — that invariant is not proved in this tree, so these
  operations, and the "eight distinct vertices" clause, are judged on the implementation's dumps by
  the oracle `hexShapeB` (OVM/Hex/Judge.lean) and not claimed here.
  Part 3: what the topology-checked `add_cell` stores.  `check_halfface_ordering` accepting implies
  both walk clauses (`checkOrdering_walk`, under the hypothesis that the first halfedge of either of
  the first two halffaces borders a side halfface); the re-ordering path always stores a list whose
  walk clause holds, made of the given halffaces (`reorder_walk`).  The clause "halffaces 2k, 2k+1
  share no vertex" does NOT follow from acceptance: `pinched_accepted` is a machine-checked
  counterexample in the model (confirmed on the real code by the correspondence run, reported as
  C16J).  On the standard cube every one of the 720 permutations is re-ordered into a HexConv cell
  (`cube_all_permutations_partial`).
  Part 4: orientation / accessors / opposite halfface are the positions of the stored list.
  Part 5: `add_cell(8 vertices)` and `hex_vertices` on concrete cubes (`…_partial`: symbolic
  computation over eight arbitrary distinct vertices through the find-or-create loops is not done).
-/
namespace OVM.Props.C16
open OVM OVM.Kernel OVM.Gen.HexTables

/-! ## Part 1: orientation algebra on the generated tables (kernel `decide` over the complete tables) -/

/-- the constants are the positions of the x-front … z-back convention -/
theorem constants : (XF, XB, YF, YB, ZF, ZB, INVALID) = (0, 1, 2, 3, 4, 5, 6) := by decide

/-- `opposite_orientation` is an involution on the six orientations, without fixed points, and stays
    on the same axis (axis = orientation / 2) -/
theorem opposite_involutive : ∀ o < 6, oppositeOrientation (oppositeOrientation o) = o := by decide
theorem opposite_no_fixed_point : ∀ o < 6, oppositeOrientation o ≠ o ∧ oppositeOrientation o < 6 := by decide
theorem opposite_same_axis : ∀ o < 6, oppositeOrientation o / 2 = o / 2 := by decide
/-- it is the front/back exchange `o xor 1` -/
theorem opposite_eq_xor : ∀ o < 6, oppositeOrientation o = o ^^^ 1 := by decide

/-- `orthogonal_orientation` is defined exactly for two orientations of different axes … -/
theorem orthogonal_valid_iff : ∀ o1 < 6, ∀ o2 < 6, (orthogonalOrientation o1 o2 ≠ INVALID ↔ o1 / 2 ≠ o2 / 2) := by decide
/-- … its value is an orientation of the third axis: the three axes are pairwise distinct -/
theorem orthogonal_axes_distinct : ∀ o1 < 6, ∀ o2 < 6, orthogonalOrientation o1 o2 ≠ INVALID →
    orthogonalOrientation o1 o2 < 6 ∧ orthogonalOrientation o1 o2 / 2 ≠ o1 / 2 ∧
    orthogonalOrientation o1 o2 / 2 ≠ o2 / 2 ∧ o1 / 2 ≠ o2 / 2 := by decide
/-- INVALID is absorbing -/
theorem orthogonal_invalid_arg : ∀ o < 7, orthogonalOrientation INVALID o = INVALID ∧ orthogonalOrientation o INVALID = INVALID := by decide
/-- sign rules: flipping either argument flips the result; exchanging the arguments flips the result -/
theorem orthogonal_opp_left : ∀ o1 < 6, ∀ o2 < 6, o1 / 2 ≠ o2 / 2 →
    orthogonalOrientation (oppositeOrientation o1) o2 = oppositeOrientation (orthogonalOrientation o1 o2) := by decide
theorem orthogonal_opp_right : ∀ o1 < 6, ∀ o2 < 6, o1 / 2 ≠ o2 / 2 →
    orthogonalOrientation o1 (oppositeOrientation o2) = oppositeOrientation (orthogonalOrientation o1 o2) := by decide
theorem orthogonal_antisymm : ∀ o1 < 6, ∀ o2 < 6, o1 / 2 ≠ o2 / 2 →
    orthogonalOrientation o2 o1 = oppositeOrientation (orthogonalOrientation o1 o2) := by decide
/-- handedness: the rule is cyclic (x·y = z ⇒ y·z = x ∧ z·x = y), with XF·YF = ZF fixing the hand -/
theorem orthogonal_cyclic : ∀ o1 < 6, ∀ o2 < 6, o1 / 2 ≠ o2 / 2 →
    orthogonalOrientation o2 (orthogonalOrientation o1 o2) = o1 ∧
    orthogonalOrientation (orthogonalOrientation o1 o2) o1 = o2 := by decide
theorem orthogonal_handedness : orthogonalOrientation XF YF = ZF ∧ orthogonalOrientation YF ZF = XF ∧
    orthogonalOrientation ZF XF = YF := by decide

/-- the order tables of the code are the order of the property text (2,4,3,5 around the first halfface;
    seen from the second halfface the opposite sense 3,4,2,5), the re-ordering path and the check use
    the same table, and the offset chains enumerate exactly these tables -/
theorem order_tables : orderTopCheck = specOrderTop ∧ orderTopAdd = specOrderTop ∧ orderBotCheck = specOrderBot ∧
    offsetTopChain = specOrderTop.zipIdx ∧ offsetBotChain = specOrderBot.zipIdx ∧ topPos = 0 ∧ botPos = 1 := by decide

/-- `orthogonal_orientation` describes the same layout as the order tables: going round the x-front
    (x-back) halfface, after the neighbour `o` comes the neighbour `orthogonal_orientation(XF, o)` -/
theorem orthogonal_matches_order : ∀ i < 4,
    orthogonalOrientation XF (specOrderTop.getD i 0) = specOrderTop.getD ((i + 1) % 4) 0 ∧
    orthogonalOrientation XB (specOrderBot.getD i 0) = specOrderBot.getD ((i + 1) % 4) 0 := by decide

example : orthogonalOrientation XF ZB = YF ∧ orthogonalOrientation ZB XF = YB ∧ oppositeOrientation YF = YB := by decide

/-! ## Part 2: the length part of HexShape is preserved -/

theorem hexLen_empty : HexLen ({} : Kernel) := by constructor <;> simp

/-- `HexLen` is what the executable test computes -/
theorem hexLen_iff_test (k : Kernel) : HexLen k ↔ k.hexLenB = true := by
  unfold HexLen hexLenB; simp [List.all_eq_true]

/-- a rejected guarded add returns the state itself (every field: definitions, flags, caches, properties) -/
theorem add_face_reject_unchanged (k : Kernel) (hes : List Nat) (chk : Bool)
    (h : (k.hexAddFace hes chk).2 = none) : (k.hexAddFace hes chk).1 = k := hexAddFace_reject_unchanged k hes chk h
theorem add_cell_reject_unchanged (k : Kernel) (hfs : List Nat) (chk : Bool)
    (h : (k.hexAddCell hfs chk).2 = none) : (k.hexAddCell hfs chk).1 = k := hexAddCell_reject_unchanged k hfs chk h

/-- all four adds of the hexahedral kernel keep four halfedges per face and six halffaces per cell,
    for every state and every argument list -/
theorem adds_preserve_len (k : Kernel) (h : HexLen k) :
    (∀ hes chk, HexLen (k.hexAddFace hes chk).1) ∧ (∀ vs, HexLen (k.hexAddFaceV vs).1) ∧
    (∀ hfs chk, HexLen (k.hexAddCell hfs chk).1) ∧ (∀ vs chk, HexLen (k.hexAddCellV vs chk).1) :=
  ⟨fun hes chk => hexAddFace_len k hes chk h, fun vs => hexAddFaceV_len k vs h,
   fun hfs chk => hexAddCell_len k hfs chk h, fun vs chk => hexAddCellV_len k vs chk h⟩

theorem swaps_preserve_len (k : Kernel) (a b : Nat) (h : HexLen k) :
    HexLen (k.swapVertex a b) ∧ HexLen (k.swapEdge a b) ∧ HexLen (k.swapFace a b) ∧ HexLen (k.swapCell a b) :=
  ⟨swapVertex_len k a b h, swapEdge_len k a b h, swapFace_len k a b h, swapCell_len k a b h⟩

/-- `delete_cell` in every deletion mode (deferred, immediate, fast) -/
theorem delete_cell_preserves_len (k : Kernel) (c : Nat) (h : HexLen k) : HexLen (k.deleteCell c) :=
  deleteCellCore_len k c h

/-- deferred deletion of a vertex, edge, face or cell leaves every face and cell definition as it is -/
theorem deferred_delete_preserves_len (k : Kernel) (x : Nat) (hd : k.deferred = true) (h : HexLen k) :
    HexLen (k.deleteCell x) ∧ HexLen (k.deleteFace x) ∧ HexLen (k.deleteEdge x) ∧ HexLen (k.deleteVertex x) := by
  obtain ⟨a, b, c, d⟩ := delete_deferred_sameDefs k x hd
  exact ⟨h.of_eq a.1 a.2.1, h.of_eq b.1 b.2.1, h.of_eq c.1 c.2.1, h.of_eq d.1 d.2.1⟩

/-- non-vacuity: the standard cube satisfies `HexLen`, and a five-halfface list, a list over a
    triangle-free mesh with a wrong count, and a three-halfedge face are rejected unchanged -/
example : HexLen Hex.Cube.kF ∧ (Hex.Cube.kF.hexAddCell [0, 2, 4, 6, 8] true) = (Hex.Cube.kF, none) ∧
    (Hex.Cube.kF.hexAddFace [0, 2, 4] true) = (Hex.Cube.kF, none) ∧
    (Hex.Cube.kF.hexAddCell [0, 2, 4, 6, 8, 11] true) = (Hex.Cube.kF, none) := by
  refine ⟨(hexLen_iff_test _).mpr (by decide +kernel), by decide +kernel, by decide +kernel, by decide +kernel⟩

/-! ## Part 3: what the topology-checked add_cell stores -/

/-- an accepted call appends exactly one cell of six halffaces, over faces of valence four; it is the
    given list (unchecked, or `check_halfface_ordering` accepted it) or the re-ordered one -/
theorem add_cell_accept (k : Kernel) (hfs : List Nat) (chk : Bool) (c : Nat) (h : (k.hexAddCell hfs chk).2 = some c) :
    c = k.nC ∧ (k.hexAddCell hfs chk).1.faces = k.faces ∧
    ∃ l, (k.hexAddCell hfs chk).1.cells = k.cells ++ [l] ∧ l.length = 6 ∧
      (∀ hf ∈ hfs, (k.faceAt (eOf hf)).length = 4) ∧
      (chk = false ∧ l = hfs ∨ chk = true ∧ l = hfs ∧ k.hexCheckOrdering hfs = true ∨
       chk = true ∧ k.hexCheckOrdering hfs = false ∧ k.hexReorder hfs = some l) :=
  hexAddCell_accept k hfs chk c h

/-- `check_halfface_ordering` accepts ⇒ walking the first halfface meets positions 2,4,3,5 and walking
    the second meets 3,4,2,5 (cyclically, fixed handedness).  Hypothesis: the neighbour across the
    first halfedge of the first (second) halfface exists in the list and is not the second (first)
    halfface.  Without it the C++ check is weaker than HexConv: it only constrains the neighbours
    from the first side halfface it meets onwards. -/
theorem checkOrdering_walk (k : Kernel) (h0 h1 h2 h3 h4 h5 e0 e1 e2 e3 f0 f1 f2 f3 x y : Nat)
    (htop : k.hfHes h0 = [e0, e1, e2, e3]) (hbot : k.hfHes h1 = [f0, f1, f2, f3])
    (hchk : k.hexCheckOrdering [h0, h1, h2, h3, h4, h5] = true)
    (hx : k.hexGetAdj h0 e0 [h0, h1, h2, h3, h4, h5] = some x) (hxb : x ≠ h1)
    (hy : k.hexGetAdj h1 f0 [h0, h1, h2, h3, h4, h5] = some y) (hyt : y ≠ h0) :
    k.hexWalkB [h0, h1, h2, h3, h4, h5] = true ∧ k.hexWalkAtB [h0, h1, h2, h3, h4, h5] 1 specOrderBot = true :=
  Kernel.checkOrdering_walk k h0 h1 h2 h3 h4 h5 e0 e1 e2 e3 f0 f1 f2 f3 x y htop hbot hchk hx hxb hy hyt

/-- the re-ordering path: whatever list of six valence-four halffaces comes in, the list handed to the
    base class keeps the first halfface, consists of halffaces of the given list, and walking its
    first halfface meets positions 2,4,3,5 -/
theorem reorder_walk (k : Kernel) (hfs ord : List Nat) (hne : hfs ≠ []) (h4 : (k.faceAt (eOf (hfs.getD 0 0))).length = 4)
    (h : k.hexReorder hfs = some ord) :
    ord.length = 6 ∧ ord.getD 0 0 = hfs.getD 0 0 ∧ (∀ x ∈ ord, x ∈ hfs) ∧ k.hexWalkB ord = true := by
  have h4' : (k.hfHes (hfs.getD 0 0)).length = 4 := by rw [hfHes_length]; exact h4
  obtain ⟨a, b⟩ := hexReorder_walk k hfs ord h4' h
  exact ⟨hexReorder_length k hfs ord h, b, hexReorder_subset k hfs ord h4' hne h, a⟩

/-- together: a cell accepted by the checked call through the re-ordering path satisfies the walk
    clause *in the new state* -/
theorem checked_add_cell_reordered_walk (k : Kernel) (hfs : List Nat) (c : Nat)
    (h : (k.hexAddCell hfs true).2 = some c) (hno : k.hexCheckOrdering hfs = false) :
    (k.hexAddCell hfs true).1.hexWalkB ((k.hexAddCell hfs true).1.cellAt c) = true := by
  obtain ⟨hc, hf, l, hcells, hl, hv, hcase⟩ := hexAddCell_accept k hfs true c h
  have hne : hfs ≠ [] := by
    intro e; subst e; unfold hexAddCell at h; simp at h
  have hfirst : hfs.getD 0 0 ∈ hfs := by
    cases hfs with
    | nil => exact absurd rfl hne
    | cons a t => simp
  have hre : k.hexReorder hfs = some l := by
    rcases hcase with ⟨e, _⟩ | ⟨_, _, e⟩ | ⟨_, _, e⟩
    · simp at e
    · rw [hno] at e; simp at e
    · exact e
  have hw := (reorder_walk k hfs l hne (hv _ hfirst) hre).2.2.2
  have hcell : (k.hexAddCell hfs true).1.cellAt c = l := by
    unfold cellAt; rw [hcells, hc]; simp [nC]
  rw [hcell]
  unfold hexWalkB
  rw [hexWalkAtB_congr k _ hf]
  exact hw

/-- negative witness: a hexahedron with two diagonally opposite vertices identified (six proper quads,
    closed surface, 7 distinct vertices) is accepted by the checked `add_cell`, stored as given, and
    its first two halffaces share a vertex — acceptance does not imply "eight distinct vertices" nor
    the first clause of HexConv -/
theorem pinched_accepted :
    let vs := [0, 1, 2, 3, 4, 5, 0, 7]
    let kP := cellVAdd.foldl (fun k a => (k.hexAddFaceV (hexPick vs a.2.1)).1) (({} : Kernel).addNVertices 8)
    let r := kP.hexAddCell [0, 2, 4, 6, 8, 10] true
    r.2 = some 0 ∧ r.1.cellAt 0 = [0, 2, 4, 6, 8, 10] ∧ (r.1.cellVerts 0).length = 7 ∧
    r.1.hexOppDisjointB (r.1.cellAt 0) = false ∧ r.1.hexWalkB (r.1.cellAt 0) = true := by decide +kernel

/-- on the standard cube all 720 permutations of the halfface list are accepted by the checked call
    and stored as a HexConv re-ordering of the given list (`_partial`: this cube only; the general
    statement needs "a permutation of a HexConv list is re-ordered into a HexConv list", of which
    `reorder_walk` is the walk half) -/
theorem cube_all_permutations_partial (p : List Nat) (hp : p.Perm [0, 2, 4, 6, 8, 10]) :
    let r := Hex.Cube.kG.hexAddCell p true
    r.2 = some 0 ∧ r.1.hexConvB 0 = true ∧ (r.1.cellAt 0).Perm p := by
  have hm := Hex.Cube.mem_perms_of_perm Hex.Cube.L p hp
  have hg := List.all_eq_true.mp Hex.Cube.all_perms_good p hm
  unfold Hex.Cube.good at hg
  simp only [Bool.and_eq_true, beq_iff_eq] at hg
  refine ⟨hg.1.1, hg.1.2, ?_⟩
  -- both are permutations of L: equal after sorting
  have h1 : sortL (((Hex.Cube.kG.hexAddCell p true).1).cellAt 0) = Hex.Cube.L := hg.2
  have hs : ∀ l : List Nat, (sortL l).Perm l := by
    intro l; unfold sortL
    induction l with
    | nil => exact List.Perm.refl _
    | cons a t ih =>
      simp only [List.foldr_cons]
      have hi : ∀ (x : Nat) (m : List Nat), (insertDup x m).Perm (x :: m) := by
        intro x m
        induction m with
        | nil => exact List.Perm.refl _
        | cons y ys ihm =>
          unfold insertDup; split
          · exact List.Perm.refl _
          · exact (List.Perm.cons y ihm).trans (List.Perm.swap x y ys)
      exact (hi a _).trans (List.Perm.cons a ih)
  exact ((hs _).symm.trans (h1 ▸ List.Perm.refl _)).trans hp.symm

example : (Hex.Cube.perms Hex.Cube.L).length = 720 := Hex.Cube.perms_count

/-- non-vacuity of `checkOrdering_walk` and `reorder_walk`: the hypotheses hold on the standard cube
    (convention order accepted by the check; a mirrored order goes through the re-ordering) -/
example : Hex.Cube.kG.hexCheckOrdering [0, 2, 4, 6, 8, 10] = true ∧
    Hex.Cube.kG.hexGetAdj 0 (Hex.Cube.kG.hfHes 0).head! [0, 2, 4, 6, 8, 10] = some 10 ∧
    Hex.Cube.kG.hexGetAdj 2 (Hex.Cube.kG.hfHes 2).head! [0, 2, 4, 6, 8, 10] = some 4 ∧
    Hex.Cube.kG.hexCheckOrdering [0, 2, 4, 6, 10, 8] = false ∧
    Hex.Cube.kG.hexReorder [0, 2, 4, 6, 10, 8] = some [0, 2, 10, 8, 4, 6] := by decide +kernel

/-! ## Part 4: orientation, accessors, opposite halfface -/

/-- the six accessors are the positions 0 … 5 of the stored list (`none` = out of range) -/
theorem accessors_are_positions (k : Kernel) (c : Nat) :
    k.xfrontHalfface c = (k.cellAt c)[0]? ∧ k.xbackHalfface c = (k.cellAt c)[1]? ∧
    k.yfrontHalfface c = (k.cellAt c)[2]? ∧ k.ybackHalfface c = (k.cellAt c)[3]? ∧
    k.zfrontHalfface c = (k.cellAt c)[4]? ∧ k.zbackHalfface c = (k.cellAt c)[5]? := ⟨rfl, rfl, rfl, rfl, rfl, rfl⟩

theorem get_oriented_is_position (k : Kernel) (c o : Nat) (ho : o < 6) : k.getOrientedHalfface o c = (k.cellAt c)[o]? :=
  getOriented_pos k c o ho

/-- `orientation(hf, c)` is the position of `hf` in the stored list, INVALID for a halfface that is
    not in the cell (cells without repeated halffaces) -/
theorem orientation_is_position (k : Kernel) (c i : Nat) (hn : (k.cellAt c).Nodup) (hi : i < (k.cellAt c).length) :
    k.hexOrientation ((k.cellAt c)[i]) c = i := orientation_pos k c i hn hi
theorem orientation_of_foreign (k : Kernel) (c hf : Nat) (h : hf ∉ k.cellAt c) : k.hexOrientation hf c = INVALID :=
  orientation_invalid k c hf h

/-- `opposite_halfface_handle_in_cell` maps position i to position i xor 1 … -/
theorem opposite_in_cell_is_other_of_axis (k : Kernel) (c i : Nat) (hn : (k.cellAt c).Nodup) (hl : (k.cellAt c).length = 6)
    (hi : i < 6) : k.oppositeHalffaceInCell ((k.cellAt c)[i]'(by omega)) c = (k.cellAt c)[i ^^^ 1]? :=
  oppositeInCell_pos k c i hn hl hi

/-- … and is a fixed-point-free involution on the six halffaces of a cell -/
theorem opposite_in_cell_involutive (k : Kernel) (c hf : Nat) (hn : (k.cellAt c).Nodup) (hl : (k.cellAt c).length = 6)
    (hm : hf ∈ k.cellAt c) :
    ∃ r, k.oppositeHalffaceInCell hf c = some r ∧ r ∈ k.cellAt c ∧ r ≠ hf ∧ k.oppositeHalffaceInCell r c = some hf :=
  oppositeInCell_involutive k c hf hn hl hm

/-! ## Part 5: add_cell(8 vertices), hex_vertices and the sheet circulators on concrete cubes -/

/-- `add_cell(8 vertices)` on a fresh standard cube: accepted as cell 0 in the convention order; the
    cell is HexConv, the mesh HexShape, the layout agrees with `orthogonal_orientation`, and
    `hex_vertices` yields the documented pattern -/
theorem add_cell_vertices_cube_partial :
    let r := Hex.Cube.k0.hexAddCellV [0, 1, 2, 3, 4, 5, 6, 7] true
    r.2 = some 0 ∧ r.1.cellAt 0 = [0, 2, 4, 6, 8, 10] ∧ r.1.hexConvB 0 = true ∧ r.1.hexShapeB = true ∧
    r.1.hexOrthLayoutB 0 = true ∧ r.1.hexVertices 0 = some [3, 0, 1, 2, 5, 6, 7, 4] ∧
    r.1.hexVertsPatternB 0 [3, 0, 1, 2, 5, 6, 7, 4] = true := by decide +kernel

/-- a second cube glued onto the x-back face of the first, given in another of its 24 orientations (its
    shared face pre-exists in another rotation and is used from its other side): both cells HexConv,
    `hex_vertices` follows the pattern, and the sheet circulators of either cell see the other one
    exactly in the four directions orthogonal to the shared face's axis -/
theorem add_cell_vertices_glued_partial :
    let k1 := (Hex.Cube.k0.hexAddCellV [0, 1, 2, 3, 4, 5, 6, 7] true).1
    let k2 := k1.addNVertices 4
    -- second cube behind the first: front = (4,7,6,5)-side of the first; given rotated
    let r := k2.hexAddCellV [7, 11, 10, 6, 4, 5, 9, 8] true
    r.2 = some 1 ∧ r.1.hexConvB 0 = true ∧ r.1.hexConvB 1 = true ∧ r.1.hexShapeB = true ∧
    r.1.hexOrthLayoutB 1 = true ∧
    (match r.1.hexVertices 1 with | some v => r.1.hexVertsPatternB 1 v | none => false) = true ∧
    (List.range 6).all (fun d => r.1.cellSheetCells 0 d == r.1.sSheetCells 0 d && r.1.cellSheetCells 1 d == r.1.sSheetCells 1 d) = true ∧
    (List.range r.1.nHF).all (fun hf => sortUniq ((r.1.halffaceSheetHalffaces hf).map (·.1)) == r.1.sSheetHalffaces hf) = true ∧
    r.1.cellSheetCells 0 2 = [1] ∧ r.1.cellSheetCells 0 0 = [] := by decide +kernel

end OVM.Props.C16

import OVM.Kernel.Frames
import OVM.Props.C08
import OVM.Refine.CellCheck
import OVM.Refine.GlobalBU2
/-
  C11 — construction validates.
  Proved here for every mesh state and every argument list:
  * a rejected handle-based `add_face` / `add_cell` and a deduplicated `add_edge` return the
    state itself (equality of the whole record: definitions, flags, caches, properties);
  * an accepted call appends exactly one entity with exactly the given definition;
  * the topology check of `add_face` accepts exactly the closed loops (`C08.ClosedLoop`);
  * `add_edge` without `allowDuplicates` creates an edge only if the search it performs
    (incidence-based or linear over the live edges) found none, and what the linear search
    finds is a live edge between the two vertices in either direction.
  * the topology check of `add_cell` (sort / adjacent_find / unique-by-edge, cc:398-434) accepts
    exactly the closed surfaces (`Kernel.ClosedSurface`, OVM/Refine/CellCheck.lean: no halfedge of
    the given halffaces is used twice and with every used halfedge its opposite is used):
    `add_cell_check_iff_closed_surface`, for every state and every list, no side condition; hence
    `add_cell(hfs, true)` succeeds iff `hfs` is non-empty and a closed surface
    (`addCell_checked_iff_closed_surface`).  The empty list is rejected by the explicit
    `_halffaces.empty()` test (cc:400), although it satisfies the predicate vacuously.
-/
namespace OVM.Props.C11
open OVM OVM.Kernel

/-- rejected `add_face`: the mesh is returned unchanged (the whole record) -/
theorem addFace_reject_unchanged (k : Kernel) (hes : List Nat) (chk : Bool)
    (h : (k.addFace hes chk).2 = none) : (k.addFace hes chk).1 = k := by
  unfold addFace at h ⊢; split at h <;> simp_all

/-- accepted `add_face`: exactly one face with exactly that definition is appended and no other
    definition or flag changes -/
theorem addFace_accept (k : Kernel) (hes : List Nat) (chk : Bool) (f : Nat)
    (h : (k.addFace hes chk).2 = some f) :
    f = k.nF ∧ (k.addFace hes chk).1.faces = k.faces ++ [hes] ∧
    (k.addFace hes chk).1.fDel = k.fDel ++ [false] ∧ (k.addFace hes chk).1.edges = k.edges ∧
    (k.addFace hes chk).1.cells = k.cells ∧ (k.addFace hes chk).1.nV = k.nV ∧
    (k.addFace hes chk).1.eDel = k.eDel ∧ (k.addFace hes chk).1.cDel = k.cDel ∧
    (k.addFace hes chk).1.vDel = k.vDel := by
  unfold addFace at h ⊢; split at h <;> simp_all

/-- the connectivity test computed by `add_face` is closedness of the loop -/
theorem faceLoopOk_iff (k : Kernel) (hes : List Nat) :
    k.faceLoopOk hes = some true ↔ C08.ClosedLoop k hes := by
  unfold faceLoopOk C08.ClosedLoop
  cases hes with
  | nil => simp
  | cons a t =>
    have hne : (a :: t) ≠ [] := by simp
    have hl : (a :: t).getLast? = some ((a :: t).getLast hne) := List.getLast?_eq_some_getLast hne
    rw [hl]
    simp only [List.head?_cons, Option.some.injEq, Bool.and_eq_true, List.all_eq_true, List.mem_range,
      beq_iff_eq, ne_eq, reduceCtorEq, not_false_eq_true, true_and]
    have hlast : (a :: t).getLast hne = (a :: t).getD ((a :: t).length - 1) 0 := by
      rw [List.getLast_eq_getElem]
      simp [List.getD_eq_getElem?_getD]
    constructor
    · rintro ⟨h1, h2⟩ i hi
      by_cases hlt : i + 1 < (a :: t).length
      · rw [Nat.mod_eq_of_lt hlt]; exact h1 i (by omega)
      · have : i + 1 = (a :: t).length := by omega
        rw [this, Nat.mod_self]
        have hi' : i = (a :: t).length - 1 := by omega
        rw [hi', ← hlast]; simpa using h2
    · intro h
      constructor
      · intro i hi
        have := h i (by omega)
        rwa [Nat.mod_eq_of_lt (by omega)] at this
      · have := h ((a :: t).length - 1) (by simp)
        have e : ((a :: t).length - 1 + 1) % (a :: t).length = 0 := by
          have : (a :: t).length - 1 + 1 = (a :: t).length := by simp
          rw [this, Nat.mod_self]
        rw [e, ← hlast] at this
        simpa using this

/-- `add_face` with topology check succeeds exactly on closed loops -/
theorem addFace_checked_iff (k : Kernel) (hes : List Nat) :
    (k.addFace hes true).2 ≠ none ↔ C08.ClosedLoop k hes := by
  rw [← faceLoopOk_iff]
  unfold addFace addFaceAccepts
  cases h : k.faceLoopOk hes with
  | none => simp
  | some b => cases b <;> simp

/-- rejected `add_cell`: the mesh is returned unchanged -/
theorem addCell_reject_unchanged (k : Kernel) (hfs : List Nat) (chk : Bool)
    (h : (k.addCell hfs chk).2 = none) : (k.addCell hfs chk).1 = k := by
  unfold addCell at h ⊢; split at h <;> simp_all

/-- accepted `add_cell`: exactly one cell with exactly that definition is appended; no other
    definition or flag changes -/
theorem addCell_accept (k : Kernel) (hfs : List Nat) (chk : Bool) (c : Nat)
    (h : (k.addCell hfs chk).2 = some c) :
    c = k.nC ∧ (k.addCell hfs chk).1.cells = k.cells ++ [hfs] ∧ (k.addCell hfs chk).1.cDel = k.cDel ++ [false] ∧
    (k.addCell hfs chk).1.faces = k.faces ∧ (k.addCell hfs chk).1.edges = k.edges ∧
    (k.addCell hfs chk).1.nV = k.nV ∧ (k.addCell hfs chk).1.fDel = k.fDel ∧
    (k.addCell hfs chk).1.eDel = k.eDel ∧ (k.addCell hfs chk).1.vDel = k.vDel := by
  unfold addCell at h ⊢; split at h <;> simp_all

/-- `add_cell` with topology check succeeds exactly when the list is non-empty and the check
    (sort, adjacent_find, unique-by-edge) accepts -/
theorem addCell_checked_iff (k : Kernel) (hfs : List Nat) :
    (k.addCell hfs true).2 ≠ none ↔ (hfs ≠ [] ∧ k.cellCheck hfs = true) := by
  unfold addCell addCellAccepts
  cases hfs with
  | nil => simp
  | cons a t => by_cases hc : k.cellCheck (a :: t) = true <;> simp [hc]

/-- **the check computed by `add_cell` is the closed-surface predicate**: for every mesh state and
    every list of halffaces, sorting all their halfedges, finding no two equal neighbours and
    counting `#halfedges = 2 * #distinct edges` holds exactly when no halfedge is used twice and
    every used halfedge has its opposite used (hence, exactly once).  No hypothesis on `k` or `hfs`
    (handles may be out of range, faces degenerate, a face may contain a halfedge together with
    its opposite, both halffaces of a face may be listed). -/
theorem add_cell_check_iff_closed_surface (k : Kernel) (hfs : List Nat) :
    k.cellCheck hfs = true ↔ ClosedSurface k hfs := cellCheck_iff k hfs

/-- `ClosedSurface` says "matched exactly once": every halfedge of the halffaces occurs once and
    its opposite occurs once among the halfedges of the halffaces -/
theorem closedSurface_matched_once (k : Kernel) (hfs : List Nat) :
    ClosedSurface k hfs ↔
      ∀ h ∈ k.cellHalfedges hfs,
        (k.cellHalfedges hfs).count h = 1 ∧ (k.cellHalfedges hfs).count (opp h) = 1 :=
  closedSurface_iff_count k hfs

/-- `add_cell` with topology check succeeds exactly on the non-empty closed surfaces; the empty
    list (vacuously closed) is rejected by the explicit test at cc:400 -/
theorem addCell_checked_iff_closed_surface (k : Kernel) (hfs : List Nat) :
    (k.addCell hfs true).2 ≠ none ↔ (hfs ≠ [] ∧ ClosedSurface k hfs) := by
  rw [addCell_checked_iff, add_cell_check_iff_closed_surface]

/-- accepted and rejected calls in terms of the predicate: a non-empty closed surface becomes the
    new cell `nC` with exactly that definition; anything else leaves the mesh unchanged -/
theorem addCell_checked_spec (k : Kernel) (hfs : List Nat) :
    (hfs ≠ [] ∧ ClosedSurface k hfs ∧ (k.addCell hfs true).2 = some k.nC ∧
        (k.addCell hfs true).1.cells = k.cells ++ [hfs]) ∨
    (¬ (hfs ≠ [] ∧ ClosedSurface k hfs) ∧ k.addCell hfs true = (k, none)) := by
  by_cases h : hfs ≠ [] ∧ ClosedSurface k hfs
  · left
    have hacc := (addCell_checked_iff_closed_surface k hfs).mpr h
    cases hr : (k.addCell hfs true).2 with
    | none => exact absurd hr hacc
    | some c =>
      have := addCell_accept k hfs true c hr
      exact ⟨h.1, h.2, by rw [this.1], this.2.1⟩
  · right
    refine ⟨h, ?_⟩
    have hr : (k.addCell hfs true).2 = none := by
      by_cases hn : (k.addCell hfs true).2 = none
      · exact hn
      · exact absurd ((addCell_checked_iff_closed_surface k hfs).mp hn) h
    exact Prod.ext (addCell_reject_unchanged k hfs true hr) hr

/-- `add_edge`: either an existing handle comes back and the mesh is returned unchanged, or
    exactly the edge `(a,b)` is appended and nothing else is redefined -/
theorem addEdge_spec (k : Kernel) (a b : Nat) (dup : Bool) :
    (∃ e, k.findEdge a b dup = some e ∧ (k.addEdge a b dup) = (k, e)) ∨
    (k.findEdge a b dup = none ∧ (k.addEdge a b dup).2 = k.nE ∧
     (k.addEdge a b dup).1.edges = k.edges ++ [(a, b)] ∧
     (k.addEdge a b dup).1.eDel = k.eDel ++ [false] ∧ (k.addEdge a b dup).1.faces = k.faces ∧
     (k.addEdge a b dup).1.cells = k.cells ∧ (k.addEdge a b dup).1.nV = k.nV) := by
  unfold addEdge
  cases h : k.findEdge a b dup with
  | some e => left; exact ⟨e, rfl, rfl⟩
  | none => right; simp

/-- what the linear duplicate search returns is a *live* edge between the two vertices, in
    either direction (this is where a deferred-deleted edge used to be returned) -/
theorem findEdgeScan_sound (k : Kernel) (a b e : Nat) (h : k.findEdgeScan a b = some e) :
    e < k.nE ∧ k.eDeleted e = false ∧
    ((k.edgeAt e = (a, b)) ∨ (k.edgeAt e = (b, a))) := by
  unfold findEdgeScan at h
  have hm := List.mem_of_find?_eq_some h
  have hp := List.find?_some h
  simp only [List.mem_range] at hm
  simp only [Bool.and_eq_true, Bool.not_eq_true', Bool.or_eq_true, beq_iff_eq] at hp
  refine ⟨hm, hp.1, ?_⟩
  rcases hp.2 with ⟨h1, h2⟩ | ⟨h1, h2⟩
  · left; exact Prod.ext h1 h2
  · right; exact Prod.ext h1 h2

/-- the linear search is complete: if some live edge joins the two vertices it finds one -/
theorem findEdgeScan_complete (k : Kernel) (a b e : Nat) (he : e < k.nE) (hl : k.eDeleted e = false)
    (hd : k.edgeAt e = (a, b) ∨ k.edgeAt e = (b, a)) : (k.findEdgeScan a b).isSome = true := by
  unfold findEdgeScan
  rw [List.find?_isSome]
  refine ⟨e, List.mem_range.mpr he, ?_⟩
  rcases hd with h | h <;> simp [h, hl]

/-- what the incidence-based search returns is an edge whose halfedge in the vertex's list
    ends at the requested vertex -/
theorem findEdgeBU_sound (k : Kernel) (a b e : Nat) (h : k.findEdgeBU a b = some e) :
    ∃ he ∈ k.outOf a, k.toV he = b ∧ e = he / 2 := by
  obtain ⟨x, hx, ht, he⟩ := findEdgeBU_some h
  exact ⟨x, hx, ht, he.symm⟩

/-- **the duplicate search of `add_edge` is independent of the vertex incidences** (since 8c92632): under the cache
    invariant of the vertex kind, for an existing vertex `a`, the search through `outgoing_hes_per_vertex_[a]` and the
    linear scan over the live edges return the same edge — the live edge joining `a` and `b` (either direction) with
    the smallest index — or both nothing.  (Before the fix the cached search returned the first match in CACHE order:
    /verif/findings/C12-add-edge-duplicate-order.md.) -/
theorem add_edge_search_independent_of_incidences (k : Kernel) (hV : CacheInvV k) (hb : k.vBU = true)
    (a b : Nat) (ha : a < k.nV) : k.findEdgeBU a b = k.findEdgeScan a b :=
  Global.findEdgeBU_eq_scan hV hb ha b

/-- … hence two meshes that differ only in their bottom-up caches / enabled kinds (`Global.SameDefs`) answer
    `add_edge` with the same handle and the same resulting mesh -/
theorem add_edge_result_independent_of_incidences (k1 k2 : Kernel) (s : Global.SameDefs k1 k2) (w1 : WF k1) (w2 : WF k2)
    (a b : Nat) (ha : a < k1.nV) (dup : Bool) :
    (k1.addEdge a b dup).2 = (k2.addEdge a b dup).2 ∧ Global.SameDefs (k1.addEdge a b dup).1 (k2.addEdge a b dup).1 :=
  ⟨(Global.same_addEdge s w1 w2 ha b dup).2, (Global.same_addEdge s w1 w2 ha b dup).1⟩

/-- non-vacuity of the two theorems above: duplicate live edges listed in reverse order in the cache -/
example :
    let k := run {} [.addNVertices 3, .addEdge 0 1 false, .addEdge 0 1 true, .swapEdge 0 1]
    k.outOf 0 = [2, 0] ∧ k.findEdgeBU 0 1 = some 0 ∧ k.findEdgeScan 0 1 = some 0 ∧ k.findEdgeBU 1 2 = none := by decide

/-- non-vacuity: a closed triangle is accepted, an open chain rejected with the state unchanged,
    and a tetrahedron's four halffaces pass `add_cell`'s check while three of them do not -/
example :
    let k : Kernel := { nV := 3, edges := [(0, 1), (1, 2), (2, 0)], eDel := [false, false, false],
                        vDel := [false, false, false], vBU := false, eBU := false, fBU := false }
    (k.addFace [0, 2, 4] true).2 = some 0 ∧ (k.addFace [0, 2] true) = (k, none) ∧
    (k.addEdge 1 0 false) = (k, 0) ∧ (k.addEdge 1 0 true).2 = 3 := by decide

example :
    let k : Kernel := { nV := 4, edges := [(0, 1), (1, 2), (2, 0), (0, 3), (1, 3), (2, 3)],
                        faces := [[0, 2, 4], [0, 8, 7], [2, 10, 9], [4, 6, 11]],
                        eDel := List.replicate 6 false, fDel := List.replicate 4 false, vDel := List.replicate 4 false,
                        vBU := false, eBU := false, fBU := false }
    k.cellCheck [1, 2, 4, 6] = true ∧ k.cellCheck [1, 2, 4] = false ∧ k.cellCheck [1, 2, 4, 6, 6] = false := by decide

/-- non-vacuity of `add_cell_check_iff_closed_surface` (the predicate evaluated directly, not via
    the check): the four halffaces of a tetrahedron form a closed surface, an open triple does
    not, a list with a doubled halfface does not, both halffaces of one face do (a "pillow",
    which the check accepts as well), the empty list does vacuously and is still rejected, and a
    face running along an edge and back (a halfedge with its opposite in the same face) is closed
    in this sense and accepted -/
example :
    let k : Kernel := { nV := 4, edges := [(0, 1), (1, 2), (2, 0), (0, 3), (1, 3), (2, 3)],
                        faces := [[0, 2, 4], [0, 8, 7], [2, 10, 9], [4, 6, 11], [0, 1]],
                        eDel := List.replicate 6 false, fDel := List.replicate 5 false, vDel := List.replicate 4 false,
                        vBU := false, eBU := false, fBU := false }
    ClosedSurface k [1, 2, 4, 6] ∧ ¬ ClosedSurface k [1, 2, 4] ∧ ¬ ClosedSurface k [1, 2, 4, 6, 6] ∧
    ClosedSurface k [0, 1] ∧ ClosedSurface k [] ∧ (k.addCell [] true).2 = none ∧
    ClosedSurface k [8] ∧ (k.addCell [8] true).2 = some 0 ∧
    (k.addCell [1, 2, 4, 6] true).2 = some 0 ∧ k.addCell [1, 2, 4] true = (k, none) := by decide

end OVM.Props.C11

import OVM.Kernel.Lookup
import OVM.Refine.Inv
import OVM.Refine.LookupLemmas
import OVM.Refine.ReachLookups
/-
  C10 — lookup queries are sound and complete.
  Proved here for every state satisfying the cache invariant (lookups only read caches and
  definitions):
  * `find_halfedge(a,b)`: a returned halfedge is a live halfedge from `a` to `b`; `Invalid` is
    returned only if no live halfedge goes from `a` to `b` (soundness + completeness);
  * `find_halfface(he0, he1)`: a returned halfface is live and contains both halfedges; `Invalid`
    only if no live halfface contains both;
  * `find_halfface(v0,v1,v2)` is sound; it is complete when the halfedges `v0→v1`, `v1→v2` are unique
    (with parallel duplicate edges the two-stage lookup can miss a face: DESIGN F11);
  * `is_incident`, `next/prev_halfedge_in_halfface` basic facts
    (next/prev as cyclic successor/predecessor: Props/C08 `next_prev_inverse`, Refine/NextPrev).
  Second part (lemmas in OVM/Refine/LookupLemmas.lean, sample state `twoTets`):
  * `find_halfface_in_cell`: `findHalffaceInCell_sound` — a returned halfface is a halfface of the given cell
    and runs `v0→v1→v2` (needs the `incident_cell_per_hf_` clause of the cache invariant and that no other
    live cell lists a halfface of the cell; witness that this is needed); `findHalffaceInCell_complete`
    (no hypothesis); `findHalffaceInCell_none_iff`; vertex forms `findHalffaceInCell_sound_verts`,
    `findHalffaceInCell_complete_verts_partial`; `findHalffaceInCell_next_valid` (no read through an
    invalid handle).  Only the first three vertices are read.
  * `get_halfface_vertices(hf, vh)` / `(hf, heh)`: `hfVertsFrom_spec`, `hfVertsFromHe_spec`.
  * `find_halfface(v0,v1,v2,…)`: `findHalffaceV_complete_partial` under uniqueness of both halfedges
    (`uniqHe`), with `decide` witnesses that each uniqueness hypothesis is necessary (F11).
  * `n_vertices_in_cell`: `nVerticesInCell_spec`.
  * `find_halfedge_in_cell`: `findHalfedgeInCell_spec` (sound and complete, every state),
    `findHalfedgeInCell_mem_closed`.
  * `find_halfface_extensive`: `findHalffaceExtensive_sound` (the whole vertex cycle, up to rotation),
    `findHalffaceExtensive_complete_partial`.
  Third part (last section, lemmas in OVM/Refine/FaceLoopStep.lean, OVM/Refine/ReachLookups.lean): ON REACHABLE STATES.
  `lookups_on_reachable_states` — after every history of valid calls from the empty mesh that respects `Global.LoopOK`
  every lookup is sound and complete as bundled in `Lookups`, with hypotheses on the ARGUMENTS only (`uniqHe`: F11;
  duplicate-free halfface or vertex tuple; live cell); `cells_closed_on_reachable_states`,
  `lookups_in_closed_cells_on_reachable_states` — cells built with topology check stay `ClosedSurface` along histories.
-/
namespace OVM.Props.C10
open OVM OVM.Kernel

/-- membership in the outgoing list is being a live halfedge that starts at the vertex -/
theorem mem_sOut (k : Kernel) (v h : Nat) :
    h ∈ k.sOut v ↔ (h < k.nHE ∧ k.liveE (eOf h) = true ∧ k.fromV h = v) := by
  unfold sOut liveHes
  simp only [List.mem_filter, List.mem_range, beq_iff_eq]
  constructor
  · rintro ⟨⟨a, b⟩, c⟩; exact ⟨a, b, c⟩
  · rintro ⟨a, b, c⟩; exact ⟨⟨a, b⟩, c⟩

/-- `find_halfedge`: sound -/
theorem findHalfedge_sound (k : Kernel) (hI : CacheInv k) (hb : k.vBU = true) (a b h : Nat) (ha : a < k.nV)
    (hf : k.findHalfedge a b = some h) :
    h < k.nHE ∧ k.liveE (eOf h) = true ∧ k.fromV h = a ∧ k.toV h = b := by
  unfold findHalfedge at hf
  have hm := List.mem_of_find?_eq_some hf
  have hp := List.find?_some hf
  unfold qVOH at hm; simp only [hb, if_true] at hm
  have := ((hI.v hb).2 a ha).mem_iff.mp hm
  rw [mem_sOut] at this
  exact ⟨this.1, this.2.1, this.2.2, by simpa using hp⟩

/-- `find_halfedge`: complete -/
theorem findHalfedge_complete (k : Kernel) (hI : CacheInv k) (hb : k.vBU = true) (a b : Nat) (ha : a < k.nV)
    (hn : k.findHalfedge a b = none) :
    ¬ ∃ h, h < k.nHE ∧ k.liveE (eOf h) = true ∧ k.fromV h = a ∧ k.toV h = b := by
  rintro ⟨h, h1, h2, h3, h4⟩
  unfold findHalfedge at hn
  rw [List.find?_eq_none] at hn
  have hm : h ∈ k.qVOH a := by
    unfold qVOH; simp only [hb, if_true]
    exact ((hI.v hb).2 a ha).mem_iff.mpr ((mem_sOut k a h).mpr ⟨h1, h2, h3⟩)
  have := hn h hm
  simp [h4] at this

/-- membership in the halffaces of a halfedge -/
theorem mem_sHfsOfHe (k : Kernel) (h hf : Nat) :
    hf ∈ k.sHfsOfHe h ↔ (hf < k.nHF ∧ k.liveF (eOf hf) = true ∧ h ∈ k.hfHes hf) := by
  unfold sHfsOfHe liveHfs
  simp only [List.mem_flatMap, List.mem_filter, List.mem_range, List.mem_replicate]
  constructor
  · rintro ⟨x, ⟨hx1, hx2⟩, hc, rfl⟩
    exact ⟨hx1, hx2, List.count_pos_iff.mp (Nat.pos_of_ne_zero hc)⟩
  · rintro ⟨h1, h2, h3⟩
    exact ⟨hf, ⟨h1, h2⟩, Nat.ne_of_gt (List.count_pos_iff.mpr h3), rfl⟩

/-- `find_halfface(he0, he1)`: sound and complete -/
theorem findHalffaceHes_sound (k : Kernel) (hI : CacheInv k) (hb : k.eBU = true) (he0 he1 hf : Nat) (h0 : he0 < k.nHE)
    (hfd : k.findHalffaceHes he0 he1 = some hf) :
    hf < k.nHF ∧ k.liveF (eOf hf) = true ∧ he0 ∈ k.hfHes hf ∧ he1 ∈ k.hfHes hf := by
  unfold findHalffaceHes at hfd
  have hm := List.mem_of_find?_eq_some hfd
  have hp := List.find?_some hfd
  unfold qHEHF at hm; simp only [hb, if_true] at hm
  have := ((hI.e hb).2 he0 h0).mem_iff.mp hm
  rw [mem_sHfsOfHe] at this
  exact ⟨this.1, this.2.1, this.2.2, by simpa using hp⟩

theorem findHalffaceHes_complete (k : Kernel) (hI : CacheInv k) (hb : k.eBU = true) (he0 he1 : Nat) (h0 : he0 < k.nHE)
    (hn : k.findHalffaceHes he0 he1 = none) :
    ¬ ∃ hf, hf < k.nHF ∧ k.liveF (eOf hf) = true ∧ he0 ∈ k.hfHes hf ∧ he1 ∈ k.hfHes hf := by
  rintro ⟨hf, h1, h2, h3, h4⟩
  unfold findHalffaceHes at hn
  rw [List.find?_eq_none] at hn
  have hm : hf ∈ k.qHEHF he0 := by
    unfold qHEHF; simp only [hb, if_true]
    exact ((hI.e hb).2 he0 h0).mem_iff.mpr ((mem_sHfsOfHe k he0 hf).mpr ⟨h1, h2, h3⟩)
  have := hn hf hm
  simp [h4] at this

/-- `find_halfface(v0,v1,v2,…)`: a returned halfface is live and runs `v0→v1` and `v1→v2` -/
theorem findHalffaceV_sound (k : Kernel) (hI : CacheInv k) (hv : k.vBU = true) (he : k.eBU = true)
    (v0 v1 v2 : Nat) (rest : List Nat) (hf : Nat) (h0 : v0 < k.nV) (h1 : v1 < k.nV)
    (hfd : k.findHalffaceV (v0 :: v1 :: v2 :: rest) = some hf) :
    k.liveF (eOf hf) = true ∧ (∃ a ∈ k.hfHes hf, k.fromV a = v0 ∧ k.toV a = v1) ∧
    (∃ b ∈ k.hfHes hf, k.fromV b = v1 ∧ k.toV b = v2) := by
  unfold findHalffaceV at hfd
  simp only at hfd
  cases ha : k.findHalfedge v0 v1 with
  | none => simp [ha] at hfd
  | some a =>
    cases hb : k.findHalfedge v1 v2 with
    | none => simp [ha, hb] at hfd
    | some b =>
      simp only [ha, hb] at hfd
      have sa := findHalfedge_sound k hI hv v0 v1 a h0 ha
      have sb := findHalfedge_sound k hI hv v1 v2 b h1 hb
      have sf := findHalffaceHes_sound k hI he a b hf sa.1 hfd
      exact ⟨sf.2.1, ⟨a, sf.2.2.1, sa.2.2.1, sa.2.2.2⟩, ⟨b, sf.2.2.2, sb.2.2.1, sb.2.2.2⟩⟩

/-- `is_incident(face, edge)` is exactly "some halfedge of the face belongs to the edge" -/
theorem isIncident_iff (k : Kernel) (f e : Nat) : k.isIncident f e = true ↔ ∃ h ∈ k.faceAt f, eOf h = e := by
  unfold isIncident; simp

/-- `next_halfedge_in_halfface` returns a halfedge of that halfface, or Invalid when the given
    halfedge is not part of it -/
theorem nextHe_mem (k : Kernel) (he hf r : Nat) (h : k.nextHe he hf = some r) : r ∈ k.hfHes hf ∧ he ∈ k.hfHes hf := by
  unfold nextHe at h
  simp only at h
  cases hi : idxOf? (k.hfHes hf) he with
  | none => simp [hi] at h
  | some i =>
    simp only [hi] at h
    have hidx : i < (k.hfHes hf).length ∧ (k.hfHes hf)[i]? = some he := by
      unfold idxOf? at hi
      simp only at hi
      split at hi
      · rename_i hlt
        injection hi with hi; subst hi
        refine ⟨hlt, ?_⟩
        have := List.findIdx_getElem (w := hlt)
        rw [List.getElem?_eq_getElem hlt]; simpa using this
      · cases hi
    refine ⟨?_, List.mem_of_getElem? hidx.2⟩
    split at h
    · exact List.mem_of_getElem? h
    · exact List.mem_of_mem_head? h

example :
    let k : Kernel := { nV := 3, edges := [(0, 1), (1, 2), (2, 0)], eDel := [false, false, false], vDel := [false, false, false],
                        faces := [[0, 2, 4]], fDel := [false], outHes := [[0, 5], [2, 1], [4, 3]],
                        incHfs := [[0], [1], [0], [1], [0], [1]], incCell := [none, none] }
    k.cacheInvB = true ∧ k.findHalfedge 0 1 = some 0 ∧ k.findHalfedge 1 0 = some 1 ∧ k.findHalfedge 0 0 = none ∧
    k.findHalffaceV [0, 1, 2] = some 0 ∧ k.findHalffaceV [1, 0, 2] = some 1 ∧ k.nextHe 4 0 = some 0 := by decide

open OVM.Kernel.Lookup

/-! ## find_halfface_in_cell, get_halfface_vertices, n_vertices_in_cell, find_halfedge_in_cell,
    find_halfface_extensive, completeness of the two-stage vertex lookup
    (lemmas: OVM/Refine/LookupLemmas.lean) -/

/-- sample state for the non-vacuity examples: the tetrahedra `0 1 2 3` (cell 0, halffaces `1 2 7 8`) and
    `0 1 3 4` (cell 1, halffaces `3 4 11 12`) glued along face 1 (vertices `0 1 3`) -/
def twoTets : Kernel :=
  { nV := 5,
    edges := [(0, 1), (1, 2), (2, 0), (1, 3), (3, 0), (1, 4), (4, 0), (2, 3), (3, 4), (4, 2)],
    faces := [[0, 2, 4], [0, 6, 8], [0, 10, 12], [5, 14, 8], [2, 14, 7], [9, 16, 12], [6, 16, 11],
              [13, 18, 4], [10, 18, 3]],
    cells := [[1, 2, 7, 8], [3, 4, 11, 12]],
    vDel := List.replicate 5 false, eDel := List.replicate 10 false, fDel := List.replicate 9 false,
    cDel := List.replicate 2 false,
    outHes := [[0, 5, 9, 13], [1, 2, 6, 10], [3, 4, 14, 19], [7, 8, 15, 16], [11, 12, 17, 18]],
    incHfs := [[0, 2, 4], [5, 3, 1], [8, 0, 17], [16, 1, 9], [7, 0, 14], [15, 1, 6], [12, 2, 9],
               [8, 3, 13], [11, 2, 6], [7, 3, 10], [16, 4, 13], [12, 5, 17], [15, 4, 10], [11, 5, 14],
               [8, 6], [7, 9], [12, 10], [11, 13], [16, 14], [15, 17]],
    incCell := [none, some 0, some 0, some 1, some 1, none, none, some 0, some 0, none, none,
                some 1, some 1, none, none, none, none, none] }

theorem twoTets_inv : CacheInv twoTets := cacheInv_of_cacheInvB _ (by decide)

theorem twoTets_exclusive (c : Nat) (hc : c < 2) : CellExclusive twoTets c :=
  cellExclusive_of_oneCell twoTets c (by decide) hc
    (by have : c = 0 ∨ c = 1 := by omega
        rcases this with rfl | rfl <;> decide)
    (by have : c = 0 ∨ c = 1 := by omega
        rcases this with rfl | rfl <;> decide)

/-- **`find_halfface_in_cell` is sound** (cc:1982-2011).  For every state satisfying the cache invariant
    with face bottom-up incidences on (only the clause `CacheInv.f` about `incident_cell_per_hf_` is used:
    `adjacent_halfface_in_cell` reads that cache), every cell `c` none of whose halffaces is listed by
    another not-deleted cell (`CellExclusive`, C01's precondition seen from `c`) and every vertex list
    `v0 :: v1 :: v2 :: rest`: a returned halfface **is a halfface of cell `c`**, one of its halfedges
    goes from `v0` to `v1`, and `next_halfedge_in_halfface` of that halfedge ends in `v2`.
    The C++ reads only `_vs[0.._vs[2]` (cc:1986), so nothing is claimed about `rest`. -/
theorem findHalffaceInCell_sound (k : Kernel) (hI : CacheInv k) (hb : k.fBU = true) (c v0 v1 v2 : Nat)
    (rest : List Nat) (hf : Nat) (hx : CellExclusive k c)
    (h : k.findHalffaceInCell (v0 :: v1 :: v2 :: rest) c = some hf) :
    hf ∈ k.cellAt c ∧ RunsThrough k hf v0 v1 v2 :=
  Lookup.findHalffaceInCell_sound k c v0 v1 v2 rest hf (cellCacheOK_of_inv k c hI.f hb hx) h

/-- the same with the hypotheses of C01 spelt out (`oneCell`, a live cell, halfface handles in range), and,
    when the returned halfface is a closed halfedge cycle, in the vertex form: `v0 v1 v2` are three
    cyclically consecutive vertices of the returned halfface -/
theorem findHalffaceInCell_sound_verts (k : Kernel) (hI : CacheInv k) (hb : k.fBU = true) (h1 : k.oneCell = true)
    (c v0 v1 v2 : Nat) (rest : List Nat) (hf : Nat) (hc : c < k.nC) (hd : k.cDeleted c = false)
    (hr : ∀ x ∈ k.cellAt c, x < k.nHF) (hcyc : ∀ x ∈ k.cellAt c, HfCyclic k x)
    (h : k.findHalffaceInCell (v0 :: v1 :: v2 :: rest) c = some hf) :
    hf ∈ k.cellAt c ∧ ∃ i, i < (k.hfHes hf).length ∧ (k.hfVerts hf)[i]? = some v0 ∧
      (k.hfVerts hf)[(i + 1) % (k.hfHes hf).length]? = some v1 ∧
      (k.hfVerts hf)[(i + 2) % (k.hfHes hf).length]? = some v2 := by
  have := findHalffaceInCell_sound k hI hb c v0 v1 v2 rest hf (cellExclusive_of_oneCell k c h1 hc hd hr) h
  exact ⟨this.1, runsThrough_verts k hf v0 v1 v2 (hcyc hf this.1) this.2⟩

/-- **`find_halfface_in_cell` is complete** — no hypothesis on the state: if some halfface of the cell
    runs `v0 → v1 → v2` the function returns a halfface (by soundness one of the cell running
    `v0 → v1 → v2`).  `runsThrough_of_pos` gives `RunsThrough` from positions on a halfface whose halfedge
    list has no duplicate. -/
theorem findHalffaceInCell_complete (k : Kernel) (c v0 v1 v2 : Nat) (rest : List Nat) (hf : Nat)
    (hm : hf ∈ k.cellAt c) (hr : RunsThrough k hf v0 v1 v2) :
    ∃ hf', k.findHalffaceInCell (v0 :: v1 :: v2 :: rest) c = some hf' :=
  Lookup.findHalffaceInCell_complete k c v0 v1 v2 rest hf hm hr

/-- `Invalid` exactly when no halfface of the cell runs through the three vertices -/
theorem findHalffaceInCell_none_iff (k : Kernel) (hI : CacheInv k) (hb : k.fBU = true) (c v0 v1 v2 : Nat)
    (rest : List Nat) (hx : CellExclusive k c) :
    k.findHalffaceInCell (v0 :: v1 :: v2 :: rest) c = none ↔ ¬ ∃ hf ∈ k.cellAt c, RunsThrough k hf v0 v1 v2 := by
  constructor
  · rintro hn ⟨hf, hm, hr⟩
    obtain ⟨hf', h'⟩ := findHalffaceInCell_complete k c v0 v1 v2 rest hf hm hr
    rw [hn] at h'; cases h'
  · intro hne
    cases h : k.findHalffaceInCell (v0 :: v1 :: v2 :: rest) c with
    | none => rfl
    | some hf =>
      have := findHalffaceInCell_sound k hI hb c v0 v1 v2 rest hf hx h
      exact absurd ⟨hf, this.1, this.2⟩ hne

/-- non-vacuity: in cell 0 of `twoTets` the query `0 1 3` is answered through the second branch (halfface 1
    holds the halfedge `1→0`, its neighbour across that edge is halfface 2); the theorem applies and
    yields membership.  `0 1 2` has no halfface in cell 0 (halfface 0 = `opposite_halfface(1)` has those
    vertices but is not in the cell: what the planted regression returned), it has one in no cell;
    `0 1 4` is found in cell 1 only. -/
example : twoTets.findHalffaceInCell [0, 1, 3] 0 = some 2 ∧ twoTets.adjHalffaceInCell 1 1 = some 2 ∧
    twoTets.findHalffaceInCell [0, 1, 2] 0 = none ∧ twoTets.hfVerts 0 = [0, 1, 2] ∧ 0 ∉ twoTets.cellAt 0 ∧
    twoTets.findHalffaceInCell [0, 1, 4] 0 = none ∧ twoTets.findHalffaceInCell [0, 1, 4] 1 = some 4 ∧
    twoTets.findHalffaceInCell [0, 1, 3, 99] 0 = some 2 := by decide
example : 2 ∈ twoTets.cellAt 0 ∧ RunsThrough twoTets 2 0 1 3 :=
  findHalffaceInCell_sound twoTets twoTets_inv rfl 0 0 1 3 [] 2 (twoTets_exclusive 0 (by omega)) (by decide)
example : ∃ hf', twoTets.findHalffaceInCell [1, 3, 0] 0 = some hf' :=
  findHalffaceInCell_complete twoTets 0 1 3 0 [] 2 (by decide)
    (runsThrough_of_pos twoTets 2 1 3 0 1 (by decide) (by decide) (by decide) (by decide) (by decide))

/-- `CellExclusive` is needed: with a halfface listed by two live cells (outside C01's precondition; the cache
    then names the first of them) the second branch answers from the other cell -/
example :
    let k : Kernel :=
      { twoTets with
        cells := [[1, 2, 7, 8], [1, 4, 11, 12]],
        incCell := [none, some 0, some 0, none, some 1, none, none, some 0, some 0, none, none,
                    some 1, some 1, none, none, none, none, none] }
    k.cacheInvB = true ∧ k.oneCell = false ∧ k.findHalffaceInCell [0, 1, 3] 1 = some 2 ∧ 2 ∉ k.cellAt 1 := by
  decide

/-! ### get_halfface_vertices -/

/-- **`get_halfface_vertices(hf, vh)`** (cc:2187-2209), every state: the result is a rotation of the vertex
    cycle `get_halfface_vertices(hf)` (so a permutation of the same length that keeps the cyclic order);
    it starts with `vh` when `vh` is a vertex of the halfface and is the unrotated cycle otherwise; it is
    what the C++ circulator loop reads (`circulateFrom`). -/
theorem hfVertsFrom_spec (k : Kernel) (hf v : Nat) :
    (∃ i, k.hfVertsFrom hf v = (k.hfVerts hf).rotateLeft i) ∧
    (k.hfVertsFrom hf v).Perm (k.hfVerts hf) ∧
    (v ∈ k.hfVerts hf → (k.hfVertsFrom hf v).head? = some v) ∧
    (v ∉ k.hfVerts hf → k.hfVertsFrom hf v = k.hfVerts hf) ∧
    k.hfVertsFrom hf v = circulateFrom (k.hfVerts hf) v :=
  ⟨hfVertsFrom_rotation k hf v, hfVertsFrom_perm k hf v, hfVertsFrom_head k hf v, hfVertsFrom_absent k hf v,
   hfVertsFrom_eq_circulate k hf v⟩

/-- **`get_halfface_vertices(hf, heh)`** (cc:2215-2218) is `get_halfface_vertices(hf, from_vertex(heh))`
    (`hfVertsFromHe`; the kernel model has no separate function, the judge compares this expression):
    for a halfedge of the halfface the result starts with its source, and on a halfface without a
    repeated vertex it is the vertex cycle read from that very halfedge on. -/
theorem hfVertsFromHe_spec (k : Kernel) (hf : Nat) :
    (∀ he ∈ k.hfHes hf, (hfVertsFromHe k hf he).head? = some (k.fromV he)) ∧
    (∀ he, ∃ i, hfVertsFromHe k hf he = (k.hfVerts hf).rotateLeft i) ∧
    ((k.hfVerts hf).Nodup → ∀ i (hi : i < (k.hfHes hf).length),
      hfVertsFromHe k hf ((k.hfHes hf)[i]) = ((k.hfHes hf).rotateLeft i).map k.fromV) :=
  ⟨fun he hm => hfVertsFromHe_head k hf he hm, fun he => hfVertsFrom_rotation k hf (k.fromV he),
   fun hn i hi => hfVertsFromHe_simple k hf i hn hi⟩

/-- non-vacuity; the last line: on a halfface that visits a vertex twice (a figure eight `0 1 2 0 3 4`)
    the halfedge form starts at the *first* visit of the source, not at the given halfedge -/
example : twoTets.hfVerts 8 = [1, 2, 3] ∧ twoTets.hfVertsFrom 8 3 = [3, 1, 2] ∧ twoTets.hfVertsFrom 8 2 = [2, 3, 1] ∧
    twoTets.hfVertsFrom 8 0 = [1, 2, 3] ∧ hfVertsFromHe twoTets 8 14 = [2, 3, 1] ∧ twoTets.hfHes 8 = [2, 14, 7] ∧
    (twoTets.hfVerts 8).Nodup ∧
    (let k : Kernel := { nV := 5, edges := [(0, 1), (1, 2), (2, 0), (0, 3), (3, 4), (4, 0)], faces := [[0, 2, 4, 6, 8, 10]] }
     k.hfVerts 0 = [0, 1, 2, 0, 3, 4] ∧ hfVertsFromHe k 0 6 = [0, 1, 2, 0, 3, 4] ∧
     ((k.hfHes 0).rotateLeft 3).map k.fromV = [0, 3, 4, 0, 1, 2]) := by decide

/-! ### find_halfface(v0, v1, v2, …): completeness under uniqueness -/

/-- **completeness of the two-stage vertex lookup** (cc:1960-1978) when the halfedges `v0→v1` and `v1→v2`
    are unique among the not-deleted halfedges (`uniqHe`, decidable): if a not-deleted halfface holds
    not-deleted halfedges `v0→v1` and `v1→v2`, a halfface is returned (by `findHalffaceV_sound` a live one
    holding such halfedges).  `_partial`: without uniqueness a face can be hidden, see the witnesses below
    (DESIGN F11, a documented limitation of the C++). -/
theorem findHalffaceV_complete_partial (k : Kernel) (hI : CacheInv k) (hv : k.vBU = true) (he : k.eBU = true)
    (v0 v1 v2 : Nat) (rest : List Nat) (h0 : v0 < k.nV) (h1 : v1 < k.nV)
    (hu0 : uniqHe k v0 v1 = true) (hu1 : uniqHe k v1 v2 = true)
    (hf a b : Nat) (hlt : hf < k.nHF) (hl : k.liveF (eOf hf) = true)
    (ha : a ∈ k.hfHes hf) (ha1 : a < k.nHE) (ha2 : k.liveE (eOf a) = true) (ha3 : k.fromV a = v0) (ha4 : k.toV a = v1)
    (hb : b ∈ k.hfHes hf) (hb1 : b < k.nHE) (hb2 : k.liveE (eOf b) = true) (hb3 : k.fromV b = v1) (hb4 : k.toV b = v2) :
    ∃ hf', k.findHalffaceV (v0 :: v1 :: v2 :: rest) = some hf' := by
  unfold findHalffaceV
  simp only
  cases hfa : k.findHalfedge v0 v1 with
  | none => exact absurd ⟨a, ha1, ha2, ha3, ha4⟩ (findHalfedge_complete k hI hv v0 v1 h0 hfa)
  | some a' =>
    cases hfb : k.findHalfedge v1 v2 with
    | none => exact absurd ⟨b, hb1, hb2, hb3, hb4⟩ (findHalfedge_complete k hI hv v1 v2 h1 hfb)
    | some b' =>
      have sa := findHalfedge_sound k hI hv v0 v1 a' h0 hfa
      have sb := findHalfedge_sound k hI hv v1 v2 b' h1 hfb
      have ea : a' = a := uniqHe_eq k v0 v1 a' a hu0 sa.1 sa.2.1 sa.2.2.1 sa.2.2.2 ha1 ha2 ha3 ha4
      have eb : b' = b := uniqHe_eq k v1 v2 b' b hu1 sb.1 sb.2.1 sb.2.2.1 sb.2.2.2 hb1 hb2 hb3 hb4
      subst ea; subst eb
      simp only
      cases hff : k.findHalffaceHes a' b' with
      | some x => exact ⟨x, rfl⟩
      | none => exact absurd ⟨hf, hlt, hl, ha, hb⟩ (findHalffaceHes_complete k hI he a' b' ha1 hff)

/-- both uniqueness hypotheses are necessary (F11): a parallel duplicate of edge `0→1` (first state) or of
    edge `1→2` (second state) hides the only face `0 1 2` from `find_halfface`, in states that satisfy
    the cache invariant -/
example :
    (let k : Kernel := { nV := 3, edges := [(0, 1), (1, 2), (2, 0), (0, 1)], eDel := [false, false, false, false],
                         vDel := [false, false, false], faces := [[6, 2, 4]], fDel := [false],
                         outHes := [[0, 5, 6], [1, 2, 7], [3, 4]],
                         incHfs := [[], [], [0], [1], [0], [1], [0], [1]], incCell := [none, none] }
     k.cacheInvB = true ∧ k.hfVerts 0 = [0, 1, 2] ∧ k.liveF 0 = true ∧ k.findHalffaceV [0, 1, 2] = none ∧
     uniqHe k 0 1 = false ∧ uniqHe k 1 2 = true) ∧
    (let k : Kernel := { nV := 3, edges := [(0, 1), (1, 2), (2, 0), (1, 2)], eDel := [false, false, false, false],
                         vDel := [false, false, false], faces := [[0, 6, 4]], fDel := [false],
                         outHes := [[0, 5], [1, 2, 6], [3, 4, 7]],
                         incHfs := [[0], [1], [], [], [0], [1], [0], [1]], incCell := [none, none] }
     k.cacheInvB = true ∧ k.hfVerts 0 = [0, 1, 2] ∧ k.liveF 0 = true ∧ k.findHalffaceV [0, 1, 2] = none ∧
     uniqHe k 0 1 = true ∧ uniqHe k 1 2 = false) := by decide

/-- non-vacuity of `findHalffaceV_complete_partial` -/
example : ∃ hf', twoTets.findHalffaceV [1, 3, 0] = some hf' :=
  findHalffaceV_complete_partial twoTets twoTets_inv rfl rfl 1 3 0 [] (by decide) (by decide) (by decide) (by decide)
    2 6 8 (by decide) (by decide) (by decide) (by decide) (by decide) (by decide) (by decide)
    (by decide) (by decide) (by decide) (by decide) (by decide)

/-! ### n_vertices_in_cell -/

/-- **`n_vertices_in_cell`** (hh:1098-1108) is the number of distinct target vertices of the halfedges of
    the cell's halffaces: the length of any duplicate-free list with exactly those members; when the
    halffaces of the cell are closed halfedge cycles this is the number of distinct vertices of the cell's
    halffaces. -/
theorem nVerticesInCell_spec (k : Kernel) (c : Nat) (l : List Nat) (hn : l.Nodup) :
    ((∀ v, v ∈ l ↔ ∃ hf ∈ k.cellAt c, ∃ h ∈ k.hfHes hf, k.toV h = v) → k.nVerticesInCell c = l.length) ∧
    ((∀ hf ∈ k.cellAt c, HfCyclic k hf) → (∀ v, v ∈ l ↔ ∃ hf ∈ k.cellAt c, v ∈ k.hfVerts hf) →
      k.nVerticesInCell c = l.length) :=
  ⟨fun hl => Lookup.nVerticesInCell_spec k c l hn hl, fun hc hl => nVerticesInCell_spec_cyclic k c hc l hn hl⟩

example : twoTets.nVerticesInCell 0 = 4 ∧ twoTets.nVerticesInCell 1 = 4 := by decide
example : twoTets.nVerticesInCell 1 = [0, 1, 3, 4].length :=
  (nVerticesInCell_spec twoTets 1 [0, 1, 3, 4] (by decide)).1 (by
    intro v
    have hv : v ∈ [0, 1, 3, 4] ∨ v ∉ [0, 1, 3, 4] := Decidable.em _
    constructor
    · intro h
      simp only [List.mem_cons, List.not_mem_nil, or_false] at h
      rcases h with rfl | rfl | rfl | rfl <;> decide
    · rintro ⟨hf, h1, h, h2, rfl⟩
      have : ∀ hf ∈ twoTets.cellAt 1, ∀ h ∈ twoTets.hfHes hf, twoTets.toV h ∈ [0, 1, 3, 4] := by decide
      exact this hf h1 h h2)

/-! ### find_halfedge_in_cell -/

/-- **`find_halfedge_in_cell`** (cc:1932-1949), every state: a returned halfedge goes from `a` to `b` and it
    or its opposite is a halfedge of a halfface of the cell; `Invalid` is returned exactly when no
    halfedge of a halfface of the cell joins the two vertices in either direction. -/
theorem findHalfedgeInCell_spec (k : Kernel) (a b c : Nat) :
    (∀ r, k.findHalfedgeInCell a b c = some r →
      k.fromV r = a ∧ k.toV r = b ∧ ∃ hf ∈ k.cellAt c, r ∈ k.hfHes hf ∨ opp r ∈ k.hfHes hf) ∧
    (k.findHalfedgeInCell a b c = none ↔
      ¬ ∃ hf ∈ k.cellAt c, ∃ h ∈ k.hfHes hf, (k.fromV h = a ∧ k.toV h = b) ∨ (k.fromV h = b ∧ k.toV h = a)) :=
  ⟨fun r h => findHalfedgeInCell_sound k a b c r h, findHalfedgeInCell_none_iff k a b c⟩

example : twoTets.findHalfedgeInCell 0 3 0 = some 9 ∧ twoTets.findHalfedgeInCell 3 0 0 = some 8 ∧
    twoTets.findHalfedgeInCell 0 4 0 = none ∧ twoTets.findHalfedgeInCell 0 4 1 = some 13 ∧
    twoTets.halfedge 9 = (0, 3) := by decide

/-! ### find_halfface_extensive -/

/-- **`find_halfface_extensive` is sound** (cc:2025-2068): a returned halfface is not deleted and its
    vertex cycle, read from some position on, is exactly the requested list (all of it, unlike
    `find_halfface`): `(hfVerts hf).rotateLeft i = vs`.  (The model also answers two-element lists; the C++
    asserts `size > 2`.) -/
theorem findHalffaceExtensive_sound (k : Kernel) (hI : CacheInv k) (hv : k.vBU = true) (he : k.eBU = true)
    (v0 v1 : Nat) (rest : List Nat) (hf : Nat) (h0 : v0 < k.nV)
    (h : k.findHalffaceExtensive (v0 :: v1 :: rest) = some hf) :
    hf < k.nHF ∧ k.liveF (eOf hf) = true ∧
    ∃ i, i < (k.hfHes hf).length ∧ (k.hfVerts hf).rotateLeft i = v0 :: v1 :: rest := by
  unfold findHalffaceExtensive at h
  simp only at h
  cases ha : k.findHalfedge v0 v1 with
  | none => simp [ha] at h
  | some a =>
    simp only [ha] at h
    have sa := findHalfedge_sound k hI hv v0 v1 a h0 ha
    have hm := List.mem_of_find?_eq_some h
    have hp := List.find?_some h
    unfold qHEHF at hm; simp only [he, if_true] at hm
    have hlive := ((hI.e he).2 a sa.1).mem_iff.mp hm
    rw [mem_sHfsOfHe] at hlive
    simp only [Bool.and_eq_true, beq_iff_eq] at hp
    have hpos : 0 < (k.hfHes hf).length := by rw [hp.1]; simp
    have hoff := lastIdxOf_lt (k.hfHes hf) a hpos
    exact ⟨hlive.1, hlive.2.1, _, hoff, rotation_of_all k hf _ _ hoff hp.1 hp.2⟩

/-- **completeness of `find_halfface_extensive`, partial**: if a not-deleted halfface without a repeated
    halfedge, whose halfedges form a closed cycle, has the requested vertex cycle from position `j` on, its
    halfedge at `j` is not deleted and the halfedge `v0→v1` is unique, a halfface is returned.
    `_partial`: with parallel duplicates of `v0→v1` the face can be hidden exactly as for `find_halfface`
    (F11); a halfface repeating the halfedge makes the C++ take the *last* occurrence as offset. -/
theorem findHalffaceExtensive_complete_partial (k : Kernel) (hI : CacheInv k) (hv : k.vBU = true) (he : k.eBU = true)
    (v0 v1 : Nat) (rest : List Nat) (h0 : v0 < k.nV) (hu : uniqHe k v0 v1 = true)
    (hf : Nat) (hlt : hf < k.nHF) (hl : k.liveF (eOf hf) = true) (hn : (k.hfHes hf).Nodup) (hc : HfCyclic k hf)
    (j : Nat) (hj : j < (k.hfHes hf).length) (hrot : (k.hfVerts hf).rotateLeft j = v0 :: v1 :: rest)
    (ha1 : (k.hfHes hf)[j] < k.nHE) (ha2 : k.liveE (eOf ((k.hfHes hf)[j])) = true) :
    ∃ hf', k.findHalffaceExtensive (v0 :: v1 :: rest) = some hf' := by
  obtain ⟨hlen, hall⟩ := all_of_rotation k hf j _ hj hrot
  have hl2 : 2 ≤ (k.hfHes hf).length := by rw [hlen]; simp
  have hvl : (k.hfVerts hf).length = (k.hfHes hf).length := by unfold hfVerts; simp
  -- the halfedge at `j` goes from `v0` to `v1`
  have e0 : k.fromV ((k.hfHes hf)[j]) = v0 := by
    have := getElem?_rotateLeft (k.hfVerts hf) j 0 (by omega) (by omega)
    rw [hrot, hvl, Nat.add_zero, Nat.mod_eq_of_lt hj, hfVerts_getElem? k hf j hj] at this
    simpa using this.symm
  have e1 : k.toV ((k.hfHes hf)[j]) = v1 := by
    have hlt1 : (j + 1) % (k.hfHes hf).length < (k.hfHes hf).length := Nat.mod_lt _ (by omega)
    have := getElem?_rotateLeft (k.hfVerts hf) j 1 (by omega) (by omega)
    rw [hrot, hvl, hfVerts_getElem? k hf _ hlt1, ← hc j hj] at this
    simpa using this.symm
  unfold findHalffaceExtensive
  simp only
  cases hfa : k.findHalfedge v0 v1 with
  | none => exact absurd ⟨_, ha1, ha2, e0, e1⟩ (findHalfedge_complete k hI hv v0 v1 h0 hfa)
  | some a' =>
    have sa := findHalfedge_sound k hI hv v0 v1 a' h0 hfa
    have ea : a' = (k.hfHes hf)[j] := uniqHe_eq k v0 v1 a' _ hu sa.1 sa.2.1 sa.2.2.1 sa.2.2.2 ha1 ha2 e0 e1
    simp only
    cases hres : (k.qHEHF a').find? _ with
    | some x => exact ⟨x, rfl⟩
    | none =>
      exfalso
      rw [List.find?_eq_none] at hres
      have hm : hf ∈ k.qHEHF a' := by
        unfold qHEHF; simp only [he, if_true]
        exact ((hI.e he).2 a' sa.1).mem_iff.mpr ((mem_sHfsOfHe k a' hf).mpr ⟨hlt, hl, by rw [ea]; exact List.getElem_mem hj⟩)
      have := hres hf hm
      rw [ea, lastIdxOf_nodup _ hn j hj] at this
      apply this
      rw [Bool.and_eq_true]
      exact ⟨beq_iff_eq.mpr hlen, hall⟩

example : twoTets.findHalffaceExtensive [0, 1, 3] = some 2 ∧ twoTets.findHalffaceExtensive [1, 3, 0] = some 2 ∧
    twoTets.findHalffaceExtensive [3, 1, 0] = some 3 ∧ twoTets.findHalffaceExtensive [0, 1, 3, 2] = none ∧
    twoTets.findHalffaceV [0, 1, 3, 2] = some 2 ∧
    twoTets.hfVerts 2 = [0, 1, 3] := by decide
example : ∃ i, i < (twoTets.hfHes 2).length ∧ (twoTets.hfVerts 2).rotateLeft i = [1, 3, 0] :=
  (findHalffaceExtensive_sound twoTets twoTets_inv rfl rfl 1 3 [0] 2 (by decide) (by decide)).2.2
example : ∃ hf', twoTets.findHalffaceExtensive [3, 0, 1] = some hf' :=
  findHalffaceExtensive_complete_partial twoTets twoTets_inv rfl rfl 3 0 [1] (by decide) (by decide) 2 (by decide)
    (by decide) (by decide) (hfCyclic_of_B _ _ (by decide)) 2 (by decide) (by decide) (by decide) (by decide)

/-! ### find_halfface_in_cell against the brute-force search over vertex cycles -/

/-- **completeness of `find_halfface_in_cell` in the vertex form, partial**: if a halfface of the cell whose
    halfedges form a closed cycle without a repeated halfedge has `v0 v1 v2` as three cyclically consecutive
    vertices, a halfface is returned.  `_partial`: for a halfface that repeats a halfedge
    `next_halfedge_in_halfface` continues from the first occurrence only, so a later run can be missed
    (such halffaces cannot be part of a cell accepted by `add_cell`'s check). -/
theorem findHalffaceInCell_complete_verts_partial (k : Kernel) (c v0 v1 v2 : Nat) (rest : List Nat) (hf i : Nat)
    (hm : hf ∈ k.cellAt c) (hc : HfCyclic k hf) (hn : (k.hfHes hf).Nodup) (hi : i < (k.hfHes hf).length)
    (h0 : (k.hfVerts hf)[i]? = some v0) (h1 : (k.hfVerts hf)[(i + 1) % (k.hfHes hf).length]? = some v1)
    (h2 : (k.hfVerts hf)[(i + 2) % (k.hfHes hf).length]? = some v2) :
    ∃ hf', k.findHalffaceInCell (v0 :: v1 :: v2 :: rest) c = some hf' :=
  findHalffaceInCell_complete k c v0 v1 v2 rest hf hm (runsThrough_of_verts k hf v0 v1 v2 i hc hn hi h0 h1 h2)

example : ∃ hf', twoTets.findHalffaceInCell [3, 1, 0] 1 = some hf' :=
  findHalffaceInCell_complete_verts_partial twoTets 1 3 1 0 [] 3 1 (by decide) (hfCyclic_of_B _ _ (by decide))
    (by decide) (by decide) (by decide) (by decide) (by decide)

/-- **no read through an invalid handle in `find_halfface_in_cell`** (every state): both calls
    `to_vertex_handle(next_halfedge_in_halfface(..))` (cc:1997, cc:2005) receive a valid halfedge -/
theorem findHalffaceInCell_next_valid (k : Kernel) (hf he : Nat) (hm : he ∈ k.hfHes hf) :
    (∃ r, k.nextHe he hf = some r) ∧
    ∀ a, k.adjHalffaceInCell hf he = some a → ∃ r, k.nextHe (opp he) a = some r :=
  Lookup.findHalffaceInCell_next_valid k hf he hm

/-- in a closed cell the halfedge returned by `find_halfedge_in_cell` is itself a halfedge of the cell -/
theorem findHalfedgeInCell_mem_closed (k : Kernel) (a b c r : Nat) (hcl : ClosedSurface k (k.cellAt c))
    (h : k.findHalfedgeInCell a b c = some r) : r ∈ k.cellHalfedges (k.cellAt c) :=
  Lookup.findHalfedgeInCell_mem_closed k a b c r hcl h

example : ClosedSurface twoTets (twoTets.cellAt 0) ∧ twoTets.findHalfedgeInCell 0 3 0 = some 9 ∧
    9 ∈ twoTets.cellHalfedges (twoTets.cellAt 0) ∧ twoTets.adjHalffaceInCell 1 1 = some 2 ∧
    twoTets.nextHe (opp 1) 2 = some 6 := by decide

/-! ## On reachable states

Every STATE hypothesis of the theorems above is discharged after every history of valid calls from the empty mesh
(`Global.HistoryOK`: the argument conditions of `Global.OpOK`, Props/C01Reach) that additionally respects `Global.LoopOK`
at every call — an UNCHECKED `add_face(halfedges)` / `set_face` is handed a closed loop and `set_edge` is not applied to an
edge of a live face; nothing is asked of `add_face` with topology check, `add_face(vertices)` or any deleting / swapping /
collecting / mode call (OVM/Refine/FaceLoopStep.lean, OVM/Refine/ReachLookups.lean):
`CacheInv`, `oneCell`, `CellExclusive`, range conditions ⇐ `GInv`;  `HfCyclic` ⇐ `FaceLoop`.
What REMAINS, and is a hypothesis on the ARGUMENTS (each with a witness that it is needed):
  * `uniqHe k a b` — no parallel duplicate of the halfedge `a→b` (completeness of `find_halfface(vertices)` and
    `find_halfface_extensive`; parallel duplicates are reachable through `add_edge(a,b,allowDuplicates)`; finding F11,
    witnesses after `findHalffaceV_complete_partial`);
  * `(k.hfHes hf).Nodup` — the halfface sought does not run through a halfedge twice (completeness of
    `find_halfface_in_cell` in the vertex form and of `find_halfface_extensive`); implied by pairwise distinct vertices
    (`Lookups.extensive_complete_distinct`: the requested tuple itself is duplicate-free) and by the closed-surface check
    of `add_cell` for the halffaces of a cell (`Global.nodup_hes_of_closedSurface`);
  * `ClosedSurface k (cellAt c)` — "closed cell" in the quantifier of the property, for `find_halfedge_in_cell` to return a
    halfedge OF the cell (`findHalfedgeInCell_mem_closed`); kept along histories whose cells are built with topology
    check: `Global.CellsClosed`, `cells_closed_on_reachable_states` below;
  * the live cell `c`, valid handles `a < nV`, `he0 < nHE` (asserted by the C++), the bottom-up kind the lookup reads. -/

open OVM.Kernel.Global (GInv FaceLoop LoopOK LoopHistory ginv_reachable faceLoop_reachable historyOK_of_B
  loopHistory_of_B CellsClosed SurfOK SurfHistory cellsClosed_reachable surfHistory_of_B)

/-- **every lookup of C10, on one state**: what each function returns, with only argument-level hypotheses left -/
structure Lookups (k : Kernel) : Prop where
  /-- `find_halfedge(a,b)`: a returned halfedge is a live halfedge `a→b`; `Invalid` only if there is none -/
  halfedge : k.vBU = true → ∀ a b, a < k.nV →
    (∀ h, k.findHalfedge a b = some h → h < k.nHE ∧ k.liveE (eOf h) = true ∧ k.fromV h = a ∧ k.toV h = b) ∧
    (k.findHalfedge a b = none → ¬ ∃ h, h < k.nHE ∧ k.liveE (eOf h) = true ∧ k.fromV h = a ∧ k.toV h = b)
  /-- `find_halfface(he0, he1)`: a returned halfface is live and holds both halfedges; `Invalid` only if there is none -/
  halfface_hes : k.eBU = true → ∀ he0 he1, he0 < k.nHE →
    (∀ hf, k.findHalffaceHes he0 he1 = some hf →
      hf < k.nHF ∧ k.liveF (eOf hf) = true ∧ he0 ∈ k.hfHes hf ∧ he1 ∈ k.hfHes hf) ∧
    (k.findHalffaceHes he0 he1 = none →
      ¬ ∃ hf, hf < k.nHF ∧ k.liveF (eOf hf) = true ∧ he0 ∈ k.hfHes hf ∧ he1 ∈ k.hfHes hf)
  /-- `find_halfface(v0,v1,v2,…)`: sound; complete when `v0→v1` and `v1→v2` have no parallel duplicate (F11) -/
  halfface_verts : k.vBU = true → k.eBU = true → ∀ v0 v1 v2 rest, v0 < k.nV → v1 < k.nV →
    (∀ hf, k.findHalffaceV (v0 :: v1 :: v2 :: rest) = some hf →
      k.liveF (eOf hf) = true ∧ (∃ a ∈ k.hfHes hf, k.fromV a = v0 ∧ k.toV a = v1) ∧
      (∃ b ∈ k.hfHes hf, k.fromV b = v1 ∧ k.toV b = v2)) ∧
    (uniqHe k v0 v1 = true → uniqHe k v1 v2 = true →
      (∃ hf, k.liveF (eOf hf) = true ∧ (∃ a ∈ k.hfHes hf, k.fromV a = v0 ∧ k.toV a = v1) ∧
        (∃ b ∈ k.hfHes hf, k.fromV b = v1 ∧ k.toV b = v2)) →
      ∃ hf', k.findHalffaceV (v0 :: v1 :: v2 :: rest) = some hf')
  /-- `find_halfface_in_cell(vs, c)` for a live cell `c`: a returned halfface is one of the cell and has `v0 v1 v2` as
      three cyclically consecutive vertices; `Invalid` exactly when no halfface of the cell runs `v0→v1→v2`; found
      whenever a halfface of the cell without a repeated halfedge has them as consecutive vertices -/
  halfface_in_cell : k.fBU = true → ∀ c, k.liveC c = true → ∀ v0 v1 v2 rest,
    (∀ hf, k.findHalffaceInCell (v0 :: v1 :: v2 :: rest) c = some hf →
      hf ∈ k.cellAt c ∧ RunsThrough k hf v0 v1 v2 ∧
      ∃ i, i < (k.hfHes hf).length ∧ (k.hfVerts hf)[i]? = some v0 ∧
        (k.hfVerts hf)[(i + 1) % (k.hfHes hf).length]? = some v1 ∧
        (k.hfVerts hf)[(i + 2) % (k.hfHes hf).length]? = some v2) ∧
    (k.findHalffaceInCell (v0 :: v1 :: v2 :: rest) c = none ↔ ¬ ∃ hf ∈ k.cellAt c, RunsThrough k hf v0 v1 v2) ∧
    (∀ hf i, hf ∈ k.cellAt c → (k.hfHes hf).Nodup → i < (k.hfHes hf).length → (k.hfVerts hf)[i]? = some v0 →
      (k.hfVerts hf)[(i + 1) % (k.hfHes hf).length]? = some v1 →
      (k.hfVerts hf)[(i + 2) % (k.hfHes hf).length]? = some v2 →
      ∃ hf', k.findHalffaceInCell (v0 :: v1 :: v2 :: rest) c = some hf')
  /-- `find_halfface_extensive(vs)`: a returned halfface is live and its vertex cycle read from some position is exactly
      `vs`; found when `v0→v1` has no parallel duplicate (F11) and the halfface repeats no halfedge -/
  extensive : k.vBU = true → k.eBU = true → ∀ v0 v1 rest, v0 < k.nV →
    (∀ hf, k.findHalffaceExtensive (v0 :: v1 :: rest) = some hf →
      hf < k.nHF ∧ k.liveF (eOf hf) = true ∧
      ∃ i, i < (k.hfHes hf).length ∧ (k.hfVerts hf).rotateLeft i = v0 :: v1 :: rest) ∧
    (uniqHe k v0 v1 = true → ∀ hf j, k.liveF (eOf hf) = true → (k.hfHes hf).Nodup → j < (k.hfHes hf).length →
      (k.hfVerts hf).rotateLeft j = v0 :: v1 :: rest → ∃ hf', k.findHalffaceExtensive (v0 :: v1 :: rest) = some hf')
  /-- … in particular for every duplicate-free vertex tuple -/
  extensive_complete_distinct : k.vBU = true → k.eBU = true → ∀ v0 v1 rest, v0 < k.nV → (v0 :: v1 :: rest).Nodup →
    uniqHe k v0 v1 = true → ∀ hf j, k.liveF (eOf hf) = true → j < (k.hfHes hf).length →
      (k.hfVerts hf).rotateLeft j = v0 :: v1 :: rest → ∃ hf', k.findHalffaceExtensive (v0 :: v1 :: rest) = some hf'
  /-- `get_halfface_vertices(hf, vh)` and `(hf, heh)`: rotation of the vertex cycle to the requested start -/
  vertices_from : ∀ hf v,
    (∃ i, k.hfVertsFrom hf v = (k.hfVerts hf).rotateLeft i) ∧ (k.hfVertsFrom hf v).Perm (k.hfVerts hf) ∧
    (v ∈ k.hfVerts hf → (k.hfVertsFrom hf v).head? = some v) ∧ (v ∉ k.hfVerts hf → k.hfVertsFrom hf v = k.hfVerts hf) ∧
    (∀ he ∈ k.hfHes hf, (hfVertsFromHe k hf he).head? = some (k.fromV he))
  /-- `find_halfedge_in_cell(a,b,c)`: sound and complete; in a closed cell the result is a halfedge of the cell -/
  halfedge_in_cell : ∀ a b c,
    (∀ r, k.findHalfedgeInCell a b c = some r →
      k.fromV r = a ∧ k.toV r = b ∧ (∃ hf ∈ k.cellAt c, r ∈ k.hfHes hf ∨ opp r ∈ k.hfHes hf) ∧
      (ClosedSurface k (k.cellAt c) → r ∈ k.cellHalfedges (k.cellAt c))) ∧
    (k.findHalfedgeInCell a b c = none ↔
      ¬ ∃ hf ∈ k.cellAt c, ∃ h ∈ k.hfHes hf, (k.fromV h = a ∧ k.toV h = b) ∨ (k.fromV h = b ∧ k.toV h = a))
  /-- `n_vertices_in_cell(c)` for a live cell: the number of distinct vertices of its halffaces -/
  n_vertices : ∀ c, k.liveC c = true → ∀ l : List Nat, l.Nodup →
    (∀ v, v ∈ l ↔ ∃ hf ∈ k.cellAt c, v ∈ k.hfVerts hf) → k.nVerticesInCell c = l.length
  /-- `is_incident(face, edge)` -/
  incident : ∀ f e, k.isIncident f e = true ↔ ∃ h ∈ k.faceAt f, eOf h = e

theorem liveF_lt_hf {k : Kernel} {hf : Nat} (h : k.liveF (eOf hf) = true) : hf < k.nHF := by
  unfold liveF at h; simp at h
  unfold nHF nF eOf at *; omega

/-- every lookup on a state that satisfies the global invariant and whose live faces are closed loops -/
theorem lookups_of_inv (k : Kernel) (hi : GInv k) (hq : FaceLoop k) : Lookups k := by
  have hI := hi.wf.cache
  have hcyc : ∀ hf, k.liveF (eOf hf) = true → HfCyclic k hf := fun hf hl => Global.hfCyclic_of_faceLoop hq hl
  refine ⟨?_, ?_, ?_, ?_, ?_, ?_, ?_, ?_, ?_, ?_⟩
  · intro hb a b ha
    exact ⟨fun h hf => findHalfedge_sound k hI hb a b h ha hf, fun hn => findHalfedge_complete k hI hb a b ha hn⟩
  · intro hb he0 he1 h0
    exact ⟨fun hf hfd => findHalffaceHes_sound k hI hb he0 he1 hf h0 hfd,
      fun hn => findHalffaceHes_complete k hI hb he0 he1 h0 hn⟩
  · intro hv he v0 v1 v2 rest h0 h1
    refine ⟨fun hf hfd => findHalffaceV_sound k hI hv he v0 v1 v2 rest hf h0 h1 hfd, ?_⟩
    rintro hu0 hu1 ⟨hf, hl, ⟨a, ha, ha3, ha4⟩, ⟨b, hb, hb3, hb4⟩⟩
    obtain ⟨ha1, ha2⟩ := Global.hf_he_live hi hl ha
    obtain ⟨hb1, hb2⟩ := Global.hf_he_live hi hl hb
    exact findHalffaceV_complete_partial k hI hv he v0 v1 v2 rest h0 h1 hu0 hu1 hf a b (liveF_lt_hf hl) hl
      ha ha1 ha2 ha3 ha4 hb hb1 hb2 hb3 hb4
  · intro hb c hl v0 v1 v2 rest
    have hx := Global.cellExclusive_of_ginv hi hl
    have hcc := Global.cellCyclic_of_ginv hi hq hl
    refine ⟨?_, findHalffaceInCell_none_iff k hI hb c v0 v1 v2 rest hx, ?_⟩
    · intro hf h
      have s := findHalffaceInCell_sound k hI hb c v0 v1 v2 rest hf hx h
      exact ⟨s.1, s.2, runsThrough_verts k hf v0 v1 v2 (hcc hf s.1) s.2⟩
    · intro hf i hm hn hlt h0 h1 h2
      exact findHalffaceInCell_complete_verts_partial k c v0 v1 v2 rest hf i hm (hcc hf hm) hn hlt h0 h1 h2
  · intro hv he v0 v1 rest h0
    refine ⟨fun hf h => findHalffaceExtensive_sound k hI hv he v0 v1 rest hf h0 h, ?_⟩
    intro hu hf j hl hn hj hrot
    obtain ⟨a1, a2⟩ := Global.hf_he_live hi hl (List.getElem_mem hj)
    exact findHalffaceExtensive_complete_partial k hI hv he v0 v1 rest h0 hu hf (liveF_lt_hf hl) hl hn (hcyc hf hl) j hj
      hrot a1 a2
  · intro hv he v0 v1 rest h0 hnd hu hf j hl hj hrot
    have hn : (k.hfHes hf).Nodup := Global.nodup_hes_of_nodup_verts (Global.nodup_verts_of_rotation hrot hnd)
    obtain ⟨a1, a2⟩ := Global.hf_he_live hi hl (List.getElem_mem hj)
    exact findHalffaceExtensive_complete_partial k hI hv he v0 v1 rest h0 hu hf (liveF_lt_hf hl) hl hn (hcyc hf hl) j hj
      hrot a1 a2
  · intro hf v
    have := hfVertsFrom_spec k hf v
    exact ⟨this.1, this.2.1, this.2.2.1, this.2.2.2.1, (hfVertsFromHe_spec k hf).1⟩
  · intro a b c
    refine ⟨fun r h => ?_, (findHalfedgeInCell_spec k a b c).2⟩
    have := (findHalfedgeInCell_spec k a b c).1 r h
    exact ⟨this.1, this.2.1, this.2.2, fun hcl => findHalfedgeInCell_mem_closed k a b c r hcl h⟩
  · intro c hl l hn hv
    exact (nVerticesInCell_spec k c l hn).2 (Global.cellCyclic_of_ginv hi hq hl) hv
  · exact fun f e => isIncident_iff k f e

/-- **C10 on every reachable state**: after every history of valid calls (`Global.HistoryOK`) from the empty mesh that
    respects `Global.LoopOK` (unchecked `add_face(halfedges)` / `set_face` get closed loops, no `set_edge` on an edge of
    a live face) — all deletion modes, all bottom-up configurations — every lookup is sound and complete as stated in
    `Lookups`; the only hypotheses left are on the arguments (`uniqHe`: F11; duplicate-free halfface; closed cell) -/
theorem lookups_on_reachable_states (ops : List Op) (hr : Global.HistoryOK {} ops) (hc : LoopHistory {} ops) :
    Lookups (run {} ops) :=
  lookups_of_inv _ (ginv_reachable ops hr) (faceLoop_reachable ops hr hc)

/-- from any state satisfying the invariants (generated, loaded, …) -/
theorem lookups_after_history (k : Kernel) (ops : List Op) (hi : GInv k) (hq : FaceLoop k) (hr : Global.HistoryOK k ops)
    (hc : LoopHistory k ops) : Lookups (k.run ops) :=
  lookups_of_inv _ (Global.ginv_run k ops hi hr) (Global.faceLoop_run k ops hi hq hr hc)

/-- **closed cells stay closed**: after every history of valid calls whose cells are built by `add_cell` WITH topology
    check (or whose unchecked `add_cell` / `set_cell` get closed surfaces) and that does not `set_face` a face of a live
    cell (`Global.SurfOK`, decidable), every live cell is a `ClosedSurface` — through all deletions, swaps, garbage
    collections and mode switches (`Global.stable_cellsClosed`) -/
theorem cells_closed_on_reachable_states (ops : List Op) (hr : Global.HistoryOK {} ops) (hs : SurfHistory {} ops) :
    ∀ c, (run {} ops).liveC c = true → ClosedSurface (run {} ops) ((run {} ops).cellAt c) :=
  cellsClosed_reachable ops hr hs

/-- the lookups inside a cell on such states ("over closed cells" in the property's quantifier): no hypothesis on the
    halfface is left — no halfface of the cell repeats a halfedge, `find_halfface_in_cell` finds every halfface of the
    cell that has `v0 v1 v2` as consecutive vertices, and `find_halfedge_in_cell` returns a halfedge of the cell -/
theorem lookups_in_closed_cells_on_reachable_states (ops : List Op) (hr : Global.HistoryOK {} ops)
    (hc : LoopHistory {} ops) (hs : SurfHistory {} ops) :
    let k := run {} ops
    ∀ c, k.liveC c = true →
      (∀ hf ∈ k.cellAt c, (k.hfHes hf).Nodup ∧ HfCyclic k hf) ∧
      (∀ v0 v1 v2 rest hf i, hf ∈ k.cellAt c → i < (k.hfHes hf).length → (k.hfVerts hf)[i]? = some v0 →
        (k.hfVerts hf)[(i + 1) % (k.hfHes hf).length]? = some v1 →
        (k.hfVerts hf)[(i + 2) % (k.hfHes hf).length]? = some v2 →
        ∃ hf', k.findHalffaceInCell (v0 :: v1 :: v2 :: rest) c = some hf') ∧
      (∀ a b r, k.findHalfedgeInCell a b c = some r → r ∈ k.cellHalfedges (k.cellAt c)) := by
  intro k c hl
  have hi : GInv k := ginv_reachable ops hr
  have hq : FaceLoop k := faceLoop_reachable ops hr hc
  have hcl : ClosedSurface k (k.cellAt c) := cellsClosed_reachable ops hr hs c hl
  have hn := Global.nodup_hes_of_closedSurface hcl
  have hcc := Global.cellCyclic_of_ginv hi hq hl
  exact ⟨fun hf hm => ⟨hn hf hm, hcc hf hm⟩,
    fun v0 v1 v2 rest hf i hm hlt h0 h1 h2 =>
      findHalffaceInCell_complete_verts_partial k c v0 v1 v2 rest hf i hm (hcc hf hm) (hn hf hm) hlt h0 h1 h2,
    fun a b r h => findHalfedgeInCell_mem_closed k a b c r hcl h⟩

/-! ### non-vacuity -/

/-- two tetrahedra glued along a face, built through `add_face(vertices)` and checked `add_cell`, a dangling edge, one
    swap of each kind, and a DEFERRED `delete_face` of a face of the second tetrahedron (the face and the cell stay
    stored, flagged) -/
def lookupOps : List Op :=
  [.addNVertices 6, .addFaceV [0,1,2], .addFaceV [0,3,1], .addFaceV [1,3,2], .addFaceV [0,2,3],
   .addCell true [0,2,4,6],
   .addFaceV [0,1,4], .addFaceV [1,2,4], .addFaceV [2,0,4], .addCell true [1,8,10,12],
   .addEdge 4 5 false, .swapVertex 1 5, .swapEdge 0 3, .swapFace 1 2, .swapCell 0 1,
   .deleteFace 6]

set_option maxRecDepth 1000000 in
/-- the history is valid and respects `LoopOK` at every call (decided), so the bundle applies to its end state; there:
    cell 1 (the first tetrahedron after the swap) is live, cell 0 is flagged; `find_halfedge`, `find_halfface`,
    `find_halfface_in_cell`, `find_halfface_extensive` answer, and the answers are instances of the bundle -/
example :
    let k := run {} lookupOps
    Lookups k ∧ k.liveC 1 = true ∧ k.liveC 0 = false ∧ k.needsGC = true ∧
    k.findHalfedge 0 5 = some 6 ∧ k.findHalfedge 0 1 = none ∧ k.findHalffaceV [0, 5, 2] = some 0 ∧
    k.findHalffaceInCell [2, 5, 0] 1 = none ∧ k.findHalffaceInCell [0, 5, 2] 1 = some 0 ∧
    k.findHalffaceExtensive [5, 2, 0] = some 0 ∧ k.nVerticesInCell 1 = 4 ∧
    ClosedSurface k (k.cellAt 1) ∧ k.findHalfedgeInCell 5 0 1 = some 7 ∧ 7 ∈ k.cellHalfedges (k.cellAt 1) := by
  intro k
  have hr : Global.HistoryOK {} lookupOps := historyOK_of_B {} lookupOps (by decide)
  have hc : LoopHistory {} lookupOps := loopHistory_of_B {} lookupOps (by decide)
  have hs : SurfHistory {} lookupOps := surfHistory_of_B {} lookupOps (by decide)
  have hcell := lookups_in_closed_cells_on_reachable_states lookupOps hr hc hs 1 (by decide)
  exact ⟨lookups_on_reachable_states lookupOps hr hc,
    by decide, by decide, by decide, by decide, by decide, by decide, by decide, by decide, by decide, by decide,
    cells_closed_on_reachable_states lookupOps hr hs 1 (by decide), by decide, hcell.2.2 5 0 7 (by decide)⟩

end OVM.Props.C10

import OVM.Kernel.Lookup
import OVM.Refine.Inv
import OVM.Refine.LookupLemmas
/-
  C10 — lookup queries are sound and complete.
  Proved here for every state satisfying the cache invariant (lookups only read caches and
  definitions):
  * `find_halfedge(a,b)`: a returned halfedge is a live halfedge from `a` to `b`; `Invalid` is
    returned only if no live halfedge goes from `a` to `b` (soundness + completeness);
  * `find_halfface(he0, he1)`: a returned halfface is live and contains both halfedges; `Invalid`
    only if no live halfface contains both;
  * `find_halfface(v0,v1,v2)` is sound; it is complete when the halfedges `v0→v1`, `v1→v2` are unique
    (with parallel duplicate edges the two-stage lookup can miss a face: DESIGN F11);
  * `is_incident`, `next/prev_halfedge_in_halfface` basic facts
    (next/prev as cyclic successor/predecessor: Props/C08 `next_prev_inverse`, Refine/NextPrev).
  Second part (lemmas in OVM/Refine/LookupLemmas.lean, sample state `twoTets`):
  * `find_halfface_in_cell`: `findHalffaceInCell_sound` — a returned halfface is a halfface of the given cell
    and runs `v0→v1→v2` (needs the `incident_cell_per_hf_` clause of the cache invariant and that no other
    live cell lists a halfface of the cell; witness that this is needed); `findHalffaceInCell_complete`
    (no hypothesis); `findHalffaceInCell_none_iff`; vertex forms `findHalffaceInCell_sound_verts`,
    `findHalffaceInCell_complete_verts_partial`; `findHalffaceInCell_next_valid` (no read through an
    invalid handle).  Only the first three vertices are read.
  * `get_halfface_vertices(hf, vh)` / `(hf, heh)`: `hfVertsFrom_spec`, `hfVertsFromHe_spec`.
  * `find_halfface(v0,v1,v2,…)`: `findHalffaceV_complete_partial` under uniqueness of both halfedges
    (`uniqHe`), with `decide` witnesses that each uniqueness hypothesis is necessary (F11).
  * `n_vertices_in_cell`: `nVerticesInCell_spec`.
  * `find_halfedge_in_cell`: `findHalfedgeInCell_spec` (sound and complete, every state),
    `findHalfedgeInCell_mem_closed`.
  * `find_halfface_extensive`: `findHalffaceExtensive_sound` (the whole vertex cycle, up to rotation),
    `findHalffaceExtensive_complete_partial`.
-/
namespace OVM.Props.C10
open OVM OVM.Kernel

/-- membership in the outgoing list is being a live halfedge that starts at the vertex -/
theorem mem_sOut (k : Kernel) (v h : Nat) :
    h ∈ k.sOut v ↔ (h < k.nHE ∧ k.liveE (eOf h) = true ∧ k.fromV h = v) := by
  unfold sOut liveHes
  simp only [List.mem_filter, List.mem_range, beq_iff_eq]
  constructor
  · rintro ⟨⟨a, b⟩, c⟩; exact ⟨a, b, c⟩
  · rintro ⟨a, b, c⟩; exact ⟨⟨a, b⟩, c⟩

/-- `find_halfedge`: sound -/
theorem findHalfedge_sound (k : Kernel) (hI : CacheInv k) (hb : k.vBU = true) (a b h : Nat) (ha : a < k.nV)
    (hf : k.findHalfedge a b = some h) :
    h < k.nHE ∧ k.liveE (eOf h) = true ∧ k.fromV h = a ∧ k.toV h = b := by
  unfold findHalfedge at hf
  have hm := List.mem_of_find?_eq_some hf
  have hp := List.find?_some hf
  unfold qVOH at hm; simp only [hb, if_true] at hm
  have := ((hI.v hb).2 a ha).mem_iff.mp hm
  rw [mem_sOut] at this
  exact ⟨this.1, this.2.1, this.2.2, by simpa using hp⟩

/-- `find_halfedge`: complete -/
theorem findHalfedge_complete (k : Kernel) (hI : CacheInv k) (hb : k.vBU = true) (a b : Nat) (ha : a < k.nV)
    (hn : k.findHalfedge a b = none) :
    ¬ ∃ h, h < k.nHE ∧ k.liveE (eOf h) = true ∧ k.fromV h = a ∧ k.toV h = b := by
  rintro ⟨h, h1, h2, h3, h4⟩
  unfold findHalfedge at hn
  rw [List.find?_eq_none] at hn
  have hm : h ∈ k.qVOH a := by
    unfold qVOH; simp only [hb, if_true]
    exact ((hI.v hb).2 a ha).mem_iff.mpr ((mem_sOut k a h).mpr ⟨h1, h2, h3⟩)
  have := hn h hm
  simp [h4] at this

/-- membership in the halffaces of a halfedge -/
theorem mem_sHfsOfHe (k : Kernel) (h hf : Nat) :
    hf ∈ k.sHfsOfHe h ↔ (hf < k.nHF ∧ k.liveF (eOf hf) = true ∧ h ∈ k.hfHes hf) := by
  unfold sHfsOfHe liveHfs
  simp only [List.mem_flatMap, List.mem_filter, List.mem_range, List.mem_replicate]
  constructor
  · rintro ⟨x, ⟨hx1, hx2⟩, hc, rfl⟩
    exact ⟨hx1, hx2, List.count_pos_iff.mp (Nat.pos_of_ne_zero hc)⟩
  · rintro ⟨h1, h2, h3⟩
    exact ⟨hf, ⟨h1, h2⟩, Nat.ne_of_gt (List.count_pos_iff.mpr h3), rfl⟩

/-- `find_halfface(he0, he1)`: sound and complete -/
theorem findHalffaceHes_sound (k : Kernel) (hI : CacheInv k) (hb : k.eBU = true) (he0 he1 hf : Nat) (h0 : he0 < k.nHE)
    (hfd : k.findHalffaceHes he0 he1 = some hf) :
    hf < k.nHF ∧ k.liveF (eOf hf) = true ∧ he0 ∈ k.hfHes hf ∧ he1 ∈ k.hfHes hf := by
  unfold findHalffaceHes at hfd
  have hm := List.mem_of_find?_eq_some hfd
  have hp := List.find?_some hfd
  unfold qHEHF at hm; simp only [hb, if_true] at hm
  have := ((hI.e hb).2 he0 h0).mem_iff.mp hm
  rw [mem_sHfsOfHe] at this
  exact ⟨this.1, this.2.1, this.2.2, by simpa using hp⟩

theorem findHalffaceHes_complete (k : Kernel) (hI : CacheInv k) (hb : k.eBU = true) (he0 he1 : Nat) (h0 : he0 < k.nHE)
    (hn : k.findHalffaceHes he0 he1 = none) :
    ¬ ∃ hf, hf < k.nHF ∧ k.liveF (eOf hf) = true ∧ he0 ∈ k.hfHes hf ∧ he1 ∈ k.hfHes hf := by
  rintro ⟨hf, h1, h2, h3, h4⟩
  unfold findHalffaceHes at hn
  rw [List.find?_eq_none] at hn
  have hm : hf ∈ k.qHEHF he0 := by
    unfold qHEHF; simp only [hb, if_true]
    exact ((hI.e hb).2 he0 h0).mem_iff.mpr ((mem_sHfsOfHe k he0 hf).mpr ⟨h1, h2, h3⟩)
  have := hn hf hm
  simp [h4] at this

/-- `find_halfface(v0,v1,v2,…)`: a returned halfface is live and runs `v0→v1` and `v1→v2` -/
theorem findHalffaceV_sound (k : Kernel) (hI : CacheInv k) (hv : k.vBU = true) (he : k.eBU = true)
    (v0 v1 v2 : Nat) (rest : List Nat) (hf : Nat) (h0 : v0 < k.nV) (h1 : v1 < k.nV)
    (hfd : k.findHalffaceV (v0 :: v1 :: v2 :: rest) = some hf) :
    k.liveF (eOf hf) = true ∧ (∃ a ∈ k.hfHes hf, k.fromV a = v0 ∧ k.toV a = v1) ∧
    (∃ b ∈ k.hfHes hf, k.fromV b = v1 ∧ k.toV b = v2) := by
  unfold findHalffaceV at hfd
  simp only at hfd
  cases ha : k.findHalfedge v0 v1 with
  | none => simp [ha] at hfd
  | some a =>
    cases hb : k.findHalfedge v1 v2 with
    | none => simp [ha, hb] at hfd
    | some b =>
      simp only [ha, hb] at hfd
      have sa := findHalfedge_sound k hI hv v0 v1 a h0 ha
      have sb := findHalfedge_sound k hI hv v1 v2 b h1 hb
      have sf := findHalffaceHes_sound k hI he a b hf sa.1 hfd
      exact ⟨sf.2.1, ⟨a, sf.2.2.1, sa.2.2.1, sa.2.2.2⟩, ⟨b, sf.2.2.2, sb.2.2.1, sb.2.2.2⟩⟩

/-- `is_incident(face, edge)` is exactly "some halfedge of the face belongs to the edge" -/
theorem isIncident_iff (k : Kernel) (f e : Nat) : k.isIncident f e = true ↔ ∃ h ∈ k.faceAt f, eOf h = e := by
  unfold isIncident; simp

/-- `next_halfedge_in_halfface` returns a halfedge of that halfface, or Invalid when the given
    halfedge is not part of it -/
theorem nextHe_mem (k : Kernel) (he hf r : Nat) (h : k.nextHe he hf = some r) : r ∈ k.hfHes hf ∧ he ∈ k.hfHes hf := by
  unfold nextHe at h
  simp only at h
  cases hi : idxOf? (k.hfHes hf) he with
  | none => simp [hi] at h
  | some i =>
    simp only [hi] at h
    have hidx : i < (k.hfHes hf).length ∧ (k.hfHes hf)[i]? = some he := by
      unfold idxOf? at hi
      simp only at hi
      split at hi
      · rename_i hlt
        injection hi with hi; subst hi
        refine ⟨hlt, ?_⟩
        have := List.findIdx_getElem (w := hlt)
        rw [List.getElem?_eq_getElem hlt]; simpa using this
      · cases hi
    refine ⟨?_, List.mem_of_getElem? hidx.2⟩
    split at h
    · exact List.mem_of_getElem? h
    · exact List.mem_of_mem_head? h

example :
    let k : Kernel := { nV := 3, edges := [(0, 1), (1, 2), (2, 0)], eDel := [false, false, false], vDel := [false, false, false],
                        faces := [[0, 2, 4]], fDel := [false], outHes := [[0, 5], [2, 1], [4, 3]],
                        incHfs := [[0], [1], [0], [1], [0], [1]], incCell := [none, none] }
    k.cacheInvB = true ∧ k.findHalfedge 0 1 = some 0 ∧ k.findHalfedge 1 0 = some 1 ∧ k.findHalfedge 0 0 = none ∧
    k.findHalffaceV [0, 1, 2] = some 0 ∧ k.findHalffaceV [1, 0, 2] = some 1 ∧ k.nextHe 4 0 = some 0 := by decide

open OVM.Kernel.Lookup

/-! ## find_halfface_in_cell, get_halfface_vertices, n_vertices_in_cell, find_halfedge_in_cell,
    find_halfface_extensive, completeness of the two-stage vertex lookup
    (lemmas: OVM/Refine/LookupLemmas.lean) -/

/-- sample state for the non-vacuity examples: the tetrahedra `0 1 2 3` (cell 0, halffaces `1 2 7 8`) and
    `0 1 3 4` (cell 1, halffaces `3 4 11 12`) glued along face 1 (vertices `0 1 3`) -/
def twoTets : Kernel :=
  { nV := 5,
    edges := [(0, 1), (1, 2), (2, 0), (1, 3), (3, 0), (1, 4), (4, 0), (2, 3), (3, 4), (4, 2)],
    faces := [[0, 2, 4], [0, 6, 8], [0, 10, 12], [5, 14, 8], [2, 14, 7], [9, 16, 12], [6, 16, 11],
              [13, 18, 4], [10, 18, 3]],
    cells := [[1, 2, 7, 8], [3, 4, 11, 12]],
    vDel := List.replicate 5 false, eDel := List.replicate 10 false, fDel := List.replicate 9 false,
    cDel := List.replicate 2 false,
    outHes := [[0, 5, 9, 13], [1, 2, 6, 10], [3, 4, 14, 19], [7, 8, 15, 16], [11, 12, 17, 18]],
    incHfs := [[0, 2, 4], [5, 3, 1], [8, 0, 17], [16, 1, 9], [7, 0, 14], [15, 1, 6], [12, 2, 9],
               [8, 3, 13], [11, 2, 6], [7, 3, 10], [16, 4, 13], [12, 5, 17], [15, 4, 10], [11, 5, 14],
               [8, 6], [7, 9], [12, 10], [11, 13], [16, 14], [15, 17]],
    incCell := [none, some 0, some 0, some 1, some 1, none, none, some 0, some 0, none, none,
                some 1, some 1, none, none, none, none, none] }

theorem twoTets_inv : CacheInv twoTets := cacheInv_of_cacheInvB _ (by decide)

theorem twoTets_exclusive (c : Nat) (hc : c < 2) : CellExclusive twoTets c :=
  cellExclusive_of_oneCell twoTets c (by decide) hc
    (by have : c = 0 ∨ c = 1 := by omega
        rcases this with rfl | rfl <;> decide)
    (by have : c = 0 ∨ c = 1 := by omega
        rcases this with rfl | rfl <;> decide)

/-- **`find_halfface_in_cell` is sound** (cc:1982-2011).  For every state satisfying the cache invariant
    with face bottom-up incidences on (only the clause `CacheInv.f` about `incident_cell_per_hf_` is used:
    `adjacent_halfface_in_cell` reads that cache), every cell `c` none of whose halffaces is listed by
    another not-deleted cell (`CellExclusive`, C01's precondition seen from `c`) and every vertex list
    `v0 :: v1 :: v2 :: rest`: a returned halfface **is a halfface of cell `c`**, one of its halfedges
    goes from `v0` to `v1`, and `next_halfedge_in_halfface` of that halfedge ends in `v2`.
    The C++ reads only `_vs[0.._vs[2]` (cc:1986), so nothing is claimed about `rest`. -/
theorem findHalffaceInCell_sound (k : Kernel) (hI : CacheInv k) (hb : k.fBU = true) (c v0 v1 v2 : Nat)
    (rest : List Nat) (hf : Nat) (hx : CellExclusive k c)
    (h : k.findHalffaceInCell (v0 :: v1 :: v2 :: rest) c = some hf) :
    hf ∈ k.cellAt c ∧ RunsThrough k hf v0 v1 v2 :=
  Lookup.findHalffaceInCell_sound k c v0 v1 v2 rest hf (cellCacheOK_of_inv k c hI.f hb hx) h

/-- the same with the hypotheses of C01 spelt out (`oneCell`, a live cell, halfface handles in range), and,
    when the returned halfface is a closed halfedge cycle, in the vertex form: `v0 v1 v2` are three
    cyclically consecutive vertices of the returned halfface -/
theorem findHalffaceInCell_sound_verts (k : Kernel) (hI : CacheInv k) (hb : k.fBU = true) (h1 : k.oneCell = true)
    (c v0 v1 v2 : Nat) (rest : List Nat) (hf : Nat) (hc : c < k.nC) (hd : k.cDeleted c = false)
    (hr : ∀ x ∈ k.cellAt c, x < k.nHF) (hcyc : ∀ x ∈ k.cellAt c, HfCyclic k x)
    (h : k.findHalffaceInCell (v0 :: v1 :: v2 :: rest) c = some hf) :
    hf ∈ k.cellAt c ∧ ∃ i, i < (k.hfHes hf).length ∧ (k.hfVerts hf)[i]? = some v0 ∧
      (k.hfVerts hf)[(i + 1) % (k.hfHes hf).length]? = some v1 ∧
      (k.hfVerts hf)[(i + 2) % (k.hfHes hf).length]? = some v2 := by
  have := findHalffaceInCell_sound k hI hb c v0 v1 v2 rest hf (cellExclusive_of_oneCell k c h1 hc hd hr) h
  exact ⟨this.1, runsThrough_verts k hf v0 v1 v2 (hcyc hf this.1) this.2⟩

/-- **`find_halfface_in_cell` is complete** — no hypothesis on the state: if some halfface of the cell
    runs `v0 → v1 → v2` the function returns a halfface (by soundness one of the cell running
    `v0 → v1 → v2`).  `runsThrough_of_pos` gives `RunsThrough` from positions on a halfface whose halfedge
    list has no duplicate. -/
theorem findHalffaceInCell_complete (k : Kernel) (c v0 v1 v2 : Nat) (rest : List Nat) (hf : Nat)
    (hm : hf ∈ k.cellAt c) (hr : RunsThrough k hf v0 v1 v2) :
    ∃ hf', k.findHalffaceInCell (v0 :: v1 :: v2 :: rest) c = some hf' :=
  Lookup.findHalffaceInCell_complete k c v0 v1 v2 rest hf hm hr

/-- `Invalid` exactly when no halfface of the cell runs through the three vertices -/
theorem findHalffaceInCell_none_iff (k : Kernel) (hI : CacheInv k) (hb : k.fBU = true) (c v0 v1 v2 : Nat)
    (rest : List Nat) (hx : CellExclusive k c) :
    k.findHalffaceInCell (v0 :: v1 :: v2 :: rest) c = none ↔ ¬ ∃ hf ∈ k.cellAt c, RunsThrough k hf v0 v1 v2 := by
  constructor
  · rintro hn ⟨hf, hm, hr⟩
    obtain ⟨hf', h'⟩ := findHalffaceInCell_complete k c v0 v1 v2 rest hf hm hr
    rw [hn] at h'; cases h'
  · intro hne
    cases h : k.findHalffaceInCell (v0 :: v1 :: v2 :: rest) c with
    | none => rfl
    | some hf =>
      have := findHalffaceInCell_sound k hI hb c v0 v1 v2 rest hf hx h
      exact absurd ⟨hf, this.1, this.2⟩ hne

/-- non-vacuity: in cell 0 of `twoTets` the query `0 1 3` is answered through the second branch (halfface 1
    holds the halfedge `1→0`, its neighbour across that edge is halfface 2); the theorem applies and
    yields membership.  `0 1 2` has no halfface in cell 0 (halfface 0 = `opposite_halfface(1)` has those
    vertices but is not in the cell: what the planted regression returned), it has one in no cell;
    `0 1 4` is found in cell 1 only. -/
example : twoTets.findHalffaceInCell [0, 1, 3] 0 = some 2 ∧ twoTets.adjHalffaceInCell 1 1 = some 2 ∧
    twoTets.findHalffaceInCell [0, 1, 2] 0 = none ∧ twoTets.hfVerts 0 = [0, 1, 2] ∧ 0 ∉ twoTets.cellAt 0 ∧
    twoTets.findHalffaceInCell [0, 1, 4] 0 = none ∧ twoTets.findHalffaceInCell [0, 1, 4] 1 = some 4 ∧
    twoTets.findHalffaceInCell [0, 1, 3, 99] 0 = some 2 := by decide
example : 2 ∈ twoTets.cellAt 0 ∧ RunsThrough twoTets 2 0 1 3 :=
  findHalffaceInCell_sound twoTets twoTets_inv rfl 0 0 1 3 [] 2 (twoTets_exclusive 0 (by omega)) (by decide)
example : ∃ hf', twoTets.findHalffaceInCell [1, 3, 0] 0 = some hf' :=
  findHalffaceInCell_complete twoTets 0 1 3 0 [] 2 (by decide)
    (runsThrough_of_pos twoTets 2 1 3 0 1 (by decide) (by decide) (by decide) (by decide) (by decide))

/-- `CellExclusive` is needed: with a halfface listed by two live cells (outside C01's precondition; the cache
    then names the first of them) the second branch answers from the other cell -/
example :
    let k : Kernel :=
      { twoTets with
        cells := [[1, 2, 7, 8], [1, 4, 11, 12]],
        incCell := [none, some 0, some 0, none, some 1, none, none, some 0, some 0, none, none,
                    some 1, some 1, none, none, none, none, none] }
    k.cacheInvB = true ∧ k.oneCell = false ∧ k.findHalffaceInCell [0, 1, 3] 1 = some 2 ∧ 2 ∉ k.cellAt 1 := by
  decide

/-! ### get_halfface_vertices -/

/-- **`get_halfface_vertices(hf, vh)`** (cc:2187-2209), every state: the result is a rotation of the vertex
    cycle `get_halfface_vertices(hf)` (so a permutation of the same length that keeps the cyclic order);
    it starts with `vh` when `vh` is a vertex of the halfface and is the unrotated cycle otherwise; it is
    what the C++ circulator loop reads (`circulateFrom`). -/
theorem hfVertsFrom_spec (k : Kernel) (hf v : Nat) :
    (∃ i, k.hfVertsFrom hf v = (k.hfVerts hf).rotateLeft i) ∧
    (k.hfVertsFrom hf v).Perm (k.hfVerts hf) ∧
    (v ∈ k.hfVerts hf → (k.hfVertsFrom hf v).head? = some v) ∧
    (v ∉ k.hfVerts hf → k.hfVertsFrom hf v = k.hfVerts hf) ∧
    k.hfVertsFrom hf v = circulateFrom (k.hfVerts hf) v :=
  ⟨hfVertsFrom_rotation k hf v, hfVertsFrom_perm k hf v, hfVertsFrom_head k hf v, hfVertsFrom_absent k hf v,
   hfVertsFrom_eq_circulate k hf v⟩

/-- **`get_halfface_vertices(hf, heh)`** (cc:2215-2218) is `get_halfface_vertices(hf, from_vertex(heh))`
    (`hfVertsFromHe`; the kernel model has no separate function, the judge compares this expression):
    for a halfedge of the halfface the result starts with its source, and on a halfface without a
    repeated vertex it is the vertex cycle read from that very halfedge on. -/
theorem hfVertsFromHe_spec (k : Kernel) (hf : Nat) :
    (∀ he ∈ k.hfHes hf, (hfVertsFromHe k hf he).head? = some (k.fromV he)) ∧
    (∀ he, ∃ i, hfVertsFromHe k hf he = (k.hfVerts hf).rotateLeft i) ∧
    ((k.hfVerts hf).Nodup → ∀ i (hi : i < (k.hfHes hf).length),
      hfVertsFromHe k hf ((k.hfHes hf)[i]) = ((k.hfHes hf).rotateLeft i).map k.fromV) :=
  ⟨fun he hm => hfVertsFromHe_head k hf he hm, fun he => hfVertsFrom_rotation k hf (k.fromV he),
   fun hn i hi => hfVertsFromHe_simple k hf i hn hi⟩

/-- non-vacuity; the last line: on a halfface that visits a vertex twice (a figure eight `0 1 2 0 3 4`)
    the halfedge form starts at the *first* visit of the source, not at the given halfedge -/
example : twoTets.hfVerts 8 = [1, 2, 3] ∧ twoTets.hfVertsFrom 8 3 = [3, 1, 2] ∧ twoTets.hfVertsFrom 8 2 = [2, 3, 1] ∧
    twoTets.hfVertsFrom 8 0 = [1, 2, 3] ∧ hfVertsFromHe twoTets 8 14 = [2, 3, 1] ∧ twoTets.hfHes 8 = [2, 14, 7] ∧
    (twoTets.hfVerts 8).Nodup ∧
    (let k : Kernel := { nV := 5, edges := [(0, 1), (1, 2), (2, 0), (0, 3), (3, 4), (4, 0)], faces := [[0, 2, 4, 6, 8, 10]] }
     k.hfVerts 0 = [0, 1, 2, 0, 3, 4] ∧ hfVertsFromHe k 0 6 = [0, 1, 2, 0, 3, 4] ∧
     ((k.hfHes 0).rotateLeft 3).map k.fromV = [0, 3, 4, 0, 1, 2]) := by decide

/-! ### find_halfface(v0, v1, v2, …): completeness under uniqueness -/

/-- **completeness of the two-stage vertex lookup** (cc:1960-1978) when the halfedges `v0→v1` and `v1→v2`
    are unique among the not-deleted halfedges (`uniqHe`, decidable): if a not-deleted halfface holds
    not-deleted halfedges `v0→v1` and `v1→v2`, a halfface is returned (by `findHalffaceV_sound` a live one
    holding such halfedges).  `_partial`: without uniqueness a face can be hidden, see the witnesses below
    (DESIGN F11, a documented limitation of the C++). -/
theorem findHalffaceV_complete_partial (k : Kernel) (hI : CacheInv k) (hv : k.vBU = true) (he : k.eBU = true)
    (v0 v1 v2 : Nat) (rest : List Nat) (h0 : v0 < k.nV) (h1 : v1 < k.nV)
    (hu0 : uniqHe k v0 v1 = true) (hu1 : uniqHe k v1 v2 = true)
    (hf a b : Nat) (hlt : hf < k.nHF) (hl : k.liveF (eOf hf) = true)
    (ha : a ∈ k.hfHes hf) (ha1 : a < k.nHE) (ha2 : k.liveE (eOf a) = true) (ha3 : k.fromV a = v0) (ha4 : k.toV a = v1)
    (hb : b ∈ k.hfHes hf) (hb1 : b < k.nHE) (hb2 : k.liveE (eOf b) = true) (hb3 : k.fromV b = v1) (hb4 : k.toV b = v2) :
    ∃ hf', k.findHalffaceV (v0 :: v1 :: v2 :: rest) = some hf' := by
  unfold findHalffaceV
  simp only
  cases hfa : k.findHalfedge v0 v1 with
  | none => exact absurd ⟨a, ha1, ha2, ha3, ha4⟩ (findHalfedge_complete k hI hv v0 v1 h0 hfa)
  | some a' =>
    cases hfb : k.findHalfedge v1 v2 with
    | none => exact absurd ⟨b, hb1, hb2, hb3, hb4⟩ (findHalfedge_complete k hI hv v1 v2 h1 hfb)
    | some b' =>
      have sa := findHalfedge_sound k hI hv v0 v1 a' h0 hfa
      have sb := findHalfedge_sound k hI hv v1 v2 b' h1 hfb
      have ea : a' = a := uniqHe_eq k v0 v1 a' a hu0 sa.1 sa.2.1 sa.2.2.1 sa.2.2.2 ha1 ha2 ha3 ha4
      have eb : b' = b := uniqHe_eq k v1 v2 b' b hu1 sb.1 sb.2.1 sb.2.2.1 sb.2.2.2 hb1 hb2 hb3 hb4
      subst ea; subst eb
      simp only
      cases hff : k.findHalffaceHes a' b' with
      | some x => exact ⟨x, rfl⟩
      | none => exact absurd ⟨hf, hlt, hl, ha, hb⟩ (findHalffaceHes_complete k hI he a' b' ha1 hff)

/-- both uniqueness hypotheses are necessary (F11): a parallel duplicate of edge `0→1` (first state) or of
    edge `1→2` (second state) hides the only face `0 1 2` from `find_halfface`, in states that satisfy
    the cache invariant -/
example :
    (let k : Kernel := { nV := 3, edges := [(0, 1), (1, 2), (2, 0), (0, 1)], eDel := [false, false, false, false],
                         vDel := [false, false, false], faces := [[6, 2, 4]], fDel := [false],
                         outHes := [[0, 5, 6], [1, 2, 7], [3, 4]],
                         incHfs := [[], [], [0], [1], [0], [1], [0], [1]], incCell := [none, none] }
     k.cacheInvB = true ∧ k.hfVerts 0 = [0, 1, 2] ∧ k.liveF 0 = true ∧ k.findHalffaceV [0, 1, 2] = none ∧
     uniqHe k 0 1 = false ∧ uniqHe k 1 2 = true) ∧
    (let k : Kernel := { nV := 3, edges := [(0, 1), (1, 2), (2, 0), (1, 2)], eDel := [false, false, false, false],
                         vDel := [false, false, false], faces := [[0, 6, 4]], fDel := [false],
                         outHes := [[0, 5], [1, 2, 6], [3, 4, 7]],
                         incHfs := [[0], [1], [], [], [0], [1], [0], [1]], incCell := [none, none] }
     k.cacheInvB = true ∧ k.hfVerts 0 = [0, 1, 2] ∧ k.liveF 0 = true ∧ k.findHalffaceV [0, 1, 2] = none ∧
     uniqHe k 0 1 = true ∧ uniqHe k 1 2 = false) := by decide

/-- non-vacuity of `findHalffaceV_complete_partial` -/
example : ∃ hf', twoTets.findHalffaceV [1, 3, 0] = some hf' :=
  findHalffaceV_complete_partial twoTets twoTets_inv rfl rfl 1 3 0 [] (by decide) (by decide) (by decide) (by decide)
    2 6 8 (by decide) (by decide) (by decide) (by decide) (by decide) (by decide) (by decide)
    (by decide) (by decide) (by decide) (by decide) (by decide)

/-! ### n_vertices_in_cell -/

/-- **`n_vertices_in_cell`** (hh:1098-1108) is the number of distinct target vertices of the halfedges of
    the cell's halffaces: the length of any duplicate-free list with exactly those members; when the
    halffaces of the cell are closed halfedge cycles this is the number of distinct vertices of the cell's
    halffaces. -/
theorem nVerticesInCell_spec (k : Kernel) (c : Nat) (l : List Nat) (hn : l.Nodup) :
    ((∀ v, v ∈ l ↔ ∃ hf ∈ k.cellAt c, ∃ h ∈ k.hfHes hf, k.toV h = v) → k.nVerticesInCell c = l.length) ∧
    ((∀ hf ∈ k.cellAt c, HfCyclic k hf) → (∀ v, v ∈ l ↔ ∃ hf ∈ k.cellAt c, v ∈ k.hfVerts hf) →
      k.nVerticesInCell c = l.length) :=
  ⟨fun hl => Lookup.nVerticesInCell_spec k c l hn hl, fun hc hl => nVerticesInCell_spec_cyclic k c hc l hn hl⟩

example : twoTets.nVerticesInCell 0 = 4 ∧ twoTets.nVerticesInCell 1 = 4 := by decide
example : twoTets.nVerticesInCell 1 = [0, 1, 3, 4].length :=
  (nVerticesInCell_spec twoTets 1 [0, 1, 3, 4] (by decide)).1 (by
    intro v
    have hv : v ∈ [0, 1, 3, 4] ∨ v ∉ [0, 1, 3, 4] := Decidable.em _
    constructor
    · intro h
      simp only [List.mem_cons, List.not_mem_nil, or_false] at h
      rcases h with rfl | rfl | rfl | rfl <;> decide
    · rintro ⟨hf, h1, h, h2, rfl⟩
      have : ∀ hf ∈ twoTets.cellAt 1, ∀ h ∈ twoTets.hfHes hf, twoTets.toV h ∈ [0, 1, 3, 4] := by decide
      exact this hf h1 h h2)

/-! ### find_halfedge_in_cell -/

/-- **`find_halfedge_in_cell`** (cc:1932-1949), every state: a returned halfedge goes from `a` to `b` and it
    or its opposite is a halfedge of a halfface of the cell; `Invalid` is returned exactly when no
    halfedge of a halfface of the cell joins the two vertices in either direction. -/
theorem findHalfedgeInCell_spec (k : Kernel) (a b c : Nat) :
    (∀ r, k.findHalfedgeInCell a b c = some r →
      k.fromV r = a ∧ k.toV r = b ∧ ∃ hf ∈ k.cellAt c, r ∈ k.hfHes hf ∨ opp r ∈ k.hfHes hf) ∧
    (k.findHalfedgeInCell a b c = none ↔
      ¬ ∃ hf ∈ k.cellAt c, ∃ h ∈ k.hfHes hf, (k.fromV h = a ∧ k.toV h = b) ∨ (k.fromV h = b ∧ k.toV h = a)) :=
  ⟨fun r h => findHalfedgeInCell_sound k a b c r h, findHalfedgeInCell_none_iff k a b c⟩

example : twoTets.findHalfedgeInCell 0 3 0 = some 9 ∧ twoTets.findHalfedgeInCell 3 0 0 = some 8 ∧
    twoTets.findHalfedgeInCell 0 4 0 = none ∧ twoTets.findHalfedgeInCell 0 4 1 = some 13 ∧
    twoTets.halfedge 9 = (0, 3) := by decide

/-! ### find_halfface_extensive -/

/-- **`find_halfface_extensive` is sound** (cc:2025-2068): a returned halfface is not deleted and its
    vertex cycle, read from some position on, is exactly the requested list (all of it, unlike
    `find_halfface`): `(hfVerts hf).rotateLeft i = vs`.  (The model also answers two-element lists; the C++
    asserts `size > 2`.) -/
theorem findHalffaceExtensive_sound (k : Kernel) (hI : CacheInv k) (hv : k.vBU = true) (he : k.eBU = true)
    (v0 v1 : Nat) (rest : List Nat) (hf : Nat) (h0 : v0 < k.nV)
    (h : k.findHalffaceExtensive (v0 :: v1 :: rest) = some hf) :
    hf < k.nHF ∧ k.liveF (eOf hf) = true ∧
    ∃ i, i < (k.hfHes hf).length ∧ (k.hfVerts hf).rotateLeft i = v0 :: v1 :: rest := by
  unfold findHalffaceExtensive at h
  simp only at h
  cases ha : k.findHalfedge v0 v1 with
  | none => simp [ha] at h
  | some a =>
    simp only [ha] at h
    have sa := findHalfedge_sound k hI hv v0 v1 a h0 ha
    have hm := List.mem_of_find?_eq_some h
    have hp := List.find?_some h
    unfold qHEHF at hm; simp only [he, if_true] at hm
    have hlive := ((hI.e he).2 a sa.1).mem_iff.mp hm
    rw [mem_sHfsOfHe] at hlive
    simp only [Bool.and_eq_true, beq_iff_eq] at hp
    have hpos : 0 < (k.hfHes hf).length := by rw [hp.1]; simp
    have hoff := lastIdxOf_lt (k.hfHes hf) a hpos
    exact ⟨hlive.1, hlive.2.1, _, hoff, rotation_of_all k hf _ _ hoff hp.1 hp.2⟩

/-- **completeness of `find_halfface_extensive`, partial**: if a not-deleted halfface without a repeated
    halfedge, whose halfedges form a closed cycle, has the requested vertex cycle from position `j` on, its
    halfedge at `j` is not deleted and the halfedge `v0→v1` is unique, a halfface is returned.
    `_partial`: with parallel duplicates of `v0→v1` the face can be hidden exactly as for `find_halfface`
    (F11); a halfface repeating the halfedge makes the C++ take the *last* occurrence as offset. -/
theorem findHalffaceExtensive_complete_partial (k : Kernel) (hI : CacheInv k) (hv : k.vBU = true) (he : k.eBU = true)
    (v0 v1 : Nat) (rest : List Nat) (h0 : v0 < k.nV) (hu : uniqHe k v0 v1 = true)
    (hf : Nat) (hlt : hf < k.nHF) (hl : k.liveF (eOf hf) = true) (hn : (k.hfHes hf).Nodup) (hc : HfCyclic k hf)
    (j : Nat) (hj : j < (k.hfHes hf).length) (hrot : (k.hfVerts hf).rotateLeft j = v0 :: v1 :: rest)
    (ha1 : (k.hfHes hf)[j] < k.nHE) (ha2 : k.liveE (eOf ((k.hfHes hf)[j])) = true) :
    ∃ hf', k.findHalffaceExtensive (v0 :: v1 :: rest) = some hf' := by
  obtain ⟨hlen, hall⟩ := all_of_rotation k hf j _ hj hrot
  have hl2 : 2 ≤ (k.hfHes hf).length := by rw [hlen]; simp
  have hvl : (k.hfVerts hf).length = (k.hfHes hf).length := by unfold hfVerts; simp
  -- the halfedge at `j` goes from `v0` to `v1`
  have e0 : k.fromV ((k.hfHes hf)[j]) = v0 := by
    have := getElem?_rotateLeft (k.hfVerts hf) j 0 (by omega) (by omega)
    rw [hrot, hvl, Nat.add_zero, Nat.mod_eq_of_lt hj, hfVerts_getElem? k hf j hj] at this
    simpa using this.symm
  have e1 : k.toV ((k.hfHes hf)[j]) = v1 := by
    have hlt1 : (j + 1) % (k.hfHes hf).length < (k.hfHes hf).length := Nat.mod_lt _ (by omega)
    have := getElem?_rotateLeft (k.hfVerts hf) j 1 (by omega) (by omega)
    rw [hrot, hvl, hfVerts_getElem? k hf _ hlt1, ← hc j hj] at this
    simpa using this.symm
  unfold findHalffaceExtensive
  simp only
  cases hfa : k.findHalfedge v0 v1 with
  | none => exact absurd ⟨_, ha1, ha2, e0, e1⟩ (findHalfedge_complete k hI hv v0 v1 h0 hfa)
  | some a' =>
    have sa := findHalfedge_sound k hI hv v0 v1 a' h0 hfa
    have ea : a' = (k.hfHes hf)[j] := uniqHe_eq k v0 v1 a' _ hu sa.1 sa.2.1 sa.2.2.1 sa.2.2.2 ha1 ha2 e0 e1
    simp only
    cases hres : (k.qHEHF a').find? _ with
    | some x => exact ⟨x, rfl⟩
    | none =>
      exfalso
      rw [List.find?_eq_none] at hres
      have hm : hf ∈ k.qHEHF a' := by
        unfold qHEHF; simp only [he, if_true]
        exact ((hI.e he).2 a' sa.1).mem_iff.mpr ((mem_sHfsOfHe k a' hf).mpr ⟨hlt, hl, by rw [ea]; exact List.getElem_mem hj⟩)
      have := hres hf hm
      rw [ea, lastIdxOf_nodup _ hn j hj] at this
      apply this
      rw [Bool.and_eq_true]
      exact ⟨beq_iff_eq.mpr hlen, hall⟩

example : twoTets.findHalffaceExtensive [0, 1, 3] = some 2 ∧ twoTets.findHalffaceExtensive [1, 3, 0] = some 2 ∧
    twoTets.findHalffaceExtensive [3, 1, 0] = some 3 ∧ twoTets.findHalffaceExtensive [0, 1, 3, 2] = none ∧
    twoTets.findHalffaceV [0, 1, 3, 2] = some 2 ∧
    twoTets.hfVerts 2 = [0, 1, 3] := by decide
example : ∃ i, i < (twoTets.hfHes 2).length ∧ (twoTets.hfVerts 2).rotateLeft i = [1, 3, 0] :=
  (findHalffaceExtensive_sound twoTets twoTets_inv rfl rfl 1 3 [0] 2 (by decide) (by decide)).2.2
example : ∃ hf', twoTets.findHalffaceExtensive [3, 0, 1] = some hf' :=
  findHalffaceExtensive_complete_partial twoTets twoTets_inv rfl rfl 3 0 [1] (by decide) (by decide) 2 (by decide)
    (by decide) (by decide) (hfCyclic_of_B _ _ (by decide)) 2 (by decide) (by decide) (by decide) (by decide)

/-! ### find_halfface_in_cell against the brute-force search over vertex cycles -/

/-- **completeness of `find_halfface_in_cell` in the vertex form, partial**: if a halfface of the cell whose
    halfedges form a closed cycle without a repeated halfedge has `v0 v1 v2` as three cyclically consecutive
    vertices, a halfface is returned.  `_partial`: for a halfface that repeats a halfedge
    `next_halfedge_in_halfface` continues from the first occurrence only, so a later run can be missed
    (such halffaces cannot be part of a cell accepted by `add_cell`'s check). -/
theorem findHalffaceInCell_complete_verts_partial (k : Kernel) (c v0 v1 v2 : Nat) (rest : List Nat) (hf i : Nat)
    (hm : hf ∈ k.cellAt c) (hc : HfCyclic k hf) (hn : (k.hfHes hf).Nodup) (hi : i < (k.hfHes hf).length)
    (h0 : (k.hfVerts hf)[i]? = some v0) (h1 : (k.hfVerts hf)[(i + 1) % (k.hfHes hf).length]? = some v1)
    (h2 : (k.hfVerts hf)[(i + 2) % (k.hfHes hf).length]? = some v2) :
    ∃ hf', k.findHalffaceInCell (v0 :: v1 :: v2 :: rest) c = some hf' :=
  findHalffaceInCell_complete k c v0 v1 v2 rest hf hm (runsThrough_of_verts k hf v0 v1 v2 i hc hn hi h0 h1 h2)

example : ∃ hf', twoTets.findHalffaceInCell [3, 1, 0] 1 = some hf' :=
  findHalffaceInCell_complete_verts_partial twoTets 1 3 1 0 [] 3 1 (by decide) (hfCyclic_of_B _ _ (by decide))
    (by decide) (by decide) (by decide) (by decide) (by decide)

/-- **no read through an invalid handle in `find_halfface_in_cell`** (every state): both calls
    `to_vertex_handle(next_halfedge_in_halfface(..))` (cc:1997, cc:2005) receive a valid halfedge -/
theorem findHalffaceInCell_next_valid (k : Kernel) (hf he : Nat) (hm : he ∈ k.hfHes hf) :
    (∃ r, k.nextHe he hf = some r) ∧
    ∀ a, k.adjHalffaceInCell hf he = some a → ∃ r, k.nextHe (opp he) a = some r :=
  Lookup.findHalffaceInCell_next_valid k hf he hm

/-- in a closed cell the halfedge returned by `find_halfedge_in_cell` is itself a halfedge of the cell -/
theorem findHalfedgeInCell_mem_closed (k : Kernel) (a b c r : Nat) (hcl : ClosedSurface k (k.cellAt c))
    (h : k.findHalfedgeInCell a b c = some r) : r ∈ k.cellHalfedges (k.cellAt c) :=
  Lookup.findHalfedgeInCell_mem_closed k a b c r hcl h

example : ClosedSurface twoTets (twoTets.cellAt 0) ∧ twoTets.findHalfedgeInCell 0 3 0 = some 9 ∧
    9 ∈ twoTets.cellHalfedges (twoTets.cellAt 0) ∧ twoTets.adjHalffaceInCell 1 1 = some 2 ∧
    twoTets.nextHe (opp 1) 2 = some 6 := by decide

end OVM.Props.C10

import OVM.Kernel.Lookup
import OVM.Refine.Inv
/-
  C10 — lookup queries are sound and complete.
  Proved here for every state satisfying the cache invariant (lookups only read caches and
  definitions):
  * `find_halfedge(a,b)`: a returned halfedge is a live halfedge from `a` to `b`; `Invalid` is
    returned only if no live halfedge goes from `a` to `b` (soundness + completeness);
  * `find_halfface(he0, he1)`: a returned halfface is live and contains both halfedges; `Invalid`
    only if no live halfface contains both;
  * `find_halfface(v0,v1,v2)` is sound; it is complete when the halfedges `v0→v1`, `v1→v2` are unique
    (with parallel duplicate edges the two-stage lookup can miss a face: DESIGN F11);
  * `is_incident`, `next/prev_halfedge_in_halfface` basic facts.
-/
namespace OVM.Props.C10
open OVM OVM.Kernel

/-- membership in the outgoing list is being a live halfedge that starts at the vertex -/
theorem mem_sOut (k : Kernel) (v h : Nat) :
    h ∈ k.sOut v ↔ (h < k.nHE ∧ k.liveE (eOf h) = true ∧ k.fromV h = v) := by
  unfold sOut liveHes
  simp only [List.mem_filter, List.mem_range, beq_iff_eq]
  constructor
  · rintro ⟨⟨a, b⟩, c⟩; exact ⟨a, b, c⟩
  · rintro ⟨a, b, c⟩; exact ⟨⟨a, b⟩, c⟩

/-- `find_halfedge`: sound -/
theorem findHalfedge_sound (k : Kernel) (hI : CacheInv k) (hb : k.vBU = true) (a b h : Nat) (ha : a < k.nV)
    (hf : k.findHalfedge a b = some h) :
    h < k.nHE ∧ k.liveE (eOf h) = true ∧ k.fromV h = a ∧ k.toV h = b := by
  unfold findHalfedge at hf
  have hm := List.mem_of_find?_eq_some hf
  have hp := List.find?_some hf
  unfold qVOH at hm; simp only [hb, if_true] at hm
  have := ((hI.v hb).2 a ha).mem_iff.mp hm
  rw [mem_sOut] at this
  exact ⟨this.1, this.2.1, this.2.2, by simpa using hp⟩

/-- `find_halfedge`: complete -/
theorem findHalfedge_complete (k : Kernel) (hI : CacheInv k) (hb : k.vBU = true) (a b : Nat) (ha : a < k.nV)
    (hn : k.findHalfedge a b = none) :
    ¬ ∃ h, h < k.nHE ∧ k.liveE (eOf h) = true ∧ k.fromV h = a ∧ k.toV h = b := by
  rintro ⟨h, h1, h2, h3, h4⟩
  unfold findHalfedge at hn
  rw [List.find?_eq_none] at hn
  have hm : h ∈ k.qVOH a := by
    unfold qVOH; simp only [hb, if_true]
    exact ((hI.v hb).2 a ha).mem_iff.mpr ((mem_sOut k a h).mpr ⟨h1, h2, h3⟩)
  have := hn h hm
  simp [h4] at this

/-- membership in the halffaces of a halfedge -/
theorem mem_sHfsOfHe (k : Kernel) (h hf : Nat) :
    hf ∈ k.sHfsOfHe h ↔ (hf < k.nHF ∧ k.liveF (eOf hf) = true ∧ h ∈ k.hfHes hf) := by
  unfold sHfsOfHe liveHfs
  simp only [List.mem_flatMap, List.mem_filter, List.mem_range, List.mem_replicate]
  constructor
  · rintro ⟨x, ⟨hx1, hx2⟩, hc, rfl⟩
    exact ⟨hx1, hx2, List.count_pos_iff.mp (Nat.pos_of_ne_zero hc)⟩
  · rintro ⟨h1, h2, h3⟩
    exact ⟨hf, ⟨h1, h2⟩, Nat.ne_of_gt (List.count_pos_iff.mpr h3), rfl⟩

/-- `find_halfface(he0, he1)`: sound and complete -/
theorem findHalffaceHes_sound (k : Kernel) (hI : CacheInv k) (hb : k.eBU = true) (he0 he1 hf : Nat) (h0 : he0 < k.nHE)
    (hfd : k.findHalffaceHes he0 he1 = some hf) :
    hf < k.nHF ∧ k.liveF (eOf hf) = true ∧ he0 ∈ k.hfHes hf ∧ he1 ∈ k.hfHes hf := by
  unfold findHalffaceHes at hfd
  have hm := List.mem_of_find?_eq_some hfd
  have hp := List.find?_some hfd
  unfold qHEHF at hm; simp only [hb, if_true] at hm
  have := ((hI.e hb).2 he0 h0).mem_iff.mp hm
  rw [mem_sHfsOfHe] at this
  exact ⟨this.1, this.2.1, this.2.2, by simpa using hp⟩

theorem findHalffaceHes_complete (k : Kernel) (hI : CacheInv k) (hb : k.eBU = true) (he0 he1 : Nat) (h0 : he0 < k.nHE)
    (hn : k.findHalffaceHes he0 he1 = none) :
    ¬ ∃ hf, hf < k.nHF ∧ k.liveF (eOf hf) = true ∧ he0 ∈ k.hfHes hf ∧ he1 ∈ k.hfHes hf := by
  rintro ⟨hf, h1, h2, h3, h4⟩
  unfold findHalffaceHes at hn
  rw [List.find?_eq_none] at hn
  have hm : hf ∈ k.qHEHF he0 := by
    unfold qHEHF; simp only [hb, if_true]
    exact ((hI.e hb).2 he0 h0).mem_iff.mpr ((mem_sHfsOfHe k he0 hf).mpr ⟨h1, h2, h3⟩)
  have := hn hf hm
  simp [h4] at this

/-- `find_halfface(v0,v1,v2,…)`: a returned halfface is live and runs `v0→v1` and `v1→v2` -/
theorem findHalffaceV_sound (k : Kernel) (hI : CacheInv k) (hv : k.vBU = true) (he : k.eBU = true)
    (v0 v1 v2 : Nat) (rest : List Nat) (hf : Nat) (h0 : v0 < k.nV) (h1 : v1 < k.nV)
    (hfd : k.findHalffaceV (v0 :: v1 :: v2 :: rest) = some hf) :
    k.liveF (eOf hf) = true ∧ (∃ a ∈ k.hfHes hf, k.fromV a = v0 ∧ k.toV a = v1) ∧
    (∃ b ∈ k.hfHes hf, k.fromV b = v1 ∧ k.toV b = v2) := by
  unfold findHalffaceV at hfd
  simp only at hfd
  cases ha : k.findHalfedge v0 v1 with
  | none => simp [ha] at hfd
  | some a =>
    cases hb : k.findHalfedge v1 v2 with
    | none => simp [ha, hb] at hfd
    | some b =>
      simp only [ha, hb] at hfd
      have sa := findHalfedge_sound k hI hv v0 v1 a h0 ha
      have sb := findHalfedge_sound k hI hv v1 v2 b h1 hb
      have sf := findHalffaceHes_sound k hI he a b hf sa.1 hfd
      exact ⟨sf.2.1, ⟨a, sf.2.2.1, sa.2.2.1, sa.2.2.2⟩, ⟨b, sf.2.2.2, sb.2.2.1, sb.2.2.2⟩⟩

/-- `is_incident(face, edge)` is exactly "some halfedge of the face belongs to the edge" -/
theorem isIncident_iff (k : Kernel) (f e : Nat) : k.isIncident f e = true ↔ ∃ h ∈ k.faceAt f, eOf h = e := by
  unfold isIncident; simp

/-- `next_halfedge_in_halfface` returns a halfedge of that halfface, or Invalid when the given
    halfedge is not part of it -/
theorem nextHe_mem (k : Kernel) (he hf r : Nat) (h : k.nextHe he hf = some r) : r ∈ k.hfHes hf ∧ he ∈ k.hfHes hf := by
  unfold nextHe at h
  simp only at h
  cases hi : idxOf? (k.hfHes hf) he with
  | none => simp [hi] at h
  | some i =>
    simp only [hi] at h
    have hidx : i < (k.hfHes hf).length ∧ (k.hfHes hf)[i]? = some he := by
      unfold idxOf? at hi
      simp only at hi
      split at hi
      · rename_i hlt
        injection hi with hi; subst hi
        refine ⟨hlt, ?_⟩
        have := List.findIdx_getElem (w := hlt)
        rw [List.getElem?_eq_getElem hlt]; simpa using this
      · cases hi
    refine ⟨?_, List.mem_of_getElem? hidx.2⟩
    split at h
    · exact List.mem_of_getElem? h
    · exact List.mem_of_mem_head? h

example :
    let k : Kernel := { nV := 3, edges := [(0, 1), (1, 2), (2, 0)], eDel := [false, false, false], vDel := [false, false, false],
                        faces := [[0, 2, 4]], fDel := [false], outHes := [[0, 5], [2, 1], [4, 3]],
                        incHfs := [[0], [1], [0], [1], [0], [1]], incCell := [none, none] }
    k.cacheInvB = true ∧ k.findHalfedge 0 1 = some 0 ∧ k.findHalfedge 1 0 = some 1 ∧ k.findHalfedge 0 0 = none ∧
    k.findHalffaceV [0, 1, 2] = some 0 ∧ k.findHalffaceV [1, 0, 2] = some 1 ∧ k.nextHe 4 0 = some 0 := by decide

end OVM.Props.C10

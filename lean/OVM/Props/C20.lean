/-
  C20 — concurrent read-only use of a mesh is race-free and deterministic.

  What is proved here (model: `OVM/Conc/Schedule.lean`; generated table: `OVM/Gen/ConstFootprint.lean`):

  (a) `readonly_deterministic`      read-only programs, ANY pool (any number of threads), ANY
                                    schedule: a finished thread holds exactly its sequential
                                    result; memory unchanged.
  (b) `readonly_no_conflict`        the access log of any such execution contains no write, hence
                                    no conflicting pair.
  (c) `confined_deterministic`      programs over read | write: if every thread obeys the footprint
                                    discipline (writes only its own private locations, reads only
                                    shared + own), every interleaving gives every finished thread
                                    its sequential result, shared memory is unchanged and the log
                                    has no conflicting pair.
      `api_deterministic`           the same for threads that run arbitrary sequences of calls of
                                    non-excluded `constAPI` methods, under the soundness hypothesis
                                    of the extraction (`Sound sem`: `writesShared = false` ⇒ the
                                    method's accesses obey the discipline).  This is the theorem
                                    that links the model to the generated table.
  (d) `constAPI_clean`              by kernel `decide` over the complete generated table: every
                                    non-excluded entry has `writesShared = false`.

  Claimed as PARTIAL for the property (evidence level `other`): `Sound` is not proved about the
  C++ — it is what T5 (conservative syntactic extraction) and the dynamic validation (snapshot
  diff + ThreadSanitizer, `harness/conc_drv.cc`) tie to the code.  The C++ memory model and
  libstdc++'s [res.on.data.races] guarantee are trusted.
-/
import OVM.Conc.Lemmas
import OVM.Gen.ConstFootprint

namespace OVM.Props.C20
open OVM.Conc

/-! ### (a), (b): read-only programs -/

/-- (a) For every initial memory, every pool of read-only programs (one per thread id: any number
    of threads), and every schedule (any list of thread ids — unfair, with repetitions, naming
    finished or unused threads): memory is unchanged, and a thread that has finished holds exactly
    the result of running its program alone. -/
theorem readonly_deterministic {ρ : Type} (m : Mem) (pool : Tid → RProg ρ) (sched : List Tid) :
    let σ' := RProg.exec ⟨m, pool, []⟩ sched
    σ'.mem = m ∧ ∀ (t : Tid) (r : ρ), (σ'.pool t).result? = some r → r = (pool t).run m := by
  refine ⟨RProg.exec_mem _ _, ?_⟩
  intro t r h
  have h1 := RProg.exec_run ⟨m, pool, []⟩ sched t
  have h2 := RProg.run_of_result h m
  simp only at h1
  rw [← h1, h2]

/-- (b) The access log of any execution of read-only programs contains no write; hence no two
    accesses conflict (same location, different threads, at least one write). -/
theorem readonly_no_conflict {ρ : Type} (m : Mem) (pool : Tid → RProg ρ) (sched : List Tid) :
    let σ' := RProg.exec ⟨m, pool, []⟩ sched
    (∀ a ∈ σ'.log, a.isWrite = false) ∧ NoConflict σ'.log := by
  have h : ∀ a ∈ (RProg.exec ⟨m, pool, []⟩ sched).log, a.isWrite = false := by
    intro a ha
    rcases RProg.exec_log ⟨m, pool, []⟩ sched a ha with h | h
    · simp at h
    · exact h
  exact ⟨h, noConflict_of_noWrite h⟩

/-! ### (c): programs with writes, under the footprint discipline -/

/-- (c) If every thread's program is `Confined` (no write to a shared location; private locations
    are touched by their owner only) then for every schedule: every finished thread holds its
    sequential result (computed alone, from the initial memory), shared memory is unchanged, and
    the access log has no conflicting pair. -/
theorem confined_deterministic {ρ : Type} (m : Mem) (pool : Tid → Prog ρ)
    (hfoot : ∀ t, Prog.Confined t (pool t)) (sched : List Tid) :
    let σ' := Prog.exec ⟨m, pool, []⟩ sched
    (∀ (t : Tid) (r : ρ), (σ'.pool t).result? = some r → r = ((pool t).seq m).1) ∧
    (∀ l : Loc, l.owner = none → σ'.mem l = m l) ∧
    NoConflict σ'.log := by
  have hinv := Prog.inv_exec (Prog.inv_init m pool hfoot) sched
  refine ⟨?_, hinv.shared, Prog.noConflict_of_inv hinv⟩
  intro t r h
  rw [← hinv.res t, Prog.seq_of_result h]

/-- The semantics of API calls is a parameter: `sem f t args` is the access behaviour of method
    `f` called by thread `t` (its private locations are owned by `t`). -/
abbrev Sem := Footprint → Tid → Prog Val

/-- Soundness of the extracted table w.r.t. a semantics: an entry with an empty shared write set
    really obeys the discipline.  NOT proved about the C++ (see header): tied by T5 + TSan. -/
def Sound (sem : Sem) : Prop := ∀ (f : Footprint) (t : Tid), f.writesShared = false → Prog.Confined t (sem f t)

/-- thread `t` performs the calls one after the other and returns the list of their results -/
def callSeq (sem : Sem) (t : Tid) : List Footprint → Prog (List Val)
  | [] => .ret []
  | f :: fs => (sem f t).bind (fun v => (callSeq sem t fs).bind (fun vs => .ret (v :: vs)))

theorem callSeq_confined (sem : Sem) (hs : Sound sem) (t : Tid) (calls : List Footprint)
    (h : ∀ f ∈ calls, f.writesShared = false) : Prog.Confined t (callSeq sem t calls) := by
  induction calls with
  | nil => exact Prog.Confined.ret []
  | cons f fs ih =>
    apply Prog.confined_bind (hs f t (h f (by simp)))
    intro v
    apply Prog.confined_bind (ih (fun g hg => h g (by simp [hg])))
    intro vs
    exact Prog.Confined.ret _

/-- (d) By kernel evaluation over the complete generated table: every entry of `constAPI` that the
    property does not exclude has an empty shared write set.  Regenerated from the sources on every
    run; a new `mutable` / `const_cast` / static reached from a const method breaks this proof. -/
theorem constAPI_chunks_clean : OVM.Gen.constAPIChunks.all (fun c => c.all Footprint.ok) = true := by
  decide

theorem constAPI_clean : ∀ f ∈ OVM.Gen.constAPI, f.excluded = false → f.writesShared = false := by
  intro f hf
  have h := constAPI_chunks_clean
  rw [List.all_eq_true] at h
  unfold OVM.Gen.constAPI at hf
  rw [List.mem_flatten] at hf
  obtain ⟨c, hc, hfc⟩ := hf
  have h2 := h c hc
  rw [List.all_eq_true] at h2
  exact (Footprint.ok_iff f).mp (h2 f hfc)

/-- (c)+(d) the link: threads that run arbitrary sequences of non-excluded `constAPI` methods.
    `calls t` is the call sequence of thread `t` (any number of threads, any lengths). -/
theorem api_deterministic (sem : Sem) (hs : Sound sem) (calls : Tid → List Footprint)
    (hin : ∀ t, ∀ f ∈ calls t, f ∈ OVM.Gen.constAPI ∧ f.excluded = false)
    (m : Mem) (sched : List Tid) :
    let pool := fun t => callSeq sem t (calls t)
    let σ' := Prog.exec ⟨m, pool, []⟩ sched
    (∀ (t : Tid) (r : List Val), (σ'.pool t).result? = some r → r = ((pool t).seq m).1) ∧
    (∀ l : Loc, l.owner = none → σ'.mem l = m l) ∧
    NoConflict σ'.log := by
  apply confined_deterministic
  intro t
  apply callSeq_confined sem hs
  intro f hf
  exact constAPI_clean f (hin t f hf).1 (hin t f hf).2

/-- read-only programs over shared locations are a special case of (c) -/
theorem readonly_embeds {ρ : Type} (p : RProg ρ) (h : p.ReadsShared) (t : Tid) (m : Mem) :
    Prog.Confined t p.toProg ∧ p.toProg.seq m = (p.run m, m) :=
  ⟨RProg.toProg_confined h t, RProg.toProg_seq p m⟩

/-! ### non-vacuity -/
section Examples

def sh (n : Nat) : Loc := ⟨none, n⟩
def pv (t : Tid) (n : Nat) : Loc := ⟨some t, n⟩
def mem0 : Mem := fun l => match l.owner with | none => (l.addr : Int) * 10 + 1 | some _ => 0

/-- sum of two shared cells -/
def sum2 (a b : Nat) : RProg Int := .read (sh a) fun x => .read (sh b) fun y => .ret (x + y)
/-- data-dependent read: follow an index stored in memory -/
def chase (a : Nat) : RProg Int := .read (sh a) fun x => .read (sh ((x.toNat + 1) % 7)) fun y => .ret (y - x)

/-- 3 threads, 2 different programs -/
def pool3 : Tid → RProg Int := fun t => match t with | 0 => sum2 1 2 | 1 => chase 3 | 2 => sum2 2 5 | _ => .ret 0
/-- an unfair schedule with repetitions, a finished thread (0 again) and an unused thread (9) -/
def schedA : List Tid := [2, 0, 0, 9, 1, 0, 2, 1, 1]
def schedB : List Tid := [1, 1, 0, 2, 2, 0]

-- TEST (evaluation on samples, not a proof): all three threads finish, with the sequential results
example : ((RProg.exec ⟨mem0, pool3, []⟩ schedA).pool 0).result? = some 32 := by decide
example : ((RProg.exec ⟨mem0, pool3, []⟩ schedA).pool 1).result? = some 10 := by decide
example : ((RProg.exec ⟨mem0, pool3, []⟩ schedA).pool 2).result? = some 72 := by decide
example : ((RProg.exec ⟨mem0, pool3, []⟩ schedB).pool 1).result? = some 10 := by decide
example : (pool3 1).run mem0 = 10 := by decide
example : (RProg.exec ⟨mem0, pool3, []⟩ schedA).log.length = 6 := by decide
-- the hypothesis `result? = some r` of (a) is satisfiable and its conclusion is not trivial:
example : ∃ r, ((RProg.exec ⟨mem0, pool3, []⟩ schedA).pool 1).result? = some r ∧ r = (pool3 1).run mem0 :=
  ⟨10, by decide, by decide⟩

/-- a program with writes that obeys the discipline: copy two shared cells into private scratch
    (an "iterator object"), then read the scratch back -/
def scratchSum (t : Tid) (a b : Nat) : Prog Int :=
  .read (sh a) fun x => .write (pv t 0) x <| .read (sh b) fun y => .write (pv t 1) y <|
  .read (pv t 0) fun u => .read (pv t 1) fun v => .ret (u * v)

theorem scratchSum_confined (t : Tid) (a b : Nat) : Prog.Confined t (scratchSum t a b) := by
  unfold scratchSum
  refine .read _ _ (Or.inl rfl) fun x => .write _ _ _ rfl <| .read _ _ (Or.inl rfl) fun y => .write _ _ _ rfl <|
    .read _ _ (Or.inr rfl) fun u => .read _ _ (Or.inr rfl) fun v => .ret _

def poolW : Tid → Prog Int := fun t => match t with | 0 => scratchSum 0 1 2 | 1 => scratchSum 1 2 3 | 2 => scratchSum 2 1 2 | _ => .ret 0
def schedW : List Tid := [0, 1, 2, 2, 1, 0, 0, 0, 1, 2, 1, 2, 0, 0, 1, 1, 2, 2, 5]

theorem poolW_confined : ∀ t, Prog.Confined t (poolW t) := by
  intro t
  match t with
  | 0 => exact scratchSum_confined 0 1 2
  | 1 => exact scratchSum_confined 1 2 3
  | 2 => exact scratchSum_confined 2 1 2
  | n + 3 => exact .ret 0

-- TEST: hypotheses of (c) hold for a 3-thread pool with real writes; all threads finish
example : ((Prog.exec ⟨mem0, poolW, []⟩ schedW).pool 1).result? = some 651 := by decide
example : ((Prog.exec ⟨mem0, poolW, []⟩ schedW).pool 0).result? = some 231 := by decide
example : ((poolW 1).seq mem0).1 = 651 := by decide
example : ((Prog.exec ⟨mem0, poolW, []⟩ schedW).log.filter (·.isWrite)).length = 6 := by decide
example := confined_deterministic mem0 poolW poolW_confined schedW

/-- TEETH of the model: drop the hypothesis and the conclusion fails.  Thread 0 writes a SHARED
    cell that thread 1 reads: the result of thread 1 depends on the schedule, and the log contains
    a conflicting pair. -/
def racyPool : Tid → Prog Int := fun t => match t with
  | 0 => .write (sh 1) 99 (.ret 0)
  | 1 => .read (sh 1) fun x => .ret x
  | _ => .ret 0

example : ((Prog.exec ⟨mem0, racyPool, []⟩ [0, 1]).pool 1).result? = some 99 := by decide
example : ((Prog.exec ⟨mem0, racyPool, []⟩ [1, 0]).pool 1).result? = some 11 := by decide
example : ¬ NoConflict (Prog.exec ⟨mem0, racyPool, []⟩ [0, 1]).log := by
  intro h
  exact h ⟨0, sh 1, true⟩ (by decide) ⟨1, sh 1, false⟩ (by decide) (by decide)
example : ¬ Prog.Confined 0 (racyPool 0) := by
  intro h; cases h with | write _ _ _ hl _ => cases hl

-- the generated table is not empty, contains the kernel's const queries, and the exclusion is
-- used (the excluded entries are exactly the ones with a non-empty shared write set)
set_option maxRecDepth 100000 in
example : OVM.Gen.constAPI.length > 500 := by decide
set_option maxRecDepth 100000 in
example : (OVM.Gen.constAPI.filter (fun f => f.cls == "TopologyKernel" && f.isConst)).length > 100 := by decide
example : (OVM.Gen.constAPI.filter (fun f => f.excluded && f.writesShared)).length > 0 := by decide
example : OVM.Gen.mutableFields.length = 1 := by decide

end Examples

end OVM.Props.C20

import OVM.Refine.NextPrev
import OVM.Gen.Handles
import OVM.Base.Bits
import OVM.Kernel.Delete
import OVM.Refine.ReachMirror
/-
  C08 — opposite half-entities are exact mirror images.
  Part 1 is about the definitions *generated from the C++ sources* (OVM.Gen.Handles, T1):
  an edit to `idx ^ 1`, `idx / 2`, `2*idx + sub` or a correction threshold breaks these proofs.
  Part 2 ties the mechanism model's own arithmetic to the generated one.
  Part 3 is the mesh-level mirror algebra on the model.
  Part 4 (lemmas in OVM/Refine/FaceLoopStep.lean, OVM/Refine/ReachMirror.lean): ON REACHABLE STATES.  Faces created by
  `add_face(vertices)` or accepted by `add_face(halfedges)` with topology check are closed loops running
  v0→v1→…→v0 (`addFaceV_closed_loop`, `addFace_checked_closed_loop`); every live face of every state reached by valid
  calls respecting `Global.LoopOK` is a closed loop, through every renumbering (`closed_loops_on_reachable_states`); and
  for every live halfface of such a state `mirror_images_on_reachable_states`: the opposite side lists the opposite
  halfedges in reverse order, its vertex circulator runs the reverse cycle, next/prev are inverse steps along the
  loop and are mirrored to prev/next on the opposite side (halffaces without a repeated halfedge).
-/
namespace OVM.Props.C08
open OVM

section Arithmetic
open OVM.Gen.Handles

/-! ## Part 1: conversions are mutually inverse for every index (no bound needed on `Nat`;
    the `int` range is handled by `no_overflow`) -/

theorem halfedge_handle_eq (e s : Nat) (hs : s ≤ 1) : halfedge_handle e s = 2 * e + s := by
  unfold halfedge_handle; split <;> rename_i h <;> simp at h <;> omega
theorem halfface_handle_eq (f s : Nat) (hs : s ≤ 1) : halfface_handle f s = 2 * f + s := by
  unfold halfface_handle; split <;> rename_i h <;> simp at h <;> omega

theorem edge_of_halfedge (e s : Nat) (_hs : s ≤ 1) : edge_handle (halfedge_handle e s) = e := by
  unfold edge_handle halfedge_handle; split <;> omega

theorem subidx_of_halfedge (e s : Nat) (hs : s ≤ 1) : subidx (halfedge_handle e s) = s := by
  unfold subidx halfedge_handle; rw [and_one_eq]; split <;> rename_i h <;> simp at h <;> omega

theorem halfedge_of_edge_subidx (h : Nat) : halfedge_handle (edge_handle h) (subidx h) = h := by
  unfold halfedge_handle edge_handle subidx; rw [and_one_eq]; split <;> rename_i hh <;> simp at hh <;> omega

theorem face_of_halfface (f s : Nat) (_hs : s ≤ 1) : face_handle (halfface_handle f s) = f := by
  unfold face_handle halfface_handle; split <;> omega

theorem subidx_of_halfface (f s : Nat) (hs : s ≤ 1) : subidx (halfface_handle f s) = s := by
  unfold subidx halfface_handle; rw [and_one_eq]; split <;> rename_i h <;> simp at h <;> omega

theorem halfface_of_face_subidx (h : Nat) : halfface_handle (face_handle h) (subidx h) = h := by
  unfold halfface_handle face_handle subidx; rw [and_one_eq]; split <;> rename_i hh <;> simp at hh <;> omega

/-- taking the opposite twice is the identity -/
theorem opp_opp (h : Nat) : opp (opp h) = h := by unfold opp; exact xor_one_xor_one h
theorem opposite_halfedge_involutive (h : Nat) : opposite_halfedge_handle (opposite_halfedge_handle h) = h := by
  unfold opposite_halfedge_handle; exact xor_one_xor_one h
theorem opposite_halfface_involutive (h : Nat) : opposite_halfface_handle (opposite_halfface_handle h) = h := by
  unfold opposite_halfface_handle; exact xor_one_xor_one h

/-- the opposite belongs to the same edge / face and is the other side -/
theorem edge_of_opp (h : Nat) : edge_handle (opposite_halfedge_handle h) = edge_handle h := by
  unfold edge_handle opposite_halfedge_handle; exact xor_one_div h
theorem face_of_opp (h : Nat) : face_handle (opposite_halfface_handle h) = face_handle h := by
  unfold face_handle opposite_halfface_handle; exact xor_one_div h
theorem subidx_of_opp (h : Nat) : subidx (opp h) = 1 - subidx h := by
  unfold subidx opp; rw [and_one_eq, and_one_eq]; exact xor_one_mod h
theorem opp_ne (h : Nat) : opp h ≠ h := by unfold opp; exact xor_one_ne h

/-- member and static forms agree -/
theorem member_static_agree (h e s : Nat) (hs : s ≤ 1) :
    full h = edge_handle h ∧ full h = face_handle h ∧ opp h = opposite_halfedge_handle h ∧
    opp h = opposite_halfface_handle h ∧ half e s = halfedge_handle e s ∧ half e s = halfface_handle e s := by
  unfold full edge_handle face_handle opp opposite_halfedge_handle opposite_halfface_handle half
    halfedge_handle halfface_handle
  refine ⟨rfl, rfl, rfl, rfl, ?_, ?_⟩ <;> (split <;> rename_i h' <;> simp at h' <;> omega)

/-- no intermediate value leaves the `int` range for every representable entity index -/
theorem no_overflow (e s h : Nat) (he : e < 2 ^ 30) (_hs : s ≤ 1) (hh : h < 2 ^ 31) :
    2 * e < 2 ^ 31 ∧ halfedge_handle e s < 2 ^ 31 ∧ halfface_handle e s < 2 ^ 31 ∧ opp h < 2 ^ 31 ∧
    full h < 2 ^ 30 := by
  unfold halfedge_handle halfface_handle opp full
  rw [xor_one_eq]
  refine ⟨by omega, ?_, ?_, ?_, by omega⟩
  · split <;> omega
  · split <;> omega
  · split <;> omega

/-- the four handle corrections shift exactly the handles above the removed slot(s) -/
theorem corrections (t h : Nat) :
    correctV t h = (if h > t then h - 1 else h) ∧ correctC t h = (if h > t then h - 1 else h) ∧
    correctHE t h = (if h > t then h - 2 else h) ∧ correctHF t h = (if h > t then h - 2 else h) := by
  unfold correctV correctC correctHE correctHF; exact ⟨rfl, rfl, rfl, rfl⟩

/-- after erasing edge `e` (halfedges `2e`, `2e+1`) the correction with threshold `2e+1` maps the
    surviving halfedge handles order-preservingly onto `0 … 2(n-1)-1`, keeping edge membership
    and side: `2e' + s ↦ 2(e' - 1) + s` for `e' > e`, identity below -/
theorem correctHE_is_edge_shift (e e' s : Nat) (hs : s ≤ 1) :
    correctHE (halfedge_handle e 1) (halfedge_handle e' s) =
      halfedge_handle (if e' > e then e' - 1 else e') s := by
  rw [halfedge_handle_eq e 1 (by omega), halfedge_handle_eq e' s hs, halfedge_handle_eq _ s hs]
  unfold correctHE
  by_cases h : e' > e
  · simp only [h, if_true]; split <;> omega
  · simp only [h, if_false]; split <;> omega

example : edge_handle (halfedge_handle 5 1) = 5 ∧ opp 10 = 11 ∧ opp 11 = 10 ∧ correctHE 7 12 = 10 := by decide

/-! ## Part 2: the model's arithmetic is the generated arithmetic -/
theorem model_arith_is_generated (h e s t : Nat) (hs : s ≤ 1) :
    Kernel.opp h = opp h ∧ Kernel.eOf h = full h ∧ Kernel.side h = subidx h ∧ Kernel.heOf e s = half e s ∧
    Kernel.heOf e s = halfedge_handle e s ∧ Kernel.heOf e s = halfface_handle e s ∧
    Kernel.corr2 t h = correctHE t h ∧ Kernel.corr2 t h = correctHF t h ∧
    Kernel.corr1 t h = correctV t h ∧ Kernel.corr1 t h = correctC t h := by
  unfold Kernel.opp Kernel.eOf Kernel.side Kernel.heOf Kernel.corr2 Kernel.corr1 opp full subidx half
    halfedge_handle halfface_handle correctHE correctHF correctV correctC
  rw [and_one_eq]
  refine ⟨rfl, rfl, rfl, rfl, ?_, ?_, rfl, rfl, rfl, rfl⟩ <;> (split <;> rename_i h' <;> simp at h' <;> omega)

end Arithmetic

/-! ## Part 3: mirror algebra on the mesh model -/
open Kernel

/-- the opposite halfedge swaps source and target -/
theorem halfedge_opp_swaps (k : Kernel) (h : Nat) :
    k.halfedge (Kernel.opp h) = ((k.halfedge h).2, (k.halfedge h).1) := by
  unfold Kernel.halfedge Kernel.eOf Kernel.side Kernel.opp
  rw [xor_one_div, xor_one_mod]
  by_cases hh : h % 2 = 0
  · have : ¬ (1 - h % 2 = 0) := by omega
    simp [hh]
  · have : 1 - h % 2 = 0 := by omega
    simp [hh, this]

theorem fromV_opp (k : Kernel) (h : Nat) : k.fromV (Kernel.opp h) = k.toV h := by
  unfold Kernel.fromV Kernel.toV; rw [halfedge_opp_swaps]
theorem toV_opp (k : Kernel) (h : Nat) : k.toV (Kernel.opp h) = k.fromV h := by
  unfold Kernel.fromV Kernel.toV; rw [halfedge_opp_swaps]

/-- the opposite halfface lists the opposite halfedges in reverse order, and twice is the identity -/
theorem oppFace_oppFace (hes : List Nat) : oppFace (oppFace hes) = hes := by
  unfold oppFace
  simp [List.map_reverse, Function.comp_def, Kernel.opp, xor_one_xor_one]

theorem hfHes_opp (k : Kernel) (hf : Nat) : k.hfHes (Kernel.opp hf) = oppFace (k.hfHes hf) := by
  unfold Kernel.hfHes Kernel.eOf Kernel.side Kernel.opp
  rw [xor_one_div, xor_one_mod]
  by_cases hh : hf % 2 = 0
  · have : ¬ (1 - hf % 2 = 0) := by omega
    simp [hh]
  · have : 1 - hf % 2 = 0 := by omega
    simp [hh, this, oppFace_oppFace]

theorem hfHes_opp_opp (k : Kernel) (hf : Nat) : k.hfHes (Kernel.opp (Kernel.opp hf)) = k.hfHes hf := by
  rw [hfHes_opp, hfHes_opp, oppFace_oppFace]

/-- "each halfedge ends where the next begins", cyclically -/
def ClosedLoop (k : Kernel) (hes : List Nat) : Prop :=
  hes ≠ [] ∧ ∀ i, i < hes.length → k.toV (hes.getD i 0) = k.fromV (hes.getD ((i + 1) % hes.length) 0)

/-- a closed loop stays a closed loop when mirrored -/
theorem closedLoop_oppFace (k : Kernel) (hes : List Nat) (hc : ClosedLoop k hes) :
    ClosedLoop k (oppFace hes) := by
  obtain ⟨hne, hcl⟩ := hc
  have hlen : (oppFace hes).length = hes.length := by simp [oppFace]
  refine ⟨by intro h; apply hne; have := congrArg List.length h; simp [oppFace] at this; exact this, ?_⟩
  intro i hi
  rw [hlen] at hi ⊢
  have hn : 0 < hes.length := by omega
  -- element i of the mirrored list is opp of element n-1-i
  have getM : ∀ j, j < hes.length → (oppFace hes).getD j 0 = Kernel.opp (hes.getD (hes.length - 1 - j) 0) := by
    intro j hj
    simp [oppFace, List.getD_eq_getElem?_getD, hj]
    have : hes.length - 1 - j < hes.length := by omega
    simp [List.getElem?_eq_getElem this]
  have hi1 : (i + 1) % hes.length < hes.length := Nat.mod_lt _ hn
  rw [getM i hi, getM _ hi1, toV_opp, fromV_opp]
  -- use closedness at index n-1-((i+1)%n)
  have key := hcl (hes.length - 1 - (i + 1) % hes.length) (by omega)
  have idx : (hes.length - 1 - (i + 1) % hes.length + 1) % hes.length = hes.length - 1 - i := by
    by_cases hlast : i + 1 = hes.length
    · have : (i + 1) % hes.length = 0 := by rw [hlast]; exact Nat.mod_self _
      rw [this]
      have : hes.length - 1 - 0 + 1 = hes.length := by omega
      rw [this, Nat.mod_self]; omega
    · have hlt : i + 1 < hes.length := by omega
      rw [Nat.mod_eq_of_lt hlt]
      have : hes.length - 1 - (i + 1) + 1 = hes.length - 1 - i := by omega
      rw [this]; exact Nat.mod_eq_of_lt (by omega)
  rw [idx] at key
  exact key.symm

/-- non-vacuity: a concrete triangle on three edges is a closed loop, and so is its mirror image -/
example :
    let k : Kernel := { nV := 3, edges := [(0, 1), (1, 2), (2, 0)], eDel := [false, false, false], vDel := [false, false, false] }
    ClosedLoop k [0, 2, 4] ∧ oppFace [0, 2, 4] = [5, 3, 1] := by
  refine ⟨⟨by decide, ?_⟩, by decide⟩
  intro i hi
  have : i = 0 ∨ i = 1 ∨ i = 2 := by simp at hi; omega
  rcases this with h | h | h <;> subst h <;> decide


/-! ### next / prev inside a halfface (TopologyKernel.cc:2131-2171) -/

/-- position form: the successor of the `i`-th halfedge is the `(i+1) mod n`-th, the predecessor the
    `(i-1) mod n`-th (in particular the wrap-around at position 0, for every valence) -/
theorem next_prev_positions (k : Kernel) (hf i : Nat) (hn : (k.hfHes hf).Nodup) (hi : i < (k.hfHes hf).length) :
    k.nextHe ((k.hfHes hf)[i]) hf = (k.hfHes hf)[(i + 1) % (k.hfHes hf).length]? ∧
    k.prevHe ((k.hfHes hf)[i]) hf = (k.hfHes hf)[(i + (k.hfHes hf).length - 1) % (k.hfHes hf).length]? := by
  have hpos : 0 < (k.hfHes hf).length := by omega
  rw [nextHe_at k hf i hn hi, prevHe_at k hf i hn hi,
    List.getElem?_eq_getElem (Nat.mod_lt _ hpos), List.getElem?_eq_getElem (Nat.mod_lt _ hpos)]
  exact ⟨rfl, rfl⟩

theorem idx_next_prev (n i : Nat) (hi : i < n) : ((i + 1) % n + n - 1) % n = i := by
  by_cases h : i + 1 < n
  · rw [Nat.mod_eq_of_lt h]
    have : i + 1 + n - 1 = i + n := by omega
    rw [this, Nat.add_mod_right, Nat.mod_eq_of_lt hi]
  · have e : i + 1 = n := by omega
    rw [e, Nat.mod_self, Nat.zero_add, Nat.mod_eq_of_lt (by omega)]
    omega

theorem idx_prev_next (n i : Nat) (hi : i < n) : ((i + n - 1) % n + 1) % n = i := by
  by_cases h : i = 0
  · subst h
    rw [Nat.zero_add, Nat.mod_eq_of_lt (by omega : n - 1 < n)]
    have : n - 1 + 1 = n := by omega
    rw [this, Nat.mod_self]
  · have e : i + n - 1 = (i - 1) + n := by omega
    rw [e, Nat.add_mod_right, Nat.mod_eq_of_lt (by omega : i - 1 < n)]
    have : i - 1 + 1 = i := by omega
    rw [this, Nat.mod_eq_of_lt hi]

/-- stepping forward then backward (and backward then forward) inside a halfface returns to the start:
    for every halfface without a repeated halfedge and every halfedge of it -/
theorem next_prev_inverse (k : Kernel) (hf he : Nat) (hn : (k.hfHes hf).Nodup) (hm : he ∈ k.hfHes hf) :
    ∃ n p, k.nextHe he hf = some n ∧ k.prevHe he hf = some p ∧ n ∈ k.hfHes hf ∧ p ∈ k.hfHes hf ∧
      k.prevHe n hf = some he ∧ k.nextHe p hf = some he := by
  obtain ⟨i, hi, rfl⟩ := List.getElem_of_mem hm
  have hpos : 0 < (k.hfHes hf).length := by omega
  have hn1 : (i + 1) % (k.hfHes hf).length < (k.hfHes hf).length := Nat.mod_lt _ hpos
  have hp1 : (i + (k.hfHes hf).length - 1) % (k.hfHes hf).length < (k.hfHes hf).length := Nat.mod_lt _ hpos
  refine ⟨_, _, nextHe_at k hf i hn hi, prevHe_at k hf i hn hi, List.getElem_mem _, List.getElem_mem _, ?_, ?_⟩
  · rw [(next_prev_positions k hf _ hn hn1).2, idx_next_prev _ _ hi, List.getElem?_eq_getElem hi]
  · rw [(next_prev_positions k hf _ hn hp1).1, idx_prev_next _ _ hi, List.getElem?_eq_getElem hi]

example :
    let k : Kernel := { nV := 3, edges := [(0, 1), (1, 2), (2, 0)], faces := [[0, 2, 4]] }
    (k.hfHes 0).Nodup ∧ k.prevHe 0 0 = some 4 ∧ k.nextHe 4 0 = some 0 ∧ k.prevHe 5 1 = some 1 ∧ k.nextHe 1 1 = some 5 := by decide

/-! ## Part 4: on reachable states — closed loops and mirror images of every live halfface

`Global.FaceLoop k` ("every live face is a `ClosedLoop`") holds after every history of valid calls from the empty mesh
(`Global.HistoryOK`, Props/C01Reach) that respects `Global.LoopOK` at every call: an UNCHECKED `add_face(halfedges)` /
`set_face` is handed a closed loop and `set_edge` is not applied to an edge of a live face; `add_face(vertices)` and
`add_face(halfedges)` WITH topology check need nothing (`addFaceV_closed_loop`, `addFace_checked_closed_loop`), and
every deleting / swapping / collecting / mode-switching call in every deletion mode — all renumberings — keeps it
(`Global.stable_faceLoop`, OVM/Refine/FaceLoopStep.lean).  Without `LoopOK` it fails (an unchecked one-halfedge face
on a non-loop edge, witness below).  On such states `mirror_images_on_reachable_states` gives, for EVERY live halfface
of every valence ≥ 1 (loops and 2-gons included): both sides are closed loops, the opposite side lists the opposite
halfedges in reverse order and its vertex circulator runs the reverse cycle, and — when the halfface repeats no
halfedge, e.g. when its vertices are pairwise distinct — next/prev are inverse steps ALONG the loop whose mirror images
on the opposite side are prev/next.  (`Global.Loop` is this file's `ClosedLoop`, repeated in
OVM/Refine/FaceLoopStep.lean for import reasons: `closedLoop_iff_loop`.) -/

open OVM.Kernel.Global (GInv FaceLoop LoopOK LoopHistory ginv_reachable faceLoop_reachable historyOK_of_B loopHistory_of_B)

theorem closedLoop_iff_loop (k : Kernel) (hes : List Nat) : ClosedLoop k hes ↔ Global.Loop k hes := Iff.rfl

/-- **`add_face(v0 … v_{n-1})`** on valid, not-deleted vertices of a state satisfying the global invariant: the new
    face `nF` is live and a closed loop whose `j`-th halfedge runs `v_j → v_{(j+1) mod n}`; its halfface `2·nF` has the
    vertex cycle `v0 v1 … v_{n-1}`, the opposite halfface `2·nF+1` the reverse cycle `v0 v_{n-1} … v1`; older faces are
    untouched -/
theorem addFaceV_closed_loop (k : Kernel) (hi : GInv k) (v0 : Nat) (t : List Nat)
    (hok : Global.OpOK k (.addFaceV (v0 :: t))) :
    let k' := (k.addFaceV (v0 :: t)).1
    (k.addFaceV (v0 :: t)).2 = some k.nF ∧ k'.liveF k.nF = true ∧ ClosedLoop k' (k'.faceAt k.nF) ∧
    (k'.faceAt k.nF).map k'.fromV = v0 :: t ∧ (k'.faceAt k.nF).map k'.toV = (v0 :: t).rotateLeft 1 ∧
    k'.hfVerts (2 * k.nF) = v0 :: t ∧ k'.hfVerts (2 * k.nF + 1) = ((v0 :: t).rotateLeft 1).reverse ∧
    (∀ f, f < k.nF → k'.faceAt f = k.faceAt f) := by
  intro k'
  obtain ⟨r, x, _, hl, hloop, _, hfrom, _, _⟩ := Global.addFaceV_loop hi.wf v0 t (fun v hv => (hok v hv).1)
  have hv : k'.hfVerts (2 * k.nF) = v0 :: t := by unfold Kernel.hfVerts; rw [Kernel.hfHes_two_mul]; exact hfrom
  have hloop2 : Global.Loop k' (k'.hfHes (2 * k.nF)) := by rw [Kernel.hfHes_two_mul]; exact hloop
  refine ⟨r, hl, hloop, hfrom, ?_, hv, ?_, fun f hf => x.faceAt hf⟩
  · rw [Global.map_toV_eq_rotate hloop, hfrom]
  · have := Global.hfVerts_opp_of_loop hloop2
    rw [ScanDel.opp_two_mul, hv] at this
    exact this

/-- **`add_face(halfedges)` with topology check** accepts only closed loops, and the face it creates is a closed loop
    in the new state -/
theorem addFace_checked_closed_loop (k : Kernel) (hes : List Nat) (f : Nat) (h : (k.addFace hes true).2 = some f) :
    f = k.nF ∧ ClosedLoop k hes ∧ (k.addFace hes true).1.faceAt f = hes ∧ ClosedLoop (k.addFace hes true).1 hes := by
  unfold Kernel.addFace at h ⊢
  split at h
  · rename_i hacc
    have hf : f = k.nF := by simpa using h.symm
    have hc : ClosedLoop k hes := by
      unfold Kernel.addFaceAccepts at hacc
      simp only [Bool.not_true, Bool.false_or, beq_iff_eq] at hacc
      exact (Global.faceLoopOk_iff_loop k hes).mp hacc
    refine ⟨hf, hc, ?_, ?_⟩
    · simp only [hacc, if_true]
      unfold Kernel.faceAt; rw [addFaceCore_faces, hf]; unfold Kernel.nF
      simp [List.getD_eq_getElem?_getD]
    · simp only [hacc, if_true]
      exact Global.loop_congr (fun a _ => by unfold Kernel.halfedge Kernel.edgeAt; rw [addFaceCore_edges]) hc
  · cases h

/-- one valid call that respects `LoopOK` keeps every live face a closed loop (whole vocabulary, all modes) -/
theorem closed_loops_step (k : Kernel) (op : Op) (hi : GInv k) (hok : Global.OpOK k op) (hc : LoopOK k op)
    (hq : ∀ f, k.liveF f = true → ClosedLoop k (k.faceAt f)) :
    ∀ f, (k.step op).1.liveF f = true → ClosedLoop (k.step op).1 ((k.step op).1.faceAt f) :=
  Global.faceLoop_step k op hi hok hc hq

/-- **every live face of every reachable state is a closed loop** (each halfedge ends where the next begins) -/
theorem closed_loops_on_reachable_states (ops : List Op) (hr : Global.HistoryOK {} ops) (hc : LoopHistory {} ops) :
    ∀ f, (run {} ops).liveF f = true → ClosedLoop (run {} ops) ((run {} ops).faceAt f) :=
  faceLoop_reachable ops hr hc

/-- **the two sides of a live face mirror each other** -/
structure MirrorImages (k : Kernel) (hf : Nat) : Prop where
  /-- both halffaces are closed loops -/
  loop : ClosedLoop k (k.hfHes hf)
  loop_opp : ClosedLoop k (k.hfHes (Kernel.opp hf))
  /-- the halfedge circulator of the opposite side: the opposite halfedges in reverse order; twice is the identity -/
  hes_opp : k.hfHes (Kernel.opp hf) = oppFace (k.hfHes hf)
  hes_opp_opp : k.hfHes (Kernel.opp (Kernel.opp hf)) = k.hfHes hf
  /-- every halfedge of the halfface is valid and live, and its opposite swaps source and target -/
  he_valid : ∀ h ∈ k.hfHes hf, h < k.nHE ∧ k.liveE (eOf h) = true ∧
    k.fromV (Kernel.opp h) = k.toV h ∧ k.toV (Kernel.opp h) = k.fromV h
  /-- the targets are the sources rotated by one: halfedge `i` runs `v_i → v_{(i+1) mod n}` -/
  targets : (k.hfHes hf).map k.toV = (k.hfVerts hf).rotateLeft 1
  /-- the vertex circulator of the opposite side runs the reverse cycle `v0 v_{n-1} … v1` -/
  verts_opp : k.hfVerts (Kernel.opp hf) = ((k.hfVerts hf).rotateLeft 1).reverse
  /-- pairwise distinct vertices ⇒ no repeated halfedge -/
  nodup : (k.hfVerts hf).Nodup → (k.hfHes hf).Nodup
  /-- next / prev on a halfface without a repeated halfedge: inverse steps along the loop, mirrored on the other side -/
  next_prev : (k.hfHes hf).Nodup → ∀ he ∈ k.hfHes hf, ∃ nx pv,
    k.nextHe he hf = some nx ∧ k.prevHe he hf = some pv ∧ nx ∈ k.hfHes hf ∧ pv ∈ k.hfHes hf ∧
    k.prevHe nx hf = some he ∧ k.nextHe pv hf = some he ∧
    k.fromV nx = k.toV he ∧ k.toV pv = k.fromV he ∧
    k.nextHe (Kernel.opp he) (Kernel.opp hf) = some (Kernel.opp pv) ∧
    k.prevHe (Kernel.opp he) (Kernel.opp hf) = some (Kernel.opp nx)

theorem mirror_images_of_inv (k : Kernel) (hi : GInv k) (hq : FaceLoop k) (hf : Nat) (hl : k.liveF (eOf hf) = true) :
    MirrorImages k hf := by
  have hloop : Global.Loop k (k.hfHes hf) := Global.hfLoop_of_faceLoop hq hl
  have hl' : k.liveF (eOf (Kernel.opp hf)) = true := by rw [ScanDel.eOf_opp]; exact hl
  refine ⟨hloop, Global.hfLoop_of_faceLoop hq hl', hfHes_opp k hf, hfHes_opp_opp k hf, ?_, ?_,
    Global.hfVerts_opp_of_loop hloop, Global.nodup_hes_of_nodup_verts, ?_⟩
  · intro h hm
    obtain ⟨a, b⟩ := Global.hf_he_live hi hl hm
    exact ⟨a, b, fromV_opp k h, toV_opp k h⟩
  · exact Global.map_toV_eq_rotate hloop
  · intro hn he hm
    obtain ⟨nx, pv, a1, a2, a3, a4, a5, a6⟩ := next_prev_inverse k hf he hn hm
    obtain ⟨⟨nx', b1, _, b3⟩, ⟨pv', c1, _, c3⟩⟩ := Global.toV_eq_fromV_next hloop hn hm
    have e1 : nx' = nx := by rw [a1] at b1; exact (Option.some.inj b1).symm
    have e2 : pv' = pv := by rw [a2] at c1; exact (Option.some.inj c1).symm
    subst e1; subst e2
    obtain ⟨m1, m2⟩ := Global.nextHe_opp hn hm
    rw [a2] at m1; rw [a1] at m2
    exact ⟨nx', pv', a1, a2, a3, a4, a5, a6, b3, c3, m1, m2⟩

/-- **C08 on every reachable state**: after every history of valid calls from the empty mesh that respects `LoopOK`
    (all deletion modes, all bottom-up configurations, after every renumbering), every live halfface — of every
    valence ≥ 1 — and its opposite are exact mirror images in the sense of `MirrorImages` -/
theorem mirror_images_on_reachable_states (ops : List Op) (hr : Global.HistoryOK {} ops) (hc : LoopHistory {} ops) :
    ∀ hf, (run {} ops).liveF (eOf hf) = true → MirrorImages (run {} ops) hf :=
  fun hf hl => mirror_images_of_inv _ (ginv_reachable ops hr) (faceLoop_reachable ops hr hc) hf hl

/-! ### non-vacuity -/

/-- a quad, a 2-gon and a loop through `add_face(vertices)`, the same quad and 2-gon again through `add_face(halfedges)`
    with topology check, then renumberings: a vertex swap, an edge swap, a deferred `delete_vertex` with
    `collect_garbage` (index shifts), a face swap -/
def mirrorOps : List Op :=
  [.addNVertices 5, .addFaceV [0,1,2,3], .addFaceV [0,1], .addFaceV [2], .addEdge 3 4 false,
   .addFaceHe true [0, 2, 4, 6], .addFaceHe true [0, 4], .swapVertex 0 3, .swapEdge 0 2, .deleteVertex 4, .collectGarbage,
   .swapFace 0 1]

set_option maxRecDepth 1000000 in
/-- the history is valid and respects `LoopOK` (decided at every call; the second checked `add_face` is REJECTED —
    `0→1, 2→3` is no loop — and changes nothing), so the bundle applies to every live halfface of the end state: the quad
    (halffaces 2, 3: reverse cycle `3 1 2 0` / `3 0 2 1`), the 2-gon (halffaces 0, 1, whose halfedge lists coincide) and
    the loop (halffaces 4, 5: one halfedge `2→2`); next/prev on the quad's two sides are mirrored.  And the witness that
    `LoopOK` cannot be dropped: one unchecked one-halfedge face on a non-loop edge -/
example :
    let k := run {} mirrorOps
    (∀ hf, k.liveF (eOf hf) = true → MirrorImages k hf) ∧ k.faces = [[4, 5], [4, 2, 0, 6], [9], [4, 2, 0, 6]] ∧
    k.hfVerts 2 = [3, 1, 2, 0] ∧ k.hfVerts 3 = [3, 0, 2, 1] ∧ k.hfHes 3 = [7, 1, 3, 5] ∧
    k.hfHes 0 = [4, 5] ∧ k.hfHes 1 = [4, 5] ∧ k.hfVerts 0 = [3, 1] ∧ k.hfHes 4 = [9] ∧ k.hfVerts 5 = [2] ∧
    k.prevHe 2 2 = some 4 ∧ k.nextHe 3 3 = some 5 ∧ Kernel.opp 4 = 5 ∧
    (let bad : List Op := [.addNVertices 2, .addEdge 0 1 false, .addFaceHe false [0]]
     Global.historyOKB {} bad = true ∧ Global.loopHistoryB {} bad = false ∧ Global.faceLoopB (run {} bad) = false) := by
  intro k
  have h := mirror_images_on_reachable_states mirrorOps (historyOK_of_B {} mirrorOps (by decide))
    (loopHistory_of_B {} mirrorOps (by decide))
  exact ⟨h, by decide, by decide, by decide, by decide, by decide, by decide, by decide, by decide, by decide,
    by decide, by decide, by decide, by decide⟩

set_option maxRecDepth 1000000 in
/-- instance of `next_prev` on the quad: `next(opp 2, opp hf) = opp(prev(2, hf))` -/
example : ∃ nx pv, (run {} mirrorOps).nextHe 2 2 = some nx ∧ (run {} mirrorOps).prevHe 2 2 = some pv ∧
    (run {} mirrorOps).nextHe (Kernel.opp 2) (Kernel.opp 2) = some (Kernel.opp pv) := by
  have h := (mirror_images_on_reachable_states mirrorOps (historyOK_of_B {} mirrorOps (by decide))
    (loopHistory_of_B {} mirrorOps (by decide)) 2 (by decide)).next_prev (by decide) 2 (by decide)
  obtain ⟨nx, pv, a1, a2, _, _, _, _, _, _, a9, _⟩ := h
  exact ⟨nx, pv, a1, a2, a9⟩

end OVM.Props.C08

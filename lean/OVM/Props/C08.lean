import OVM.Refine.NextPrev
import OVM.Gen.Handles
import OVM.Base.Bits
import OVM.Kernel.Delete
/-
  C08 — opposite half-entities are exact mirror images.
  Part 1 is about the definitions *generated from the C++ sources* (OVM.Gen.Handles, T1):
  an edit to `idx ^ 1`, `idx / 2`, `2*idx + sub` or a correction threshold breaks these proofs.
  Part 2 ties the mechanism model's own arithmetic to the generated one.
  Part 3 is the mesh-level mirror algebra on the model.
-/
namespace OVM.Props.C08
open OVM

section Arithmetic
open OVM.Gen.Handles

/-! ## Part 1: conversions are mutually inverse for every index (no bound needed on `Nat`;
    the `int` range is handled by `no_overflow`) -/

theorem halfedge_handle_eq (e s : Nat) (hs : s ≤ 1) : halfedge_handle e s = 2 * e + s := by
  unfold halfedge_handle; split <;> rename_i h <;> simp at h <;> omega
theorem halfface_handle_eq (f s : Nat) (hs : s ≤ 1) : halfface_handle f s = 2 * f + s := by
  unfold halfface_handle; split <;> rename_i h <;> simp at h <;> omega

theorem edge_of_halfedge (e s : Nat) (_hs : s ≤ 1) : edge_handle (halfedge_handle e s) = e := by
  unfold edge_handle halfedge_handle; split <;> omega

theorem subidx_of_halfedge (e s : Nat) (hs : s ≤ 1) : subidx (halfedge_handle e s) = s := by
  unfold subidx halfedge_handle; rw [and_one_eq]; split <;> rename_i h <;> simp at h <;> omega

theorem halfedge_of_edge_subidx (h : Nat) : halfedge_handle (edge_handle h) (subidx h) = h := by
  unfold halfedge_handle edge_handle subidx; rw [and_one_eq]; split <;> rename_i hh <;> simp at hh <;> omega

theorem face_of_halfface (f s : Nat) (_hs : s ≤ 1) : face_handle (halfface_handle f s) = f := by
  unfold face_handle halfface_handle; split <;> omega

theorem subidx_of_halfface (f s : Nat) (hs : s ≤ 1) : subidx (halfface_handle f s) = s := by
  unfold subidx halfface_handle; rw [and_one_eq]; split <;> rename_i h <;> simp at h <;> omega

theorem halfface_of_face_subidx (h : Nat) : halfface_handle (face_handle h) (subidx h) = h := by
  unfold halfface_handle face_handle subidx; rw [and_one_eq]; split <;> rename_i hh <;> simp at hh <;> omega

/-- taking the opposite twice is the identity -/
theorem opp_opp (h : Nat) : opp (opp h) = h := by unfold opp; exact xor_one_xor_one h
theorem opposite_halfedge_involutive (h : Nat) : opposite_halfedge_handle (opposite_halfedge_handle h) = h := by
  unfold opposite_halfedge_handle; exact xor_one_xor_one h
theorem opposite_halfface_involutive (h : Nat) : opposite_halfface_handle (opposite_halfface_handle h) = h := by
  unfold opposite_halfface_handle; exact xor_one_xor_one h

/-- the opposite belongs to the same edge / face and is the other side -/
theorem edge_of_opp (h : Nat) : edge_handle (opposite_halfedge_handle h) = edge_handle h := by
  unfold edge_handle opposite_halfedge_handle; exact xor_one_div h
theorem face_of_opp (h : Nat) : face_handle (opposite_halfface_handle h) = face_handle h := by
  unfold face_handle opposite_halfface_handle; exact xor_one_div h
theorem subidx_of_opp (h : Nat) : subidx (opp h) = 1 - subidx h := by
  unfold subidx opp; rw [and_one_eq, and_one_eq]; exact xor_one_mod h
theorem opp_ne (h : Nat) : opp h ≠ h := by unfold opp; exact xor_one_ne h

/-- member and static forms agree -/
theorem member_static_agree (h e s : Nat) (hs : s ≤ 1) :
    full h = edge_handle h ∧ full h = face_handle h ∧ opp h = opposite_halfedge_handle h ∧
    opp h = opposite_halfface_handle h ∧ half e s = halfedge_handle e s ∧ half e s = halfface_handle e s := by
  unfold full edge_handle face_handle opp opposite_halfedge_handle opposite_halfface_handle half
    halfedge_handle halfface_handle
  refine ⟨rfl, rfl, rfl, rfl, ?_, ?_⟩ <;> (split <;> rename_i h' <;> simp at h' <;> omega)

/-- no intermediate value leaves the `int` range for every representable entity index -/
theorem no_overflow (e s h : Nat) (he : e < 2 ^ 30) (_hs : s ≤ 1) (hh : h < 2 ^ 31) :
    2 * e < 2 ^ 31 ∧ halfedge_handle e s < 2 ^ 31 ∧ halfface_handle e s < 2 ^ 31 ∧ opp h < 2 ^ 31 ∧
    full h < 2 ^ 30 := by
  unfold halfedge_handle halfface_handle opp full
  rw [xor_one_eq]
  refine ⟨by omega, ?_, ?_, ?_, by omega⟩
  · split <;> omega
  · split <;> omega
  · split <;> omega

/-- the four handle corrections shift exactly the handles above the removed slot(s) -/
theorem corrections (t h : Nat) :
    correctV t h = (if h > t then h - 1 else h) ∧ correctC t h = (if h > t then h - 1 else h) ∧
    correctHE t h = (if h > t then h - 2 else h) ∧ correctHF t h = (if h > t then h - 2 else h) := by
  unfold correctV correctC correctHE correctHF; exact ⟨rfl, rfl, rfl, rfl⟩

/-- after erasing edge `e` (halfedges `2e`, `2e+1`) the correction with threshold `2e+1` maps the
    surviving halfedge handles order-preservingly onto `0 … 2(n-1)-1`, keeping edge membership
    and side: `2e' + s ↦ 2(e' - 1) + s` for `e' > e`, identity below -/
theorem correctHE_is_edge_shift (e e' s : Nat) (hs : s ≤ 1) :
    correctHE (halfedge_handle e 1) (halfedge_handle e' s) =
      halfedge_handle (if e' > e then e' - 1 else e') s := by
  rw [halfedge_handle_eq e 1 (by omega), halfedge_handle_eq e' s hs, halfedge_handle_eq _ s hs]
  unfold correctHE
  by_cases h : e' > e
  · simp only [h, if_true]; split <;> omega
  · simp only [h, if_false]; split <;> omega

example : edge_handle (halfedge_handle 5 1) = 5 ∧ opp 10 = 11 ∧ opp 11 = 10 ∧ correctHE 7 12 = 10 := by decide

/-! ## Part 2: the model's arithmetic is the generated arithmetic -/
theorem model_arith_is_generated (h e s t : Nat) (hs : s ≤ 1) :
    Kernel.opp h = opp h ∧ Kernel.eOf h = full h ∧ Kernel.side h = subidx h ∧ Kernel.heOf e s = half e s ∧
    Kernel.heOf e s = halfedge_handle e s ∧ Kernel.heOf e s = halfface_handle e s ∧
    Kernel.corr2 t h = correctHE t h ∧ Kernel.corr2 t h = correctHF t h ∧
    Kernel.corr1 t h = correctV t h ∧ Kernel.corr1 t h = correctC t h := by
  unfold Kernel.opp Kernel.eOf Kernel.side Kernel.heOf Kernel.corr2 Kernel.corr1 opp full subidx half
    halfedge_handle halfface_handle correctHE correctHF correctV correctC
  rw [and_one_eq]
  refine ⟨rfl, rfl, rfl, rfl, ?_, ?_, rfl, rfl, rfl, rfl⟩ <;> (split <;> rename_i h' <;> simp at h' <;> omega)

end Arithmetic

/-! ## Part 3: mirror algebra on the mesh model -/
open Kernel

/-- the opposite halfedge swaps source and target -/
theorem halfedge_opp_swaps (k : Kernel) (h : Nat) :
    k.halfedge (Kernel.opp h) = ((k.halfedge h).2, (k.halfedge h).1) := by
  unfold Kernel.halfedge Kernel.eOf Kernel.side Kernel.opp
  rw [xor_one_div, xor_one_mod]
  by_cases hh : h % 2 = 0
  · have : ¬ (1 - h % 2 = 0) := by omega
    simp [hh]
  · have : 1 - h % 2 = 0 := by omega
    simp [hh, this]

theorem fromV_opp (k : Kernel) (h : Nat) : k.fromV (Kernel.opp h) = k.toV h := by
  unfold Kernel.fromV Kernel.toV; rw [halfedge_opp_swaps]
theorem toV_opp (k : Kernel) (h : Nat) : k.toV (Kernel.opp h) = k.fromV h := by
  unfold Kernel.fromV Kernel.toV; rw [halfedge_opp_swaps]

/-- the opposite halfface lists the opposite halfedges in reverse order, and twice is the identity -/
theorem oppFace_oppFace (hes : List Nat) : oppFace (oppFace hes) = hes := by
  unfold oppFace
  simp [List.map_reverse, Function.comp_def, Kernel.opp, xor_one_xor_one]

theorem hfHes_opp (k : Kernel) (hf : Nat) : k.hfHes (Kernel.opp hf) = oppFace (k.hfHes hf) := by
  unfold Kernel.hfHes Kernel.eOf Kernel.side Kernel.opp
  rw [xor_one_div, xor_one_mod]
  by_cases hh : hf % 2 = 0
  · have : ¬ (1 - hf % 2 = 0) := by omega
    simp [hh]
  · have : 1 - hf % 2 = 0 := by omega
    simp [hh, this, oppFace_oppFace]

theorem hfHes_opp_opp (k : Kernel) (hf : Nat) : k.hfHes (Kernel.opp (Kernel.opp hf)) = k.hfHes hf := by
  rw [hfHes_opp, hfHes_opp, oppFace_oppFace]

/-- "each halfedge ends where the next begins", cyclically -/
def ClosedLoop (k : Kernel) (hes : List Nat) : Prop :=
  hes ≠ [] ∧ ∀ i, i < hes.length → k.toV (hes.getD i 0) = k.fromV (hes.getD ((i + 1) % hes.length) 0)

/-- a closed loop stays a closed loop when mirrored -/
theorem closedLoop_oppFace (k : Kernel) (hes : List Nat) (hc : ClosedLoop k hes) :
    ClosedLoop k (oppFace hes) := by
  obtain ⟨hne, hcl⟩ := hc
  have hlen : (oppFace hes).length = hes.length := by simp [oppFace]
  refine ⟨by intro h; apply hne; have := congrArg List.length h; simp [oppFace] at this; exact this, ?_⟩
  intro i hi
  rw [hlen] at hi ⊢
  have hn : 0 < hes.length := by omega
  -- element i of the mirrored list is opp of element n-1-i
  have getM : ∀ j, j < hes.length → (oppFace hes).getD j 0 = Kernel.opp (hes.getD (hes.length - 1 - j) 0) := by
    intro j hj
    simp [oppFace, List.getD_eq_getElem?_getD, hj]
    have : hes.length - 1 - j < hes.length := by omega
    simp [List.getElem?_eq_getElem this]
  have hi1 : (i + 1) % hes.length < hes.length := Nat.mod_lt _ hn
  rw [getM i hi, getM _ hi1, toV_opp, fromV_opp]
  -- use closedness at index n-1-((i+1)%n)
  have key := hcl (hes.length - 1 - (i + 1) % hes.length) (by omega)
  have idx : (hes.length - 1 - (i + 1) % hes.length + 1) % hes.length = hes.length - 1 - i := by
    by_cases hlast : i + 1 = hes.length
    · have : (i + 1) % hes.length = 0 := by rw [hlast]; exact Nat.mod_self _
      rw [this]
      have : hes.length - 1 - 0 + 1 = hes.length := by omega
      rw [this, Nat.mod_self]; omega
    · have hlt : i + 1 < hes.length := by omega
      rw [Nat.mod_eq_of_lt hlt]
      have : hes.length - 1 - (i + 1) + 1 = hes.length - 1 - i := by omega
      rw [this]; exact Nat.mod_eq_of_lt (by omega)
  rw [idx] at key
  exact key.symm

/-- non-vacuity: a concrete triangle on three edges is a closed loop, and so is its mirror image -/
example :
    let k : Kernel := { nV := 3, edges := [(0, 1), (1, 2), (2, 0)], eDel := [false, false, false], vDel := [false, false, false] }
    ClosedLoop k [0, 2, 4] ∧ oppFace [0, 2, 4] = [5, 3, 1] := by
  refine ⟨⟨by decide, ?_⟩, by decide⟩
  intro i hi
  have : i = 0 ∨ i = 1 ∨ i = 2 := by simp at hi; omega
  rcases this with h | h | h <;> subst h <;> decide


/-! ### next / prev inside a halfface (TopologyKernel.cc:2131-2171) -/

/-- position form: the successor of the `i`-th halfedge is the `(i+1) mod n`-th, the predecessor the
    `(i-1) mod n`-th (in particular the wrap-around at position 0, for every valence) -/
theorem next_prev_positions (k : Kernel) (hf i : Nat) (hn : (k.hfHes hf).Nodup) (hi : i < (k.hfHes hf).length) :
    k.nextHe ((k.hfHes hf)[i]) hf = (k.hfHes hf)[(i + 1) % (k.hfHes hf).length]? ∧
    k.prevHe ((k.hfHes hf)[i]) hf = (k.hfHes hf)[(i + (k.hfHes hf).length - 1) % (k.hfHes hf).length]? := by
  have hpos : 0 < (k.hfHes hf).length := by omega
  rw [nextHe_at k hf i hn hi, prevHe_at k hf i hn hi,
    List.getElem?_eq_getElem (Nat.mod_lt _ hpos), List.getElem?_eq_getElem (Nat.mod_lt _ hpos)]
  exact ⟨rfl, rfl⟩

theorem idx_next_prev (n i : Nat) (hi : i < n) : ((i + 1) % n + n - 1) % n = i := by
  by_cases h : i + 1 < n
  · rw [Nat.mod_eq_of_lt h]
    have : i + 1 + n - 1 = i + n := by omega
    rw [this, Nat.add_mod_right, Nat.mod_eq_of_lt hi]
  · have e : i + 1 = n := by omega
    rw [e, Nat.mod_self, Nat.zero_add, Nat.mod_eq_of_lt (by omega)]
    omega

theorem idx_prev_next (n i : Nat) (hi : i < n) : ((i + n - 1) % n + 1) % n = i := by
  by_cases h : i = 0
  · subst h
    rw [Nat.zero_add, Nat.mod_eq_of_lt (by omega : n - 1 < n)]
    have : n - 1 + 1 = n := by omega
    rw [this, Nat.mod_self]
  · have e : i + n - 1 = (i - 1) + n := by omega
    rw [e, Nat.add_mod_right, Nat.mod_eq_of_lt (by omega : i - 1 < n)]
    have : i - 1 + 1 = i := by omega
    rw [this, Nat.mod_eq_of_lt hi]

/-- stepping forward then backward (and backward then forward) inside a halfface returns to the start:
    for every halfface without a repeated halfedge and every halfedge of it -/
theorem next_prev_inverse (k : Kernel) (hf he : Nat) (hn : (k.hfHes hf).Nodup) (hm : he ∈ k.hfHes hf) :
    ∃ n p, k.nextHe he hf = some n ∧ k.prevHe he hf = some p ∧ n ∈ k.hfHes hf ∧ p ∈ k.hfHes hf ∧
      k.prevHe n hf = some he ∧ k.nextHe p hf = some he := by
  obtain ⟨i, hi, rfl⟩ := List.getElem_of_mem hm
  have hpos : 0 < (k.hfHes hf).length := by omega
  have hn1 : (i + 1) % (k.hfHes hf).length < (k.hfHes hf).length := Nat.mod_lt _ hpos
  have hp1 : (i + (k.hfHes hf).length - 1) % (k.hfHes hf).length < (k.hfHes hf).length := Nat.mod_lt _ hpos
  refine ⟨_, _, nextHe_at k hf i hn hi, prevHe_at k hf i hn hi, List.getElem_mem _, List.getElem_mem _, ?_, ?_⟩
  · rw [(next_prev_positions k hf _ hn hn1).2, idx_next_prev _ _ hi, List.getElem?_eq_getElem hi]
  · rw [(next_prev_positions k hf _ hn hp1).1, idx_prev_next _ _ hi, List.getElem?_eq_getElem hi]

example :
    let k : Kernel := { nV := 3, edges := [(0, 1), (1, 2), (2, 0)], faces := [[0, 2, 4]] }
    (k.hfHes 0).Nodup ∧ k.prevHe 0 0 = some 4 ∧ k.nextHe 4 0 = some 0 ∧ k.prevHe 5 1 = some 1 ∧ k.nextHe 1 1 = some 5 := by decide



end OVM.Props.C08

import OVM.Refine.Inv
import OVM.Refine.CacheStep
/-
  C01 — bottom-up queries are the exact inverse of the top-down definitions.
  `CacheInv` (OVM/Refine/Inv.lean) states that every enabled cache equals the brute-force
  scan over the live definitions.  Proved here, for every state satisfying it:
  each upward query of the model (the list the iterator constructor builds) is, as a
  multiset, the brute-force answer computed from the definitions alone; the empty mesh
  satisfies the invariant.  Preservation of `CacheInv` by the mutators is proved mutator by
  mutator in OVM/Refine (rung B); what is proved so far is listed in `reach_*`.
-/
namespace OVM.Props.C01
open OVM OVM.Kernel

theorem inv_init : CacheInv ({} : Kernel) := cacheInv_empty

/-- outgoing halfedges of a vertex = all live halfedges starting there -/
theorem outgoing_halfedges_exact (k : Kernel) (hI : CacheInv k) (hb : k.vBU = true) (v : Nat) (hv : v < k.nV) :
    (k.qVOH v).Perm (k.sOut v) := by
  unfold qVOH; simp only [hb, if_true]; exact (hI.v hb).2 v hv

/-- vertex → edges, as a multiset -/
theorem vertex_edges_exact (k : Kernel) (hI : CacheInv k) (hb : k.vBU = true) (v : Nat) (hv : v < k.nV) :
    (k.qVE v).Perm ((k.sOut v).map eOf) := by
  unfold qVE; exact (outgoing_halfedges_exact k hI hb v hv).map _

/-- vertex → vertices -/
theorem vertex_vertices_exact (k : Kernel) (hI : CacheInv k) (hb : k.vBU = true) (v : Nat) (hv : v < k.nV) :
    (k.qVV v).Perm ((k.sOut v).map k.toV) := by
  unfold qVV; exact (outgoing_halfedges_exact k hI hb v hv).map _

/-- incoming halfedges = opposites of the outgoing ones -/
theorem incoming_halfedges_exact (k : Kernel) (hI : CacheInv k) (hb : k.vBU = true) (v : Nat) (hv : v < k.nV) :
    (k.qVIH v).Perm ((k.sOut v).map opp) := by
  unfold qVIH; exact (outgoing_halfedges_exact k hI hb v hv).map _

/-- vertex valence = number of live halfedges leaving the vertex -/
theorem vertex_valence_exact (k : Kernel) (hI : CacheInv k) (hb : k.vBU = true) (v : Nat) (hv : v < k.nV) :
    k.qValV v = (k.sOut v).length := by
  unfold qValV; exact ((hI.v hb).2 v hv).length_eq

/-- halffaces of a halfedge = all live halffaces containing it (with multiplicity) -/
theorem halfedge_halffaces_exact (k : Kernel) (hI : CacheInv k) (hb : k.eBU = true) (h : Nat) (hh : h < k.nHE) :
    (k.qHEHF h).Perm (k.sHfsOfHe h) := by
  unfold qHEHF; simp only [hb, if_true]; exact (hI.e hb).2 h hh

/-- edge valence = number of uses of the edge's first halfedge by live halffaces -/
theorem edge_valence_exact (k : Kernel) (hI : CacheInv k) (hb : k.eBU = true) (e : Nat) (he : e < k.nE) :
    k.qValE e = (k.sHfsOfHe (heOf e 0)).length := by
  unfold qValE; exact ((hI.e hb).2 (heOf e 0) (by unfold heOf nHE nE at *; omega)).length_eq

/-- the incident cell of a halfface is the live cell containing it -/
theorem incident_cell_exact (k : Kernel) (hI : CacheInv k) (hb : k.fBU = true) (hf : Nat) (hh : hf < k.nHF) :
    k.cellOf hf = k.sCellOf hf := (hI.f hb).2 hf hh

/-- a halfface is reported boundary exactly when no live cell contains it -/
theorem is_boundary_halfface_exact (k : Kernel) (hI : CacheInv k) (hb : k.fBU = true) (hf : Nat) (hh : hf < k.nHF) :
    k.qBoundaryHF hf = k.sBoundaryHF hf := by
  unfold qBoundaryHF sBoundaryHF
  rw [incident_cell_exact k hI hb hf hh]
  unfold sCellOf
  cases k.sCellsOfHf hf <;> simp

/-- a face is reported boundary exactly when one of its sides is in no live cell -/
theorem is_boundary_face_exact (k : Kernel) (hI : CacheInv k) (hb : k.fBU = true) (f : Nat) (hf : f < k.nF) :
    k.qBoundaryF f = k.sBoundaryF f := by
  unfold qBoundaryF sBoundaryF heOf
  rw [is_boundary_halfface_exact k hI hb _ (by unfold nHF nF at *; omega),
      is_boundary_halfface_exact k hI hb _ (by unfold nHF nF at *; omega)]
  simp

/-- halfedge → faces is the sorted duplicate-free list of the faces of its halffaces -/
theorem halfedge_faces_exact (k : Kernel) (hI : CacheInv k) (hb : k.eBU = true) (h : Nat) (hh : h < k.nHE) :
    ∀ f, f ∈ k.qHEHF h ↔ f ∈ k.sHfsOfHe h := by
  intro f; exact (halfedge_halffaces_exact k hI hb h hh).mem_iff

/-- deleted-but-uncollected entities never appear: every outgoing halfedge reported belongs to a
    live edge, every halfface reported to a live face, the incident cell reported is live -/
theorem deleted_never_reported (k : Kernel) (hI : CacheInv k) :
    (k.vBU = true → ∀ v, v < k.nV → ∀ h ∈ k.qVOH v, k.liveE (eOf h) = true) ∧
    (k.eBU = true → ∀ h, h < k.nHE → ∀ hf ∈ k.qHEHF h, k.liveF (eOf hf) = true) ∧
    (k.fBU = true → ∀ hf, hf < k.nHF → ∀ c, k.cellOf hf = some c → k.cDeleted c = false) := by
  refine ⟨?_, ?_, ?_⟩
  · intro hb v hv h hm
    have := (outgoing_halfedges_exact k hI hb v hv).mem_iff.mp hm
    unfold sOut liveHes at this
    simp only [List.mem_filter] at this
    exact this.1.2
  · intro hb h hh hf hm
    have := (halfedge_halffaces_exact k hI hb h hh).mem_iff.mp hm
    unfold sHfsOfHe liveHfs at this
    simp only [List.mem_flatMap, List.mem_filter] at this
    obtain ⟨x, ⟨_, hl⟩, hx⟩ := this
    have : hf = x := by
      have := List.eq_of_mem_replicate hx; exact this
    subst this; exact hl
  · intro hb hf hh c hc
    rw [incident_cell_exact k hI hb hf hh] at hc
    unfold sCellOf sCellsOfHf liveCells at hc
    have := List.mem_of_mem_head? hc
    simp only [List.mem_filter, List.mem_range] at this
    simpa using this.1.2

/-- non-vacuity: a mesh with one live and one deferred-deleted edge satisfies the invariant -/
example :
    let k : Kernel := { nV := 2, edges := [(0, 1), (1, 0)], eDel := [false, true], vDel := [false, false], nDelE := 1,
                        outHes := [[0], [1]], incHfs := [[], [], [], []], incCell := [] }
    k.cacheInvB = true ∧ k.sOut 0 = [0] := by decide

/-! ## Preservation of the invariant by construction and mode operations (rung B, construction side)

`WF = LenInv ∧ RangeInv ∧ CacheInv` (OVM/Refine/Range.lean).  Proved in OVM/Refine/CacheAdd*.lean,
CacheMode.lean, CacheReorder.lean, CacheCompute.lean, assembled in CacheStep.lean.
The theorems here are `_partial` in ONE respect, the vocabulary: `add_vertex`, `add_n_vertices`,
`add_edge` (both duplicate policies, both outcomes), `add_face` (halfedge and vertex form, checked
or not, accepted or rejected), `add_cell` (same), `enable_*_bottom_up_incidences`,
`enable_fast_deletion`, `enable_deferred_deletion` when it does not collect garbage, `clear`.
Missing: `set_*`, `delete_*`, `swap_*`, `collect_garbage` (deletion side).
Argument conditions (`OpInRangeAdd`): handles in range (what the C++ asserts; it writes out of
bounds under NDEBUG otherwise) and `add_cell` only on halffaces not yet used by a live cell (C01's
stated precondition; the C++ overwrites the incident cell otherwise, so the cache would no longer
name the first live cell).  `reorder_incident_halffaces` needs no hypothesis: it only stores a
rearrangement (`reorderList_perm`, C++ since bf387da). -/

/-- one construction / mode operation with in-contract arguments preserves the invariant -/
theorem reach_construction_partial (k : Kernel) (op : Op) (h : WF k) (hr : OpInRangeAdd k op) :
    WF (k.step op).1 := wf_step_construction_partial k op h hr

/-- every history of construction / mode operations with in-contract arguments, from any state
    satisfying the invariant -/
theorem reach_construction_history_partial (k : Kernel) (ops : List Op) (h : WF k) (hr : HistoryInRangeAdd k ops) :
    WF (k.run ops) := wf_run_construction_partial k ops h hr

/-- … in particular from the empty mesh: every upward query of the reached state is the
    brute-force answer -/
theorem reach_construction_queries_partial (ops : List Op) (hr : HistoryInRangeAdd {} ops) :
    (((run {} ops).vBU = true → ∀ v, v < (run {} ops).nV → ((run {} ops).qVOH v).Perm ((run {} ops).sOut v)) ∧
     ((run {} ops).eBU = true → ∀ h, h < (run {} ops).nHE → ((run {} ops).qHEHF h).Perm ((run {} ops).sHfsOfHe h)) ∧
     ((run {} ops).fBU = true → ∀ hf, hf < (run {} ops).nHF → (run {} ops).cellOf hf = (run {} ops).sCellOf hf)) := by
  have hw := reach_construction_history_partial {} ops wf_empty hr
  exact ⟨fun hb v hv => outgoing_halfedges_exact _ hw.cache hb v hv,
         fun hb h hh => halfedge_halffaces_exact _ hw.cache hb h hh,
         fun hb hf hh => incident_cell_exact _ hw.cache hb hf hh⟩

/-- `add_cell` under the property's own precondition, read on the result: existing halffaces, and
    afterwards no halfface is used by two live cells (or twice by one) -/
theorem reach_add_cell_one_cell (k : Kernel) (hfs : List Nat) (chk : Bool) (h : WF k)
    (hh : ∀ hf ∈ hfs, hf < k.nHF) (h1 : (k.addCell hfs chk).1.oneCell = true) : WF (k.addCell hfs chk).1 :=
  wf_addCell_of_oneCell k hfs chk hh h1 h

/-- recomputing a cache gives the scan on EVERY state (no invariant, no range condition) -/
theorem recompute_is_scan (k : Kernel) :
    (∀ v, v < k.nV → k.computeVBU.getD v [] = k.sOut v) ∧
    (∀ h, h < k.nHE → (k.computeEBU.getD h []).Perm (k.sHfsOfHe h)) ∧
    (∀ hf, hf < k.nHF → k.computeFBU.getD hf none = k.sCellOf hf) :=
  ⟨computeVBU_getD k, computeEBU_getD k, computeFBU_getD k⟩

/-- `reorder_incident_halffaces` on any edge of any state satisfying the invariant -/
theorem reorder_preserves (k : Kernel) (e : Nat) (h : WF k) : WF (k.reorder e) :=
  wf_foldl_reorder [e] k h

/-- non-vacuity: a tetrahedron built through `add_face(vertices)` (find-or-create edges) and a
    checked `add_cell` (six `reorder` calls), every cache switched off and on again (two full
    `reorder` sweeps), mode switches, then more construction incl. a de-duplicated `add_edge` and a
    checked `add_face` — the history satisfies the hypotheses of the theorems above -/
def tetHistory : List Op :=
  [.addNVertices 4, .addFaceV [0,1,2], .addFaceV [0,3,1], .addFaceV [1,3,2], .addFaceV [0,2,3],
   .addCell true [0,2,4,6], .enableBU 1 false, .enableBU 1 true, .enableBU 2 false, .enableBU 2 true,
   .enableBU 0 false, .enableBU 0 true, .enableDeferred false, .enableFast false,
   .addVertex, .addEdge 4 0 false, .addEdge 1 0 false, .addFaceHe true [0, 2, 4]]

set_option maxRecDepth 1000000 in
example : HistoryInRangeAdd {} tetHistory ∧ (run {} tetHistory).nC = 1 ∧ (run {} tetHistory).nE = 7 ∧
    (run {} tetHistory).hfsOf 0 = [0, 3, 8] :=
  ⟨historyInRangeAdd_of_B {} tetHistory (by decide), by decide, by decide, by decide⟩

example : WF (run {} tetHistory) :=
  reach_construction_history_partial {} tetHistory wf_empty
    (historyInRangeAdd_of_B {} tetHistory (by set_option maxRecDepth 1000000 in decide))

/-- non-vacuity on a non-manifold input (four triangles on one edge, two unchecked three-page
    "cells" that use halfedge 0 twice): the arguments are in contract (`OpInRangeAdd` holds at every
    step), so the invariant holds afterwards; `reorder` declines to store its walk `[6,2,0,2]`
    (before bf387da the C++ stored it, /verif/findings/C01-reorder-drops-halfface.md) -/
def bookOps : List Op :=
  [.addNVertices 6, .addFaceV [0,1,2], .addFaceV [0,1,3], .addFaceV [0,1,4], .addFaceV [0,1,5],
   .addCell false [6,3,0], .addCell false [2,1,4]]

set_option maxRecDepth 1000000 in
example : HistoryInRangeAdd {} bookOps ∧ (run {} bookOps).hfsOf 0 = [0, 2, 4, 6] ∧ (run {} bookOps).nC = 2 ∧
    (run {} bookOps).oneCell = true :=
  ⟨historyInRangeAdd_of_B {} bookOps (by decide), by decide, by decide, by decide⟩

end OVM.Props.C01

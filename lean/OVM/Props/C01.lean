import OVM.Refine.Inv
/-
  C01 — bottom-up queries are the exact inverse of the top-down definitions.
  `CacheInv` (OVM/Refine/Inv.lean) states that every enabled cache equals the brute-force
  scan over the live definitions.  Proved here, for every state satisfying it:
  each upward query of the model (the list the iterator constructor builds) is, as a
  multiset, the brute-force answer computed from the definitions alone; the empty mesh
  satisfies the invariant.  Preservation of `CacheInv` by the mutators is proved mutator by
  mutator in OVM/Refine (rung B); what is proved so far is listed in `reach_*`.
-/
namespace OVM.Props.C01
open OVM OVM.Kernel

theorem inv_init : CacheInv ({} : Kernel) := cacheInv_empty

/-- outgoing halfedges of a vertex = all live halfedges starting there -/
theorem outgoing_halfedges_exact (k : Kernel) (hI : CacheInv k) (hb : k.vBU = true) (v : Nat) (hv : v < k.nV) :
    (k.qVOH v).Perm (k.sOut v) := by
  unfold qVOH; simp only [hb, if_true]; exact (hI.v hb).2 v hv

/-- vertex → edges, as a multiset -/
theorem vertex_edges_exact (k : Kernel) (hI : CacheInv k) (hb : k.vBU = true) (v : Nat) (hv : v < k.nV) :
    (k.qVE v).Perm ((k.sOut v).map eOf) := by
  unfold qVE; exact (outgoing_halfedges_exact k hI hb v hv).map _

/-- vertex → vertices -/
theorem vertex_vertices_exact (k : Kernel) (hI : CacheInv k) (hb : k.vBU = true) (v : Nat) (hv : v < k.nV) :
    (k.qVV v).Perm ((k.sOut v).map k.toV) := by
  unfold qVV; exact (outgoing_halfedges_exact k hI hb v hv).map _

/-- incoming halfedges = opposites of the outgoing ones -/
theorem incoming_halfedges_exact (k : Kernel) (hI : CacheInv k) (hb : k.vBU = true) (v : Nat) (hv : v < k.nV) :
    (k.qVIH v).Perm ((k.sOut v).map opp) := by
  unfold qVIH; exact (outgoing_halfedges_exact k hI hb v hv).map _

/-- vertex valence = number of live halfedges leaving the vertex -/
theorem vertex_valence_exact (k : Kernel) (hI : CacheInv k) (hb : k.vBU = true) (v : Nat) (hv : v < k.nV) :
    k.qValV v = (k.sOut v).length := by
  unfold qValV; exact ((hI.v hb).2 v hv).length_eq

/-- halffaces of a halfedge = all live halffaces containing it (with multiplicity) -/
theorem halfedge_halffaces_exact (k : Kernel) (hI : CacheInv k) (hb : k.eBU = true) (h : Nat) (hh : h < k.nHE) :
    (k.qHEHF h).Perm (k.sHfsOfHe h) := by
  unfold qHEHF; simp only [hb, if_true]; exact (hI.e hb).2 h hh

/-- edge valence = number of uses of the edge's first halfedge by live halffaces -/
theorem edge_valence_exact (k : Kernel) (hI : CacheInv k) (hb : k.eBU = true) (e : Nat) (he : e < k.nE) :
    k.qValE e = (k.sHfsOfHe (heOf e 0)).length := by
  unfold qValE; exact ((hI.e hb).2 (heOf e 0) (by unfold heOf nHE nE at *; omega)).length_eq

/-- the incident cell of a halfface is the live cell containing it -/
theorem incident_cell_exact (k : Kernel) (hI : CacheInv k) (hb : k.fBU = true) (hf : Nat) (hh : hf < k.nHF) :
    k.cellOf hf = k.sCellOf hf := (hI.f hb).2 hf hh

/-- a halfface is reported boundary exactly when no live cell contains it -/
theorem is_boundary_halfface_exact (k : Kernel) (hI : CacheInv k) (hb : k.fBU = true) (hf : Nat) (hh : hf < k.nHF) :
    k.qBoundaryHF hf = k.sBoundaryHF hf := by
  unfold qBoundaryHF sBoundaryHF
  rw [incident_cell_exact k hI hb hf hh]
  unfold sCellOf
  cases k.sCellsOfHf hf <;> simp

/-- a face is reported boundary exactly when one of its sides is in no live cell -/
theorem is_boundary_face_exact (k : Kernel) (hI : CacheInv k) (hb : k.fBU = true) (f : Nat) (hf : f < k.nF) :
    k.qBoundaryF f = k.sBoundaryF f := by
  unfold qBoundaryF sBoundaryF heOf
  rw [is_boundary_halfface_exact k hI hb _ (by unfold nHF nF at *; omega),
      is_boundary_halfface_exact k hI hb _ (by unfold nHF nF at *; omega)]
  simp

/-- halfedge → faces is the sorted duplicate-free list of the faces of its halffaces -/
theorem halfedge_faces_exact (k : Kernel) (hI : CacheInv k) (hb : k.eBU = true) (h : Nat) (hh : h < k.nHE) :
    ∀ f, f ∈ k.qHEHF h ↔ f ∈ k.sHfsOfHe h := by
  intro f; exact (halfedge_halffaces_exact k hI hb h hh).mem_iff

/-- deleted-but-uncollected entities never appear: every outgoing halfedge reported belongs to a
    live edge, every halfface reported to a live face, the incident cell reported is live -/
theorem deleted_never_reported (k : Kernel) (hI : CacheInv k) :
    (k.vBU = true → ∀ v, v < k.nV → ∀ h ∈ k.qVOH v, k.liveE (eOf h) = true) ∧
    (k.eBU = true → ∀ h, h < k.nHE → ∀ hf ∈ k.qHEHF h, k.liveF (eOf hf) = true) ∧
    (k.fBU = true → ∀ hf, hf < k.nHF → ∀ c, k.cellOf hf = some c → k.cDeleted c = false) := by
  refine ⟨?_, ?_, ?_⟩
  · intro hb v hv h hm
    have := (outgoing_halfedges_exact k hI hb v hv).mem_iff.mp hm
    unfold sOut liveHes at this
    simp only [List.mem_filter] at this
    exact this.1.2
  · intro hb h hh hf hm
    have := (halfedge_halffaces_exact k hI hb h hh).mem_iff.mp hm
    unfold sHfsOfHe liveHfs at this
    simp only [List.mem_flatMap, List.mem_filter] at this
    obtain ⟨x, ⟨_, hl⟩, hx⟩ := this
    have : hf = x := by
      have := List.eq_of_mem_replicate hx; exact this
    subst this; exact hl
  · intro hb hf hh c hc
    rw [incident_cell_exact k hI hb hf hh] at hc
    unfold sCellOf sCellsOfHf liveCells at hc
    have := List.mem_of_mem_head? hc
    simp only [List.mem_filter, List.mem_range] at this
    simpa using this.1.2

/-- non-vacuity: a mesh with one live and one deferred-deleted edge satisfies the invariant -/
example :
    let k : Kernel := { nV := 2, edges := [(0, 1), (1, 0)], eDel := [false, true], vDel := [false, false], nDelE := 1,
                        outHes := [[0], [1]], incHfs := [[], [], [], []], incCell := [] }
    k.cacheInvB = true ∧ k.sOut 0 = [0] := by decide

end OVM.Props.C01

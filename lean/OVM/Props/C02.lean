import OVM.Refine.Inv
import OVM.Refine.DeleteFrames
import OVM.Refine.Len
import OVM.Refine.CacheDelete
import OVM.Refine.CacheSwap
import OVM.Refine.LogicalRead
/-
  C02 — deletion removes exactly the entity's upward closure; survivors are unchanged.
  Proved here:
  * the renumbering applied after an index-shifting deletion (`corr1` for vertices/cells,
    `corr2` for half-entities; the generated `correctValue`s, see C08.model_arith_is_generated)
    is an order-preserving bijection from the surviving handles onto `0 … n-2` that keeps
    half-entities with their parent and on their side;
  * deferred deletion of a cell marks exactly that cell and changes no definition, no other
    flag and no counter but the cell counter (all modes of the *other* entities untouched);
  * the bookkeeping functions (`n_logical_*`, `needs_garbage_collection`, `genus`) are the
    stated functions of the counters.
  The closure statement for faces / edges / vertices in every mode is evaluated on every step
  of the correspondence run by the token-named-mesh oracle (Judge.checkStepOracles) and is on
  the refinement ladder.
-/
namespace OVM.Props.C02
open OVM OVM.Kernel

/-- the vertex / cell shift is injective on the survivors and lands in `0 … n-2` -/
theorem corr1_bijective (h n : Nat) (hh : h < n) :
    (∀ x, x < n → x ≠ h → corr1 h x < n - 1) ∧
    (∀ x y, x ≠ h → y ≠ h → corr1 h x = corr1 h y → x = y) ∧
    (∀ z, z < n - 1 → ∃ x, x < n ∧ x ≠ h ∧ corr1 h x = z) ∧
    (∀ x y, x ≠ h → y ≠ h → x < y → corr1 h x < corr1 h y) := by
  unfold corr1
  refine ⟨?_, ?_, ?_, ?_⟩
  · intro x hx hne; split <;> omega
  · intro x y hx hy; split <;> split <;> omega
  · intro z hz
    by_cases hzh : z < h
    · exact ⟨z, by omega, by omega, by simp; omega⟩
    · refine ⟨z + 1, by omega, by omega, ?_⟩
      have : z + 1 > h := by omega
      simp [this]
  · intro x y hx hy hxy; split <;> split <;> omega

/-- the half-entity shift after erasing parent `h` (threshold `2h+1`): injective on the
    surviving half-entities, keeps the side, and maps parent `e` to `e` / `e-1` -/
theorem corr2_half (h x : Nat) (hx : x / 2 ≠ h) :
    corr2 (2 * h + 1) x % 2 = x % 2 ∧ corr2 (2 * h + 1) x / 2 = corr1 h (x / 2) := by
  unfold corr2 corr1
  rcases Nat.lt_or_gt_of_ne hx with hlt | hgt
  · have h1 : ¬ x > 2 * h + 1 := by omega
    have h2 : ¬ x / 2 > h := by omega
    simp [h1, h2]
  · have h1 : x > 2 * h + 1 := by omega
    have h2 : x / 2 > h := hgt
    simp only [h1, h2, if_true]
    constructor <;> omega

theorem corr2_injective (h x y : Nat) (hx : x / 2 ≠ h) (hy : y / 2 ≠ h)
    (he : corr2 (2 * h + 1) x = corr2 (2 * h + 1) y) : x = y := by
  unfold corr2 at he
  split at he <;> split at he <;> omega

/-- deferred deletion of a cell: only the flag and the counter of that cell change -/
theorem deleteCell_deferred (k : Kernel) (c : Nat) (hd : k.deferred = true) :
    (k.deleteCell c).cells = k.cells ∧ (k.deleteCell c).faces = k.faces ∧ (k.deleteCell c).edges = k.edges ∧
    (k.deleteCell c).nV = k.nV ∧ (k.deleteCell c).cDel = k.cDel.set c true ∧
    (k.deleteCell c).fDel = k.fDel ∧ (k.deleteCell c).eDel = k.eDel ∧ (k.deleteCell c).vDel = k.vDel ∧
    (k.deleteCell c).nDelC = k.nDelC + 1 ∧ (k.deleteCell c).nDelF = k.nDelF ∧
    (k.deleteCell c).nDelE = k.nDelE ∧ (k.deleteCell c).nDelV = k.nDelV ∧
    (k.deleteCell c).props = k.props := by
  unfold deleteCell deleteCellCore
  simp [hd]

/-- the surviving cells keep their definitions and their handles in deferred mode -/
theorem deleteCell_deferred_survivors (k : Kernel) (c x : Nat) (hd : k.deferred = true) (hx : x ≠ c) :
    (k.deleteCell c).cellAt x = k.cellAt x ∧ (k.deleteCell c).cDeleted x = k.cDeleted x := by
  have h := deleteCell_deferred k c hd
  unfold cellAt cDeleted
  rw [h.1, h.2.2.2.2.1]
  simp [List.getD_eq_getElem?_getD, List.getElem?_set, Ne.symm hx]

/-- the victim is flagged (when its handle is in range) -/
theorem deleteCell_deferred_victim (k : Kernel) (c : Nat) (hd : k.deferred = true) (hc : c < k.cDel.length) :
    (k.deleteCell c).cDeleted c = true := by
  have h := deleteCell_deferred k c hd
  unfold cDeleted
  rw [h.2.2.2.2.1]
  simp [List.getD_eq_getElem?_getD, hc]

/-- bookkeeping functions are the stated functions of the counters -/
theorem bookkeeping (k : Kernel) :
    k.nLogV = k.nV - k.nDelV ∧ k.nLogE = k.edges.length - k.nDelE ∧ k.nLogF = k.faces.length - k.nDelF ∧
    k.nLogC = k.cells.length - k.nDelC ∧
    (k.needsGC = true ↔ (k.nDelV > 0 ∨ k.nDelE > 0 ∨ k.nDelF > 0 ∨ k.nDelC > 0)) := by
  refine ⟨rfl, rfl, rfl, rfl, ?_⟩
  simp [needsGC, or_assoc]

/-- after every history the deletion-flag arrays have exactly one flag per entity slot (so
    `is_deleted` is defined for exactly the existing handles) — all modes, all incidence subsets -/
theorem flags_cover_exactly_the_slots (ops : List Op) (hr : HistoryInRange {} ops) :
    let k := (({} : Kernel).run ops)
    k.vDel.length = k.nV ∧ k.eDel.length = k.nE ∧ k.fDel.length = k.nF ∧ k.cDel.length = k.nC := by
  have h := lenInv_run {} ops lenInv_empty hr
  exact ⟨h.vDel, h.eDel, h.fDel, h.cDel⟩

example : corr1 2 5 = 4 ∧ corr1 2 1 = 1 ∧ corr2 5 9 = 7 ∧ corr2 5 4 = 4 := by decide

example :
    let k : Kernel := { nV := 4, cells := [[0, 2], [1, 3]], cDel := [false, false], fBU := false, eBU := false, vBU := false }
    (k.deleteCell 0).cDel = [true, false] ∧ (k.deleteCell 0).cells = k.cells ∧ (k.deleteCell 0).nLogC = 1 := by decide

/-! ------------------------------------------------------------------------------------------
    Rung B, deletion side: deletion keeps the cache invariant (`WF = LenInv ∧ RangeInv ∧ CacheInv`,
    OVM/Refine/CacheDelete.lean).
    ------------------------------------------------------------------------------------------ -/

/-- **deferred deletion keeps the cache invariant**: in deferred mode every `delete_cell`,
    `delete_face`, `delete_edge`, `delete_vertex` (whole upward closure, any handle) maps a
    well-formed state in which no halfface lies in two live cells (`oneCell`, C01's stated
    precondition) to such a state again.  `oneCell` is needed by `delete_cell_core` only: it
    merely clears `incident_cell_per_hf_[hf]` (cc:1385-1388), which is right exactly when no
    second live cell uses `hf`. -/
theorem deferred_deletion_keeps_cache_invariant (k : Kernel) (hd : k.deferred = true) (hw : WF k)
    (h1 : k.oneCell = true) (x : Nat) :
    (WF (k.deleteCell x) ∧ (k.deleteCell x).oneCell = true) ∧
    (WF (k.deleteFace x) ∧ (k.deleteFace x).oneCell = true) ∧
    (WF (k.deleteEdge x) ∧ (k.deleteEdge x).oneCell = true) ∧
    (WF (k.deleteVertex x) ∧ (k.deleteVertex x).oneCell = true) :=
  ⟨(defInv_deleteCell x ⟨hd, hw, h1⟩).2, (defInv_deleteFace x ⟨hd, hw, h1⟩).2,
   (defInv_deleteEdge x ⟨hd, hw, h1⟩).2, (defInv_deleteVertex x ⟨hd, hw, h1⟩).2⟩

/-- every history of deferred deletions from a well-formed `oneCell` state stays well-formed, so
    (C01) every upward query keeps answering with the brute-force scan -/
theorem deferred_deletion_history_keeps_cache_invariant (k : Kernel) (hd : k.deferred = true) (hw : WF k)
    (h1 : k.oneCell = true) (ops : List Op)
    (hops : ∀ op ∈ ops, ∃ x, op = .deleteCell x ∨ op = .deleteFace x ∨ op = .deleteEdge x ∨ op = .deleteVertex x) :
    WF (k.run ops) ∧ CacheInv (k.run ops) := by
  have : DefInv (k.run ops) := by
    have hi : DefInv k := ⟨hd, hw, h1⟩
    clear hd hw h1
    induction ops generalizing k with
    | nil => exact hi
    | cons op t ih =>
      simp only [run, List.foldl_cons]
      apply ih _ (fun o ho => hops o (by simp [ho]))
      obtain ⟨x, hx⟩ := hops op (by simp)
      rcases hx with rfl | rfl | rfl | rfl
      · exact defInv_deleteCell x hi
      · exact defInv_deleteFace x hi
      · exact defInv_deleteEdge x hi
      · exact defInv_deleteVertex x hi
  exact ⟨this.2.1, this.2.1.cache⟩

/-- non-vacuity: the tetrahedron with all caches enabled satisfies the hypotheses; deleting vertex 0
    flags the cell, three faces, three edges and the vertex, and the caches still equal the scans
    (evaluated by the executable form of the invariant as a cross-check of the theorem) -/
example : tetK.deferred = true ∧ WF tetK ∧ tetK.oneCell = true ∧
    (tetK.deleteVertex 0).cDel = [true] ∧ (tetK.deleteVertex 0).fDel = [true, true, false, true] ∧
    (tetK.deleteVertex 0).eDel = [true, false, true, true, false, false] ∧
    (tetK.deleteVertex 0).incCell = [none, none, none, none, none, none, none, none] ∧
    (tetK.deleteVertex 0).cacheInvB = true :=
  ⟨rfl, wf_tetK, by decide, by decide, by decide, by decide, by decide, by decide⟩

/-- **`swap_cell_indices` and `swap_vertex_indices` keep the cache invariant** for in-range handles
    (deleted or not), in the cache-guided and in the linear-scan variants.  `swap_cell_indices`
    additionally needs and keeps C01's `oneCell`.
    `_partial`: the same statement for `swap_edge_indices` / `swap_face_indices` is not proved yet
    (LenInv for them is `lenInv_swapEdge/Face`; what remains is listed at the end of
    OVM/Refine/CacheSwap.lean). -/
theorem swaps_keep_cache_invariant_partial (k : Kernel) (hw : WF k) (a b : Nat) :
    (a < k.nV → b < k.nV → WF (k.swapVertex a b)) ∧
    (a < k.nC → b < k.nC → k.oneCell = true → WF (k.swapCell a b) ∧ (k.swapCell a b).oneCell = true) :=
  ⟨fun ha hb => wf_swapVertex ha hb hw,
   fun ha hb h1 => ⟨wf_swapCell ha hb hw h1, oneCell_swapCell ha hb hw.len.cDel h1⟩⟩

/-- non-vacuity: on the tetrahedron (all caches enabled) swapping vertices 0 and 3 relabels four
    edge definitions and exchanges two cache slots; the executable invariant agrees -/
example : WF tetK ∧ (0 : Nat) < tetK.nV ∧ 3 < tetK.nV ∧
    (tetK.swapVertex 0 3).edges = [(3, 1), (1, 2), (2, 3), (3, 0), (0, 1), (0, 2)] ∧
    (tetK.swapVertex 0 3).outHes = [[7, 8, 10], [1, 2, 9], [3, 4, 11], [0, 5, 6]] ∧
    (tetK.swapVertex 0 3).cacheInvB = true :=
  ⟨wf_tetK, by decide, by decide, by decide, by decide, by decide⟩

/-- non-vacuity for cells: two tetrahedra glued along a face would need a bigger state; here the
    single-cell mesh plus one deferred-deleted copy of the cell (slot 1): swapping 0 and 1 moves
    the live cell to handle 1 and the cache follows -/
example :
    let k : Kernel := { tetK with cells := [[1, 3, 5, 7], [1, 3, 5, 7]], cDel := [false, true], nDelC := 1 }
    k.cacheInvB = true ∧ k.oneCell = true ∧
    (k.swapCell 0 1).cDel = [true, false] ∧
    (k.swapCell 0 1).incCell = [none, some 1, none, some 1, none, some 1, none, some 1] ∧
    (k.swapCell 0 1).cacheInvB = true := by decide

/-- **immediate `delete_cell` in fast mode keeps the cache invariant** (swap with the last cell,
    unlink, pop), for an in-range handle (`delete_cell_core` asserts it, cc:1362) and `oneCell`.
    `_partial`: immediate deletion of faces / edges / vertices, the index-shifting (non-fast) mode
    and `collect_garbage` are not proved; see the end of OVM/Refine/CacheSwap.lean. -/
theorem immediate_fast_delete_cell_keeps_cache_invariant_partial (k : Kernel) (hd : k.deferred = false)
    (hf : k.fast = true) (hw : WF k) (h1 : k.oneCell = true) (c : Nat) (hc : c < k.nC) :
    WF (k.deleteCell c) := wf_deleteCellCore_fast c hd hf hc hw h1

/-- non-vacuity: the tetrahedron in immediate fast mode; deleting its cell pops the slot, clears
    the four links and leaves every fan a permutation of what it was -/
example :
    let k : Kernel := { tetK with deferred := false }
    k.fast = true ∧ k.cacheInvB = true ∧ (k.deleteCell 0).cells = [] ∧
    (k.deleteCell 0).incCell = [none, none, none, none, none, none, none, none] ∧
    (k.deleteCell 0).cacheInvB = true := by decide

end OVM.Props.C02

/-! ======================= appended by builder L1 (logical mesh, C02) ======================= -/
namespace OVM.Props.C02
open OVM OVM.Kernel OVM.Kernel.Logical

/-! ------------------------------------------------------------------------------------------
    The property itself (builder L1; OVM/Refine/Logical*.lean).  `LogMinus k k' ρ S` = "the logical mesh of `k'` is the
    logical mesh of `k` minus the entities in `S`, renumbered by `ρ`": per kind `ρ` is a bijection from the live slots
    of `k` outside `S` onto the live slots of `k'`; every survivor's definition, read in `k'` at its new handle, is its
    old definition with every handle renamed by `ρ`; every property column of every kind (halfedge / halfface columns:
    both sides) holds at the new handle what it held at the old one (`Carried`, OVM/Refine/LogicalRead.lean, is the
    same statement in elementary terms: `survivors_keep_definitions_and_values`).  `cloC/cloF/cloE/cloV` are the upward
    closures computed from the definitions of the live entities alone — the Prop form of the judge's oracle
    (`Judge.Named.closure*`, `Named.minus`), which names entities by identity-column tokens; here the naming is the
    slot bijection `ρ`, and identity columns follow it like every other column (C03: `values_follow_tokens_history`).
    ------------------------------------------------------------------------------------------ -/

/-- **Deletion removes exactly the upward closure, in all four deletion modes and every bottom-up configuration.**
    On every state satisfying the reachability invariant `GInv` (C01: `reach_inv`) and for every live argument,
    `delete_cell / delete_face / delete_edge / delete_vertex` yield a state whose logical mesh is the old one minus the
    upward closure of the argument (`LogMinus`), under a renumbering `ρ` that is the identity in deferred mode (entities
    are flagged, nothing moves) and order preserving in immediate index-shifting mode (`ModeShape`; in immediate
    swap-with-last mode it is a composition of "the last slot takes the victim's handle" relabelings — for
    `delete_cell` exactly `relabelId c (n_cells-1)`, `deleteCell_fast`).  Nothing else is removed, nothing in the
    closure survives (`KindOK.into / onto`), and no survivor refers to a removed entity (`RefsSurvive`). -/
theorem deletion_removes_exactly_the_closure (k : Kernel) (hi : Global.GInv k) :
    (∀ c, k.liveC c = true → ∃ ρ, ModeShape k ρ ∧ LogMinus k (k.deleteCell c) ρ (cloC c) ∧ RefsSurvive k (cloC c)) ∧
    (∀ f, k.liveF f = true → ∃ ρ, ModeShape k ρ ∧ LogMinus k (k.deleteFace f) ρ (cloF k f) ∧ RefsSurvive k (cloF k f)) ∧
    (∀ e, k.liveE e = true → ∃ ρ, ModeShape k ρ ∧ LogMinus k (k.deleteEdge e) ρ (cloE k e) ∧ RefsSurvive k (cloE k e)) ∧
    (∀ v, k.liveV v = true → ∃ ρ, ModeShape k ρ ∧ LogMinus k (k.deleteVertex v) ρ (cloV k v) ∧ RefsSurvive k (cloV k v)) := by
  refine ⟨fun c hc => ?_, fun f hf => ?_, fun e he => ?_, fun v hv => ?_⟩
  · obtain ⟨ρ, m, s⟩ := deleteCell_logical hi (liveC_iff.mp hc).1
    exact ⟨ρ, m, s, refs_cloC hi.wf hi.closed c⟩
  · obtain ⟨ρ, m, s⟩ := deleteFace_logical hi hf
    exact ⟨ρ, m, s, refs_cloF hi.wf hi.closed f⟩
  · obtain ⟨ρ, m, s⟩ := deleteEdge_logical hi he
    exact ⟨ρ, m, s, refs_cloE hi.wf hi.closed e⟩
  · obtain ⟨ρ, m, s⟩ := deleteVertex_logical hi (liveV_lt hv)
    exact ⟨ρ, m, s, refs_cloV hi.wf hi.closed v⟩

/-- **Survivors keep their definitions and their property values** — the same fact in elementary terms (`Carried`):
    after any of the four deletions, in any mode, an entity is live iff it is the image `ρ x` of a live entity `x`
    outside the closure; distinct survivors get distinct handles; `edge(ρe e) = (ρv from, ρv to)`, the halfedges of
    `face(ρf f)` are those of `f` renamed (same side), likewise the halffaces of cells; and every vertex / edge /
    halfedge / face / halfface / cell property column keeps key and default and holds at `ρ x` what it held at `x`
    (this is C03's transport with the SAME renumbering that renames the definitions); mesh properties untouched. -/
theorem survivors_keep_definitions_and_values (k : Kernel) (hi : Global.GInv k) :
    (∀ c, k.liveC c = true → ∃ ρ, Carried k (k.deleteCell c) ρ (cloC c)) ∧
    (∀ f, k.liveF f = true → ∃ ρ, Carried k (k.deleteFace f) ρ (cloF k f)) ∧
    (∀ e, k.liveE e = true → ∃ ρ, Carried k (k.deleteEdge e) ρ (cloE k e)) ∧
    (∀ v, k.liveV v = true → ∃ ρ, Carried k (k.deleteVertex v) ρ (cloV k v)) := by
  obtain ⟨a, b, c, d⟩ := deletion_removes_exactly_the_closure k hi
  exact ⟨fun x hx => (a x hx).imp fun _ h => carried_of_logMinus h.2.1,
    fun x hx => (b x hx).imp fun _ h => carried_of_logMinus h.2.1,
    fun x hx => (c x hx).imp fun _ h => carried_of_logMinus h.2.1,
    fun x hx => (d x hx).imp fun _ h => carried_of_logMinus h.2.1⟩

/-- **Deferred mode in handle terms**: nothing is renumbered and no array changes its length; afterwards a slot is
    not flagged iff it was not flagged before and is not in the closure (stated for `delete_vertex`, the deepest
    closure; `ρ = id` in `deletion_removes_exactly_the_closure` gives the same for the other three). -/
theorem deferred_deletion_flags_exactly_the_closure (k : Kernel) (hi : Global.GInv k) (hd : k.deferred = true) (v : Nat)
    (hv : v < k.nV) :
    let k' := k.deleteVertex v
    (k'.nV = k.nV ∧ k'.nE = k.nE ∧ k'.nF = k.nF ∧ k'.nC = k.nC) ∧
    (∀ x, k'.liveV x = true ↔ (k.liveV x = true ∧ x ≠ v)) ∧
    (∀ x, k'.liveE x = true ↔ (k.liveE x = true ∧ ¬ (cloV k v).e x)) ∧
    (∀ x, k'.liveF x = true ↔ (k.liveF x = true ∧ ¬ (cloV k v).f x)) ∧
    (∀ x, k'.liveC x = true ↔ (k.liveC x = true ∧ ¬ (cloV k v).c x)) ∧
    (∀ x, k'.liveE x = true → k'.edgeAt x = k.edgeAt x) ∧ (∀ x, k'.liveF x = true → k'.faceAt x = k.faceAt x) ∧
    (∀ x, k'.liveC x = true → k'.cellAt x = k.cellAt x) := by
  have s := carried_of_logMinus (deleteVertex_def hi.wf hi.one hd hv)
  have hs := (cnt_delete_def k v hd).2.2.2.1
  unfold Sizes at hs
  simp only [Prod.mk.injEq] at hs
  have lv : ∀ x, (k.deleteVertex v).liveV x = true ↔ (k.liveV x = true ∧ x ≠ v) := by
    intro x; rw [s.liveV x]
    constructor
    · rintro ⟨y, a, b, rfl⟩; exact ⟨a, b⟩
    · rintro ⟨a, b⟩; exact ⟨x, a, b, rfl⟩
  have le : ∀ x, (k.deleteVertex v).liveE x = true ↔ (k.liveE x = true ∧ ¬ (cloV k v).e x) := by
    intro x; rw [s.liveE x]
    constructor
    · rintro ⟨y, a, b, rfl⟩; exact ⟨a, b⟩
    · rintro ⟨a, b⟩; exact ⟨x, a, b, rfl⟩
  have lf : ∀ x, (k.deleteVertex v).liveF x = true ↔ (k.liveF x = true ∧ ¬ (cloV k v).f x) := by
    intro x; rw [s.liveF x]
    constructor
    · rintro ⟨y, a, b, rfl⟩; exact ⟨a, b⟩
    · rintro ⟨a, b⟩; exact ⟨x, a, b, rfl⟩
  have lc : ∀ x, (k.deleteVertex v).liveC x = true ↔ (k.liveC x = true ∧ ¬ (cloV k v).c x) := by
    intro x; rw [s.liveC x]
    constructor
    · rintro ⟨y, a, b, rfl⟩; exact ⟨a, b⟩
    · rintro ⟨a, b⟩; exact ⟨x, a, b, rfl⟩
  refine ⟨⟨hs.1, hs.2.1, hs.2.2.1, hs.2.2.2⟩, lv, le, lf, lc, ?_, ?_, ?_⟩
  · intro x hx; have := s.edge x ((le x).mp hx).1 ((le x).mp hx).2; simpa [Ren.id] using this
  · intro x hx
    have := s.face x ((lf x).mp hx).1 ((lf x).mp hx).2
    have e : (fun h : Nat => 2 * Ren.id.e (h / 2) + h % 2) = id := by funext h; simp [Ren.id]; omega
    rw [e, List.map_id] at this; exact this
  · intro x hx
    have := s.cell x ((lc x).mp hx).1 ((lc x).mp hx).2
    have e : (fun h : Nat => 2 * Ren.id.f (h / 2) + h % 2) = id := by funext h; simp [Ren.id]; omega
    rw [e, List.map_id] at this; exact this

/-- **Counts, logical counts, `needs_garbage_collection`, genus describe exactly the surviving set**, all four modes:
    with `Lv Le Lf Lc` the closure lists the deletion works with (duplicate-free, and exactly the live members of the
    definitional closure: `Lists`), the number of live entities of every kind and `n_logical_*` drop by exactly the
    lengths of these lists; `needs_garbage_collection` becomes true in deferred mode and is unchanged in immediate
    mode; `genus()` is the stated function of the logical counts in every state (`genus_formula`). -/
theorem counters_describe_the_surviving_set (k : Kernel) (hi : Global.GInv k) :
    (∀ c, k.liveC c = true → Lists k (cloC c) [] [] [] [c] ∧ CountsOK k (k.deleteCell c) [] [] [] [c]) ∧
    (∀ f, k.liveF f = true → Lists k (cloF k f) [] [] [f] (k.incidentCells [f]) ∧
      CountsOK k (k.deleteFace f) [] [] [f] (k.incidentCells [f])) ∧
    (∀ e, k.liveE e = true → Lists k (cloE k e) [] [e] (k.incidentFaces [e]) (k.incidentCells (k.incidentFaces [e])) ∧
      CountsOK k (k.deleteEdge e) [] [e] (k.incidentFaces [e]) (k.incidentCells (k.incidentFaces [e]))) ∧
    (∀ v, k.liveV v = true →
      Lists k (cloV k v) [v] (k.incidentEdges [v]) (k.incidentFaces (k.incidentEdges [v]))
        (k.incidentCells (k.incidentFaces (k.incidentEdges [v]))) ∧
      CountsOK k (k.deleteVertex v) [v] (k.incidentEdges [v]) (k.incidentFaces (k.incidentEdges [v]))
        (k.incidentCells (k.incidentFaces (k.incidentEdges [v])))) ∧
    (∀ k : Kernel, k.genus = (let g : Int := 1 - ((k.nLogV : Int) - k.nLogE + k.nLogF - k.nLogC);
      if g.tmod 2 = 0 then g.tdiv 2 else -1)) :=
  ⟨fun _ h => deleteCell_counters hi h, fun _ h => deleteFace_counters hi h, fun _ h => deleteEdge_counters hi h,
   fun _ h => deleteVertex_counters hi h, genus_formula⟩

/-- **the quantifier of the property**: after every history of valid calls from the empty mesh — construction, `set_*`,
    deletions in all four modes, index swaps, `collect_garbage`, mode and incidence toggles, `clear` (`Global.HistoryOK`:
    handles in range, constituents not deleted; C01 `reach_inv`) — the next deletion of a live entity removes exactly its
    upward closure, survivors keep definitions and values, and the counters describe the surviving set -/
theorem deletion_on_reachable_states (ops : List Op) (h : Global.HistoryOK {} ops) :
    Global.GInv (({} : Kernel).run ops) ∧
    (∀ v, (({} : Kernel).run ops).liveV v = true →
      (∃ ρ, ModeShape (({} : Kernel).run ops) ρ ∧
        LogMinus (({} : Kernel).run ops) ((({} : Kernel).run ops).deleteVertex v) ρ (cloV (({} : Kernel).run ops) v) ∧
        Carried (({} : Kernel).run ops) ((({} : Kernel).run ops).deleteVertex v) ρ (cloV (({} : Kernel).run ops) v)) ∧
      CountsOK (({} : Kernel).run ops) ((({} : Kernel).run ops).deleteVertex v) [v] ((({} : Kernel).run ops).incidentEdges [v])
        ((({} : Kernel).run ops).incidentFaces ((({} : Kernel).run ops).incidentEdges [v]))
        ((({} : Kernel).run ops).incidentCells ((({} : Kernel).run ops).incidentFaces ((({} : Kernel).run ops).incidentEdges [v])))) := by
  have g := Global.ginv_reachable ops h
  refine ⟨g, fun v hv => ?_⟩
  obtain ⟨ρ, m, s, _⟩ := (deletion_removes_exactly_the_closure _ g).2.2.2 v hv
  exact ⟨⟨ρ, m, s, carried_of_logMinus s⟩, ((counters_describe_the_surviving_set _ g).2.2.2.1 v hv).2⟩

/-! non-vacuity -/

set_option maxRecDepth 8000 in
/-- deferred mode (the tetrahedron, all caches on): the hypotheses hold; the closure of vertex 0 is the vertex, its three
    edges, the three faces on them and the cell; `delete_vertex(0)` flags exactly these (TEST by evaluation next to the
    theorem's conclusion), `n_logical_*` = 3, 3, 1, 0 and `needs_garbage_collection` holds -/
example : Global.GInv tetK ∧ tetK.deferred = true ∧ tetK.liveV 0 = true ∧
    tetK.incidentEdges [0] = [0, 2, 3] ∧ tetK.incidentFaces (tetK.incidentEdges [0]) = [0, 1, 3] ∧
    tetK.incidentCells (tetK.incidentFaces (tetK.incidentEdges [0])) = [0] ∧
    (∃ ρ, ModeShape tetK ρ ∧ LogMinus tetK (tetK.deleteVertex 0) ρ (cloV tetK 0)) ∧
    (tetK.deleteVertex 0).nLogV = 3 ∧ (tetK.deleteVertex 0).nLogE = tetK.nLogE - 3 ∧ (tetK.deleteVertex 0).nLogE = 3 ∧
    (tetK.deleteVertex 0).nLogF = 1 ∧ (tetK.deleteVertex 0).nLogC = 0 ∧ (tetK.deleteVertex 0).needsGC = true ∧
    (tetK.deleteVertex 0).eDel = [true, false, true, true, false, false] := by
  obtain ⟨ρ, m, s, _⟩ := (deletion_removes_exactly_the_closure tetK ginv_tetK).2.2.2 0 (by decide)
  have c := ((counters_describe_the_surviving_set tetK ginv_tetK).2.2.2.1 0 (by decide)).2
  exact ⟨ginv_tetK, rfl, by decide, by decide, by decide, by decide, ⟨ρ, m, s⟩, by decide, c.2.1.2.1, by decide, by decide,
    by decide, c.2.2.1 rfl, by decide⟩

set_option maxRecDepth 8000 in
/-- immediate index-shifting mode: `delete_edge(1)` on the tetrahedron removes the edge, its two faces and the cell;
    the four surviving-count equations of the theorem, and the renumbered survivors by evaluation (TEST) -/
example : Global.GInv Shift.tetImm ∧ Shift.tetImm.deferred = false ∧ Shift.tetImm.fast = false ∧ Shift.tetImm.liveE 1 = true ∧
    Shift.tetImm.incidentFaces [1] = [0, 2] ∧ Shift.tetImm.incidentCells (Shift.tetImm.incidentFaces [1]) = [0] ∧
    (∃ ρ, ModeShape Shift.tetImm ρ ∧ LogMinus Shift.tetImm (Shift.tetImm.deleteEdge 1) ρ (cloE Shift.tetImm 1)) ∧
    (Shift.tetImm.deleteEdge 1).nLogE = Shift.tetImm.nLogE - 1 ∧ (Shift.tetImm.deleteEdge 1).nLogF = Shift.tetImm.nLogF - 2 ∧
    (Shift.tetImm.deleteEdge 1).edges = [(0, 1), (2, 0), (0, 3), (3, 1), (3, 2)] ∧
    (Shift.tetImm.deleteEdge 1).faces = [[4, 6, 1], [3, 9, 5]] ∧ (Shift.tetImm.deleteEdge 1).needsGC = false := by
  have g : Global.GInv Shift.tetImm := Global.ginv_of_shiftImmInv Shift.immInv_tetImm (by unfold NoFlag; decide)
  obtain ⟨ρ, m, s, _⟩ := (deletion_removes_exactly_the_closure _ g).2.2.1 1 (by decide)
  have c := ((counters_describe_the_surviving_set _ g).2.2.1 1 (by decide)).2
  exact ⟨g, rfl, rfl, by decide, by decide, by decide, ⟨ρ, m, s⟩, c.2.1.2.1, c.2.1.2.2.1, by decide, by decide, by decide⟩

set_option maxRecDepth 8000 in
/-- immediate swap-with-last mode: `delete_face(0)` on the tetrahedron; the last face takes handle 0 -/
example : Global.GInv Kernel.tetImm ∧ Kernel.tetImm.deferred = false ∧ Kernel.tetImm.fast = true ∧
    (∃ ρ, ModeShape Kernel.tetImm ρ ∧ LogMinus Kernel.tetImm (Kernel.tetImm.deleteFace 0) ρ (cloF Kernel.tetImm 0)) ∧
    (Kernel.tetImm.deleteFace 0).faces = [[5, 11, 7], [6, 8, 1], [9, 10, 3]] ∧ (Kernel.tetImm.deleteFace 0).cells = [] := by
  have g : Global.GInv Kernel.tetImm := Global.ginv_of_immInv immInv_tetImm (by unfold NoFlag; decide)
  obtain ⟨ρ, m, s, _⟩ := (deletion_removes_exactly_the_closure _ g).2.1 0 (by decide)
  exact ⟨g, rfl, rfl, ⟨ρ, m, s⟩, by decide, by decide⟩

end OVM.Props.C02

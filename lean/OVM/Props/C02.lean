import OVM.Refine.Inv
import OVM.Refine.DeleteFrames
import OVM.Refine.Len
/-
  C02 — deletion removes exactly the entity's upward closure; survivors are unchanged.
  Proved here:
  * the renumbering applied after an index-shifting deletion (`corr1` for vertices/cells,
    `corr2` for half-entities; the generated `correctValue`s, see C08.model_arith_is_generated)
    is an order-preserving bijection from the surviving handles onto `0 … n-2` that keeps
    half-entities with their parent and on their side;
  * deferred deletion of a cell marks exactly that cell and changes no definition, no other
    flag and no counter but the cell counter (all modes of the *other* entities untouched);
  * the bookkeeping functions (`n_logical_*`, `needs_garbage_collection`, `genus`) are the
    stated functions of the counters.
  The closure statement for faces / edges / vertices in every mode is evaluated on every step
  of the correspondence run by the token-named-mesh oracle (Judge.checkStepOracles) and is on
  the refinement ladder.
-/
namespace OVM.Props.C02
open OVM OVM.Kernel

/-- the vertex / cell shift is injective on the survivors and lands in `0 … n-2` -/
theorem corr1_bijective (h n : Nat) (hh : h < n) :
    (∀ x, x < n → x ≠ h → corr1 h x < n - 1) ∧
    (∀ x y, x ≠ h → y ≠ h → corr1 h x = corr1 h y → x = y) ∧
    (∀ z, z < n - 1 → ∃ x, x < n ∧ x ≠ h ∧ corr1 h x = z) ∧
    (∀ x y, x ≠ h → y ≠ h → x < y → corr1 h x < corr1 h y) := by
  unfold corr1
  refine ⟨?_, ?_, ?_, ?_⟩
  · intro x hx hne; split <;> omega
  · intro x y hx hy; split <;> split <;> omega
  · intro z hz
    by_cases hzh : z < h
    · exact ⟨z, by omega, by omega, by simp; omega⟩
    · refine ⟨z + 1, by omega, by omega, ?_⟩
      have : z + 1 > h := by omega
      simp [this]
  · intro x y hx hy hxy; split <;> split <;> omega

/-- the half-entity shift after erasing parent `h` (threshold `2h+1`): injective on the
    surviving half-entities, keeps the side, and maps parent `e` to `e` / `e-1` -/
theorem corr2_half (h x : Nat) (hx : x / 2 ≠ h) :
    corr2 (2 * h + 1) x % 2 = x % 2 ∧ corr2 (2 * h + 1) x / 2 = corr1 h (x / 2) := by
  unfold corr2 corr1
  rcases Nat.lt_or_gt_of_ne hx with hlt | hgt
  · have h1 : ¬ x > 2 * h + 1 := by omega
    have h2 : ¬ x / 2 > h := by omega
    simp [h1, h2]
  · have h1 : x > 2 * h + 1 := by omega
    have h2 : x / 2 > h := hgt
    simp only [h1, h2, if_true]
    constructor <;> omega

theorem corr2_injective (h x y : Nat) (hx : x / 2 ≠ h) (hy : y / 2 ≠ h)
    (he : corr2 (2 * h + 1) x = corr2 (2 * h + 1) y) : x = y := by
  unfold corr2 at he
  split at he <;> split at he <;> omega

/-- deferred deletion of a cell: only the flag and the counter of that cell change -/
theorem deleteCell_deferred (k : Kernel) (c : Nat) (hd : k.deferred = true) :
    (k.deleteCell c).cells = k.cells ∧ (k.deleteCell c).faces = k.faces ∧ (k.deleteCell c).edges = k.edges ∧
    (k.deleteCell c).nV = k.nV ∧ (k.deleteCell c).cDel = k.cDel.set c true ∧
    (k.deleteCell c).fDel = k.fDel ∧ (k.deleteCell c).eDel = k.eDel ∧ (k.deleteCell c).vDel = k.vDel ∧
    (k.deleteCell c).nDelC = k.nDelC + 1 ∧ (k.deleteCell c).nDelF = k.nDelF ∧
    (k.deleteCell c).nDelE = k.nDelE ∧ (k.deleteCell c).nDelV = k.nDelV ∧
    (k.deleteCell c).props = k.props := by
  unfold deleteCell deleteCellCore
  simp [hd]

/-- the surviving cells keep their definitions and their handles in deferred mode -/
theorem deleteCell_deferred_survivors (k : Kernel) (c x : Nat) (hd : k.deferred = true) (hx : x ≠ c) :
    (k.deleteCell c).cellAt x = k.cellAt x ∧ (k.deleteCell c).cDeleted x = k.cDeleted x := by
  have h := deleteCell_deferred k c hd
  unfold cellAt cDeleted
  rw [h.1, h.2.2.2.2.1]
  simp [List.getD_eq_getElem?_getD, List.getElem?_set, Ne.symm hx]

/-- the victim is flagged (when its handle is in range) -/
theorem deleteCell_deferred_victim (k : Kernel) (c : Nat) (hd : k.deferred = true) (hc : c < k.cDel.length) :
    (k.deleteCell c).cDeleted c = true := by
  have h := deleteCell_deferred k c hd
  unfold cDeleted
  rw [h.2.2.2.2.1]
  simp [List.getD_eq_getElem?_getD, hc]

/-- bookkeeping functions are the stated functions of the counters -/
theorem bookkeeping (k : Kernel) :
    k.nLogV = k.nV - k.nDelV ∧ k.nLogE = k.edges.length - k.nDelE ∧ k.nLogF = k.faces.length - k.nDelF ∧
    k.nLogC = k.cells.length - k.nDelC ∧
    (k.needsGC = true ↔ (k.nDelV > 0 ∨ k.nDelE > 0 ∨ k.nDelF > 0 ∨ k.nDelC > 0)) := by
  refine ⟨rfl, rfl, rfl, rfl, ?_⟩
  simp [needsGC, or_assoc]

/-- after every history the deletion-flag arrays have exactly one flag per entity slot (so
    `is_deleted` is defined for exactly the existing handles) — all modes, all incidence subsets -/
theorem flags_cover_exactly_the_slots (ops : List Op) (hr : HistoryInRange {} ops) :
    let k := (({} : Kernel).run ops)
    k.vDel.length = k.nV ∧ k.eDel.length = k.nE ∧ k.fDel.length = k.nF ∧ k.cDel.length = k.nC := by
  have h := lenInv_run {} ops lenInv_empty hr
  exact ⟨h.vDel, h.eDel, h.fDel, h.cDel⟩

example : corr1 2 5 = 4 ∧ corr1 2 1 = 1 ∧ corr2 5 9 = 7 ∧ corr2 5 4 = 4 := by decide

example :
    let k : Kernel := { nV := 4, cells := [[0, 2], [1, 3]], cDel := [false, false], fBU := false, eBU := false, vBU := false }
    (k.deleteCell 0).cDel = [true, false] ∧ (k.deleteCell 0).cells = k.cells ∧ (k.deleteCell 0).nLogC = 1 := by decide

end OVM.Props.C02

import OVM.Refine.Inv
import OVM.Refine.DeleteFrames
import OVM.Refine.Len
import OVM.Refine.CacheDelete
import OVM.Refine.CacheSwap
/-
  C02 — deletion removes exactly the entity's upward closure; survivors are unchanged.
  Proved here:
  * the renumbering applied after an index-shifting deletion (`corr1` for vertices/cells,
    `corr2` for half-entities; the generated `correctValue`s, see C08.model_arith_is_generated)
    is an order-preserving bijection from the surviving handles onto `0 … n-2` that keeps
    half-entities with their parent and on their side;
  * deferred deletion of a cell marks exactly that cell and changes no definition, no other
    flag and no counter but the cell counter (all modes of the *other* entities untouched);
  * the bookkeeping functions (`n_logical_*`, `needs_garbage_collection`, `genus`) are the
    stated functions of the counters.
  The closure statement for faces / edges / vertices in every mode is evaluated on every step
  of the correspondence run by the token-named-mesh oracle (Judge.checkStepOracles) and is on
  the refinement ladder.
-/
namespace OVM.Props.C02
open OVM OVM.Kernel

/-- the vertex / cell shift is injective on the survivors and lands in `0 … n-2` -/
theorem corr1_bijective (h n : Nat) (hh : h < n) :
    (∀ x, x < n → x ≠ h → corr1 h x < n - 1) ∧
    (∀ x y, x ≠ h → y ≠ h → corr1 h x = corr1 h y → x = y) ∧
    (∀ z, z < n - 1 → ∃ x, x < n ∧ x ≠ h ∧ corr1 h x = z) ∧
    (∀ x y, x ≠ h → y ≠ h → x < y → corr1 h x < corr1 h y) := by
  unfold corr1
  refine ⟨?_, ?_, ?_, ?_⟩
  · intro x hx hne; split <;> omega
  · intro x y hx hy; split <;> split <;> omega
  · intro z hz
    by_cases hzh : z < h
    · exact ⟨z, by omega, by omega, by simp; omega⟩
    · refine ⟨z + 1, by omega, by omega, ?_⟩
      have : z + 1 > h := by omega
      simp [this]
  · intro x y hx hy hxy; split <;> split <;> omega

/-- the half-entity shift after erasing parent `h` (threshold `2h+1`): injective on the
    surviving half-entities, keeps the side, and maps parent `e` to `e` / `e-1` -/
theorem corr2_half (h x : Nat) (hx : x / 2 ≠ h) :
    corr2 (2 * h + 1) x % 2 = x % 2 ∧ corr2 (2 * h + 1) x / 2 = corr1 h (x / 2) := by
  unfold corr2 corr1
  rcases Nat.lt_or_gt_of_ne hx with hlt | hgt
  · have h1 : ¬ x > 2 * h + 1 := by omega
    have h2 : ¬ x / 2 > h := by omega
    simp [h1, h2]
  · have h1 : x > 2 * h + 1 := by omega
    have h2 : x / 2 > h := hgt
    simp only [h1, h2, if_true]
    constructor <;> omega

theorem corr2_injective (h x y : Nat) (hx : x / 2 ≠ h) (hy : y / 2 ≠ h)
    (he : corr2 (2 * h + 1) x = corr2 (2 * h + 1) y) : x = y := by
  unfold corr2 at he
  split at he <;> split at he <;> omega

/-- deferred deletion of a cell: only the flag and the counter of that cell change -/
theorem deleteCell_deferred (k : Kernel) (c : Nat) (hd : k.deferred = true) :
    (k.deleteCell c).cells = k.cells ∧ (k.deleteCell c).faces = k.faces ∧ (k.deleteCell c).edges = k.edges ∧
    (k.deleteCell c).nV = k.nV ∧ (k.deleteCell c).cDel = k.cDel.set c true ∧
    (k.deleteCell c).fDel = k.fDel ∧ (k.deleteCell c).eDel = k.eDel ∧ (k.deleteCell c).vDel = k.vDel ∧
    (k.deleteCell c).nDelC = k.nDelC + 1 ∧ (k.deleteCell c).nDelF = k.nDelF ∧
    (k.deleteCell c).nDelE = k.nDelE ∧ (k.deleteCell c).nDelV = k.nDelV ∧
    (k.deleteCell c).props = k.props := by
  unfold deleteCell deleteCellCore
  simp [hd]

/-- the surviving cells keep their definitions and their handles in deferred mode -/
theorem deleteCell_deferred_survivors (k : Kernel) (c x : Nat) (hd : k.deferred = true) (hx : x ≠ c) :
    (k.deleteCell c).cellAt x = k.cellAt x ∧ (k.deleteCell c).cDeleted x = k.cDeleted x := by
  have h := deleteCell_deferred k c hd
  unfold cellAt cDeleted
  rw [h.1, h.2.2.2.2.1]
  simp [List.getD_eq_getElem?_getD, List.getElem?_set, Ne.symm hx]

/-- the victim is flagged (when its handle is in range) -/
theorem deleteCell_deferred_victim (k : Kernel) (c : Nat) (hd : k.deferred = true) (hc : c < k.cDel.length) :
    (k.deleteCell c).cDeleted c = true := by
  have h := deleteCell_deferred k c hd
  unfold cDeleted
  rw [h.2.2.2.2.1]
  simp [List.getD_eq_getElem?_getD, hc]

/-- bookkeeping functions are the stated functions of the counters -/
theorem bookkeeping (k : Kernel) :
    k.nLogV = k.nV - k.nDelV ∧ k.nLogE = k.edges.length - k.nDelE ∧ k.nLogF = k.faces.length - k.nDelF ∧
    k.nLogC = k.cells.length - k.nDelC ∧
    (k.needsGC = true ↔ (k.nDelV > 0 ∨ k.nDelE > 0 ∨ k.nDelF > 0 ∨ k.nDelC > 0)) := by
  refine ⟨rfl, rfl, rfl, rfl, ?_⟩
  simp [needsGC, or_assoc]

/-- after every history the deletion-flag arrays have exactly one flag per entity slot (so
    `is_deleted` is defined for exactly the existing handles) — all modes, all incidence subsets -/
theorem flags_cover_exactly_the_slots (ops : List Op) (hr : HistoryInRange {} ops) :
    let k := (({} : Kernel).run ops)
    k.vDel.length = k.nV ∧ k.eDel.length = k.nE ∧ k.fDel.length = k.nF ∧ k.cDel.length = k.nC := by
  have h := lenInv_run {} ops lenInv_empty hr
  exact ⟨h.vDel, h.eDel, h.fDel, h.cDel⟩

example : corr1 2 5 = 4 ∧ corr1 2 1 = 1 ∧ corr2 5 9 = 7 ∧ corr2 5 4 = 4 := by decide

example :
    let k : Kernel := { nV := 4, cells := [[0, 2], [1, 3]], cDel := [false, false], fBU := false, eBU := false, vBU := false }
    (k.deleteCell 0).cDel = [true, false] ∧ (k.deleteCell 0).cells = k.cells ∧ (k.deleteCell 0).nLogC = 1 := by decide

/-! ------------------------------------------------------------------------------------------
    Rung B, deletion side: deletion keeps the cache invariant (`WF = LenInv ∧ RangeInv ∧ CacheInv`,
    OVM/Refine/CacheDelete.lean).
    ------------------------------------------------------------------------------------------ -/

/-- **deferred deletion keeps the cache invariant**: in deferred mode every `delete_cell`,
    `delete_face`, `delete_edge`, `delete_vertex` (whole upward closure, any handle) maps a
    well-formed state in which no halfface lies in two live cells (`oneCell`, C01's stated
    precondition) to such a state again.  `oneCell` is needed by `delete_cell_core` only: it
    merely clears `incident_cell_per_hf_[hf]` (cc:1385-1388), which is right exactly when no
    second live cell uses `hf`. -/
theorem deferred_deletion_keeps_cache_invariant (k : Kernel) (hd : k.deferred = true) (hw : WF k)
    (h1 : k.oneCell = true) (x : Nat) :
    (WF (k.deleteCell x) ∧ (k.deleteCell x).oneCell = true) ∧
    (WF (k.deleteFace x) ∧ (k.deleteFace x).oneCell = true) ∧
    (WF (k.deleteEdge x) ∧ (k.deleteEdge x).oneCell = true) ∧
    (WF (k.deleteVertex x) ∧ (k.deleteVertex x).oneCell = true) :=
  ⟨(defInv_deleteCell x ⟨hd, hw, h1⟩).2, (defInv_deleteFace x ⟨hd, hw, h1⟩).2,
   (defInv_deleteEdge x ⟨hd, hw, h1⟩).2, (defInv_deleteVertex x ⟨hd, hw, h1⟩).2⟩

/-- every history of deferred deletions from a well-formed `oneCell` state stays well-formed, so
    (C01) every upward query keeps answering with the brute-force scan -/
theorem deferred_deletion_history_keeps_cache_invariant (k : Kernel) (hd : k.deferred = true) (hw : WF k)
    (h1 : k.oneCell = true) (ops : List Op)
    (hops : ∀ op ∈ ops, ∃ x, op = .deleteCell x ∨ op = .deleteFace x ∨ op = .deleteEdge x ∨ op = .deleteVertex x) :
    WF (k.run ops) ∧ CacheInv (k.run ops) := by
  have : DefInv (k.run ops) := by
    have hi : DefInv k := ⟨hd, hw, h1⟩
    clear hd hw h1
    induction ops generalizing k with
    | nil => exact hi
    | cons op t ih =>
      simp only [run, List.foldl_cons]
      apply ih _ (fun o ho => hops o (by simp [ho]))
      obtain ⟨x, hx⟩ := hops op (by simp)
      rcases hx with rfl | rfl | rfl | rfl
      · exact defInv_deleteCell x hi
      · exact defInv_deleteFace x hi
      · exact defInv_deleteEdge x hi
      · exact defInv_deleteVertex x hi
  exact ⟨this.2.1, this.2.1.cache⟩

/-- non-vacuity: the tetrahedron with all caches enabled satisfies the hypotheses; deleting vertex 0
    flags the cell, three faces, three edges and the vertex, and the caches still equal the scans
    (evaluated by the executable form of the invariant as a cross-check of the theorem) -/
example : tetK.deferred = true ∧ WF tetK ∧ tetK.oneCell = true ∧
    (tetK.deleteVertex 0).cDel = [true] ∧ (tetK.deleteVertex 0).fDel = [true, true, false, true] ∧
    (tetK.deleteVertex 0).eDel = [true, false, true, true, false, false] ∧
    (tetK.deleteVertex 0).incCell = [none, none, none, none, none, none, none, none] ∧
    (tetK.deleteVertex 0).cacheInvB = true :=
  ⟨rfl, wf_tetK, by decide, by decide, by decide, by decide, by decide, by decide⟩

/-- **`swap_cell_indices` and `swap_vertex_indices` keep the cache invariant** for in-range handles
    (deleted or not), in the cache-guided and in the linear-scan variants.  `swap_cell_indices`
    additionally needs and keeps C01's `oneCell`.
    `_partial`: the same statement for `swap_edge_indices` / `swap_face_indices` is not proved yet
    (LenInv for them is `lenInv_swapEdge/Face`; what remains is listed at the end of
    OVM/Refine/CacheSwap.lean). -/
theorem swaps_keep_cache_invariant_partial (k : Kernel) (hw : WF k) (a b : Nat) :
    (a < k.nV → b < k.nV → WF (k.swapVertex a b)) ∧
    (a < k.nC → b < k.nC → k.oneCell = true → WF (k.swapCell a b) ∧ (k.swapCell a b).oneCell = true) :=
  ⟨fun ha hb => wf_swapVertex ha hb hw,
   fun ha hb h1 => ⟨wf_swapCell ha hb hw h1, oneCell_swapCell ha hb hw.len.cDel h1⟩⟩

/-- non-vacuity: on the tetrahedron (all caches enabled) swapping vertices 0 and 3 relabels four
    edge definitions and exchanges two cache slots; the executable invariant agrees -/
example : WF tetK ∧ (0 : Nat) < tetK.nV ∧ 3 < tetK.nV ∧
    (tetK.swapVertex 0 3).edges = [(3, 1), (1, 2), (2, 3), (3, 0), (0, 1), (0, 2)] ∧
    (tetK.swapVertex 0 3).outHes = [[7, 8, 10], [1, 2, 9], [3, 4, 11], [0, 5, 6]] ∧
    (tetK.swapVertex 0 3).cacheInvB = true :=
  ⟨wf_tetK, by decide, by decide, by decide, by decide, by decide⟩

/-- non-vacuity for cells: two tetrahedra glued along a face would need a bigger state; here the
    single-cell mesh plus one deferred-deleted copy of the cell (slot 1): swapping 0 and 1 moves
    the live cell to handle 1 and the cache follows -/
example :
    let k : Kernel := { tetK with cells := [[1, 3, 5, 7], [1, 3, 5, 7]], cDel := [false, true], nDelC := 1 }
    k.cacheInvB = true ∧ k.oneCell = true ∧
    (k.swapCell 0 1).cDel = [true, false] ∧
    (k.swapCell 0 1).incCell = [none, some 1, none, some 1, none, some 1, none, some 1] ∧
    (k.swapCell 0 1).cacheInvB = true := by decide

/-- **immediate `delete_cell` in fast mode keeps the cache invariant** (swap with the last cell,
    unlink, pop), for an in-range handle (`delete_cell_core` asserts it, cc:1362) and `oneCell`.
    `_partial`: immediate deletion of faces / edges / vertices, the index-shifting (non-fast) mode
    and `collect_garbage` are not proved; see the end of OVM/Refine/CacheSwap.lean. -/
theorem immediate_fast_delete_cell_keeps_cache_invariant_partial (k : Kernel) (hd : k.deferred = false)
    (hf : k.fast = true) (hw : WF k) (h1 : k.oneCell = true) (c : Nat) (hc : c < k.nC) :
    WF (k.deleteCell c) := wf_deleteCellCore_fast c hd hf hc hw h1

/-- non-vacuity: the tetrahedron in immediate fast mode; deleting its cell pops the slot, clears
    the four links and leaves every fan a permutation of what it was -/
example :
    let k : Kernel := { tetK with deferred := false }
    k.fast = true ∧ k.cacheInvB = true ∧ (k.deleteCell 0).cells = [] ∧
    (k.deleteCell 0).incCell = [none, none, none, none, none, none, none, none] ∧
    (k.deleteCell 0).cacheInvB = true := by decide

end OVM.Props.C02

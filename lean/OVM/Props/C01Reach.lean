import OVM.Props.C01
import OVM.Refine.GlobalBU4
import OVM.Refine.GlobalLoops2
import OVM.Refine.GlobalQueries
/-
  C01, reachability part — the cache invariant holds in EVERY state the API can reach.

  `Global.GInv k = WF k ∧ oneCell k ∧ Closed k ∧ FlagInv k` (OVM/Refine/Global.lean; `WF` contains `CacheInv`,
  the statement "every enabled cache = the brute-force scan") is kept by every operation of the driver
  vocabulary `Kernel.step` (add_vertex, add_n_vertices, add_edge, add_face ×2, add_cell, set_edge/face/cell,
  delete_vertex/edge/face/cell, swap_vertex/edge/face/cell_indices, collect_garbage, enable_deferred_deletion,
  enable_fast_deletion, enable_{vertex,edge,face}_bottom_up_incidences, clear) in all four deletion modes and all
  eight bottom-up configurations, under `Global.OpOK` = valid arguments only (each clause cites the C++ assertion or
  the property's stated precondition that makes it one; no clause mentions a mode).  The empty mesh satisfies it.
  Hence (`every_query_exact_on_reachable_states`) every query theorem of Props/C01.lean applies after every
  history of valid calls: each upward query of the model is the brute-force answer and never reports a deleted
  entity.

  What `OpOK` assumes beyond "handles in range" — and why each is needed (witnesses in the cited files):
  not-deleted constituents for add_edge/add_face/add_cell/set_* (asserted by the C++, cc:121-122, 183, 247, 393,
  510-511; without it a later collect_garbage leaves dangling handles, end of OVM/Refine/CacheFastGC.lean);
  add_cell / set_cell only onto pairwise distinct halffaces that no other live cell uses (C01's own
  precondition; cc:2280); set_* only on a not-deleted entity (NOT asserted by the C++; witnesses
  `setEdge/setFace/setCell_deleted_breaks`, OVM/Refine/CacheSet.lean).

  Second part (C12): on `GInv` states the operations do not depend on the bottom-up configuration
  (`bottom_up_optional_partial`, `toggle_is_transparent`; OVM/Refine/GlobalBU.lean, GlobalBU2.lean).
-/
namespace OVM.Props.C01Reach
open OVM OVM.Kernel
open OVM.Kernel.Global (GInv ginv_empty ginv_step ginv_run ginv_reachable closed_iff_up historyOKB historyOK_of_B
  same_step same_run same_run_toggles stripBU same_toggle_left same_opOK FaceCyc)

/-- the empty mesh satisfies the global invariant -/
theorem inv_init : GInv ({} : Kernel) := ginv_empty

/-- one valid call keeps the invariant (whole vocabulary, every mode, every bottom-up configuration) -/
theorem step_inv (k : Kernel) (op : Op) (hi : GInv k) (hok : Global.OpOK k op) : GInv (k.step op).1 :=
  ginv_step k op hi hok

/-- every history of valid calls keeps the invariant, from any state satisfying it (generated, loaded …) -/
theorem reach_inv_from (k : Kernel) (ops : List Op) (hi : GInv k) (h : Global.HistoryOK k ops) : GInv (k.run ops) :=
  ginv_run k ops hi h

/-- **reachability**: every state reached from the empty mesh by valid calls satisfies the invariant -/
theorem reach_inv (ops : List Op) (h : Global.HistoryOK {} ops) : GInv (run {} ops) := ginv_reachable ops h

/-- builder K3's "a flagged entity is used only by flagged entities one level up" and builder K4's
    "nothing live uses something flagged" are one fact -/
theorem closed_is_upward_closure (k : Kernel) : Closed k ↔ (UpC k ∧ UpF k ∧ UpE k) := closed_iff_up k

/-- in immediate mode (deferred deletion off) no entity carries a deletion flag -/
theorem immediate_mode_has_no_flags (ops : List Op) (h : Global.HistoryOK {} ops) (hd : (run {} ops).deferred = false) :
    NoFlag (run {} ops).cDel ∧ NoFlag (run {} ops).fDel ∧ NoFlag (run {} ops).eDel ∧ NoFlag (run {} ops).vDel :=
  (reach_inv ops h).noFlag_of_immediate hd

/-- the Boolean test of `OpOK` along a history is sound (used by the non-vacuity example and the judge) -/
theorem history_test_sound (k : Kernel) (ops : List Op) (h : historyOKB k ops = true) : Global.HistoryOK k ops :=
  historyOK_of_B k ops h

/-- every upward query that Props/C01.lean treats, on a state satisfying the invariant -/
theorem every_query_exact (k : Kernel) (hi : GInv k) :
    (k.vBU = true → ∀ v, v < k.nV →
        (k.qVOH v).Perm (k.sOut v) ∧ (k.qVIH v).Perm ((k.sOut v).map opp) ∧
        (k.qVE v).Perm ((k.sOut v).map eOf) ∧ (k.qVV v).Perm ((k.sOut v).map k.toV) ∧
        k.qValV v = (k.sOut v).length) ∧
    (k.eBU = true → ∀ h, h < k.nHE → (k.qHEHF h).Perm (k.sHfsOfHe h) ∧ ∀ f, f ∈ k.qHEHF h ↔ f ∈ k.sHfsOfHe h) ∧
    (k.eBU = true → ∀ e, e < k.nE → k.qValE e = (k.sHfsOfHe (heOf e 0)).length) ∧
    (k.fBU = true → ∀ hf, hf < k.nHF → k.cellOf hf = k.sCellOf hf ∧ k.qBoundaryHF hf = k.sBoundaryHF hf) ∧
    (k.fBU = true → ∀ f, f < k.nF → k.qBoundaryF f = k.sBoundaryF f) ∧
    -- deleted-but-uncollected entities never appear
    (k.vBU = true → ∀ v, v < k.nV → ∀ h ∈ k.qVOH v, k.liveE (eOf h) = true) ∧
    (k.eBU = true → ∀ h, h < k.nHE → ∀ hf ∈ k.qHEHF h, k.liveF (eOf hf) = true) ∧
    (k.fBU = true → ∀ hf, hf < k.nHF → ∀ c, k.cellOf hf = some c → k.cDeleted c = false) := by
  have hI := hi.wf.cache
  have hd := C01.deleted_never_reported k hI
  exact ⟨fun hb v hv => ⟨C01.outgoing_halfedges_exact k hI hb v hv, C01.incoming_halfedges_exact k hI hb v hv,
            C01.vertex_edges_exact k hI hb v hv, C01.vertex_vertices_exact k hI hb v hv,
            C01.vertex_valence_exact k hI hb v hv⟩,
         fun hb h hh => ⟨C01.halfedge_halffaces_exact k hI hb h hh, C01.halfedge_faces_exact k hI hb h hh⟩,
         fun hb e he => C01.edge_valence_exact k hI hb e he,
         fun hb hf hh => ⟨C01.incident_cell_exact k hI hb hf hh, C01.is_boundary_halfface_exact k hI hb hf hh⟩,
         fun hb f hf => C01.is_boundary_face_exact k hI hb f hf,
         hd.1, hd.2.1, hd.2.2⟩

/-- **for every history of valid operations from the empty mesh, every upward query of the model equals the
    brute-force scan over the stored definitions of the not-deleted entities and never reports a deleted
    entity** (the queries of Props/C01.lean; all deletion modes, all bottom-up configurations) -/
theorem every_query_exact_on_reachable_states (ops : List Op) (h : Global.HistoryOK {} ops) :
    let k := run {} ops
    (k.vBU = true → ∀ v, v < k.nV →
        (k.qVOH v).Perm (k.sOut v) ∧ (k.qVIH v).Perm ((k.sOut v).map opp) ∧
        (k.qVE v).Perm ((k.sOut v).map eOf) ∧ (k.qVV v).Perm ((k.sOut v).map k.toV) ∧
        k.qValV v = (k.sOut v).length) ∧
    (k.eBU = true → ∀ h, h < k.nHE → (k.qHEHF h).Perm (k.sHfsOfHe h) ∧ ∀ f, f ∈ k.qHEHF h ↔ f ∈ k.sHfsOfHe h) ∧
    (k.eBU = true → ∀ e, e < k.nE → k.qValE e = (k.sHfsOfHe (heOf e 0)).length) ∧
    (k.fBU = true → ∀ hf, hf < k.nHF → k.cellOf hf = k.sCellOf hf ∧ k.qBoundaryHF hf = k.sBoundaryHF hf) ∧
    (k.fBU = true → ∀ f, f < k.nF → k.qBoundaryF f = k.sBoundaryF f) ∧
    (k.vBU = true → ∀ v, v < k.nV → ∀ h ∈ k.qVOH v, k.liveE (eOf h) = true) ∧
    (k.eBU = true → ∀ h, h < k.nHE → ∀ hf ∈ k.qHEHF h, k.liveF (eOf hf) = true) ∧
    (k.fBU = true → ∀ hf, hf < k.nHF → ∀ c, k.cellOf hf = some c → k.cDeleted c = false) :=
  every_query_exact (run {} ops) (reach_inv ops h)

/-- **the derived upward queries** on a state satisfying the invariant: edge/halfedge → faces, vertex → faces,
    halfedge → cells, cell → cells and `is_boundary` on halfedges, edges, vertices and cells are exactly the
    brute-force answers over the stored definitions of the not-deleted entities (OVM/Spec/Incidence.lean).
    vertex → faces climbs two levels and uses `Closed` (the edges of a live face are live); the cell queries use
    C01's precondition `oneCell`.  NOT here: vertex → cells — with unchecked `add_face` a face need not be a closed
    loop, and a cell whose halfface touches the vertex only with the END of a halfedge is found by the scan `sVC` but
    not through `outgoing halfedges → halffaces → incident cell` (needs the loop property of faces, C11/C08, which is
    not part of `GInv`); vertex → halffaces / edge → halffaces (sortedness of the interleaved specification lists). -/
theorem derived_queries_exact (k : Kernel) (hi : GInv k) :
    (k.eBU = true → ∀ h, h < k.nHE → k.qHEF h = k.sHEF h) ∧
    (k.eBU = true → ∀ e, e < k.nE → k.qEF e = k.sEF e) ∧
    (k.vBU = true → k.eBU = true → k.fBU = true → ∀ v, v < k.nV → k.qVF v = k.sVF v) ∧
    (k.eBU = true → k.fBU = true → ∀ h, h < k.nHE → (k.qHEC h).Perm (k.sHEC h) ∧ (k.qHEC h).Nodup) ∧
    (k.fBU = true → ∀ c, c < k.nC → k.qCC c = k.sCC c) ∧
    (k.eBU = true → k.fBU = true → ∀ h, h < k.nHE → k.qBoundaryHE h = k.sBoundaryHE h) ∧
    (k.eBU = true → k.fBU = true → ∀ e, e < k.nE → k.qBoundaryE e = k.sBoundaryE e) ∧
    (k.vBU = true → k.eBU = true → k.fBU = true → ∀ v, v < k.nV → k.qBoundaryV v = k.sBoundaryV v) ∧
    (k.fBU = true → ∀ c, c < k.nC → k.qBoundaryC c = k.sBoundaryC c) :=
  ⟨fun he h hh => Global.qHEF_exact hi.wf he hh, fun he e hlt => Global.qEF_exact hi.wf he hlt,
   fun hv he hb v hlt => Global.qVF_exact hi.wf hi.closed hv he hb hlt,
   fun he hb h hh => Global.qHEC_exact hi.wf hi.one he hb hh, fun hb c hc => Global.qCC_exact hi.wf hi.one hb hc,
   fun he hb h hh => Global.qBoundaryHE_exact hi.wf he hb hh, fun he hb e hlt => Global.qBoundaryE_exact hi.wf he hb hlt,
   fun hv he hb v hlt => Global.qBoundaryV_exact hi.wf hv he hb hlt, fun hb c hc => Global.qBoundaryC_exact hi.wf hb hc⟩

/-- … on every state reachable from the empty mesh by valid calls -/
theorem derived_queries_exact_on_reachable_states (ops : List Op) (h : Global.HistoryOK {} ops) :
    let k := run {} ops
    (k.eBU = true → ∀ h, h < k.nHE → k.qHEF h = k.sHEF h) ∧
    (k.eBU = true → ∀ e, e < k.nE → k.qEF e = k.sEF e) ∧
    (k.vBU = true → k.eBU = true → k.fBU = true → ∀ v, v < k.nV → k.qVF v = k.sVF v) ∧
    (k.eBU = true → k.fBU = true → ∀ h, h < k.nHE → (k.qHEC h).Perm (k.sHEC h) ∧ (k.qHEC h).Nodup) ∧
    (k.fBU = true → ∀ c, c < k.nC → k.qCC c = k.sCC c) ∧
    (k.eBU = true → k.fBU = true → ∀ h, h < k.nHE → k.qBoundaryHE h = k.sBoundaryHE h) ∧
    (k.eBU = true → k.fBU = true → ∀ e, e < k.nE → k.qBoundaryE e = k.sBoundaryE e) ∧
    (k.vBU = true → k.eBU = true → k.fBU = true → ∀ v, v < k.nV → k.qBoundaryV v = k.sBoundaryV v) ∧
    (k.fBU = true → ∀ c, c < k.nC → k.qBoundaryC c = k.sBoundaryC c) :=
  derived_queries_exact (run {} ops) (reach_inv ops h)

/-- **vertex → cells**, under the one hypothesis beyond `GInv` that it needs: every live face is cyclically connected
    (`Global.FaceCyc`: each halfedge of the face ends where another starts and starts where another ends — what the
    topology check of `add_face` guarantees, `Global.cyc_of_checked`; executable form `Global.faceCycB`).  Without it
    the statement is FALSE: with an unchecked one-halfedge "face" `[x]`, `x : a → b`, in a cell through halfface
    `2f`, the scan `sVC b` lists the cell and `outgoing(b) → halffaces → incident cell` does not (it reaches `2f+1`).
    `FaceCyc` is a hypothesis on the STATE here; it is not yet carried through histories (it is broken exactly by
    unchecked `add_face` / `set_face` with a non-loop and by `set_edge` on an edge of a live face). -/
theorem vertex_cells_exact (k : Kernel) (hi : GInv k) (hy : FaceCyc k) (hv : k.vBU = true) (he : k.eBU = true)
    (hb : k.fBU = true) (v : Nat) (hlt : v < k.nV) : k.qVC v = k.sVC v :=
  Global.qVC_exact hi.wf hi.one hi.closed hy hv he hb hlt

/-- the executable test of the extra hypothesis is sound -/
theorem face_cyc_test_sound (k : Kernel) (h : Global.faceCycB k = true) : FaceCyc k := Global.faceCyc_of_B h

/-- vertex → halffaces, edge → cells, and the six boundary iterators (the entity iterator filtered by the exact
    `is_boundary`) on a state satisfying the invariant -/
theorem more_queries_exact (k : Kernel) (hi : GInv k) :
    (k.vBU = true → k.eBU = true → ∀ v, v < k.nV → k.qVHF v = k.sVHF v) ∧
    (k.eBU = true → k.fBU = true → ∀ e, e < k.nE → (k.qEC e).Perm (k.sHEC (heOf e 0)) ∧ (k.qEC e).Nodup) ∧
    (k.vBU = true → k.eBU = true → k.fBU = true → k.qBIV = k.liveVerts.filter k.sBoundaryV) ∧
    (k.eBU = true → k.fBU = true →
      k.qBIHE = ((List.range k.nHE).filter (fun h => !k.eDeleted (eOf h))).filter k.sBoundaryHE) ∧
    (k.eBU = true → k.fBU = true → k.qBIE = k.liveEdges.filter k.sBoundaryE) ∧
    (k.fBU = true → k.qBIHF = ((List.range k.nHF).filter (fun h => !k.fDeleted (eOf h))).filter k.sBoundaryHF) ∧
    (k.fBU = true → k.qBIF = k.liveFaces.filter k.sBoundaryF) ∧
    (k.fBU = true → k.qBIC = k.liveCells.filter k.sBoundaryC) :=
  ⟨fun hv he v hlt => Global.qVHF_exact hi.wf hi.closed hv he hlt,
   fun he hb e hlt => Global.qEC_exact hi.wf hi.one he hb hlt,
   fun hv he hb => Global.qBIV_exact hi.wf hv he hb, fun he hb => Global.qBIHE_exact hi.wf he hb,
   fun he hb => Global.qBIE_exact hi.wf he hb, fun hb => Global.qBIHF_exact hi.wf hb,
   fun hb => Global.qBIF_exact hi.wf hb, fun hb => Global.qBIC_exact hi.wf hb⟩

/-- … on every state reachable from the empty mesh by valid calls -/
theorem more_queries_exact_on_reachable_states (ops : List Op) (h : Global.HistoryOK {} ops) :
    let k := run {} ops
    (k.vBU = true → k.eBU = true → ∀ v, v < k.nV → k.qVHF v = k.sVHF v) ∧
    (k.eBU = true → k.fBU = true → ∀ e, e < k.nE → (k.qEC e).Perm (k.sHEC (heOf e 0)) ∧ (k.qEC e).Nodup) ∧
    (k.vBU = true → k.eBU = true → k.fBU = true → k.qBIV = k.liveVerts.filter k.sBoundaryV) ∧
    (k.eBU = true → k.fBU = true →
      k.qBIHE = ((List.range k.nHE).filter (fun h => !k.eDeleted (eOf h))).filter k.sBoundaryHE) ∧
    (k.eBU = true → k.fBU = true → k.qBIE = k.liveEdges.filter k.sBoundaryE) ∧
    (k.fBU = true → k.qBIHF = ((List.range k.nHF).filter (fun h => !k.fDeleted (eOf h))).filter k.sBoundaryHF) ∧
    (k.fBU = true → k.qBIF = k.liveFaces.filter k.sBoundaryF) ∧
    (k.fBU = true → k.qBIC = k.liveCells.filter k.sBoundaryC) :=
  more_queries_exact (run {} ops) (reach_inv ops h)

/-! ### non-vacuity -/

/-- a history of 25 valid calls: a tetrahedron built through `add_face(vertices)` and a checked `add_cell`, a
    dangling edge, one swap of each kind, `set_edge`, a deferred `delete_face` (with the edge incidences
    switched off: linear-scan closure) and `collect_garbage` in fast mode, the switch to immediate mode, a fast
    immediate `delete_edge` (closure of two faces), an index-shifting immediate `delete_vertex`, back to deferred
    mode, a deferred `delete_edge`, the collecting `enable_deferred_deletion(false)`, `clear` -/
def reachHistory : List Op :=
  [.addNVertices 5, .addFaceV [0,1,2], .addFaceV [0,3,1], .addFaceV [1,3,2], .addFaceV [0,2,3],
   .addCell true [0,2,4,6], .addEdge 3 4 false,
   .swapVertex 0 4, .swapEdge 0 6, .swapFace 0 3, .swapCell 0 0,
   .setEdge 0 4 3,
   .enableBU 1 false, .deleteFace 1, .enableBU 1 true, .collectGarbage,
   .enableDeferred false, .deleteEdge 2,
   .enableFast false, .addVertex, .deleteVertex 1,
   .enableDeferred true, .deleteEdge 0, .enableDeferred false, .clear false]

set_option maxRecDepth 1000000 in
/-- the history is valid at every call (`decide` on the complete Boolean test), so the theorems apply -/
example : Global.HistoryOK {} reachHistory := history_test_sound {} reachHistory (by decide)

set_option maxRecDepth 1000000 in
/-- intermediate states are not trivial: after the 24th call (the collecting mode switch) two edges on five
    vertices are left, four calls earlier one face and six edges; the invariant holds at each prefix -/
example : GInv (run {} (reachHistory.take 24)) ∧ (run {} (reachHistory.take 24)).edges = [(3, 2), (2, 1)] ∧
    (run {} (reachHistory.take 20)).nF = 1 ∧ (run {} (reachHistory.take 14)).needsGC = true :=
  ⟨reach_inv _ (history_test_sound {} _ (by decide)), by decide, by decide, by decide⟩

set_option maxRecDepth 1000000 in
/-- the derived queries are not trivially empty on a reachable state: after the 15th call of `reachHistory` (a
    deferred `delete_face` is pending) vertex 2 has three live faces (face 1, which also touches it, is flagged) -/
example : (run {} (reachHistory.take 15)).qVF 2 = (run {} (reachHistory.take 15)).sVF 2 ∧
    (run {} (reachHistory.take 15)).sVF 2 = [0, 2, 3] ∧ (run {} (reachHistory.take 15)).needsGC = true := by
  refine ⟨((derived_queries_exact_on_reachable_states _ (history_test_sound {} _ (by decide))).2.2.1
    (by decide) (by decide) (by decide) 2 (by decide)), by decide, by decide⟩

set_option maxRecDepth 1000000 in
/-- non-vacuity of `vertex_cells_exact`: the tetrahedron of `reachHistory` (after the 7th call) passes the executable
    `FaceCyc` test and vertex 3 lies in its one cell; and the counterexample of the doc comment: one unchecked
    one-halfedge face used by an (unchecked) cell — valid calls, `GInv` holds, `FaceCyc` fails, and the two answers
    for the END vertex of the halfedge differ -/
example :
    (run {} (reachHistory.take 7)).qVC 3 = (run {} (reachHistory.take 7)).sVC 3 ∧ (run {} (reachHistory.take 7)).sVC 3 = [0] ∧
    (let bad : List Op := [.addNVertices 2, .addEdge 0 1 false, .addFaceHe false [0], .addCell false [0]]
     Global.historyOKB {} bad = true ∧ Global.faceCycB (run {} bad) = false ∧
     (run {} bad).qVC 1 = [] ∧ (run {} bad).sVC 1 = [0]) := by
  refine ⟨vertex_cells_exact _ (reach_inv _ (history_test_sound {} _ (by decide))) (face_cyc_test_sound _ (by decide))
    (by decide) (by decide) (by decide) 3 (by decide), by decide, by decide⟩

/-! ## C12 on reachable states: bottom-up incidences are optional

`Global.SameDefs k1 k2` (OVM/Refine/GlobalBU.lean) compares EXACTLY: the vertex count, the lengths of the edge / face / cell
arrays, the four deletion-flag arrays, the four pending-deletion counters, the two deletion-mode switches, all
property columns, and the stored definition of every NOT-deleted edge, face and cell.  It does not compare: the three
bottom-up caches, which kinds are enabled, the ghost flag of the model, and the stored definitions of entities that
are flagged deleted (in deferred mode the cache-guided index swaps do not visit them, the linear scans do —
OVM/Refine/CacheSwapSpec.lean; they are erased by `collect_garbage` before anything reads them).  In immediate mode
nothing is flagged and `Global.SameDefs` is equality of all definitions (`Global.dOf_eq_of_same`).  -/

/-- **one valid call, any two bottom-up configurations, the WHOLE vocabulary, all four deletion modes**: states that
    agree on everything but the caches are taken to states that agree on everything but the caches, and both keep
    the global invariant (so every enabled cache is the scan).  Immediate deletions: OVM/Refine/GlobalBU3.lean
    (each stage is an explicit function of the cache-free part of the state); `collect_garbage` and the collecting
    `enable_deferred_deletion(false)`: OVM/Refine/GlobalBU4.lean (lockstep over the four sweeps). -/
theorem bottom_up_optional (k1 k2 : Kernel) (s : Global.SameDefs k1 k2) (i1 : GInv k1) (i2 : GInv k2) (op : Op)
    (hok : Global.OpOK k1 op) :
    Global.SameDefs (k1.step op).1 (k2.step op).1 ∧ GInv (k1.step op).1 ∧ GInv (k2.step op).1 :=
  ⟨same_step s i1 i2 op hok, ginv_step k1 op i1 hok, ginv_step k2 op i2 (same_opOK s op hok)⟩

/-- the same history of valid calls in two bottom-up configurations -/
theorem bottom_up_optional_history (k1 k2 : Kernel) (ops : List Op) (s : Global.SameDefs k1 k2) (i1 : GInv k1)
    (i2 : GInv k2) (hr : Global.HistoryOK k1 ops) :
    Global.SameDefs (k1.run ops) (k2.run ops) ∧ GInv (k1.run ops) ∧ GInv (k2.run ops) :=
  same_run ops s i1 i2 hr

/-- **C12's quantifier**: bottom-up kinds "toggled at arbitrary points of every history" — two histories from the
    empty mesh that are the same list of calls once the `enable_*_bottom_up_incidences` calls are removed end in
    meshes with the same definitions, counts, deletion flags and property values -/
theorem bottom_up_optional_toggled_histories (ops1 ops2 : List Op) (hr : Global.HistoryOK {} ops1)
    (he : stripBU ops1 = stripBU ops2) :
    Global.SameDefs (run {} ops1) (run {} ops2) ∧ GInv (run {} ops1) ∧ GInv (run {} ops2) :=
  same_run_toggles ops1 ops2 (Global.SameDefs.refl _) ginv_empty ginv_empty hr he

/-- `reachHistory` without its last call, with three more toggles inserted: the vertex kind off before the swaps, the
    face kind off before `collect_garbage`, the edge kind off before the immediate deletions -/
def reachHistoryToggled : List Op :=
  [.addNVertices 5, .addFaceV [0,1,2], .addFaceV [0,3,1], .addFaceV [1,3,2], .addFaceV [0,2,3],
   .addCell true [0,2,4,6], .addEdge 3 4 false, .enableBU 0 false,
   .swapVertex 0 4, .swapEdge 0 6, .swapFace 0 3, .swapCell 0 0,
   .setEdge 0 4 3,
   .enableBU 1 false, .deleteFace 1, .enableBU 1 true, .enableBU 2 false, .collectGarbage,
   .enableDeferred false, .enableBU 1 false, .deleteEdge 2,
   .enableFast false, .addVertex, .deleteVertex 1,
   .enableDeferred true, .deleteEdge 0, .enableDeferred false]

set_option maxRecDepth 1000000 in
/-- non-vacuity of `bottom_up_optional_toggled_histories` on the whole vocabulary: construction, swaps, a deferred
    deletion, `collect_garbage` (fast), a fast immediate `delete_edge`, an index-shifting immediate `delete_vertex`, a
    deferred `delete_edge` and the collecting mode switch, once with the caches mostly on and once with all three
    kinds switched off along the way: same two edges on five vertices at the end -/
example : Global.SameDefs (run {} (reachHistory.take 24)) (run {} reachHistoryToggled) ∧
    (run {} reachHistoryToggled).edges = [(3, 2), (2, 1)] ∧ (run {} reachHistoryToggled).vBU = false ∧
    (run {} reachHistoryToggled).eBU = false ∧ (run {} reachHistoryToggled).fBU = false ∧
    (run {} (reachHistory.take 24)).vBU = true :=
  ⟨(bottom_up_optional_toggled_histories _ _ (history_test_sound {} _ (by decide)) (by decide)).1,
   by decide, by decide, by decide, by decide, by decide⟩

/-- **safe to disable, transparent to re-enable, at any moment**: toggling a kind changes nothing but that kind's
    cache, and (by `GInv`, kept by the toggle) a re-enabled cache is exactly the scan over the definitions — the
    incidences the mesh would have had if the kind had never been disabled -/
theorem toggle_is_transparent (k : Kernel) (hi : GInv k) (kind : Nat) (b : Bool) :
    Global.SameDefs (k.step (.enableBU kind b)).1 k ∧ GInv (k.step (.enableBU kind b)).1 :=
  ⟨same_toggle_left (Global.SameDefs.refl k) kind b, ginv_step k _ hi trivial⟩

/-- the argument conditions do not depend on the bottom-up configuration -/
theorem valid_arguments_ignore_caches (k1 k2 : Kernel) (s : Global.SameDefs k1 k2) (op : Op) (h : Global.OpOK k1 op) :
    Global.OpOK k2 op := same_opOK s op h

def buPre : List Op :=
  [.addNVertices 4, .addFaceV [0,1,2], .addFaceV [0,3,1], .addFaceV [1,3,2], .addFaceV [0,2,3], .addCell true [0,2,4,6]]
def buOps : List Op :=
  [.swapEdge 0 3, .swapFace 0 2, .swapVertex 1 2, .swapCell 0 0, .addEdge 0 1 false, .setEdge 0 1 0,
   .deleteFace 1, .deleteVertex 0]

set_option maxRecDepth 1000000 in
/-- non-vacuity: the tetrahedron with all three kinds enabled and with all three disabled, then one swap of each
    kind, a de-duplicating `add_edge`, `set_edge`, a deferred `delete_face` and `delete_vertex` (closures through the
    caches on one side, by linear scans on the other): the theorem applies, the results agree, three faces are
    pending deletion on both sides and the second run never had a cache -/
example :
    let k1 := run {} buPre
    let k2 := run {} (buPre ++ [.enableBU 0 false, .enableBU 1 false, .enableBU 2 false])
    Global.SameDefs (k1.run buOps) (k2.run buOps) ∧ (k1.run buOps).nDelF = 3 ∧ (k2.run buOps).nDelF = 3 ∧
    (k2.run buOps).vBU = false ∧ (k2.run buOps).incHfs = [] ∧ (k1.run buOps).vBU = true := by
  have i1 : GInv (run {} buPre) := reach_inv _ (history_test_sound {} _ (by decide))
  have i2 : GInv (run {} (buPre ++ [.enableBU 0 false, .enableBU 1 false, .enableBU 2 false])) :=
    reach_inv _ (history_test_sound {} _ (by decide))
  have s : Global.SameDefs (run {} buPre) (run {} (buPre ++ [.enableBU 0 false, .enableBU 1 false, .enableBU 2 false])) := by
    have e : run {} (buPre ++ [.enableBU 0 false, .enableBU 1 false, .enableBU 2 false]) =
        ((((run {} buPre).step (.enableBU 0 false)).1.step (.enableBU 1 false)).1.step (.enableBU 2 false)).1 := by
      unfold run; rw [List.foldl_append]; rfl
    rw [e]
    exact (same_toggle_left (same_toggle_left (same_toggle_left (Global.SameDefs.refl _) 0 false) 1 false) 2 false).symm
  have hr : Global.HistoryOK (run {} buPre) buOps := history_test_sound _ _ (by decide)
  exact ⟨(bottom_up_optional_history _ _ buOps s i1 i2 hr).1, by decide, by decide, by decide, by decide,
    by decide⟩

end OVM.Props.C01Reach

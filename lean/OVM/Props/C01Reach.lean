import OVM.Props.C01
import OVM.Refine.GlobalStep
/-
  C01, reachability part — the cache invariant holds in EVERY state the API can reach.

  `Global.GInv k = WF k ∧ oneCell k ∧ Closed k ∧ FlagInv k` (OVM/Refine/Global.lean; `WF` contains `CacheInv`,
  the statement "every enabled cache = the brute-force scan") is kept by every operation of the driver
  vocabulary `Kernel.step` (add_vertex, add_n_vertices, add_edge, add_face ×2, add_cell, set_edge/face/cell,
  delete_vertex/edge/face/cell, swap_vertex/edge/face/cell_indices, collect_garbage, enable_deferred_deletion,
  enable_fast_deletion, enable_{vertex,edge,face}_bottom_up_incidences, clear) in all four deletion modes and all
  eight bottom-up configurations, under `Global.OpOK` = valid arguments only (each clause cites the C++ assertion or
  the property's stated precondition that makes it one; no clause mentions a mode).  The empty mesh satisfies it.
  Hence (`every_query_exact_on_reachable_states`) every query theorem of Props/C01.lean applies after every
  history of valid calls: each upward query of the model is the brute-force answer and never reports a deleted
  entity.

  What `OpOK` assumes beyond "handles in range" — and why each is needed (witnesses in the cited files):
  not-deleted constituents for add_edge/add_face/add_cell/set_* (asserted by the C++, cc:121-122, 183, 247, 393,
  510-511; without it a later collect_garbage leaves dangling handles, end of OVM/Refine/CacheFastGC.lean);
  add_cell / set_cell only onto pairwise distinct halffaces that no other live cell uses (C01's own
  precondition; cc:2280); set_* only on a not-deleted entity (NOT asserted by the C++; witnesses
  `setEdge/setFace/setCell_deleted_breaks`, OVM/Refine/CacheSet.lean).
-/
namespace OVM.Props.C01Reach
open OVM OVM.Kernel
open OVM.Kernel.Global (GInv ginv_empty ginv_step ginv_run ginv_reachable closed_iff_up historyOKB historyOK_of_B)

/-- the empty mesh satisfies the global invariant -/
theorem inv_init : GInv ({} : Kernel) := ginv_empty

/-- one valid call keeps the invariant (whole vocabulary, every mode, every bottom-up configuration) -/
theorem step_inv (k : Kernel) (op : Op) (hi : GInv k) (hok : Global.OpOK k op) : GInv (k.step op).1 :=
  ginv_step k op hi hok

/-- every history of valid calls keeps the invariant, from any state satisfying it (generated, loaded …) -/
theorem reach_inv_from (k : Kernel) (ops : List Op) (hi : GInv k) (h : Global.HistoryOK k ops) : GInv (k.run ops) :=
  ginv_run k ops hi h

/-- **reachability**: every state reached from the empty mesh by valid calls satisfies the invariant -/
theorem reach_inv (ops : List Op) (h : Global.HistoryOK {} ops) : GInv (run {} ops) := ginv_reachable ops h

/-- builder K3's "a flagged entity is used only by flagged entities one level up" and builder K4's
    "nothing live uses something flagged" are one fact -/
theorem closed_is_upward_closure (k : Kernel) : Closed k ↔ (UpC k ∧ UpF k ∧ UpE k) := closed_iff_up k

/-- in immediate mode (deferred deletion off) no entity carries a deletion flag -/
theorem immediate_mode_has_no_flags (ops : List Op) (h : Global.HistoryOK {} ops) (hd : (run {} ops).deferred = false) :
    NoFlag (run {} ops).cDel ∧ NoFlag (run {} ops).fDel ∧ NoFlag (run {} ops).eDel ∧ NoFlag (run {} ops).vDel :=
  (reach_inv ops h).noFlag_of_immediate hd

/-- the Boolean test of `OpOK` along a history is sound (used by the non-vacuity example and the judge) -/
theorem history_test_sound (k : Kernel) (ops : List Op) (h : historyOKB k ops = true) : Global.HistoryOK k ops :=
  historyOK_of_B k ops h

/-- every upward query that Props/C01.lean treats, on a state satisfying the invariant -/
theorem every_query_exact (k : Kernel) (hi : GInv k) :
    (k.vBU = true → ∀ v, v < k.nV →
        (k.qVOH v).Perm (k.sOut v) ∧ (k.qVIH v).Perm ((k.sOut v).map opp) ∧
        (k.qVE v).Perm ((k.sOut v).map eOf) ∧ (k.qVV v).Perm ((k.sOut v).map k.toV) ∧
        k.qValV v = (k.sOut v).length) ∧
    (k.eBU = true → ∀ h, h < k.nHE → (k.qHEHF h).Perm (k.sHfsOfHe h) ∧ ∀ f, f ∈ k.qHEHF h ↔ f ∈ k.sHfsOfHe h) ∧
    (k.eBU = true → ∀ e, e < k.nE → k.qValE e = (k.sHfsOfHe (heOf e 0)).length) ∧
    (k.fBU = true → ∀ hf, hf < k.nHF → k.cellOf hf = k.sCellOf hf ∧ k.qBoundaryHF hf = k.sBoundaryHF hf) ∧
    (k.fBU = true → ∀ f, f < k.nF → k.qBoundaryF f = k.sBoundaryF f) ∧
    -- deleted-but-uncollected entities never appear
    (k.vBU = true → ∀ v, v < k.nV → ∀ h ∈ k.qVOH v, k.liveE (eOf h) = true) ∧
    (k.eBU = true → ∀ h, h < k.nHE → ∀ hf ∈ k.qHEHF h, k.liveF (eOf hf) = true) ∧
    (k.fBU = true → ∀ hf, hf < k.nHF → ∀ c, k.cellOf hf = some c → k.cDeleted c = false) := by
  have hI := hi.wf.cache
  have hd := C01.deleted_never_reported k hI
  exact ⟨fun hb v hv => ⟨C01.outgoing_halfedges_exact k hI hb v hv, C01.incoming_halfedges_exact k hI hb v hv,
            C01.vertex_edges_exact k hI hb v hv, C01.vertex_vertices_exact k hI hb v hv,
            C01.vertex_valence_exact k hI hb v hv⟩,
         fun hb h hh => ⟨C01.halfedge_halffaces_exact k hI hb h hh, C01.halfedge_faces_exact k hI hb h hh⟩,
         fun hb e he => C01.edge_valence_exact k hI hb e he,
         fun hb hf hh => ⟨C01.incident_cell_exact k hI hb hf hh, C01.is_boundary_halfface_exact k hI hb hf hh⟩,
         fun hb f hf => C01.is_boundary_face_exact k hI hb f hf,
         hd.1, hd.2.1, hd.2.2⟩

/-- **for every history of valid operations from the empty mesh, every upward query of the model equals the
    brute-force scan over the stored definitions of the not-deleted entities and never reports a deleted
    entity** (the queries of Props/C01.lean; all deletion modes, all bottom-up configurations) -/
theorem every_query_exact_on_reachable_states (ops : List Op) (h : Global.HistoryOK {} ops) :
    let k := run {} ops
    (k.vBU = true → ∀ v, v < k.nV →
        (k.qVOH v).Perm (k.sOut v) ∧ (k.qVIH v).Perm ((k.sOut v).map opp) ∧
        (k.qVE v).Perm ((k.sOut v).map eOf) ∧ (k.qVV v).Perm ((k.sOut v).map k.toV) ∧
        k.qValV v = (k.sOut v).length) ∧
    (k.eBU = true → ∀ h, h < k.nHE → (k.qHEHF h).Perm (k.sHfsOfHe h) ∧ ∀ f, f ∈ k.qHEHF h ↔ f ∈ k.sHfsOfHe h) ∧
    (k.eBU = true → ∀ e, e < k.nE → k.qValE e = (k.sHfsOfHe (heOf e 0)).length) ∧
    (k.fBU = true → ∀ hf, hf < k.nHF → k.cellOf hf = k.sCellOf hf ∧ k.qBoundaryHF hf = k.sBoundaryHF hf) ∧
    (k.fBU = true → ∀ f, f < k.nF → k.qBoundaryF f = k.sBoundaryF f) ∧
    (k.vBU = true → ∀ v, v < k.nV → ∀ h ∈ k.qVOH v, k.liveE (eOf h) = true) ∧
    (k.eBU = true → ∀ h, h < k.nHE → ∀ hf ∈ k.qHEHF h, k.liveF (eOf hf) = true) ∧
    (k.fBU = true → ∀ hf, hf < k.nHF → ∀ c, k.cellOf hf = some c → k.cDeleted c = false) :=
  every_query_exact (run {} ops) (reach_inv ops h)

/-! ### non-vacuity -/

/-- a history of 25 valid calls: a tetrahedron built through `add_face(vertices)` and a checked `add_cell`, a
    dangling edge, one swap of each kind, `set_edge`, a deferred `delete_face` (with the edge incidences
    switched off: linear-scan closure) and `collect_garbage` in fast mode, the switch to immediate mode, a fast
    immediate `delete_edge` (closure of two faces), an index-shifting immediate `delete_vertex`, back to deferred
    mode, a deferred `delete_edge`, the collecting `enable_deferred_deletion(false)`, `clear` -/
def reachHistory : List Op :=
  [.addNVertices 5, .addFaceV [0,1,2], .addFaceV [0,3,1], .addFaceV [1,3,2], .addFaceV [0,2,3],
   .addCell true [0,2,4,6], .addEdge 3 4 false,
   .swapVertex 0 4, .swapEdge 0 6, .swapFace 0 3, .swapCell 0 0,
   .setEdge 0 4 3,
   .enableBU 1 false, .deleteFace 1, .enableBU 1 true, .collectGarbage,
   .enableDeferred false, .deleteEdge 2,
   .enableFast false, .addVertex, .deleteVertex 1,
   .enableDeferred true, .deleteEdge 0, .enableDeferred false, .clear false]

set_option maxRecDepth 1000000 in
/-- the history is valid at every call (`decide` on the complete Boolean test), so the theorems apply -/
example : Global.HistoryOK {} reachHistory := history_test_sound {} reachHistory (by decide)

set_option maxRecDepth 1000000 in
/-- intermediate states are not trivial: after the 24th call (the collecting mode switch) two edges on five
    vertices are left, four calls earlier one face and six edges; the invariant holds at each prefix -/
example : GInv (run {} (reachHistory.take 24)) ∧ (run {} (reachHistory.take 24)).edges = [(3, 2), (2, 1)] ∧
    (run {} (reachHistory.take 20)).nF = 1 ∧ (run {} (reachHistory.take 14)).needsGC = true :=
  ⟨reach_inv _ (history_test_sound {} _ (by decide)), by decide, by decide, by decide⟩

end OVM.Props.C01Reach

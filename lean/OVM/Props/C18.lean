import OVM.IO.Ovmb.FramingLemmas
import OVM.IO.Ovmb.RoundTripExample
import OVM.IO.Ovmb.RoundTripPermitted
import OVM.IO.Ovmb.RejectFile
/-
  C18 — OVMB detects truncation, framing corruption and stream failures.

  Subject: `decode` / `decodeFaulty` / `write` of lean/OVM/IO/Ovmb (the model of BinaryFileReader.cc,
  BinaryIStream.cc, ovmb_codec.cc, BinaryFileWriter.cc after the fix commits F1, F13, F21–F24), tied to the code
  by the differential run of tools/props/io_ovmb.py: every truncation length, header/sub-header substitution,
  chunk drop / duplication / reordering, read-fault and write-fault position is given to both and the result
  class (and mesh, when Ok) compared; independently of the model a truncation or failing source that reads back
  Ok is a failing input by itself.

  **Truncation and read faults (end to end)**: `strict_prefix_rejected`, `read_fault_rejected` — for every file
  `F` the writer can be given (no well-formedness needed, only that the file is shorter than 2^64 bytes), every
  `p < (encode F).length` and EVERY reader configuration, neither the prefix of length `p` nor a stream that
  announces the full size and stops delivering at `p` is read successfully.  The generic form
  `framed_strict_prefix_rejected` covers every byte string `48-byte header ++ well-framed chunks` in which only
  the last chunk is an EOF chunk — whatever the header and the payloads contain (so also every alternative
  layout: `permitted_prefix_rejected`).  Lemmas: OVM/IO/Ovmb/RoundTripFrame.lean (`readChunk_full`, `readChunk_partial`, `processChunk_ep`,
  `loop_truncated`, `decodeStream_truncated`), RoundTripTrunc.lean.

  **Inconsistent files (second clause)**: `inconsistent_*_rejected` (summary: `inconsistent_file_rejected`) — for
  every byte string / stream state, every reader configuration and every reader state the chunk loop may be in:
  wrong magic, header version, vertex dimension, topology type, reserved bytes, counts above max_handle_idx, a
  topology type the target mesh cannot hold; per chunk: invalid flags, padding > length, length > remaining bytes,
  non-zero padding, unknown mandatory type, unsupported version of a mandatory chunk, a second EOF chunk or one
  with payload, a second directory; VERT: encoding, reserved, span, size; TOPO: entity, encodings (incl. handle
  encoding None and the valence / valence-encoding combination), count 0, span, valence vs. entity kind and
  topology type, number of handle bytes, handles (+ offset mod 2^64) not below the entities read so far, empty
  lists; PROP: index, range, size; end: missing EOF chunk, counts read ≠ declared, trailing fragment.
  `chunk_rejected_lifts` / `rejected_after_any_prefix` carry a rejected chunk through any well-framed prefix to the
  file.  `chunk_after_eof_is_read` states what the reader does after the EOF chunk: it keeps reading chunks; a
  skippable chunk there is accepted and ignored (the format relation `ValidLayout` puts EOF last; the reader is
  more lenient).  Not covered: PROP size for string-valued properties (variable element size), payloads shorter
  than their sub-header (rejected by the `need` checks; not stated separately), DIRP entry contents.
  Lemmas: OVM/IO/Ovmb/Reject{Header,Frame,Chunks,Topo,File}.lean (inversion lemmas `decodeStream_ok_inv`,
  `applyTopo_ok_inv`, `topoBody_*_inv`, `readFaceLists_inv`: what a successful read implies).
-/
namespace OVM.Props.C18
open OVM.Ovmb OVM.Gen.Ovmb

/-- the chunk loop succeeds only from a state in which the end-of-file chunk has been seen: for every byte
    string, reader configuration and stream state (F1: the error used to be recorded and ignored) -/
theorem ok_requires_eof_chunk (cfg : Cfg) (s : RState) (st : Stream) (F : File) (h : loop cfg s st = .ok F) :
    ∃ s', s'.eof = true ∧ finish s' = .ok F := loop_ok_final cfg s st F h

/-- every input shorter than the file header is rejected -/
theorem shorter_than_header_rejected (cfg : Cfg) (bytes : Bytes) (h : bytes.length < sizeFileHeader) :
    decode cfg bytes = .error (.res .incompatible) := short_header_rejected cfg bytes h

/-- every successful `read_chunk` consumes at least a chunk header: the loop cannot spin -/
theorem chunk_consumes (cfg : Cfg) (s s' : RState) (st st' : Stream) (h : readChunk cfg s st = .ok (s', st')) :
    st'.rem + sizeChunkHeader ≤ st.rem := readChunk_rem_lt h

/-- **every strict prefix of a file the writer produces is rejected**, for every reader configuration -/
theorem strict_prefix_rejected (cfg : Cfg) (F : File) (hs : SizeOk F) (p : Nat) (hp : p < (encode F).length)
    (F' : File) : decode cfg ((encode F).take p) ≠ .ok F' := decode_prefix_rejected cfg F hs p hp F'

/-- **a read failure of the underlying stream at any position before the end is never Ok**: the stream announces
    the full size and delivers only the first `p` bytes -/
theorem read_fault_rejected (cfg : Cfg) (F : File) (hs : SizeOk F) (p : Nat) (hp : p < (encode F).length)
    (F' : File) : decodeFaulty cfg (encode F) p ≠ .ok F' := decodeFaulty_rejected cfg F hs p hp F'

/-- generic form: any byte string `file header ++ well-framed chunks` whose only EOF chunk (if any) is the last
    chunk — whatever the header fields and chunk payloads are — has no strict prefix that reads Ok, truncated
    or through a failing stream -/
theorem framed_strict_prefix_rejected (cfg : Cfg) (bytes hdr : Bytes) (cs : List ChunkD)
    (hb : bytes = hdr ++ (cs.map ChunkD.bytes).flatten) (hh : hdr.length = sizeFileHeader)
    (hfit : ∀ c ∈ cs, c.Fits) (hne : ∀ c ∈ cs.dropLast, c.notEof) (p : Nat) (hp : p < bytes.length) (F' : File) :
    decode cfg (bytes.take p) ≠ .ok F' ∧ decodeFaulty cfg bytes p ≠ .ok F' :=
  framed_prefix_rejected cfg bytes hdr cs hb hh hfit hne p hp F'

/-- **every strict prefix of every permitted encoding is rejected** (any valid `Layout`: split spans, other
    widths / offsets, skippable chunks — also a skippable chunk of type EOF with an unknown version), truncated or
    through a stream that fails at that position, for every reader configuration -/
theorem permitted_prefix_rejected (cfg : Cfg) (F : File) (L : Layout) (hval : ValidLayout L F = true)
    (hsize : (encodeWith L F).length < 2 ^ 64) (p : Nat) (hp : p < (encodeWith L F).length) (F' : File) :
    decode cfg ((encodeWith L F).take p) ≠ .ok F' ∧ decodeFaulty cfg (encodeWith L F) p ≠ .ok F' :=
  encodeWith_prefix_rejected cfg F L hval hsize p hp F'

/-- only a version-0 chunk of type EOF sets `reached_eof_chunk`: every other chunk, whatever it contains and
    whether it is accepted or not, leaves the flag as it was -/
theorem only_eof_chunk_sets_eof (cfg : Cfg) (s s' : RState) (h : ChunkHdr) (payload : Bytes)
    (hne : ¬(h.ty = ccEOF ∧ h.version = 0)) (hok : processChunk cfg s h payload = .ok s') : s'.eof = s.eof :=
  processChunk_ep cfg s h payload hne s' hok

/-! non-vacuity (evaluation on one input, a test): the one-tetrahedron file is 440 bytes long, so the two theorems
    speak about 440 prefixes / fault positions of it, for the tetrahedral reader with topology check as for any
    other; the complete file does read Ok (C06 `writer_roundtrip`), so rejection is due to the truncation -/
example : ∀ p < 440, ∀ F', decode Example.tetCfg ((encode Example.tetFile).take p) ≠ .ok F' := fun p hp F' =>
  strict_prefix_rejected _ _ Example.tetFile_size p (by rw [Example.tetFile_length]; exact hp) F'
example : ∀ p < 440, ∀ F', decodeFaulty Example.tetCfg (encode Example.tetFile) p ≠ .ok F' := fun p hp F' =>
  read_fault_rejected _ _ Example.tetFile_size p (by rw [Example.tetFile_length]; exact hp) F'
example : ∀ p < 631, ∀ F', decode Example.tetCfg ((encodeWith Example.altLayout Example.tetFile).take p) ≠ .ok F' :=
  fun p hp F' => (permitted_prefix_rejected _ _ _ Example.altLayout_valid (by rw [Example.altLayout_length]; decide) p
    (by rw [Example.altLayout_length]; exact hp) F').1
example : decode Example.tetCfg (encode Example.tetFile) = .ok Example.tetFile :=
  decode_encode _ _ Example.tetFile_wf Example.tetFile_accepts Example.tetFile_size

/-! ## second clause: inconsistent files are rejected

  Every theorem below says: if <field> has an inadmissible value then the result is not Ok (`Rejected r := ∀ a,
  r ≠ .ok a`) — for every byte string, every reader configuration and (for chunks) every reader state `s` the
  chunk loop may be in.  Chunk bodies are given by their raw sub-header fields (any values that fit the field
  widths: every byte string of that length is one) followed by arbitrary bytes.  `chunk_rejected_lifts` and
  `rejected_after_any_prefix` carry a rejected chunk to the chunk loop and to the whole file. -/

/-- wrong magic (any of the 8 bytes), for a complete or a failing stream -/
theorem inconsistent_magic_rejected (cfg : Cfg) (rem : Nat) (data : Bytes) (h : data.take 8 ≠ magicBytes) :
    Rejected (decodeStream cfg ⟨rem, data⟩) := header_rejected cfg rem data (Or.inl h)

/-- header version other than 1 -/
theorem inconsistent_header_version_rejected (cfg : Cfg) (rem : Nat) (data : Bytes) (h : hdrVersion data ≠ 1) :
    Rejected (decodeStream cfg ⟨rem, data⟩) := header_rejected cfg rem data (Or.inr (Or.inl h))

/-- vertex dimension other than 3 -/
theorem inconsistent_vertex_dim_rejected (cfg : Cfg) (rem : Nat) (data : Bytes) (h : hdrVertexDim data ≠ 3) :
    Rejected (decodeStream cfg ⟨rem, data⟩) := header_rejected cfg rem data (Or.inr (Or.inr (Or.inl h)))

/-- invalid topology type -/
theorem inconsistent_topo_type_rejected (cfg : Cfg) (rem : Nat) (data : Bytes) (h : hdrTopo data ∉ validTopoType) :
    Rejected (decodeStream cfg ⟨rem, data⟩) := header_rejected cfg rem data (Or.inr (Or.inr (Or.inr (Or.inl h))))

/-- non-zero reserved bytes in the file header -/
theorem inconsistent_header_reserved_rejected (cfg : Cfg) (rem : Nat) (data : Bytes)
    (h : allZero (hdrReserved data) = false) : Rejected (decodeStream cfg ⟨rem, data⟩) :=
  header_rejected cfg rem data (Or.inr (Or.inr (Or.inr (Or.inr (Or.inl h)))))

/-- a vertex / edge / face / cell count above max_handle_idx -/
theorem inconsistent_header_count_rejected (cfg : Cfg) (rem : Nat) (data : Bytes) (i : Nat) (hi : i < 4)
    (h : maxHandleIdx < hdrCount data i) : Rejected (decodeStream cfg ⟨rem, data⟩) :=
  header_rejected cfg rem data (Or.inr (Or.inr (Or.inr (Or.inr (Or.inr (Or.inl ⟨i, hi, h⟩))))))

/-- topology type incompatible with the target mesh kind -/
theorem inconsistent_mesh_kind_rejected (cfg : Cfg) (rem : Nat) (data : Bytes)
    (h : (cfg.kind = .tet ∧ hdrTopo data ≠ topoTypeTetrahedral) ∨ (cfg.kind = .hex ∧ hdrTopo data ≠ topoTypeHexahedral)) :
    Rejected (decodeStream cfg ⟨rem, data⟩) :=
  header_rejected cfg rem data (Or.inr (Or.inr (Or.inr (Or.inr (Or.inr (Or.inr h))))))

/-- `decode` and `decodeFaulty` are `decodeStream` on a complete resp. failing stream, so the seven theorems above
    speak about both -/
theorem decode_is_decodeStream (cfg : Cfg) (bytes : Bytes) (p : Nat) :
    decode cfg bytes = decodeStream cfg ⟨bytes.length, bytes⟩ ∧
    decodeFaulty cfg bytes p = decodeStream cfg ⟨bytes.length, bytes.take p⟩ := ⟨rfl, rfl⟩

/-- invalid chunk flags, or more padding than the chunk's total length: the next chunk header is `h` (any six
    in-width field values), from every reader state -/
theorem inconsistent_chunk_header_rejected (cfg : Cfg) (s : RState) (h : RawHdr) (hw : h.InWidth) (rem : Nat)
    (rest : Bytes) (h0 : rem ≠ 0) (hbad : h.flags ∉ validChunkFlags ∨ h.fileLength < h.pad) :
    Rejected (loop cfg s ⟨rem, h.bytes ++ rest⟩) := loop_chunk_header_rejected cfg s h hw rem rest h0 hbad

/-- chunk length larger than the remaining bytes -/
theorem inconsistent_chunk_length_rejected (cfg : Cfg) (s : RState) (h : RawHdr) (hw : h.InWidth) (rem : Nat)
    (rest : Bytes) (h0 : rem ≠ 0) (hbad : rem - sizeChunkHeader < h.fileLength) :
    Rejected (loop cfg s ⟨rem, h.bytes ++ rest⟩) := loop_chunk_too_big_rejected cfg s h hw rem rest h0 hbad

/-- non-zero padding bytes -/
theorem inconsistent_chunk_padding_rejected (cfg : Cfg) (s : RState) (h : RawHdr) (hw : h.InWidth) (rem : Nat)
    (payload pb rest : Bytes) (h0 : rem ≠ 0) (hpl : payload.length = h.fileLength - h.pad) (hpb : pb.length = h.pad)
    (hbad : allZero pb = false) : Rejected (loop cfg s ⟨rem, h.bytes ++ (payload ++ (pb ++ rest))⟩) :=
  loop_chunk_padding_rejected cfg s h hw rem payload pb rest h0 hpl hpb hbad

/-- every 16 bytes are a chunk header with in-width fields, so the three theorems above speak about every stream -/
theorem every_chunk_header_is_raw (hb : Bytes) (hl : hb.length = sizeChunkHeader) :
    ∃ h : RawHdr, h.InWidth ∧ h.bytes = hb := rawHdr_of_bytes hb hl

/-- a mandatory chunk of unknown type -/
theorem inconsistent_chunk_type_rejected (cfg : Cfg) (s : RState) (h : ChunkHdr) (p : Bytes) (hm : h.mandatory = true)
    (hty : h.ty ≠ ccEOF ∧ h.ty ≠ ccDIRP ∧ h.ty ≠ ccPROP ∧ h.ty ≠ ccVERT ∧ h.ty ≠ ccTOPO) :
    processChunk cfg s h p = invalid := processChunk_unknown_rejected cfg s h p hm hty

/-- a mandatory chunk of an unsupported version -/
theorem inconsistent_chunk_version_rejected (cfg : Cfg) (s : RState) (h : ChunkHdr) (p : Bytes)
    (hv : h.version ≠ 0) (hm : h.mandatory = true) : processChunk cfg s h p = invalid :=
  processChunk_version_rejected cfg s h p hv hm

/-- a second EOF chunk, or an EOF chunk with a payload -/
theorem inconsistent_eof_chunk_rejected (cfg : Cfg) (s : RState) (h : ChunkHdr) (p : Bytes) (hv : h.version = 0)
    (hty : h.ty = ccEOF) (hbad : s.eof = true ∨ p ≠ []) : processChunk cfg s h p = invalid := by
  rcases hbad with he | hp
  · exact processChunk_second_eof_rejected cfg s h p hv hty he
  · exact processChunk_eof_payload_rejected cfg s h p hv hty hp

/-- a second property directory -/
theorem inconsistent_second_dirp_rejected (cfg : Cfg) (s : RState) (h : ChunkHdr) (p : Bytes) (hv : h.version = 0)
    (hty : h.ty = ccDIRP) (hd : s.dir ≠ []) : processChunk cfg s h p = invalid :=
  processChunk_second_dirp_rejected cfg s h p hv hty hd

/-- VERT: invalid vertex encoding, non-zero reserved bytes, span not starting at the number of vertices read so
    far or overrunning the declared count, payload size ≠ count × element size -/
theorem inconsistent_vert_chunk_rejected (s : RState) (first count enc : Nat) (res body : Bytes) (hf : first < 2 ^ 64)
    (hc : count < 2 ^ 32) (he : enc < 256) (hr : res.length = 3)
    (hbad : enc ∉ validVertexEncoding ∨ allZero res = false ∨ first ≠ s.nVr ∨ count > s.nV - s.nVr ∨
      body.length ≠ count * (elemSizeVertex enc * meshDim)) :
    applyVert s (rawVert first count enc res body) = invalid := applyVert_tests s first count enc res body hf hc he hr hbad

/-- TOPO sub-header: invalid entity, invalid valence / handle encoding, handle encoding None, count = 0, fixed
    valence with a valence encoding, variable valence without one -/
theorem inconsistent_topo_header_rejected (cfg : Cfg) (s : RState) {first count entity valence valEnc hEnc off : Nat}
    (hw : TopoRaw first count entity valence valEnc hEnc off) (p1 : Bytes)
    (hbad : entity ∉ validTopoEntity ∨ valEnc ∉ validIntEncoding ∨ hEnc ∉ validIntEncoding ∨ count = 0 ∨
      hEnc = intEncodingNone ∨ (valence ≠ 0 ∧ valEnc ≠ intEncodingNone) ∨ (valence = 0 ∧ valEnc = intEncodingNone)) :
    applyTopo cfg s (encTopoHeader first count entity valence valEnc hEnc off ++ p1) = invalid :=
  applyTopo_header_rejected cfg s hw p1 hbad

/-- TOPO: span not contiguous (`first ≠` entities read so far) or overrunning the declared count; edge valence ≠ 2;
    face / cell valence inconsistent with a tetrahedral / hexahedral topology type — whatever follows -/
theorem inconsistent_topo_span_rejected (cfg : Cfg) (s : RState) {first count entity valence valEnc hEnc off : Nat}
    (hw : TopoRaw first count entity valence valEnc hEnc off) (p1 : Bytes)
    (hbad :
      (entity = topoEntityEdge ∧ (first ≠ s.edges.length ∨ s.nE - s.edges.length < count ∨ valence ≠ 2)) ∨
      (entity = topoEntityFace ∧ (first ≠ s.faces.length ∨ s.nF - s.faces.length < count ∨
        (s.topo = topoTypeTetrahedral ∧ valence ≠ 3) ∨ (s.topo = topoTypeHexahedral ∧ valence ≠ 4))) ∨
      (entity = topoEntityCell ∧ (first ≠ s.cells.length ∨ s.nC - s.cells.length < count ∨
        (s.topo = topoTypeTetrahedral ∧ valence ≠ 4) ∨ (s.topo = topoTypeHexahedral ∧ valence ≠ 6)))) :
    Rejected (applyTopo cfg s (encTopoHeader first count entity valence valEnc hEnc off ++ p1)) :=
  applyTopo_span_rejected cfg s hw p1 hbad

/-- TOPO: number of handles ≠ what the valences announce (payload size); a handle that, after adding the offset
    mod 2^64, is not below the number of vertices / halfedges / halffaces read so far; an empty face or cell -/
theorem inconsistent_topo_handles_rejected (cfg : Cfg) (s : RState) {first count entity valence valEnc hEnc off : Nat}
    (hw : TopoRaw first count entity valence valEnc hEnc off) {vals xs : List Nat}
    (ht : TailOk count valence valEnc hEnc vals xs)
    (hbad : xs.length ≠ (if valence = 0 then vals.sum else valence * count) ∨
      (entity = topoEntityEdge ∧ ∃ x ∈ xs, s.nVr ≤ w64 (x + off)) ∨
      (entity = topoEntityFace ∧ ∃ x ∈ xs, 2 * s.edges.length ≤ w64 (x + off)) ∨
      (entity = topoEntityCell ∧ ∃ x ∈ xs, 2 * s.faces.length ≤ w64 (x + off)) ∨
      (entity ≠ topoEntityEdge ∧ valence = 0 ∧ 0 ∈ vals)) :
    Rejected (applyTopo cfg s (encTopoHeader first count entity valence valEnc hEnc off ++ topoTail valence valEnc hEnc vals xs)) :=
  applyTopo_tail_rejected cfg s hw ht hbad

/-- PROP: property index outside the directory -/
theorem inconsistent_prop_index_rejected (s : RState) (first count idx : Nat) (body : Bytes) (hf : first < 2 ^ 64)
    (hc : count < 2 ^ 32) (hi : idx < 2 ^ 32) (hbad : s.dir.length ≤ idx) :
    applyProp s (rawProp first count idx body) = invalid := applyProp_index_rejected s first count idx body hf hc hi hbad

/-- PROP: span of values outside the entities read so far / outside the property -/
theorem inconsistent_prop_range_rejected (s : RState) (first count idx i : Nat) (st : Storage) (body : Bytes)
    (hf : first < 2 ^ 64) (hc : count < 2 ^ 32) (hi : idx < 2 ^ 32) (hdir : s.dir[idx]? = some (some i))
    (hst : s.stor[i]? = some st) (hc0 : count ≠ 0)
    (hbad : s.readCount st.entity < first + count ∨ st.vals.length < first + count) :
    applyProp s (rawProp first count idx body) = invalid :=
  applyProp_range_rejected s first count idx i st body hf hc hi hdir hst hc0 hbad

/-- PROP: payload size inconsistent with the count (fixed-size and bit-packed bool value types; any type for an
    empty span) -/
theorem inconsistent_prop_size_rejected (s : RState) (first count idx i : Nat) (st : Storage) (body : Bytes)
    (hf : first < 2 ^ 64) (hc : count < 2 ^ 32) (hi : idx < 2 ^ 32) (hdir : s.dir[idx]? = some (some i))
    (hst : s.stor[i]? = some st)
    (hbad : (count = 0 ∧ body ≠ []) ∨ (st.codec.kind = .fixed ∧ body.length ≠ count * st.codec.size) ∨
      (st.codec.kind = .bool ∧ body.length ≠ (count + 7) / 8)) :
    Rejected (applyProp s (rawProp first count idx body)) :=
  applyProp_size_rejected s first count idx i st body hf hc hi hdir hst hbad

/-- end of the file: no EOF chunk seen, or fewer / more edges, faces or cells read than the header declares -/
theorem inconsistent_end_rejected (cfg : Cfg) (s : RState) (data : Bytes)
    (hbad : s.eof = false ∨ s.nE ≠ s.edges.length ∨ s.nF ≠ s.faces.length ∨ s.nC ≠ s.cells.length) :
    Rejected (loop cfg s ⟨0, data⟩) := loop_end_rejected cfg s data hbad

/-- a file of a header and well-framed chunks without an EOF chunk is rejected, whatever the chunks contain -/
theorem missing_eof_chunk_rejected (cfg : Cfg) (hdr : Bytes) (hh : hdr.length = sizeFileHeader) (cs : List ChunkD)
    (hfit : ∀ c ∈ cs, c.Fits) (hne : ∀ c ∈ cs, c.notEof) :
    Rejected (decode cfg (hdr ++ (cs.map ChunkD.bytes).flatten)) := decode_no_eof_rejected cfg hdr hh cs hfit hne

/-- a trailing fragment shorter than a chunk header (for instance after the EOF chunk) -/
theorem trailing_fragment_rejected (cfg : Cfg) (s : RState) (rem : Nat) (data : Bytes) (h0 : rem ≠ 0)
    (hbad : rem < sizeChunkHeader ∨ data.length < sizeChunkHeader) : Rejected (loop cfg s ⟨rem, data⟩) :=
  loop_trailing_fragment_rejected cfg s rem data h0 hbad

/-- what the reader does with chunks *after* the EOF chunk: it keeps reading them like any other chunk (a second
    EOF chunk and a trailing fragment are rejected, see above); a well-framed skippable chunk after the writer's
    complete file is accepted and ignored -/
theorem chunk_after_eof_is_read (cfg : Cfg) (F : File) (hwf : WFFile F = true) (hacc : Accepts cfg F)
    (c : ChunkD) (hc : c.Fits) (hs : (encode F ++ c.bytes).length < 2 ^ 64)
    (hskip : c.flags = 0 ∧ (c.version ≠ 0 ∨ (c.ty ≠ ccEOF ∧ c.ty ≠ ccDIRP ∧ c.ty ≠ ccPROP ∧ c.ty ≠ ccVERT ∧ c.ty ≠ ccTOPO))) :
    decode cfg (encode F ++ c.bytes) = .ok F := decode_chunk_after_eof_accepted cfg F hwf hacc c hc hs hskip

/-- **lifting, chunk → loop**: a well-framed chunk whose body the reader rejects in state `s` makes the chunk loop
    fail from `s` -/
theorem chunk_rejected_lifts (cfg : Cfg) (s : RState) (c : ChunkD) (hc : c.Fits) (rem : Nat) (rest : Bytes)
    (hrem : c.bytes.length ≤ rem) (hrej : Rejected (processChunk cfg s c.hdr c.payload)) :
    Rejected (loop cfg s ⟨rem, c.bytes ++ rest⟩) := loop_next_chunk_rejected cfg s c hc rem rest hrem hrej

/-- **lifting, loop → file**: whatever header and whatever well-framed chunks precede it, a tail the chunk loop
    rejects from every state makes the file rejected; and a file read Ok has brought the loop through the chunks
    `cs` into a state from which the tail reads Ok -/
theorem rejected_after_any_prefix (cfg : Cfg) (hdr : Bytes) (hh : hdr.length = sizeFileHeader) (cs : List ChunkD)
    (hfit : ∀ c ∈ cs, c.Fits) (rest : Bytes) :
    ((∀ s, Rejected (loop cfg s ⟨rest.length, rest⟩)) →
      Rejected (decode cfg (hdr ++ ((cs.map ChunkD.bytes).flatten ++ rest)))) ∧
    (∀ F, decode cfg (hdr ++ ((cs.map ChunkD.bytes).flatten ++ rest)) = .ok F →
      ∃ topo nV nE nF nC s, runChunks cfg (initState topo nV nE nF nC) cs = .ok s ∧
        loop cfg s ⟨rest.length, rest⟩ = .ok F) :=
  ⟨decode_rejected_of_loop cfg hdr hh cs hfit rest, fun _ hok => decode_prefix_inv hh hfit hok⟩

/-- **summary**: the second clause of C18 as one statement — the conjunction of the rejection theorems above -/
theorem inconsistent_file_rejected :
    (type_of% @inconsistent_magic_rejected) ∧ (type_of% @inconsistent_header_version_rejected) ∧
    (type_of% @inconsistent_vertex_dim_rejected) ∧ (type_of% @inconsistent_topo_type_rejected) ∧
    (type_of% @inconsistent_header_reserved_rejected) ∧ (type_of% @inconsistent_header_count_rejected) ∧
    (type_of% @inconsistent_mesh_kind_rejected) ∧ (type_of% @inconsistent_chunk_header_rejected) ∧
    (type_of% @inconsistent_chunk_length_rejected) ∧ (type_of% @inconsistent_chunk_padding_rejected) ∧
    (type_of% @inconsistent_chunk_type_rejected) ∧ (type_of% @inconsistent_chunk_version_rejected) ∧
    (type_of% @inconsistent_eof_chunk_rejected) ∧ (type_of% @inconsistent_second_dirp_rejected) ∧
    (type_of% @inconsistent_vert_chunk_rejected) ∧ (type_of% @inconsistent_topo_header_rejected) ∧
    (type_of% @inconsistent_topo_span_rejected) ∧ (type_of% @inconsistent_topo_handles_rejected) ∧
    (type_of% @inconsistent_prop_index_rejected) ∧ (type_of% @inconsistent_prop_range_rejected) ∧
    (type_of% @inconsistent_prop_size_rejected) ∧ (type_of% @inconsistent_end_rejected) ∧
    (type_of% @missing_eof_chunk_rejected) ∧ (type_of% @trailing_fragment_rejected) ∧
    (type_of% @chunk_rejected_lifts) ∧ (type_of% @rejected_after_any_prefix) :=
  ⟨@inconsistent_magic_rejected, @inconsistent_header_version_rejected, @inconsistent_vertex_dim_rejected,
   @inconsistent_topo_type_rejected, @inconsistent_header_reserved_rejected, @inconsistent_header_count_rejected,
   @inconsistent_mesh_kind_rejected, @inconsistent_chunk_header_rejected, @inconsistent_chunk_length_rejected,
   @inconsistent_chunk_padding_rejected, @inconsistent_chunk_type_rejected, @inconsistent_chunk_version_rejected,
   @inconsistent_eof_chunk_rejected, @inconsistent_second_dirp_rejected, @inconsistent_vert_chunk_rejected,
   @inconsistent_topo_header_rejected, @inconsistent_topo_span_rejected, @inconsistent_topo_handles_rejected,
   @inconsistent_prop_index_rejected, @inconsistent_prop_range_rejected, @inconsistent_prop_size_rejected,
   @inconsistent_end_rejected, @missing_eof_chunk_rejected, @trailing_fragment_rejected, @chunk_rejected_lifts,
   @rejected_after_any_prefix⟩

/-! non-vacuity of the second clause (evaluations on one input, tests): the one-tetrahedron file with one byte
    substituted, and chunks of it with one field changed -/
/-- the tetrahedron file with byte `i` replaced by `b` -/
def sub (i : Nat) (b : UInt8) : Bytes := (encode Example.tetFile).set i b

set_option maxRecDepth 20000 in
example (cfg : Cfg) : Rejected (decode cfg (sub 3 0)) := inconsistent_magic_rejected cfg _ _ (by decide)
set_option maxRecDepth 20000 in
example (cfg : Cfg) : Rejected (decode cfg (sub 9 2)) := inconsistent_header_version_rejected cfg _ _ (by decide)
set_option maxRecDepth 20000 in
example (cfg : Cfg) : Rejected (decode cfg (sub 10 2)) := inconsistent_vertex_dim_rejected cfg _ _ (by decide)
set_option maxRecDepth 20000 in
example (cfg : Cfg) : Rejected (decode cfg (sub 11 3)) := inconsistent_topo_type_rejected cfg _ _ (by decide)
set_option maxRecDepth 20000 in
example (cfg : Cfg) : Rejected (decode cfg (sub 14 1)) := inconsistent_header_reserved_rejected cfg _ _ (by decide)
set_option maxRecDepth 20000 in
example (cfg : Cfg) : Rejected (decode cfg (sub 23 255)) := inconsistent_header_count_rejected cfg _ _ 0 (by decide) (by decide)
set_option maxRecDepth 20000 in
example : Rejected (decode Example.tetCfg (sub 11 0)) :=
  inconsistent_mesh_kind_rejected Example.tetCfg _ _ (Or.inl ⟨rfl, by decide⟩)

/-- the VERT chunk of the tetrahedron file with its encoding byte (file offset 116) replaced by 3 -/
def badVert : ChunkD := wc ccVERT (rawVert 0 4 3 (zeros 3) (encPositions Example.tetFile.pos))

/- evaluation on one input (a test): the substituted file, split at its chunks -/
set_option maxRecDepth 100000 in
theorem sub116 : sub 116 3 = writerHeader Example.tetFile ++
    ((([wc ccDIRP (dirpPayload Example.tetFile.props)] : List ChunkD).map ChunkD.bytes).flatten ++
      (badVert.bytes ++ (((writerChunkDs Example.tetFile).drop 2).map ChunkD.bytes).flatten)) := by decide

/- the substituted file is rejected by every reader configuration: the chunk reader rejects the encoding in every
    state (`inconsistent_vert_chunk_rejected`), hence the loop (`chunk_rejected_lifts`), hence the file
    (`rejected_after_any_prefix`) -/
set_option maxRecDepth 20000 in
example (cfg : Cfg) : Rejected (decode cfg (sub 116 3)) := by
  rw [sub116]
  have hfit : ∀ c ∈ ([wc ccDIRP (dirpPayload Example.tetFile.props)] : List ChunkD), c.Fits := by
    intro c hc
    simp only [List.mem_singleton] at hc
    rw [hc]; exact wc_fits _ _ (by decide) (by decide)
  have hc : badVert.Fits := wc_fits _ _ (by decide) (by decide)
  refine (rejected_after_any_prefix cfg _ (encFileHeader_length ..) _ hfit _).1 (fun s => ?_)
  refine chunk_rejected_lifts cfg s badVert hc _ _ (by simp) ?_
  rw [dispatch_vert cfg s _ _ rfl rfl]
  exact Rejected.of_invalid (inconsistent_vert_chunk_rejected s 0 4 3 (zeros 3) _ (by decide) (by decide) (by decide)
    (by decide) (Or.inl (by decide)))

/-- the reader state after the header, directory, vertices and edges of the tetrahedron file -/
def sEdges : RState := mkS Example.tetFile true true Example.tetFile.edges [] [] 0 false

/- the face chunk of the tetrahedron file with its last handle 11 replaced by 12 (only 12 halfedges exist) -/
example (cfg : Cfg) : Rejected (applyTopo cfg sEdges (encTopoHeader 0 4 topoEntityFace 3 intEncodingNone intEncodingU8 0 ++
    topoTail 3 intEncodingNone intEncodingU8 [] [0, 2, 4, 0, 8, 7, 2, 10, 9, 4, 6, 12])) :=
  inconsistent_topo_handles_rejected cfg sEdges ⟨by decide, by decide, by decide, by decide, by decide, by decide, by decide⟩
    ⟨fun h => absurd h (by decide), by decide⟩ (Or.inr (Or.inr (Or.inl ⟨rfl, 12, by simp, by decide⟩)))

/- the same chunk announcing its span to start at face 1, or one handle short, or with valence 4 in a tetrahedral file -/
example (cfg : Cfg) (p1 : Bytes) : Rejected (applyTopo cfg sEdges
    (encTopoHeader 1 4 topoEntityFace 3 intEncodingNone intEncodingU8 0 ++ p1)) :=
  inconsistent_topo_span_rejected cfg sEdges ⟨by decide, by decide, by decide, by decide, by decide, by decide, by decide⟩ p1
    (Or.inr (Or.inl ⟨rfl, Or.inl (by decide)⟩))
example (cfg : Cfg) : Rejected (applyTopo cfg sEdges (encTopoHeader 0 4 topoEntityFace 3 intEncodingNone intEncodingU8 0 ++
    topoTail 3 intEncodingNone intEncodingU8 [] [0, 2, 4, 0, 8, 7, 2, 10, 9, 4, 6])) :=
  inconsistent_topo_handles_rejected cfg sEdges ⟨by decide, by decide, by decide, by decide, by decide, by decide, by decide⟩
    ⟨fun h => absurd h (by decide), by decide⟩ (Or.inl (by decide))
example (cfg : Cfg) (p1 : Bytes) : Rejected (applyTopo cfg sEdges
    (encTopoHeader 0 4 topoEntityFace 4 intEncodingNone intEncodingU8 0 ++ p1)) :=
  inconsistent_topo_span_rejected cfg sEdges ⟨by decide, by decide, by decide, by decide, by decide, by decide, by decide⟩ p1
    (Or.inr (Or.inl ⟨rfl, Or.inr (Or.inr (Or.inl ⟨rfl, by decide⟩))⟩))

/- a chunk header with flags byte 2, a PROP chunk for property 5 of a one-entry directory, a file end without EOF -/
example (cfg : Cfg) (s : RState) (rest : Bytes) : Rejected (loop cfg s ⟨64, (⟨ccVERT, 0, 0, 0, 2, 16⟩ : RawHdr).bytes ++ rest⟩) :=
  inconsistent_chunk_header_rejected cfg s _ ⟨by decide, by decide, by decide, by decide, by decide, by decide⟩ 64 rest
    (by decide) (Or.inl (by decide))
example (body : Bytes) : applyProp sEdges (rawProp 0 4 5 body) = invalid :=
  inconsistent_prop_index_rejected sEdges 0 4 5 body (by decide) (by decide) (by decide) (by decide)
example (cfg : Cfg) : Rejected (loop cfg sEdges ⟨0, []⟩) := inconsistent_end_rejected cfg sEdges [] (Or.inl rfl)

/-- write side: `Ok` only when the mesh needs no garbage collection and the stream took every byte of the
    file, in order -/
theorem write_ok_only_if_complete (m : WMesh) (s : Sink) (h : (write m s).1 = .ok) :
    m.needsGC = false ∧ (write m s).2.out = s.out ++ encode m.file ∧
    (∀ c, s.cap = some c → (encode m.file).length ≤ c) := write_ok_complete m s h

/-- a sink that starts failing at any position before the end of the file makes the writer return a
    result other than Ok -/
theorem write_fault_detected (m : WMesh) (s : Sink) (c : Nat) (hc : s.cap = some c)
    (hlt : c < (encode m.file).length) : (write m s).1 ≠ .ok := write_fault_not_ok m s c hc hlt

/-- a stream that is already bad is reported as such and nothing is written -/
theorem write_bad_stream (m : WMesh) (s : Sink) (h : s.good = false) : write m s = (.badStream, s) := by
  simp [write, h]

/-! non-vacuity: the empty mesh is written completely into an unbounded sink, and a sink of 10 bytes fails -/
example : (write ⟨⟨topoTypePolyhedral, [], [], [], [], []⟩, false⟩ ⟨[], true, none⟩).1 = .ok := by decide
example : (write ⟨⟨topoTypePolyhedral, [], [], [], [], []⟩, false⟩ ⟨[], true, some 10⟩).1 = .error := by decide

end OVM.Props.C18

import OVM.IO.Ovmb.FramingLemmas
/-
  C18 — OVMB detects truncation, framing corruption and stream failures.

  Subject: `decode` / `decodeFaulty` / `write` of lean/OVM/IO/Ovmb (the model of BinaryFileReader.cc,
  BinaryIStream.cc, ovmb_codec.cc, BinaryFileWriter.cc after the fix commits F1, F13, F21–F24), tied to the code
  by the differential run of tools/props/io_ovmb.py: every truncation length, header/sub-header substitution,
  chunk drop / duplication / reordering, read-fault and write-fault position is given to both and the result
  class (and mesh, when Ok) compared; independently of the model a truncation or failing source that reads back
  Ok is a failing input by itself.
-/
namespace OVM.Props.C18
open OVM.Ovmb OVM.Gen.Ovmb

/-- the chunk loop succeeds only from a state in which the end-of-file chunk has been seen: for every byte
    string, reader configuration and stream state (F1: the error used to be recorded and ignored) -/
theorem ok_requires_eof_chunk (cfg : Cfg) (s : RState) (st : Stream) (F : File) (h : loop cfg s st = .ok F) :
    ∃ s', s'.eof = true ∧ finish s' = .ok F := loop_ok_final cfg s st F h

/-- every input shorter than the file header is rejected -/
theorem shorter_than_header_rejected (cfg : Cfg) (bytes : Bytes) (h : bytes.length < sizeFileHeader) :
    decode cfg bytes = .error (.res .incompatible) := short_header_rejected cfg bytes h

/-- every successful `read_chunk` consumes at least a chunk header: the loop cannot spin -/
theorem chunk_consumes (cfg : Cfg) (s s' : RState) (st st' : Stream) (h : readChunk cfg s st = .ok (s', st')) :
    st'.rem + sizeChunkHeader ≤ st.rem := readChunk_rem_lt h

/-- write side: `Ok` only when the mesh needs no garbage collection and the stream took every byte of the
    file, in order -/
theorem write_ok_only_if_complete (m : WMesh) (s : Sink) (h : (write m s).1 = .ok) :
    m.needsGC = false ∧ (write m s).2.out = s.out ++ encode m.file ∧
    (∀ c, s.cap = some c → (encode m.file).length ≤ c) := write_ok_complete m s h

/-- a sink that starts failing at any position before the end of the file makes the writer return a
    result other than Ok -/
theorem write_fault_detected (m : WMesh) (s : Sink) (c : Nat) (hc : s.cap = some c)
    (hlt : c < (encode m.file).length) : (write m s).1 ≠ .ok := write_fault_not_ok m s c hc hlt

/-- a stream that is already bad is reported as such and nothing is written -/
theorem write_bad_stream (m : WMesh) (s : Sink) (h : s.good = false) : write m s = (.badStream, s) := by
  simp [write, h]

/-! non-vacuity: the empty mesh is written completely into an unbounded sink, and a sink of 10 bytes fails -/
example : (write ⟨⟨topoTypePolyhedral, [], [], [], [], []⟩, false⟩ ⟨[], true, none⟩).1 = .ok := by decide
example : (write ⟨⟨topoTypePolyhedral, [], [], [], [], []⟩, false⟩ ⟨[], true, some 10⟩).1 = .error := by decide

end OVM.Props.C18

import OVM.IO.Ovmb.FramingLemmas
import OVM.IO.Ovmb.RoundTripExample
import OVM.IO.Ovmb.RoundTripPermitted
/-
  C18 — OVMB detects truncation, framing corruption and stream failures.

  Subject: `decode` / `decodeFaulty` / `write` of lean/OVM/IO/Ovmb (the model of BinaryFileReader.cc,
  BinaryIStream.cc, ovmb_codec.cc, BinaryFileWriter.cc after the fix commits F1, F13, F21–F24), tied to the code
  by the differential run of tools/props/io_ovmb.py: every truncation length, header/sub-header substitution,
  chunk drop / duplication / reordering, read-fault and write-fault position is given to both and the result
  class (and mesh, when Ok) compared; independently of the model a truncation or failing source that reads back
  Ok is a failing input by itself.

  **Truncation and read faults (end to end)**: `strict_prefix_rejected`, `read_fault_rejected` — for every file
  `F` the writer can be given (no well-formedness needed, only that the file is shorter than 2^64 bytes), every
  `p < (encode F).length` and EVERY reader configuration, neither the prefix of length `p` nor a stream that
  announces the full size and stops delivering at `p` is read successfully.  The generic form
  `framed_strict_prefix_rejected` covers every byte string `48-byte header ++ well-framed chunks` in which only
  the last chunk is an EOF chunk — whatever the header and the payloads contain (so also every alternative
  layout: `permitted_prefix_rejected`).  Lemmas: OVM/IO/Ovmb/RoundTripFrame.lean (`readChunk_full`, `readChunk_partial`, `processChunk_ep`,
  `loop_truncated`, `decodeStream_truncated`), RoundTripTrunc.lean.
-/
namespace OVM.Props.C18
open OVM.Ovmb OVM.Gen.Ovmb

/-- the chunk loop succeeds only from a state in which the end-of-file chunk has been seen: for every byte
    string, reader configuration and stream state (F1: the error used to be recorded and ignored) -/
theorem ok_requires_eof_chunk (cfg : Cfg) (s : RState) (st : Stream) (F : File) (h : loop cfg s st = .ok F) :
    ∃ s', s'.eof = true ∧ finish s' = .ok F := loop_ok_final cfg s st F h

/-- every input shorter than the file header is rejected -/
theorem shorter_than_header_rejected (cfg : Cfg) (bytes : Bytes) (h : bytes.length < sizeFileHeader) :
    decode cfg bytes = .error (.res .incompatible) := short_header_rejected cfg bytes h

/-- every successful `read_chunk` consumes at least a chunk header: the loop cannot spin -/
theorem chunk_consumes (cfg : Cfg) (s s' : RState) (st st' : Stream) (h : readChunk cfg s st = .ok (s', st')) :
    st'.rem + sizeChunkHeader ≤ st.rem := readChunk_rem_lt h

/-- **every strict prefix of a file the writer produces is rejected**, for every reader configuration -/
theorem strict_prefix_rejected (cfg : Cfg) (F : File) (hs : SizeOk F) (p : Nat) (hp : p < (encode F).length)
    (F' : File) : decode cfg ((encode F).take p) ≠ .ok F' := decode_prefix_rejected cfg F hs p hp F'

/-- **a read failure of the underlying stream at any position before the end is never Ok**: the stream announces
    the full size and delivers only the first `p` bytes -/
theorem read_fault_rejected (cfg : Cfg) (F : File) (hs : SizeOk F) (p : Nat) (hp : p < (encode F).length)
    (F' : File) : decodeFaulty cfg (encode F) p ≠ .ok F' := decodeFaulty_rejected cfg F hs p hp F'

/-- generic form: any byte string `file header ++ well-framed chunks` whose only EOF chunk (if any) is the last
    chunk — whatever the header fields and chunk payloads are — has no strict prefix that reads Ok, truncated
    or through a failing stream -/
theorem framed_strict_prefix_rejected (cfg : Cfg) (bytes hdr : Bytes) (cs : List ChunkD)
    (hb : bytes = hdr ++ (cs.map ChunkD.bytes).flatten) (hh : hdr.length = sizeFileHeader)
    (hfit : ∀ c ∈ cs, c.Fits) (hne : ∀ c ∈ cs.dropLast, c.notEof) (p : Nat) (hp : p < bytes.length) (F' : File) :
    decode cfg (bytes.take p) ≠ .ok F' ∧ decodeFaulty cfg bytes p ≠ .ok F' :=
  framed_prefix_rejected cfg bytes hdr cs hb hh hfit hne p hp F'

/-- **every strict prefix of every permitted encoding is rejected** (any valid `Layout`: split spans, other
    widths / offsets, skippable chunks — also a skippable chunk of type EOF with an unknown version), truncated or
    through a stream that fails at that position, for every reader configuration -/
theorem permitted_prefix_rejected (cfg : Cfg) (F : File) (L : Layout) (hval : ValidLayout L F = true)
    (hsize : (encodeWith L F).length < 2 ^ 64) (p : Nat) (hp : p < (encodeWith L F).length) (F' : File) :
    decode cfg ((encodeWith L F).take p) ≠ .ok F' ∧ decodeFaulty cfg (encodeWith L F) p ≠ .ok F' :=
  encodeWith_prefix_rejected cfg F L hval hsize p hp F'

/-- only a version-0 chunk of type EOF sets `reached_eof_chunk`: every other chunk, whatever it contains and
    whether it is accepted or not, leaves the flag as it was -/
theorem only_eof_chunk_sets_eof (cfg : Cfg) (s s' : RState) (h : ChunkHdr) (payload : Bytes)
    (hne : ¬(h.ty = ccEOF ∧ h.version = 0)) (hok : processChunk cfg s h payload = .ok s') : s'.eof = s.eof :=
  processChunk_ep cfg s h payload hne s' hok

/-! non-vacuity (evaluation on one input, a test): the one-tetrahedron file is 440 bytes long, so the two theorems
    speak about 440 prefixes / fault positions of it, for the tetrahedral reader with topology check as for any
    other; the complete file does read Ok (C06 `writer_roundtrip`), so rejection is due to the truncation -/
example : ∀ p < 440, ∀ F', decode Example.tetCfg ((encode Example.tetFile).take p) ≠ .ok F' := fun p hp F' =>
  strict_prefix_rejected _ _ Example.tetFile_size p (by rw [Example.tetFile_length]; exact hp) F'
example : ∀ p < 440, ∀ F', decodeFaulty Example.tetCfg (encode Example.tetFile) p ≠ .ok F' := fun p hp F' =>
  read_fault_rejected _ _ Example.tetFile_size p (by rw [Example.tetFile_length]; exact hp) F'
example : ∀ p < 631, ∀ F', decode Example.tetCfg ((encodeWith Example.altLayout Example.tetFile).take p) ≠ .ok F' :=
  fun p hp F' => (permitted_prefix_rejected _ _ _ Example.altLayout_valid (by rw [Example.altLayout_length]; decide) p
    (by rw [Example.altLayout_length]; exact hp) F').1
example : decode Example.tetCfg (encode Example.tetFile) = .ok Example.tetFile :=
  decode_encode _ _ Example.tetFile_wf Example.tetFile_accepts Example.tetFile_size

/-- write side: `Ok` only when the mesh needs no garbage collection and the stream took every byte of the
    file, in order -/
theorem write_ok_only_if_complete (m : WMesh) (s : Sink) (h : (write m s).1 = .ok) :
    m.needsGC = false ∧ (write m s).2.out = s.out ++ encode m.file ∧
    (∀ c, s.cap = some c → (encode m.file).length ≤ c) := write_ok_complete m s h

/-- a sink that starts failing at any position before the end of the file makes the writer return a
    result other than Ok -/
theorem write_fault_detected (m : WMesh) (s : Sink) (c : Nat) (hc : s.cap = some c)
    (hlt : c < (encode m.file).length) : (write m s).1 ≠ .ok := write_fault_not_ok m s c hc hlt

/-- a stream that is already bad is reported as such and nothing is written -/
theorem write_bad_stream (m : WMesh) (s : Sink) (h : s.good = false) : write m s = (.badStream, s) := by
  simp [write, h]

/-! non-vacuity: the empty mesh is written completely into an unbounded sink, and a sink of 10 bytes fails -/
example : (write ⟨⟨topoTypePolyhedral, [], [], [], [], []⟩, false⟩ ⟨[], true, none⟩).1 = .ok := by decide
example : (write ⟨⟨topoTypePolyhedral, [], [], [], [], []⟩, false⟩ ⟨[], true, some 10⟩).1 = .error := by decide

end OVM.Props.C18

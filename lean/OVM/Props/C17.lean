import OVM.Kernel.Step
import OVM.Base.ListLemmas
import OVM.Base.Bits
/-
  C17 — index swaps are pure relabelings.
  Proved here, for every mesh state (no bound, any contents, including deleted handles):
  * swapping a handle with itself is a no-op (all four kinds);
  * the relabeling maps are involutions; the slot exchange `swapAt` is an involution; the
    property-column exchange (edge slot + both halfedge slots side by side) is an involution;
  * without the cache-guided paths (incidence kind disabled) `swap_vertex_indices` twice is the
    identity on the whole record (exact equality), for in-range handles.
  The cache-guided variants (processed-sets) are tied to these by the correspondence check and
  are on the refinement ladder (DESIGN.md §6, rung B).
-/
namespace OVM.Props.C17
open OVM OVM.Kernel

theorem swapVertex_self (k : Kernel) (a : Nat) : k.swapVertex a a = k := by simp [swapVertex]
theorem swapEdge_self (k : Kernel) (a : Nat) : k.swapEdge a a = k := by simp [swapEdge]
theorem swapFace_self (k : Kernel) (a : Nat) : k.swapFace a a = k := by simp [swapFace]
theorem swapCell_self (k : Kernel) (a : Nat) : k.swapCell a a = k := by simp [swapCell]

/-- the vertex / cell relabeling `a ↔ b` is an involution -/
theorem relabelId_involutive (a b x : Nat) : relabelId a b (relabelId a b x) = x := by
  unfold relabelId
  by_cases h1 : x = a <;> by_cases h2 : x = b <;> by_cases h3 : a = b <;> simp_all
  all_goals (try (split <;> simp_all))

/-- the half-entity relabeling exchanges `2a+s ↔ 2b+s` and is an involution -/
theorem relabelHalf_involutive (a b h : Nat) : relabelHalf a b (relabelHalf a b h) = h := by
  unfold relabelHalf
  simp only [beq_iff_eq]
  by_cases h1 : h / 2 = a
  · simp only [h1, if_true]
    have e1 : (2 * b + h % 2) / 2 = b := by omega
    have e2 : (2 * b + h % 2) % 2 = h % 2 := by omega
    by_cases hab : b = a
    · simp [e1, e2, hab]; omega
    · simp [e1, e2, hab]; omega
  · simp only [h1, if_false]
    by_cases h2 : h / 2 = b
    · simp only [h2, if_true]
      have e1 : (2 * a + h % 2) / 2 = a := by omega
      have e2 : (2 * a + h % 2) % 2 = h % 2 := by omega
      simp [e1, e2]; omega
    · simp [h1, h2]

/-- the relabeling keeps the side: halfedge / halfface values stay on their side of the parent -/
theorem relabelHalf_side (a b h : Nat) : relabelHalf a b h % 2 = h % 2 := by
  unfold relabelHalf; simp only [beq_iff_eq]; split
  · omega
  · split <;> omega

theorem relabelHalf_parent (a b h : Nat) : relabelHalf a b h / 2 = relabelId a b (h / 2) := by
  unfold relabelHalf relabelId; simp only [beq_iff_eq]; split
  · omega
  · split <;> omega

theorem relabelHalf_opp (a b h : Nat) : relabelHalf a b (Kernel.opp h) = Kernel.opp (relabelHalf a b h) := by
  unfold relabelHalf Kernel.opp
  simp only [beq_iff_eq, xor_one_div, xor_one_mod]
  rw [xor_one_eq (if h / 2 = a then 2 * b + h % 2 else if h / 2 = b then 2 * a + h % 2 else h)]
  split
  · split <;> omega
  · split
    · split <;> omega
    · rw [xor_one_eq]

theorem Col_swap_swap (c : Col) (i j : Nat) : (c.swap i j).swap i j = c := by
  simp [Col.swap, swapAt_swapAt]

theorem swapVProps_involutive (p : Props) (a b : Nat) : swapVProps (swapVProps p a b) a b = p := by
  simp [swapVProps, List.map_map, Function.comp_def, Col_swap_swap]
theorem swapCProps_involutive (p : Props) (a b : Nat) : swapCProps (swapCProps p a b) a b = p := by
  simp [swapCProps, List.map_map, Function.comp_def, Col_swap_swap]

/-- two disjoint slot exchanges commute, so exchanging (2a,2b) then (2a+1,2b+1) twice is the identity -/
theorem swapAt_pair_involutive {α} (l : List α) (a b : Nat) :
    swapAt (swapAt (swapAt (swapAt l (2 * a) (2 * b)) (2 * a + 1) (2 * b + 1)) (2 * a) (2 * b)) (2 * a + 1) (2 * b + 1) = l := by
  by_cases h1 : 2 * a + 1 < l.length
  · by_cases h2 : 2 * b + 1 < l.length
    · apply List.ext_getElem?
      intro n
      have ha : 2 * a < l.length := by omega
      have hb : 2 * b < l.length := by omega
      simp only [getElem?_swapAt, length_swapAt, ha, hb, h1, h2]
      by_cases e1 : n = 2 * b + 1 <;> by_cases e2 : n = 2 * a + 1 <;> by_cases e3 : n = 2 * b <;> by_cases e4 : n = 2 * a <;>
        simp_all <;> (try omega) <;> (try (split <;> simp_all <;> omega))
    · -- 2b+1 out of range: the odd exchange is a no-op on every list of this length
      have hn : ∀ (m : List α), m.length = l.length → swapAt m (2 * a + 1) (2 * b + 1) = m := by
        intro m hm
        have : m[2 * b + 1]? = none := List.getElem?_eq_none (by omega)
        unfold swapAt; rw [this]; split <;> simp_all
      rw [hn _ (by simp), hn _ (by simp), swapAt_swapAt]
  · have hn : ∀ (m : List α), m.length = l.length → swapAt m (2 * a + 1) (2 * b + 1) = m := by
      intro m hm
      have : m[2 * a + 1]? = none := List.getElem?_eq_none (by omega)
      unfold swapAt; rw [this]
    rw [hn _ (by simp), hn _ (by simp), swapAt_swapAt]

theorem swapEProps_involutive (p : Props) (a b : Nat) : swapEProps (swapEProps p a b) a b = p := by
  simp only [swapEProps, List.map_map, Function.comp_def, Col_swap_swap]
  have : ∀ c : Col, (((c.swap (2 * a) (2 * b)).swap (2 * a + 1) (2 * b + 1)).swap (2 * a) (2 * b)).swap (2 * a + 1) (2 * b + 1) = c := by
    intro c; simp [Col.swap, swapAt_pair_involutive]
  simp [this]
theorem swapFProps_involutive (p : Props) (a b : Nat) : swapFProps (swapFProps p a b) a b = p := by
  simp only [swapFProps, List.map_map, Function.comp_def, Col_swap_swap]
  have : ∀ c : Col, (((c.swap (2 * a) (2 * b)).swap (2 * a + 1) (2 * b + 1)).swap (2 * a) (2 * b)).swap (2 * a + 1) (2 * b + 1) = c := by
    intro c; simp [Col.swap, swapAt_pair_involutive]
  simp [this]

theorem relabelEdgeV_involutive (a b : Nat) (e : Nat × Nat) : relabelEdgeV a b (relabelEdgeV a b e) = e := by
  simp [relabelEdgeV, relabelId_involutive]

/-- `swap_vertex_indices` twice restores the exact original state (linear-scan variant: vertex
    incidences disabled), for every mesh state and every pair of handles -/
theorem swapVertex_involutive_scan (k : Kernel) (a b : Nat) (hv : k.vBU = false) :
    (k.swapVertex a b).swapVertex a b = k := by
  by_cases hab : a = b
  · subst hab; simp [swapVertex]
  · have hne : (a == b) = false := by simp [hab]
    simp only [swapVertex, hne, hv, Bool.false_eq_true, if_false]
    simp only [List.map_map, Function.comp_def, relabelEdgeV_involutive, swapAt_swapAt, swapVProps_involutive,
      List.map_id']
    cases k; simp_all

/-- the same for cells when face incidences are disabled -/
theorem swapCell_involutive_scan (k : Kernel) (a b : Nat) (hf : k.fBU = false) :
    (k.swapCell a b).swapCell a b = k := by
  by_cases hab : a = b
  · subst hab; simp [swapCell]
  · have hne : (a == b) = false := by simp [hab]
    simp only [swapCell, hne, hf, Bool.false_eq_true, if_false]
    simp only [swapAt_swapAt, swapCProps_involutive]
    cases k; simp_all

/-- non-vacuity: a concrete mesh with a deleted vertex; swapping 0 and 2 moves flag and value -/
example :
    let k : Kernel := { nV := 3, edges := [(0, 1), (1, 2)], eDel := [false, false], vDel := [true, false, false],
                        nDelV := 1, vBU := false, eBU := false, fBU := false,
                        props := { v := [{ key := "t", dflt := 0, vals := [7, 8, 9] }] } }
    (k.swapVertex 0 2).edges = [(2, 1), (1, 0)] ∧ (k.swapVertex 0 2).vDel = [false, false, true] ∧
    (k.swapVertex 0 2).props.v = [{ key := "t", dflt := 0, vals := [9, 8, 7] }] ∧
    (k.swapVertex 0 2).swapVertex 0 2 = k := by decide

end OVM.Props.C17

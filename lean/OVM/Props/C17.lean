import OVM.Kernel.Step
import OVM.Base.ListLemmas
import OVM.Base.Bits
import OVM.Refine.CacheSwapSpec
/-
  C17 — index swaps are pure relabelings.
  Proved here, for every mesh state (no bound, any contents, including deleted handles):
  * swapping a handle with itself is a no-op (all four kinds);
  * the relabeling maps are involutions; the slot exchange `swapAt` is an involution; the
    property-column exchange (edge slot + both halfedge slots side by side) is an involution;
  * without the cache-guided paths (incidence kind disabled) `swap_vertex_indices` twice is the
    identity on the whole record (exact equality), for in-range handles.
  The cache-guided variants (processed-sets) are tied to these by the correspondence check and
  are on the refinement ladder (DESIGN.md §6, rung B).
-/
namespace OVM.Props.C17
open OVM OVM.Kernel

theorem swapVertex_self (k : Kernel) (a : Nat) : k.swapVertex a a = k := by simp [swapVertex]
theorem swapEdge_self (k : Kernel) (a : Nat) : k.swapEdge a a = k := by simp [swapEdge]
theorem swapFace_self (k : Kernel) (a : Nat) : k.swapFace a a = k := by simp [swapFace]
theorem swapCell_self (k : Kernel) (a : Nat) : k.swapCell a a = k := by simp [swapCell]

/-- the vertex / cell relabeling `a ↔ b` is an involution -/
theorem relabelId_involutive (a b x : Nat) : relabelId a b (relabelId a b x) = x := by
  unfold relabelId
  by_cases h1 : x = a <;> by_cases h2 : x = b <;> by_cases h3 : a = b <;> simp_all
  all_goals (try (split <;> simp_all))

/-- the half-entity relabeling exchanges `2a+s ↔ 2b+s` and is an involution -/
theorem relabelHalf_involutive (a b h : Nat) : relabelHalf a b (relabelHalf a b h) = h := by
  unfold relabelHalf
  simp only [beq_iff_eq]
  by_cases h1 : h / 2 = a
  · simp only [h1, if_true]
    have e1 : (2 * b + h % 2) / 2 = b := by omega
    have e2 : (2 * b + h % 2) % 2 = h % 2 := by omega
    by_cases hab : b = a
    · simp [e1, e2, hab]; omega
    · simp [e1, e2, hab]; omega
  · simp only [h1, if_false]
    by_cases h2 : h / 2 = b
    · simp only [h2, if_true]
      have e1 : (2 * a + h % 2) / 2 = a := by omega
      have e2 : (2 * a + h % 2) % 2 = h % 2 := by omega
      simp [e1, e2]; omega
    · simp [h1, h2]

/-- the relabeling keeps the side: halfedge / halfface values stay on their side of the parent -/
theorem relabelHalf_side (a b h : Nat) : relabelHalf a b h % 2 = h % 2 := by
  unfold relabelHalf; simp only [beq_iff_eq]; split
  · omega
  · split <;> omega

theorem relabelHalf_parent (a b h : Nat) : relabelHalf a b h / 2 = relabelId a b (h / 2) := by
  unfold relabelHalf relabelId; simp only [beq_iff_eq]; split
  · omega
  · split <;> omega

theorem relabelHalf_opp (a b h : Nat) : relabelHalf a b (Kernel.opp h) = Kernel.opp (relabelHalf a b h) := by
  unfold relabelHalf Kernel.opp
  simp only [beq_iff_eq, xor_one_div, xor_one_mod]
  rw [xor_one_eq (if h / 2 = a then 2 * b + h % 2 else if h / 2 = b then 2 * a + h % 2 else h)]
  split
  · split <;> omega
  · split
    · split <;> omega
    · rw [xor_one_eq]

theorem Col_swap_swap (c : Col) (i j : Nat) : (c.swap i j).swap i j = c := by
  simp [Col.swap, swapAt_swapAt]

theorem swapVProps_involutive (p : Props) (a b : Nat) : swapVProps (swapVProps p a b) a b = p := by
  simp [swapVProps, List.map_map, Function.comp_def, Col_swap_swap]
theorem swapCProps_involutive (p : Props) (a b : Nat) : swapCProps (swapCProps p a b) a b = p := by
  simp [swapCProps, List.map_map, Function.comp_def, Col_swap_swap]

/-- two disjoint slot exchanges commute, so exchanging (2a,2b) then (2a+1,2b+1) twice is the identity -/
theorem swapAt_pair_involutive {α} (l : List α) (a b : Nat) :
    swapAt (swapAt (swapAt (swapAt l (2 * a) (2 * b)) (2 * a + 1) (2 * b + 1)) (2 * a) (2 * b)) (2 * a + 1) (2 * b + 1) = l := by
  by_cases h1 : 2 * a + 1 < l.length
  · by_cases h2 : 2 * b + 1 < l.length
    · apply List.ext_getElem?
      intro n
      have ha : 2 * a < l.length := by omega
      have hb : 2 * b < l.length := by omega
      simp only [getElem?_swapAt, length_swapAt, ha, hb, h1, h2]
      by_cases e1 : n = 2 * b + 1 <;> by_cases e2 : n = 2 * a + 1 <;> by_cases e3 : n = 2 * b <;> by_cases e4 : n = 2 * a <;>
        simp_all <;> (try omega) <;> (try (split <;> simp_all <;> omega))
    · -- 2b+1 out of range: the odd exchange is a no-op on every list of this length
      have hn : ∀ (m : List α), m.length = l.length → swapAt m (2 * a + 1) (2 * b + 1) = m := by
        intro m hm
        have : m[2 * b + 1]? = none := List.getElem?_eq_none (by omega)
        unfold swapAt; rw [this]; split <;> simp_all
      rw [hn _ (by simp), hn _ (by simp), swapAt_swapAt]
  · have hn : ∀ (m : List α), m.length = l.length → swapAt m (2 * a + 1) (2 * b + 1) = m := by
      intro m hm
      have : m[2 * a + 1]? = none := List.getElem?_eq_none (by omega)
      unfold swapAt; rw [this]
    rw [hn _ (by simp), hn _ (by simp), swapAt_swapAt]

theorem swapEProps_involutive (p : Props) (a b : Nat) : swapEProps (swapEProps p a b) a b = p := by
  simp only [swapEProps, List.map_map, Function.comp_def, Col_swap_swap]
  have : ∀ c : Col, (((c.swap (2 * a) (2 * b)).swap (2 * a + 1) (2 * b + 1)).swap (2 * a) (2 * b)).swap (2 * a + 1) (2 * b + 1) = c := by
    intro c; simp [Col.swap, swapAt_pair_involutive]
  simp [this]
theorem swapFProps_involutive (p : Props) (a b : Nat) : swapFProps (swapFProps p a b) a b = p := by
  simp only [swapFProps, List.map_map, Function.comp_def, Col_swap_swap]
  have : ∀ c : Col, (((c.swap (2 * a) (2 * b)).swap (2 * a + 1) (2 * b + 1)).swap (2 * a) (2 * b)).swap (2 * a + 1) (2 * b + 1) = c := by
    intro c; simp [Col.swap, swapAt_pair_involutive]
  simp [this]

theorem relabelEdgeV_involutive (a b : Nat) (e : Nat × Nat) : relabelEdgeV a b (relabelEdgeV a b e) = e := by
  simp [relabelEdgeV, relabelId_involutive]

/-- `swap_vertex_indices` twice restores the exact original state (linear-scan variant: vertex
    incidences disabled), for every mesh state and every pair of handles -/
theorem swapVertex_involutive_scan (k : Kernel) (a b : Nat) (hv : k.vBU = false) :
    (k.swapVertex a b).swapVertex a b = k := by
  by_cases hab : a = b
  · subst hab; simp [swapVertex]
  · have hne : (a == b) = false := by simp [hab]
    simp only [swapVertex, hne, hv, Bool.false_eq_true, if_false]
    simp only [List.map_map, Function.comp_def, relabelEdgeV_involutive, swapAt_swapAt, swapVProps_involutive,
      List.map_id']
    cases k; simp_all

/-- the same for cells when face incidences are disabled -/
theorem swapCell_involutive_scan (k : Kernel) (a b : Nat) (hf : k.fBU = false) :
    (k.swapCell a b).swapCell a b = k := by
  by_cases hab : a = b
  · subst hab; simp [swapCell]
  · have hne : (a == b) = false := by simp [hab]
    simp only [swapCell, hne, hf, Bool.false_eq_true, if_false]
    simp only [swapAt_swapAt, swapCProps_involutive]
    cases k; simp_all

/-- non-vacuity: a concrete mesh with a deleted vertex; swapping 0 and 2 moves flag and value -/
example :
    let k : Kernel := { nV := 3, edges := [(0, 1), (1, 2)], eDel := [false, false], vDel := [true, false, false],
                        nDelV := 1, vBU := false, eBU := false, fBU := false,
                        props := { v := [{ key := "t", dflt := 0, vals := [7, 8, 9] }] } }
    (k.swapVertex 0 2).edges = [(2, 1), (1, 0)] ∧ (k.swapVertex 0 2).vDel = [false, false, true] ∧
    (k.swapVertex 0 2).props.v = [{ key := "t", dflt := 0, vals := [9, 8, 7] }] ∧
    (k.swapVertex 0 2).swapVertex 0 2 = k := by decide

/-! ### ---- begin: swaps and the bottom-up caches (OVM/Refine/CacheSwap*.lean) ----
  `WF k` = array lengths ∧ every stored handle in range ∧ `CacheInv k` (each enabled bottom-up cache
  equals, slot by slot, the brute-force scan over the live definitions).  For in-range handles (the
  `assert`s at the head of each `swap_*_indices`) every swap keeps `WF`, in every bottom-up
  configuration — the cache-guided variants with their processed-sets and the linear-scan variants.
  `oneCell` (no halfface in two live cells, C01's stated precondition) is needed exactly where
  `incident_cell_per_hf_` — one cell per halfface — guides or is rewritten.
  The relabeling specifications `relabel{Vertex,Edge,Face,Cell}Spec` ("exchange the two names
  everywhere") are in OVM/Refine/CacheSwapSpec.lean. -/

theorem swap_vertex_keeps_cache_invariant (k : Kernel) (a b : Nat) (ha : a < k.nV) (hb : b < k.nV) (hw : WF k) :
    WF (k.swapVertex a b) := wf_swapVertex ha hb hw

theorem swap_edge_keeps_cache_invariant (k : Kernel) (a b : Nat) (ha : a < k.nE) (hb : b < k.nE) (hw : WF k) :
    WF (k.swapEdge a b) := wf_swapEdge ha hb hw

theorem swap_face_keeps_cache_invariant (k : Kernel) (a b : Nat) (ha : a < k.nF) (hb : b < k.nF) (hw : WF k)
    (h1 : k.fBU = true → k.oneCell = true) : WF (k.swapFace a b) := wf_swapFace' ha hb hw h1

theorem swap_cell_keeps_cache_invariant (k : Kernel) (a b : Nat) (ha : a < k.nC) (hb : b < k.nC) (hw : WF k)
    (h1 : k.oneCell = true) : WF (k.swapCell a b) := wf_swapCell ha hb hw h1

/-- C01's precondition is itself kept by all four swaps -/
theorem swaps_keep_oneCell (k : Kernel) (a b : Nat) (hw : WF k) (h1 : k.oneCell = true) :
    (k.swapVertex a b).oneCell = true ∧ (k.swapEdge a b).oneCell = true ∧
    (a < k.nF → b < k.nF → (k.swapFace a b).oneCell = true) ∧
    (a < k.nC → b < k.nC → (k.swapCell a b).oneCell = true) :=
  ⟨oneCell_swapVertex a b h1, oneCell_swapEdge a b h1, fun ha hb => oneCell_swapFace ha hb hw.cache.f h1,
   fun ha hb => oneCell_swapCell ha hb hw.len.cDel h1⟩

/-- C17's gap, closed: under `WF` the cache-guided variants produce exactly the state of the
    relabeling specification (record equality: definitions, caches including order, flags, property
    columns), provided no entity one level up carries a deletion flag — a flagged face / cell / edge
    is not listed in the caches, so the cache-guided variant cannot find it. -/
theorem swap_cache_guided_eq_relabeling (k : Kernel) (a b : Nat) (hab : a ≠ b) (hw : WF k) :
    (a < k.nV → b < k.nV → (k.vBU = true → NoFlag k.eDel) → k.swapVertex a b = relabelVertexSpec k a b) ∧
    (a < k.nE → b < k.nE → (k.eBU = true → NoFlag k.fDel) → k.swapEdge a b = relabelEdgeSpec k a b) ∧
    (a < k.nF → b < k.nF → (k.fBU = true → k.oneCell = true) → (k.fBU = true → NoFlag k.cDel) →
      k.swapFace a b = relabelFaceSpec k a b) ∧
    (k.swapCell a b = relabelCellSpec k a b) :=
  ⟨fun ha hb hl => swapVertex_eq_spec ha hb hab hw hl, fun ha hb hl => swapEdge_eq_spec ha hb hab hw hl,
   fun ha hb h1 hl => swapFace_eq_spec ha hb hab hw h1 hl, swapCell_eq_spec hab hw⟩

/-- … and for every mesh state, flagged entities included: every field except the definition array one
    level up is the specification's, and that array agrees with it at every live index (a flagged
    entity's definition may keep the old name; it stays in range by `swap_*_keeps_cache_invariant`). -/
theorem swap_edge_cache_guided_eq_relabeling_live (k : Kernel) (a b : Nat) (ha : a < k.nE) (hb : b < k.nE)
    (hab : a ≠ b) (hw : WF k) :
    k.swapEdge a b = { relabelEdgeSpec k a b with faces := (k.swapEdge a b).faces } ∧
    (k.swapEdge a b).faces.length = k.faces.length ∧
    ∀ f, (k.eBU = true → k.liveF f = true) → (k.swapEdge a b).faceAt f = (relabelEdgeSpec k a b).faceAt f :=
  swapEdge_eq_spec_live ha hb hab hw

theorem swap_face_cache_guided_eq_relabeling_live (k : Kernel) (a b : Nat) (ha : a < k.nF) (hb : b < k.nF)
    (hab : a ≠ b) (hw : WF k) (h1 : k.fBU = true → k.oneCell = true) :
    k.swapFace a b = { relabelFaceSpec k a b with cells := (k.swapFace a b).cells } ∧
    (k.swapFace a b).cells.length = k.cells.length ∧
    ∀ c, (k.fBU = true → k.liveC c = true) → (k.swapFace a b).cellAt c = (relabelFaceSpec k a b).cellAt c :=
  swapFace_eq_spec_live ha hb hab hw h1

theorem swap_vertex_cache_guided_eq_relabeling_live (k : Kernel) (a b : Nat) (ha : a < k.nV) (hb : b < k.nV)
    (hab : a ≠ b) (hw : WF k) :
    k.swapVertex a b = { relabelVertexSpec k a b with edges := (k.swapVertex a b).edges } ∧
    (k.swapVertex a b).edges.length = k.edges.length ∧
    ∀ e, e < k.nE → (k.vBU = true → k.liveE e = true) →
      (k.swapVertex a b).edgeAt e = (relabelVertexSpec k a b).edgeAt e :=
  swapVertex_eq_spec_live ha hb hab hw

/-- non-vacuity: the tetrahedron with all incidences on (`tetK`, `WF` by `wf_tetK`): the swaps keep
    `WF`, equal their specifications, and the specifications really rename -/
example : WF (tetK.swapEdge 0 5) ∧ WF (tetK.swapFace 0 3) ∧ WF (tetK.swapVertex 1 2) :=
  ⟨swap_edge_keeps_cache_invariant tetK 0 5 (by decide) (by decide) wf_tetK,
   swap_face_keeps_cache_invariant tetK 0 3 (by decide) (by decide) wf_tetK (fun _ => by decide),
   swap_vertex_keeps_cache_invariant tetK 1 2 (by decide) (by decide) wf_tetK⟩
example : tetK.swapEdge 0 5 = relabelEdgeSpec tetK 0 5 ∧
    (relabelEdgeSpec tetK 0 5).faces = [[10, 2, 4], [6, 8, 11], [9, 0, 3], [5, 1, 7]] ∧
    (relabelEdgeSpec tetK 0 5).outHes = [[10, 5, 6], [11, 2, 9], [3, 4, 1], [7, 8, 0]] :=
  ⟨((swap_cache_guided_eq_relabeling tetK 0 5 (by decide) wf_tetK).2.1) (by decide) (by decide)
      (fun _ => by unfold NoFlag; decide), by decide, by decide⟩
example : tetK.swapFace 0 3 = relabelFaceSpec tetK 0 3 ∧ (relabelFaceSpec tetK 0 3).cells = [[7, 3, 5, 1]] :=
  ⟨((swap_cache_guided_eq_relabeling tetK 0 3 (by decide) wf_tetK).2.2.1) (by decide) (by decide)
      (fun _ => by decide) (fun _ => by unfold NoFlag; decide), by decide⟩
/-! ### ---- end: swaps and the bottom-up caches ---- -/

end OVM.Props.C17

import OVM.Kernel.Step
import OVM.Base.ListLemmas
import OVM.Base.Bits
import OVM.Refine.CacheSwapSpec
import OVM.Refine.ReachSwap
/-
  C17 — index swaps are pure relabelings.
  Proved here, for every mesh state (no bound, any contents, including deleted handles):
  * swapping a handle with itself is a no-op (all four kinds);
  * the relabeling maps are involutions; the slot exchange `swapAt` is an involution; the
    property-column exchange (edge slot + both halfedge slots side by side) is an involution;
  * without the cache-guided paths (incidence kind disabled) `swap_vertex_indices` twice is the
    identity on the whole record (exact equality), for in-range handles.
  The cache-guided variants (processed-sets): middle section (`swap_cache_guided_eq_relabeling`, the `_live` forms).
  Last section, ON REACHABLE STATES (`Global.GInv`; lemmas in OVM/Refine/ReachSwap.lean, D1's `LogIso` for swaps in
  OVM/Refine/LogicalDelete.lean): `swap_is_relabeling_on_reachable_states` — for each of the four swaps and valid
  handles the logical mesh is the original one with the two handles exchanged (`LogIso`, ρ = the transposition), the
  whole record is the relabeling specification except stale definitions of FLAGGED entities one level up (left
  untouched when the guiding cache is on: `*_stale`), `swap a a` is the identity, and swapping twice restores the exact
  state (record equality) with or without pending deletions.
-/
namespace OVM.Props.C17
open OVM OVM.Kernel

theorem swapVertex_self (k : Kernel) (a : Nat) : k.swapVertex a a = k := by simp [swapVertex]
theorem swapEdge_self (k : Kernel) (a : Nat) : k.swapEdge a a = k := by simp [swapEdge]
theorem swapFace_self (k : Kernel) (a : Nat) : k.swapFace a a = k := by simp [swapFace]
theorem swapCell_self (k : Kernel) (a : Nat) : k.swapCell a a = k := by simp [swapCell]

/-- the vertex / cell relabeling `a ↔ b` is an involution -/
theorem relabelId_involutive (a b x : Nat) : relabelId a b (relabelId a b x) = x := by
  unfold relabelId
  by_cases h1 : x = a <;> by_cases h2 : x = b <;> by_cases h3 : a = b <;> simp_all
  all_goals (try (split <;> simp_all))

/-- the half-entity relabeling exchanges `2a+s ↔ 2b+s` and is an involution -/
theorem relabelHalf_involutive (a b h : Nat) : relabelHalf a b (relabelHalf a b h) = h := by
  unfold relabelHalf
  simp only [beq_iff_eq]
  by_cases h1 : h / 2 = a
  · simp only [h1, if_true]
    have e1 : (2 * b + h % 2) / 2 = b := by omega
    have e2 : (2 * b + h % 2) % 2 = h % 2 := by omega
    by_cases hab : b = a
    · simp [e1, e2, hab]; omega
    · simp [e1, e2, hab]; omega
  · simp only [h1, if_false]
    by_cases h2 : h / 2 = b
    · simp only [h2, if_true]
      have e1 : (2 * a + h % 2) / 2 = a := by omega
      have e2 : (2 * a + h % 2) % 2 = h % 2 := by omega
      simp [e1, e2]; omega
    · simp [h1, h2]

/-- the relabeling keeps the side: halfedge / halfface values stay on their side of the parent -/
theorem relabelHalf_side (a b h : Nat) : relabelHalf a b h % 2 = h % 2 := by
  unfold relabelHalf; simp only [beq_iff_eq]; split
  · omega
  · split <;> omega

theorem relabelHalf_parent (a b h : Nat) : relabelHalf a b h / 2 = relabelId a b (h / 2) := by
  unfold relabelHalf relabelId; simp only [beq_iff_eq]; split
  · omega
  · split <;> omega

theorem relabelHalf_opp (a b h : Nat) : relabelHalf a b (Kernel.opp h) = Kernel.opp (relabelHalf a b h) := by
  unfold relabelHalf Kernel.opp
  simp only [beq_iff_eq, xor_one_div, xor_one_mod]
  rw [xor_one_eq (if h / 2 = a then 2 * b + h % 2 else if h / 2 = b then 2 * a + h % 2 else h)]
  split
  · split <;> omega
  · split
    · split <;> omega
    · rw [xor_one_eq]

theorem Col_swap_swap (c : Col) (i j : Nat) : (c.swap i j).swap i j = c := by
  simp [Col.swap, swapAt_swapAt]

theorem swapVProps_involutive (p : Props) (a b : Nat) : swapVProps (swapVProps p a b) a b = p := by
  simp [swapVProps, List.map_map, Function.comp_def, Col_swap_swap]
theorem swapCProps_involutive (p : Props) (a b : Nat) : swapCProps (swapCProps p a b) a b = p := by
  simp [swapCProps, List.map_map, Function.comp_def, Col_swap_swap]

/-- two disjoint slot exchanges commute, so exchanging (2a,2b) then (2a+1,2b+1) twice is the identity -/
theorem swapAt_pair_involutive {α} (l : List α) (a b : Nat) :
    swapAt (swapAt (swapAt (swapAt l (2 * a) (2 * b)) (2 * a + 1) (2 * b + 1)) (2 * a) (2 * b)) (2 * a + 1) (2 * b + 1) = l := by
  by_cases h1 : 2 * a + 1 < l.length
  · by_cases h2 : 2 * b + 1 < l.length
    · apply List.ext_getElem?
      intro n
      have ha : 2 * a < l.length := by omega
      have hb : 2 * b < l.length := by omega
      simp only [getElem?_swapAt, length_swapAt, ha, hb, h1, h2]
      by_cases e1 : n = 2 * b + 1 <;> by_cases e2 : n = 2 * a + 1 <;> by_cases e3 : n = 2 * b <;> by_cases e4 : n = 2 * a <;>
        simp_all <;> (try omega) <;> (try (split <;> simp_all <;> omega))
    · -- 2b+1 out of range: the odd exchange is a no-op on every list of this length
      have hn : ∀ (m : List α), m.length = l.length → swapAt m (2 * a + 1) (2 * b + 1) = m := by
        intro m hm
        have : m[2 * b + 1]? = none := List.getElem?_eq_none (by omega)
        unfold swapAt; rw [this]; split <;> simp_all
      rw [hn _ (by simp), hn _ (by simp), swapAt_swapAt]
  · have hn : ∀ (m : List α), m.length = l.length → swapAt m (2 * a + 1) (2 * b + 1) = m := by
      intro m hm
      have : m[2 * a + 1]? = none := List.getElem?_eq_none (by omega)
      unfold swapAt; rw [this]
    rw [hn _ (by simp), hn _ (by simp), swapAt_swapAt]

theorem swapEProps_involutive (p : Props) (a b : Nat) : swapEProps (swapEProps p a b) a b = p := by
  simp only [swapEProps, List.map_map, Function.comp_def, Col_swap_swap]
  have : ∀ c : Col, (((c.swap (2 * a) (2 * b)).swap (2 * a + 1) (2 * b + 1)).swap (2 * a) (2 * b)).swap (2 * a + 1) (2 * b + 1) = c := by
    intro c; simp [Col.swap, swapAt_pair_involutive]
  simp [this]
theorem swapFProps_involutive (p : Props) (a b : Nat) : swapFProps (swapFProps p a b) a b = p := by
  simp only [swapFProps, List.map_map, Function.comp_def, Col_swap_swap]
  have : ∀ c : Col, (((c.swap (2 * a) (2 * b)).swap (2 * a + 1) (2 * b + 1)).swap (2 * a) (2 * b)).swap (2 * a + 1) (2 * b + 1) = c := by
    intro c; simp [Col.swap, swapAt_pair_involutive]
  simp [this]

theorem relabelEdgeV_involutive (a b : Nat) (e : Nat × Nat) : relabelEdgeV a b (relabelEdgeV a b e) = e := by
  simp [relabelEdgeV, relabelId_involutive]

/-- `swap_vertex_indices` twice restores the exact original state (linear-scan variant: vertex
    incidences disabled), for every mesh state and every pair of handles -/
theorem swapVertex_involutive_scan (k : Kernel) (a b : Nat) (hv : k.vBU = false) :
    (k.swapVertex a b).swapVertex a b = k := by
  by_cases hab : a = b
  · subst hab; simp [swapVertex]
  · have hne : (a == b) = false := by simp [hab]
    simp only [swapVertex, hne, hv, Bool.false_eq_true, if_false]
    simp only [List.map_map, Function.comp_def, relabelEdgeV_involutive, swapAt_swapAt, swapVProps_involutive,
      List.map_id']
    cases k; simp_all

/-- the same for cells when face incidences are disabled -/
theorem swapCell_involutive_scan (k : Kernel) (a b : Nat) (hf : k.fBU = false) :
    (k.swapCell a b).swapCell a b = k := by
  by_cases hab : a = b
  · subst hab; simp [swapCell]
  · have hne : (a == b) = false := by simp [hab]
    simp only [swapCell, hne, hf, Bool.false_eq_true, if_false]
    simp only [swapAt_swapAt, swapCProps_involutive]
    cases k; simp_all

/-- non-vacuity: a concrete mesh with a deleted vertex; swapping 0 and 2 moves flag and value -/
example :
    let k : Kernel := { nV := 3, edges := [(0, 1), (1, 2)], eDel := [false, false], vDel := [true, false, false],
                        nDelV := 1, vBU := false, eBU := false, fBU := false,
                        props := { v := [{ key := "t", dflt := 0, vals := [7, 8, 9] }] } }
    (k.swapVertex 0 2).edges = [(2, 1), (1, 0)] ∧ (k.swapVertex 0 2).vDel = [false, false, true] ∧
    (k.swapVertex 0 2).props.v = [{ key := "t", dflt := 0, vals := [9, 8, 7] }] ∧
    (k.swapVertex 0 2).swapVertex 0 2 = k := by decide

/-! ### ---- begin: swaps and the bottom-up caches (OVM/Refine/CacheSwap*.lean) ----
  `WF k` = array lengths ∧ every stored handle in range ∧ `CacheInv k` (each enabled bottom-up cache
  equals, slot by slot, the brute-force scan over the live definitions).  For in-range handles (the
  `assert`s at the head of each `swap_*_indices`) every swap keeps `WF`, in every bottom-up
  configuration — the cache-guided variants with their processed-sets and the linear-scan variants.
  `oneCell` (no halfface in two live cells, C01's stated precondition) is needed exactly where
  `incident_cell_per_hf_` — one cell per halfface — guides or is rewritten.
  The relabeling specifications `relabel{Vertex,Edge,Face,Cell}Spec` ("exchange the two names
  everywhere") are in OVM/Refine/CacheSwapSpec.lean. -/

theorem swap_vertex_keeps_cache_invariant (k : Kernel) (a b : Nat) (ha : a < k.nV) (hb : b < k.nV) (hw : WF k) :
    WF (k.swapVertex a b) := wf_swapVertex ha hb hw

theorem swap_edge_keeps_cache_invariant (k : Kernel) (a b : Nat) (ha : a < k.nE) (hb : b < k.nE) (hw : WF k) :
    WF (k.swapEdge a b) := wf_swapEdge ha hb hw

theorem swap_face_keeps_cache_invariant (k : Kernel) (a b : Nat) (ha : a < k.nF) (hb : b < k.nF) (hw : WF k)
    (h1 : k.fBU = true → k.oneCell = true) : WF (k.swapFace a b) := wf_swapFace' ha hb hw h1

theorem swap_cell_keeps_cache_invariant (k : Kernel) (a b : Nat) (ha : a < k.nC) (hb : b < k.nC) (hw : WF k)
    (h1 : k.oneCell = true) : WF (k.swapCell a b) := wf_swapCell ha hb hw h1

/-- C01's precondition is itself kept by all four swaps -/
theorem swaps_keep_oneCell (k : Kernel) (a b : Nat) (hw : WF k) (h1 : k.oneCell = true) :
    (k.swapVertex a b).oneCell = true ∧ (k.swapEdge a b).oneCell = true ∧
    (a < k.nF → b < k.nF → (k.swapFace a b).oneCell = true) ∧
    (a < k.nC → b < k.nC → (k.swapCell a b).oneCell = true) :=
  ⟨oneCell_swapVertex a b h1, oneCell_swapEdge a b h1, fun ha hb => oneCell_swapFace ha hb hw.cache.f h1,
   fun ha hb => oneCell_swapCell ha hb hw.len.cDel h1⟩

/-- C17's gap, closed: under `WF` the cache-guided variants produce exactly the state of the
    relabeling specification (record equality: definitions, caches including order, flags, property
    columns), provided no entity one level up carries a deletion flag — a flagged face / cell / edge
    is not listed in the caches, so the cache-guided variant cannot find it. -/
theorem swap_cache_guided_eq_relabeling (k : Kernel) (a b : Nat) (hab : a ≠ b) (hw : WF k) :
    (a < k.nV → b < k.nV → (k.vBU = true → NoFlag k.eDel) → k.swapVertex a b = relabelVertexSpec k a b) ∧
    (a < k.nE → b < k.nE → (k.eBU = true → NoFlag k.fDel) → k.swapEdge a b = relabelEdgeSpec k a b) ∧
    (a < k.nF → b < k.nF → (k.fBU = true → k.oneCell = true) → (k.fBU = true → NoFlag k.cDel) →
      k.swapFace a b = relabelFaceSpec k a b) ∧
    (k.swapCell a b = relabelCellSpec k a b) :=
  ⟨fun ha hb hl => swapVertex_eq_spec ha hb hab hw hl, fun ha hb hl => swapEdge_eq_spec ha hb hab hw hl,
   fun ha hb h1 hl => swapFace_eq_spec ha hb hab hw h1 hl, swapCell_eq_spec hab hw⟩

/-- … and for every mesh state, flagged entities included: every field except the definition array one
    level up is the specification's, and that array agrees with it at every live index (a flagged
    entity's definition may keep the old name; it stays in range by `swap_*_keeps_cache_invariant`). -/
theorem swap_edge_cache_guided_eq_relabeling_live (k : Kernel) (a b : Nat) (ha : a < k.nE) (hb : b < k.nE)
    (hab : a ≠ b) (hw : WF k) :
    k.swapEdge a b = { relabelEdgeSpec k a b with faces := (k.swapEdge a b).faces } ∧
    (k.swapEdge a b).faces.length = k.faces.length ∧
    ∀ f, (k.eBU = true → k.liveF f = true) → (k.swapEdge a b).faceAt f = (relabelEdgeSpec k a b).faceAt f :=
  swapEdge_eq_spec_live ha hb hab hw

theorem swap_face_cache_guided_eq_relabeling_live (k : Kernel) (a b : Nat) (ha : a < k.nF) (hb : b < k.nF)
    (hab : a ≠ b) (hw : WF k) (h1 : k.fBU = true → k.oneCell = true) :
    k.swapFace a b = { relabelFaceSpec k a b with cells := (k.swapFace a b).cells } ∧
    (k.swapFace a b).cells.length = k.cells.length ∧
    ∀ c, (k.fBU = true → k.liveC c = true) → (k.swapFace a b).cellAt c = (relabelFaceSpec k a b).cellAt c :=
  swapFace_eq_spec_live ha hb hab hw h1

theorem swap_vertex_cache_guided_eq_relabeling_live (k : Kernel) (a b : Nat) (ha : a < k.nV) (hb : b < k.nV)
    (hab : a ≠ b) (hw : WF k) :
    k.swapVertex a b = { relabelVertexSpec k a b with edges := (k.swapVertex a b).edges } ∧
    (k.swapVertex a b).edges.length = k.edges.length ∧
    ∀ e, e < k.nE → (k.vBU = true → k.liveE e = true) →
      (k.swapVertex a b).edgeAt e = (relabelVertexSpec k a b).edgeAt e :=
  swapVertex_eq_spec_live ha hb hab hw

/-- non-vacuity: the tetrahedron with all incidences on (`tetK`, `WF` by `wf_tetK`): the swaps keep
    `WF`, equal their specifications, and the specifications really rename -/
example : WF (tetK.swapEdge 0 5) ∧ WF (tetK.swapFace 0 3) ∧ WF (tetK.swapVertex 1 2) :=
  ⟨swap_edge_keeps_cache_invariant tetK 0 5 (by decide) (by decide) wf_tetK,
   swap_face_keeps_cache_invariant tetK 0 3 (by decide) (by decide) wf_tetK (fun _ => by decide),
   swap_vertex_keeps_cache_invariant tetK 1 2 (by decide) (by decide) wf_tetK⟩
example : tetK.swapEdge 0 5 = relabelEdgeSpec tetK 0 5 ∧
    (relabelEdgeSpec tetK 0 5).faces = [[10, 2, 4], [6, 8, 11], [9, 0, 3], [5, 1, 7]] ∧
    (relabelEdgeSpec tetK 0 5).outHes = [[10, 5, 6], [11, 2, 9], [3, 4, 1], [7, 8, 0]] :=
  ⟨((swap_cache_guided_eq_relabeling tetK 0 5 (by decide) wf_tetK).2.1) (by decide) (by decide)
      (fun _ => by unfold NoFlag; decide), by decide, by decide⟩
example : tetK.swapFace 0 3 = relabelFaceSpec tetK 0 3 ∧ (relabelFaceSpec tetK 0 3).cells = [[7, 3, 5, 1]] :=
  ⟨((swap_cache_guided_eq_relabeling tetK 0 3 (by decide) wf_tetK).2.2.1) (by decide) (by decide)
      (fun _ => by decide) (fun _ => by unfold NoFlag; decide), by decide⟩
/-! ### ---- end: swaps and the bottom-up caches ---- -/

/-! ## On reachable states: swaps are pure relabelings

`Global.GInv` (OVM/Refine/Global.lean) holds after every history of valid calls from the empty mesh (Props/C01Reach
`reach_inv`; it contains `WF` and C01's `oneCell`).  On such a state, for each of the four swaps and every pair of valid
handles `a b` — adjacent or not, live or flagged, equal or not, every bottom-up configuration, any number of pending
deletions:

 1. `*_iso`: the LOGICAL MESH of the result is the original one with the two handles exchanged, every other handle
    untouched (`Logical.LogIso` with ρ = the transposition `relabelId a b` on the kind and `id` on the others,
    `transposition`): the live entities, their definitions read through ρ (halfedge / halfface handles side by side:
    `Logical.half ρ`), the deletion flags, and every property column of every kind incl. both sides of the half-entity
    columns.  `relabeling_elementary` unfolds `LogIso` into these elementary statements (`Logical.Carried`).
 2. `*_record`: the WHOLE RECORD — flag arrays, counters, modes, all three caches as relabelled lists including their
    order, all property columns, definitions on the same level and below — is that of the relabeling specification
    (`relabel*Spec`, OVM/Refine/CacheSwapSpec.lean), except the definition array ONE LEVEL UP, which is the
    specification's at every LIVE index.
 3. `*_stale`: the only deviation.  When the guiding cache is on, the stored definition of a FLAGGED entity one level up
    (deferred deletion pending) is left exactly as it was: it keeps the OLD names of `a` and `b`, where the
    specification (and the linear-scan variant, `*_scan`) renames inside it.  Such a definition belongs to an entity that
    no query reports (C01 `deleted_never_reported`) and that `collect_garbage` erases without reading it; it stays in
    range (`*_inv`: `GInv`, hence `WF`, is kept).  K3's `decide` example in CacheSwapSpec.lean and the one below show it.
    `*_exact`: with nothing flagged one level up the record IS the specification (`swap_cache_guided_eq_relabeling`).
 4. `*_twice`: applying the same swap twice restores the EXACT original state (equality of the whole record) — with
    or without flagged entities: live entities one level up are renamed twice, flagged ones are touched by neither call.
    So no weaker "up to `LogIso id`" form is needed.
 5. `self`: `swap a a` is the identity on the whole state (every state, no hypothesis). -/

open OVM.Kernel.Global (GInv ginv_step ginv_reachable historyOK_of_B)
open OVM.Kernel.Logical (LogIso Carried Ren Rem)

/-- `LogIso` in elementary terms: live sets correspond bijectively, definitions and all columns are read through ρ -/
theorem relabeling_elementary {k k' : Kernel} {ρ : Ren} (h : LogIso k k' ρ) : Carried k k' ρ Rem.none :=
  Logical.carried_of_logMinus h

/-- the transposition exchanges the two handles and fixes every other one -/
theorem transposition (a b : Nat) :
    relabelId a b a = b ∧ relabelId a b b = a ∧ (∀ x, x ≠ a → x ≠ b → relabelId a b x = x) ∧
    (∀ s, s ≤ 1 → relabelHalf a b (2 * a + s) = 2 * b + s ∧ relabelHalf a b (2 * b + s) = 2 * a + s) ∧
    (∀ h, h / 2 ≠ a → h / 2 ≠ b → relabelHalf a b h = h) := by
  refine ⟨by simp [relabelId], ?_, ?_, ?_, fun h h1 h2 => k3_relabelHalf_off h1 h2⟩
  · unfold relabelId; by_cases h : b = a <;> simp [h]
  · intro x h1 h2; simp [relabelId, h1, h2]
  · intro s hs
    have e1 : (2 * a + s) / 2 = a := by omega
    have e2 : (2 * b + s) / 2 = b := by omega
    have e3 : (2 * a + s) % 2 = s := by omega
    have e4 : (2 * b + s) % 2 = s := by omega
    unfold relabelHalf
    rw [e1, e2, e3, e4]
    by_cases h : b = a <;> simp [h]

/-- **C17 on one state** -/
structure SwapsRelabel (k : Kernel) : Prop where
  -- vertices
  v_iso : ∀ a b, a < k.nV → b < k.nV → LogIso k (k.swapVertex a b) ⟨relabelId a b, id, id, id⟩
  v_record : ∀ a b, a < k.nV → b < k.nV → a ≠ b →
    k.swapVertex a b = { relabelVertexSpec k a b with edges := (k.swapVertex a b).edges } ∧
    (k.swapVertex a b).edges.length = k.edges.length ∧
    ∀ e, e < k.nE → (k.vBU = true → k.liveE e = true) → (k.swapVertex a b).edgeAt e = relabelEdgeV a b (k.edgeAt e)
  v_stale : k.vBU = true → ∀ a b, a < k.nV → b < k.nV → a ≠ b → ∀ e, k.liveE e = false →
    (k.swapVertex a b).edgeAt e = k.edgeAt e
  v_scan : k.vBU = false → ∀ a b, a < k.nV → b < k.nV → a ≠ b → k.swapVertex a b = relabelVertexSpec k a b
  v_exact : NoFlag k.eDel → ∀ a b, a < k.nV → b < k.nV → a ≠ b → k.swapVertex a b = relabelVertexSpec k a b
  v_twice : ∀ a b, a < k.nV → b < k.nV → (k.swapVertex a b).swapVertex a b = k
  v_inv : ∀ a b, a < k.nV → b < k.nV → GInv (k.swapVertex a b)
  -- edges
  e_iso : ∀ a b, a < k.nE → b < k.nE → LogIso k (k.swapEdge a b) ⟨id, relabelId a b, id, id⟩
  e_record : ∀ a b, a < k.nE → b < k.nE → a ≠ b →
    k.swapEdge a b = { relabelEdgeSpec k a b with faces := (k.swapEdge a b).faces } ∧
    (k.swapEdge a b).faces.length = k.faces.length ∧
    ∀ f, (k.eBU = true → k.liveF f = true) → (k.swapEdge a b).faceAt f = (k.faceAt f).map (relabelHalf a b)
  e_stale : k.eBU = true → ∀ a b, a < k.nE → b < k.nE → a ≠ b → ∀ f, k.liveF f = false →
    (k.swapEdge a b).faceAt f = k.faceAt f
  e_scan : k.eBU = false → ∀ a b, a < k.nE → b < k.nE → a ≠ b → k.swapEdge a b = relabelEdgeSpec k a b
  e_exact : NoFlag k.fDel → ∀ a b, a < k.nE → b < k.nE → a ≠ b → k.swapEdge a b = relabelEdgeSpec k a b
  e_twice : ∀ a b, a < k.nE → b < k.nE → (k.swapEdge a b).swapEdge a b = k
  e_inv : ∀ a b, a < k.nE → b < k.nE → GInv (k.swapEdge a b)
  -- faces
  f_iso : ∀ a b, a < k.nF → b < k.nF → LogIso k (k.swapFace a b) ⟨id, id, relabelId a b, id⟩
  f_record : ∀ a b, a < k.nF → b < k.nF → a ≠ b →
    k.swapFace a b = { relabelFaceSpec k a b with cells := (k.swapFace a b).cells } ∧
    (k.swapFace a b).cells.length = k.cells.length ∧
    ∀ c, (k.fBU = true → k.liveC c = true) → (k.swapFace a b).cellAt c = (k.cellAt c).map (relabelHalf a b)
  f_stale : k.fBU = true → ∀ a b, a < k.nF → b < k.nF → a ≠ b → ∀ c, k.liveC c = false →
    (k.swapFace a b).cellAt c = k.cellAt c
  f_scan : k.fBU = false → ∀ a b, a < k.nF → b < k.nF → a ≠ b → k.swapFace a b = relabelFaceSpec k a b
  f_exact : NoFlag k.cDel → ∀ a b, a < k.nF → b < k.nF → a ≠ b → k.swapFace a b = relabelFaceSpec k a b
  f_twice : ∀ a b, a < k.nF → b < k.nF → (k.swapFace a b).swapFace a b = k
  f_inv : ∀ a b, a < k.nF → b < k.nF → GInv (k.swapFace a b)
  -- cells (nothing is stored above cells: the record is the specification, always)
  c_iso : ∀ a b, a < k.nC → b < k.nC → LogIso k (k.swapCell a b) ⟨id, id, id, relabelId a b⟩
  c_exact : ∀ a b, a ≠ b → k.swapCell a b = relabelCellSpec k a b
  c_twice : ∀ a b, a < k.nC → b < k.nC → (k.swapCell a b).swapCell a b = k
  c_inv : ∀ a b, a < k.nC → b < k.nC → GInv (k.swapCell a b)
  -- swapping a handle with itself
  self : ∀ a, k.swapVertex a a = k ∧ k.swapEdge a a = k ∧ k.swapFace a a = k ∧ k.swapCell a a = k

theorem swap_is_relabeling (k : Kernel) (hi : GInv k) : SwapsRelabel k := by
  have hw := hi.wf
  have h1 := hi.one
  refine
    { v_iso := fun a b ha hb => Logical.swapV' ha hb hw
      v_record := fun a b ha hb hab => ?_
      v_stale := fun hbu a b ha hb hab e he => Global.swapVertex_edgeAt_flagged hab ha hb hw.cache.v hbu he
      v_scan := fun hbu a b ha hb hab => swapVertex_eq_spec ha hb hab hw (fun h => by rw [hbu] at h; cases h)
      v_exact := fun hn a b ha hb hab => swapVertex_eq_spec ha hb hab hw (fun _ => hn)
      v_twice := fun a b ha hb => Global.swapVertex_twice ha hb hw
      v_inv := fun a b ha hb => ginv_step k (.swapVertex a b) hi ⟨ha, hb⟩
      e_iso := fun a b ha hb => Logical.swapE' ha hb hw
      e_record := fun a b ha hb hab => ?_
      e_stale := fun hbu a b ha hb hab f hf => Global.swapEdge_faceAt_flagged hab ha hb hw.cache.e hbu hf
      e_scan := fun hbu a b ha hb hab => swapEdge_eq_spec ha hb hab hw (fun h => by rw [hbu] at h; cases h)
      e_exact := fun hn a b ha hb hab => swapEdge_eq_spec ha hb hab hw (fun _ => hn)
      e_twice := fun a b ha hb => Global.swapEdge_twice ha hb hw
      e_inv := fun a b ha hb => ginv_step k (.swapEdge a b) hi ⟨ha, hb⟩
      f_iso := fun a b ha hb => Logical.swapF' ha hb hw h1
      f_record := fun a b ha hb hab => ?_
      f_stale := fun hbu a b _ _ hab c hc => Global.swapFace_cellAt_flagged hab hw.cache.f hbu hc
      f_scan := fun hbu a b ha hb hab =>
        swapFace_eq_spec ha hb hab hw (fun _ => h1) (fun h => by rw [hbu] at h; cases h)
      f_exact := fun hn a b ha hb hab => swapFace_eq_spec ha hb hab hw (fun _ => h1) (fun _ => hn)
      f_twice := fun a b ha hb => Global.swapFace_twice ha hb hw h1
      f_inv := fun a b ha hb => ginv_step k (.swapFace a b) hi ⟨ha, hb⟩
      c_iso := fun a b ha hb => Logical.swapC' ha hb hw
      c_exact := fun a b hab => swapCell_eq_spec hab hw
      c_twice := fun a b ha hb => Global.swapCell_twice ha hb hw h1
      c_inv := fun a b ha hb => ginv_step k (.swapCell a b) hi ⟨ha, hb⟩
      self := fun a => ⟨swapVertex_self k a, swapEdge_self k a, swapFace_self k a, swapCell_self k a⟩ }
  · obtain ⟨e1, e2, _⟩ := swapVertex_eq_spec_live ha hb hab hw
    exact ⟨e1, e2, fun e he hl => swapVertex_edgeAt_live hab ha hb hw.cache.v he hl⟩
  · obtain ⟨e1, e2, _⟩ := swapEdge_eq_spec_live ha hb hab hw
    exact ⟨e1, e2, fun f hf => swapEdge_faceAt_live hab ha hb hw.cache.e hf⟩
  · obtain ⟨e1, e2, _⟩ := swapFace_eq_spec_live ha hb hab hw (fun _ => h1)
    exact ⟨e1, e2, fun c hc => swapFace_cellAt_live hab ha hb hw.cache.f (fun _ => h1) hc⟩

/-- **C17 on every reachable state**: after every history of valid calls from the empty mesh (all deletion modes, all
    bottom-up configurations, pending deferred deletions included) each of the four index swaps is a pure relabeling
    in the sense of `SwapsRelabel`, `swap a a` is the identity and swapping twice restores the exact state -/
theorem swap_is_relabeling_on_reachable_states (ops : List Op) (hr : Global.HistoryOK {} ops) :
    SwapsRelabel (run {} ops) := swap_is_relabeling _ (ginv_reachable ops hr)

/-- a second swap undoes the first also in logical terms: the composite renumbering is the identity -/
theorem swap_twice_renumbering (a b x : Nat) : relabelId a b (relabelId a b x) = x ∧ relabelHalf a b (relabelHalf a b x) = x :=
  ⟨relabelId_involutive a b x, relabelHalf_involutive a b x⟩

/-! ### non-vacuity -/

/-- two glued tetrahedra, then (deferred mode) `delete_face(6)` and `delete_edge(0)`: faces 0 1 4 6, both cells and edge 0
    are flagged and still stored -/
def swapOps : List Op :=
  [.addNVertices 6, .addFaceV [0,1,2], .addFaceV [0,3,1], .addFaceV [1,3,2], .addFaceV [0,2,3],
   .addCell true [0,2,4,6],
   .addFaceV [0,1,4], .addFaceV [1,2,4], .addFaceV [2,0,4], .addCell true [1,8,10,12],
   .deleteFace 6, .deleteEdge 0]

set_option maxRecDepth 1000000 in
/-- the history is valid, so the bundle applies to its end state `k` (flags pending on every level).  There:
    `swap_edge_indices(0,5)` — edge 0 flagged, edge 5 live — differs from the specification exactly in the stale
    definition of the flagged face 0 (`[0,2,4]` kept, the specification has `[10,2,4]`), the live face 2 is renamed;
    `swap_vertex_indices(0,4)` leaves the flagged edge 0 `(0,1)` alone; and the instances of the bundle: twice = `k`
    (exactly), the logical mesh is relabelled, the stale definition is the old one -/
example :
    let k := run {} swapOps
    SwapsRelabel k ∧ k.fDel = [true, true, false, false, true, false, true] ∧ k.eDel.getD 0 false = true ∧
    (k.swapEdge 0 5).faceAt 0 = [0, 2, 4] ∧ (relabelEdgeSpec k 0 5).faceAt 0 = [10, 2, 4] ∧
    (k.swapEdge 0 5).faceAt 2 = [9, 0, 3] ∧ k.faceAt 2 = [9, 10, 3] ∧ k.swapEdge 0 5 ≠ relabelEdgeSpec k 0 5 ∧
    (k.swapVertex 0 4).edgeAt 0 = (0, 1) ∧ (k.swapVertex 0 4).edgeAt 7 = (0, 4) ∧ k.edgeAt 7 = (4, 0) ∧
    (k.swapEdge 0 5).swapEdge 0 5 = k ∧ (k.swapFace 4 6).swapFace 4 6 = k ∧ (k.swapVertex 0 4).swapVertex 0 4 = k ∧
    (k.swapCell 0 1).swapCell 0 1 = k ∧
    Logical.LogIso k (k.swapEdge 0 5) ⟨id, relabelId 0 5, id, id⟩ ∧ (k.swapEdge 0 5).faceAt 0 = k.faceAt 0 := by
  intro k
  have h : SwapsRelabel k := swap_is_relabeling_on_reachable_states swapOps (historyOK_of_B {} swapOps (by decide))
  exact ⟨h, by decide, by decide, by decide, by decide, by decide, by decide, by decide, by decide, by decide, by decide,
    h.e_twice 0 5 (by decide) (by decide), h.f_twice 4 6 (by decide) (by decide), h.v_twice 0 4 (by decide) (by decide),
    h.c_twice 0 1 (by decide) (by decide), h.e_iso 0 5 (by decide) (by decide),
    h.e_stale (by decide) 0 5 (by decide) (by decide) (by decide) 0 (by decide)⟩

end OVM.Props.C17

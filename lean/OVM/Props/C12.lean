import OVM.Kernel.Frames
import OVM.Props.C17
/-
  C12 — bottom-up incidences are optional.
  Proved here (every state, every handle pair):
  * with the incidence kind that guides a swap disabled, the linear-scan variant relabels
    *every* definition: it equals the specification "apply the transposition everywhere"
    (`swapFace`: all cells, `swapEdge`: all faces, `swapVertex`: all edges), because the scan's
    filter only skips definitions on which the relabeling is the identity;
  * no operation other than `enable_*_bottom_up_incidences` changes which kinds are enabled;
  * disabling a kind empties exactly its cache; a swap / delete with a kind disabled never
    reads or writes that kind's cache (the cache stays `[]`).
  Equality of the cache-guided variants with the same specification needs the cache invariant
  and is on the refinement ladder (rung B); it is exercised by the paired-run correspondence.
-/
namespace OVM.Props.C12
open OVM OVM.Kernel

/-- `relabelHalf` is the identity on a list that mentions neither face -/
theorem map_relabelHalf_id (a b : Nat) (l : List Nat)
    (h : l.any (fun hf => hf / 2 == a || hf / 2 == b) = false) : l.map (relabelHalf a b) = l := by
  induction l with
  | nil => rfl
  | cons x t ih =>
    simp only [List.any_cons, Bool.or_eq_false_iff, beq_eq_false_iff_ne, ne_eq] at h
    simp only [List.map_cons]
    rw [ih h.2]
    congr 1
    unfold relabelHalf
    simp [h.1.1, h.1.2]

/-- linear-scan `swap_face_indices` (face incidences off) relabels every cell definition -/
theorem swapFace_scan_cells (k : Kernel) (a b : Nat) (hf : k.fBU = false) (hab : a ≠ b) :
    (k.swapFace a b).cells = k.cells.map (·.map (relabelHalf a b)) := by
  have hne : (a == b) = false := by simp [hab]
  simp only [swapFace, hne, hf, Bool.false_eq_true, if_false]
  unfold nC cellAt
  apply foldl_modify_filter_eq_map
  intro i hi hp
  apply map_relabelHalf_id
  simpa [List.getD_eq_getElem?_getD, List.getElem?_eq_getElem hi] using hp

/-- linear-scan `swap_edge_indices` (edge incidences off) relabels every face definition -/
theorem swapEdge_scan_faces (k : Kernel) (a b : Nat) (he : k.eBU = false) (hab : a ≠ b) :
    (k.swapEdge a b).faces = k.faces.map (·.map (relabelHalf a b)) := by
  have hne : (a == b) = false := by simp [hab]
  simp only [swapEdge, hne, he, Bool.false_eq_true, if_false]
  unfold nF faceAt
  apply foldl_modify_filter_eq_map
  intro i hi hp
  apply map_relabelHalf_id
  simpa [List.getD_eq_getElem?_getD, List.getElem?_eq_getElem hi] using hp

/-- linear-scan `swap_vertex_indices` relabels every edge definition -/
theorem swapVertex_scan_edges (k : Kernel) (a b : Nat) (hv : k.vBU = false) (hab : a ≠ b) :
    (k.swapVertex a b).edges = k.edges.map (relabelEdgeV a b) := by
  have hne : (a == b) = false := by simp [hab]
  simp [swapVertex, hne, hv]

/-- a swap with its cache kind disabled leaves that (empty) cache alone -/
theorem swaps_do_not_touch_disabled_caches (k : Kernel) (a b : Nat) :
    (k.vBU = false → (k.swapVertex a b).outHes = k.outHes ∧ (k.swapEdge a b).outHes = k.outHes) ∧
    (k.eBU = false → (k.swapEdge a b).incHfs = k.incHfs ∧ (k.swapFace a b).incHfs = k.incHfs) ∧
    (k.fBU = false → (k.swapFace a b).incCell = k.incCell ∧ (k.swapCell a b).incCell = k.incCell) := by
  refine ⟨fun h => ⟨?_, ?_⟩, fun h => ⟨?_, ?_⟩, fun h => ⟨?_, ?_⟩⟩
  · unfold swapVertex; split <;> simp [h]
  · unfold swapEdge; split <;> simp [h]
  · unfold swapEdge; split <;> simp [h]
  · unfold swapFace; split <;> simp [h]
  · unfold swapFace; split <;> simp [h]
  · unfold swapCell; split <;> simp [h]

/-- disabling a kind empties exactly its cache and changes no definition -/
theorem disable_clears_only_its_cache (k : Kernel) :
    (k.enableVBU false).outHes = [] ∧ (k.enableVBU false).vBU = false ∧ (k.enableVBU false).edges = k.edges ∧
    (k.enableEBU false).incHfs = [] ∧ (k.enableEBU false).eBU = false ∧ (k.enableEBU false).faces = k.faces ∧
    (k.enableFBU false).incCell = [] ∧ (k.enableFBU false).fBU = false ∧ (k.enableFBU false).cells = k.cells := by
  simp [enableVBU, enableEBU, enableFBU]

example :
    let k : Kernel := { nV := 2, edges := [(0, 1), (1, 0)], eDel := [false, false], vDel := [false, false],
                        faces := [[0, 2]], fDel := [false], cells := [[0, 1]], cDel := [false],
                        vBU := false, eBU := false, fBU := false }
    (k.swapEdge 0 1).faces = [[2, 0]] ∧ (k.swapFace 0 0).cells = [[0, 1]] := by decide

end OVM.Props.C12

import OVM.Kernel.Delete
/-
  M: the lists the iterator / circulator constructors build, and the queries derived from
  the caches (src/OpenVolumeMesh/Core/Iterators/*.cc, TopologyKernel.hh:1028-1118).
  `none` = the constructor comes back invalid because a needed incidence kind is disabled.
-/
namespace OVM
namespace Kernel

def fullBU (k : Kernel) : Bool := k.vBU && k.eBU && k.fBU

def qVOH (k : Kernel) (v : Nat) : List Nat := if k.vBU then k.outOf v else []
def qVIH (k : Kernel) (v : Nat) : List Nat := (k.qVOH v).map opp
def qVE (k : Kernel) (v : Nat) : List Nat := (k.qVOH v).map eOf
def qVV (k : Kernel) (v : Nat) : List Nat := (k.qVOH v).map k.toV
def qHEHF (k : Kernel) (h : Nat) : List Nat := if k.eBU then k.hfsOf h else []
def qEHF (k : Kernel) (e : Nat) : List Nat := (k.qHEHF (heOf e 0)).flatMap (fun hf => [hf, opp hf])
def qVHF (k : Kernel) (v : Nat) : List Nat := sortUniq ((k.qVE v).flatMap k.qEHF)
def qVF (k : Kernel) (v : Nat) : List Nat :=
  if k.fullBU then sortUniq (((k.outOf v).flatMap k.hfsOf).map eOf) else []
def qVC (k : Kernel) (v : Nat) : List Nat :=
  if k.fullBU then sortUniq (((k.outOf v).flatMap k.hfsOf).filterMap k.cellOf) else []
def qHEF (k : Kernel) (h : Nat) : List Nat := sortUniq ((k.qHEHF h).map eOf)
def qEF (k : Kernel) (e : Nat) : List Nat := k.qHEF (heOf e 0)
def qHEC (k : Kernel) (h : Nat) : List Nat :=
  if k.eBU && k.fBU then dedupKeep ((k.hfsOf h).filterMap k.cellOf) else []
def qEC (k : Kernel) (e : Nat) : List Nat := k.qHEC (heOf e 0)
def qCC (k : Kernel) (c : Nat) : List Nat :=
  if k.fBU then sortUniq ((k.cellAt c).filterMap (fun hf => k.cellOf (opp hf))) else []

def qBoundaryHF (k : Kernel) (hf : Nat) : Bool := k.cellOf hf == none
def qBoundaryF (k : Kernel) (f : Nat) : Bool := k.qBoundaryHF (heOf f 0) || k.qBoundaryHF (heOf f 1)
def qBoundaryHE (k : Kernel) (h : Nat) : Bool := (k.qHEHF h).any (fun hf => k.qBoundaryF (eOf hf))
def qBoundaryE (k : Kernel) (e : Nat) : Bool := k.qBoundaryHE (heOf e 0)
def qBoundaryV (k : Kernel) (v : Nat) : Bool := (k.qVOH v).any k.qBoundaryHE
def qBoundaryC (k : Kernel) (c : Nat) : Bool := (k.cellAt c).any (fun hf => k.qBoundaryF (eOf hf))

def qValV (k : Kernel) (v : Nat) : Nat := (k.outOf v).length
def qValE (k : Kernel) (e : Nat) : Nat := (k.hfsOf (heOf e 0)).length
def qValF (k : Kernel) (f : Nat) : Nat := (k.faceAt f).length
def qValC (k : Kernel) (c : Nat) : Nat := (k.cellAt c).length

/-! boundary iterators: entity iterator filtered by `is_boundary` -/
def qBIV (k : Kernel) : List Nat := if k.fullBU then k.liveVerts.filter k.qBoundaryV else []
def qBIHE (k : Kernel) : List Nat :=
  if k.eBU && k.fBU then ((List.range k.nHE).filter (fun h => !k.eDeleted (eOf h))).filter k.qBoundaryHE else []
def qBIE (k : Kernel) : List Nat := if k.eBU && k.fBU then k.liveEdges.filter k.qBoundaryE else []
def qBIHF (k : Kernel) : List Nat :=
  if k.fBU then ((List.range k.nHF).filter (fun h => !k.fDeleted (eOf h))).filter k.qBoundaryHF else []
def qBIF (k : Kernel) : List Nat := if k.fBU then k.liveFaces.filter k.qBoundaryF else []
def qBIC (k : Kernel) : List Nat := k.liveCells.filter k.qBoundaryC

/-! the remaining circulator lists (top-down: no cache needed) -/
def qHFHE (k : Kernel) (hf : Nat) : List Nat := k.hfHes hf
def qHFV (k : Kernel) (hf : Nat) : List Nat := (k.hfHes hf).map k.fromV
def qHFE (k : Kernel) (hf : Nat) : List Nat := (k.hfHes hf).map eOf
def qFHE (k : Kernel) (f : Nat) : List Nat := k.faceAt f
def qFV (k : Kernel) (f : Nat) : List Nat := k.qHFV (heOf f 0)
def qFE (k : Kernel) (f : Nat) : List Nat := (k.faceAt f).map eOf
def qCHF (k : Kernel) (c : Nat) : List Nat := k.cellAt c
def qCF (k : Kernel) (c : Nat) : List Nat := (k.cellAt c).map eOf
def qCHE (k : Kernel) (c : Nat) : List Nat := (k.cellAt c).flatMap k.hfHes
def qCE (k : Kernel) (c : Nat) : List Nat := sortUniq ((k.qCHE c).map eOf)
def qCV (k : Kernel) (c : Nat) : List Nat := sortUniq ((k.cellAt c).flatMap (fun hf => k.qFV (eOf hf)))
/-- BoundaryHalfFaceHalfFaceIter: boundary halffaces around the opposite halfedges -/
def qBHFHF (k : Kernel) (hf : Nat) : List Nat :=
  if k.fBU then (k.hfHes hf).flatMap (fun he => (k.qHEHF (opp he)).filter k.qBoundaryHF) else []

end Kernel
end OVM

import OVM.Kernel.Swap
/-
  M: deletion (`delete_*`, `delete_*_core`), `collect_garbage`, deferred/fast switches,
  bottom-up incidence (re)computation, `clear`.  TopologyKernel.cc:608-1429, 1794-1800,
  2292-2376; TopologyKernel.hh:860-967.
-/
namespace OVM
namespace Kernel

def liveEdges (k : Kernel) : List Nat := (List.range k.nE).filter (fun e => !k.eDeleted e)
def liveFaces (k : Kernel) : List Nat := (List.range k.nF).filter (fun f => !k.fDeleted f)
def liveCells (k : Kernel) : List Nat := (List.range k.nC).filter (fun c => !k.cDeleted c)
def liveVerts (k : Kernel) : List Nat := (List.range k.nV).filter (fun v => !k.vDeleted v)

/-- cc:793-826 -/
def incidentEdges (k : Kernel) (vs : List Nat) : List Nat :=
  if k.vBU then toSet (vs.flatMap (fun v => (k.outOf v).map eOf))
  else toSet (vs.flatMap (fun v => k.liveEdges.filter (fun e =>
    let ed := k.edgeAt e; ed.1 == v || ed.2 == v)))

/-- cc:831-870 -/
def incidentFaces (k : Kernel) (es : List Nat) : List Nat :=
  if k.eBU then toSet (es.flatMap (fun e => (k.hfsOf (heOf e 0)).map eOf))
  else toSet (es.flatMap (fun e => k.liveFaces.filter (fun f => (k.faceAt f).any (fun h => eOf h == e))))

/-- cc:875-915 -/
def incidentCells (k : Kernel) (fs : List Nat) : List Nat :=
  if k.fBU then toSet (fs.flatMap (fun f => [k.cellOf (heOf f 0), k.cellOf (heOf f 1)].filterMap id))
  else toSet (fs.flatMap (fun f => k.liveCells.filter (fun c => (k.cellAt c).any (fun hf => eOf hf == f))))

/-- `HEHandleCorrection` / `HFHandleCorrection`: `if (h > thld) h -= 2` -/
def corr2 (thld h : Nat) : Nat := if h > thld then h - 2 else h
/-- `VHandleCorrection` / `CHandleCorrection`: `if (h > thld) h -= 1` -/
def corr1 (thld h : Nat) : Nat := if h > thld then h - 1 else h

/-- cc:1359-1429 -/
def deleteCellCore (k : Kernel) (h0 : Nat) : Kernel :=
  let (k, h) := if k.fast && !k.deferred then (k.swapCell h0 (k.nC - 1), k.nC - 1) else (k, h0)
  let k := if k.fBU then
      let hfs := k.cellAt h
      let k1 := { k with incCell := hfs.foldl (fun ic hf => if ic.getD hf none == some h then ic.set hf none else ic) k.incCell }
      let es := toSet ((hfs.flatMap k.hfHes).map eOf)
      if k1.eBU then es.foldl reorder k1 else k1
    else k
  if k.deferred then
    { k with nDelC := k.nDelC + 1, cDel := k.cDel.set h true }
  else
    let k := if !k.fast && k.fBU then
        { k with incCell := k.incCell.map (·.map (corr1 h)) } else k
    { k with cells := k.cells.eraseIdx h, cDel := k.cDel.eraseIdx h, props := cellDeleted k.props h }

/-- cc:1206-1340 -/
def deleteFaceCore (k : Kernel) (h0 : Nat) : Kernel :=
  let (k, h) := if k.fast && !k.deferred then (k.swapFace h0 (k.nF - 1), k.nF - 1) else (k, h0)
  let k := if k.eBU then
      (k.faceAt h).foldl (fun k he =>
        let inc := (k.incHfs.modify he (removeAll · (heOf h 0))).modify (opp he) (removeAll · (heOf h 1))
        let k1 := { k with incHfs := inc }
        if k1.fBU then k1.reorder (eOf he) else k1) k
    else k
  if k.deferred then
    { k with nDelF := k.nDelF + 1, fDel := k.fDel.set h true }
  else
    let fix := fun (hfs : List Nat) => ((hfs.filter (· != heOf h 0)).filter (· != heOf h 1)).map (corr2 (heOf h 1))
    let k := if !k.fast then
        let cs := if k.fBU then toSet ((k.incCell.drop (heOf h 0)).filterMap id) else k.liveCells
        { k with cells := cs.foldl (fun cl c => cl.modify c fix) k.cells }
      else k
    let k := if k.fBU then { k with incCell := (k.incCell.eraseIdx (heOf h 1)).eraseIdx (heOf h 0) } else k
    let k := if !k.fast && k.eBU then { k with incHfs := k.incHfs.map (·.map (corr2 (heOf h 1))) } else k
    { k with faces := k.faces.eraseIdx h, fDel := k.fDel.eraseIdx h, props := faceDeleted k.props h }

/-- cc:1041-1183 -/
def deleteEdgeCore (k : Kernel) (h0 : Nat) : Kernel :=
  let (k, h) := if k.fast && !k.deferred then (k.swapEdge h0 (k.nE - 1), k.nE - 1) else (k, h0)
  let k := if k.vBU then
      let (v0, v1) := k.edgeAt h
      let o := k.outHes.modify v0 (removeAll · (heOf h 0))
      { k with outHes := o.modify v1 (removeAll · (heOf h 1)) }
    else k
  if k.deferred then
    { k with nDelE := k.nDelE + 1, eDel := k.eDel.set h true }
  else
    let fix := fun (hes : List Nat) => ((hes.filter (· != heOf h 0)).filter (· != heOf h 1)).map (corr2 (heOf h 1))
    let k := if !k.fast then
        let fs := if k.eBU then toSet (((k.incHfs.drop (heOf h 0)).flatten).map eOf) else k.liveFaces
        { k with faces := fs.foldl (fun fl f => fl.modify f fix) k.faces }
      else k
    let k := if k.eBU then { k with incHfs := (k.incHfs.eraseIdx (heOf h 1)).eraseIdx (heOf h 0) } else k
    let k := if !k.fast && k.vBU then { k with outHes := k.outHes.map (·.map (corr2 (heOf h 1))) } else k
    { k with edges := k.edges.eraseIdx h, eDel := k.eDel.eraseIdx h, props := edgeDeleted k.props h }

/-- sequential relabeling loop of the cache-guided vertex shift (cc:965-978) -/
def shiftVertsBU (k : Kernel) (h : Nat) : List (Nat × Nat) :=
  ((List.range (k.nV - h)).map (· + h)).foldl (fun ed i =>
    (k.outOf i).foldl (fun ed he =>
      ed.modify (eOf he) (fun e => (if e.1 == i then i - 1 else e.1, if e.2 == i then i - 1 else e.2))) ed) k.edges

/-- cc:936-1018 -/
def deleteVertexCore (k : Kernel) (h0 : Nat) : Kernel :=
  let (k, h) := if k.fast && !k.deferred then (k.swapVertex h0 (k.nV - 1), k.nV - 1) else (k, h0)
  if k.deferred then
    { k with nDelV := k.nDelV + 1, vDel := k.vDel.set h true }
  else
    let edges := if k.vBU then k.shiftVertsBU h
      else k.liveEdges.foldl (fun ed e => ed.modify e (fun p => (corr1 h p.1, corr1 h p.2))) k.edges
    let k := { k with edges := edges }
    let k := if k.vBU then { k with outHes := k.outHes.eraseIdx h } else k
    { k with nV := k.nV - 1, vDel := k.vDel.eraseIdx h, props := vertexDeleted k.props h }

def deleteCell (k : Kernel) (c : Nat) : Kernel := k.deleteCellCore c

def deleteFace (k : Kernel) (f : Nat) : Kernel :=
  let cs := k.incidentCells [f]
  let k := cs.reverse.foldl deleteCellCore k
  k.deleteFaceCore f

def deleteEdge (k : Kernel) (e : Nat) : Kernel :=
  let fs := k.incidentFaces [e]
  let cs := k.incidentCells fs
  let k := cs.reverse.foldl deleteCellCore k
  let k := fs.reverse.foldl deleteFaceCore k
  k.deleteEdgeCore e

def deleteVertex (k : Kernel) (v : Nat) : Kernel :=
  let es := k.incidentEdges [v]
  let fs := k.incidentFaces es
  let cs := k.incidentCells fs
  let k := cs.reverse.foldl deleteCellCore k
  let k := fs.reverse.foldl deleteFaceCore k
  let k := es.reverse.foldl deleteEdgeCore k
  k.deleteVertexCore v

/-- one sweep of `collect_garbage`: indices `n-1 … 0`, deleting the flagged ones -/
def gcSweep (k : Kernel) (n : Nat) (isDel : Kernel → Nat → Bool) (unflag : Kernel → Nat → Kernel)
    (core : Kernel → Nat → Kernel) : Kernel :=
  (List.range n).reverse.foldl (fun k i => if isDel k i then core (unflag k i) i else k) k

/-- cc:743-788 -/
def collectGarbage (k : Kernel) : Kernel :=
  if !k.deferred || !k.needsGC then k else
  let k := { k with deferred := false }
  let k := gcSweep k k.nC cDeleted (fun k i => { k with cDel := k.cDel.set i false }) deleteCellCore
  let k := { k with nDelC := 0 }
  let k := gcSweep k k.nF fDeleted (fun k i => { k with fDel := k.fDel.set i false }) deleteFaceCore
  let k := { k with nDelF := 0 }
  let k := gcSweep k k.nE eDeleted (fun k i => { k with eDel := k.eDel.set i false }) deleteEdgeCore
  let k := { k with nDelE := 0 }
  let k := gcSweep k k.nV vDeleted (fun k i => { k with vDel := k.vDel.set i false }) deleteVertexCore
  let k := { k with nDelV := 0 }
  { k with deferred := true }

/-- cc:1794-1800 -/
def enableDeferred (k : Kernel) (b : Bool) : Kernel :=
  let k := if k.deferred && !b then k.collectGarbage else k
  { k with deferred := b }

def enableFast (k : Kernel) (b : Bool) : Kernel := { k with fast := b }

/-- cc:2292-2324 -/
def computeVBU (k : Kernel) : List (List Nat) :=
  k.liveEdges.foldl (fun o e =>
    let ed := k.edgeAt e
    (o.modify ed.1 (· ++ [heOf e 0])).modify ed.2 (· ++ [heOf e 1])) (List.replicate k.nV [])

/-- cc:2328-2352 -/
def computeEBU (k : Kernel) : List (List Nat) :=
  k.liveFaces.foldl (fun inc f =>
    (k.faceAt f).foldl (fun inc h =>
      (inc.modify h (· ++ [heOf f 0])).modify (opp h) (· ++ [heOf f 1])) inc) (List.replicate k.nHE [])

/-- cc:2356-2376 -/
def computeFBU (k : Kernel) : List (Option Nat) :=
  k.liveCells.foldl (fun ic c =>
    (k.cellAt c).foldl (fun ic hf => if ic.getD hf none == none then ic.set hf (some c) else ic) ic)
    (List.replicate k.nHF none)

def reorderAll (k : Kernel) : Kernel := k.liveEdges.foldl reorder k

/-- hh:900-912 -/
def enableVBU (k : Kernel) (b : Bool) : Kernel :=
  let k := if b && !k.vBU then { k with outHes := k.computeVBU } else k
  let k := if !b then { k with outHes := [] } else k
  { k with vBU := b }

/-- hh:914-934 -/
def enableEBU (k : Kernel) (b : Bool) : Kernel :=
  let k := if b && !k.eBU then
      let k1 := { k with incHfs := k.computeEBU }
      if k1.fBU then k1.reorderAll else k1
    else k
  let k := if !b then { k with incHfs := [] } else k
  { k with eBU := b }

/-- hh:936-959 -/
def enableFBU (k : Kernel) (b : Bool) : Kernel :=
  let upd := b && !k.fBU
  let k := if upd then { k with incCell := k.computeFBU } else k
  let k := if !b then { k with incCell := [] } else k
  let k := { k with fBU := b }
  if upd && k.eBU then k.reorderAll else k

/-- hh:860-890.  `clearProps = true` detaches every storage (`clear_all_props`). -/
def clear (k : Kernel) (clearProps : Bool) : Kernel :=
  { k with nV := 0, edges := [], faces := [], cells := [],
           vDel := [], eDel := [], fDel := [], cDel := [],
           nDelV := 0, nDelE := 0, nDelF := 0, nDelC := 0,
           outHes := [], incHfs := [], incCell := [],
           props := if clearProps then {} else
             { (resizeC (resizeF (resizeE (resizeV k.props 0) 0) 0) 0) with m := k.props.m } }

end Kernel
end OVM

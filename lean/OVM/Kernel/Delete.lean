import OVM.Kernel.Swap
/-
  M: deletion (`delete_*`, `delete_*_core`), `collect_garbage`, deferred/fast switches,
  bottom-up incidence (re)computation, `clear`.  TopologyKernel.cc:608-1429, 1794-1800,
  2292-2376; TopologyKernel.hh:860-967.
-/
namespace OVM
namespace Kernel

def liveEdges (k : Kernel) : List Nat := (List.range k.nE).filter (fun e => !k.eDeleted e)
def liveFaces (k : Kernel) : List Nat := (List.range k.nF).filter (fun f => !k.fDeleted f)
def liveCells (k : Kernel) : List Nat := (List.range k.nC).filter (fun c => !k.cDeleted c)
def liveVerts (k : Kernel) : List Nat := (List.range k.nV).filter (fun v => !k.vDeleted v)

/-- cc:793-826 -/
def incidentEdges (k : Kernel) (vs : List Nat) : List Nat :=
  if k.vBU then toSet (vs.flatMap (fun v => (k.outOf v).map eOf))
  else toSet (vs.flatMap (fun v => k.liveEdges.filter (fun e =>
    let ed := k.edgeAt e; ed.1 == v || ed.2 == v)))

/-- cc:831-870 -/
def incidentFaces (k : Kernel) (es : List Nat) : List Nat :=
  if k.eBU then toSet (es.flatMap (fun e => (k.hfsOf (heOf e 0)).map eOf))
  else toSet (es.flatMap (fun e => k.liveFaces.filter (fun f => (k.faceAt f).any (fun h => eOf h == e))))

/-- cc:875-915 -/
def incidentCells (k : Kernel) (fs : List Nat) : List Nat :=
  if k.fBU then toSet (fs.flatMap (fun f => [k.cellOf (heOf f 0), k.cellOf (heOf f 1)].filterMap id))
  else toSet (fs.flatMap (fun f => k.liveCells.filter (fun c => (k.cellAt c).any (fun hf => eOf hf == f))))

/-- `HEHandleCorrection` / `HFHandleCorrection`: `if (h > thld) h -= 2` -/
def corr2 (thld h : Nat) : Nat := if h > thld then h - 2 else h
/-- `VHandleCorrection` / `CHandleCorrection`: `if (h > thld) h -= 1` -/
def corr1 (thld h : Nat) : Nat := if h > thld then h - 1 else h

/-! Each `delete_*_core` is: (fast mode) swap the victim to the last slot; unlink it from the
    caches; then either flag it (deferred) or erase the slot and renumber. -/

/-- cc:1375-1393: clear the cell's halfface links, re-order the fans of its edges -/
def unlinkCell (k : Kernel) (h : Nat) : Kernel :=
  if k.fBU then
    let hfs := k.cellAt h
    let k1 := { k with incCell := hfs.foldl (fun ic hf => if ic.getD hf none == some h then ic.set hf none else ic) k.incCell }
    if k1.eBU then (toSet ((hfs.flatMap k.hfHes).map eOf)).foldl reorder k1 else k1
  else k

def flagCell (k : Kernel) (h : Nat) : Kernel := { k with nDelC := k.nDelC + 1, cDel := k.cDel.set h true }

/-- cc:1407-1427 -/
def eraseCell (k : Kernel) (h : Nat) : Kernel :=
  { k with incCell := if !k.fast && k.fBU then k.incCell.map (·.map (corr1 h)) else k.incCell,
           cells := k.cells.eraseIdx h, cDel := k.cDel.eraseIdx h, props := cellDeleted k.props h }

/-- cc:1359-1429 -/
def deleteCellCore (k : Kernel) (h0 : Nat) : Kernel :=
  let fastNow := k.fast && !k.deferred
  let k1 := if fastNow then k.swapCell h0 (k.nC - 1) else k
  let h := if fastNow then k.nC - 1 else h0
  let k2 := k1.unlinkCell h
  if k2.deferred then k2.flagCell h else k2.eraseCell h

/-- one step of cc:1222-1243: drop the two halffaces from the lists of one halfedge, re-order -/
def unlinkFaceStep (h : Nat) (k : Kernel) (he : Nat) : Kernel :=
  let k1 := { k with incHfs := (k.incHfs.modify he (removeAll · (heOf h 0))).modify (opp he) (removeAll · (heOf h 1)) }
  if k1.fBU then k1.reorder (eOf he) else k1

def unlinkFace (k : Kernel) (h : Nat) : Kernel :=
  if k.eBU then (k.faceAt h).foldl (unlinkFaceStep h) k else k

def flagFace (k : Kernel) (h : Nat) : Kernel := { k with nDelF := k.nDelF + 1, fDel := k.fDel.set h true }

/-- remove both halffaces of face `h` from a cell definition and shift the handles above -/
def fixHalfList (h : Nat) (l : List Nat) : List Nat :=
  ((l.filter (· != heOf h 0)).filter (· != heOf h 1)).map (corr2 (heOf h 1))

/-- cc:1258-1337 -/
def eraseFace (k : Kernel) (h : Nat) : Kernel :=
  let cells := if !k.fast then
      (if k.fBU then toSet ((k.incCell.drop (heOf h 0)).filterMap id) else k.liveCells).foldl
        (fun cl c => cl.modify c (fixHalfList h)) k.cells
    else k.cells
  { k with cells := cells,
           incCell := if k.fBU then (k.incCell.eraseIdx (heOf h 1)).eraseIdx (heOf h 0) else k.incCell,
           incHfs := if !k.fast && k.eBU then k.incHfs.map (·.map (corr2 (heOf h 1))) else k.incHfs,
           faces := k.faces.eraseIdx h, fDel := k.fDel.eraseIdx h, props := faceDeleted k.props h }

/-- cc:1206-1340 -/
def deleteFaceCore (k : Kernel) (h0 : Nat) : Kernel :=
  let fastNow := k.fast && !k.deferred
  let k1 := if fastNow then k.swapFace h0 (k.nF - 1) else k
  let h := if fastNow then k.nF - 1 else h0
  let k2 := k1.unlinkFace h
  if k2.deferred then k2.flagFace h else k2.eraseFace h

/-- cc:1057-1075 -/
def unlinkEdge (k : Kernel) (h : Nat) : Kernel :=
  if k.vBU then
    { k with outHes := (k.outHes.modify (k.edgeAt h).1 (removeAll · (heOf h 0))).modify (k.edgeAt h).2 (removeAll · (heOf h 1)) }
  else k

def flagEdge (k : Kernel) (h : Nat) : Kernel := { k with nDelE := k.nDelE + 1, eDel := k.eDel.set h true }

/-- cc:1090-1180 -/
def eraseEdge (k : Kernel) (h : Nat) : Kernel :=
  let faces := if !k.fast then
      (if k.eBU then toSet (((k.incHfs.drop (heOf h 0)).flatten).map eOf) else k.liveFaces).foldl
        (fun fl f => fl.modify f (fixHalfList h)) k.faces
    else k.faces
  { k with faces := faces,
           incHfs := if k.eBU then (k.incHfs.eraseIdx (heOf h 1)).eraseIdx (heOf h 0) else k.incHfs,
           outHes := if !k.fast && k.vBU then k.outHes.map (·.map (corr2 (heOf h 1))) else k.outHes,
           edges := k.edges.eraseIdx h, eDel := k.eDel.eraseIdx h, props := edgeDeleted k.props h }

/-- cc:1041-1183 -/
def deleteEdgeCore (k : Kernel) (h0 : Nat) : Kernel :=
  let fastNow := k.fast && !k.deferred
  let k1 := if fastNow then k.swapEdge h0 (k.nE - 1) else k
  let h := if fastNow then k.nE - 1 else h0
  let k2 := k1.unlinkEdge h
  if k2.deferred then k2.flagEdge h else k2.eraseEdge h

/-- sequential relabeling loop of the cache-guided vertex shift (cc:965-978) -/
def shiftVertsBU (k : Kernel) (h : Nat) : List (Nat × Nat) :=
  ((List.range (k.nV - h)).map (· + h)).foldl (fun ed i =>
    (k.outOf i).foldl (fun ed he =>
      ed.modify (eOf he) (fun e => (if e.1 == i then i - 1 else e.1, if e.2 == i then i - 1 else e.2))) ed) k.edges

def flagVertex (k : Kernel) (h : Nat) : Kernel := { k with nDelV := k.nDelV + 1, vDel := k.vDel.set h true }

/-- cc:961-1015 -/
def eraseVertex (k : Kernel) (h : Nat) : Kernel :=
  { k with edges := if k.vBU then k.shiftVertsBU h
             else k.liveEdges.foldl (fun ed e => ed.modify e (fun p => (corr1 h p.1, corr1 h p.2))) k.edges,
           outHes := if k.vBU then k.outHes.eraseIdx h else k.outHes,
           nV := k.nV - 1, vDel := k.vDel.eraseIdx h, props := vertexDeleted k.props h }

/-- cc:936-1018 -/
def deleteVertexCore (k : Kernel) (h0 : Nat) : Kernel :=
  let fastNow := k.fast && !k.deferred
  let k1 := if fastNow then k.swapVertex h0 (k.nV - 1) else k
  let h := if fastNow then k.nV - 1 else h0
  if k1.deferred then k1.flagVertex h else k1.eraseVertex h

def deleteCell (k : Kernel) (c : Nat) : Kernel := k.deleteCellCore c

def deleteFace (k : Kernel) (f : Nat) : Kernel :=
  let cs := k.incidentCells [f]
  let k := cs.reverse.foldl deleteCellCore k
  k.deleteFaceCore f

def deleteEdge (k : Kernel) (e : Nat) : Kernel :=
  let fs := k.incidentFaces [e]
  let cs := k.incidentCells fs
  let k := cs.reverse.foldl deleteCellCore k
  let k := fs.reverse.foldl deleteFaceCore k
  k.deleteEdgeCore e

def deleteVertex (k : Kernel) (v : Nat) : Kernel :=
  let es := k.incidentEdges [v]
  let fs := k.incidentFaces es
  let cs := k.incidentCells fs
  let k := cs.reverse.foldl deleteCellCore k
  let k := fs.reverse.foldl deleteFaceCore k
  let k := es.reverse.foldl deleteEdgeCore k
  k.deleteVertexCore v

/-- one sweep of `collect_garbage`: indices `n-1 … 0`, deleting the flagged ones -/
def gcSweep (k : Kernel) (n : Nat) (isDel : Kernel → Nat → Bool) (unflag : Kernel → Nat → Kernel)
    (core : Kernel → Nat → Kernel) : Kernel :=
  (List.range n).reverse.foldl (fun k i => if isDel k i then core (unflag k i) i else k) k

/-- the four sweeps of `collect_garbage` (cc:750-784), each followed by resetting its counter -/
def gcCells (k : Kernel) : Kernel :=
  { gcSweep k k.nC cDeleted (fun k i => { k with cDel := k.cDel.set i false }) deleteCellCore with nDelC := 0 }
def gcFaces (k : Kernel) : Kernel :=
  { gcSweep k k.nF fDeleted (fun k i => { k with fDel := k.fDel.set i false }) deleteFaceCore with nDelF := 0 }
def gcEdges (k : Kernel) : Kernel :=
  { gcSweep k k.nE eDeleted (fun k i => { k with eDel := k.eDel.set i false }) deleteEdgeCore with nDelE := 0 }
def gcVerts (k : Kernel) : Kernel :=
  { gcSweep k k.nV vDeleted (fun k i => { k with vDel := k.vDel.set i false }) deleteVertexCore with nDelV := 0 }

/-- cc:743-788 -/
def collectGarbage (k : Kernel) : Kernel :=
  if !k.deferred || !k.needsGC then k else
  { (gcVerts (gcEdges (gcFaces (gcCells { k with deferred := false })))) with deferred := true }

/-- cc:1794-1800 -/
def enableDeferred (k : Kernel) (b : Bool) : Kernel :=
  let k := if k.deferred && !b then k.collectGarbage else k
  { k with deferred := b }

def enableFast (k : Kernel) (b : Bool) : Kernel := { k with fast := b }

/-- cc:2292-2324 -/
def computeVBU (k : Kernel) : List (List Nat) :=
  k.liveEdges.foldl (fun o e =>
    let ed := k.edgeAt e
    (o.modify ed.1 (· ++ [heOf e 0])).modify ed.2 (· ++ [heOf e 1])) (List.replicate k.nV [])

/-- cc:2328-2352 -/
def computeEBU (k : Kernel) : List (List Nat) :=
  k.liveFaces.foldl (fun inc f =>
    (k.faceAt f).foldl (fun inc h =>
      (inc.modify h (· ++ [heOf f 0])).modify (opp h) (· ++ [heOf f 1])) inc) (List.replicate k.nHE [])

/-- cc:2356-2376 -/
def computeFBU (k : Kernel) : List (Option Nat) :=
  k.liveCells.foldl (fun ic c =>
    (k.cellAt c).foldl (fun ic hf => if ic.getD hf none == none then ic.set hf (some c) else ic) ic)
    (List.replicate k.nHF none)

def reorderAll (k : Kernel) : Kernel := k.liveEdges.foldl reorder k

/-- hh:900-912 -/
def enableVBU (k : Kernel) (b : Bool) : Kernel :=
  if b then (if k.vBU then k else { k with outHes := k.computeVBU, vBU := true })
  else { k with outHes := [], vBU := false }

/-- hh:914-934: recompute, then (if the face incidences exist) re-order every live edge -/
def enableEBU (k : Kernel) (b : Bool) : Kernel :=
  if b then
    (if k.eBU then k else
      { (if k.fBU then ({ k with incHfs := k.computeEBU }).reorderAll else { k with incHfs := k.computeEBU }) with eBU := true })
  else { k with incHfs := [], eBU := false }

/-- hh:936-959 -/
def enableFBU (k : Kernel) (b : Bool) : Kernel :=
  if b then
    (if k.fBU then k else
      (if k.eBU then ({ k with incCell := k.computeFBU, fBU := true }).reorderAll
       else { k with incCell := k.computeFBU, fBU := true }))
  else { k with incCell := [], fBU := false }

/-- hh:860-890.  `clearProps = true` additionally makes every storage private and
    non-persistent (`clear_all_props`); the storages stay tracked, so in both cases they are
    resized to zero entities (mesh properties keep their single slot). -/
def clear (k : Kernel) (_clearProps : Bool) : Kernel :=
  { k with nV := 0, edges := [], faces := [], cells := [],
           vDel := [], eDel := [], fDel := [], cDel := [],
           nDelV := 0, nDelE := 0, nDelF := 0, nDelC := 0,
           outHes := [], incHfs := [], incCell := [],
           props := resizeC (resizeF (resizeE (resizeV k.props 0) 0) 0) 0 }

end Kernel
end OVM

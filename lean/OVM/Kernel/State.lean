import OVM.Base.ListX
/-
  M — mechanism model of `TopologyKernel` (src/OpenVolumeMesh/Core/TopologyKernel.{hh,cc}).
  The record holds exactly the private fields of the C++ class; property storages are
  type-erased columns of integer tokens (what `ResourceManager` does to a storage does not
  depend on the value type).
-/
namespace OVM

/-- a property storage as the kernel sees it: default value and one slot per entity -/
structure Col where
  key  : String
  dflt : Int
  vals : List Int
deriving Repr, DecidableEq, Inhabited

/-- the seven storage trackers of `ResourceManager` -/
structure Props where
  v  : List Col := []
  e  : List Col := []
  he : List Col := []
  f  : List Col := []
  hf : List Col := []
  c  : List Col := []
  m  : List Col := []
deriving Repr, DecidableEq, Inhabited

structure Kernel where
  nV : Nat := 0
  edges : List (Nat × Nat) := []          -- (from, to)
  faces : List (List Nat) := []           -- halfedge handles
  cells : List (List Nat) := []           -- halfface handles
  vDel : List Bool := []
  eDel : List Bool := []
  fDel : List Bool := []
  cDel : List Bool := []
  nDelV : Nat := 0
  nDelE : Nat := 0
  nDelF : Nat := 0
  nDelC : Nat := 0
  deferred : Bool := true
  fast : Bool := true
  vBU : Bool := true
  eBU : Bool := true
  fBU : Bool := true
  outHes : List (List Nat) := []          -- outgoing_hes_per_vertex_
  incHfs : List (List Nat) := []          -- incident_hfs_per_he_
  incCell : List (Option Nat) := []       -- incident_cell_per_hf_ (none = InvalidCellHandle)
  props : Props := {}
  fault : Bool := false                   -- ghost: an unchecked out-of-range access happened
deriving Repr, DecidableEq, Inhabited

def Col.resize (c : Col) (n : Nat) : Col := { c with vals := resizeL c.vals n c.dflt }
def Col.erase (c : Col) (i : Nat) : Col := { c with vals := c.vals.eraseIdx i }
def Col.swap (c : Col) (i j : Nat) : Col := { c with vals := swapAt c.vals i j }

namespace Kernel

/-! ### handle arithmetic (Nat side; tied to the generated `Gen.Handles` in `Props/C08`) -/
@[inline] def heOf (e s : Nat) : Nat := 2 * e + s
@[inline] def eOf (h : Nat) : Nat := h / 2
@[inline] def opp (h : Nat) : Nat := h ^^^ 1
@[inline] def side (h : Nat) : Nat := h % 2

/-! ### counts -/
def nE (k : Kernel) : Nat := k.edges.length
def nHE (k : Kernel) : Nat := 2 * k.edges.length
def nF (k : Kernel) : Nat := k.faces.length
def nHF (k : Kernel) : Nat := 2 * k.faces.length
def nC (k : Kernel) : Nat := k.cells.length
def nLogV (k : Kernel) : Nat := k.nV - k.nDelV
def nLogE (k : Kernel) : Nat := k.nE - k.nDelE
def nLogF (k : Kernel) : Nat := k.nF - k.nDelF
def nLogC (k : Kernel) : Nat := k.nC - k.nDelC
def needsGC (k : Kernel) : Bool := k.nDelV > 0 || k.nDelE > 0 || k.nDelF > 0 || k.nDelC > 0

/-- `genus()`: integer arithmetic on the logical counts, C++ `%` and `/` on `int`. -/
def genus (k : Kernel) : Int :=
  let g : Int := 1 - ((k.nLogV : Int) - k.nLogE + k.nLogF - k.nLogC)
  if g.tmod 2 = 0 then g.tdiv 2 else -1

/-! ### definitions and their mirrored views -/
def edgeAt (k : Kernel) (e : Nat) : Nat × Nat := k.edges.getD e (0, 0)
def faceAt (k : Kernel) (f : Nat) : List Nat := k.faces.getD f []
def cellAt (k : Kernel) (c : Nat) : List Nat := k.cells.getD c []

def vDeleted (k : Kernel) (v : Nat) : Bool := k.vDel.getD v false
def eDeleted (k : Kernel) (e : Nat) : Bool := k.eDel.getD e false
def fDeleted (k : Kernel) (f : Nat) : Bool := k.fDel.getD f false
def cDeleted (k : Kernel) (c : Nat) : Bool := k.cDel.getD c false

/-- `halfedge(h)`: even side is the edge, odd side the swapped edge. -/
def halfedge (k : Kernel) (h : Nat) : Nat × Nat :=
  let e := k.edgeAt (eOf h)
  if side h = 0 then e else (e.2, e.1)
def fromV (k : Kernel) (h : Nat) : Nat := (k.halfedge h).1
def toV (k : Kernel) (h : Nat) : Nat := (k.halfedge h).2

/-- `opposite_halfface(Face)`: reversed list of opposite halfedges. -/
def oppFace (hes : List Nat) : List Nat := hes.reverse.map opp

/-- `halfface(hf).halfedges()` -/
def hfHes (k : Kernel) (hf : Nat) : List Nat :=
  let f := k.faceAt (eOf hf)
  if side hf = 0 then f else oppFace f

def outOf (k : Kernel) (v : Nat) : List Nat := k.outHes.getD v []
def hfsOf (k : Kernel) (h : Nat) : List Nat := k.incHfs.getD h []
def cellOf (k : Kernel) (hf : Nat) : Option Nat := k.incCell.getD hf none

/-! ### property-column plumbing (`ResourceManager`) -/

def resizeV (p : Props) (n : Nat) : Props := { p with v := p.v.map (·.resize n) }
def resizeE (p : Props) (n : Nat) : Props :=
  { p with e := p.e.map (·.resize n), he := p.he.map (·.resize (2 * n)) }
def resizeF (p : Props) (n : Nat) : Props :=
  { p with f := p.f.map (·.resize n), hf := p.hf.map (·.resize (2 * n)) }
def resizeC (p : Props) (n : Nat) : Props := { p with c := p.c.map (·.resize n) }

/-- `vertex_deleted(h)` -/
def vertexDeleted (p : Props) (h : Nat) : Props := { p with v := p.v.map (·.erase h) }
/-- `edge_deleted(h)`: edge slot, then halfedge `2h+1`, then halfedge `2h`. -/
def edgeDeleted (p : Props) (h : Nat) : Props :=
  { p with e := p.e.map (·.erase h), he := p.he.map (fun c => (c.erase (2 * h + 1)).erase (2 * h)) }
def faceDeleted (p : Props) (h : Nat) : Props :=
  { p with f := p.f.map (·.erase h), hf := p.hf.map (fun c => (c.erase (2 * h + 1)).erase (2 * h)) }
def cellDeleted (p : Props) (h : Nat) : Props := { p with c := p.c.map (·.erase h) }

def swapVProps (p : Props) (a b : Nat) : Props := { p with v := p.v.map (·.swap a b) }
def swapEProps (p : Props) (a b : Nat) : Props :=
  { p with e := p.e.map (·.swap a b),
           he := p.he.map (fun c => (c.swap (2 * a) (2 * b)).swap (2 * a + 1) (2 * b + 1)) }
def swapFProps (p : Props) (a b : Nat) : Props :=
  { p with f := p.f.map (·.swap a b),
           hf := p.hf.map (fun c => (c.swap (2 * a) (2 * b)).swap (2 * a + 1) (2 * b + 1)) }
def swapCProps (p : Props) (a b : Nat) : Props := { p with c := p.c.map (·.swap a b) }

end Kernel
end OVM

import OVM.Kernel.State
/-
  M: construction (`add_vertex`, `add_n_vertices`, `add_edge`, `add_face`, `add_cell`),
  `set_*`, `adjacent_halfface_in_cell`, `reorder_incident_halffaces`.
  Line references are to src/OpenVolumeMesh/Core/TopologyKernel.cc.
-/
namespace OVM
namespace Kernel

/-- TopologyKernel.cc:93-108 -/
def addVertex (k : Kernel) : Kernel × Nat :=
  let n := k.nV + 1
  ({ k with nV := n, vDel := k.vDel ++ [false],
            outHes := if k.vBU then resizeL k.outHes n [] else k.outHes,
            props := resizeV k.props n }, k.nV)

/-- TopologyKernel.cc:83-91 -/
def addNVertices (k : Kernel) (n : Nat) : Kernel :=
  let m := k.nV + n
  { k with props := resizeV k.props m, nV := m, vDel := resizeL k.vDel m false,
           outHes := if k.vBU then resizeL k.outHes m [] else k.outHes }

/-- duplicate search through the vertex cache (cc:124-140; since 8c92632 the match with the smallest edge index,
    independent of the order of the incidence list) -/
def findEdgeBU (k : Kernel) (a b : Nat) : Option Nat :=
  (((k.outOf a).filter (fun he => k.toV he == b)).map eOf).min?

/-- duplicate search by linear scan over the not-deleted edge slots (cc:135-142) -/
def findEdgeScan (k : Kernel) (a b : Nat) : Option Nat :=
  (List.range k.nE).find? (fun i =>
    let e := k.edgeAt i
    !k.eDeleted i && ((e.1 == a && e.2 == b) || (e.1 == b && e.2 == a)))

/-- the duplicate search `add_edge` performs (cc:123-143) -/
def findEdge (k : Kernel) (a b : Nat) (allowDup : Bool) : Option Nat :=
  if allowDup then none else if k.vBU then k.findEdgeBU a b else k.findEdgeScan a b

/-- store a new edge and update the caches (cc:145-168) -/
def addEdgeCore (k : Kernel) (a b : Nat) : Kernel :=
  let eh := k.nE
  let k1 := { k with edges := k.edges ++ [(a, b)], eDel := k.eDel ++ [false],
                     props := resizeE k.props (eh + 1) }
  let k2 := if k1.vBU then
      { k1 with outHes := (k1.outHes.modify a (· ++ [heOf eh 0])).modify b (· ++ [heOf eh 1]) }
    else k1
  if k2.eBU then { k2 with incHfs := resizeL k2.incHfs k2.nHE [] } else k2

/-- TopologyKernel.cc:113-169 -/
def addEdge (k : Kernel) (a b : Nat) (allowDup : Bool) : Kernel × Nat :=
  match k.findEdge a b allowDup with
  | some e => (k, e)
  | none => (k.addEdgeCore a b, k.nE)

/-- the connectivity test of `add_face` (cc:184-197); `none` = empty list -/
def faceLoopOk (k : Kernel) (hes : List Nat) : Option Bool :=
  match hes.getLast?, hes.head? with
  | some l, some h =>
    some ((List.range (hes.length - 1)).all (fun i => k.toV (hes.getD i 0) == k.fromV (hes.getD (i + 1) 0))
          && k.toV l == k.fromV h)
  | _, _ => none

/-- does `add_face(hes, chk)` accept?  (the empty list under topology check is rejected) -/
def addFaceAccepts (k : Kernel) (hes : List Nat) (chk : Bool) : Bool :=
  !chk || k.faceLoopOk hes == some true

/-- create the face and update the caches (cc:199-227) -/
def addFaceCore (k : Kernel) (hes : List Nat) : Kernel :=
  let fh := k.nF
  let k1 := { k with faces := k.faces ++ [hes], fDel := k.fDel ++ [false],
                     props := resizeF k.props (fh + 1) }
  let k2 := if k1.eBU then
      { k1 with incHfs := hes.foldl (fun inc heh =>
          (inc.modify heh (· ++ [heOf fh 0])).modify (opp heh) (· ++ [heOf fh 1])) k1.incHfs }
    else k1
  if k2.fBU then { k2 with incCell := resizeL k2.incCell k2.nHF none } else k2

/-- TopologyKernel.cc:174-227.  `none` result = `InvalidFaceHandle`. -/
def addFace (k : Kernel) (hes : List Nat) (chk : Bool) : Kernel × Option Nat :=
  if k.addFaceAccepts hes chk then (k.addFaceCore hes, some k.nF) else (k, none)

/-- `add_face(vertices)` (cc:235-267): find-or-create each edge, then unchecked `add_face`
    (the pinned build defines NDEBUG). -/
def addFaceV (k : Kernel) (vs : List Nat) : Kernel × Option Nat :=
  match vs with
  | [] => ({ k with fault := true }, none)
  | v0 :: _ =>
    let step := fun (st : Kernel × List Nat) (ab : Nat × Nat) =>
      let (k', e) := st.1.addEdge ab.1 ab.2 false
      let sw := if (k'.edgeAt e).2 == ab.1 then 1 else 0
      (k', st.2 ++ [heOf e sw])
    let pairs := vs.zip (vs.tail ++ [v0])
    let (k1, hes) := pairs.foldl step (k, [])
    k1.addFace hes false

/-! ### in-cell adjacency (cc:2210-2277) -/

/-- state of the scan over the cell's halffaces: `skipped`, `idx` -/
structure AdjSt where
  skipped : Bool := false
  idx : Option Nat := none

/-- Result of visiting one halfface of the cell: either a final answer or the new scan state. -/
def adjVisit (k : Kernel) (hf he : Nat) (st : AdjSt) (hfh : Nat) : Except (Option Nat) AdjSt :=
  if hfh == hf then
    match st.idx with
    | some i => .error (some i)
    | none => .ok { st with skipped := true }
  else
    (k.hfHes hfh).foldlM (fun (s : AdjSt) heh =>
      if opp heh == he && hfh != opp hf then
        match s.idx with
        | some _ => .error none
        | none => if s.skipped then .error (some hfh) else .ok { s with idx := some hfh }
      else .ok s) st

def adjHalffaceInCell (k : Kernel) (hf he : Nat) : Option Nat :=
  match k.cellOf hf with
  | none => none
  | some ch =>
    let hes := k.hfHes hf
    let hasHe := hes.contains he
    let hasOpp := hes.contains (opp he)
    let he' : Option Nat := if hasHe then some he else if hasOpp then some (opp he) else none
    match he' with
    | none => none
    | some he1 =>
      match (k.cellAt ch).foldlM (k.adjVisit hf he1) {} with
      | .error r => r
      | .ok _ => none

/-! ### reorder_incident_halffaces (cc:271-375) -/

def hfOnBoundaryOrDeleted (k : Kernel) (hf : Nat) : Bool :=
  match k.cellOf hf with
  | none => true
  | some c => k.cDeleted c

inductive WalkRes where
  | abort                       -- `return` without writing back
  | stop (acc : List Nat)       -- loop left by `break` / loop condition
deriving Repr

/-- first direction (do-while, cc:307-324).  `fuel` bounds the iterations; the C++ loop
    leaves as soon as `new_halffaces.size() > n`. -/
def walkFwd (k : Kernel) (heh start n : Nat) : Nat → Nat → List Nat → WalkRes
  | 0, _, _ => .abort
  | fuel + 1, cur, acc =>
    let acc := acc ++ [cur]
    if acc.length > n then .abort
    else if k.hfOnBoundaryOrDeleted cur then .stop acc
    else match k.adjHalffaceInCell cur heh with
      | none => .abort
      | some a =>
        let nxt := opp a
        if nxt == start then .stop acc else walkFwd k heh start n fuel nxt acc

/-- second direction (cc:336-356) -/
def walkBwd (k : Kernel) (hehOpp n : Nat) : Nat → Nat → List Nat → WalkRes
  | 0, _, _ => .abort
  | fuel + 1, cur, acc =>
    let cur := opp cur
    if k.hfOnBoundaryOrDeleted cur then .stop acc
    else match k.adjHalffaceInCell cur hehOpp with
      | none => .abort
      | some a =>
        let acc := a :: acc
        if acc.length > n then .abort else walkBwd k hehOpp n fuel a acc

/-- the list `reorder_incident_halffaces(e)` would write to `incident_hfs_per_he_[2e]`,
    or `none` when it leaves the lists untouched -/
def reorderList (k : Kernel) (e : Nat) : Option (List Nat) :=
  let heh := heOf e 0
  let inc := k.hfsOf heh
  let n := inc.length
  if n < 2 then none else
  match inc.head? with
  | none => none
  | some start =>
    match k.walkFwd heh start n (n + 1) start [] with
    | .abort => none
    | .stop acc =>
      let res := if acc.length != n then k.walkBwd (opp heh) n (n + 1) start acc else .stop acc
      match res with
      | .abort => none
      -- bf387da: stored only when the walk visited every cached halfface exactly once
      | .stop acc2 => if acc2.length == n && acc2.isPerm inc then some acc2 else none

/-- write-back of `std::transform(rbegin, rend, dst.begin(), opp)`: overwrites the first
    `src.length` slots of `dst` (the C++ does not resize `dst`) -/
def overwritePrefix (dst src : List Nat) : List Nat := src ++ dst.drop src.length

/-- write the ordered list back: slot `2e` gets `l`, slot `2e+1` its mirrored reverse
    (cc:360-366).  Writing more elements than the destination holds is an out-of-bounds write
    in the C++ (ghost `fault`). -/
def reorderWrite (k : Kernel) (e : Nat) (l : List Nat) : Kernel :=
  { k with
    incHfs := (k.incHfs.set (heOf e 0) l).set (heOf e 1)
      (overwritePrefix ((k.incHfs.set (heOf e 0) l).getD (heOf e 1) [])
        ((l.reverse.map opp).take ((k.incHfs.set (heOf e 0) l).getD (heOf e 1) []).length)),
    fault := k.fault || decide (((k.incHfs.set (heOf e 0) l).getD (heOf e 1) []).length < l.length) }

/-- what `reorder` writes is a permutation of what the cache held (bf387da) -/
theorem reorderList_perm (k : Kernel) (e : Nat) (l : List Nat) (h : k.reorderList e = some l) :
    l.Perm (k.hfsOf (heOf e 0)) := by
  unfold reorderList at h
  simp only at h
  split at h
  · simp at h
  · split at h
    · simp at h
    · split at h
      · simp at h
      · split at h
        · simp at h
        · split at h
          · rename_i hc
            simp only [Option.some.injEq] at h
            subst h
            simp only [Bool.and_eq_true] at hc
            exact List.isPerm_iff.mp hc.2
          · simp at h

def reorder (k : Kernel) (e : Nat) : Kernel :=
  match k.reorderList e with
  | none => k
  | some l => k.reorderWrite e l

/-! ### add_cell (cc:378-489) -/

/-- all halfedges used by the halffaces, in the C++ order of collection -/
def cellHalfedges (k : Kernel) (hfs : List Nat) : List Nat := hfs.flatMap k.hfHes

/-- the closed-surface test of `add_cell` exactly as computed (sort, adjacent_find,
    unique-by-edge) -/
def cellCheck (k : Kernel) (hfs : List Nat) : Bool :=
  let s := sortL (k.cellHalfedges hfs)
  !adjDup s && s.length == 2 * uniqByEdgeCount s

def cellEdges (k : Kernel) (hfs : List Nat) : List Nat :=
  toSet ((hfs.flatMap (fun hf => k.faceAt (eOf hf))).map eOf)

/-- does `add_cell(hfs, chk)` accept? -/
def addCellAccepts (k : Kernel) (hfs : List Nat) (chk : Bool) : Bool :=
  !chk || (!hfs.isEmpty && k.cellCheck hfs)

/-- create the cell and update the caches (cc:438-488) -/
def addCellCore (k : Kernel) (hfs : List Nat) : Kernel :=
  let ch := k.nC
  let k1 := { k with cells := k.cells ++ [hfs], cDel := k.cDel ++ [false],
                     props := resizeC k.props (ch + 1) }
  if k1.fBU then
    let k2 := { k1 with incCell := hfs.foldl (fun ic hf => ic.set hf (some ch)) k1.incCell }
    if k2.eBU then (k2.cellEdges hfs).foldl reorder k2 else k2
  else k1

def addCell (k : Kernel) (hfs : List Nat) (chk : Bool) : Kernel × Option Nat :=
  if k.addCellAccepts hfs chk then (k.addCellCore hfs, some k.nC) else (k, none)

/-! ### set_edge / set_face / set_cell (cc:495-592) -/

def setEdge (k : Kernel) (e a b : Nat) : Kernel :=
  { k with
    outHes := if k.vBU then
        (((k.outHes.modify (k.edgeAt e).1 (removeAll · (heOf e 0))).modify (k.edgeAt e).2 (removeAll · (heOf e 1))).modify a
          (· ++ [heOf e 0])).modify b (· ++ [heOf e 1])
      else k.outHes,
    edges := k.edges.set e (a, b) }

def setFace (k : Kernel) (f : Nat) (hes : List Nat) : Kernel :=
  { k with
    incHfs := if k.eBU then
        hes.foldl (fun inc h => (inc.modify h (· ++ [heOf f 0])).modify (opp h) (· ++ [heOf f 1]))
          ((k.faceAt f).foldl (fun inc h =>
            (inc.modify h (removeAll · (heOf f 0))).modify (opp h) (removeAll · (heOf f 1))) k.incHfs)
      else k.incHfs,
    faces := k.faces.set f hes }

def setCell (k : Kernel) (c : Nat) (hfs : List Nat) : Kernel :=
  { k with
    incCell := if k.fBU then
        hfs.foldl (fun ic hf => ic.set hf (some c)) ((k.cellAt c).foldl (fun ic hf => ic.set hf none) k.incCell)
      else k.incCell,
    cells := k.cells.set c hfs }

/-- number of distinct vertices met by the halfedges of the given halffaces (the `std::set<VertexHandle>` guards of the
    tetrahedral / hexahedral `add_cell(halffaces)` overrides, 64c6d58 / 7b999c9) -/
def spanVertCount (k : Kernel) (hfs : List Nat) : Nat :=
  (toSet ((hfs.flatMap k.hfHes).flatMap (fun he => [k.fromV he, k.toV he]))).length

/-- no two halfedges of the given halffaces run between the same ordered pair of vertices (4614b67: guard of the
    tetrahedral `add_cell(halffaces)` override) -/
def noParallel (k : Kernel) (hfs : List Nat) : Bool :=
  decide (((hfs.flatMap k.hfHes).map (fun h => (k.fromV h, k.toV h))).Nodup)

/-- the two halffaces of each of the three axes (positions 2a, 2a+1) share no vertex (7800c85: guard of the
    topology-checked hexahedral `add_cell(halffaces)` on the list it is about to store) -/
def oppPairsDisjoint (k : Kernel) (hfs : List Nat) : Bool :=
  [0, 1, 2].all (fun a =>
    let front := (k.hfHes (hfs.getD (2 * a) 0)).map k.fromV
    ((k.hfHes (hfs.getD (2 * a + 1) 0)).map k.fromV).all (fun v => !front.contains v))

end Kernel
end OVM

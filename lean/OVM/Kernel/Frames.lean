import OVM.Kernel.Step
import OVM.Base.ListLemmas
/-
  Frame lemmas: which fields each mechanism function leaves alone.  Tagged `@[simp]`; all later
  reasoning goes through observers and these lemmas, never through unfolded record updates.
-/
namespace OVM
namespace Kernel

/-! ### reorder only rewrites `incHfs` (and the ghost flag) -/
section reorder
variable (k : Kernel) (e : Nat)
@[simp] theorem reorder_nV : (k.reorder e).nV = k.nV := by unfold reorder; split <;> rfl
@[simp] theorem reorder_edges : (k.reorder e).edges = k.edges := by unfold reorder; split <;> rfl
@[simp] theorem reorder_faces : (k.reorder e).faces = k.faces := by unfold reorder; split <;> rfl
@[simp] theorem reorder_cells : (k.reorder e).cells = k.cells := by unfold reorder; split <;> rfl
@[simp] theorem reorder_vDel : (k.reorder e).vDel = k.vDel := by unfold reorder; split <;> rfl
@[simp] theorem reorder_eDel : (k.reorder e).eDel = k.eDel := by unfold reorder; split <;> rfl
@[simp] theorem reorder_fDel : (k.reorder e).fDel = k.fDel := by unfold reorder; split <;> rfl
@[simp] theorem reorder_cDel : (k.reorder e).cDel = k.cDel := by unfold reorder; split <;> rfl
@[simp] theorem reorder_nDelV : (k.reorder e).nDelV = k.nDelV := by unfold reorder; split <;> rfl
@[simp] theorem reorder_nDelE : (k.reorder e).nDelE = k.nDelE := by unfold reorder; split <;> rfl
@[simp] theorem reorder_nDelF : (k.reorder e).nDelF = k.nDelF := by unfold reorder; split <;> rfl
@[simp] theorem reorder_nDelC : (k.reorder e).nDelC = k.nDelC := by unfold reorder; split <;> rfl
@[simp] theorem reorder_deferred : (k.reorder e).deferred = k.deferred := by unfold reorder; split <;> rfl
@[simp] theorem reorder_fast : (k.reorder e).fast = k.fast := by unfold reorder; split <;> rfl
@[simp] theorem reorder_vBU : (k.reorder e).vBU = k.vBU := by unfold reorder; split <;> rfl
@[simp] theorem reorder_eBU : (k.reorder e).eBU = k.eBU := by unfold reorder; split <;> rfl
@[simp] theorem reorder_fBU : (k.reorder e).fBU = k.fBU := by unfold reorder; split <;> rfl
@[simp] theorem reorder_outHes : (k.reorder e).outHes = k.outHes := by unfold reorder; split <;> rfl
@[simp] theorem reorder_incCell : (k.reorder e).incCell = k.incCell := by unfold reorder; split <;> rfl
@[simp] theorem reorder_props : (k.reorder e).props = k.props := by unfold reorder; split <;> rfl
@[simp] theorem reorder_incHfs_length : (k.reorder e).incHfs.length = k.incHfs.length := by
  unfold reorder; split <;> simp [reorderWrite]
end reorder

/-- a fold of `reorder` preserves every field that a single `reorder` preserves -/
theorem foldl_reorder_frame {α} (proj : Kernel → α) (h : ∀ k e, proj (k.reorder e) = proj k)
    (es : List Nat) (k : Kernel) : proj (es.foldl reorder k) = proj k := by
  induction es generalizing k with
  | nil => rfl
  | cons e t ih => simp only [List.foldl_cons]; rw [ih, h]

section foldReorder
variable (es : List Nat) (k : Kernel)
@[simp] theorem foldl_reorder_nV : (es.foldl reorder k).nV = k.nV := foldl_reorder_frame (·.nV) reorder_nV es k
@[simp] theorem foldl_reorder_edges : (es.foldl reorder k).edges = k.edges := foldl_reorder_frame (·.edges) reorder_edges es k
@[simp] theorem foldl_reorder_faces : (es.foldl reorder k).faces = k.faces := foldl_reorder_frame (·.faces) reorder_faces es k
@[simp] theorem foldl_reorder_cells : (es.foldl reorder k).cells = k.cells := foldl_reorder_frame (·.cells) reorder_cells es k
@[simp] theorem foldl_reorder_vDel : (es.foldl reorder k).vDel = k.vDel := foldl_reorder_frame (·.vDel) reorder_vDel es k
@[simp] theorem foldl_reorder_eDel : (es.foldl reorder k).eDel = k.eDel := foldl_reorder_frame (·.eDel) reorder_eDel es k
@[simp] theorem foldl_reorder_fDel : (es.foldl reorder k).fDel = k.fDel := foldl_reorder_frame (·.fDel) reorder_fDel es k
@[simp] theorem foldl_reorder_cDel : (es.foldl reorder k).cDel = k.cDel := foldl_reorder_frame (·.cDel) reorder_cDel es k
@[simp] theorem foldl_reorder_nDelV : (es.foldl reorder k).nDelV = k.nDelV := foldl_reorder_frame (·.nDelV) reorder_nDelV es k
@[simp] theorem foldl_reorder_nDelE : (es.foldl reorder k).nDelE = k.nDelE := foldl_reorder_frame (·.nDelE) reorder_nDelE es k
@[simp] theorem foldl_reorder_nDelF : (es.foldl reorder k).nDelF = k.nDelF := foldl_reorder_frame (·.nDelF) reorder_nDelF es k
@[simp] theorem foldl_reorder_nDelC : (es.foldl reorder k).nDelC = k.nDelC := foldl_reorder_frame (·.nDelC) reorder_nDelC es k
@[simp] theorem foldl_reorder_deferred : (es.foldl reorder k).deferred = k.deferred := foldl_reorder_frame (·.deferred) reorder_deferred es k
@[simp] theorem foldl_reorder_fast : (es.foldl reorder k).fast = k.fast := foldl_reorder_frame (·.fast) reorder_fast es k
@[simp] theorem foldl_reorder_vBU : (es.foldl reorder k).vBU = k.vBU := foldl_reorder_frame (·.vBU) reorder_vBU es k
@[simp] theorem foldl_reorder_eBU : (es.foldl reorder k).eBU = k.eBU := foldl_reorder_frame (·.eBU) reorder_eBU es k
@[simp] theorem foldl_reorder_fBU : (es.foldl reorder k).fBU = k.fBU := foldl_reorder_frame (·.fBU) reorder_fBU es k
@[simp] theorem foldl_reorder_outHes : (es.foldl reorder k).outHes = k.outHes := foldl_reorder_frame (·.outHes) reorder_outHes es k
@[simp] theorem foldl_reorder_incCell : (es.foldl reorder k).incCell = k.incCell := foldl_reorder_frame (·.incCell) reorder_incCell es k
@[simp] theorem foldl_reorder_props : (es.foldl reorder k).props = k.props := foldl_reorder_frame (·.props) reorder_props es k
@[simp] theorem foldl_reorder_incHfs_length : (es.foldl reorder k).incHfs.length = k.incHfs.length :=
  foldl_reorder_frame (·.incHfs.length) reorder_incHfs_length es k
end foldReorder

/-! ### construction cores -/
section addCores
variable (k : Kernel)
@[simp] theorem addEdgeCore_edges (a b : Nat) : (k.addEdgeCore a b).edges = k.edges ++ [(a, b)] := by
  unfold addEdgeCore; simp only; split <;> split <;> rfl
@[simp] theorem addEdgeCore_eDel (a b : Nat) : (k.addEdgeCore a b).eDel = k.eDel ++ [false] := by
  unfold addEdgeCore; simp only; split <;> split <;> rfl
@[simp] theorem addEdgeCore_faces (a b : Nat) : (k.addEdgeCore a b).faces = k.faces := by
  unfold addEdgeCore; simp only; split <;> split <;> rfl
@[simp] theorem addEdgeCore_cells (a b : Nat) : (k.addEdgeCore a b).cells = k.cells := by
  unfold addEdgeCore; simp only; split <;> split <;> rfl
@[simp] theorem addEdgeCore_nV (a b : Nat) : (k.addEdgeCore a b).nV = k.nV := by
  unfold addEdgeCore; simp only; split <;> split <;> rfl
@[simp] theorem addEdgeCore_vDel (a b : Nat) : (k.addEdgeCore a b).vDel = k.vDel := by
  unfold addEdgeCore; simp only; split <;> split <;> rfl
@[simp] theorem addEdgeCore_fDel (a b : Nat) : (k.addEdgeCore a b).fDel = k.fDel := by
  unfold addEdgeCore; simp only; split <;> split <;> rfl
@[simp] theorem addEdgeCore_cDel (a b : Nat) : (k.addEdgeCore a b).cDel = k.cDel := by
  unfold addEdgeCore; simp only; split <;> split <;> rfl
@[simp] theorem addEdgeCore_props (a b : Nat) : (k.addEdgeCore a b).props = resizeE k.props (k.nE + 1) := by
  unfold addEdgeCore; simp only; split <;> split <;> rfl

@[simp] theorem addFaceCore_faces (hes : List Nat) : (k.addFaceCore hes).faces = k.faces ++ [hes] := by
  unfold addFaceCore; simp only; split <;> split <;> rfl
@[simp] theorem addFaceCore_fDel (hes : List Nat) : (k.addFaceCore hes).fDel = k.fDel ++ [false] := by
  unfold addFaceCore; simp only; split <;> split <;> rfl
@[simp] theorem addFaceCore_edges (hes : List Nat) : (k.addFaceCore hes).edges = k.edges := by
  unfold addFaceCore; simp only; split <;> split <;> rfl
@[simp] theorem addFaceCore_cells (hes : List Nat) : (k.addFaceCore hes).cells = k.cells := by
  unfold addFaceCore; simp only; split <;> split <;> rfl
@[simp] theorem addFaceCore_nV (hes : List Nat) : (k.addFaceCore hes).nV = k.nV := by
  unfold addFaceCore; simp only; split <;> split <;> rfl
@[simp] theorem addFaceCore_eDel (hes : List Nat) : (k.addFaceCore hes).eDel = k.eDel := by
  unfold addFaceCore; simp only; split <;> split <;> rfl
@[simp] theorem addFaceCore_vDel (hes : List Nat) : (k.addFaceCore hes).vDel = k.vDel := by
  unfold addFaceCore; simp only; split <;> split <;> rfl
@[simp] theorem addFaceCore_cDel (hes : List Nat) : (k.addFaceCore hes).cDel = k.cDel := by
  unfold addFaceCore; simp only; split <;> split <;> rfl
@[simp] theorem addFaceCore_props (hes : List Nat) : (k.addFaceCore hes).props = resizeF k.props (k.nF + 1) := by
  unfold addFaceCore; simp only; split <;> split <;> rfl

@[simp] theorem addCellCore_cells (hfs : List Nat) : (k.addCellCore hfs).cells = k.cells ++ [hfs] := by
  unfold addCellCore; simp only; split <;> first | rfl | (split <;> simp)
@[simp] theorem addCellCore_cDel (hfs : List Nat) : (k.addCellCore hfs).cDel = k.cDel ++ [false] := by
  unfold addCellCore; simp only; split <;> first | rfl | (split <;> simp)
@[simp] theorem addCellCore_faces (hfs : List Nat) : (k.addCellCore hfs).faces = k.faces := by
  unfold addCellCore; simp only; split <;> first | rfl | (split <;> simp)
@[simp] theorem addCellCore_edges (hfs : List Nat) : (k.addCellCore hfs).edges = k.edges := by
  unfold addCellCore; simp only; split <;> first | rfl | (split <;> simp)
@[simp] theorem addCellCore_nV (hfs : List Nat) : (k.addCellCore hfs).nV = k.nV := by
  unfold addCellCore; simp only; split <;> first | rfl | (split <;> simp)
@[simp] theorem addCellCore_vDel (hfs : List Nat) : (k.addCellCore hfs).vDel = k.vDel := by
  unfold addCellCore; simp only; split <;> first | rfl | (split <;> simp)
@[simp] theorem addCellCore_eDel (hfs : List Nat) : (k.addCellCore hfs).eDel = k.eDel := by
  unfold addCellCore; simp only; split <;> first | rfl | (split <;> simp)
@[simp] theorem addCellCore_fDel (hfs : List Nat) : (k.addCellCore hfs).fDel = k.fDel := by
  unfold addCellCore; simp only; split <;> first | rfl | (split <;> simp)
@[simp] theorem addCellCore_props (hfs : List Nat) : (k.addCellCore hfs).props = resizeC k.props (k.nC + 1) := by
  unfold addCellCore; simp only; split <;> first | rfl | (split <;> simp)
end addCores

/-! ### index swaps never change modes, incidence flags or counts -/
section swaps
variable (k : Kernel) (a b : Nat)
@[simp] theorem swapVertex_deferred : (k.swapVertex a b).deferred = k.deferred := by unfold swapVertex; split <;> first | rfl | (simp only []; split <;> rfl)
@[simp] theorem swapVertex_fast : (k.swapVertex a b).fast = k.fast := by unfold swapVertex; split <;> first | rfl | (simp only []; split <;> rfl)
@[simp] theorem swapVertex_vBU : (k.swapVertex a b).vBU = k.vBU := by unfold swapVertex; split <;> first | rfl | (simp only []; split <;> rfl)
@[simp] theorem swapVertex_eBU : (k.swapVertex a b).eBU = k.eBU := by unfold swapVertex; split <;> first | rfl | (simp only []; split <;> rfl)
@[simp] theorem swapVertex_fBU : (k.swapVertex a b).fBU = k.fBU := by unfold swapVertex; split <;> first | rfl | (simp only []; split <;> rfl)
@[simp] theorem swapVertex_nV : (k.swapVertex a b).nV = k.nV := by unfold swapVertex; split <;> first | rfl | (simp only []; split <;> rfl)
@[simp] theorem swapVertex_nDelV : (k.swapVertex a b).nDelV = k.nDelV := by unfold swapVertex; split <;> first | rfl | (simp only []; split <;> rfl)
@[simp] theorem swapVertex_nDelE : (k.swapVertex a b).nDelE = k.nDelE := by unfold swapVertex; split <;> first | rfl | (simp only []; split <;> rfl)
@[simp] theorem swapVertex_nDelF : (k.swapVertex a b).nDelF = k.nDelF := by unfold swapVertex; split <;> first | rfl | (simp only []; split <;> rfl)
@[simp] theorem swapVertex_nDelC : (k.swapVertex a b).nDelC = k.nDelC := by unfold swapVertex; split <;> first | rfl | (simp only []; split <;> rfl)
@[simp] theorem swapVertex_fault : (k.swapVertex a b).fault = k.fault := by unfold swapVertex; split <;> first | rfl | (simp only []; split <;> rfl)
@[simp] theorem swapEdge_deferred : (k.swapEdge a b).deferred = k.deferred := by unfold swapEdge; split <;> first | rfl | (simp only []; split <;> rfl)
@[simp] theorem swapEdge_fast : (k.swapEdge a b).fast = k.fast := by unfold swapEdge; split <;> first | rfl | (simp only []; split <;> rfl)
@[simp] theorem swapEdge_vBU : (k.swapEdge a b).vBU = k.vBU := by unfold swapEdge; split <;> first | rfl | (simp only []; split <;> rfl)
@[simp] theorem swapEdge_eBU : (k.swapEdge a b).eBU = k.eBU := by unfold swapEdge; split <;> first | rfl | (simp only []; split <;> rfl)
@[simp] theorem swapEdge_fBU : (k.swapEdge a b).fBU = k.fBU := by unfold swapEdge; split <;> first | rfl | (simp only []; split <;> rfl)
@[simp] theorem swapEdge_nV : (k.swapEdge a b).nV = k.nV := by unfold swapEdge; split <;> first | rfl | (simp only []; split <;> rfl)
@[simp] theorem swapEdge_nDelV : (k.swapEdge a b).nDelV = k.nDelV := by unfold swapEdge; split <;> first | rfl | (simp only []; split <;> rfl)
@[simp] theorem swapEdge_nDelE : (k.swapEdge a b).nDelE = k.nDelE := by unfold swapEdge; split <;> first | rfl | (simp only []; split <;> rfl)
@[simp] theorem swapEdge_nDelF : (k.swapEdge a b).nDelF = k.nDelF := by unfold swapEdge; split <;> first | rfl | (simp only []; split <;> rfl)
@[simp] theorem swapEdge_nDelC : (k.swapEdge a b).nDelC = k.nDelC := by unfold swapEdge; split <;> first | rfl | (simp only []; split <;> rfl)
@[simp] theorem swapEdge_fault : (k.swapEdge a b).fault = k.fault := by unfold swapEdge; split <;> first | rfl | (simp only []; split <;> rfl)
@[simp] theorem swapFace_deferred : (k.swapFace a b).deferred = k.deferred := by unfold swapFace; split <;> first | rfl | (simp only []; split <;> rfl)
@[simp] theorem swapFace_fast : (k.swapFace a b).fast = k.fast := by unfold swapFace; split <;> first | rfl | (simp only []; split <;> rfl)
@[simp] theorem swapFace_vBU : (k.swapFace a b).vBU = k.vBU := by unfold swapFace; split <;> first | rfl | (simp only []; split <;> rfl)
@[simp] theorem swapFace_eBU : (k.swapFace a b).eBU = k.eBU := by unfold swapFace; split <;> first | rfl | (simp only []; split <;> rfl)
@[simp] theorem swapFace_fBU : (k.swapFace a b).fBU = k.fBU := by unfold swapFace; split <;> first | rfl | (simp only []; split <;> rfl)
@[simp] theorem swapFace_nV : (k.swapFace a b).nV = k.nV := by unfold swapFace; split <;> first | rfl | (simp only []; split <;> rfl)
@[simp] theorem swapFace_nDelV : (k.swapFace a b).nDelV = k.nDelV := by unfold swapFace; split <;> first | rfl | (simp only []; split <;> rfl)
@[simp] theorem swapFace_nDelE : (k.swapFace a b).nDelE = k.nDelE := by unfold swapFace; split <;> first | rfl | (simp only []; split <;> rfl)
@[simp] theorem swapFace_nDelF : (k.swapFace a b).nDelF = k.nDelF := by unfold swapFace; split <;> first | rfl | (simp only []; split <;> rfl)
@[simp] theorem swapFace_nDelC : (k.swapFace a b).nDelC = k.nDelC := by unfold swapFace; split <;> first | rfl | (simp only []; split <;> rfl)
@[simp] theorem swapFace_fault : (k.swapFace a b).fault = k.fault := by unfold swapFace; split <;> first | rfl | (simp only []; split <;> rfl)
@[simp] theorem swapCell_deferred : (k.swapCell a b).deferred = k.deferred := by unfold swapCell; split <;> first | rfl | (simp only []; split <;> rfl)
@[simp] theorem swapCell_fast : (k.swapCell a b).fast = k.fast := by unfold swapCell; split <;> first | rfl | (simp only []; split <;> rfl)
@[simp] theorem swapCell_vBU : (k.swapCell a b).vBU = k.vBU := by unfold swapCell; split <;> first | rfl | (simp only []; split <;> rfl)
@[simp] theorem swapCell_eBU : (k.swapCell a b).eBU = k.eBU := by unfold swapCell; split <;> first | rfl | (simp only []; split <;> rfl)
@[simp] theorem swapCell_fBU : (k.swapCell a b).fBU = k.fBU := by unfold swapCell; split <;> first | rfl | (simp only []; split <;> rfl)
@[simp] theorem swapCell_nV : (k.swapCell a b).nV = k.nV := by unfold swapCell; split <;> first | rfl | (simp only []; split <;> rfl)
@[simp] theorem swapCell_nDelV : (k.swapCell a b).nDelV = k.nDelV := by unfold swapCell; split <;> first | rfl | (simp only []; split <;> rfl)
@[simp] theorem swapCell_nDelE : (k.swapCell a b).nDelE = k.nDelE := by unfold swapCell; split <;> first | rfl | (simp only []; split <;> rfl)
@[simp] theorem swapCell_nDelF : (k.swapCell a b).nDelF = k.nDelF := by unfold swapCell; split <;> first | rfl | (simp only []; split <;> rfl)
@[simp] theorem swapCell_nDelC : (k.swapCell a b).nDelC = k.nDelC := by unfold swapCell; split <;> first | rfl | (simp only []; split <;> rfl)
@[simp] theorem swapCell_fault : (k.swapCell a b).fault = k.fault := by unfold swapCell; split <;> first | rfl | (simp only []; split <;> rfl)
@[simp] theorem swapVertex_faces : (k.swapVertex a b).faces = k.faces := by unfold swapVertex; split <;> rfl
@[simp] theorem swapVertex_cells : (k.swapVertex a b).cells = k.cells := by unfold swapVertex; split <;> rfl
end swaps

end Kernel
end OVM

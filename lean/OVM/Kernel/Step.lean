import OVM.Kernel.Query
/-
  M: one operation of the driver vocabulary (DESIGN.md Appendix B) as a state transition.
  `Op` is what `harness/kernel_drv.cc` writes on its `O` lines.
-/
namespace OVM

inductive Op where
  | addVertex
  | addNVertices (n : Nat)
  | addEdge (a b : Nat) (dup : Bool)
  | addFaceHe (chk : Bool) (hes : List Nat)
  | addFaceV (vs : List Nat)
  | addCell (chk : Bool) (hfs : List Nat)
  | setEdge (e a b : Nat)
  | setFace (f : Nat) (hes : List Nat)
  | setCell (c : Nat) (hfs : List Nat)
  | deleteVertex (v : Nat)
  | deleteEdge (e : Nat)
  | deleteFace (f : Nat)
  | deleteCell (c : Nat)
  | swapVertex (a b : Nat)
  | swapEdge (a b : Nat)
  | swapFace (a b : Nat)
  | swapCell (a b : Nat)
  | collectGarbage
  | enableDeferred (b : Bool)
  | enableFast (b : Bool)
  | enableBU (kind : Nat) (b : Bool)
  | clear (props : Bool)
deriving Repr, DecidableEq

namespace Kernel

/-- handle an entity iterator constructed at `start` points to: first not-deleted slot ≥ start,
    or `n` -/
def iterFrom (del : List Bool) (n start : Nat) : Nat :=
  (((List.range n).drop start).find? (fun i => !(del.getD i false))).getD (max n start)

/-- result handle as an `Int` (−1 = invalid) -/
def optH (o : Option Nat) : Int := match o with | some h => h | none => -1

/-- position of the iterator returned by `delete_*` (`*_core` return values) -/
def delRet (k0 k1 : Kernel) (del : Kernel → List Bool) (n : Kernel → Nat) (h : Nat) : Int :=
  if k0.deferred then iterFrom (del k1) (n k1) (h + 1)
  else if k0.fast then iterFrom (del k1) (n k1) (n k0 - 1)
  else iterFrom (del k1) (n k1) h

/-- the transition and the value returned to the caller (handle index, or 0 for `void`) -/
def step (k : Kernel) : Op → Kernel × Int
  | .addVertex => let (k', v) := k.addVertex; (k', v)
  | .addNVertices n => (k.addNVertices n, 0)
  | .addEdge a b dup => let (k', e) := k.addEdge a b dup; (k', e)
  | .addFaceHe chk hes => let (k', f) := k.addFace hes chk; (k', optH f)
  | .addFaceV vs => let (k', f) := k.addFaceV vs; (k', optH f)
  | .addCell chk hfs => let (k', c) := k.addCell hfs chk; (k', optH c)
  | .setEdge e a b => (k.setEdge e a b, 0)
  | .setFace f hes => (k.setFace f hes, 0)
  | .setCell c hfs => (k.setCell c hfs, 0)
  | .deleteVertex v => let k' := k.deleteVertex v; (k', delRet k k' (·.vDel) (·.nV) v)
  | .deleteEdge e => let k' := k.deleteEdge e; (k', delRet k k' (·.eDel) nE e)
  | .deleteFace f => let k' := k.deleteFace f; (k', delRet k k' (·.fDel) nF f)
  | .deleteCell c => let k' := k.deleteCell c; (k', delRet k k' (·.cDel) nC c)
  | .swapVertex a b => (k.swapVertex a b, 0)
  | .swapEdge a b => (k.swapEdge a b, 0)
  | .swapFace a b => (k.swapFace a b, 0)
  | .swapCell a b => (k.swapCell a b, 0)
  | .collectGarbage => (k.collectGarbage, 0)
  | .enableDeferred b => (k.enableDeferred b, 0)
  | .enableFast b => (k.enableFast b, 0)
  | .enableBU kind b =>
    (if kind == 0 then k.enableVBU b else if kind == 1 then k.enableEBU b else k.enableFBU b, 0)
  | .clear p => (k.clear p, 0)

def run (k : Kernel) (ops : List Op) : Kernel := ops.foldl (fun k op => (k.step op).1) k

end Kernel
end OVM

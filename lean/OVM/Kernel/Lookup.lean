import OVM.Kernel.Query
/-
  M: lookup queries (TopologyKernel.cc:1916-2204, hh:1088-1099).
-/
namespace OVM
namespace Kernel

/-- cc:1916-1928 -/
def findHalfedge (k : Kernel) (a b : Nat) : Option Nat := (k.qVOH a).find? (fun h => k.toV h == b)

/-- cc:1932-1949 -/
def findHalfedgeInCell (k : Kernel) (a b c : Nat) : Option Nat :=
  ((k.cellAt c).flatMap k.hfHes).findSome? (fun h =>
    if k.fromV h == a && k.toV h == b then some h
    else if k.fromV h == b && k.toV h == a then some (opp h) else none)

/-- cc:2079-2097 -/
def findHalffaceHes (k : Kernel) (he0 he1 : Nat) : Option Nat :=
  (k.qHEHF he0).find? (fun hf => (k.hfHes hf).contains he1)

/-- cc:1960-1978 -/
def findHalffaceV (k : Kernel) (vs : List Nat) : Option Nat :=
  match vs with
  | v0 :: v1 :: v2 :: _ =>
    match k.findHalfedge v0 v1, k.findHalfedge v1 v2 with
    | some he0, some he1 => k.findHalffaceHes he0 he1
    | _, _ => none
  | _ => none

/-- index of the *last* occurrence (`offset` is overwritten on every match, cc:2046-2049) -/
def lastIdxOf (l : List Nat) (x : Nat) : Nat :=
  (l.zipIdx.foldl (fun off p => if p.1 == x then p.2 else off) 0)

/-- cc:2025-2068 -/
def findHalffaceExtensive (k : Kernel) (vs : List Nat) : Option Nat :=
  match vs with
  | v0 :: v1 :: _ =>
    match k.findHalfedge v0 v1 with
    | none => none
    | some he0 =>
      (k.qHEHF he0).find? (fun hf =>
        let hes := k.hfHes hf
        hes.length == vs.length &&
        (let off := lastIdxOf hes he0
         (List.range hes.length).all (fun i => k.fromV (hes.getD ((i + off) % hes.length) 0) == vs.getD i 0)))
  | _ => none

/-- cc:2101-2117 -/
def nextHe (k : Kernel) (he hf : Nat) : Option Nat :=
  let hes := k.hfHes hf
  match idxOf? hes he with
  | none => none
  | some i => if i + 1 < hes.length then hes[i + 1]? else hes.head?

/-- cc:2121-2137 -/
def prevHe (k : Kernel) (he hf : Nat) : Option Nat :=
  let hes := k.hfHes hf
  match idxOf? hes he with
  | none => none
  | some i => if i == 0 then hes.getLast? else hes[i - 1]?

/-- vertices of a halfface in circulator order (`HalfFaceVertexIter`) -/
def hfVerts (k : Kernel) (hf : Nat) : List Nat := (k.hfHes hf).map k.fromV

/-- cc:2157-2179: rotate to the first occurrence of `v` (unrotated when absent) -/
def hfVertsFrom (k : Kernel) (hf v : Nat) : List Nat :=
  let vs := k.hfVerts hf
  match idxOf? vs v with
  | none => vs
  | some i => vs.rotateLeft i

/-- cc:2194-2204 -/
def isIncident (k : Kernel) (f e : Nat) : Bool := (k.faceAt f).any (fun h => eOf h == e)

/-- hh:1088-1099 -/
def nVerticesInCell (k : Kernel) (c : Nat) : Nat :=
  (toSet (((k.cellAt c).flatMap k.hfHes).map k.toV)).length

/-- cc:1982-2011 -/
def findHalffaceInCell (k : Kernel) (vs : List Nat) (c : Nat) : Option Nat :=
  match vs with
  | v0 :: v1 :: v2 :: _ =>
    ((k.cellAt c).flatMap (fun hf => (k.hfHes hf).map (fun h => (hf, h)))).findSome? (fun (hf, h) =>
      if k.fromV h == v0 && k.toV h == v1 && ((k.nextHe h hf).map k.toV == some v2) then some hf
      else if k.fromV h == v1 && k.toV h == v0 then
        match k.adjHalffaceInCell hf h with
        | some hfo => if (k.nextHe (opp h) hfo).map k.toV == some v2 then some hfo else none
        | none => none
      else none)
  | _ => none

end Kernel
end OVM

import OVM.Kernel.Add
/-
  M: `swap_{cell,face,edge,vertex}_indices` (TopologyKernel.cc:1431-1791), following the
  cache-guided variants with their processed-sets and the linear-scan variants.
-/
namespace OVM
namespace Kernel

/-- relabel a half-entity handle under the transposition of the parent ids `a` and `b` -/
def relabelHalf (a b h : Nat) : Nat :=
  if h / 2 == a then 2 * b + h % 2 else if h / 2 == b then 2 * a + h % 2 else h

def relabelId (a b x : Nat) : Nat := if x == a then b else if x == b then a else x

/-- exchange the two cell indices in one slot of `incident_cell_per_hf_` -/
def swapCellEntry (a b : Nat) (ic : List (Option Nat)) (hf : Nat) : List (Option Nat) :=
  match ic.getD hf none with
  | some c => if c == a then ic.set hf (some b) else if c == b then ic.set hf (some a) else ic
  | none => ic

/-- cc:1431-1462.  Every halfface listed by either cell is visited once (processed-set); the
    cache writes are guarded by the face-incidence flag. -/
def swapCell (k : Kernel) (a b : Nat) : Kernel :=
  if a == b then k else
  { k with incCell := if k.fBU then (dedupKeep (k.cellAt a ++ k.cellAt b)).foldl (swapCellEntry a b) k.incCell
                      else k.incCell,
           cells := swapAt k.cells a b, cDel := swapAt k.cDel a b,
           props := swapCProps k.props a b }

/-- cells visited by the cache-guided face swap: `incident_cell_per_hf_` of the four
    halffaces, in the C++ order, each processed once -/
def swapFaceCellsBU (k : Kernel) (a b : Nat) : List Nat :=
  dedupKeep ([2 * a, 2 * a + 1, 2 * b, 2 * b + 1].filterMap k.cellOf)

def swapFace (k : Kernel) (a b : Nat) : Kernel :=
  if a == b then k else
  -- cells
  let cellsToFix : List Nat :=
    if k.fBU then k.swapFaceCellsBU a b
    else (List.range k.nC).filter (fun c => (k.cellAt c).any (fun hf => hf / 2 == a || hf / 2 == b))
  let cells := cellsToFix.foldl (fun cs c => cs.modify c (·.map (relabelHalf a b))) k.cells
  -- halfedge -> halfface lists
  let incHfs := if k.eBU then
      let hes := dedupKeep ([2 * a, 2 * a + 1, 2 * b, 2 * b + 1].flatMap k.hfHes)
      hes.foldl (fun inc h => inc.modify h (·.map (relabelHalf a b))) k.incHfs
    else k.incHfs
  let incCell := if k.fBU then
      swapAt (swapAt k.incCell (2 * a) (2 * b)) (2 * a + 1) (2 * b + 1)
    else k.incCell
  { k with cells := cells, incHfs := incHfs, incCell := incCell,
           faces := swapAt k.faces a b, fDel := swapAt k.fDel a b,
           props := swapFProps k.props a b }

def swapEdge (k : Kernel) (a b : Nat) : Kernel :=
  if a == b then k else
  let facesToFix : List Nat :=
    if k.eBU then dedupKeep (((k.hfsOf (2 * a)) ++ (k.hfsOf (2 * b))).map (· / 2))
    else (List.range k.nF).filter (fun f => (k.faceAt f).any (fun h => h / 2 == a || h / 2 == b))
  let faces := facesToFix.foldl (fun fs f => fs.modify f (·.map (relabelHalf a b))) k.faces
  let outHes := if k.vBU then
      let ea := k.edgeAt a
      let eb := k.edgeAt b
      let vs := dedupKeep [ea.1, ea.2, eb.1, eb.2]
      vs.foldl (fun o v => o.modify v (·.map (relabelHalf a b))) k.outHes
    else k.outHes
  let incHfs := if k.eBU then
      swapAt (swapAt k.incHfs (2 * a) (2 * b)) (2 * a + 1) (2 * b + 1)
    else k.incHfs
  { k with faces := faces, outHes := outHes, incHfs := incHfs,
           edges := swapAt k.edges a b, eDel := swapAt k.eDel a b,
           props := swapEProps k.props a b }

def relabelEdgeV (a b : Nat) (e : Nat × Nat) : Nat × Nat := (relabelId a b e.1, relabelId a b e.2)

def swapVertex (k : Kernel) (a b : Nat) : Kernel :=
  if a == b then k else
  let edges := if k.vBU then
      let es := dedupKeep (((k.outOf a) ++ (k.outOf b)).map (· / 2))
      es.foldl (fun ed e => ed.modify e (relabelEdgeV a b)) k.edges
    else k.edges.map (relabelEdgeV a b)
  { k with edges := edges, vDel := swapAt k.vDel a b,
           outHes := if k.vBU then swapAt k.outHes a b else k.outHes,
           props := swapVProps k.props a b }

end Kernel
end OVM

import OVM.Status.Lemmas
import OVM.Refine.LogicalDeleteList
/-
  C04 (status part) — what `StatusAttrib::garbage_collection` erases, proved about the model (`statusGC`).

  The routine is a particular list of DEFERRED deletion requests followed by `collect_garbage`:
    * every mark loop (impl.hh:59-78) is `runDef` of the marked entities of its kind, in ascending order
      (`sweep_eq_runDef`: the loop condition is "live now ∧ marked at the start", deferred deletion changes neither the
      status columns nor the slot counts) — so the four loops together are `runDef k (markReqs k)`;
    * `runDef_logMinus` (OVM/Refine/LogicalDeleteList.lean): that flags exactly the upward closure of the marked live
      entities and renumbers nothing;
    * on the live slots of a state satisfying the reachability invariant that closure is the specification's dead set
      `Spec.deadV/E/F/C` (`dead_iff_cloSet`: a live entity only refers to live entities, `Closed`);
    * `collect_garbage` and restoring the deferred flag keep the logical mesh (`collectGarbage_log`);
    * the tracking overload adds four index columns before the collection and drops them afterwards (`logIso_dropTmp`).
  The `_preserveManifoldness` pass is in OVM/Status/DeadSetManifold.lean.
-/
namespace OVM.Status
open OVM OVM.Kernel OVM.Kernel.Global ScanDel
open OVM.Kernel.Logical (Req Ren Rem LogMinus LogIso runDef cloSet reqSet KindOK HalfOK ColsFollow ColFollows Surv
  upE upF upC EqLive)

/-! ### a loop `for i < n: if cond k i then delete (mk i)` is a deferred run of requests -/

def sweep (n : Nat) (cond : Kernel → Nat → Bool) (mk : Nat → Req) (k : Kernel) : Kernel :=
  (List.range n).foldl (fun k i => if cond k i then (mk i).apply k else k) k

theorem sweep_eq_runDef (n : Nat) (cond : Kernel → Nat → Bool) (mk : Nat → Req) (c0 : Nat → Bool) (I : Kernel → Prop)
    (hstep : ∀ k' i, I k' → i < n → c0 i = true → (mk i).live k' = true → I ((mk i).apply k'))
    (hcond : ∀ k' i, I k' → i < n → cond k' i = ((mk i).live k' && c0 i)) (k : Kernel) (h0 : I k) :
    sweep n cond mk k = runDef k (((List.range n).filter c0).map mk) ∧ I (sweep n cond mk k) := by
  unfold sweep
  suffices ∀ (xs : List Nat), (∀ x ∈ xs, x < n) → ∀ k', I k' →
      xs.foldl (fun k i => if cond k i then (mk i).apply k else k) k' = runDef k' ((xs.filter c0).map mk) ∧
      I (xs.foldl (fun k i => if cond k i then (mk i).apply k else k) k') from
    this (List.range n) (fun x hx => List.mem_range.1 hx) k h0
  intro xs
  induction xs with
  | nil => intro _ k' hk; exact ⟨rfl, hk⟩
  | cons x t ih =>
    intro hx k' hk
    have hxn : x < n := hx x (by simp)
    have ht : ∀ y ∈ t, y < n := fun y hy => hx y (by simp [hy])
    simp only [List.foldl_cons]
    rw [hcond k' x hk hxn]
    by_cases hc : c0 x = true
    · by_cases hl : (mk x).live k' = true
      · simp only [hl, hc, Bool.and_self, if_true, List.filter_cons, List.map_cons, runDef]
        exact ih ht _ (hstep k' x hk hxn hc hl)
      · simp only [hl, hc, List.filter_cons, List.map_cons, runDef, if_true]
        simp only [Bool.and_true, hl, if_false]
        exact ih ht _ hk
    · simp only [hc, Bool.and_false, List.filter_cons]
      simp only [Bool.false_eq_true, if_false]
      exact ih ht _ hk

theorem Req.statusQ {k : Kernel} (hd : k.deferred = true) (hi : LenInv k) {d : Req} (hl : d.live k = true) :
    Q k (d.apply k) := by
  cases d with
  | cell x => exact deleteCell_Q k x hd hi
  | face x => exact deleteFace_Q k x hd hi
  | edge x => exact deleteEdge_Q k x hd hi
  | vertex x => exact deleteVertex_Q k x hd hi (Logical.liveV_iff.mp hl).1

/-- the requests of the four mark loops: the marked slots of each kind, ascending; vertices, edges, faces, cells -/
def reqsV (k : Kernel) : List Req := ((List.range k.nV).filter (markedV k)).map Req.vertex
def reqsE (k : Kernel) : List Req := ((List.range k.nE).filter (markedE k)).map Req.edge
def reqsF (k : Kernel) : List Req := ((List.range k.nF).filter (markedF k)).map Req.face
def reqsC (k : Kernel) : List Req := ((List.range k.nC).filter (markedC k)).map Req.cell
def markReqs (k : Kernel) : List Req := reqsV k ++ (reqsE k ++ (reqsF k ++ reqsC k))

theorem markedV_of_Q {a b : Kernel} (q : Q a b) (v : Nat) : markedV b v = markedV a v := by unfold markedV; rw [q.props]
theorem markedE_of_Q {a b : Kernel} (q : Q a b) (v : Nat) : markedE b v = markedE a v := by unfold markedE; rw [q.props]
theorem markedF_of_Q {a b : Kernel} (q : Q a b) (v : Nat) : markedF b v = markedF a v := by unfold markedF; rw [q.props]
theorem markedC_of_Q {a b : Kernel} (q : Q a b) (v : Nat) : markedC b v = markedC a v := by unfold markedC; rw [q.props]

theorem reqsE_of_Q {a b : Kernel} (q : Q a b) : reqsE b = reqsE a := by
  unfold reqsE; rw [q.nE]; congr 1; exact List.filter_congr (fun x _ => markedE_of_Q q x)
theorem reqsF_of_Q {a b : Kernel} (q : Q a b) : reqsF b = reqsF a := by
  unfold reqsF; rw [q.nF]; congr 1; exact List.filter_congr (fun x _ => markedF_of_Q q x)
theorem reqsC_of_Q {a b : Kernel} (q : Q a b) : reqsC b = reqsC a := by
  unfold reqsC; rw [q.nC]; congr 1; exact List.filter_congr (fun x _ => markedC_of_Q q x)

theorem markedVerts_eq (k : Kernel) (hd : k.deferred = true) (hi : LenInv k) :
    markedVerts k = runDef k (reqsV k) ∧ Q k (markedVerts k) := by
  have h := sweep_eq_runDef k.nV (fun k v => !k.vDeleted v && markedV k v) Req.vertex (markedV k) (Q k)
    (fun k' i q _ _ hl => q.trans' (Req.statusQ q.dfr q.len hl))
    (fun k' i q hi' => by
      show (!k'.vDeleted i && markedV k' i) = ((k'.liveV i) && markedV k i)
      unfold liveV; rw [q.nV, markedV_of_Q q]; simp [hi'])
    k ⟨hd, rfl, rfl, rfl, rfl, rfl, hi⟩
  exact h

theorem markedEdges_eq (k : Kernel) (hd : k.deferred = true) (hi : LenInv k) :
    markedEdges k = runDef k (reqsE k) ∧ Q k (markedEdges k) := by
  have h := sweep_eq_runDef k.nE (fun k v => !k.eDeleted v && markedE k v) Req.edge (markedE k) (Q k)
    (fun k' i q _ _ hl => q.trans' (Req.statusQ q.dfr q.len hl))
    (fun k' i q hi' => by
      show (!k'.eDeleted i && markedE k' i) = ((k'.liveE i) && markedE k i)
      unfold liveE; rw [q.nE, markedE_of_Q q]; simp [hi'])
    k ⟨hd, rfl, rfl, rfl, rfl, rfl, hi⟩
  exact h

theorem markedFaces_eq (k : Kernel) (hd : k.deferred = true) (hi : LenInv k) :
    markedFaces k = runDef k (reqsF k) ∧ Q k (markedFaces k) := by
  have h := sweep_eq_runDef k.nF (fun k v => !k.fDeleted v && markedF k v) Req.face (markedF k) (Q k)
    (fun k' i q _ _ hl => q.trans' (Req.statusQ q.dfr q.len hl))
    (fun k' i q hi' => by
      show (!k'.fDeleted i && markedF k' i) = ((k'.liveF i) && markedF k i)
      unfold liveF; rw [q.nF, markedF_of_Q q]; simp [hi'])
    k ⟨hd, rfl, rfl, rfl, rfl, rfl, hi⟩
  exact h

theorem markedCells_eq (k : Kernel) (hd : k.deferred = true) (hi : LenInv k) :
    markedCells k = runDef k (reqsC k) ∧ Q k (markedCells k) := by
  have h := sweep_eq_runDef k.nC (fun k v => !k.cDeleted v && markedC k v) Req.cell (markedC k) (Q k)
    (fun k' i q _ _ hl => q.trans' (Req.statusQ q.dfr q.len hl))
    (fun k' i q hi' => by
      show (!k'.cDeleted i && markedC k' i) = ((k'.liveC i) && markedC k i)
      unfold liveC; rw [q.nC, markedC_of_Q q]; simp [hi'])
    k ⟨hd, rfl, rfl, rfl, rfl, rfl, hi⟩
  exact h

/-- **the four mark loops are one deferred run of the marked entities** -/
theorem mark4_eq (k : Kernel) (hd : k.deferred = true) (hi : LenInv k) :
    markedCells (markedFaces (markedEdges (markedVerts k))) = runDef k (markReqs k) ∧
    Q k (markedCells (markedFaces (markedEdges (markedVerts k)))) := by
  obtain ⟨e1, q1⟩ := markedVerts_eq k hd hi
  obtain ⟨e2, q2⟩ := markedEdges_eq _ q1.dfr q1.len
  obtain ⟨e3, q3⟩ := markedFaces_eq _ (q1.trans' q2).dfr (q1.trans' q2).len
  obtain ⟨e4, q4⟩ := markedCells_eq _ ((q1.trans' q2).trans' q3).dfr ((q1.trans' q2).trans' q3).len
  refine ⟨?_, ((q1.trans' q2).trans' q3).trans' q4⟩
  rw [e4, reqsC_of_Q ((q1.trans' q2).trans' q3), e3, reqsF_of_Q (q1.trans' q2), e2, reqsE_of_Q q1, e1]
  unfold markReqs
  rw [Logical.runDef_append, Logical.runDef_append, Logical.runDef_append]

/-! ### the specification's dead set is the closure of the marked set, on live slots -/

theorem marks_getD (n : Nat) (f : Nat → Bool) (x : Nat) (hx : x < n) : ((List.range n).map f).getD x false = f x := by
  rw [List.getD_eq_getElem?_getD, List.getElem?_map, List.getElem?_range hx]; rfl

theorem mem_markReqs_v (k : Kernel) (x : Nat) : Req.vertex x ∈ markReqs k ↔ (x < k.nV ∧ markedV k x = true) := by
  simp [markReqs, reqsV, reqsE, reqsF, reqsC]
theorem mem_markReqs_e (k : Kernel) (x : Nat) : Req.edge x ∈ markReqs k ↔ (x < k.nE ∧ markedE k x = true) := by
  simp [markReqs, reqsV, reqsE, reqsF, reqsC]
theorem mem_markReqs_f (k : Kernel) (x : Nat) : Req.face x ∈ markReqs k ↔ (x < k.nF ∧ markedF k x = true) := by
  simp [markReqs, reqsV, reqsE, reqsF, reqsC]
theorem mem_markReqs_c (k : Kernel) (x : Nat) : Req.cell x ∈ markReqs k ↔ (x < k.nC ∧ markedC k x = true) := by
  simp [markReqs, reqsV, reqsE, reqsF, reqsC]

/-- **on the live slots, `Spec.dead*` (deleted, or marked, or built from a dead entity) is the upward closure of the
    marked live entities** -/
theorem dead_iff_cloSet {k : Kernel} (hi : GInv k) :
    (∀ x, k.liveV x = true → ((cloSet k (markReqs k)).v x ↔ Spec.deadV k (marksOf k) x = true)) ∧
    (∀ x, k.liveE x = true → ((cloSet k (markReqs k)).e x ↔ Spec.deadE k (marksOf k) x = true)) ∧
    (∀ x, k.liveF x = true → ((cloSet k (markReqs k)).f x ↔ Spec.deadF k (marksOf k) x = true)) ∧
    (∀ x, k.liveC x = true → ((cloSet k (markReqs k)).c x ↔ Spec.deadC k (marksOf k) x = true)) := by
  have hv : ∀ x, k.liveV x = true → ((cloSet k (markReqs k)).v x ↔ Spec.deadV k (marksOf k) x = true) := by
    intro x hl
    have h := Logical.liveV_iff.mp hl
    rw [Logical.cloSet_v]
    show (Req.vertex x ∈ markReqs k ∧ k.liveV x = true) ↔ _
    rw [mem_markReqs_v]
    unfold Spec.deadV vDeleted marksOf
    simp only [marks_getD k.nV (markedV k) x h.1, h.2, Bool.false_or]
    exact ⟨fun a => a.1.2, fun a => ⟨⟨h.1, a⟩, hl⟩⟩
  have he : ∀ x, k.liveE x = true → ((cloSet k (markReqs k)).e x ↔ Spec.deadE k (marksOf k) x = true) := by
    intro x hl
    have h := Logical.liveE_iff.mp hl
    have hr := hi.wf.range.edges _ (k4_edgeAt_mem (k := k) h.1)
    have hc := hi.closed.v x hl
    have l1 : k.liveV (k.edgeAt x).1 = true := Logical.liveV_iff.mpr ⟨hr.1, hc.1⟩
    have l2 : k.liveV (k.edgeAt x).2 = true := Logical.liveV_iff.mpr ⟨hr.2, hc.2⟩
    rw [Logical.cloSet_e]
    show ((Req.edge x ∈ markReqs k ∧ k.liveE x = true) ∨
      ((cloSet k (markReqs k)).v (k.edgeAt x).1 ∨ (cloSet k (markReqs k)).v (k.edgeAt x).2)) ↔ _
    rw [mem_markReqs_e, hv _ l1, hv _ l2]
    unfold Spec.deadE eDeleted
    have hm : (marksOf k).e.getD x false = markedE k x := marks_getD k.nE (markedE k) x h.1
    rw [hm, h.2]
    simp only [Bool.false_or, Bool.or_eq_true]
    constructor
    · rintro (a | a | a)
      · exact Or.inl (Or.inl a.1.2)
      · exact Or.inl (Or.inr a)
      · exact Or.inr a
    · rintro ((a | a) | a)
      · exact Or.inl ⟨⟨h.1, a⟩, hl⟩
      · exact Or.inr (Or.inl a)
      · exact Or.inr (Or.inr a)
  have hf : ∀ x, k.liveF x = true → ((cloSet k (markReqs k)).f x ↔ Spec.deadF k (marksOf k) x = true) := by
    intro x hl
    have h := Logical.liveF_iff.mp hl
    have live : ∀ a ∈ k.faceAt x, k.liveE (a / 2) = true := by
      intro a ha
      have hr := hi.wf.range.faces _ (faceAt_mem_faces (k := k) h.1) a ha
      have hd := hi.closed.e x hl a ha
      exact Logical.liveE_iff.mpr ⟨by unfold Kernel.nHE at hr; omega, hd⟩
    rw [Logical.cloSet_f]
    show ((Req.face x ∈ markReqs k ∧ k.liveF x = true) ∨
      (∃ a ∈ k.faceAt x, k.liveE (a / 2) = true ∧ (cloSet k (markReqs k)).e (a / 2))) ↔ _
    rw [mem_markReqs_f]
    unfold Spec.deadF fDeleted
    have hm : (marksOf k).f.getD x false = markedF k x := marks_getD k.nF (markedF k) x h.1
    rw [hm, h.2]
    simp only [Bool.false_or, Bool.or_eq_true, List.any_eq_true]
    constructor
    · rintro (a | ⟨a, ha, _, hc⟩)
      · exact Or.inl a.1.2
      · exact Or.inr ⟨a, ha, (he _ (live a ha)).mp hc⟩
    · rintro (a | ⟨a, ha, hc⟩)
      · exact Or.inl ⟨⟨h.1, a⟩, hl⟩
      · exact Or.inr ⟨a, ha, live a ha, (he _ (live a ha)).mpr hc⟩
  refine ⟨hv, he, hf, ?_⟩
  intro x hl
  have h := Logical.liveC_iff.mp hl
  have live : ∀ a ∈ k.cellAt x, k.liveF (a / 2) = true := by
    intro a ha
    have hr := hi.wf.range.cells _ (cellAt_mem_cells (k := k) h.1) a ha
    have hd := hi.closed.f x hl a ha
    exact Logical.liveF_iff.mpr ⟨by unfold Kernel.nHF at hr; omega, hd⟩
  rw [Logical.cloSet_c]
  show ((Req.cell x ∈ markReqs k ∧ k.liveC x = true) ∨
    (∃ a ∈ k.cellAt x, k.liveF (a / 2) = true ∧ (cloSet k (markReqs k)).f (a / 2))) ↔ _
  rw [mem_markReqs_c]
  unfold Spec.deadC cDeleted
  have hm : (marksOf k).c.getD x false = markedC k x := marks_getD k.nC (markedC k) x h.1
  rw [hm, h.2]
  simp only [Bool.false_or, Bool.or_eq_true, List.any_eq_true]
  constructor
  · rintro (a | ⟨a, ha, _, hc⟩)
    · exact Or.inl a.1.2
    · exact Or.inr ⟨a, ha, (hf _ (live a ha)).mp hc⟩
  · rintro (a | ⟨a, ha, hc⟩)
    · exact Or.inl ⟨⟨h.1, a⟩, hl⟩
    · exact Or.inr ⟨a, ha, live a ha, (hf _ (live a ha)).mpr hc⟩

/-- **the dead set of the specification**, as a set of removed slots: everything that is not kept
    (`Spec.keepV/E/F/C`, OVM/Status/Spec.lean — a decidable function of the start state, the `deleted()` bits `mk` of
    the four status properties and the manifoldness flag) -/
def deadRem (k : Kernel) (mk : Marks) (man : Bool) : Rem :=
  ⟨fun v => Spec.keepV k mk man v = false, fun e => Spec.keepE k mk man e = false,
   fun f => Spec.keepF k mk man f = false, fun c => Spec.keepC k mk c = false⟩

theorem eqLive_cloSet_dead {k : Kernel} (hi : GInv k) :
    EqLive k (cloSet k (markReqs k)) (deadRem k (marksOf k) false) := by
  obtain ⟨hv, he, hf, hc⟩ := dead_iff_cloSet hi
  refine ⟨fun x h1 h2 => ?_, fun x h1 h2 => ?_, fun x h1 h2 => ?_, fun x h1 h2 => ?_⟩
  · rw [hv x (Logical.liveV_iff.mpr ⟨h1, h2⟩)]
    show _ ↔ Spec.keepV k (marksOf k) false x = false
    unfold Spec.keepV; simp [h1]
  · rw [he x (Logical.liveE_iff.mpr ⟨h1, h2⟩)]
    show _ ↔ Spec.keepE k (marksOf k) false x = false
    have : x < k.nE := h1
    unfold Spec.keepE; simp [this]
  · rw [hf x (Logical.liveF_iff.mpr ⟨h1, h2⟩)]
    show _ ↔ Spec.keepF k (marksOf k) false x = false
    have : x < k.nF := h1
    unfold Spec.keepF; simp [this]
  · rw [hc x (Logical.liveC_iff.mpr ⟨h1, h2⟩)]
    show _ ↔ Spec.keepC k (marksOf k) x = false
    have : x < k.nC := h1
    unfold Spec.keepC; simp [this]

/-- **the mark loops flag exactly the dead set and move nothing** (no manifoldness pass) -/
theorem mark4_logMinus {k : Kernel} (hi : GInv k) (hd : k.deferred = true) :
    LogMinus k (markedCells (markedFaces (markedEdges (markedVerts k)))) Ren.id (deadRem k (marksOf k) false) ∧
    GInv (markedCells (markedFaces (markedEdges (markedVerts k)))) := by
  rw [(mark4_eq k hd hi.wf.len).1]
  exact ⟨(Logical.runDef_logMinus hi hd (markReqs k)).congrLive (eqLive_cloSet_dead hi), (Logical.runDef_ginv hi hd _).1⟩

/-! ### around the mark phase: the deferred switch, the collection, the temporary columns -/

theorem enableDeferred_true (k : Kernel) : k.enableDeferred true = { k with deferred := true } := by
  unfold enableDeferred; simp

theorem enableDeferred_clean (k : Kernel) (b : Bool) (h : k.needsGC = false) :
    k.enableDeferred b = { k with deferred := b } := by
  unfold enableDeferred
  simp only [collectGarbage_nothing k h, ite_self]

theorem ginv_enableDeferred_true {k : Kernel} (hi : GInv k) : GInv (k.enableDeferred true) :=
  ginv_step k (.enableDeferred true) hi trivial

theorem deadRem_withDeferred (k : Kernel) (b : Bool) (man : Bool) :
    deadRem ({ k with deferred := b } : Kernel) (marksOf ({ k with deferred := b } : Kernel)) man =
      deadRem k (marksOf k) man := rfl

/-- the state after the collection has the same logical mesh as the marked state; switching the deferred flag back
    (nothing is pending) changes nothing -/
theorem collect_restore {k : Kernel} (hi : GInv k) (hd : k.deferred = true) (b : Bool) :
    ∃ ρ, LogIso k (k.collectGarbage.enableDeferred b) ρ := by
  obtain ⟨ρ, s⟩ := Logical.collectGarbage_log hi
  rw [enableDeferred_clean _ b (collectGarbage_clean k hd).1]
  generalize k.collectGarbage = g at s
  exact ⟨ρ, s.congr_right rfl rfl rfl rfl rfl rfl rfl rfl rfl⟩

theorem ginv_addTmp {k : Kernel} (hi : GInv k) : GInv (addTmp k) :=
  ginv_of_same (k := k)
    ⟨lenInv_addTmp k hi.wf.len, ⟨hi.wf.range.edges, hi.wf.range.faces, hi.wf.range.cells⟩,
      ⟨hi.wf.cache.v, hi.wf.cache.e, hi.wf.cache.f⟩⟩ hi.one rfl rfl rfl rfl rfl rfl rfl rfl rfl rfl rfl rfl rfl hi

theorem colsFollow_drop {P : Nat → Prop} {ρ : Nat → Nat} (key : String) : ∀ (cs : List Col) (c : Col) (L : List Col),
    c.key = key → (∀ x ∈ cs, x.key ≠ key) → ColsFollow P ρ (cs ++ [c]) L →
    ColsFollow P ρ cs (L.filter (fun x => x.key != key)) := by
  intro cs
  induction cs with
  | nil =>
    intro c L hk _ h
    cases L with
    | nil => exact h.elim
    | cons c' t =>
      cases t with
      | nil =>
        have hk' : c'.key = key := h.1.1.trans hk
        simp [List.filter, hk']
        exact True.intro
      | cons _ _ => exact h.2.elim
  | cons a cs ih =>
    intro c L hk hf h
    cases L with
    | nil => exact h.elim
    | cons a' L' =>
      have ha : a'.key ≠ key := by rw [h.1.1]; exact hf a (by simp)
      have hkeep : (a'.key != key) = true := by simpa using ha
      rw [List.filter_cons, if_pos hkeep]
      exact ⟨h.1, ih c L' hk (fun x hx => hf x (by simp [hx])) h.2⟩

/-- dropping the four temporary index columns after the collection gives a state with the logical mesh of the state
    before they were added -/
theorem logIso_dropTmp {k g : Kernel} {ρ : Ren} (hfr : Fresh k) (s : LogIso (addTmp k) g ρ) : LogIso k (dropTmp g) ρ := by
  refine ⟨⟨s.v.into, s.v.inj, s.v.onto, colsFollow_drop tmpV _ _ _ rfl hfr.1 s.v.cols⟩, s.e, s.f,
    ⟨s.c.into, s.c.inj, s.c.onto, colsFollow_drop tmpC _ _ _ rfl hfr.2.2.2 s.c.cols⟩,
    colsFollow_drop tmpHE _ _ _ rfl hfr.2.1 s.he, colsFollow_drop tmpHF _ _ _ rfl hfr.2.2.1 s.hf,
    s.edge, s.face, s.cell, s.m⟩

/-- the kernel state the tracking overload returns: the collected state without the temporary columns, deferred flag
    restored (only the ghost `fault` flag is recomputed) -/
theorem statusGC_k (k : Kernel) (man : Bool) (t : Tracked) (hne : t.isEmpty = false) :
    ∃ flt, (statusGC k man t).k =
      { (dropTmp (addTmp (markPhase k man)).collectGarbage).enableDeferred k.deferred with fault := flt } := by
  unfold statusGC
  simp only [hne, Bool.not_false, if_true]
  exact ⟨_, rfl⟩

theorem statusGC_plain_k (k : Kernel) (man : Bool) (t : Tracked) (he : t.isEmpty = true) :
    (statusGC k man t).k = ((markPhase k man).collectGarbage).enableDeferred k.deferred := by
  unfold statusGC
  simp [he]

/-- from the marked state to the result of `statusGC` (either overload): same logical mesh -/
theorem after_mark {k0 : Kernel} (man : Bool) (t : Tracked) (hfr : Fresh k0) (hg : GInv (markPhase k0 man))
    (hq : Q k0 (markPhase k0 man)) : ∃ ρ, LogIso (markPhase k0 man) (statusGC k0 man t).k ρ := by
  by_cases he : t.isEmpty = true
  · rw [statusGC_plain_k k0 man t he]
    exact collect_restore hg hq.dfr _
  · have hne : t.isEmpty = false := by simpa using he
    obtain ⟨flt, e⟩ := statusGC_k k0 man t hne
    rw [e]
    have hfr' : Fresh (markPhase k0 man) := by unfold Fresh; rw [hq.props]; exact hfr
    obtain ⟨ρ, s⟩ := Logical.collectGarbage_log (ginv_addTmp hg)
    have s' := logIso_dropTmp hfr' s
    have hcl : (dropTmp (addTmp (markPhase k0 man)).collectGarbage).needsGC = false :=
      (collectGarbage_clean (addTmp (markPhase k0 man)) hq.dfr).1
    rw [enableDeferred_clean _ _ hcl]
    generalize dropTmp (addTmp (markPhase k0 man)).collectGarbage = g at s'
    exact ⟨ρ, s'.congr_right rfl rfl rfl rfl rfl rfl rfl rfl rfl⟩

theorem markPhase_false (k : Kernel) :
    markPhase k false = markedCells (markedFaces (markedEdges (markedVerts (k.enableDeferred true)))) := by
  unfold markPhase; simp

/-- **`StatusAttrib::garbage_collection` without the manifoldness option erases exactly the dead set** (both
    overloads: `t` empty = the plain one) -/
theorem statusGC_dead_noMan {k0 : Kernel} (hi : GInv k0) (hfr : Fresh k0) (t : Tracked) :
    ∃ ρ, LogMinus k0 (statusGC k0 false t).k ρ (deadRem k0 (marksOf k0) false) := by
  have g1 := ginv_enableDeferred_true hi
  have hd1 : (k0.enableDeferred true).deferred = true := by rw [enableDeferred_true]
  obtain ⟨s, g2⟩ := mark4_logMinus g1 hd1
  rw [← markPhase_false] at s g2
  obtain ⟨ρ, s2⟩ := after_mark false t hfr g2 (markPhase_Q k0 false hi.wf.len)
  have s' := s.comp_iso s2
  rw [enableDeferred_true, deadRem_withDeferred] at s'
  exact ⟨_, s'.congr_left (k0 := k0) rfl rfl rfl rfl rfl rfl rfl rfl rfl⟩

end OVM.Status

import OVM.Kernel.Delete
/-
  S — what `StatusAttrib::garbage_collection` has to achieve (property C04, status part).

  Input: a kernel state `k` (possibly with pending deferred deletions), the status marks
  `mk` (the `deleted()` bits of the four status properties), the manifoldness flag.

  * `dead*`  : an entity is *logically removed* when it is already deleted, or marked, or one of
               the entities it is built from is logically removed (upward closure, by definition
               scan – no incidence cache is consulted).
  * `keep*`  : the survivors.  Without the option: the not-dead entities.  With the option, in
               addition a face survives only if it bounds a surviving cell, an edge only if it bounds
               a surviving face, a vertex only if it bounds a surviving edge.
  * `Renum`  : the renumbering old handle ↦ new handle, `none` = removed.
  * `check`  : the decidable statement "`k'` is the logical mesh of `k` under `ρ`": no pending
               deletion, `ρ` is a bijection from the survivors onto the slots of `k'`, definitions
               and every property column commute with `ρ`; `checkTracked`: a tracked handle is
               mapped through `ρ`, invalid handles stay invalid.
  `Holds` is the `Prop` the theorems and the judge's oracle share (`check … = []`).
-/
namespace OVM.Status
open OVM OVM.Kernel

/-- the `deleted()` bits of `vertex_status`, `edge_status`, `face_status`, `cell_status` -/
structure Marks where
  v : List Bool := []
  e : List Bool := []
  f : List Bool := []
  c : List Bool := []
deriving Repr, DecidableEq, Inhabited

namespace Spec

def deadV (k : Kernel) (mk : Marks) (v : Nat) : Bool := k.vDeleted v || mk.v.getD v false
def deadE (k : Kernel) (mk : Marks) (e : Nat) : Bool :=
  k.eDeleted e || mk.e.getD e false || deadV k mk (k.edgeAt e).1 || deadV k mk (k.edgeAt e).2
def deadF (k : Kernel) (mk : Marks) (f : Nat) : Bool :=
  k.fDeleted f || mk.f.getD f false || (k.faceAt f).any (fun h => deadE k mk (eOf h))
def deadC (k : Kernel) (mk : Marks) (c : Nat) : Bool :=
  k.cDeleted c || mk.c.getD c false || (k.cellAt c).any (fun hf => deadF k mk (eOf hf))

def keepC (k : Kernel) (mk : Marks) (c : Nat) : Bool := c < k.nC && !deadC k mk c

/-- face `f` is one of the faces of cell `c` -/
def faceInCell (k : Kernel) (c f : Nat) : Bool := (k.cellAt c).any (fun hf => eOf hf == f)
def edgeInFace (k : Kernel) (f e : Nat) : Bool := (k.faceAt f).any (fun h => eOf h == e)
def vertInEdge (k : Kernel) (e v : Nat) : Bool := (k.edgeAt e).1 == v || (k.edgeAt e).2 == v

def keepF (k : Kernel) (mk : Marks) (man : Bool) (f : Nat) : Bool :=
  f < k.nF && !deadF k mk f && (!man || (List.range k.nC).any (fun c => keepC k mk c && faceInCell k c f))
def keepE (k : Kernel) (mk : Marks) (man : Bool) (e : Nat) : Bool :=
  e < k.nE && !deadE k mk e && (!man || (List.range k.nF).any (fun f => keepF k mk man f && edgeInFace k f e))
def keepV (k : Kernel) (mk : Marks) (man : Bool) (v : Nat) : Bool :=
  v < k.nV && !deadV k mk v && (!man || (List.range k.nE).any (fun e => keepE k mk man e && vertInEdge k e v))

end Spec

/-- old handle ↦ new handle for the four entity kinds (`none` = removed) -/
structure Renum where
  v : List (Option Nat) := []
  e : List (Option Nat) := []
  f : List (Option Nat) := []
  c : List (Option Nat) := []
deriving Repr, DecidableEq, Inhabited

namespace Renum
def atV (ρ : Renum) (v : Nat) : Option Nat := ρ.v.getD v none
def atE (ρ : Renum) (e : Nat) : Option Nat := ρ.e.getD e none
def atF (ρ : Renum) (f : Nat) : Option Nat := ρ.f.getD f none
def atC (ρ : Renum) (c : Nat) : Option Nat := ρ.c.getD c none
/-- half-entity handles are mapped side-preservingly -/
def atHE (ρ : Renum) (h : Nat) : Option Nat := (ρ.atE (eOf h)).map (fun e => heOf e (side h))
def atHF (ρ : Renum) (h : Nat) : Option Nat := (ρ.atF (eOf h)).map (fun f => heOf f (side h))
end Renum

/-- the handles handed in for tracking (`-1` = invalid handle) -/
structure Tracked where
  v  : List Int := []
  he : List Int := []
  hf : List Int := []
  c  : List Int := []
deriving Repr, DecidableEq, Inhabited

namespace Spec

/-- `m` maps `{i < n | keep i}` bijectively onto `{0,…,n'-1}` and everything else to `none` -/
def bijOnto (n : Nat) (keep : Nat → Bool) (m : Nat → Option Nat) (n' : Nat) : Bool :=
  (List.range n).all (fun i => (m i).isSome == keep i) &&
  (List.range n).all (fun i => match m i with | some j => decide (j < n') | none => true) &&
  (List.range n').all (fun j => ((List.range n).filter (fun i => m i == some j)).length == 1)

/-- one property column is carried along `m` (old slot ↦ new slot) -/
def colCarried (n : Nat) (m : Nat → Option Nat) (c c' : Col) : Bool :=
  c.dflt == c'.dflt &&
  (List.range n).all (fun i => match m i with
    | some j => c'.vals[j]? == c.vals[i]?
    | none => true)

/-- every column of the old list has a partner with the same key that is carried; no column appears -/
def colsCarried (n : Nat) (m : Nat → Option Nat) (cs cs' : List Col) : Bool :=
  cs.length == cs'.length &&
  cs.all (fun c => match cs'.find? (·.key == c.key) with
    | some c' => colCarried n m c c'
    | none => false)

/-- the list of violated clauses (empty = the specification holds) -/
def check (k : Kernel) (mk : Marks) (man : Bool) (k' : Kernel) (ρ : Renum) : List String :=
  let no := fun (b : Bool) (s : String) => if b then [] else [s]
  no (k'.vDel.all (!·) && k'.eDel.all (!·) && k'.fDel.all (!·) && k'.cDel.all (!·) && !k'.needsGC)
     "pending-deletion-left" ++
  no (k'.vDel.length == k'.nV && k'.eDel.length == k'.nE && k'.fDel.length == k'.nF && k'.cDel.length == k'.nC)
     "flag-array-sizes" ++
  no (bijOnto k.nV (keepV k mk man) ρ.atV k'.nV) "vertices:survivors-are-not-exactly-the-logical-ones" ++
  no (bijOnto k.nE (keepE k mk man) ρ.atE k'.nE) "edges:survivors-are-not-exactly-the-logical-ones" ++
  no (bijOnto k.nF (keepF k mk man) ρ.atF k'.nF) "faces:survivors-are-not-exactly-the-logical-ones" ++
  no (bijOnto k.nC (keepC k mk) ρ.atC k'.nC) "cells:survivors-are-not-exactly-the-logical-ones" ++
  no ((List.range k.nE).all (fun e => match ρ.atE e with
        | some e' => ρ.atV (k.edgeAt e).1 == some (k'.edgeAt e').1 && ρ.atV (k.edgeAt e).2 == some (k'.edgeAt e').2
        | none => true)) "edge-definition-changed" ++
  no ((List.range k.nF).all (fun f => match ρ.atF f with
        | some f' => (k.faceAt f).map ρ.atHE == (k'.faceAt f').map some
        | none => true)) "face-definition-changed" ++
  no ((List.range k.nC).all (fun c => match ρ.atC c with
        | some c' => (k.cellAt c).map ρ.atHF == (k'.cellAt c').map some
        | none => true)) "cell-definition-changed" ++
  no (colsCarried k.nV ρ.atV k.props.v k'.props.v) "vertex-property-not-carried" ++
  no (colsCarried k.nE ρ.atE k.props.e k'.props.e) "edge-property-not-carried" ++
  no (colsCarried k.nHE ρ.atHE k.props.he k'.props.he) "halfedge-property-not-carried" ++
  no (colsCarried k.nF ρ.atF k.props.f k'.props.f) "face-property-not-carried" ++
  no (colsCarried k.nHF ρ.atHF k.props.hf k'.props.hf) "halfface-property-not-carried" ++
  no (colsCarried k.nC ρ.atC k.props.c k'.props.c) "cell-property-not-carried" ++
  no (k.props.m == k'.props.m || (k.props.m.length == k'.props.m.length &&
        k.props.m.all (fun c => k'.props.m.any (fun c' => c' == c)))) "mesh-property-changed"

def optInt (o : Option Nat) : Int := match o with | some x => (x : Int) | none => -1

/-- a tracked handle designates the same entity afterwards, or is invalid if that entity was
    removed; an invalid handle stays invalid -/
def trackedOk (m : Nat → Option Nat) (t t' : List Int) : Bool :=
  t.length == t'.length &&
  (t.zip t').all (fun p => if p.1 < 0 then p.2 == p.1 else p.2 == optInt (m p.1.toNat))

def checkTracked (ρ : Renum) (t t' : Tracked) : List String :=
  let no := fun (b : Bool) (s : String) => if b then [] else [s]
  no (trackedOk ρ.atV t.v t'.v) "tracked-vertex-handle" ++
  no (trackedOk ρ.atHE t.he t'.he) "tracked-halfedge-handle" ++
  no (trackedOk ρ.atHF t.hf t'.hf) "tracked-halfface-handle" ++
  no (trackedOk ρ.atC t.c t'.c) "tracked-cell-handle"

end Spec

/-- C04 (status part): `k'` with tracked handles `t'` is a correct result of
    `StatusAttrib::garbage_collection` on `k` with marks `mk`, tracked handles `t`. -/
def Holds (k : Kernel) (mk : Marks) (man : Bool) (t : Tracked) (k' : Kernel) (t' : Tracked) (ρ : Renum) : Prop :=
  Spec.check k mk man k' ρ = [] ∧ Spec.checkTracked ρ t t' = []

instance (k : Kernel) (mk : Marks) (man : Bool) (t : Tracked) (k' : Kernel) (t' : Tracked) (ρ : Renum) :
    Decidable (Holds k mk man t k' t' ρ) := by unfold Holds; exact inferInstance

end OVM.Status

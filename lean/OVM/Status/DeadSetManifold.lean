import OVM.Status.DeadSet
/-
  C04 (status part) — the `_preserveManifoldness` pass of `StatusAttrib::garbage_collection` (impl.hh:81-98).
  After the mark loops: all three incidence kinds are enabled, then three loops delete
    every live face neither of whose halffaces has an incident cell,
    every live edge of valence 0 (no incident halfface),
    every live vertex of valence 0 (no outgoing halfedge)
  — ALL such entities, not only those that were incident to something deleted.
-/
namespace OVM.Status
open OVM OVM.Kernel OVM.Kernel.Global ScanDel
open OVM.Kernel.Logical (Req Ren Rem LogMinus LogIso runDef cloSet reqSet EqLive)

/-- a loop whose condition implies liveness keeps the reachability invariant and moves nothing -/
theorem sweep_ginv (n : Nat) (cond : Kernel → Nat → Bool) (mk : Nat → Req) (k : Kernel)
    (hlive : ∀ k' i, Q k k' → i < n → cond k' i = true → (mk i).live k' = true)
    (hi : GInv k) (hd : k.deferred = true) : GInv (sweep n cond mk k) ∧ Q k (sweep n cond mk k) := by
  unfold sweep
  suffices ∀ (xs : List Nat), (∀ x ∈ xs, x < n) → ∀ k', GInv k' → Q k k' →
      GInv (xs.foldl (fun k i => if cond k i then (mk i).apply k else k) k') ∧
      Q k (xs.foldl (fun k i => if cond k i then (mk i).apply k else k) k') from
    this (List.range n) (fun x hx => List.mem_range.1 hx) k hi ⟨hd, rfl, rfl, rfl, rfl, rfl, hi.wf.len⟩
  intro xs
  induction xs with
  | nil => intro _ k' g q; exact ⟨g, q⟩
  | cons x t ih =>
    intro hx k' g q
    simp only [List.foldl_cons]
    by_cases hc : cond k' x = true
    · have hl := hlive k' x q (hx x (by simp)) hc
      rw [if_pos hc]
      exact ih (fun y hy => hx y (by simp [hy])) _ (Logical.Req.ginv g hl) (q.trans' (Req.statusQ q.dfr q.len hl))
    · rw [if_neg hc]
      exact ih (fun y hy => hx y (by simp [hy])) _ g q

theorem manifoldFaces_eq_sweep (k : Kernel) : manifoldFaces k = sweep k.nF
    (fun k f => !k.fDeleted f && (k.cellOf (heOf f 0)).isNone && (k.cellOf (heOf f 1)).isNone) Req.face k := rfl
theorem manifoldEdges_eq_sweep (k : Kernel) : manifoldEdges k = sweep k.nE
    (fun k e => !k.eDeleted e && (k.hfsOf (heOf e 0)).length == 0) Req.edge k := rfl
theorem manifoldVerts_eq_sweep (k : Kernel) : manifoldVerts k = sweep k.nV
    (fun k v => !k.vDeleted v && (k.outOf v).length == 0) Req.vertex k := rfl

theorem ginv_enableAllBU {k : Kernel} (hi : GInv k) : GInv (enableAllBU k) :=
  ginv_enableFBU true (ginv_enableEBU true (ginv_enableVBU true hi))

theorem frame_enableAllBU (k : Kernel) : Frame k (enableAllBU k) := by
  have a := frame_enableVBU k true
  have b := frame_enableEBU (k.enableVBU true) true
  have c := frame_enableFBU ((k.enableVBU true).enableEBU true) true
  exact ⟨c.nV.trans (b.nV.trans a.nV), c.edges.trans (b.edges.trans a.edges), c.faces.trans (b.faces.trans a.faces),
    c.cells.trans (b.cells.trans a.cells), c.vDel.trans (b.vDel.trans a.vDel), c.eDel.trans (b.eDel.trans a.eDel),
    c.fDel.trans (b.fDel.trans a.fDel), c.cDel.trans (b.cDel.trans a.cDel), c.nDelV.trans (b.nDelV.trans a.nDelV),
    c.nDelE.trans (b.nDelE.trans a.nDelE), c.nDelF.trans (b.nDelF.trans a.nDelF), c.nDelC.trans (b.nDelC.trans a.nDelC),
    c.deferred.trans (b.deferred.trans a.deferred), c.fast.trans (b.fast.trans a.fast), c.props.trans (b.props.trans a.props)⟩

theorem enableVBU_vBU (k : Kernel) : (k.enableVBU true).vBU = true := by
  unfold enableVBU; simp only [if_true]; split <;> simp_all
theorem enableEBU_flags (k : Kernel) : (k.enableEBU true).eBU = true ∧ (k.enableEBU true).vBU = k.vBU := by
  unfold enableEBU; simp only [if_true]
  split
  · simp_all
  · split <;> simp [reorderAll]
theorem enableFBU_flags (k : Kernel) :
    (k.enableFBU true).fBU = true ∧ (k.enableFBU true).vBU = k.vBU ∧ (k.enableFBU true).eBU = k.eBU := by
  unfold enableFBU; simp only [if_true]
  split
  · simp_all
  · split <;> simp [reorderAll]
theorem enableAllBU_flags (k : Kernel) :
    (enableAllBU k).vBU = true ∧ (enableAllBU k).eBU = true ∧ (enableAllBU k).fBU = true := by
  unfold enableAllBU
  have a := enableVBU_vBU k
  have b := enableEBU_flags (k.enableVBU true)
  have c := enableFBU_flags ((k.enableVBU true).enableEBU true)
  exact ⟨c.2.1.trans (b.2.trans a), c.2.2.trans b.1, c.1⟩

theorem logIso_of_frame {k k' : Kernel} (f : Frame k k') : LogIso k k' Ren.id :=
  Logical.LogIso.refl_of_eq f.nV f.edges f.faces f.cells f.vDel f.eDel f.fDel f.cDel f.props

/-- the three manifoldness loops keep the reachability invariant (every deletion is of a live entity) -/
theorem manifold_ginv {k : Kernel} (hi : GInv k) (hd : k.deferred = true) :
    GInv (manifoldVerts (manifoldEdges (manifoldFaces k))) ∧ Q k (manifoldVerts (manifoldEdges (manifoldFaces k))) := by
  obtain ⟨g1, q1⟩ := sweep_ginv k.nF _ Req.face k (fun k' i q hi' hc => by
    have hc' : (!k'.fDeleted i && (k'.cellOf (heOf i 0)).isNone && (k'.cellOf (heOf i 1)).isNone) = true := hc
    show k'.liveF i = true
    unfold liveF; rw [q.nF]
    simp only [Bool.and_eq_true] at hc'
    simp [hi', hc'.1.1]) hi hd
  rw [← manifoldFaces_eq_sweep] at g1 q1
  obtain ⟨g2, q2⟩ := sweep_ginv (manifoldFaces k).nE _ Req.edge _ (fun k' i q hi' hc => by
    have hc' : (!k'.eDeleted i && (k'.hfsOf (heOf i 0)).length == 0) = true := hc
    show k'.liveE i = true
    unfold liveE; rw [q.nE]
    simp only [Bool.and_eq_true] at hc'
    simp [hi', hc'.1]) g1 q1.dfr
  rw [← manifoldEdges_eq_sweep] at g2 q2
  obtain ⟨g3, q3⟩ := sweep_ginv (manifoldEdges (manifoldFaces k)).nV _ Req.vertex _ (fun k' i q hi' hc => by
    have hc' : (!k'.vDeleted i && (k'.outOf i).length == 0) = true := hc
    show k'.liveV i = true
    unfold liveV; rw [q.nV]
    simp only [Bool.and_eq_true] at hc'
    simp [hi', hc'.1]) g2 q2.dfr
  rw [← manifoldVerts_eq_sweep] at g3 q3
  exact ⟨g3, (q1.trans' q2).trans' q3⟩

theorem markPhase_true (k : Kernel) :
    markPhase k true = manifoldVerts (manifoldEdges (manifoldFaces (enableAllBU
      (markedCells (markedFaces (markedEdges (markedVerts (k.enableDeferred true)))))))) := by
  unfold markPhase; simp

/-- **with the manifoldness option, everything except the three manifoldness loops**: the state handed to the loops is
    the start mesh minus the dead set (renumbering nothing), with all incidences enabled; the loops keep the invariant;
    and the result of `statusGC` has the logical mesh of the state the loops leave -/
theorem statusGC_man_frame {k0 : Kernel} (hi : GInv k0) (hfr : Fresh k0) (t : Tracked) :
    ∃ kb, markPhase k0 true = manifoldVerts (manifoldEdges (manifoldFaces kb)) ∧
      LogMinus k0 kb Ren.id (deadRem k0 (marksOf k0) false) ∧ GInv kb ∧ kb.deferred = true ∧
      kb.vBU = true ∧ kb.eBU = true ∧ kb.fBU = true ∧
      GInv (markPhase k0 true) ∧ ∃ ρ, LogIso (markPhase k0 true) (statusGC k0 true t).k ρ := by
  have g1 := ginv_enableDeferred_true hi
  have hd1 : (k0.enableDeferred true).deferred = true := by rw [enableDeferred_true]
  obtain ⟨s, g2⟩ := mark4_logMinus g1 hd1
  have q := (mark4_eq _ hd1 g1.wf.len).2
  have e := markPhase_true k0
  generalize markedCells (markedFaces (markedEdges (markedVerts (k0.enableDeferred true)))) = km at s g2 q e
  have gb := ginv_enableAllBU g2
  have fb := frame_enableAllBU km
  have hdb : (enableAllBU km).deferred = true := fb.deferred.trans q.dfr
  obtain ⟨g3, _⟩ := manifold_ginv gb hdb
  have s' := s.comp_iso (logIso_of_frame fb)
  rw [enableDeferred_true, deadRem_withDeferred] at s'
  have hbu := enableAllBU_flags km
  refine ⟨enableAllBU km, ?_, (s'.congr_left (k0 := k0) rfl rfl rfl rfl rfl rfl rfl rfl rfl).cast rfl, gb, hdb,
    hbu.1, hbu.2.1, hbu.2.2, ?_, ?_⟩
  · rw [e]
  · rw [e]; exact g3
  · have g3' : GInv (markPhase k0 true) := by rw [e]; exact g3
    exact after_mark true t hfr g3' (markPhase_Q k0 true hi.wf.len)

/-! ### two small states for the non-vacuity examples -/

/-- the tetrahedron `tetK` with a face-status column: face 2 (opposite vertex 0) is marked deleted -/
def tetSt : Kernel :=
  { tetK with props := { f := [{ key := "face_status", dflt := 0, vals := [0, 0, 1, 0] }] } }

/-- two tetrahedra (0,1,2,3) and (1,2,3,4) sharing face 2, immediate index-shifting mode, no incidences enabled; the
    second cell is marked deleted -/
def twoTetSt : Kernel :=
  { nV := 5, edges := [(0, 1), (1, 2), (2, 0), (0, 3), (3, 1), (3, 2), (1, 4), (2, 4), (3, 4)],
    faces := [[0, 2, 4], [6, 8, 1], [9, 10, 3], [5, 11, 7], [2, 14, 13], [11, 16, 15], [8, 12, 17]],
    cells := [[1, 3, 5, 7], [4, 8, 10, 12]],
    vDel := [false, false, false, false, false], eDel := List.replicate 9 false, fDel := List.replicate 7 false,
    cDel := [false, false], vBU := false, eBU := false, fBU := false, deferred := false, fast := false,
    props := { c := [{ key := "cell_status", dflt := 0, vals := [0, 1] }] } }

set_option maxRecDepth 8000 in
theorem wf_tetSt : WF tetSt := by
  refine ⟨?_, ?_, ⟨?_, ?_, ?_⟩⟩
  · constructor <;> (try unfold ColsLen) <;> decide
  · constructor <;> decide
  · unfold CacheInvV; decide
  · unfold CacheInvE; decide
  · unfold CacheInvF; decide

set_option maxRecDepth 8000 in
theorem wf_twoTetSt : WF twoTetSt := by
  refine ⟨?_, ?_, ⟨?_, ?_, ?_⟩⟩
  · constructor <;> (try unfold ColsLen) <;> decide
  · constructor <;> decide
  · unfold CacheInvV; decide
  · unfold CacheInvE; decide
  · unfold CacheInvF; decide

set_option maxRecDepth 8000 in
theorem ginv_tetSt : GInv tetSt :=
  ginv_of_noFlag wf_tetSt (by decide) (by unfold NoFlag; decide) (by unfold NoFlag; decide) (by unfold NoFlag; decide)
    (by unfold NoFlag; decide)
set_option maxRecDepth 8000 in
theorem ginv_twoTetSt : GInv twoTetSt :=
  ginv_of_noFlag wf_twoTetSt (by decide) (by unfold NoFlag; decide) (by unfold NoFlag; decide) (by unfold NoFlag; decide)
    (by unfold NoFlag; decide)

theorem fresh_tetSt : Fresh tetSt := by simp [Fresh, tetSt, tetK]
theorem fresh_twoTetSt : Fresh twoTetSt := by simp [Fresh, twoTetSt, tmpC]

end OVM.Status

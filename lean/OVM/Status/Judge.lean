import OVM.Status.Model
import Judge.Oracles
import Std.Data.HashMap
import Std.Data.HashSet
/-
  statusjudge: reads `harness/status_drv.cc` trace files and prints one line per finding, in the
  format of ovmjudge:
    XFAIL  trace=<t> step=<k> op=status_gc field=<f> model=<..> impl=<..>   model and code disagree
    ORACLE trace=<t> step=<k> op=status_gc prop=<C04|CRASH|DRIVER> witness=<..>
                                                 the property fails on the implementation's own output
    DRIFT  trace=<t> step=<k> op=status_gc field=<f>                       informational
    TRACE  <t> steps=<n> crash=<b>      STAT <key> <value>      HIST <what> <key> <value>
  Per `status_gc` step:
   (X) `OVM.Status.statusGC` is run on the dumped before-state and compared, field by field
       (`Judge.cmpKernel`; cache *order* is informational), with the dumped after-state, and the
       tracked handles it computes with the ones the implementation returned;
   (O) the specification `OVM.Status.Spec.check / checkTracked` is evaluated on the implementation's
       output alone: the renumbering `ρ` is read off the entity identity tokens (columns `idv, ide,
       idf, idc`, unique per entity), so the oracle does not depend on any renumbering policy.
-/
open OVM OVM.Kernel Judge OVM.Status

namespace OVM.Status.Judge

structure GStep where
  args : List Int := []
  res : List Int := []
  haveRes : Bool := false
  pre : Obs := {}
  post : Obs := {}
  crashed : Option String := none
deriving Inhabited

structure GTrace where
  header : String := ""
  steps : Array GStep := #[]
  gops : Array String := #[]
  crash : Option String := none
deriving Inhabited

structure PS where
  traces : Array GTrace := #[]
  cur : GTrace := {}
  inTrace : Bool := false
  ob : OB := {}
  pre : Obs := {}
  step : GStep := {}
  mode : Nat := 0        -- 0 idle, 1 inside B block, 2 after O (collecting the after-state)
deriving Inhabited

def PS.flush (p : PS) : PS :=
  if p.inTrace then { p with traces := p.traces.push p.cur, cur := {}, inTrace := false, mode := 0 } else p

def PS.line (p : PS) (line : String) : PS :=
  match toks line with
  | [] => p
  | "T" :: _ => let p := p.flush; { p with cur := { header := line }, inTrace := true, mode := 0 }
  | "G" :: name :: _ => { p with cur := { p.cur with gops := p.cur.gops.push name } }
  | "B" :: _ => { p with ob := {}, mode := 1 }
  | "O" :: _name :: args => { p with step := { args := intList args, pre := p.pre }, ob := {}, mode := 2 }
  | "R" :: r => { p with step := { p.step with res := intList r, haveRes := true } }
  | "E" :: _ =>
    if p.mode == 1 then { p with pre := p.ob.finish, ob := {}, mode := 0 }
    else if p.mode == 2 then
      { p with cur := { p.cur with steps := p.cur.steps.push { p.step with post := p.ob.finish } }, ob := {}, mode := 0 }
    else p
  | "X" :: r =>
    let why := " ".intercalate r
    let cur := if p.mode == 2 then { p.cur with steps := p.cur.steps.push { p.step with crashed := some why } } else p.cur
    { p with cur := { cur with crash := some why }, mode := 0 }
  | t => if p.mode == 0 then p else { p with ob := p.ob.line t }

def parseFile (lines : Array String) : Array GTrace := (lines.foldl PS.line {}).flush.traces

/-- `n x1 … xn` prefix of a list -/
def takeList (l : List Int) : List Int × List Int :=
  match l with
  | [] => ([], [])
  | n :: r => (r.take n.toNat, r.drop n.toNat)

def parseTracked (l : List Int) : Tracked × List Int :=
  let (v, r) := takeList l
  let (he, r) := takeList r
  let (hf, r) := takeList r
  let (c, r) := takeList r
  ({ v := v, he := he, hf := hf, c := c }, r)

def traceNo (h : String) : String :=
  match (toks h).find? (·.startsWith "trace=") with
  | some s => (s.drop 6).toString
  | none => "?"

def nodupI (l : List Int) : Bool := (l.zipIdx.all (fun p => (l.take p.2).all (· != p.1)))

/-- `ρ` from the identity tokens: old slot ↦ the new slot holding the same token -/
def renumOfTokens (pre post : Kernel) : Option Renum := do
  let a ← idCol pre.props.v "idv"; let a' ← idCol post.props.v "idv"
  let b ← idCol pre.props.e "ide"; let b' ← idCol post.props.e "ide"
  let c ← idCol pre.props.f "idf"; let c' ← idCol post.props.f "idf"
  let d ← idCol pre.props.c "idc"; let d' ← idCol post.props.c "idc"
  let m := fun (old new : List Int) => old.map (fun t => let i := new.findIdx (· == t); if i < new.length then some i else none)
  pure { v := m a a', e := m b b', f := m c c', c := m d d' }

def tokensOk (k : Kernel) : Bool :=
  match idCol k.props.v "idv", idCol k.props.e "ide", idCol k.props.f "idf", idCol k.props.c "idc" with
  | some a, some b, some c, some d =>
    nodupI a && nodupI b && nodupI c && nodupI d && a.length == k.nV && b.length == k.nE && c.length == k.nF && d.length == k.nC
  | _, _, _, _ => false

def showT (t : Tracked) : String := s!"v{showLI t.v} he{showLI t.he} hf{showLI t.hf} c{showLI t.c}"

structure Acc where
  out : List Finding := []
  stats : Std.HashMap String Nat := {}

def Acc.bump (a : Acc) (k : String) (n : Nat := 1) : Acc := { a with stats := a.stats.insert k (a.stats.getD k 0 + n) }

def judgeStep (s : GStep) : Acc := Id.run do
  let mut a : Acc := {}
  match s.crashed with
  | some why => return { a with out := [Finding.oracle "CRASH" s!"status_gc {s.args}: {why}"] }
  | none => pure ()
  let pre := s.pre.k
  let post := s.post.k
  match s.args with
  | ov :: man :: rest =>
    let manifold := man != 0
    let (t, _) := parseTracked rest
    let (t', _) := parseTracked s.res
    -- the driver's own contract: unique identity tokens, tracked handles in range or invalid
    if !tokensOk pre then a := { a with out := a.out ++ [Finding.oracle "DRIVER" "identity tokens of the before-state are not unique / complete"] }
    let inRange := fun (l : List Int) (n : Nat) => l.all (fun h => h == -1 || (0 ≤ h && h.toNat < n))
    if !(inRange t.v pre.nV && inRange t.he pre.nHE && inRange t.hf pre.nHF && inRange t.c pre.nC) then
      a := { a with out := a.out ++ [Finding.oracle "DRIVER" "tracked handle out of range"] }
    -- (X) model on the implementation's before-state
    let r := statusGC pre manifold t
    a := { a with out := a.out ++ cmpKernel r.k post false }
    if r.t != t' then a := { a with out := a.out ++ [Finding.xfail "tracked" (showT r.t) (showT t')] }
    -- (O) the specification on the implementation's output alone
    let mk := marksOf pre
    match renumOfTokens pre post with
    | none => a := { a with out := a.out ++ [Finding.oracle "C04" "an identity column disappeared"] }
    | some ρ =>
      if !tokensOk post then a := { a with out := a.out ++ [Finding.oracle "C04" "after the collection two entities carry the same identity token, or an identity column has the wrong size"] }
      let bad := Spec.check pre mk manifold post ρ ++ Spec.checkTracked ρ t t'
      for w in bad do
        a := { a with out := a.out ++ [Finding.oracle "C04" s!"{w} (manifold={manifold} overload={ov} deferred={pre.deferred} fast={pre.fast} bu={pre.vBU},{pre.eBU},{pre.fBU} tracked {showT t} -> {showT t'})"] }
      -- model against the specification as well (dynamic form of the refinement theorem)
      let ρm : Renum := { v := r.newV, e := (List.range pre.nE).map (fun e => (r.newHE.getD (2 * e) none).map (· / 2)),
                          f := (List.range pre.nF).map (fun f => (r.newHF.getD (2 * f) none).map (· / 2)), c := r.newC }
      if !t.isEmpty then
        a := a.bump "dyn_model_spec_evaluated"
        let badm := Spec.check pre mk manifold (dropTmp r.k) ρm ++ Spec.checkTracked ρm t r.t
        if !badm.isEmpty then a := { a with out := a.out ++ [Finding.xfail "model-vs-spec" (toString badm) ""] }
      -- statistics
      let cnt := fun (l : List Bool) => l.countP id
      let keptV := (List.range pre.nV).map (Spec.keepV pre mk manifold)
      let keptE := (List.range pre.nE).map (Spec.keepE pre mk manifold)
      let keptF := (List.range pre.nF).map (Spec.keepF pre mk manifold)
      let keptC := (List.range pre.nC).map (Spec.keepC pre mk)
      let keptF0 := (List.range pre.nF).map (Spec.keepF pre mk false)
      let keptE0 := (List.range pre.nE).map (Spec.keepE pre mk false)
      let keptV0 := (List.range pre.nV).map (Spec.keepV pre mk false)
      let removed := (pre.nV + pre.nE + pre.nF + pre.nC) - (cnt keptV + cnt keptE + cnt keptF + cnt keptC)
      let pend := pre.vDel.countP id + pre.eDel.countP id + pre.fDel.countP id + pre.cDel.countP id
      let nmark := cnt mk.v + cnt mk.e + cnt mk.f + cnt mk.c
      let mfRemoved := (cnt keptF0 - cnt keptF) + (cnt keptE0 - cnt keptE) + (cnt keptV0 - cnt keptV)
      a := a.bump "entities_before" (pre.nV + pre.nE + pre.nF + pre.nC)
      a := a.bump "entities_removed" removed
      a := a.bump "entities_pending_before" pend
      a := a.bump "entities_marked" nmark
      a := a.bump "removed_by_manifold_pass" mfRemoved
      if removed > 0 then a := a.bump "steps_removing_something"
      if removed > 0 && removed < pre.nV + pre.nE + pre.nF + pre.nC then a := a.bump "steps_partial_removal"
      if mfRemoved > 0 then a := a.bump "steps_manifold_pass_removes"
      if pend > 0 then a := a.bump "steps_with_pending_deletions"
      if pend > 0 && nmark > 0 then a := a.bump "steps_with_pending_and_marks"
      let tr := fun (a : Acc) (kind : String) (m : Nat → Option Nat) (l : List Int) =>
        l.foldl (fun (a : Acc) (h : Int) => if h < 0 then a.bump s!"tracked_{kind}_invalid_in" else
          match m h.toNat with | some _ => a.bump s!"tracked_{kind}_survives" | none => a.bump s!"tracked_{kind}_removed") a
      a := tr a "v" ρ.atV t.v
      a := tr a "he" ρ.atHE t.he
      a := tr a "hf" ρ.atHF t.hf
      a := tr a "c" ρ.atC t.c
      let moved := (t.v.zip t'.v ++ t.he.zip t'.he ++ t.hf.zip t'.hf ++ t.c.zip t'.c).countP (fun p => p.2 ≥ 0 && p.1 != p.2)
      a := a.bump "tracked_handles_renumbered" moved
    a := { a with out := a.out ++ checkBookkeeping s.post ++ checkPropSizes post }
    a := a.bump s!"HIST overload {ov}"
    a := a.bump s!"HIST manifold {man}"
    a := a.bump s!"HIST mode(deferred,fast) {pre.deferred},{pre.fast}"
    a := a.bump s!"HIST bu(v,e,f) {pre.vBU},{pre.eBU},{pre.fBU}"
    a := a.bump s!"HIST tracking {if t.isEmpty then "none" else "some"}"
  | _ => a := { a with out := [Finding.oracle "DRIVER" "malformed status_gc line"] }
  -- one line per distinct finding
  let mut seen : List String := []
  let mut res : List Finding := []
  for f in a.out do
    let key := match f with
      | .xfail fld _ _ => "X" ++ fld
      | .oracle p w => "O" ++ p ++ toString (hash ((w.splitOn " (").headD w))
      | .drift fld => "D" ++ fld
    if !seen.contains key then
      seen := key :: seen
      res := res ++ [f]
  return { a with out := res }

def fmt (t : String) (k : Nat) : Finding → String
  | .xfail f m i => s!"XFAIL trace={t} step={k} op=status_gc field={f} model={m} impl={i}"
  | .oracle p w => s!"ORACLE trace={t} step={k} op=status_gc prop={p} witness={w}"
  | .drift f => s!"DRIFT trace={t} step={k} op=status_gc field={f}"

def stateKey (k : Kernel) : UInt64 :=
  hash (k.nV, k.edges, k.faces, k.cells, k.vDel, k.eDel, k.fDel, k.cDel, k.deferred, k.fast, k.vBU, k.eBU, k.fBU)

end OVM.Status.Judge

open OVM.Status.Judge in
def main (args : List String) : IO UInt32 := do
  let mut nSteps := 0
  let mut nTraces := 0
  let mut nFind := 0
  let mut stats : Std.HashMap String Nat := {}
  let mut states : Std.HashSet UInt64 := {}
  let mut inputs : Std.HashSet UInt64 := {}
  let mut gops : Std.HashMap String Nat := {}
  for path in args do
    let lines ← IO.FS.lines path
    for tr in OVM.Status.Judge.parseFile lines do
      nTraces := nTraces + 1
      let t := traceNo tr.header
      for g in tr.gops do gops := gops.insert g (gops.getD g 0 + 1)
      let mut idx := 0
      for s in tr.steps do
        let a := judgeStep s
        for f in a.out do
          IO.println (fmt t idx f)
          match f with | .drift _ => pure () | _ => nFind := nFind + 1
        for (k, v) in a.stats.toList do stats := stats.insert k (stats.getD k 0 + v)
        nSteps := nSteps + 1
        states := states.insert (stateKey s.pre.k)
        inputs := inputs.insert (hash (stateKey s.pre.k, (marksOf s.pre.k).v, (marksOf s.pre.k).e, (marksOf s.pre.k).f, (marksOf s.pre.k).c, s.args))
        idx := idx + 1
      match tr.crash with
      | some why => if tr.steps.all (·.crashed.isNone) then
          IO.println s!"ORACLE trace={t} step={idx} op=setup prop=CRASH witness=the driver died outside status_gc: {why}"
          nFind := nFind + 1
      | none => pure ()
      IO.println s!"TRACE {t} steps={tr.steps.size} crash={tr.crash.isSome}"
  IO.println s!"STAT traces {nTraces}"
  IO.println s!"STAT steps {nSteps}"
  IO.println s!"STAT findings {nFind}"
  IO.println s!"STAT distinct_before_states {states.size}"
  IO.println s!"STAT distinct_inputs {inputs.size}"
  for (k, v) in stats.toList do
    if k.startsWith "HIST " then IO.println s!"{k} {v}" else IO.println s!"STAT {k} {v}"
  for (k, v) in gops.toList do IO.println s!"HIST setup_op {k} {v}"
  return 0

import OVM.Status.DeadSetManifold
import OVM.Refine.GlobalQueries
/-
  C04 (status part) — the three manifoldness loops of `StatusAttrib::garbage_collection` (impl.hh:83-97) erase exactly
  the live faces bounding no live cell, then the live edges bounding no remaining face, then the live vertices bounding
  no remaining edge.  Per loop: by `CacheInv` of the current state the loop condition is "live ∧ nothing live one level up
  contains it" (`condF/E/V_iff`); deleting such an entity flags only itself (`Flagged` with empty incidence lists), so
  the condition of the other slots does not change; hence the loop is a deferred run of requests (`sweep_eq_runDef`) and
  removes the closure of the isolated entities, which on live slots is just those entities (`eqLive_isoF/E/V`).
-/
namespace OVM.Status
open OVM OVM.Kernel OVM.Kernel.Global ScanDel
open OVM.Kernel.Logical (Req Ren Rem LogMinus LogIso runDef cloSet reqSet EqLive)

/-! ### the loop conditions, read through the cache invariant -/

def condF (k : Kernel) (f : Nat) : Bool := (k.cellOf (heOf f 0)).isNone && (k.cellOf (heOf f 1)).isNone
def condE (k : Kernel) (e : Nat) : Bool := (k.hfsOf (heOf e 0)).length == 0
def condV (k : Kernel) (v : Nat) : Bool := (k.outOf v).length == 0

/-- no live cell has a halfface of `f` -/
def IsoF (k : Kernel) (f : Nat) : Prop := ∀ c, k.liveC c = true → ∀ a ∈ k.cellAt c, eOf a ≠ f
/-- no live face has a halfedge of `e` -/
def IsoE (k : Kernel) (e : Nat) : Prop := ∀ f, k.liveF f = true → ∀ a ∈ k.faceAt f, eOf a ≠ e
/-- no live edge ends in `v` -/
def IsoV (k : Kernel) (v : Nat) : Prop := ∀ e, k.liveE e = true → (k.edgeAt e).1 ≠ v ∧ (k.edgeAt e).2 ≠ v

theorem half_split (a x : Nat) (h : eOf a = x) : a = 2 * x ∨ a = 2 * x + 1 := by unfold eOf at h; omega

theorem condF_iff {k : Kernel} (hw : WF k) (hb : k.fBU = true) {f : Nat} (hf : f < k.nF) :
    condF k f = true ↔ IsoF k f := by
  obtain ⟨_, hc⟩ := hw.cache.f hb
  unfold condF
  rw [hc _ (by unfold heOf Kernel.nHF Kernel.nF at *; omega), hc _ (by unfold heOf Kernel.nHF Kernel.nF at *; omega)]
  simp only [Bool.and_eq_true, Option.isNone_iff_eq_none, sCellOf_none_iff]
  constructor
  · rintro ⟨h0, h1⟩ c hl a ha e
    rcases half_split a f e with r | r
    · subst r; exact h0 c hl (by unfold heOf; simpa using ha)
    · subst r; exact h1 c hl (by unfold heOf; simpa using ha)
  · intro h
    exact ⟨fun c hl hm => h c hl _ hm (by unfold eOf heOf; omega), fun c hl hm => h c hl _ hm (by unfold eOf heOf; omega)⟩

theorem eOf_two (x : Nat) : eOf (2 * x) = x := by unfold eOf; omega
theorem eOf_two1 (x : Nat) : eOf (2 * x + 1) = x := by unfold eOf; omega

theorem condE_iff {k : Kernel} (hw : WF k) (hb : k.eBU = true) {e : Nat} (he : e < k.nE) :
    condE k e = true ↔ IsoE k e := by
  obtain ⟨_, hc⟩ := hw.cache.e hb
  have hp := (hc (heOf e 0) (by unfold heOf Kernel.nHE Kernel.nE at *; omega)).length_eq
  unfold condE
  rw [hp]
  simp only [beq_iff_eq, List.length_eq_zero_iff, List.eq_nil_iff_forall_not_mem, mem_sHfsOfHe]
  have h2 : heOf e 0 = 2 * e := by unfold heOf; omega
  rw [h2]
  constructor
  · intro h f hl a ha ea
    rcases half_split a e ea with r | r
    · subst r
      exact h (2 * f) ⟨by rw [eOf_two]; exact hl, (mem_hfHes_iff k (2 * f) (2 * e)).mpr
        (Or.inl ⟨by rw [eOf_two], by rw [eOf_two]; exact ha⟩)⟩
    · subst r
      exact h (2 * f + 1) ⟨by rw [eOf_two1]; exact hl, (mem_hfHes_iff k (2 * f + 1) (2 * e)).mpr
        (Or.inr ⟨by rw [eOf_two1], by rw [eOf_two1, opp_even]; exact ha⟩)⟩
  · intro h x ⟨hl, hm⟩
    rcases (mem_hfHes_iff k x (2 * e)).mp hm with ⟨_, hm'⟩ | ⟨_, hm'⟩
    · exact h _ hl _ hm' (eOf_two e)
    · rw [opp_even] at hm'; exact h _ hl _ hm' (eOf_two1 e)

theorem fromV_two (k : Kernel) (e : Nat) : k.fromV (2 * e) = (k.edgeAt e).1 := by
  unfold fromV halfedge side; rw [eOf_two]; simp
theorem fromV_two1 (k : Kernel) (e : Nat) : k.fromV (2 * e + 1) = (k.edgeAt e).2 := by
  unfold fromV halfedge side; rw [eOf_two1]
  have : (2 * e + 1) % 2 = 1 := by omega
  simp [this]

theorem condV_iff {k : Kernel} (hw : WF k) (hb : k.vBU = true) {v : Nat} (hv : v < k.nV) :
    condV k v = true ↔ IsoV k v := by
  obtain ⟨_, hc⟩ := hw.cache.v hb
  have hp := (hc v hv).length_eq
  unfold condV
  rw [hp]
  simp only [beq_iff_eq, List.length_eq_zero_iff, List.eq_nil_iff_forall_not_mem, mem_sOut_iff]
  constructor
  · intro h e hl
    exact ⟨fun e1 => h (2 * e) ⟨by rw [eOf_two]; exact hl, by rw [fromV_two]; exact e1⟩,
      fun e1 => h (2 * e + 1) ⟨by rw [eOf_two1]; exact hl, by rw [fromV_two1]; exact e1⟩⟩
  · intro h x ⟨hl, hm⟩
    rcases half_split x (eOf x) rfl with r | r
    · rw [r, fromV_two] at hm; exact (h _ hl).1 hm
    · rw [r, fromV_two1] at hm; exact (h _ hl).2 hm

/-! ### an isolated entity has empty incidence lists; deleting it flags only itself -/

theorem incCells_nil_of_iso {k : Kernel} (hw : WF k) (h1 : k.oneCell = true) {f : Nat} (h : IsoF k f) :
    k.incidentCells [f] = [] :=
  List.eq_nil_iff_forall_not_mem.mpr (fun c hc => by
    obtain ⟨hl, a, ha, hm⟩ := (mem_incidentCells hw h1 [f] c).mp hc
    exact h c hl a ha (by simpa using hm))
theorem incCells_nil {k : Kernel} (hw : WF k) (h1 : k.oneCell = true) : k.incidentCells [] = [] :=
  List.eq_nil_iff_forall_not_mem.mpr (fun c hc => by
    obtain ⟨_, a, _, hm⟩ := (mem_incidentCells hw h1 [] c).mp hc
    simp at hm)
theorem incFaces_nil_of_iso {k : Kernel} (hw : WF k) {e : Nat} (h : IsoE k e) : k.incidentFaces [e] = [] :=
  List.eq_nil_iff_forall_not_mem.mpr (fun c hc => by
    obtain ⟨hl, a, ha, hm⟩ := (mem_incidentFaces hw [e] c).mp hc
    exact h c hl a ha (by simpa using hm))
theorem incFaces_nil {k : Kernel} (hw : WF k) : k.incidentFaces [] = [] :=
  List.eq_nil_iff_forall_not_mem.mpr (fun c hc => by
    obtain ⟨_, a, _, hm⟩ := (mem_incidentFaces hw [] c).mp hc
    simp at hm)
theorem incEdges_nil_of_iso {k : Kernel} (hw : WF k) {v : Nat} (h : IsoV k v) : k.incidentEdges [v] = [] :=
  List.eq_nil_iff_forall_not_mem.mpr (fun c hc => by
    obtain ⟨hl, hm⟩ := (mem_incidentEdges hw [v] c).mp hc
    rcases hm with hm | hm
    · exact (h c hl).1 (by simpa using hm)
    · exact (h c hl).2 (by simpa using hm))

theorem deleteFace_iso {k : Kernel} (hi : GInv k) (hd : k.deferred = true) {f : Nat} (h : IsoF k f) :
    (k.deleteFace f).cDel = k.cDel ∧ (k.deleteFace f).vBU = k.vBU ∧ (k.deleteFace f).eBU = k.eBU ∧
    (k.deleteFace f).fBU = k.fBU := by
  have hn := incCells_nil_of_iso hi.wf hi.one h
  have fl := flagged_deleteFace k f hd
  rw [hn] at fl
  have e : k.deleteFace f = k.deleteFaceCore f := by unfold deleteFace; simp only [hn, List.reverse_nil, List.foldl_nil]
  refine ⟨by simpa using fl.cDel, ?_, ?_, ?_⟩ <;> rw [e] <;> simp

theorem deleteEdge_iso {k : Kernel} (hi : GInv k) (hd : k.deferred = true) {e : Nat} (h : IsoE k e) :
    (k.deleteEdge e).fDel = k.fDel ∧ (k.deleteEdge e).vBU = k.vBU ∧ (k.deleteEdge e).eBU = k.eBU ∧
    (k.deleteEdge e).fBU = k.fBU := by
  have hn := incFaces_nil_of_iso hi.wf h
  have hc := incCells_nil hi.wf hi.one
  have fl := flagged_deleteEdge k e hd
  rw [hn, hc] at fl
  have e' : k.deleteEdge e = k.deleteEdgeCore e := by
    unfold deleteEdge; simp only [hn, hc, List.reverse_nil, List.foldl_nil]
  refine ⟨by simpa using fl.fDel, ?_, ?_, ?_⟩ <;> rw [e'] <;> simp

theorem deleteVertex_iso {k : Kernel} (hi : GInv k) (hd : k.deferred = true) {v : Nat} (h : IsoV k v) :
    (k.deleteVertex v).eDel = k.eDel ∧ (k.deleteVertex v).vBU = k.vBU ∧ (k.deleteVertex v).eBU = k.eBU ∧
    (k.deleteVertex v).fBU = k.fBU := by
  have hn := incEdges_nil_of_iso hi.wf h
  have hf := incFaces_nil hi.wf
  have hc := incCells_nil hi.wf hi.one
  have fl := flagged_deleteVertex k v hd
  rw [hn, hf, hc] at fl
  have e' : k.deleteVertex v = k.deleteVertexCore v := by
    unfold deleteVertex; simp only [hn, hf, hc, List.reverse_nil, List.foldl_nil]
  refine ⟨by simpa using fl.eDel, ?_, ?_, ?_⟩ <;> rw [e'] <;> simp

theorem isoF_congr {a b : Kernel} (hc : b.cells = a.cells) (hd : b.cDel = a.cDel) (f : Nat) : IsoF b f ↔ IsoF a f := by
  unfold IsoF liveC cDeleted Kernel.nC cellAt; rw [hc, hd]
theorem isoE_congr {a b : Kernel} (hc : b.faces = a.faces) (hd : b.fDel = a.fDel) (f : Nat) : IsoE b f ↔ IsoE a f := by
  unfold IsoE liveF fDeleted Kernel.nF faceAt; rw [hc, hd]
theorem isoV_congr {a b : Kernel} (hc : b.edges = a.edges) (hd : b.eDel = a.eDel) (f : Nat) : IsoV b f ↔ IsoV a f := by
  unfold IsoV liveE eDeleted Kernel.nE edgeAt; rw [hc, hd]

/-! ### the three loops as deferred runs -/

def BUon (k : Kernel) : Prop := k.vBU = true ∧ k.eBU = true ∧ k.fBU = true

def reqsMF (k : Kernel) : List Req := ((List.range k.nF).filter (condF k)).map Req.face
def reqsME (k : Kernel) : List Req := ((List.range k.nE).filter (condE k)).map Req.edge
def reqsMV (k : Kernel) : List Req := ((List.range k.nV).filter (condV k)).map Req.vertex

theorem manifoldFaces_run {kb : Kernel} (hi : GInv kb) (hd : kb.deferred = true) (hbu : BUon kb) :
    manifoldFaces kb = runDef kb (reqsMF kb) ∧ GInv (manifoldFaces kb) ∧ Q kb (manifoldFaces kb) ∧ BUon (manifoldFaces kb) := by
  have h := sweep_eq_runDef kb.nF
    (fun k f => !k.fDeleted f && (k.cellOf (heOf f 0)).isNone && (k.cellOf (heOf f 1)).isNone) Req.face (condF kb)
    (fun k' => GInv k' ∧ Q kb k' ∧ BUon k' ∧ k'.cDel = kb.cDel)
    (fun k' i ⟨g, q, bu, hcd⟩ hi' hc0 hl => by
      have iso : IsoF k' i := (isoF_congr q.cells hcd i).mpr ((condF_iff hi.wf hbu.2.2 hi').mp hc0)
      obtain ⟨a1, a2, a3, a4⟩ := deleteFace_iso g q.dfr iso
      exact ⟨Logical.Req.ginv g hl, q.trans' (Req.statusQ q.dfr q.len hl),
        ⟨a2.trans bu.1, a3.trans bu.2.1, a4.trans bu.2.2⟩, a1.trans hcd⟩)
    (fun k' i ⟨g, q, bu, hcd⟩ hi' => by
      have hi'' : i < k'.nF := by rw [q.nF]; exact hi'
      have e : condF k' i = condF kb i := by
        rw [Bool.eq_iff_iff, condF_iff g.wf bu.2.2 hi'', condF_iff hi.wf hbu.2.2 hi']
        exact isoF_congr q.cells hcd i
      show (!k'.fDeleted i && (k'.cellOf (heOf i 0)).isNone && (k'.cellOf (heOf i 1)).isNone) = (k'.liveF i && condF kb i)
      rw [← e]
      unfold liveF condF
      simp [hi'', Bool.and_assoc])
    kb ⟨hi, ⟨hd, rfl, rfl, rfl, rfl, rfl, hi.wf.len⟩, hbu, rfl⟩
  rw [← manifoldFaces_eq_sweep] at h
  exact ⟨h.1, h.2.1, h.2.2.1, h.2.2.2.1⟩

theorem manifoldEdges_run {kb : Kernel} (hi : GInv kb) (hd : kb.deferred = true) (hbu : BUon kb) :
    manifoldEdges kb = runDef kb (reqsME kb) ∧ GInv (manifoldEdges kb) ∧ Q kb (manifoldEdges kb) ∧ BUon (manifoldEdges kb) := by
  have h := sweep_eq_runDef kb.nE
    (fun k e => !k.eDeleted e && (k.hfsOf (heOf e 0)).length == 0) Req.edge (condE kb)
    (fun k' => GInv k' ∧ Q kb k' ∧ BUon k' ∧ k'.fDel = kb.fDel)
    (fun k' i ⟨g, q, bu, hcd⟩ hi' hc0 hl => by
      have iso : IsoE k' i := (isoE_congr q.faces hcd i).mpr ((condE_iff hi.wf hbu.2.1 hi').mp hc0)
      obtain ⟨a1, a2, a3, a4⟩ := deleteEdge_iso g q.dfr iso
      exact ⟨Logical.Req.ginv g hl, q.trans' (Req.statusQ q.dfr q.len hl),
        ⟨a2.trans bu.1, a3.trans bu.2.1, a4.trans bu.2.2⟩, a1.trans hcd⟩)
    (fun k' i ⟨g, q, bu, hcd⟩ hi' => by
      have hi'' : i < k'.nE := by rw [q.nE]; exact hi'
      have e : condE k' i = condE kb i := by
        rw [Bool.eq_iff_iff, condE_iff g.wf bu.2.1 hi'', condE_iff hi.wf hbu.2.1 hi']
        exact isoE_congr q.faces hcd i
      show (!k'.eDeleted i && (k'.hfsOf (heOf i 0)).length == 0) = (k'.liveE i && condE kb i)
      rw [← e]
      unfold liveE condE
      simp [hi''])
    kb ⟨hi, ⟨hd, rfl, rfl, rfl, rfl, rfl, hi.wf.len⟩, hbu, rfl⟩
  rw [← manifoldEdges_eq_sweep] at h
  exact ⟨h.1, h.2.1, h.2.2.1, h.2.2.2.1⟩

theorem manifoldVerts_run {kb : Kernel} (hi : GInv kb) (hd : kb.deferred = true) (hbu : BUon kb) :
    manifoldVerts kb = runDef kb (reqsMV kb) ∧ GInv (manifoldVerts kb) ∧ Q kb (manifoldVerts kb) ∧ BUon (manifoldVerts kb) := by
  have h := sweep_eq_runDef kb.nV
    (fun k v => !k.vDeleted v && (k.outOf v).length == 0) Req.vertex (condV kb)
    (fun k' => GInv k' ∧ Q kb k' ∧ BUon k' ∧ k'.eDel = kb.eDel)
    (fun k' i ⟨g, q, bu, hcd⟩ hi' hc0 hl => by
      have iso : IsoV k' i := (isoV_congr q.edges hcd i).mpr ((condV_iff hi.wf hbu.1 hi').mp hc0)
      obtain ⟨a1, a2, a3, a4⟩ := deleteVertex_iso g q.dfr iso
      exact ⟨Logical.Req.ginv g hl, q.trans' (Req.statusQ q.dfr q.len hl),
        ⟨a2.trans bu.1, a3.trans bu.2.1, a4.trans bu.2.2⟩, a1.trans hcd⟩)
    (fun k' i ⟨g, q, bu, hcd⟩ hi' => by
      have hi'' : i < k'.nV := by rw [q.nV]; exact hi'
      have e : condV k' i = condV kb i := by
        rw [Bool.eq_iff_iff, condV_iff g.wf bu.1 hi'', condV_iff hi.wf hbu.1 hi']
        exact isoV_congr q.edges hcd i
      show (!k'.vDeleted i && (k'.outOf i).length == 0) = (k'.liveV i && condV kb i)
      rw [← e]
      unfold liveV condV
      simp [hi''])
    kb ⟨hi, ⟨hd, rfl, rfl, rfl, rfl, rfl, hi.wf.len⟩, hbu, rfl⟩
  rw [← manifoldVerts_eq_sweep] at h
  exact ⟨h.1, h.2.1, h.2.2.1, h.2.2.2.1⟩

/-! ### what each loop removes, on the live slots: just the isolated entities -/

def MF (k : Kernel) : Rem := ⟨Logical.none, Logical.none, fun f => condF k f = true, Logical.none⟩
def ME (k : Kernel) : Rem := ⟨Logical.none, fun e => condE k e = true, Logical.none, Logical.none⟩
def MV (k : Kernel) : Rem := ⟨fun v => condV k v = true, Logical.none, Logical.none, Logical.none⟩

theorem mem_reqsMF (k : Kernel) (d : Req) : d ∈ reqsMF k ↔ ∃ h, h < k.nF ∧ condF k h = true ∧ d = Req.face h := by
  unfold reqsMF
  simp only [List.mem_map, List.mem_filter, List.mem_range]
  constructor
  · rintro ⟨h, ⟨a, b⟩, rfl⟩; exact ⟨h, a, b, rfl⟩
  · rintro ⟨h, a, b, rfl⟩; exact ⟨h, ⟨a, b⟩, rfl⟩
theorem mem_reqsME (k : Kernel) (d : Req) : d ∈ reqsME k ↔ ∃ h, h < k.nE ∧ condE k h = true ∧ d = Req.edge h := by
  unfold reqsME
  simp only [List.mem_map, List.mem_filter, List.mem_range]
  constructor
  · rintro ⟨h, ⟨a, b⟩, rfl⟩; exact ⟨h, a, b, rfl⟩
  · rintro ⟨h, a, b, rfl⟩; exact ⟨h, ⟨a, b⟩, rfl⟩
theorem mem_reqsMV (k : Kernel) (d : Req) : d ∈ reqsMV k ↔ ∃ h, h < k.nV ∧ condV k h = true ∧ d = Req.vertex h := by
  unfold reqsMV
  simp only [List.mem_map, List.mem_filter, List.mem_range]
  constructor
  · rintro ⟨h, ⟨a, b⟩, rfl⟩; exact ⟨h, a, b, rfl⟩
  · rintro ⟨h, a, b, rfl⟩; exact ⟨h, ⟨a, b⟩, rfl⟩

theorem eqLive_MF {k : Kernel} (hi : GInv k) (hbu : BUon k) : EqLive k (cloSet k (reqsMF k)) (MF k) := by
  refine ⟨fun x _ _ => ⟨?_, fun h => h.elim⟩, fun x _ _ => ⟨?_, fun h => h.elim⟩, fun x h1 h2 => ⟨?_, ?_⟩,
    fun x h1 h2 => ⟨?_, fun h => h.elim⟩⟩
  · rintro ⟨d, hd, _, h⟩
    obtain ⟨h', _, _, rfl⟩ := (mem_reqsMF k d).mp hd
    exact h
  · rintro ⟨d, hd, _, h⟩
    obtain ⟨h', _, _, rfl⟩ := (mem_reqsMF k d).mp hd
    exact h
  · rintro ⟨d, hd, _, h⟩
    obtain ⟨h', _, hc, rfl⟩ := (mem_reqsMF k d).mp hd
    have e : x = h' := h
    subst e; exact hc
  · intro hc
    exact ⟨Req.face x, (mem_reqsMF k _).mpr ⟨x, h1, hc, rfl⟩, Logical.liveF_iff.mpr ⟨h1, h2⟩, rfl⟩
  · rintro ⟨d, hd, _, h⟩
    obtain ⟨h', hlt, hc, rfl⟩ := (mem_reqsMF k d).mp hd
    obtain ⟨a, ha, _, ea⟩ := h
    exact ((condF_iff hi.wf hbu.2.2 hlt).mp hc x (Logical.liveC_iff.mpr ⟨h1, h2⟩) a ha ea).elim

theorem eqLive_ME {k : Kernel} (hi : GInv k) (hbu : BUon k) : EqLive k (cloSet k (reqsME k)) (ME k) := by
  refine ⟨fun x _ _ => ⟨?_, fun h => h.elim⟩, fun x h1 h2 => ⟨?_, ?_⟩, fun x h1 h2 => ⟨?_, fun h => h.elim⟩,
    fun x h1 h2 => ⟨?_, fun h => h.elim⟩⟩
  · rintro ⟨d, hd, _, h⟩
    obtain ⟨h', _, _, rfl⟩ := (mem_reqsME k d).mp hd
    exact h
  · rintro ⟨d, hd, _, h⟩
    obtain ⟨h', _, hc, rfl⟩ := (mem_reqsME k d).mp hd
    have e : x = h' := h
    subst e; exact hc
  · intro hc
    exact ⟨Req.edge x, (mem_reqsME k _).mpr ⟨x, h1, hc, rfl⟩, Logical.liveE_iff.mpr ⟨h1, h2⟩, rfl⟩
  · rintro ⟨d, hd, _, h⟩
    obtain ⟨h', hlt, hc, rfl⟩ := (mem_reqsME k d).mp hd
    obtain ⟨a, ha, _, ea⟩ := h
    exact ((condE_iff hi.wf hbu.2.1 hlt).mp hc x (Logical.liveF_iff.mpr ⟨h1, h2⟩) a ha ea).elim
  · rintro ⟨d, hd, _, h⟩
    obtain ⟨h', hlt, hc, rfl⟩ := (mem_reqsME k d).mp hd
    obtain ⟨a, _, hlf, a', ha', _, ea'⟩ := h
    exact ((condE_iff hi.wf hbu.2.1 hlt).mp hc _ hlf a' ha' ea').elim

theorem eqLive_MV {k : Kernel} (hi : GInv k) (hbu : BUon k) : EqLive k (cloSet k (reqsMV k)) (MV k) := by
  refine ⟨fun x h1 h2 => ⟨?_, ?_⟩, fun x h1 h2 => ⟨?_, fun h => h.elim⟩, fun x h1 h2 => ⟨?_, fun h => h.elim⟩,
    fun x h1 h2 => ⟨?_, fun h => h.elim⟩⟩
  · rintro ⟨d, hd, _, h⟩
    obtain ⟨h', _, hc, rfl⟩ := (mem_reqsMV k d).mp hd
    have e : x = h' := h
    subst e; exact hc
  · intro hc
    exact ⟨Req.vertex x, (mem_reqsMV k _).mpr ⟨x, h1, hc, rfl⟩, Logical.liveV_iff.mpr ⟨h1, h2⟩, rfl⟩
  · rintro ⟨d, hd, _, h⟩
    obtain ⟨h', hlt, hc, rfl⟩ := (mem_reqsMV k d).mp hd
    have iso := (condV_iff hi.wf hbu.1 hlt).mp hc x (Logical.liveE_iff.mpr ⟨h1, h2⟩)
    rcases h with h | h
    · exact (iso.1 h).elim
    · exact (iso.2 h).elim
  · rintro ⟨d, hd, _, h⟩
    obtain ⟨h', hlt, hc, rfl⟩ := (mem_reqsMV k d).mp hd
    obtain ⟨a, _, hle, hu⟩ := h
    have iso := (condV_iff hi.wf hbu.1 hlt).mp hc _ hle
    rcases hu with h | h
    · exact (iso.1 h).elim
    · exact (iso.2 h).elim
  · rintro ⟨d, hd, _, h⟩
    obtain ⟨h', hlt, hc, rfl⟩ := (mem_reqsMV k d).mp hd
    obtain ⟨a, _, _, a', _, hle, hu⟩ := h
    have iso := (condV_iff hi.wf hbu.1 hlt).mp hc _ hle
    rcases hu with h | h
    · exact (iso.1 h).elim
    · exact (iso.2 h).elim

theorem manifoldFaces_logMinus {kb : Kernel} (hi : GInv kb) (hd : kb.deferred = true) (hbu : BUon kb) :
    LogMinus kb (manifoldFaces kb) Ren.id (MF kb) := by
  rw [(manifoldFaces_run hi hd hbu).1]
  exact (Logical.runDef_logMinus hi hd _).congrLive (eqLive_MF hi hbu)
theorem manifoldEdges_logMinus {kb : Kernel} (hi : GInv kb) (hd : kb.deferred = true) (hbu : BUon kb) :
    LogMinus kb (manifoldEdges kb) Ren.id (ME kb) := by
  rw [(manifoldEdges_run hi hd hbu).1]
  exact (Logical.runDef_logMinus hi hd _).congrLive (eqLive_ME hi hbu)
theorem manifoldVerts_logMinus {kb : Kernel} (hi : GInv kb) (hd : kb.deferred = true) (hbu : BUon kb) :
    LogMinus kb (manifoldVerts kb) Ren.id (MV kb) := by
  rw [(manifoldVerts_run hi hd hbu).1]
  exact (Logical.runDef_logMinus hi hd _).congrLive (eqLive_MV hi hbu)

/-! ### the loop conditions in terms of the specification's `keep*` of the start state -/

theorem live_id_c {a b : Kernel} {S : Rem} (s : LogMinus a b Ren.id S) (y : Nat) :
    b.liveC y = true ↔ (a.liveC y = true ∧ ¬ S.c y) := by
  rw [Logical.liveC_iff, Logical.liveC_iff]
  constructor
  · rintro ⟨h1, h2⟩
    obtain ⟨x, hx, e⟩ := s.c.onto y h1 h2
    have e' : x = y := e
    subst e'; exact ⟨⟨hx.1, hx.2.1⟩, hx.2.2⟩
  · rintro ⟨⟨h1, h2⟩, h3⟩; exact s.c.into y ⟨h1, h2, h3⟩
theorem live_id_f {a b : Kernel} {S : Rem} (s : LogMinus a b Ren.id S) (y : Nat) :
    b.liveF y = true ↔ (a.liveF y = true ∧ ¬ S.f y) := by
  rw [Logical.liveF_iff, Logical.liveF_iff]
  constructor
  · rintro ⟨h1, h2⟩
    obtain ⟨x, hx, e⟩ := s.f.onto y h1 h2
    have e' : x = y := e
    subst e'; exact ⟨⟨hx.1, hx.2.1⟩, hx.2.2⟩
  · rintro ⟨⟨h1, h2⟩, h3⟩; exact s.f.into y ⟨h1, h2, h3⟩
theorem live_id_e {a b : Kernel} {S : Rem} (s : LogMinus a b Ren.id S) (y : Nat) :
    b.liveE y = true ↔ (a.liveE y = true ∧ ¬ S.e y) := by
  rw [Logical.liveE_iff, Logical.liveE_iff]
  constructor
  · rintro ⟨h1, h2⟩
    obtain ⟨x, hx, e⟩ := s.e.onto y h1 h2
    have e' : x = y := e
    subst e'; exact ⟨⟨hx.1, hx.2.1⟩, hx.2.2⟩
  · rintro ⟨⟨h1, h2⟩, h3⟩; exact s.e.into y ⟨h1, h2, h3⟩

theorem keepC_live {k : Kernel} {mk : Marks} {c : Nat} (h : Spec.keepC k mk c = true) : k.liveC c = true := by
  unfold Spec.keepC Spec.deadC at h
  unfold liveC
  simp only [Bool.and_eq_true, Bool.not_eq_true', Bool.or_eq_false_iff, decide_eq_true_eq] at h ⊢
  exact ⟨h.1, h.2.1.1⟩
theorem keepF_live {k : Kernel} {mk : Marks} {man : Bool} {c : Nat} (h : Spec.keepF k mk man c = true) : k.liveF c = true := by
  unfold Spec.keepF Spec.deadF at h
  unfold liveF
  simp only [Bool.and_eq_true, Bool.not_eq_true', Bool.or_eq_false_iff, decide_eq_true_eq] at h ⊢
  exact ⟨h.1.1, h.1.2.1.1⟩
theorem keepE_live {k : Kernel} {mk : Marks} {man : Bool} {c : Nat} (h : Spec.keepE k mk man c = true) : k.liveE c = true := by
  unfold Spec.keepE Spec.deadE at h
  unfold liveE
  simp only [Bool.and_eq_true, Bool.not_eq_true', Bool.or_eq_false_iff, decide_eq_true_eq] at h ⊢
  exact ⟨h.1.1, h.1.2.1.1.1⟩

theorem condF_spec {k0 kb : Kernel} {mk : Marks} (gb : GInv kb) (hbu : BUon kb) (hcells : kb.cells = k0.cells)
    (hlive : ∀ c, kb.liveC c = true ↔ Spec.keepC k0 mk c = true) {x : Nat} (hx : x < kb.nF) :
    condF kb x = true ↔ (List.range k0.nC).any (fun c => Spec.keepC k0 mk c && Spec.faceInCell k0 c x) = false := by
  rw [condF_iff gb.wf hbu.2.2 hx, List.any_eq_false]
  have hca : ∀ c, kb.cellAt c = k0.cellAt c := fun c => by unfold cellAt; rw [hcells]
  constructor
  · intro h c _ hk
    simp only [Bool.and_eq_true] at hk
    have hk2 := hk.2
    unfold Spec.faceInCell at hk2
    obtain ⟨a, ha, ea⟩ := List.any_eq_true.mp hk2
    exact h c ((hlive c).mpr hk.1) a (by rw [hca]; exact ha) (by simpa using ea)
  · intro h c hl a ha ea
    have hk := (hlive c).mp hl
    have hc : c < k0.nC := (Logical.liveC_iff.mp (keepC_live hk)).1
    apply h c (List.mem_range.mpr hc)
    simp only [Bool.and_eq_true]
    refine ⟨hk, ?_⟩
    unfold Spec.faceInCell
    exact List.any_eq_true.mpr ⟨a, by rw [← hca]; exact ha, by simpa using ea⟩

theorem condE_spec {k0 kb : Kernel} {mk : Marks} (gb : GInv kb) (hbu : BUon kb) (hfaces : kb.faces = k0.faces)
    (hlive : ∀ c, kb.liveF c = true ↔ Spec.keepF k0 mk true c = true) {x : Nat} (hx : x < kb.nE) :
    condE kb x = true ↔ (List.range k0.nF).any (fun c => Spec.keepF k0 mk true c && Spec.edgeInFace k0 c x) = false := by
  rw [condE_iff gb.wf hbu.2.1 hx, List.any_eq_false]
  have hca : ∀ c, kb.faceAt c = k0.faceAt c := fun c => by unfold faceAt; rw [hfaces]
  constructor
  · intro h c _ hk
    simp only [Bool.and_eq_true] at hk
    have hk2 := hk.2
    unfold Spec.edgeInFace at hk2
    obtain ⟨a, ha, ea⟩ := List.any_eq_true.mp hk2
    exact h c ((hlive c).mpr hk.1) a (by rw [hca]; exact ha) (by simpa using ea)
  · intro h c hl a ha ea
    have hk := (hlive c).mp hl
    have hc : c < k0.nF := (Logical.liveF_iff.mp (keepF_live hk)).1
    apply h c (List.mem_range.mpr hc)
    simp only [Bool.and_eq_true]
    refine ⟨hk, ?_⟩
    unfold Spec.edgeInFace
    exact List.any_eq_true.mpr ⟨a, by rw [← hca]; exact ha, by simpa using ea⟩

theorem condV_spec {k0 kb : Kernel} {mk : Marks} (gb : GInv kb) (hbu : BUon kb) (hedges : kb.edges = k0.edges)
    (hlive : ∀ c, kb.liveE c = true ↔ Spec.keepE k0 mk true c = true) {x : Nat} (hx : x < kb.nV) :
    condV kb x = true ↔ (List.range k0.nE).any (fun c => Spec.keepE k0 mk true c && Spec.vertInEdge k0 c x) = false := by
  rw [condV_iff gb.wf hbu.1 hx, List.any_eq_false]
  have hca : ∀ c, kb.edgeAt c = k0.edgeAt c := fun c => by unfold edgeAt; rw [hedges]
  constructor
  · intro h c _ hk
    simp only [Bool.and_eq_true] at hk
    have hk2 := hk.2
    unfold Spec.vertInEdge at hk2
    have iso := h c ((hlive c).mpr hk.1)
    rw [hca] at iso
    simp only [Bool.or_eq_true, beq_iff_eq] at hk2
    rcases hk2 with e | e
    · exact iso.1 e
    · exact iso.2 e
  · intro h c hl
    have hk := (hlive c).mp hl
    have hc : c < k0.nE := (Logical.liveE_iff.mp (keepE_live hk)).1
    have hn := h c (List.mem_range.mpr hc)
    rw [hca]
    constructor
    · intro e; apply hn; simp [hk, Spec.vertInEdge, e]
    · intro e; apply hn; simp [hk, Spec.vertInEdge, e]

/-! ### the three loops together: the start mesh minus the manifoldness dead set -/

theorem bool_keep (A B : Bool) (C : Prop) (hC : C ↔ B = false) : ((!A) = false ∨ C) ↔ ((!A) && B) = false := by
  rw [hC]; cases A <;> cases B <;> simp

/-- **the manifoldness loops**: from a state `kb` that is the start mesh `k0` minus the dead set (nothing renumbered, same
    definition arrays, all incidences on), the three loops lead to `k0` minus `deadRem k0 mk true`, renumbering nothing -/
theorem loops_logMinus {k0 kb : Kernel} {mk : Marks} (s0 : LogMinus k0 kb Ren.id (deadRem k0 mk false)) (gb : GInv kb)
    (hd : kb.deferred = true) (hbu : BUon kb) (hnV : kb.nV = k0.nV) (he : kb.edges = k0.edges)
    (hf : kb.faces = k0.faces) (hc : kb.cells = k0.cells) :
    LogMinus k0 (manifoldVerts (manifoldEdges (manifoldFaces kb))) Ren.id (deadRem k0 mk true) := by
  obtain ⟨_, gF, qF, buF⟩ := manifoldFaces_run gb hd hbu
  obtain ⟨_, gE, qE, buE⟩ := manifoldEdges_run gF qF.dfr buF
  have sF := manifoldFaces_logMinus gb hd hbu
  have sE := manifoldEdges_logMinus gF qF.dfr buF
  have sV := manifoldVerts_logMinus gE qE.dfr buE
  -- faces
  have liveC0 : ∀ c, kb.liveC c = true ↔ Spec.keepC k0 mk c = true := by
    intro c
    rw [live_id_c s0 c]
    show (k0.liveC c = true ∧ ¬ (Spec.keepC k0 mk c = false)) ↔ _
    constructor
    · intro h; simpa using h.2
    · intro h; exact ⟨keepC_live h, by simp [h]⟩
  let R1 : Rem := ⟨(deadRem k0 mk false).v, (deadRem k0 mk false).e, fun f => Spec.keepF k0 mk true f = false,
    (deadRem k0 mk false).c⟩
  have e1 : EqLive k0 ((deadRem k0 mk false).comp Ren.id (MF kb)) R1 := by
    refine ⟨fun x _ _ => by simp [Rem.comp, Logical.compS, MF, Logical.none, R1],
      fun x _ _ => by simp [Rem.comp, Logical.compS, MF, Logical.none, R1], fun x h1 _ => ?_,
      fun x _ _ => by simp [Rem.comp, Logical.compS, MF, Logical.none, R1]⟩
    have hx0 : x < k0.nF := h1
    have hx : x < kb.nF := by unfold Kernel.nF; rw [hf]; exact h1
    have hB := condF_spec (mk := mk) gb hbu hc liveC0 hx
    show (Spec.keepF k0 mk false x = false ∨ condF kb x = true) ↔ Spec.keepF k0 mk true x = false
    unfold Spec.keepF
    simp only [hx0, decide_true, Bool.true_and, Bool.not_false, Bool.not_true, Bool.true_or, Bool.false_or, Bool.and_true]
    exact bool_keep _ _ _ hB
  have s1 : LogMinus k0 (manifoldFaces kb) Ren.id R1 := (s0.comp sF).congrLive e1
  -- edges
  have liveF1 : ∀ c, (manifoldFaces kb).liveF c = true ↔ Spec.keepF k0 mk true c = true := by
    intro c
    rw [live_id_f s1 c]
    show (k0.liveF c = true ∧ ¬ (Spec.keepF k0 mk true c = false)) ↔ _
    constructor
    · intro h; simpa using h.2
    · intro h; exact ⟨keepF_live h, by simp [h]⟩
  let R2 : Rem := ⟨(deadRem k0 mk false).v, fun e => Spec.keepE k0 mk true e = false,
    fun f => Spec.keepF k0 mk true f = false, (deadRem k0 mk false).c⟩
  have e2 : EqLive k0 (R1.comp Ren.id (ME (manifoldFaces kb))) R2 := by
    refine ⟨fun x _ _ => by simp [Rem.comp, Logical.compS, ME, Logical.none, R1, R2], fun x h1 _ => ?_,
      fun x _ _ => by simp [Rem.comp, Logical.compS, ME, Logical.none, R1, R2],
      fun x _ _ => by simp [Rem.comp, Logical.compS, ME, Logical.none, R1, R2]⟩
    have hx0 : x < k0.nE := h1
    have hx : x < (manifoldFaces kb).nE := by rw [qF.nE]; unfold Kernel.nE; rw [he]; exact h1
    have hB := condE_spec (mk := mk) gF buF (qF.faces.trans hf) liveF1 hx
    show (Spec.keepE k0 mk false x = false ∨ condE (manifoldFaces kb) x = true) ↔ Spec.keepE k0 mk true x = false
    unfold Spec.keepE
    simp only [hx0, decide_true, Bool.true_and, Bool.not_false, Bool.not_true, Bool.true_or, Bool.false_or, Bool.and_true]
    exact bool_keep _ _ _ hB
  have s2 : LogMinus k0 (manifoldEdges (manifoldFaces kb)) Ren.id R2 := (s1.comp sE).congrLive e2
  -- vertices
  have liveE2 : ∀ c, (manifoldEdges (manifoldFaces kb)).liveE c = true ↔ Spec.keepE k0 mk true c = true := by
    intro c
    rw [live_id_e s2 c]
    show (k0.liveE c = true ∧ ¬ (Spec.keepE k0 mk true c = false)) ↔ _
    constructor
    · intro h; simpa using h.2
    · intro h; exact ⟨keepE_live h, by simp [h]⟩
  have e3 : EqLive k0 (R2.comp Ren.id (MV (manifoldEdges (manifoldFaces kb)))) (deadRem k0 mk true) := by
    refine ⟨fun x h1 _ => ?_, fun x _ _ => by simp [Rem.comp, Logical.compS, MV, Logical.none, R2, deadRem],
      fun x _ _ => by simp [Rem.comp, Logical.compS, MV, Logical.none, R2, deadRem],
      fun x _ _ => by simp [Rem.comp, Logical.compS, MV, Logical.none, R2, deadRem]⟩
    have hx : x < (manifoldEdges (manifoldFaces kb)).nV := by rw [qE.nV, qF.nV, hnV]; exact h1
    have hB := condV_spec (mk := mk) gE buE ((qE.edges.trans qF.edges).trans he) liveE2 hx
    show (Spec.keepV k0 mk false x = false ∨ condV (manifoldEdges (manifoldFaces kb)) x = true) ↔
      Spec.keepV k0 mk true x = false
    unfold Spec.keepV
    simp only [h1, decide_true, Bool.true_and, Bool.not_false, Bool.not_true, Bool.true_or, Bool.false_or, Bool.and_true]
    exact bool_keep _ _ _ hB
  exact (s2.comp sV).congrLive e3

/-- the state handed to the loops, with its definition arrays -/
theorem man_frame_defs {k0 : Kernel} (hi : GInv k0) :
    ∃ kb, markPhase k0 true = manifoldVerts (manifoldEdges (manifoldFaces kb)) ∧
      LogMinus k0 kb Ren.id (deadRem k0 (marksOf k0) false) ∧ GInv kb ∧ kb.deferred = true ∧ BUon kb ∧
      kb.nV = k0.nV ∧ kb.edges = k0.edges ∧ kb.faces = k0.faces ∧ kb.cells = k0.cells := by
  have g1 := ginv_enableDeferred_true hi
  have hd1 : (k0.enableDeferred true).deferred = true := by rw [enableDeferred_true]
  obtain ⟨s, g2⟩ := mark4_logMinus g1 hd1
  have q := (mark4_eq _ hd1 g1.wf.len).2
  have e := markPhase_true k0
  generalize markedCells (markedFaces (markedEdges (markedVerts (k0.enableDeferred true)))) = km at s g2 q e
  have gb := ginv_enableAllBU g2
  have fb := frame_enableAllBU km
  have hdb : (enableAllBU km).deferred = true := fb.deferred.trans q.dfr
  have s' := s.comp_iso (logIso_of_frame fb)
  have qn := q.nV
  have qe := q.edges
  have qf := q.faces
  have qc := q.cells
  rw [enableDeferred_true] at qn qe qf qc
  rw [enableDeferred_true, deadRem_withDeferred] at s'
  exact ⟨enableAllBU km, e, (s'.congr_left (k0 := k0) rfl rfl rfl rfl rfl rfl rfl rfl rfl).cast rfl, gb, hdb,
    enableAllBU_flags km, fb.nV.trans qn, fb.edges.trans qe, fb.faces.trans qf, fb.cells.trans qc⟩

/-- **`StatusAttrib::garbage_collection` with `_preserveManifoldness` erases exactly the dead set** (both overloads) -/
theorem statusGC_dead_man {k0 : Kernel} (hi : GInv k0) (hfr : Fresh k0) (t : Tracked) :
    ∃ ρ, LogMinus k0 (statusGC k0 true t).k ρ (deadRem k0 (marksOf k0) true) := by
  obtain ⟨kb, e, s0, gb, hdb, hbu, a1, a2, a3, a4⟩ := man_frame_defs hi
  have sL := loops_logMinus s0 gb hdb hbu a1 a2 a3 a4
  rw [← e] at sL
  obtain ⟨_, _, _, _, _, _, _, _, g3, ρ, s2⟩ := statusGC_man_frame hi hfr t
  exact ⟨_, sL.comp_iso s2⟩

end OVM.Status

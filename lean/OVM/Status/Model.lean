import OVM.Status.Spec
/-
  M — mechanism model of `StatusAttrib::garbage_collection`
  (src/OpenVolumeMesh/Attribs/StatusAttribT_impl.hh:45-140, StatusAttrib.cc:147-154; the `#if 0` block
  impl.hh:142-455 is dead code), on top of
  the kernel model `OVM.Kernel`.

  The status properties are ordinary property columns of the kernel (`vertex_status`, …,
  StatusAttrib.cc:47-53); a slot holds the token `deleted + 2·tagged + 4·selected + 8·hidden`,
  so `status[h].deleted()` is bit 0 of the slot.

  Control flow of the C++ (impl.hh line numbers):
    57-58   remember the deferred flag, switch deferred deletion on
    59-78   four range-for loops over the *not deleted* vertices / edges / faces / cells
            (entity iterators skip deleted slots at every `++`): a marked one is handed to
            `delete_vertex / delete_edge / delete_face / delete_cell`, which in deferred mode flag
            the whole upward closure and unlink it from the incidence caches
    81-98   `_preserveManifoldness`: enable all three incidence kinds (recomputed from the live
            definitions where they were off), then delete every face whose two halffaces have no
            incident cell, every edge of valence 0, every vertex of valence 0 – in that order,
            reading the caches that the preceding deletions have already updated
    99-133  if any handle is tracked: four anonymous `int` properties (vertex, halfedge, halfface,
            cell) are filled with the current indices, `collect_garbage()` moves them with the
            entities, the arrays `new_*[old] = new` are scattered from them (default: invalid), and
            every valid tracked handle `h` is replaced by `new_*[h.idx()]`
    136     otherwise just `collect_garbage()`
    139     restore the deferred flag (leaving deferred mode would collect again: nothing pending)
-/
namespace OVM.Status
open OVM OVM.Kernel

def keyV : String := "vertex_status"
def keyE : String := "edge_status"
def keyF : String := "face_status"
def keyC : String := "cell_status"

/-- bit 0 of the status token -/
def bit0 (x : Int) : Bool := x % 2 != 0

/-- `status[h].deleted()` -/
def statusDeleted (cs : List Col) (key : String) (i : Nat) : Bool :=
  match cs.find? (·.key == key) with
  | some c => bit0 (c.vals.getD i 0)
  | none => false

def markedV (k : Kernel) (v : Nat) : Bool := statusDeleted k.props.v keyV v
def markedE (k : Kernel) (e : Nat) : Bool := statusDeleted k.props.e keyE e
def markedF (k : Kernel) (f : Nat) : Bool := statusDeleted k.props.f keyF f
def markedC (k : Kernel) (c : Nat) : Bool := statusDeleted k.props.c keyC c

/-- the marks as the specification wants them -/
def marksOf (k : Kernel) : Marks :=
  { v := (List.range k.nV).map (markedV k), e := (List.range k.nE).map (markedE k),
    f := (List.range k.nF).map (markedF k), c := (List.range k.nC).map (markedC k) }

/-- impl.hh:59-63.  `kernel_->vertices()` visits the slots `0 … n-1` that are not deleted when the
    iterator reaches them; `n` is fixed (deferred mode: no slot disappears). -/
def markedVerts (k : Kernel) : Kernel :=
  (List.range k.nV).foldl (fun k v => if !k.vDeleted v && markedV k v then k.deleteVertex v else k) k
/-- impl.hh:64-68 -/
def markedEdges (k : Kernel) : Kernel :=
  (List.range k.nE).foldl (fun k e => if !k.eDeleted e && markedE k e then k.deleteEdge e else k) k
/-- impl.hh:69-73 -/
def markedFaces (k : Kernel) : Kernel :=
  (List.range k.nF).foldl (fun k f => if !k.fDeleted f && markedF k f then k.deleteFace f else k) k
/-- impl.hh:74-78 -/
def markedCells (k : Kernel) : Kernel :=
  (List.range k.nC).foldl (fun k c => if !k.cDeleted c && markedC k c then k.deleteCell c else k) k

/-- TopologyKernel.hh:899-904 -/
def enableAllBU (k : Kernel) : Kernel := ((k.enableVBU true).enableEBU true).enableFBU true

/-- impl.hh:83-87: faces none of whose halffaces has an incident cell (the two `continue`s) -/
def manifoldFaces (k : Kernel) : Kernel :=
  (List.range k.nF).foldl (fun k f =>
    if !k.fDeleted f && (k.cellOf (heOf f 0)).isNone && (k.cellOf (heOf f 1)).isNone then k.deleteFace f else k) k
/-- impl.hh:88-92: `valence(eh)` = size of the halfface list of halfedge 0 (TopologyKernel.hh:719-724) -/
def manifoldEdges (k : Kernel) : Kernel :=
  (List.range k.nE).foldl (fun k e =>
    if !k.eDeleted e && (k.hfsOf (heOf e 0)).length == 0 then k.deleteEdge e else k) k
/-- impl.hh:93-97: `valence(vh)` = number of outgoing halfedges (TopologyKernel.hh:711-716) -/
def manifoldVerts (k : Kernel) : Kernel :=
  (List.range k.nV).foldl (fun k v =>
    if !k.vDeleted v && (k.outOf v).length == 0 then k.deleteVertex v else k) k

/-- impl.hh:57-98: everything before the collection -/
def markPhase (k : Kernel) (man : Bool) : Kernel :=
  let k := k.enableDeferred true
  let k := markedCells (markedFaces (markedEdges (markedVerts k)))
  if man then manifoldVerts (manifoldEdges (manifoldFaces (enableAllBU k))) else k

/-! ### handle tracking through temporary index properties -/

def tmpV : String := "\x01old_vh"
def tmpHE : String := "\x01old_heh"
def tmpHF : String := "\x01old_hfh"
def tmpC : String := "\x01old_ch"

def idxCol (key : String) (n : Nat) : Col :=
  { key := key, dflt := 0, vals := (List.range n).map Int.ofNat }

/-- impl.hh:109-116: `request_*_property<int>()`, filled with the current indices -/
def addTmp (k : Kernel) : Kernel :=
  { k with props := { k.props with v := k.props.v ++ [idxCol tmpV k.nV], he := k.props.he ++ [idxCol tmpHE k.nHE],
                                   hf := k.props.hf ++ [idxCol tmpHF k.nHF], c := k.props.c ++ [idxCol tmpC k.nC] } }

def dropTmp (k : Kernel) : Kernel :=
  { k with props := { k.props with v := k.props.v.filter (·.key != tmpV), he := k.props.he.filter (·.key != tmpHE),
                                   hf := k.props.hf.filter (·.key != tmpHF), c := k.props.c.filter (·.key != tmpC) } }

def tmpVals (cs : List Col) (key : String) : List Int :=
  match cs.find? (·.key == key) with
  | some c => c.vals
  | none => []

/-- impl.hh:120-128: `new_x.resize(n)` (invalid handles), then `new_x[old_x[h]] = h` for every
    entity `h` of the collected mesh.  The write is unchecked in the C++: an index outside
    `[0,n)` sets the ghost fault flag. -/
def scatter (n : Nat) (old : List Int) : List (Option Nat) × Bool :=
  old.zipIdx.foldl (fun (acc : List (Option Nat) × Bool) p =>
    if p.1 < 0 || p.1.toNat ≥ n then (acc.1, true) else (acc.1.set p.1.toNat (some p.2), acc.2))
    (List.replicate n none, false)

/-- impl.hh:130-133: `if (h->is_valid()) *h = new_x[h->idx()]` (unchecked read) -/
def remap (new : List (Option Nat)) (t : List Int) : List Int × Bool :=
  t.foldl (fun (acc : List Int × Bool) h =>
    if h < 0 then (acc.1 ++ [h], acc.2)
    else if h.toNat ≥ new.length then (acc.1 ++ [h], true)
    else (acc.1 ++ [Spec.optInt (new.getD h.toNat none)], acc.2)) ([], false)

def Tracked.isEmpty (t : Tracked) : Bool := t.v.isEmpty && t.he.isEmpty && t.hf.isEmpty && t.c.isEmpty

structure Result where
  k : Kernel
  t : Tracked
  /-- the `new_*` arrays (halfedge / halfface level), when handles were tracked -/
  newV : List (Option Nat) := []
  newHE : List (Option Nat) := []
  newHF : List (Option Nat) := []
  newC : List (Option Nat) := []
deriving Repr, Inhabited

/-- impl.hh:45-140 -/
def statusGC (k0 : Kernel) (man : Bool) (t : Tracked) : Result :=
  let dfr := k0.deferred
  let k := markPhase k0 man
  if !t.isEmpty then
    let nv := k.nV; let nhe := k.nHE; let nhf := k.nHF; let nc := k.nC
    let k := (addTmp k).collectGarbage
    let (newV, f1) := scatter nv (tmpVals k.props.v tmpV)
    let (newHE, f2) := scatter nhe (tmpVals k.props.he tmpHE)
    let (newHF, f3) := scatter nhf (tmpVals k.props.hf tmpHF)
    let (newC, f4) := scatter nc (tmpVals k.props.c tmpC)
    let (tv, g1) := remap newV t.v
    let (the, g2) := remap newHE t.he
    let (thf, g3) := remap newHF t.hf
    let (tc, g4) := remap newC t.c
    let k := (dropTmp k).enableDeferred dfr
    { k := { k with fault := k.fault || f1 || f2 || f3 || f4 || g1 || g2 || g3 || g4 },
      t := { v := tv, he := the, hf := thf, c := tc }, newV := newV, newHE := newHE, newHF := newHF, newC := newC }
  else
    { k := (k.collectGarbage).enableDeferred dfr, t := t }

/-- StatusAttrib.cc:147-154: the overload without handle containers passes four empty vectors -/
def statusGCPlain (k0 : Kernel) (man : Bool) : Kernel := (statusGC k0 man {}).k

end OVM.Status

import OVM.Status.Model
import OVM.Base.ListLemmas
import OVM.Refine.Len
/-
  Lemmas for C04 (status part), part A: the algebra of index maps.

  A garbage collection is a sequence of *single deletions*; on a property column each of them
  is one of two list operations (`ResourceManager`): erase a slot (`Col.erase`) or exchange two
  slots (`Col.swap`, fast deletion: swap with the last slot, then erase the last slot).
  `IdxOp` names them.  Each has an index map old slot ↦ new slot (`fwd`, `none` for the erased
  slot) and its inverse new slot ↦ old slot (`pre`).  For a whole sequence:
    * `runOps_getElem?`   the value in new slot `j` is the value of old slot `preOps ops j`;
    * `fwdOps_preOps`, `preOps_fwdOps`   `fwdOps` (the composition of the per-deletion maps) and
                          `preOps` are mutually inverse: `fwdOps` is injective on the survivors and
                          onto the new slots;
    * `runOps_transport`  every column is carried along `fwdOps`;
    * `scatter_runOps`    the `new_*[old_*[h]] = h` loop of StatusAttribT_impl.hh:120-128, applied to
                          an index column that went through the same sequence, *is* `fwdOps`, and
                          performs no out-of-range write.
-/
namespace OVM.Status
open OVM

inductive IdxOp where
  | erase (h : Nat)
  | swap (a b : Nat)
deriving Repr, DecidableEq

namespace IdxOp

/-- effect on a column -/
def run {α} : IdxOp → List α → List α
  | erase h, l => l.eraseIdx h
  | swap a b, l => swapAt l a b

/-- new slot ↦ old slot -/
def pre : IdxOp → Nat → Nat
  | erase h, j => if j < h then j else j + 1
  | swap a b, j => if j = a then b else if j = b then a else j

/-- old slot ↦ new slot (`none`: the slot that is erased) -/
def fwd : IdxOp → Nat → Option Nat
  | erase h, i => if i = h then none else some (if i < h then i else i - 1)
  | swap a b, i => some (if i = a then b else if i = b then a else i)

/-- the operation addresses existing slots of a column with `n` slots -/
def ok : IdxOp → Nat → Prop
  | erase h, n => h < n
  | swap a b, n => a < n ∧ b < n

/-- number of slots afterwards -/
def len : IdxOp → Nat → Nat
  | erase _, n => n - 1
  | swap _ _, n => n

theorem run_length {α} (o : IdxOp) (l : List α) (h : o.ok l.length) : (o.run l).length = o.len l.length := by
  cases o with
  | erase x => simp only [run, len, ok] at *; rw [List.length_eraseIdx]; simp [h]
  | swap a b => simp [run, len]

theorem run_getElem? {α} (o : IdxOp) (l : List α) (h : o.ok l.length) (j : Nat) :
    (o.run l)[j]? = l[o.pre j]? := by
  cases o with
  | erase x => simp only [run, pre]; rw [List.getElem?_eraseIdx]; split <;> rfl
  | swap a b =>
    obtain ⟨ha, hb⟩ := h
    simp only [run, pre]
    rw [getElem?_swapAt l a b j ha hb]
    by_cases h1 : j = a
    · subst h1
      by_cases h2 : j = b
      · subst h2; simp
      · simp [h2]
    · by_cases h2 : j = b
      · subst h2; simp [h1]
      · simp [h1, h2]

theorem pre_lt (o : IdxOp) (n j : Nat) (h : o.ok n) (hj : j < o.len n) : o.pre j < n := by
  cases o with
  | erase x => simp only [pre, len, ok] at *; split <;> omega
  | swap a b =>
    obtain ⟨ha, hb⟩ := h
    simp only [pre, len] at *
    split
    · omega
    · split <;> omega

theorem fwd_pre (o : IdxOp) (n j : Nat) (h : o.ok n) (hj : j < o.len n) : o.fwd (o.pre j) = some j := by
  cases o with
  | erase x =>
    simp only [pre, fwd, len, ok] at *
    by_cases h1 : j < x
    · simp only [h1, if_true]; rw [if_neg (by omega)]
    · simp only [h1, if_false]; rw [if_neg (by omega), if_neg (by omega)]; simp
  | swap a b =>
    simp only [pre, fwd]
    by_cases h1 : j = a
    · subst h1
      by_cases h2 : b = j
      · subst h2; simp
      · simp
    · by_cases h2 : j = b
      · subst h2; simp [h1]
      · simp [h1, h2]

theorem pre_fwd (o : IdxOp) (n i j : Nat) (h : o.ok n) (hi : i < n) (hf : o.fwd i = some j) :
    j < o.len n ∧ o.pre j = i := by
  cases o with
  | erase x =>
    simp only [pre, fwd, len, ok] at *
    by_cases h1 : i = x
    · simp [h1] at hf
    · rw [if_neg h1] at hf
      by_cases h2 : i < x
      · rw [if_pos h2] at hf
        have e : i = j := Option.some.inj hf
        subst e
        rw [if_pos h2]
        omega
      · rw [if_neg h2] at hf
        have e : i - 1 = j := Option.some.inj hf
        subst e
        have : ¬ (i - 1 < x) := by omega
        rw [if_neg this]
        omega
  | swap a b =>
    obtain ⟨ha, hb⟩ := h
    simp only [pre, fwd, len] at *
    by_cases h1 : i = a
    · rw [if_pos h1] at hf
      have e : b = j := Option.some.inj hf
      subst e
      refine ⟨hb, ?_⟩
      by_cases h2 : b = a
      · rw [if_pos h2]; omega
      · rw [if_neg h2, if_pos rfl]; omega
    · rw [if_neg h1] at hf
      by_cases h2 : i = b
      · rw [if_pos h2] at hf
        have e : a = j := Option.some.inj hf
        subst e
        exact ⟨ha, by rw [if_pos rfl]; omega⟩
      · rw [if_neg h2] at hf
        have e : i = j := Option.some.inj hf
        subst e
        exact ⟨hi, by rw [if_neg h1, if_neg h2]⟩

end IdxOp

/-- a sequence of single deletions applied to a column, first operation first -/
def runOps {α} (ops : List IdxOp) (l : List α) : List α := ops.foldl (fun l o => o.run l) l
/-- final slot ↦ original slot -/
def preOps (ops : List IdxOp) (j : Nat) : Nat := ops.foldr (fun o j => o.pre j) j
/-- original slot ↦ final slot: the composition of the per-deletion index maps -/
def fwdOps (ops : List IdxOp) (i : Nat) : Option Nat := ops.foldl (fun oi o => oi.bind o.fwd) (some i)
def lenOps (ops : List IdxOp) (n : Nat) : Nat := ops.foldl (fun n o => o.len n) n
/-- every operation addresses existing slots at the time it is applied -/
def okOps : List IdxOp → Nat → Prop
  | [], _ => True
  | o :: t, n => o.ok n ∧ okOps t (o.len n)

@[simp] theorem runOps_nil {α} (l : List α) : runOps [] l = l := rfl
@[simp] theorem runOps_cons {α} (o : IdxOp) (t : List IdxOp) (l : List α) : runOps (o :: t) l = runOps t (o.run l) := rfl
@[simp] theorem preOps_nil (j : Nat) : preOps [] j = j := rfl
@[simp] theorem preOps_cons (o : IdxOp) (t : List IdxOp) (j : Nat) : preOps (o :: t) j = o.pre (preOps t j) := rfl
@[simp] theorem lenOps_nil (n : Nat) : lenOps [] n = n := rfl
@[simp] theorem lenOps_cons (o : IdxOp) (t : List IdxOp) (n : Nat) : lenOps (o :: t) n = lenOps t (o.len n) := rfl
@[simp] theorem fwdOps_nil (i : Nat) : fwdOps [] i = some i := rfl

theorem foldl_bind_none (t : List IdxOp) : t.foldl (fun oi o => oi.bind o.fwd) none = none := by
  induction t with
  | nil => rfl
  | cons o t ih => simpa using ih

theorem fwdOps_cons (o : IdxOp) (t : List IdxOp) (i : Nat) :
    fwdOps (o :: t) i = (o.fwd i).bind (fwdOps t) := by
  unfold fwdOps
  simp only [List.foldl_cons, Option.bind_some]
  cases o.fwd i with
  | none => simpa using foldl_bind_none t
  | some j => rfl

theorem runOps_append {α} (a b : List IdxOp) (l : List α) : runOps (a ++ b) l = runOps b (runOps a l) := by
  simp [runOps, List.foldl_append]
theorem lenOps_append (a b : List IdxOp) (n : Nat) : lenOps (a ++ b) n = lenOps b (lenOps a n) := by
  simp [lenOps, List.foldl_append]
theorem okOps_append (a b : List IdxOp) (n : Nat) : okOps (a ++ b) n ↔ okOps a n ∧ okOps b (lenOps a n) := by
  induction a generalizing n with
  | nil => simp [okOps]
  | cons o t ih => simp [okOps, ih, and_assoc]
theorem fwdOps_append (a b : List IdxOp) (i : Nat) : fwdOps (a ++ b) i = (fwdOps a i).bind (fwdOps b) := by
  induction a generalizing i with
  | nil => simp
  | cons o t ih =>
    simp only [List.cons_append, fwdOps_cons]
    cases o.fwd i with
    | none => rfl
    | some j => simpa using ih j

theorem runOps_length {α} (ops : List IdxOp) (l : List α) (h : okOps ops l.length) :
    (runOps ops l).length = lenOps ops l.length := by
  induction ops generalizing l with
  | nil => rfl
  | cons o t ih =>
    obtain ⟨h1, h2⟩ := h
    simp only [runOps_cons, lenOps_cons]
    rw [← o.run_length l h1] at h2 ⊢
    exact ih _ h2

/-- the value in final slot `j` is the value of original slot `preOps ops j` -/
theorem runOps_getElem? {α} (ops : List IdxOp) (l : List α) (h : okOps ops l.length) (j : Nat) :
    (runOps ops l)[j]? = l[preOps ops j]? := by
  induction ops generalizing l with
  | nil => rfl
  | cons o t ih =>
    obtain ⟨h1, h2⟩ := h
    simp only [runOps_cons, preOps_cons]
    rw [← o.run_length l h1] at h2
    rw [ih _ h2, o.run_getElem? l h1]

theorem preOps_lt (ops : List IdxOp) (n j : Nat) (h : okOps ops n) (hj : j < lenOps ops n) : preOps ops j < n := by
  induction ops generalizing n with
  | nil => simpa using hj
  | cons o t ih =>
    obtain ⟨h1, h2⟩ := h
    simp only [preOps_cons, lenOps_cons] at *
    exact o.pre_lt n _ h1 (ih _ h2 hj)

/-- `fwdOps` is onto the final slots … -/
theorem fwdOps_preOps (ops : List IdxOp) (n j : Nat) (h : okOps ops n) (hj : j < lenOps ops n) :
    fwdOps ops (preOps ops j) = some j := by
  induction ops generalizing n with
  | nil => rfl
  | cons o t ih =>
    obtain ⟨h1, h2⟩ := h
    simp only [preOps_cons, lenOps_cons, fwdOps_cons] at *
    rw [o.fwd_pre n _ h1 (preOps_lt t _ _ h2 hj)]
    exact ih _ h2 hj

/-- … and `preOps` is its inverse on the survivors -/
theorem preOps_fwdOps (ops : List IdxOp) (n i j : Nat) (h : okOps ops n) (hi : i < n) (hf : fwdOps ops i = some j) :
    j < lenOps ops n ∧ preOps ops j = i := by
  induction ops generalizing n i with
  | nil => simp at hf; subst hf; exact ⟨hi, rfl⟩
  | cons o t ih =>
    obtain ⟨h1, h2⟩ := h
    rw [fwdOps_cons] at hf
    cases hfo : o.fwd i with
    | none => rw [hfo] at hf; simp at hf
    | some m =>
      rw [hfo] at hf
      simp only [Option.bind_some] at hf
      obtain ⟨hm, hp⟩ := o.pre_fwd n i m h1 hi hfo
      obtain ⟨a, b⟩ := ih (o.len n) m h2 hm hf
      simp only [lenOps_cons, preOps_cons]
      exact ⟨a, by rw [b, hp]⟩

/-- the composed index map is injective on the survivors -/
theorem fwdOps_injective (ops : List IdxOp) (n i i' j : Nat) (h : okOps ops n) (hi : i < n) (hi' : i' < n)
    (hf : fwdOps ops i = some j) (hf' : fwdOps ops i' = some j) : i = i' := by
  rw [← (preOps_fwdOps ops n i j h hi hf).2, ← (preOps_fwdOps ops n i' j h hi' hf').2]

/-- every column is carried along the composed index map -/
theorem runOps_transport {α} (ops : List IdxOp) (l : List α) (h : okOps ops l.length) (i j : Nat)
    (hi : i < l.length) (hf : fwdOps ops i = some j) : (runOps ops l)[j]? = l[i]? := by
  rw [runOps_getElem? ops l h, (preOps_fwdOps ops _ i j h hi hf).2]

/-- an index column `0,1,…,n-1` that went through the deletions lists, slot by slot, where each
    surviving entity came from -/
theorem runOps_range (ops : List IdxOp) (n : Nat) (h : okOps ops n) :
    runOps ops (List.range n) = (List.range (lenOps ops n)).map (preOps ops) := by
  have hl : okOps ops (List.range n).length := by simpa using h
  apply List.ext_getElem?
  intro j
  rw [runOps_getElem? ops _ hl]
  by_cases hj : j < lenOps ops n
  · have := preOps_lt ops n j h hj
    simp [hj, this]
  · have h1 : ((List.range (lenOps ops n)).map (preOps ops))[j]? = none := by simp; omega
    rw [h1]
    have h2 : (runOps ops (List.range n)).length = lenOps ops n := by simpa using runOps_length ops (List.range n) hl
    have h3 : (runOps ops (List.range n))[j]? = none := by simp; omega
    rw [← runOps_getElem? ops _ hl]; exact h3

/-! ### the scatter loop -/

/-- `scatter` without the range check, on natural numbers -/
def scatterN (n : Nat) (old : List Nat) : List (Option Nat) :=
  old.zipIdx.foldl (fun acc p => acc.set p.1 (some p.2)) (List.replicate n none)

def scatterStep (n : Nat) (acc : List (Option Nat) × Bool) (p : Int × Nat) : List (Option Nat) × Bool :=
  if p.1 < 0 || p.1.toNat ≥ n then (acc.1, true) else (acc.1.set p.1.toNat (some p.2), acc.2)

theorem scatter_def (n : Nat) (old : List Int) :
    scatter n old = List.foldl (scatterStep n) (List.replicate n none, false) old.zipIdx := rfl

theorem scatter_step_eq (n : Nat) (old : List Nat) (k : Nat) (acc : List (Option Nat)) (h : ∀ x ∈ old, x < n) :
    List.foldl (scatterStep n) (acc, false) ((old.map Int.ofNat).zipIdx k)
    = (List.foldl (fun acc (p : Nat × Nat) => acc.set p.1 (some p.2)) acc (old.zipIdx k), false) := by
  induction old generalizing k acc with
  | nil => rfl
  | cons x t ih =>
    have hx : x < n := h x (by simp)
    simp only [List.map_cons, List.zipIdx_cons, List.foldl_cons]
    have c : scatterStep n (acc, false) (Int.ofNat x, k) = (acc.set x (some k), false) := by
      unfold scatterStep
      simp [hx]
    rw [c]
    exact ih (k + 1) _ (fun y hy => h y (by simp [hy]))

theorem scatter_eq_scatterN (n : Nat) (old : List Nat) (h : ∀ x ∈ old, x < n) :
    scatter n (old.map Int.ofNat) = (scatterN n old, false) := by
  rw [scatter_def]; unfold scatterN
  exact scatter_step_eq n old 0 _ h

theorem scatterN_snoc (n : Nat) (old : List Nat) (x : Nat) :
    scatterN n (old ++ [x]) = (scatterN n old).set x (some old.length) := by
  unfold scatterN
  rw [List.zipIdx_append, List.foldl_append]
  simp

theorem foldl_set_length (l : List (Nat × Nat)) (acc : List (Option Nat)) :
    (List.foldl (fun acc (p : Nat × Nat) => acc.set p.1 (some p.2)) acc l).length = acc.length := by
  induction l generalizing acc with
  | nil => rfl
  | cons p t ih => simp only [List.foldl_cons]; rw [ih]; simp

theorem scatterN_length (n : Nat) (old : List Nat) : (scatterN n old).length = n := by
  unfold scatterN; rw [foldl_set_length]; simp

/-- scatter of `pre 0, …, pre (m-1)` when `pre` is injective on `[0,m)` with values below `n`:
    slot `i` receives the unique `j` with `pre j = i` -/
theorem scatterN_map_range (n m : Nat) (pre : Nat → Nat) (hlt : ∀ j < m, pre j < n)
    (hinj : ∀ j < m, ∀ j' < m, pre j = pre j' → j = j') (i : Nat) (hi : i < n) :
    (scatterN n ((List.range m).map pre))[i]? = some ((List.range m).find? (fun j => pre j == i)) := by
  induction m with
  | zero => simp [scatterN, hi]
  | succ m ih =>
    have ih' := ih (fun j hj => hlt j (by omega)) (fun j hj j' hj' e => hinj j (by omega) j' (by omega) e)
    rw [List.range_succ, List.map_append, List.map_singleton, scatterN_snoc, List.getElem?_set, List.find?_append]
    simp only [List.length_map, List.length_range, scatterN_length]
    by_cases e : pre m = i
    · have hn : (List.range m).find? (fun j => pre j == i) = none := by
        rw [List.find?_eq_none]
        intro j hj
        have hj' : j < m := by simpa using hj
        intro hc
        have : pre j = pre m := by rw [e]; simpa using hc
        have := hinj j (by omega) m (by omega) this
        omega
      simp [e, hi, hn]
    · simp only [e, if_false]
      rw [ih']
      have : List.find? (fun j => pre j == i) [m] = none := by simp [e]
      simp [this]

/-- StatusAttribT_impl.hh:120-128 on an index column that went through `ops`:
    `new_*[i]` is the composed per-deletion index map, and no write is out of range -/
theorem scatter_runOps (ops : List IdxOp) (n : Nat) (h : okOps ops n) :
    scatter n ((runOps ops (List.range n)).map Int.ofNat) = ((List.range n).map (fwdOps ops), false) := by
  rw [runOps_range ops n h]
  have hlt : ∀ j < lenOps ops n, preOps ops j < n := fun j hj => preOps_lt ops n j h hj
  rw [scatter_eq_scatterN n _ (by
    intro x hx
    simp only [List.mem_map, List.mem_range] at hx
    obtain ⟨j, hj, rfl⟩ := hx
    exact hlt j hj)]
  congr 1
  apply List.ext_getElem?
  intro i
  by_cases hi : i < n
  · have hinj : ∀ j < lenOps ops n, ∀ j' < lenOps ops n, preOps ops j = preOps ops j' → j = j' := by
      intro j hj j' hj' e
      have a := fwdOps_preOps ops n j h hj
      have b := fwdOps_preOps ops n j' h hj'
      rw [e, b] at a
      exact (Option.some.inj a).symm
    rw [scatterN_map_range n _ (preOps ops) hlt hinj i hi]
    simp only [List.getElem?_map, List.getElem?_range hi, Option.map_some]
    congr 1
    cases hf : fwdOps ops i with
    | none =>
      rw [List.find?_eq_none]
      intro j hj hc
      have hj' : j < lenOps ops n := by simpa using hj
      have : preOps ops j = i := by simpa using hc
      have := fwdOps_preOps ops n j h hj'
      rw [‹preOps ops j = i›, hf] at this
      cases this
    | some j =>
      obtain ⟨hj, hp⟩ := preOps_fwdOps ops n i j h hi hf
      cases hq : (List.range (lenOps ops n)).find? (fun j => preOps ops j == i) with
      | none =>
        rw [List.find?_eq_none] at hq
        exact absurd (by simp [hp]) (hq j (by simpa using hj))
      | some j' =>
        have h1 := List.find?_some hq
        have h2 : j' < lenOps ops n := by simpa using List.mem_of_find?_eq_some hq
        have : preOps ops j' = preOps ops j := by rw [hp]; simpa using h1
        rw [hinj j' h2 j hj this]
  · have a : (scatterN n ((List.range (lenOps ops n)).map (preOps ops)))[i]? = none := by
      rw [List.getElem?_eq_none]; rw [scatterN_length]; omega
    have b : ((List.range n).map (fwdOps ops))[i]? = none := by simp; omega
    rw [a, b]


/-! ## Part B: `collect_garbage` moves every property column of a kind by one sequence of
    single deletions

  `Log` = the sequence of single deletions a piece of kernel code performed, per entity kind
  (halfedge / halfface columns follow the edge / face operations pairwise, `halfOps`).
  `Trans k k' L`: going from `k` to `k'` changed the property storages exactly by `L`, every
  operation addressed an existing slot, and the entity counts are those `L` predicts. -/

open OVM.Kernel

def Col.runOps (ops : List IdxOp) (c : Col) : Col := { c with vals := OVM.Status.runOps ops c.vals }

@[simp] theorem Col.runOps_nil (c : Col) : Col.runOps [] c = c := rfl
theorem Col.runOps_append (a b : List IdxOp) (c : Col) : Col.runOps (a ++ b) c = Col.runOps b (Col.runOps a c) := by
  simp [Col.runOps, OVM.Status.runOps_append]
@[simp] theorem Col.runOps_key (ops : List IdxOp) (c : Col) : (Col.runOps ops c).key = c.key := rfl
@[simp] theorem Col.runOps_dflt (ops : List IdxOp) (c : Col) : (Col.runOps ops c).dflt = c.dflt := rfl
@[simp] theorem Col.runOps_vals (ops : List IdxOp) (c : Col) : (Col.runOps ops c).vals = OVM.Status.runOps ops c.vals := rfl

/-- the two slots of a half-entity column follow the parent: odd slot first when erasing -/
def IdxOp.half : IdxOp → List IdxOp
  | .erase h => [.erase (2 * h + 1), .erase (2 * h)]
  | .swap a b => [.swap (2 * a) (2 * b), .swap (2 * a + 1) (2 * b + 1)]
def halfOps (ops : List IdxOp) : List IdxOp := ops.flatMap IdxOp.half

@[simp] theorem halfOps_nil : halfOps [] = [] := rfl
theorem halfOps_append (a b : List IdxOp) : halfOps (a ++ b) = halfOps a ++ halfOps b := by
  simp [halfOps]
theorem halfOps_cons (o : IdxOp) (t : List IdxOp) : halfOps (o :: t) = o.half ++ halfOps t := by
  simp [halfOps]

structure Log where
  v : List IdxOp := []
  e : List IdxOp := []
  f : List IdxOp := []
  c : List IdxOp := []

def Log.apply (L : Log) (p : Props) : Props :=
  { v := p.v.map (Col.runOps L.v), e := p.e.map (Col.runOps L.e), he := p.he.map (Col.runOps (halfOps L.e)),
    f := p.f.map (Col.runOps L.f), hf := p.hf.map (Col.runOps (halfOps L.f)), c := p.c.map (Col.runOps L.c), m := p.m }

def Log.append (A B : Log) : Log := { v := A.v ++ B.v, e := A.e ++ B.e, f := A.f ++ B.f, c := A.c ++ B.c }

theorem map_runOps_nil (cs : List Col) : cs.map (Col.runOps []) = cs := by
  induction cs with
  | nil => rfl
  | cons c t ih => simp [ih]

theorem Log.apply_empty (p : Props) : Log.apply {} p = p := by
  cases p; simp [Log.apply, map_runOps_nil]

theorem Log.apply_append (A B : Log) (p : Props) : (A.append B).apply p = B.apply (A.apply p) := by
  simp only [Log.apply, Log.append, List.map_map, halfOps_append]
  congr 1 <;> (apply List.map_congr_left; intro c _; simp [Col.runOps_append])

structure Trans (k k' : Kernel) (L : Log) : Prop where
  props : k'.props = L.apply k.props
  okV : okOps L.v k.nV
  nV : k'.nV = lenOps L.v k.nV
  okE : okOps L.e k.nE
  nE : k'.nE = lenOps L.e k.nE
  okF : okOps L.f k.nF
  nF : k'.nF = lenOps L.f k.nF
  okC : okOps L.c k.nC
  nC : k'.nC = lenOps L.c k.nC

theorem Trans.refl (k : Kernel) : Trans k k {} :=
  ⟨(Log.apply_empty _).symm, trivial, rfl, trivial, rfl, trivial, rfl, trivial, rfl⟩

theorem Trans.trans {a b c : Kernel} {A B : Log} (h1 : Trans a b A) (h2 : Trans b c B) : Trans a c (A.append B) := by
  refine ⟨?_, ?_, ?_, ?_, ?_, ?_, ?_, ?_, ?_⟩
  · rw [h2.props, h1.props, Log.apply_append]
  · exact (okOps_append _ _ _).2 ⟨h1.okV, by rw [← h1.nV]; exact h2.okV⟩
  · simp only [Log.append, lenOps_append]; rw [← h1.nV]; exact h2.nV
  · exact (okOps_append _ _ _).2 ⟨h1.okE, by rw [← h1.nE]; exact h2.okE⟩
  · simp only [Log.append, lenOps_append]; rw [← h1.nE]; exact h2.nE
  · exact (okOps_append _ _ _).2 ⟨h1.okF, by rw [← h1.nF]; exact h2.okF⟩
  · simp only [Log.append, lenOps_append]; rw [← h1.nF]; exact h2.nF
  · exact (okOps_append _ _ _).2 ⟨h1.okC, by rw [← h1.nC]; exact h2.okC⟩
  · simp only [Log.append, lenOps_append]; rw [← h1.nC]; exact h2.nC

/-- a state change that touches neither the property storages nor the entity arrays -/
theorem Trans.of_same (k k' : Kernel) (hp : k'.props = k.props) (hv : k'.nV = k.nV) (he : k'.edges = k.edges)
    (hf : k'.faces = k.faces) (hc : k'.cells = k.cells) : Trans k k' {} :=
  ⟨by rw [hp, Log.apply_empty], trivial, hv, trivial, by show k'.edges.length = k.edges.length; rw [he],
   trivial, by show k'.faces.length = k.faces.length; rw [hf], trivial, by show k'.cells.length = k.cells.length; rw [hc]⟩

/-- the single deletions of one `delete_*_core` call in immediate mode on a kind with `n` slots:
    plain: erase slot `h`; fast: exchange with the last slot (unless it is the last), erase the last -/
def coreOps (fast : Bool) (n h : Nat) : List IdxOp :=
  if fast then (if h == n - 1 then [IdxOp.erase (n - 1)] else [IdxOp.swap h (n - 1), IdxOp.erase (n - 1)])
  else [IdxOp.erase h]

theorem coreOps_ok (fast : Bool) (n h : Nat) (hh : h < n) : okOps (coreOps fast n h) n := by
  unfold coreOps
  cases fast
  · simp [okOps, IdxOp.ok, hh]
  · by_cases e : h = n - 1
    · simp [e, okOps, IdxOp.ok]; omega
    · simp [e, okOps, IdxOp.ok, IdxOp.len]; omega

theorem coreOps_len (fast : Bool) (n h : Nat) : lenOps (coreOps fast n h) n = n - 1 := by
  unfold coreOps
  cases fast
  · simp [IdxOp.len]
  · by_cases e : h = n - 1 <;> simp [e, IdxOp.len]


/-! ### the property plumbing of the kernel in terms of `Log` -/

theorem cellDeleted_log (p : Props) (h : Nat) : cellDeleted p h = Log.apply { c := [IdxOp.erase h] } p := by
  cases p; simp only [cellDeleted, Log.apply, halfOps_nil, map_runOps_nil]; rfl
theorem vertexDeleted_log (p : Props) (h : Nat) : vertexDeleted p h = Log.apply { v := [IdxOp.erase h] } p := by
  cases p; simp only [vertexDeleted, Log.apply, halfOps_nil, map_runOps_nil]; rfl
theorem edgeDeleted_log (p : Props) (h : Nat) : edgeDeleted p h = Log.apply { e := [IdxOp.erase h] } p := by
  cases p; simp only [edgeDeleted, Log.apply, halfOps_nil, map_runOps_nil]; rfl
theorem faceDeleted_log (p : Props) (h : Nat) : faceDeleted p h = Log.apply { f := [IdxOp.erase h] } p := by
  cases p; simp only [faceDeleted, Log.apply, halfOps_nil, map_runOps_nil]; rfl
theorem swapCProps_log (p : Props) (a b : Nat) : swapCProps p a b = Log.apply { c := [IdxOp.swap a b] } p := by
  cases p; simp only [swapCProps, Log.apply, halfOps_nil, map_runOps_nil]; rfl
theorem swapVProps_log (p : Props) (a b : Nat) : swapVProps p a b = Log.apply { v := [IdxOp.swap a b] } p := by
  cases p; simp only [swapVProps, Log.apply, halfOps_nil, map_runOps_nil]; rfl
theorem swapEProps_log (p : Props) (a b : Nat) : swapEProps p a b = Log.apply { e := [IdxOp.swap a b] } p := by
  cases p; simp only [swapEProps, Log.apply, halfOps_nil, map_runOps_nil]; rfl
theorem swapFProps_log (p : Props) (a b : Nat) : swapFProps p a b = Log.apply { f := [IdxOp.swap a b] } p := by
  cases p; simp only [swapFProps, Log.apply, halfOps_nil, map_runOps_nil]; rfl

/-! ### one `delete_*_core` call in immediate mode -/

theorem swapCell_shape (k : Kernel) (a b : Nat) (hab : a ≠ b) :
    (k.swapCell a b).props = swapCProps k.props a b ∧ (k.swapCell a b).cells = swapAt k.cells a b ∧
    (k.swapCell a b).edges = k.edges ∧ (k.swapCell a b).faces = k.faces ∧ (k.swapCell a b).nV = k.nV ∧
    (k.swapCell a b).deferred = k.deferred := by
  unfold swapCell; simp [hab]
theorem swapFace_shape (k : Kernel) (a b : Nat) (hab : a ≠ b) :
    (k.swapFace a b).props = swapFProps k.props a b ∧ (k.swapFace a b).faces = swapAt k.faces a b ∧
    (k.swapFace a b).edges = k.edges ∧ (k.swapFace a b).cDel = k.cDel ∧ (k.swapFace a b).nV = k.nV ∧
    (k.swapFace a b).deferred = k.deferred := by
  unfold swapFace; simp [hab]
theorem swapEdge_shape (k : Kernel) (a b : Nat) (hab : a ≠ b) :
    (k.swapEdge a b).props = swapEProps k.props a b ∧ (k.swapEdge a b).edges = swapAt k.edges a b ∧
    (k.swapEdge a b).cells = k.cells ∧ (k.swapEdge a b).fDel = k.fDel ∧ (k.swapEdge a b).nV = k.nV ∧
    (k.swapEdge a b).deferred = k.deferred := by
  unfold swapEdge; simp [hab]
theorem swapVertex_shape (k : Kernel) (a b : Nat) (hab : a ≠ b) :
    (k.swapVertex a b).props = swapVProps k.props a b ∧ (k.swapVertex a b).nV = k.nV ∧
    (k.swapVertex a b).cells = k.cells ∧ (k.swapVertex a b).faces = k.faces ∧ (k.swapVertex a b).eDel = k.eDel ∧
    (k.swapVertex a b).deferred = k.deferred := by
  unfold swapVertex; simp [hab]

theorem deleteCellCore_shape (k : Kernel) (h : Nat) (hd : k.deferred = false) :
    (k.deleteCellCore h).props = Log.apply { c := coreOps k.fast k.nC h } k.props ∧
      (k.deleteCellCore h).nV = k.nV ∧ (k.deleteCellCore h).edges = k.edges ∧ (k.deleteCellCore h).faces = k.faces ∧
      (k.deleteCellCore h).cells.length = (runOps (coreOps k.fast k.nC h) k.cells).length := by
  unfold deleteCellCore coreOps
  cases hf : k.fast
  · simp [hd, cellDeleted_log, runOps, IdxOp.run]
  · by_cases e : h = k.nC - 1
    · simp [hd, e, cellDeleted_log, swapCell, runOps, IdxOp.run]
    · have s := swapCell_shape k h (k.nC - 1) e
      simp [hd, e, s, cellDeleted_log, swapCProps_log, runOps, IdxOp.run]
      exact (Log.apply_append { c := [IdxOp.swap h (k.nC - 1)] } { c := [IdxOp.erase (k.nC - 1)] } k.props).symm

theorem deleteFaceCore_shape (k : Kernel) (h : Nat) (hd : k.deferred = false) :
    (k.deleteFaceCore h).props = Log.apply { f := coreOps k.fast k.nF h } k.props ∧
      (k.deleteFaceCore h).nV = k.nV ∧ (k.deleteFaceCore h).edges = k.edges ∧ (k.deleteFaceCore h).cDel = k.cDel ∧
      (k.deleteFaceCore h).faces.length = (runOps (coreOps k.fast k.nF h) k.faces).length := by
  unfold deleteFaceCore coreOps
  cases hf : k.fast
  · simp [hd, faceDeleted_log, runOps, IdxOp.run]
  · by_cases e : h = k.nF - 1
    · simp [hd, e, faceDeleted_log, swapFace, runOps, IdxOp.run]
    · have s := swapFace_shape k h (k.nF - 1) e
      simp [hd, e, s, faceDeleted_log, swapFProps_log, runOps, IdxOp.run]
      exact (Log.apply_append { f := [IdxOp.swap h (k.nF - 1)] } { f := [IdxOp.erase (k.nF - 1)] } k.props).symm

theorem deleteEdgeCore_shape (k : Kernel) (h : Nat) (hd : k.deferred = false) :
    (k.deleteEdgeCore h).props = Log.apply { e := coreOps k.fast k.nE h } k.props ∧
      (k.deleteEdgeCore h).nV = k.nV ∧ (k.deleteEdgeCore h).cells = k.cells ∧ (k.deleteEdgeCore h).fDel = k.fDel ∧
      (k.deleteEdgeCore h).edges.length = (runOps (coreOps k.fast k.nE h) k.edges).length := by
  unfold deleteEdgeCore coreOps
  cases hf : k.fast
  · simp [hd, edgeDeleted_log, runOps, IdxOp.run]
  · by_cases e : h = k.nE - 1
    · simp [hd, e, edgeDeleted_log, swapEdge, runOps, IdxOp.run]
    · have s := swapEdge_shape k h (k.nE - 1) e
      simp [hd, e, s, edgeDeleted_log, swapEProps_log, runOps, IdxOp.run]
      exact (Log.apply_append { e := [IdxOp.swap h (k.nE - 1)] } { e := [IdxOp.erase (k.nE - 1)] } k.props).symm

theorem deleteVertexCore_shape (k : Kernel) (h : Nat) (hd : k.deferred = false) :
    (k.deleteVertexCore h).props = Log.apply { v := coreOps k.fast k.nV h } k.props ∧
      (k.deleteVertexCore h).nV = k.nV - 1 ∧ (k.deleteVertexCore h).cells = k.cells ∧ (k.deleteVertexCore h).faces = k.faces ∧
      (k.deleteVertexCore h).eDel = k.eDel := by
  unfold deleteVertexCore coreOps
  cases hf : k.fast
  · simp [hd, vertexDeleted_log]
  · by_cases e : h = k.nV - 1
    · simp [hd, e, vertexDeleted_log, swapVertex]
    · have s := swapVertex_shape k h (k.nV - 1) e
      simp [hd, e, s, vertexDeleted_log, swapVProps_log]
      exact (Log.apply_append { v := [IdxOp.swap h (k.nV - 1)] } { v := [IdxOp.erase (k.nV - 1)] } k.props).symm

def P (k : Kernel) : Prop := k.deferred = false ∧ LenInv k

theorem deleteCellCore_trans (k : Kernel) (h : Nat) (hp : P k) (hh : h < k.nC) :
    Trans k (k.deleteCellCore h) { c := coreOps k.fast k.nC h } ∧ P (k.deleteCellCore h) := by
  obtain ⟨hd, hi⟩ := hp
  obtain ⟨a, b, c, d, e⟩ := deleteCellCore_shape k h hd
  have ok := coreOps_ok k.fast k.nC h hh
  refine ⟨⟨a, trivial, b, trivial, by show (k.deleteCellCore h).edges.length = _; rw [c]; rfl, trivial,
    by show (k.deleteCellCore h).faces.length = _; rw [d]; rfl, ok, ?_⟩, by rw [deleteCellCore_deferred]; exact hd,
    lenInv_deleteCellCore k h hi⟩
  show (k.deleteCellCore h).cells.length = _
  rw [e, runOps_length _ _ ok]; rfl

theorem deleteFaceCore_trans (k : Kernel) (h : Nat) (hp : P k) (hh : h < k.nF) :
    Trans k (k.deleteFaceCore h) { f := coreOps k.fast k.nF h } ∧ P (k.deleteFaceCore h) := by
  obtain ⟨hd, hi⟩ := hp
  obtain ⟨a, b, c, d, e⟩ := deleteFaceCore_shape k h hd
  have ok := coreOps_ok k.fast k.nF h hh
  have hi' := lenInv_deleteFaceCore k h hi
  refine ⟨⟨a, trivial, b, trivial, by show (k.deleteFaceCore h).edges.length = _; rw [c]; rfl, ok, ?_, trivial, ?_⟩,
    by rw [deleteFaceCore_deferred]; exact hd, hi'⟩
  · show (k.deleteFaceCore h).faces.length = _
    rw [e, runOps_length _ _ ok]; rfl
  · show (k.deleteFaceCore h).nC = k.nC
    rw [← hi'.cDel, d, hi.cDel]

theorem deleteEdgeCore_trans (k : Kernel) (h : Nat) (hp : P k) (hh : h < k.nE) :
    Trans k (k.deleteEdgeCore h) { e := coreOps k.fast k.nE h } ∧ P (k.deleteEdgeCore h) := by
  obtain ⟨hd, hi⟩ := hp
  obtain ⟨a, b, c, d, e⟩ := deleteEdgeCore_shape k h hd
  have ok := coreOps_ok k.fast k.nE h hh
  have hi' := lenInv_deleteEdgeCore k h hi
  refine ⟨⟨a, trivial, b, ok, ?_, trivial, ?_, trivial, by show (k.deleteEdgeCore h).cells.length = _; rw [c]; rfl⟩,
    by rw [deleteEdgeCore_deferred]; exact hd, hi'⟩
  · show (k.deleteEdgeCore h).edges.length = _
    rw [e, runOps_length _ _ ok]; rfl
  · show (k.deleteEdgeCore h).nF = k.nF
    rw [← hi'.fDel, d, hi.fDel]

theorem deleteVertexCore_trans (k : Kernel) (h : Nat) (hp : P k) (hh : h < k.nV) :
    Trans k (k.deleteVertexCore h) { v := coreOps k.fast k.nV h } ∧ P (k.deleteVertexCore h) := by
  obtain ⟨hd, hi⟩ := hp
  obtain ⟨a, b, c, d, e⟩ := deleteVertexCore_shape k h hd
  have ok := coreOps_ok k.fast k.nV h hh
  have hi' := lenInv_deleteVertexCore k h hi hh
  refine ⟨⟨a, ok, by rw [b]; exact (coreOps_len _ _ _).symm, trivial, ?_, trivial,
    by show (k.deleteVertexCore h).faces.length = _; rw [d]; rfl, trivial,
    by show (k.deleteVertexCore h).cells.length = _; rw [c]; rfl⟩,
    by rw [deleteVertexCore_deferred]; exact hd, hi'⟩
  show (k.deleteVertexCore h).nE = k.nE
  rw [← hi'.eDel, e, hi.eDel]

/-! ### the sweeps of `collect_garbage` -/

theorem sweep_exists (isDel : Kernel → Nat → Bool) (unflag core : Kernel → Nat → Kernel)
    (hstep : ∀ k i, P k → isDel k i = true → ∃ L, Trans k (core (unflag k i) i) L ∧ P (core (unflag k i) i))
    (k : Kernel) (hk : P k) (n : Nat) :
    ∃ L, Trans k (gcSweep k n isDel unflag core) L ∧ P (gcSweep k n isDel unflag core) := by
  unfold gcSweep
  generalize (List.range n).reverse = xs
  induction xs generalizing k with
  | nil => exact ⟨{}, Trans.refl k, hk⟩
  | cons x t ih =>
    simp only [List.foldl_cons]
    by_cases hx : isDel k x = true
    · obtain ⟨L1, t1, p1⟩ := hstep k x hk hx
      obtain ⟨L2, t2, p2⟩ := ih _ p1
      rw [if_pos hx]
      exact ⟨L1.append L2, t1.trans t2, p2⟩
    · rw [if_neg hx]; exact ih k hk

theorem getD_true_lt (l : List Bool) (i : Nat) (h : l.getD i false = true) : i < l.length := by
  by_cases hi : i < l.length
  · exact hi
  · simp [List.getD, List.getElem?_eq_none (Nat.le_of_not_lt hi)] at h

theorem gcCells_trans (k : Kernel) (hk : P k) : ∃ L, Trans k (gcCells k) L ∧ P (gcCells k) := by
  obtain ⟨L, t, p⟩ := sweep_exists cDeleted (fun k i => { k with cDel := k.cDel.set i false }) deleteCellCore (by
    intro k i hp hd
    have hi : i < k.nC := by rw [← hp.2.cDel]; exact getD_true_lt _ _ hd
    have p1 : P { k with cDel := k.cDel.set i false } := ⟨hp.1, lenInv_unflagC k i hp.2⟩
    obtain ⟨t2, p2⟩ := deleteCellCore_trans _ i p1 hi
    exact ⟨_, (Trans.of_same k { k with cDel := k.cDel.set i false } rfl rfl rfl rfl rfl).trans t2, p2⟩) k hk k.nC
  unfold gcCells
  exact ⟨_, t.trans (Trans.of_same _ _ rfl rfl rfl rfl rfl), p.1, lenInv_withNDelC _ 0 p.2⟩

theorem gcFaces_trans (k : Kernel) (hk : P k) : ∃ L, Trans k (gcFaces k) L ∧ P (gcFaces k) := by
  obtain ⟨L, t, p⟩ := sweep_exists fDeleted (fun k i => { k with fDel := k.fDel.set i false }) deleteFaceCore (by
    intro k i hp hd
    have hi : i < k.nF := by rw [← hp.2.fDel]; exact getD_true_lt _ _ hd
    have p1 : P { k with fDel := k.fDel.set i false } := ⟨hp.1, lenInv_unflagF k i hp.2⟩
    obtain ⟨t2, p2⟩ := deleteFaceCore_trans _ i p1 hi
    exact ⟨_, (Trans.of_same k { k with fDel := k.fDel.set i false } rfl rfl rfl rfl rfl).trans t2, p2⟩) k hk k.nF
  unfold gcFaces
  exact ⟨_, t.trans (Trans.of_same _ _ rfl rfl rfl rfl rfl), p.1, lenInv_withNDelF _ 0 p.2⟩

theorem gcEdges_trans (k : Kernel) (hk : P k) : ∃ L, Trans k (gcEdges k) L ∧ P (gcEdges k) := by
  obtain ⟨L, t, p⟩ := sweep_exists eDeleted (fun k i => { k with eDel := k.eDel.set i false }) deleteEdgeCore (by
    intro k i hp hd
    have hi : i < k.nE := by rw [← hp.2.eDel]; exact getD_true_lt _ _ hd
    have p1 : P { k with eDel := k.eDel.set i false } := ⟨hp.1, lenInv_unflagE k i hp.2⟩
    obtain ⟨t2, p2⟩ := deleteEdgeCore_trans _ i p1 hi
    exact ⟨_, (Trans.of_same k { k with eDel := k.eDel.set i false } rfl rfl rfl rfl rfl).trans t2, p2⟩) k hk k.nE
  unfold gcEdges
  exact ⟨_, t.trans (Trans.of_same _ _ rfl rfl rfl rfl rfl), p.1, lenInv_withNDelE _ 0 p.2⟩

theorem gcVerts_trans (k : Kernel) (hk : P k) : ∃ L, Trans k (gcVerts k) L ∧ P (gcVerts k) := by
  obtain ⟨L, t, p⟩ := sweep_exists vDeleted (fun k i => { k with vDel := k.vDel.set i false }) deleteVertexCore (by
    intro k i hp hd
    have hi : i < k.nV := by rw [← hp.2.vDel]; exact getD_true_lt _ _ hd
    have p1 : P { k with vDel := k.vDel.set i false } := ⟨hp.1, lenInv_unflagV k i hp.2⟩
    obtain ⟨t2, p2⟩ := deleteVertexCore_trans _ i p1 hi
    exact ⟨_, (Trans.of_same k { k with vDel := k.vDel.set i false } rfl rfl rfl rfl rfl).trans t2, p2⟩) k hk k.nV
  unfold gcVerts
  exact ⟨_, t.trans (Trans.of_same _ _ rfl rfl rfl rfl rfl), p.1, lenInv_withNDelV _ 0 p.2⟩

theorem Trans.withDeferred (k : Kernel) (b : Bool) : Trans k { k with deferred := b } {} :=
  Trans.of_same _ _ rfl rfl rfl rfl rfl

/-- `collect_garbage` changes the property storages by one sequence of single deletions per
    entity kind, each addressing an existing slot; the entity counts follow -/
theorem collectGarbage_trans (k : Kernel) (hi : LenInv k) : ∃ L, Trans k k.collectGarbage L := by
  unfold collectGarbage
  split
  · exact ⟨{}, Trans.refl k⟩
  · have p0 : P { k with deferred := false } := ⟨rfl, lenInv_withDeferred k false hi⟩
    obtain ⟨L1, t1, p1⟩ := gcCells_trans _ p0
    obtain ⟨L2, t2, p2⟩ := gcFaces_trans _ p1
    obtain ⟨L3, t3, p3⟩ := gcEdges_trans _ p2
    obtain ⟨L4, t4, p4⟩ := gcVerts_trans _ p3
    exact ⟨_, (((((Trans.withDeferred k false).trans t1).trans t2).trans t3).trans t4).trans (Trans.withDeferred _ true)⟩

/-! ### half-entity columns follow their parents side-preservingly -/

theorem half_ok (o : IdxOp) (n : Nat) (h : o.ok n) : okOps o.half (2 * n) ∧ lenOps o.half (2 * n) = 2 * o.len n := by
  cases o with
  | erase x => simp only [IdxOp.ok] at h; simp [IdxOp.half, okOps, IdxOp.ok, IdxOp.len]; omega
  | swap a b => obtain ⟨ha, hb⟩ := h; simp [IdxOp.half, okOps, IdxOp.ok, IdxOp.len]; omega

theorem fwdOps_pair (o1 o2 : IdxOp) (i : Nat) : fwdOps [o1, o2] i = (o1.fwd i).bind o2.fwd := by
  simp [fwdOps]

theorem half_fwd (o : IdxOp) (i s : Nat) (hs : s ≤ 1) :
    fwdOps o.half (2 * i + s) = (o.fwd i).map (fun m => 2 * m + s) := by
  cases o with
  | erase x =>
    simp only [IdxOp.half, fwdOps_pair, IdxOp.fwd]
    by_cases h1 : i = x
    · subst h1
      by_cases h2 : s = 1
      · subst h2; simp [IdxOp.fwd]
      · have : s = 0 := by omega
        subst this; simp [IdxOp.fwd]
    · by_cases h2 : i < x
      · have a : ¬ (2 * i + s = 2 * x + 1) := by omega
        have b : 2 * i + s < 2 * x + 1 := by omega
        have c : ¬ (2 * i + s = 2 * x) := by omega
        have d : 2 * i + s < 2 * x := by omega
        simp [h1, h2, a, b, c, d, IdxOp.fwd]
      · have a : ¬ (2 * i + s = 2 * x + 1) := by omega
        have b : ¬ (2 * i + s < 2 * x + 1) := by omega
        have c : ¬ (2 * i + s - 1 = 2 * x) := by omega
        have d : ¬ (2 * i + s - 1 < 2 * x) := by omega
        simp [h1, h2, a, b, c, d, IdxOp.fwd]
        omega
  | swap a b =>
    simp only [IdxOp.half, fwdOps_pair, IdxOp.fwd, Option.bind_some, Option.map_some]
    by_cases h1 : i = a
    · subst h1
      by_cases h2 : s = 1
      · subst h2
        have x1 : ¬ (2 * i + 1 = 2 * i) := by omega
        have x2 : ¬ (2 * i + 1 = 2 * b) := by omega
        simp [x1, x2]
      · have : s = 0 := by omega
        subst this
        have x1 : ¬ (2 * b = 2 * i + 1) := by omega
        have x2 : ¬ (2 * b = 2 * b + 1) := by omega
        simp [x1, x2]
    · by_cases h3 : i = b
      · subst h3
        by_cases h2 : s = 1
        · subst h2
          have x1 : ¬ (2 * i + 1 = 2 * a) := by omega
          have x2 : ¬ (2 * i + 1 = 2 * i) := by omega
          have x3 : ¬ (2 * i + 1 = 2 * a + 1) := by omega
          simp [x1, x2, x3, h1]
        · have : s = 0 := by omega
          subst this
          have x0 : ¬ (2 * i = 2 * a) := by omega
          have x1 : ¬ (2 * a = 2 * a + 1) := by omega
          have x2 : ¬ (2 * a = 2 * i + 1) := by omega
          simp [x0, x1, x2, h1]
      · have x0 : ¬ (2 * i + s = 2 * a) := by omega
        have x1 : ¬ (2 * i + s = 2 * b) := by omega
        by_cases h2 : s = 1
        · subst h2
          have x2 : ¬ (2 * i + 1 = 2 * a + 1) := by omega
          have x3 : ¬ (2 * i + 1 = 2 * b + 1) := by omega
          have y0 : ¬ (2 * i = 2 * a) := by omega
          have y1 : ¬ (2 * i = 2 * b) := by omega
          simp [x0, x1, x2, x3, y0, y1, h1, h3]
        · have : s = 0 := by omega
          subst this
          have x2 : ¬ (2 * i = 2 * a + 1) := by omega
          have x3 : ¬ (2 * i = 2 * b + 1) := by omega
          have y0 : ¬ (2 * i = 2 * a) := by omega
          have y1 : ¬ (2 * i = 2 * b) := by omega
          simp [y0, y1, x2, x3, h1, h3]

theorem halfOps_ok (ops : List IdxOp) (n : Nat) (h : okOps ops n) :
    okOps (halfOps ops) (2 * n) ∧ lenOps (halfOps ops) (2 * n) = 2 * lenOps ops n := by
  induction ops generalizing n with
  | nil => exact ⟨trivial, rfl⟩
  | cons o t ih =>
    obtain ⟨h1, h2⟩ := h
    obtain ⟨a, b⟩ := half_ok o n h1
    obtain ⟨c, d⟩ := ih _ h2
    rw [halfOps_cons]
    refine ⟨(okOps_append _ _ _).2 ⟨a, by rw [b]; exact c⟩, ?_⟩
    rw [lenOps_append, b, d]; rfl

theorem halfOps_fwd (ops : List IdxOp) (i s : Nat) (hs : s ≤ 1) :
    fwdOps (halfOps ops) (2 * i + s) = (fwdOps ops i).map (fun m => 2 * m + s) := by
  induction ops generalizing i with
  | nil => rfl
  | cons o t ih =>
    rw [halfOps_cons, fwdOps_append, half_fwd o i s hs, fwdOps_cons]
    cases o.fwd i with
    | none => rfl
    | some m => simpa using ih m

/-! ### helper facts for the tracking branch of `statusGC` -/

theorem runOps_map {α β} (f : α → β) (ops : List IdxOp) (l : List α) (h : okOps ops l.length) :
    runOps ops (l.map f) = (runOps ops l).map f := by
  apply List.ext_getElem?
  intro j
  rw [runOps_getElem? ops (l.map f) (by simpa using h), List.getElem?_map, List.getElem?_map, runOps_getElem? ops l h]

/-- `remap` in closed form -/
def remapFn (new : List (Option Nat)) (h : Int) : Int :=
  if h < 0 then h else if h.toNat ≥ new.length then h else Spec.optInt (new.getD h.toNat none)

theorem remap_eq (new : List (Option Nat)) (t : List Int) :
    remap new t = (t.map (remapFn new), t.any (fun h => !(h < 0) && decide (h.toNat ≥ new.length))) := by
  unfold remap
  suffices ∀ (acc : List Int) (b : Bool),
      List.foldl (fun (acc : List Int × Bool) h =>
        if h < 0 then (acc.1 ++ [h], acc.2)
        else if h.toNat ≥ new.length then (acc.1 ++ [h], true)
        else (acc.1 ++ [Spec.optInt (new.getD h.toNat none)], acc.2)) (acc, b) t
      = (acc ++ t.map (remapFn new), b || t.any (fun h => !(h < 0) && decide (h.toNat ≥ new.length))) by
    simpa using this [] false
  induction t with
  | nil => intro acc b; simp
  | cons x t ih =>
    intro acc b
    simp only [List.foldl_cons, List.map_cons, List.any_cons]
    by_cases h1 : x < 0
    · simp only [h1, if_true]; rw [ih]; simp [remapFn, h1]
    · by_cases h2 : x.toNat ≥ new.length
      · simp only [h1, h2, if_true, if_false]; rw [ih]; simp [remapFn, h1, h2]
      · simp only [h1, h2, if_false]; rw [ih]; simp [remapFn, h1, h2]

theorem find_tmp (cs : List Col) (c : Col) (key : String) (hf : ∀ x ∈ cs, x.key ≠ key) (hc : c.key = key) :
    tmpVals (cs ++ [c]) key = c.vals := by
  unfold tmpVals
  rw [List.find?_append]
  have : cs.find? (fun x => x.key == key) = none := by
    rw [List.find?_eq_none]; intro x hx; simpa using hf x hx
  simp [this, hc]

theorem filter_tmp (cs : List Col) (c : Col) (key : String) (hf : ∀ x ∈ cs, x.key ≠ key) (hc : c.key = key) :
    (cs ++ [c]).filter (fun x => x.key != key) = cs := by
  rw [List.filter_append]
  have : cs.filter (fun x => x.key != key) = cs := by
    rw [List.filter_eq_self]; intro x hx; simpa using hf x hx
  simp [this, hc]

/-! ### nothing is pending after `collect_garbage` -/

def Cnt (k : Kernel) : Nat × Nat × Nat × Nat := (k.nDelV, k.nDelE, k.nDelF, k.nDelC)

theorem sweep_cnt (k : Kernel) (hd : k.deferred = false) (n : Nat) (isDel : Kernel → Nat → Bool)
    (unflag core : Kernel → Nat → Kernel)
    (hu : ∀ k i, Cnt (unflag k i) = Cnt k ∧ (unflag k i).deferred = k.deferred)
    (hc : ∀ k i, k.deferred = false → Cnt (core k i) = Cnt k ∧ (core k i).deferred = false) :
    Cnt (gcSweep k n isDel unflag core) = Cnt k ∧ (gcSweep k n isDel unflag core).deferred = false :=
  gcSweep_frame Cnt (fun k => k.deferred = false) isDel unflag core
    (fun k i hk => ⟨(hu k i).1, by rw [(hu k i).2]; exact hk⟩) (fun k i hk => hc k i hk) k hd n

theorem gc_counts (k : Kernel) (hd : k.deferred = false) :
    (Cnt (gcCells k) = (k.nDelV, k.nDelE, k.nDelF, 0) ∧ (gcCells k).deferred = false) ∧
    (Cnt (gcFaces k) = (k.nDelV, k.nDelE, 0, k.nDelC) ∧ (gcFaces k).deferred = false) ∧
    (Cnt (gcEdges k) = (k.nDelV, 0, k.nDelF, k.nDelC) ∧ (gcEdges k).deferred = false) ∧
    (Cnt (gcVerts k) = (0, k.nDelE, k.nDelF, k.nDelC) ∧ (gcVerts k).deferred = false) := by
  have h1 := sweep_cnt k hd k.nC cDeleted (fun k i => { k with cDel := k.cDel.set i false }) deleteCellCore
    (fun _ _ => ⟨rfl, rfl⟩) (fun k i h => ⟨by
      unfold Cnt; rw [deleteCellCore_nDelV_imm k i h, deleteCellCore_nDelE_imm k i h, deleteCellCore_nDelF_imm k i h,
        deleteCellCore_nDelC_imm k i h], by rw [deleteCellCore_deferred]; exact h⟩)
  have h2 := sweep_cnt k hd k.nF fDeleted (fun k i => { k with fDel := k.fDel.set i false }) deleteFaceCore
    (fun _ _ => ⟨rfl, rfl⟩) (fun k i h => ⟨by
      unfold Cnt; rw [deleteFaceCore_nDelV_imm k i h, deleteFaceCore_nDelE_imm k i h, deleteFaceCore_nDelF_imm k i h,
        deleteFaceCore_nDelC_imm k i h], by rw [deleteFaceCore_deferred]; exact h⟩)
  have h3 := sweep_cnt k hd k.nE eDeleted (fun k i => { k with eDel := k.eDel.set i false }) deleteEdgeCore
    (fun _ _ => ⟨rfl, rfl⟩) (fun k i h => ⟨by
      unfold Cnt; rw [deleteEdgeCore_nDelV_imm k i h, deleteEdgeCore_nDelE_imm k i h, deleteEdgeCore_nDelF_imm k i h,
        deleteEdgeCore_nDelC_imm k i h], by rw [deleteEdgeCore_deferred]; exact h⟩)
  have h4 := sweep_cnt k hd k.nV vDeleted (fun k i => { k with vDel := k.vDel.set i false }) deleteVertexCore
    (fun _ _ => ⟨rfl, rfl⟩) (fun k i h => ⟨by
      unfold Cnt; rw [deleteVertexCore_nDelV_imm k i h, deleteVertexCore_nDelE_imm k i h, deleteVertexCore_nDelF_imm k i h,
        deleteVertexCore_nDelC_imm k i h], by rw [deleteVertexCore_deferred]; exact h⟩)
  unfold Cnt at h1 h2 h3 h4
  simp only [Prod.mk.injEq] at h1 h2 h3 h4
  unfold gcCells gcFaces gcEdges gcVerts Cnt
  simp only [Prod.mk.injEq]
  exact ⟨⟨⟨h1.1.1, h1.1.2.1, h1.1.2.2.1, trivial⟩, h1.2⟩, ⟨⟨h2.1.1, h2.1.2.1, trivial, h2.1.2.2.2⟩, h2.2⟩,
         ⟨⟨h3.1.1, trivial, h3.1.2.2.1, h3.1.2.2.2⟩, h3.2⟩, ⟨⟨trivial, h4.1.2.1, h4.1.2.2.1, h4.1.2.2.2⟩, h4.2⟩⟩

attribute [local irreducible] gcCells gcFaces gcEdges gcVerts in
theorem collectGarbage_clean (k : Kernel) (hd : k.deferred = true) :
    k.collectGarbage.needsGC = false ∧ k.collectGarbage.deferred = true := by
  unfold collectGarbage
  split
  · rename_i h
    refine ⟨?_, hd⟩
    simpa [hd] using h
  · have a := (gc_counts { k with deferred := false } rfl).1
    have b := (gc_counts _ a.2).2.1
    have c := (gc_counts _ b.2).2.2.1
    have d := (gc_counts _ c.2).2.2.2
    unfold Cnt at a b c d
    simp only [Prod.mk.injEq] at a b c d
    refine ⟨?_, rfl⟩
    unfold needsGC
    simp only [d.1.1, d.1.2.1, d.1.2.2.1, d.1.2.2.2, c.1.2.1, c.1.2.2.1, c.1.2.2.2, b.1.2.2.1, b.1.2.2.2, a.1.2.2.2]
    decide


/-! ## Part C: the tracking branch of `statusGC` -/

/-- no user column carries the name the model gives to a temporary index property (the C++ refers
    to them by pointer; the names are a modelling device) -/
def Fresh (k : Kernel) : Prop :=
  (∀ c ∈ k.props.v, c.key ≠ tmpV) ∧ (∀ c ∈ k.props.he, c.key ≠ tmpHE) ∧
  (∀ c ∈ k.props.hf, c.key ≠ tmpHF) ∧ (∀ c ∈ k.props.c, c.key ≠ tmpC)

theorem colsLen_snoc (cs : List Col) (key : String) (n : Nat) (h : ColsLen cs n) : ColsLen (cs ++ [idxCol key n]) n := by
  intro c hc
  rcases List.mem_append.1 hc with h1 | h1
  · exact h c h1
  · have : c = idxCol key n := by simpa using h1
    subst this; simp [idxCol]

theorem lenInv_addTmp (k : Kernel) (h : LenInv k) : LenInv (addTmp k) :=
  { vDel := h.vDel, eDel := h.eDel, fDel := h.fDel, cDel := h.cDel, outHes := h.outHes, incHfs := h.incHfs,
    incCell := h.incCell, pe := h.pe, pf := h.pf,
    pv := colsLen_snoc _ _ _ h.pv, phe := colsLen_snoc _ _ _ h.phe, phf := colsLen_snoc _ _ _ h.phf,
    pc := colsLen_snoc _ _ _ h.pc }

theorem collectGarbage_nothing (k : Kernel) (h : k.needsGC = false) : k.collectGarbage = k := by
  unfold collectGarbage; simp [h]

/-- what `statusGC` computes when handles are tracked, in terms of one `Log` -/
structure TrackingFacts (k1 : Kernel) (t : Tracked) (r : Result) (L : Log) : Prop where
  okV : okOps L.v k1.nV
  okE : okOps L.e k1.nE
  okF : okOps L.f k1.nF
  okC : okOps L.c k1.nC
  nV : r.k.nV = lenOps L.v k1.nV
  nE : r.k.nE = lenOps L.e k1.nE
  nF : r.k.nF = lenOps L.f k1.nF
  nC : r.k.nC = lenOps L.c k1.nC
  /-- every property column of the mesh (identity tokens, status, user data) is moved by `L` -/
  props : r.k.props = L.apply k1.props
  /-- the `new_*` arrays are the composed per-deletion index maps -/
  newV : r.newV = (List.range k1.nV).map (fwdOps L.v)
  newHE : r.newHE = (List.range k1.nHE).map (fwdOps (halfOps L.e))
  newHF : r.newHF = (List.range k1.nHF).map (fwdOps (halfOps L.f))
  newC : r.newC = (List.range k1.nC).map (fwdOps L.c)
  tv : r.t.v = t.v.map (remapFn r.newV)
  the : r.t.he = t.he.map (remapFn r.newHE)
  thf : r.t.hf = t.hf.map (remapFn r.newHF)
  tc : r.t.c = t.c.map (remapFn r.newC)
  clean : r.k.needsGC = false

theorem tmp_after (cs : List Col) (key : String) (n : Nat) (ops : List IdxOp) (hf : ∀ x ∈ cs, x.key ≠ key) (hok : okOps ops n) :
    tmpVals ((cs ++ [idxCol key n]).map (Col.runOps ops)) key = (runOps ops (List.range n)).map Int.ofNat ∧
    ((cs ++ [idxCol key n]).map (Col.runOps ops)).filter (fun x => x.key != key) = cs.map (Col.runOps ops) := by
  rw [List.map_append, List.map_singleton]
  have hf' : ∀ x ∈ cs.map (Col.runOps ops), x.key ≠ key := by
    intro x hx
    obtain ⟨y, hy, rfl⟩ := List.mem_map.1 hx
    simpa using hf y hy
  refine ⟨?_, filter_tmp _ _ key hf' rfl⟩
  rw [find_tmp _ _ key hf' rfl]
  simp only [Col.runOps_vals, idxCol]
  exact runOps_map Int.ofNat ops (List.range n) (by simpa using hok)

theorem statusGC_tracking (k : Kernel) (man : Bool) (t : Tracked) (hne : t.isEmpty = false)
    (hi : LenInv (markPhase k man)) (hfr : Fresh (markPhase k man)) (hdef : (markPhase k man).deferred = true) :
    ∃ L, TrackingFacts (markPhase k man) t (statusGC k man t) L := by
  have hia := lenInv_addTmp _ hi
  obtain ⟨L, tr⟩ := collectGarbage_trans _ hia
  have hda : (addTmp (markPhase k man)).deferred = true := hdef
  obtain ⟨cl, cd⟩ := collectGarbage_clean _ hda
  refine ⟨L, ?_⟩
  generalize hk1 : markPhase k man = k1 at *
  have okV : okOps L.v k1.nV := tr.okV
  have okE : okOps L.e k1.nE := tr.okE
  have okF : okOps L.f k1.nF := tr.okF
  have okC : okOps L.c k1.nC := tr.okC
  have okHE := (halfOps_ok L.e k1.nE okE)
  have okHF := (halfOps_ok L.f k1.nF okF)
  have pv := tmp_after k1.props.v tmpV k1.nV L.v hfr.1 okV
  have phe := tmp_after k1.props.he tmpHE k1.nHE (halfOps L.e) hfr.2.1 okHE.1
  have phf := tmp_after k1.props.hf tmpHF k1.nHF (halfOps L.f) hfr.2.2.1 okHF.1
  have pc := tmp_after k1.props.c tmpC k1.nC L.c hfr.2.2.2 okC
  have hp := tr.props
  have sv := scatter_runOps L.v k1.nV okV
  have she := scatter_runOps (halfOps L.e) k1.nHE okHE.1
  have shf := scatter_runOps (halfOps L.f) k1.nHF okHF.1
  have sc := scatter_runOps L.c k1.nC okC
  -- the state after the collection, temporary columns dropped
  have hdrop : (dropTmp (addTmp k1).collectGarbage).props = L.apply k1.props := by
    simp only [dropTmp]
    rw [hp]
    simp only [Log.apply, addTmp]
    rw [pv.2, phe.2, phf.2, pc.2]
  have hnoop : (dropTmp (addTmp k1).collectGarbage).enableDeferred k.deferred =
      { dropTmp (addTmp k1).collectGarbage with deferred := k.deferred } := by
    unfold enableDeferred
    have : (dropTmp (addTmp k1).collectGarbage).collectGarbage = dropTmp (addTmp k1).collectGarbage :=
      collectGarbage_nothing _ cl
    simp only [this, ite_self]
  unfold statusGC
  simp only [hne, hk1, Bool.not_false, if_true]
  have ev : tmpVals (addTmp k1).collectGarbage.props.v tmpV = (runOps L.v (List.range k1.nV)).map Int.ofNat := by
    rw [hp]; exact pv.1
  have ehe : tmpVals (addTmp k1).collectGarbage.props.he tmpHE = (runOps (halfOps L.e) (List.range k1.nHE)).map Int.ofNat := by
    rw [hp]; exact phe.1
  have ehf : tmpVals (addTmp k1).collectGarbage.props.hf tmpHF = (runOps (halfOps L.f) (List.range k1.nHF)).map Int.ofNat := by
    rw [hp]; exact phf.1
  have ec : tmpVals (addTmp k1).collectGarbage.props.c tmpC = (runOps L.c (List.range k1.nC)).map Int.ofNat := by
    rw [hp]; exact pc.1
  rw [ev, ehe, ehf, ec, sv, she, shf, sc, hnoop]
  exact { okV := okV, okE := okE, okF := okF, okC := okC, nV := tr.nV, nE := tr.nE, nF := tr.nF, nC := tr.nC,
          props := hdrop, newV := rfl, newHE := rfl, newHF := rfl, newC := rfl,
          tv := by simp [remap_eq], the := by simp [remap_eq], thf := by simp [remap_eq], tc := by simp [remap_eq],
          clean := cl }


/-! ## Part D: the mark phase (deferred mode) moves nothing -/

/-- what the mark phase keeps: deferred mode stays on, no property storage and no vertex count
    changes (deferred deletion only sets flags and unlinks caches), the array lengths stay consistent -/
structure Q (k0 k : Kernel) : Prop where
  dfr : k.deferred = true
  props : k.props = k0.props
  nV : k.nV = k0.nV
  edges : k.edges = k0.edges
  faces : k.faces = k0.faces
  cells : k.cells = k0.cells
  len : LenInv k

theorem Q.trans' {a b c : Kernel} (h1 : Q a b) (h2 : Q b c) : Q a c :=
  ⟨h2.dfr, h2.props.trans h1.props, h2.nV.trans h1.nV, h2.edges.trans h1.edges, h2.faces.trans h1.faces,
   h2.cells.trans h1.cells, h2.len⟩

theorem Q.nE {a b : Kernel} (h : Q a b) : b.nE = a.nE := by show b.edges.length = a.edges.length; rw [h.edges]
theorem Q.nF {a b : Kernel} (h : Q a b) : b.nF = a.nF := by show b.faces.length = a.faces.length; rw [h.faces]
theorem Q.nC {a b : Kernel} (h : Q a b) : b.nC = a.nC := by show b.cells.length = a.cells.length; rw [h.cells]
theorem Q.nHE {a b : Kernel} (h : Q a b) : b.nHE = a.nHE := by show 2 * b.edges.length = 2 * a.edges.length; rw [h.edges]
theorem Q.nHF {a b : Kernel} (h : Q a b) : b.nHF = a.nHF := by show 2 * b.faces.length = 2 * a.faces.length; rw [h.faces]

theorem foldl_Q {β} (step : Kernel → β → Kernel) (hs : ∀ k x, k.deferred = true → LenInv k → Q k (step k x))
    (xs : List β) (k : Kernel) (hd : k.deferred = true) (hi : LenInv k) : Q k (xs.foldl step k) := by
  induction xs generalizing k with
  | nil => exact ⟨hd, rfl, rfl, rfl, rfl, rfl, hi⟩
  | cons x t ih =>
    simp only [List.foldl_cons]
    have a := hs k x hd hi
    exact a.trans' (ih _ a.dfr a.len)

theorem deleteCellCore_Q (k : Kernel) (h : Nat) (hd : k.deferred = true) (hi : LenInv k) : Q k (k.deleteCellCore h) :=
  ⟨by rw [deleteCellCore_deferred]; exact hd, by unfold deleteCellCore; simp [hd], deleteCellCore_nV k h,
   by unfold deleteCellCore; simp [hd], by unfold deleteCellCore; simp [hd], by unfold deleteCellCore; simp [hd],
   lenInv_deleteCellCore k h hi⟩
theorem deleteFaceCore_Q (k : Kernel) (h : Nat) (hd : k.deferred = true) (hi : LenInv k) : Q k (k.deleteFaceCore h) :=
  ⟨by rw [deleteFaceCore_deferred]; exact hd, by unfold deleteFaceCore; simp [hd], deleteFaceCore_nV k h,
   by unfold deleteFaceCore; simp [hd], by unfold deleteFaceCore; simp [hd], by unfold deleteFaceCore; simp [hd],
   lenInv_deleteFaceCore k h hi⟩
theorem deleteEdgeCore_Q (k : Kernel) (h : Nat) (hd : k.deferred = true) (hi : LenInv k) : Q k (k.deleteEdgeCore h) :=
  ⟨by rw [deleteEdgeCore_deferred]; exact hd, by unfold deleteEdgeCore; simp [hd], deleteEdgeCore_nV k h,
   by unfold deleteEdgeCore; simp [hd], by unfold deleteEdgeCore; simp [hd], by unfold deleteEdgeCore; simp [hd],
   lenInv_deleteEdgeCore k h hi⟩
theorem deleteVertexCore_Q (k : Kernel) (h : Nat) (hd : k.deferred = true) (hi : LenInv k) (hh : h < k.nV) :
    Q k (k.deleteVertexCore h) :=
  ⟨by rw [deleteVertexCore_deferred]; exact hd, by unfold deleteVertexCore; simp [hd],
   by rw [deleteVertexCore_nV]; simp [hd], by unfold deleteVertexCore; simp [hd], by unfold deleteVertexCore; simp [hd],
   by unfold deleteVertexCore; simp [hd], lenInv_deleteVertexCore k h hi hh⟩

theorem deleteCell_Q (k : Kernel) (c : Nat) (hd : k.deferred = true) (hi : LenInv k) : Q k (k.deleteCell c) :=
  deleteCellCore_Q k c hd hi

theorem deleteFace_Q (k : Kernel) (f : Nat) (hd : k.deferred = true) (hi : LenInv k) : Q k (k.deleteFace f) := by
  unfold deleteFace
  have a := foldl_Q deleteCellCore deleteCellCore_Q (k.incidentCells [f]).reverse k hd hi
  exact a.trans' (deleteFaceCore_Q _ f a.dfr a.len)

theorem deleteEdge_Q (k : Kernel) (e : Nat) (hd : k.deferred = true) (hi : LenInv k) : Q k (k.deleteEdge e) := by
  unfold deleteEdge
  have a := foldl_Q deleteCellCore deleteCellCore_Q (k.incidentCells (k.incidentFaces [e])).reverse k hd hi
  have b := foldl_Q deleteFaceCore deleteFaceCore_Q (k.incidentFaces [e]).reverse _ a.dfr a.len
  exact (a.trans' b).trans' (deleteEdgeCore_Q _ e b.dfr b.len)

theorem deleteVertex_Q (k : Kernel) (v : Nat) (hd : k.deferred = true) (hi : LenInv k) (hv : v < k.nV) : Q k (k.deleteVertex v) := by
  unfold deleteVertex
  have a := foldl_Q deleteCellCore deleteCellCore_Q (k.incidentCells (k.incidentFaces (k.incidentEdges [v]))).reverse k hd hi
  have b := foldl_Q deleteFaceCore deleteFaceCore_Q (k.incidentFaces (k.incidentEdges [v])).reverse _ a.dfr a.len
  have c := foldl_Q deleteEdgeCore deleteEdgeCore_Q (k.incidentEdges [v]).reverse _ b.dfr b.len
  have abc := (a.trans' b).trans' c
  exact abc.trans' (deleteVertexCore_Q _ v c.dfr c.len (by rw [abc.nV]; exact hv))

/-- a loop `for i in 0..n-1: if cond k i then del k i` whose deletions keep `Q` -/
theorem loop_Q (n : Nat) (cond : Kernel → Nat → Bool) (del : Kernel → Nat → Kernel) (bound : Kernel → Nat)
    (hb : ∀ k k', Q k k' → bound k' = bound k)
    (hs : ∀ k i, k.deferred = true → LenInv k → i < bound k → Q k (del k i))
    (k : Kernel) (hd : k.deferred = true) (hi : LenInv k) (hn : n ≤ bound k) :
    Q k ((List.range n).foldl (fun k i => if cond k i then del k i else k) k) := by
  suffices ∀ (xs : List Nat), (∀ x ∈ xs, x < bound k) → ∀ k', Q k k' →
      Q k (xs.foldl (fun k i => if cond k i then del k i else k) k') from
    this (List.range n) (fun x hx => Nat.lt_of_lt_of_le (List.mem_range.1 hx) hn) k ⟨hd, rfl, rfl, rfl, rfl, rfl, hi⟩
  intro xs
  induction xs with
  | nil => intro _ k' q; exact q
  | cons x t ih =>
    intro hx k' q
    simp only [List.foldl_cons]
    apply ih (fun y hy => hx y (by simp [hy]))
    split
    · exact q.trans' (hs k' x q.dfr q.len (by rw [hb k k' q]; exact hx x (by simp)))
    · exact q

theorem enableVBU_Q (k : Kernel) (hd : k.deferred = true) (hi : LenInv k) : Q k (k.enableVBU true) :=
  ⟨by unfold enableVBU; split <;> (try split) <;> simp_all, by unfold enableVBU; split <;> (try split) <;> simp_all,
   by unfold enableVBU; split <;> (try split) <;> simp_all, by unfold enableVBU; split <;> (try split) <;> simp_all,
   by unfold enableVBU; split <;> (try split) <;> simp_all, by unfold enableVBU; split <;> (try split) <;> simp_all,
   lenInv_enableVBU k true hi⟩
theorem enableEBU_Q (k : Kernel) (hd : k.deferred = true) (hi : LenInv k) : Q k (k.enableEBU true) :=
  ⟨by unfold enableEBU; split <;> (try split) <;> (try split) <;> simp_all [reorderAll],
   by unfold enableEBU; split <;> (try split) <;> (try split) <;> simp_all [reorderAll],
   by unfold enableEBU; split <;> (try split) <;> (try split) <;> simp_all [reorderAll],
   by unfold enableEBU; split <;> (try split) <;> (try split) <;> simp_all [reorderAll],
   by unfold enableEBU; split <;> (try split) <;> (try split) <;> simp_all [reorderAll],
   by unfold enableEBU; split <;> (try split) <;> (try split) <;> simp_all [reorderAll], lenInv_enableEBU k true hi⟩
theorem enableFBU_Q (k : Kernel) (hd : k.deferred = true) (hi : LenInv k) : Q k (k.enableFBU true) :=
  ⟨by unfold enableFBU; split <;> (try split) <;> (try split) <;> simp_all [reorderAll],
   by unfold enableFBU; split <;> (try split) <;> (try split) <;> simp_all [reorderAll],
   by unfold enableFBU; split <;> (try split) <;> (try split) <;> simp_all [reorderAll],
   by unfold enableFBU; split <;> (try split) <;> (try split) <;> simp_all [reorderAll],
   by unfold enableFBU; split <;> (try split) <;> (try split) <;> simp_all [reorderAll],
   by unfold enableFBU; split <;> (try split) <;> (try split) <;> simp_all [reorderAll], lenInv_enableFBU k true hi⟩

theorem markPhase_Q (k : Kernel) (man : Bool) (hi : LenInv k) : Q k (markPhase k man) := by
  have q0 : Q k (k.enableDeferred true) := by
    have : k.enableDeferred true = { k with deferred := true } := by unfold enableDeferred; simp
    rw [this]; exact ⟨rfl, rfl, rfl, rfl, rfl, rfl, lenInv_withDeferred k true hi⟩
  have q1 : Q _ (markedVerts (k.enableDeferred true)) :=
    loop_Q _ (fun k v => !k.vDeleted v && markedV k v) deleteVertex (·.nV) (fun _ _ q => q.nV)
      (fun k i hd hi hb => deleteVertex_Q k i hd hi hb) _ q0.dfr q0.len (Nat.le_refl _)
  have q2 : Q _ (markedEdges (markedVerts (k.enableDeferred true))) :=
    loop_Q _ (fun k e => !k.eDeleted e && markedE k e) deleteEdge (fun _ => (markedVerts (k.enableDeferred true)).nE) (fun _ _ _ => rfl)
      (fun k i hd hi _ => deleteEdge_Q k i hd hi) _ q1.dfr q1.len (Nat.le_refl _)
  have q3 : Q _ (markedFaces (markedEdges (markedVerts (k.enableDeferred true)))) :=
    loop_Q _ (fun k f => !k.fDeleted f && markedF k f) deleteFace (fun _ => (markedEdges (markedVerts (k.enableDeferred true))).nF) (fun _ _ _ => rfl)
      (fun k i hd hi _ => deleteFace_Q k i hd hi) _ q2.dfr q2.len (Nat.le_refl _)
  have q4 : Q _ (markedCells (markedFaces (markedEdges (markedVerts (k.enableDeferred true))))) :=
    loop_Q _ (fun k c => !k.cDeleted c && markedC k c) deleteCell (fun _ => (markedFaces (markedEdges (markedVerts (k.enableDeferred true)))).nC) (fun _ _ _ => rfl)
      (fun k i hd hi _ => deleteCell_Q k i hd hi) _ q3.dfr q3.len (Nat.le_refl _)
  have q := (((q0.trans' q1).trans' q2).trans' q3).trans' q4
  unfold markPhase
  simp only []
  generalize markedCells (markedFaces (markedEdges (markedVerts (k.enableDeferred true)))) = km at q
  cases man
  · simpa using q
  · simp only [if_true]
    have b1 := enableVBU_Q km q.dfr q.len
    have b2 := enableEBU_Q _ b1.dfr b1.len
    have b3 := enableFBU_Q _ b2.dfr b2.len
    have b : Q km (enableAllBU km) := (b1.trans' b2).trans' b3
    have m1 : Q _ (manifoldFaces (enableAllBU km)) :=
      loop_Q _ (fun k f => !k.fDeleted f && (k.cellOf (heOf f 0)).isNone && (k.cellOf (heOf f 1)).isNone) deleteFace
        (fun _ => (enableAllBU km).nF) (fun _ _ _ => rfl) (fun k i hd hi _ => deleteFace_Q k i hd hi) _ b.dfr b.len (Nat.le_refl _)
    have m2 : Q _ (manifoldEdges (manifoldFaces (enableAllBU km))) :=
      loop_Q _ (fun k e => !k.eDeleted e && (k.hfsOf (heOf e 0)).length == 0) deleteEdge
        (fun _ => (manifoldFaces (enableAllBU km)).nE) (fun _ _ _ => rfl) (fun k i hd hi _ => deleteEdge_Q k i hd hi) _ m1.dfr m1.len (Nat.le_refl _)
    have m3 : Q _ (manifoldVerts (manifoldEdges (manifoldFaces (enableAllBU km)))) :=
      loop_Q _ (fun k v => !k.vDeleted v && (k.outOf v).length == 0) deleteVertex (·.nV) (fun _ _ q => q.nV)
        (fun k i hd hi hb => deleteVertex_Q k i hd hi hb) _ m2.dfr m2.len (Nat.le_refl _)
    exact (((q.trans' b).trans' m1).trans' m2).trans' m3


end OVM.Status

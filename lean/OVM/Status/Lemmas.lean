import OVM.Status.Model
import OVM.Base.ListLemmas
import OVM.Refine.Len
/-
  Lemmas for C04 (status part), part A: the algebra of index maps.

  A garbage collection is a sequence of *single deletions*; on a property column each of them
  is one of two list operations (`ResourceManager`): erase a slot (`Col.erase`) or exchange two
  slots (`Col.swap`, fast deletion: swap with the last slot, then erase the last slot).
  `IdxOp` names them.  Each has an index map old slot ↦ new slot (`fwd`, `none` for the erased
  slot) and its inverse new slot ↦ old slot (`pre`).  For a whole sequence:
    * `runOps_getElem?`   the value in new slot `j` is the value of old slot `preOps ops j`;
    * `fwdOps_preOps`, `preOps_fwdOps`   `fwdOps` (the composition of the per-deletion maps) and
                          `preOps` are mutually inverse: `fwdOps` is injective on the survivors and
                          onto the new slots;
    * `runOps_transport`  every column is carried along `fwdOps`;
    * `scatter_runOps`    the `new_*[old_*[h]] = h` loop of StatusAttribT_impl.hh:120-128, applied to
                          an index column that went through the same sequence, *is* `fwdOps`, and
                          performs no out-of-range write.
-/
namespace OVM.Status
open OVM

inductive IdxOp where
  | erase (h : Nat)
  | swap (a b : Nat)
deriving Repr, DecidableEq

namespace IdxOp

/-- effect on a column -/
def run {α} : IdxOp → List α → List α
  | erase h, l => l.eraseIdx h
  | swap a b, l => swapAt l a b

/-- new slot ↦ old slot -/
def pre : IdxOp → Nat → Nat
  | erase h, j => if j < h then j else j + 1
  | swap a b, j => if j = a then b else if j = b then a else j

/-- old slot ↦ new slot (`none`: the slot that is erased) -/
def fwd : IdxOp → Nat → Option Nat
  | erase h, i => if i = h then none else some (if i < h then i else i - 1)
  | swap a b, i => some (if i = a then b else if i = b then a else i)

/-- the operation addresses existing slots of a column with `n` slots -/
def ok : IdxOp → Nat → Prop
  | erase h, n => h < n
  | swap a b, n => a < n ∧ b < n

/-- number of slots afterwards -/
def len : IdxOp → Nat → Nat
  | erase _, n => n - 1
  | swap _ _, n => n

theorem run_length {α} (o : IdxOp) (l : List α) (h : o.ok l.length) : (o.run l).length = o.len l.length := by
  cases o with
  | erase x => simp only [run, len, ok] at *; rw [List.length_eraseIdx]; simp [h]
  | swap a b => simp [run, len]

theorem run_getElem? {α} (o : IdxOp) (l : List α) (h : o.ok l.length) (j : Nat) :
    (o.run l)[j]? = l[o.pre j]? := by
  cases o with
  | erase x => simp only [run, pre]; rw [List.getElem?_eraseIdx]; split <;> rfl
  | swap a b =>
    obtain ⟨ha, hb⟩ := h
    simp only [run, pre]
    rw [getElem?_swapAt l a b j ha hb]
    by_cases h1 : j = a
    · subst h1
      by_cases h2 : j = b
      · subst h2; simp
      · simp [h2]
    · by_cases h2 : j = b
      · subst h2; simp [h1]
      · simp [h1, h2]

theorem pre_lt (o : IdxOp) (n j : Nat) (h : o.ok n) (hj : j < o.len n) : o.pre j < n := by
  cases o with
  | erase x => simp only [pre, len, ok] at *; split <;> omega
  | swap a b =>
    obtain ⟨ha, hb⟩ := h
    simp only [pre, len] at *
    split
    · omega
    · split <;> omega

theorem fwd_pre (o : IdxOp) (n j : Nat) (h : o.ok n) (hj : j < o.len n) : o.fwd (o.pre j) = some j := by
  cases o with
  | erase x =>
    simp only [pre, fwd, len, ok] at *
    by_cases h1 : j < x
    · simp only [h1, if_true]; rw [if_neg (by omega)]
    · simp only [h1, if_false]; rw [if_neg (by omega), if_neg (by omega)]; simp
  | swap a b =>
    simp only [pre, fwd]
    by_cases h1 : j = a
    · subst h1
      by_cases h2 : b = j
      · subst h2; simp
      · simp
    · by_cases h2 : j = b
      · subst h2; simp [h1]
      · simp [h1, h2]

theorem pre_fwd (o : IdxOp) (n i j : Nat) (h : o.ok n) (hi : i < n) (hf : o.fwd i = some j) :
    j < o.len n ∧ o.pre j = i := by
  cases o with
  | erase x =>
    simp only [pre, fwd, len, ok] at *
    by_cases h1 : i = x
    · simp [h1] at hf
    · rw [if_neg h1] at hf
      by_cases h2 : i < x
      · rw [if_pos h2] at hf
        have e : i = j := Option.some.inj hf
        subst e
        rw [if_pos h2]
        omega
      · rw [if_neg h2] at hf
        have e : i - 1 = j := Option.some.inj hf
        subst e
        have : ¬ (i - 1 < x) := by omega
        rw [if_neg this]
        omega
  | swap a b =>
    obtain ⟨ha, hb⟩ := h
    simp only [pre, fwd, len] at *
    by_cases h1 : i = a
    · rw [if_pos h1] at hf
      have e : b = j := Option.some.inj hf
      subst e
      refine ⟨hb, ?_⟩
      by_cases h2 : b = a
      · rw [if_pos h2]; omega
      · rw [if_neg h2, if_pos rfl]; omega
    · rw [if_neg h1] at hf
      by_cases h2 : i = b
      · rw [if_pos h2] at hf
        have e : a = j := Option.some.inj hf
        subst e
        exact ⟨ha, by rw [if_pos rfl]; omega⟩
      · rw [if_neg h2] at hf
        have e : i = j := Option.some.inj hf
        subst e
        exact ⟨hi, by rw [if_neg h1, if_neg h2]⟩

end IdxOp

/-- a sequence of single deletions applied to a column, first operation first -/
def runOps {α} (ops : List IdxOp) (l : List α) : List α := ops.foldl (fun l o => o.run l) l
/-- final slot ↦ original slot -/
def preOps (ops : List IdxOp) (j : Nat) : Nat := ops.foldr (fun o j => o.pre j) j
/-- original slot ↦ final slot: the composition of the per-deletion index maps -/
def fwdOps (ops : List IdxOp) (i : Nat) : Option Nat := ops.foldl (fun oi o => oi.bind o.fwd) (some i)
def lenOps (ops : List IdxOp) (n : Nat) : Nat := ops.foldl (fun n o => o.len n) n
/-- every operation addresses existing slots at the time it is applied -/
def okOps : List IdxOp → Nat → Prop
  | [], _ => True
  | o :: t, n => o.ok n ∧ okOps t (o.len n)

@[simp] theorem runOps_nil {α} (l : List α) : runOps [] l = l := rfl
@[simp] theorem runOps_cons {α} (o : IdxOp) (t : List IdxOp) (l : List α) : runOps (o :: t) l = runOps t (o.run l) := rfl
@[simp] theorem preOps_nil (j : Nat) : preOps [] j = j := rfl
@[simp] theorem preOps_cons (o : IdxOp) (t : List IdxOp) (j : Nat) : preOps (o :: t) j = o.pre (preOps t j) := rfl
@[simp] theorem lenOps_nil (n : Nat) : lenOps [] n = n := rfl
@[simp] theorem lenOps_cons (o : IdxOp) (t : List IdxOp) (n : Nat) : lenOps (o :: t) n = lenOps t (o.len n) := rfl
@[simp] theorem fwdOps_nil (i : Nat) : fwdOps [] i = some i := rfl

theorem foldl_bind_none (t : List IdxOp) : t.foldl (fun oi o => oi.bind o.fwd) none = none := by
  induction t with
  | nil => rfl
  | cons o t ih => simpa using ih

theorem fwdOps_cons (o : IdxOp) (t : List IdxOp) (i : Nat) :
    fwdOps (o :: t) i = (o.fwd i).bind (fwdOps t) := by
  unfold fwdOps
  simp only [List.foldl_cons, Option.bind_some]
  cases o.fwd i with
  | none => simpa using foldl_bind_none t
  | some j => rfl

theorem runOps_append {α} (a b : List IdxOp) (l : List α) : runOps (a ++ b) l = runOps b (runOps a l) := by
  simp [runOps, List.foldl_append]
theorem lenOps_append (a b : List IdxOp) (n : Nat) : lenOps (a ++ b) n = lenOps b (lenOps a n) := by
  simp [lenOps, List.foldl_append]
theorem okOps_append (a b : List IdxOp) (n : Nat) : okOps (a ++ b) n ↔ okOps a n ∧ okOps b (lenOps a n) := by
  induction a generalizing n with
  | nil => simp [okOps]
  | cons o t ih => simp [okOps, ih, and_assoc]
theorem fwdOps_append (a b : List IdxOp) (i : Nat) : fwdOps (a ++ b) i = (fwdOps a i).bind (fwdOps b) := by
  induction a generalizing i with
  | nil => simp
  | cons o t ih =>
    simp only [List.cons_append, fwdOps_cons]
    cases o.fwd i with
    | none => rfl
    | some j => simpa using ih j

theorem runOps_length {α} (ops : List IdxOp) (l : List α) (h : okOps ops l.length) :
    (runOps ops l).length = lenOps ops l.length := by
  induction ops generalizing l with
  | nil => rfl
  | cons o t ih =>
    obtain ⟨h1, h2⟩ := h
    simp only [runOps_cons, lenOps_cons]
    rw [← o.run_length l h1] at h2 ⊢
    exact ih _ h2

/-- the value in final slot `j` is the value of original slot `preOps ops j` -/
theorem runOps_getElem? {α} (ops : List IdxOp) (l : List α) (h : okOps ops l.length) (j : Nat) :
    (runOps ops l)[j]? = l[preOps ops j]? := by
  induction ops generalizing l with
  | nil => rfl
  | cons o t ih =>
    obtain ⟨h1, h2⟩ := h
    simp only [runOps_cons, preOps_cons]
    rw [← o.run_length l h1] at h2
    rw [ih _ h2, o.run_getElem? l h1]

theorem preOps_lt (ops : List IdxOp) (n j : Nat) (h : okOps ops n) (hj : j < lenOps ops n) : preOps ops j < n := by
  induction ops generalizing n with
  | nil => simpa using hj
  | cons o t ih =>
    obtain ⟨h1, h2⟩ := h
    simp only [preOps_cons, lenOps_cons] at *
    exact o.pre_lt n _ h1 (ih _ h2 hj)

/-- `fwdOps` is onto the final slots … -/
theorem fwdOps_preOps (ops : List IdxOp) (n j : Nat) (h : okOps ops n) (hj : j < lenOps ops n) :
    fwdOps ops (preOps ops j) = some j := by
  induction ops generalizing n with
  | nil => rfl
  | cons o t ih =>
    obtain ⟨h1, h2⟩ := h
    simp only [preOps_cons, lenOps_cons, fwdOps_cons] at *
    rw [o.fwd_pre n _ h1 (preOps_lt t _ _ h2 hj)]
    exact ih _ h2 hj

/-- … and `preOps` is its inverse on the survivors -/
theorem preOps_fwdOps (ops : List IdxOp) (n i j : Nat) (h : okOps ops n) (hi : i < n) (hf : fwdOps ops i = some j) :
    j < lenOps ops n ∧ preOps ops j = i := by
  induction ops generalizing n i with
  | nil => simp at hf; subst hf; exact ⟨hi, rfl⟩
  | cons o t ih =>
    obtain ⟨h1, h2⟩ := h
    rw [fwdOps_cons] at hf
    cases hfo : o.fwd i with
    | none => rw [hfo] at hf; simp at hf
    | some m =>
      rw [hfo] at hf
      simp only [Option.bind_some] at hf
      obtain ⟨hm, hp⟩ := o.pre_fwd n i m h1 hi hfo
      obtain ⟨a, b⟩ := ih (o.len n) m h2 hm hf
      simp only [lenOps_cons, preOps_cons]
      exact ⟨a, by rw [b, hp]⟩

/-- the composed index map is injective on the survivors -/
theorem fwdOps_injective (ops : List IdxOp) (n i i' j : Nat) (h : okOps ops n) (hi : i < n) (hi' : i' < n)
    (hf : fwdOps ops i = some j) (hf' : fwdOps ops i' = some j) : i = i' := by
  rw [← (preOps_fwdOps ops n i j h hi hf).2, ← (preOps_fwdOps ops n i' j h hi' hf').2]

/-- every column is carried along the composed index map -/
theorem runOps_transport {α} (ops : List IdxOp) (l : List α) (h : okOps ops l.length) (i j : Nat)
    (hi : i < l.length) (hf : fwdOps ops i = some j) : (runOps ops l)[j]? = l[i]? := by
  rw [runOps_getElem? ops l h, (preOps_fwdOps ops _ i j h hi hf).2]

/-- an index column `0,1,…,n-1` that went through the deletions lists, slot by slot, where each
    surviving entity came from -/
theorem runOps_range (ops : List IdxOp) (n : Nat) (h : okOps ops n) :
    runOps ops (List.range n) = (List.range (lenOps ops n)).map (preOps ops) := by
  have hl : okOps ops (List.range n).length := by simpa using h
  apply List.ext_getElem?
  intro j
  rw [runOps_getElem? ops _ hl]
  by_cases hj : j < lenOps ops n
  · have := preOps_lt ops n j h hj
    simp [hj, this]
  · have h1 : ((List.range (lenOps ops n)).map (preOps ops))[j]? = none := by simp; omega
    rw [h1]
    have h2 : (runOps ops (List.range n)).length = lenOps ops n := by simpa using runOps_length ops (List.range n) hl
    have h3 : (runOps ops (List.range n))[j]? = none := by simp; omega
    rw [← runOps_getElem? ops _ hl]; exact h3

/-! ### the scatter loop -/

/-- `scatter` without the range check, on natural numbers -/
def scatterN (n : Nat) (old : List Nat) : List (Option Nat) :=
  old.zipIdx.foldl (fun acc p => acc.set p.1 (some p.2)) (List.replicate n none)

def scatterStep (n : Nat) (acc : List (Option Nat) × Bool) (p : Int × Nat) : List (Option Nat) × Bool :=
  if p.1 < 0 || p.1.toNat ≥ n then (acc.1, true) else (acc.1.set p.1.toNat (some p.2), acc.2)

theorem scatter_def (n : Nat) (old : List Int) :
    scatter n old = List.foldl (scatterStep n) (List.replicate n none, false) old.zipIdx := rfl

theorem scatter_step_eq (n : Nat) (old : List Nat) (k : Nat) (acc : List (Option Nat)) (h : ∀ x ∈ old, x < n) :
    List.foldl (scatterStep n) (acc, false) ((old.map Int.ofNat).zipIdx k)
    = (List.foldl (fun acc (p : Nat × Nat) => acc.set p.1 (some p.2)) acc (old.zipIdx k), false) := by
  induction old generalizing k acc with
  | nil => rfl
  | cons x t ih =>
    have hx : x < n := h x (by simp)
    simp only [List.map_cons, List.zipIdx_cons, List.foldl_cons]
    have c : scatterStep n (acc, false) (Int.ofNat x, k) = (acc.set x (some k), false) := by
      unfold scatterStep
      simp [hx]
    rw [c]
    exact ih (k + 1) _ (fun y hy => h y (by simp [hy]))

theorem scatter_eq_scatterN (n : Nat) (old : List Nat) (h : ∀ x ∈ old, x < n) :
    scatter n (old.map Int.ofNat) = (scatterN n old, false) := by
  rw [scatter_def]; unfold scatterN
  exact scatter_step_eq n old 0 _ h

theorem scatterN_snoc (n : Nat) (old : List Nat) (x : Nat) :
    scatterN n (old ++ [x]) = (scatterN n old).set x (some old.length) := by
  unfold scatterN
  rw [List.zipIdx_append, List.foldl_append]
  simp

theorem foldl_set_length (l : List (Nat × Nat)) (acc : List (Option Nat)) :
    (List.foldl (fun acc (p : Nat × Nat) => acc.set p.1 (some p.2)) acc l).length = acc.length := by
  induction l generalizing acc with
  | nil => rfl
  | cons p t ih => simp only [List.foldl_cons]; rw [ih]; simp

theorem scatterN_length (n : Nat) (old : List Nat) : (scatterN n old).length = n := by
  unfold scatterN; rw [foldl_set_length]; simp

/-- scatter of `pre 0, …, pre (m-1)` when `pre` is injective on `[0,m)` with values below `n`:
    slot `i` receives the unique `j` with `pre j = i` -/
theorem scatterN_map_range (n m : Nat) (pre : Nat → Nat) (hlt : ∀ j < m, pre j < n)
    (hinj : ∀ j < m, ∀ j' < m, pre j = pre j' → j = j') (i : Nat) (hi : i < n) :
    (scatterN n ((List.range m).map pre))[i]? = some ((List.range m).find? (fun j => pre j == i)) := by
  induction m with
  | zero => simp [scatterN, hi]
  | succ m ih =>
    have ih' := ih (fun j hj => hlt j (by omega)) (fun j hj j' hj' e => hinj j (by omega) j' (by omega) e)
    rw [List.range_succ, List.map_append, List.map_singleton, scatterN_snoc, List.getElem?_set, List.find?_append]
    simp only [List.length_map, List.length_range, scatterN_length]
    by_cases e : pre m = i
    · have hn : (List.range m).find? (fun j => pre j == i) = none := by
        rw [List.find?_eq_none]
        intro j hj
        have hj' : j < m := by simpa using hj
        intro hc
        have : pre j = pre m := by rw [e]; simpa using hc
        have := hinj j (by omega) m (by omega) this
        omega
      simp [e, hi, hn]
    · simp only [e, if_false]
      rw [ih']
      have : List.find? (fun j => pre j == i) [m] = none := by simp [e]
      simp [this]

/-- StatusAttribT_impl.hh:120-128 on an index column that went through `ops`:
    `new_*[i]` is the composed per-deletion index map, and no write is out of range -/
theorem scatter_runOps (ops : List IdxOp) (n : Nat) (h : okOps ops n) :
    scatter n ((runOps ops (List.range n)).map Int.ofNat) = ((List.range n).map (fwdOps ops), false) := by
  rw [runOps_range ops n h]
  have hlt : ∀ j < lenOps ops n, preOps ops j < n := fun j hj => preOps_lt ops n j h hj
  rw [scatter_eq_scatterN n _ (by
    intro x hx
    simp only [List.mem_map, List.mem_range] at hx
    obtain ⟨j, hj, rfl⟩ := hx
    exact hlt j hj)]
  congr 1
  apply List.ext_getElem?
  intro i
  by_cases hi : i < n
  · have hinj : ∀ j < lenOps ops n, ∀ j' < lenOps ops n, preOps ops j = preOps ops j' → j = j' := by
      intro j hj j' hj' e
      have a := fwdOps_preOps ops n j h hj
      have b := fwdOps_preOps ops n j' h hj'
      rw [e, b] at a
      exact (Option.some.inj a).symm
    rw [scatterN_map_range n _ (preOps ops) hlt hinj i hi]
    simp only [List.getElem?_map, List.getElem?_range hi, Option.map_some]
    congr 1
    cases hf : fwdOps ops i with
    | none =>
      rw [List.find?_eq_none]
      intro j hj hc
      have hj' : j < lenOps ops n := by simpa using hj
      have : preOps ops j = i := by simpa using hc
      have := fwdOps_preOps ops n j h hj'
      rw [‹preOps ops j = i›, hf] at this
      cases this
    | some j =>
      obtain ⟨hj, hp⟩ := preOps_fwdOps ops n i j h hi hf
      cases hq : (List.range (lenOps ops n)).find? (fun j => preOps ops j == i) with
      | none =>
        rw [List.find?_eq_none] at hq
        exact absurd (by simp [hp]) (hq j (by simpa using hj))
      | some j' =>
        have h1 := List.find?_some hq
        have h2 : j' < lenOps ops n := by simpa using List.mem_of_find?_eq_some hq
        have : preOps ops j' = preOps ops j := by rw [hp]; simpa using h1
        rw [hinj j' h2 j hj this]
  · have a : (scatterN n ((List.range (lenOps ops n)).map (preOps ops)))[i]? = none := by
      rw [List.getElem?_eq_none]; rw [scatterN_length]; omega
    have b : ((List.range n).map (fwdOps ops))[i]? = none := by simp; omega
    rw [a, b]


/-! ## Part B: `collect_garbage` moves every property column of a kind by one sequence of
    single deletions

  `Log` = the sequence of single deletions a piece of kernel code performed, per entity kind
  (halfedge / halfface columns follow the edge / face operations pairwise, `halfOps`).
  `Trans k k' L`: going from `k` to `k'` changed the property storages exactly by `L`, every
  operation addressed an existing slot, and the entity counts are those `L` predicts. -/

open OVM.Kernel

def Col.runOps (ops : List IdxOp) (c : Col) : Col := { c with vals := OVM.Status.runOps ops c.vals }

@[simp] theorem Col.runOps_nil (c : Col) : Col.runOps [] c = c := rfl
theorem Col.runOps_append (a b : List IdxOp) (c : Col) : Col.runOps (a ++ b) c = Col.runOps b (Col.runOps a c) := by
  simp [Col.runOps, OVM.Status.runOps_append]
@[simp] theorem Col.runOps_key (ops : List IdxOp) (c : Col) : (Col.runOps ops c).key = c.key := rfl
@[simp] theorem Col.runOps_dflt (ops : List IdxOp) (c : Col) : (Col.runOps ops c).dflt = c.dflt := rfl
@[simp] theorem Col.runOps_vals (ops : List IdxOp) (c : Col) : (Col.runOps ops c).vals = OVM.Status.runOps ops c.vals := rfl

/-- the two slots of a half-entity column follow the parent: odd slot first when erasing -/
def IdxOp.half : IdxOp → List IdxOp
  | .erase h => [.erase (2 * h + 1), .erase (2 * h)]
  | .swap a b => [.swap (2 * a) (2 * b), .swap (2 * a + 1) (2 * b + 1)]
def halfOps (ops : List IdxOp) : List IdxOp := ops.flatMap IdxOp.half

@[simp] theorem halfOps_nil : halfOps [] = [] := rfl
theorem halfOps_append (a b : List IdxOp) : halfOps (a ++ b) = halfOps a ++ halfOps b := by
  simp [halfOps]
theorem halfOps_cons (o : IdxOp) (t : List IdxOp) : halfOps (o :: t) = o.half ++ halfOps t := by
  simp [halfOps]

structure Log where
  v : List IdxOp := []
  e : List IdxOp := []
  f : List IdxOp := []
  c : List IdxOp := []

def Log.apply (L : Log) (p : Props) : Props :=
  { v := p.v.map (Col.runOps L.v), e := p.e.map (Col.runOps L.e), he := p.he.map (Col.runOps (halfOps L.e)),
    f := p.f.map (Col.runOps L.f), hf := p.hf.map (Col.runOps (halfOps L.f)), c := p.c.map (Col.runOps L.c), m := p.m }

def Log.append (A B : Log) : Log := { v := A.v ++ B.v, e := A.e ++ B.e, f := A.f ++ B.f, c := A.c ++ B.c }

theorem map_runOps_nil (cs : List Col) : cs.map (Col.runOps []) = cs := by
  induction cs with
  | nil => rfl
  | cons c t ih => simp [ih]

theorem Log.apply_empty (p : Props) : Log.apply {} p = p := by
  cases p; simp [Log.apply, map_runOps_nil]

theorem Log.apply_append (A B : Log) (p : Props) : (A.append B).apply p = B.apply (A.apply p) := by
  simp only [Log.apply, Log.append, List.map_map, halfOps_append]
  congr 1 <;> (apply List.map_congr_left; intro c _; simp [Col.runOps_append])

structure Trans (k k' : Kernel) (L : Log) : Prop where
  props : k'.props = L.apply k.props
  okV : okOps L.v k.nV
  nV : k'.nV = lenOps L.v k.nV
  okE : okOps L.e k.nE
  nE : k'.nE = lenOps L.e k.nE
  okF : okOps L.f k.nF
  nF : k'.nF = lenOps L.f k.nF
  okC : okOps L.c k.nC
  nC : k'.nC = lenOps L.c k.nC

theorem Trans.refl (k : Kernel) : Trans k k {} :=
  ⟨(Log.apply_empty _).symm, trivial, rfl, trivial, rfl, trivial, rfl, trivial, rfl⟩

theorem Trans.trans {a b c : Kernel} {A B : Log} (h1 : Trans a b A) (h2 : Trans b c B) : Trans a c (A.append B) := by
  refine ⟨?_, ?_, ?_, ?_, ?_, ?_, ?_, ?_, ?_⟩
  · rw [h2.props, h1.props, Log.apply_append]
  · exact (okOps_append _ _ _).2 ⟨h1.okV, by rw [← h1.nV]; exact h2.okV⟩
  · simp only [Log.append, lenOps_append]; rw [← h1.nV]; exact h2.nV
  · exact (okOps_append _ _ _).2 ⟨h1.okE, by rw [← h1.nE]; exact h2.okE⟩
  · simp only [Log.append, lenOps_append]; rw [← h1.nE]; exact h2.nE
  · exact (okOps_append _ _ _).2 ⟨h1.okF, by rw [← h1.nF]; exact h2.okF⟩
  · simp only [Log.append, lenOps_append]; rw [← h1.nF]; exact h2.nF
  · exact (okOps_append _ _ _).2 ⟨h1.okC, by rw [← h1.nC]; exact h2.okC⟩
  · simp only [Log.append, lenOps_append]; rw [← h1.nC]; exact h2.nC

/-- a state change that touches neither the property storages nor the entity arrays -/
theorem Trans.of_same (k k' : Kernel) (hp : k'.props = k.props) (hv : k'.nV = k.nV) (he : k'.edges = k.edges)
    (hf : k'.faces = k.faces) (hc : k'.cells = k.cells) : Trans k k' {} :=
  ⟨by rw [hp, Log.apply_empty], trivial, hv, trivial, by show k'.edges.length = k.edges.length; rw [he],
   trivial, by show k'.faces.length = k.faces.length; rw [hf], trivial, by show k'.cells.length = k.cells.length; rw [hc]⟩

/-- the single deletions of one `delete_*_core` call in immediate mode on a kind with `n` slots:
    plain: erase slot `h`; fast: exchange with the last slot (unless it is the last), erase the last -/
def coreOps (fast : Bool) (n h : Nat) : List IdxOp :=
  if fast then (if h == n - 1 then [IdxOp.erase (n - 1)] else [IdxOp.swap h (n - 1), IdxOp.erase (n - 1)])
  else [IdxOp.erase h]

theorem coreOps_ok (fast : Bool) (n h : Nat) (hh : h < n) : okOps (coreOps fast n h) n := by
  unfold coreOps
  cases fast
  · simp [okOps, IdxOp.ok, hh]
  · by_cases e : h = n - 1
    · simp [e, okOps, IdxOp.ok]; omega
    · simp [e, okOps, IdxOp.ok, IdxOp.len]; omega

theorem coreOps_len (fast : Bool) (n h : Nat) : lenOps (coreOps fast n h) n = n - 1 := by
  unfold coreOps
  cases fast
  · simp [IdxOp.len]
  · by_cases e : h = n - 1 <;> simp [e, IdxOp.len]


/-! ### the property plumbing of the kernel in terms of `Log` -/

theorem cellDeleted_log (p : Props) (h : Nat) : cellDeleted p h = Log.apply { c := [IdxOp.erase h] } p := by
  cases p; simp only [cellDeleted, Log.apply, halfOps_nil, map_runOps_nil]; rfl
theorem vertexDeleted_log (p : Props) (h : Nat) : vertexDeleted p h = Log.apply { v := [IdxOp.erase h] } p := by
  cases p; simp only [vertexDeleted, Log.apply, halfOps_nil, map_runOps_nil]; rfl
theorem edgeDeleted_log (p : Props) (h : Nat) : edgeDeleted p h = Log.apply { e := [IdxOp.erase h] } p := by
  cases p; simp only [edgeDeleted, Log.apply, halfOps_nil, map_runOps_nil]; rfl
theorem faceDeleted_log (p : Props) (h : Nat) : faceDeleted p h = Log.apply { f := [IdxOp.erase h] } p := by
  cases p; simp only [faceDeleted, Log.apply, halfOps_nil, map_runOps_nil]; rfl
theorem swapCProps_log (p : Props) (a b : Nat) : swapCProps p a b = Log.apply { c := [IdxOp.swap a b] } p := by
  cases p; simp only [swapCProps, Log.apply, halfOps_nil, map_runOps_nil]; rfl
theorem swapVProps_log (p : Props) (a b : Nat) : swapVProps p a b = Log.apply { v := [IdxOp.swap a b] } p := by
  cases p; simp only [swapVProps, Log.apply, halfOps_nil, map_runOps_nil]; rfl
theorem swapEProps_log (p : Props) (a b : Nat) : swapEProps p a b = Log.apply { e := [IdxOp.swap a b] } p := by
  cases p; simp only [swapEProps, Log.apply, halfOps_nil, map_runOps_nil]; rfl
theorem swapFProps_log (p : Props) (a b : Nat) : swapFProps p a b = Log.apply { f := [IdxOp.swap a b] } p := by
  cases p; simp only [swapFProps, Log.apply, halfOps_nil, map_runOps_nil]; rfl

/-! ### one `delete_*_core` call in immediate mode -/

theorem swapCell_shape (k : Kernel) (a b : Nat) (hab : a ≠ b) :
    (k.swapCell a b).props = swapCProps k.props a b ∧ (k.swapCell a b).cells = swapAt k.cells a b ∧
    (k.swapCell a b).edges = k.edges ∧ (k.swapCell a b).faces = k.faces ∧ (k.swapCell a b).nV = k.nV ∧
    (k.swapCell a b).deferred = k.deferred := by
  unfold swapCell; simp [hab]
theorem swapFace_shape (k : Kernel) (a b : Nat) (hab : a ≠ b) :
    (k.swapFace a b).props = swapFProps k.props a b ∧ (k.swapFace a b).faces = swapAt k.faces a b ∧
    (k.swapFace a b).edges = k.edges ∧ (k.swapFace a b).cDel = k.cDel ∧ (k.swapFace a b).nV = k.nV ∧
    (k.swapFace a b).deferred = k.deferred := by
  unfold swapFace; simp [hab]
theorem swapEdge_shape (k : Kernel) (a b : Nat) (hab : a ≠ b) :
    (k.swapEdge a b).props = swapEProps k.props a b ∧ (k.swapEdge a b).edges = swapAt k.edges a b ∧
    (k.swapEdge a b).cells = k.cells ∧ (k.swapEdge a b).fDel = k.fDel ∧ (k.swapEdge a b).nV = k.nV ∧
    (k.swapEdge a b).deferred = k.deferred := by
  unfold swapEdge; simp [hab]
theorem swapVertex_shape (k : Kernel) (a b : Nat) (hab : a ≠ b) :
    (k.swapVertex a b).props = swapVProps k.props a b ∧ (k.swapVertex a b).nV = k.nV ∧
    (k.swapVertex a b).cells = k.cells ∧ (k.swapVertex a b).faces = k.faces ∧ (k.swapVertex a b).eDel = k.eDel ∧
    (k.swapVertex a b).deferred = k.deferred := by
  unfold swapVertex; simp [hab]

theorem deleteCellCore_shape (k : Kernel) (h : Nat) (hd : k.deferred = false) :
    (k.deleteCellCore h).props = Log.apply { c := coreOps k.fast k.nC h } k.props ∧
      (k.deleteCellCore h).nV = k.nV ∧ (k.deleteCellCore h).edges = k.edges ∧ (k.deleteCellCore h).faces = k.faces ∧
      (k.deleteCellCore h).cells.length = (runOps (coreOps k.fast k.nC h) k.cells).length := by
  unfold deleteCellCore coreOps
  cases hf : k.fast
  · simp [hd, cellDeleted_log, runOps, IdxOp.run]
  · by_cases e : h = k.nC - 1
    · simp [hd, e, cellDeleted_log, swapCell, runOps, IdxOp.run]
    · have s := swapCell_shape k h (k.nC - 1) e
      simp [hd, e, s, cellDeleted_log, swapCProps_log, runOps, IdxOp.run]
      exact (Log.apply_append { c := [IdxOp.swap h (k.nC - 1)] } { c := [IdxOp.erase (k.nC - 1)] } k.props).symm

theorem deleteFaceCore_shape (k : Kernel) (h : Nat) (hd : k.deferred = false) :
    (k.deleteFaceCore h).props = Log.apply { f := coreOps k.fast k.nF h } k.props ∧
      (k.deleteFaceCore h).nV = k.nV ∧ (k.deleteFaceCore h).edges = k.edges ∧ (k.deleteFaceCore h).cDel = k.cDel ∧
      (k.deleteFaceCore h).faces.length = (runOps (coreOps k.fast k.nF h) k.faces).length := by
  unfold deleteFaceCore coreOps
  cases hf : k.fast
  · simp [hd, faceDeleted_log, runOps, IdxOp.run]
  · by_cases e : h = k.nF - 1
    · simp [hd, e, faceDeleted_log, swapFace, runOps, IdxOp.run]
    · have s := swapFace_shape k h (k.nF - 1) e
      simp [hd, e, s, faceDeleted_log, swapFProps_log, runOps, IdxOp.run]
      exact (Log.apply_append { f := [IdxOp.swap h (k.nF - 1)] } { f := [IdxOp.erase (k.nF - 1)] } k.props).symm

theorem deleteEdgeCore_shape (k : Kernel) (h : Nat) (hd : k.deferred = false) :
    (k.deleteEdgeCore h).props = Log.apply { e := coreOps k.fast k.nE h } k.props ∧
      (k.deleteEdgeCore h).nV = k.nV ∧ (k.deleteEdgeCore h).cells = k.cells ∧ (k.deleteEdgeCore h).fDel = k.fDel ∧
      (k.deleteEdgeCore h).edges.length = (runOps (coreOps k.fast k.nE h) k.edges).length := by
  unfold deleteEdgeCore coreOps
  cases hf : k.fast
  · simp [hd, edgeDeleted_log, runOps, IdxOp.run]
  · by_cases e : h = k.nE - 1
    · simp [hd, e, edgeDeleted_log, swapEdge, runOps, IdxOp.run]
    · have s := swapEdge_shape k h (k.nE - 1) e
      simp [hd, e, s, edgeDeleted_log, swapEProps_log, runOps, IdxOp.run]
      exact (Log.apply_append { e := [IdxOp.swap h (k.nE - 1)] } { e := [IdxOp.erase (k.nE - 1)] } k.props).symm

theorem deleteVertexCore_shape (k : Kernel) (h : Nat) (hd : k.deferred = false) :
    (k.deleteVertexCore h).props = Log.apply { v := coreOps k.fast k.nV h } k.props ∧
      (k.deleteVertexCore h).nV = k.nV - 1 ∧ (k.deleteVertexCore h).cells = k.cells ∧ (k.deleteVertexCore h).faces = k.faces ∧
      (k.deleteVertexCore h).eDel = k.eDel := by
  unfold deleteVertexCore coreOps
  cases hf : k.fast
  · simp [hd, vertexDeleted_log]
  · by_cases e : h = k.nV - 1
    · simp [hd, e, vertexDeleted_log, swapVertex]
    · have s := swapVertex_shape k h (k.nV - 1) e
      simp [hd, e, s, vertexDeleted_log, swapVProps_log]
      exact (Log.apply_append { v := [IdxOp.swap h (k.nV - 1)] } { v := [IdxOp.erase (k.nV - 1)] } k.props).symm

def P (k : Kernel) : Prop := k.deferred = false ∧ LenInv k

theorem deleteCellCore_trans (k : Kernel) (h : Nat) (hp : P k) (hh : h < k.nC) :
    Trans k (k.deleteCellCore h) { c := coreOps k.fast k.nC h } ∧ P (k.deleteCellCore h) := by
  obtain ⟨hd, hi⟩ := hp
  obtain ⟨a, b, c, d, e⟩ := deleteCellCore_shape k h hd
  have ok := coreOps_ok k.fast k.nC h hh
  refine ⟨⟨a, trivial, b, trivial, by show (k.deleteCellCore h).edges.length = _; rw [c]; rfl, trivial,
    by show (k.deleteCellCore h).faces.length = _; rw [d]; rfl, ok, ?_⟩, by rw [deleteCellCore_deferred]; exact hd,
    lenInv_deleteCellCore k h hi⟩
  show (k.deleteCellCore h).cells.length = _
  rw [e, runOps_length _ _ ok]; rfl

theorem deleteFaceCore_trans (k : Kernel) (h : Nat) (hp : P k) (hh : h < k.nF) :
    Trans k (k.deleteFaceCore h) { f := coreOps k.fast k.nF h } ∧ P (k.deleteFaceCore h) := by
  obtain ⟨hd, hi⟩ := hp
  obtain ⟨a, b, c, d, e⟩ := deleteFaceCore_shape k h hd
  have ok := coreOps_ok k.fast k.nF h hh
  have hi' := lenInv_deleteFaceCore k h hi
  refine ⟨⟨a, trivial, b, trivial, by show (k.deleteFaceCore h).edges.length = _; rw [c]; rfl, ok, ?_, trivial, ?_⟩,
    by rw [deleteFaceCore_deferred]; exact hd, hi'⟩
  · show (k.deleteFaceCore h).faces.length = _
    rw [e, runOps_length _ _ ok]; rfl
  · show (k.deleteFaceCore h).nC = k.nC
    rw [← hi'.cDel, d, hi.cDel]

theorem deleteEdgeCore_trans (k : Kernel) (h : Nat) (hp : P k) (hh : h < k.nE) :
    Trans k (k.deleteEdgeCore h) { e := coreOps k.fast k.nE h } ∧ P (k.deleteEdgeCore h) := by
  obtain ⟨hd, hi⟩ := hp
  obtain ⟨a, b, c, d, e⟩ := deleteEdgeCore_shape k h hd
  have ok := coreOps_ok k.fast k.nE h hh
  have hi' := lenInv_deleteEdgeCore k h hi
  refine ⟨⟨a, trivial, b, ok, ?_, trivial, ?_, trivial, by show (k.deleteEdgeCore h).cells.length = _; rw [c]; rfl⟩,
    by rw [deleteEdgeCore_deferred]; exact hd, hi'⟩
  · show (k.deleteEdgeCore h).edges.length = _
    rw [e, runOps_length _ _ ok]; rfl
  · show (k.deleteEdgeCore h).nF = k.nF
    rw [← hi'.fDel, d, hi.fDel]

theorem deleteVertexCore_trans (k : Kernel) (h : Nat) (hp : P k) (hh : h < k.nV) :
    Trans k (k.deleteVertexCore h) { v := coreOps k.fast k.nV h } ∧ P (k.deleteVertexCore h) := by
  obtain ⟨hd, hi⟩ := hp
  obtain ⟨a, b, c, d, e⟩ := deleteVertexCore_shape k h hd
  have ok := coreOps_ok k.fast k.nV h hh
  have hi' := lenInv_deleteVertexCore k h hi hh
  refine ⟨⟨a, ok, by rw [b]; exact (coreOps_len _ _ _).symm, trivial, ?_, trivial,
    by show (k.deleteVertexCore h).faces.length = _; rw [d]; rfl, trivial,
    by show (k.deleteVertexCore h).cells.length = _; rw [c]; rfl⟩,
    by rw [deleteVertexCore_deferred]; exact hd, hi'⟩
  show (k.deleteVertexCore h).nE = k.nE
  rw [← hi'.eDel, e, hi.eDel]

/-! ### the sweeps of `collect_garbage` -/

theorem sweep_exists (isDel : Kernel → Nat → Bool) (unflag core : Kernel → Nat → Kernel)
    (hstep : ∀ k i, P k → isDel k i = true → ∃ L, Trans k (core (unflag k i) i) L ∧ P (core (unflag k i) i))
    (k : Kernel) (hk : P k) (n : Nat) :
    ∃ L, Trans k (gcSweep k n isDel unflag core) L ∧ P (gcSweep k n isDel unflag core) := by
  unfold gcSweep
  generalize (List.range n).reverse = xs
  induction xs generalizing k with
  | nil => exact ⟨{}, Trans.refl k, hk⟩
  | cons x t ih =>
    simp only [List.foldl_cons]
    by_cases hx : isDel k x = true
    · obtain ⟨L1, t1, p1⟩ := hstep k x hk hx
      obtain ⟨L2, t2, p2⟩ := ih _ p1
      rw [if_pos hx]
      exact ⟨L1.append L2, t1.trans t2, p2⟩
    · rw [if_neg hx]; exact ih k hk

theorem getD_true_lt (l : List Bool) (i : Nat) (h : l.getD i false = true) : i < l.length := by
  by_cases hi : i < l.length
  · exact hi
  · simp [List.getD, List.getElem?_eq_none (Nat.le_of_not_lt hi)] at h

theorem gcCells_trans (k : Kernel) (hk : P k) : ∃ L, Trans k (gcCells k) L ∧ P (gcCells k) := by
  obtain ⟨L, t, p⟩ := sweep_exists cDeleted (fun k i => { k with cDel := k.cDel.set i false }) deleteCellCore (by
    intro k i hp hd
    have hi : i < k.nC := by rw [← hp.2.cDel]; exact getD_true_lt _ _ hd
    have p1 : P { k with cDel := k.cDel.set i false } := ⟨hp.1, lenInv_unflagC k i hp.2⟩
    obtain ⟨t2, p2⟩ := deleteCellCore_trans _ i p1 hi
    exact ⟨_, (Trans.of_same k { k with cDel := k.cDel.set i false } rfl rfl rfl rfl rfl).trans t2, p2⟩) k hk k.nC
  unfold gcCells
  exact ⟨_, t.trans (Trans.of_same _ _ rfl rfl rfl rfl rfl), p.1, lenInv_withNDelC _ 0 p.2⟩

theorem gcFaces_trans (k : Kernel) (hk : P k) : ∃ L, Trans k (gcFaces k) L ∧ P (gcFaces k) := by
  obtain ⟨L, t, p⟩ := sweep_exists fDeleted (fun k i => { k with fDel := k.fDel.set i false }) deleteFaceCore (by
    intro k i hp hd
    have hi : i < k.nF := by rw [← hp.2.fDel]; exact getD_true_lt _ _ hd
    have p1 : P { k with fDel := k.fDel.set i false } := ⟨hp.1, lenInv_unflagF k i hp.2⟩
    obtain ⟨t2, p2⟩ := deleteFaceCore_trans _ i p1 hi
    exact ⟨_, (Trans.of_same k { k with fDel := k.fDel.set i false } rfl rfl rfl rfl rfl).trans t2, p2⟩) k hk k.nF
  unfold gcFaces
  exact ⟨_, t.trans (Trans.of_same _ _ rfl rfl rfl rfl rfl), p.1, lenInv_withNDelF _ 0 p.2⟩

theorem gcEdges_trans (k : Kernel) (hk : P k) : ∃ L, Trans k (gcEdges k) L ∧ P (gcEdges k) := by
  obtain ⟨L, t, p⟩ := sweep_exists eDeleted (fun k i => { k with eDel := k.eDel.set i false }) deleteEdgeCore (by
    intro k i hp hd
    have hi : i < k.nE := by rw [← hp.2.eDel]; exact getD_true_lt _ _ hd
    have p1 : P { k with eDel := k.eDel.set i false } := ⟨hp.1, lenInv_unflagE k i hp.2⟩
    obtain ⟨t2, p2⟩ := deleteEdgeCore_trans _ i p1 hi
    exact ⟨_, (Trans.of_same k { k with eDel := k.eDel.set i false } rfl rfl rfl rfl rfl).trans t2, p2⟩) k hk k.nE
  unfold gcEdges
  exact ⟨_, t.trans (Trans.of_same _ _ rfl rfl rfl rfl rfl), p.1, lenInv_withNDelE _ 0 p.2⟩

theorem gcVerts_trans (k : Kernel) (hk : P k) : ∃ L, Trans k (gcVerts k) L ∧ P (gcVerts k) := by
  obtain ⟨L, t, p⟩ := sweep_exists vDeleted (fun k i => { k with vDel := k.vDel.set i false }) deleteVertexCore (by
    intro k i hp hd
    have hi : i < k.nV := by rw [← hp.2.vDel]; exact getD_true_lt _ _ hd
    have p1 : P { k with vDel := k.vDel.set i false } := ⟨hp.1, lenInv_unflagV k i hp.2⟩
    obtain ⟨t2, p2⟩ := deleteVertexCore_trans _ i p1 hi
    exact ⟨_, (Trans.of_same k { k with vDel := k.vDel.set i false } rfl rfl rfl rfl rfl).trans t2, p2⟩) k hk k.nV
  unfold gcVerts
  exact ⟨_, t.trans (Trans.of_same _ _ rfl rfl rfl rfl rfl), p.1, lenInv_withNDelV _ 0 p.2⟩

theorem Trans.withDeferred (k : Kernel) (b : Bool) : Trans k { k with deferred := b } {} :=
  Trans.of_same _ _ rfl rfl rfl rfl rfl

/-- `collect_garbage` changes the property storages by one sequence of single deletions per
    entity kind, each addressing an existing slot; the entity counts follow -/
theorem collectGarbage_trans (k : Kernel) (hi : LenInv k) : ∃ L, Trans k k.collectGarbage L := by
  unfold collectGarbage
  split
  · exact ⟨{}, Trans.refl k⟩
  · have p0 : P { k with deferred := false } := ⟨rfl, lenInv_withDeferred k false hi⟩
    obtain ⟨L1, t1, p1⟩ := gcCells_trans _ p0
    obtain ⟨L2, t2, p2⟩ := gcFaces_trans _ p1
    obtain ⟨L3, t3, p3⟩ := gcEdges_trans _ p2
    obtain ⟨L4, t4, p4⟩ := gcVerts_trans _ p3
    exact ⟨_, (((((Trans.withDeferred k false).trans t1).trans t2).trans t3).trans t4).trans (Trans.withDeferred _ true)⟩

/-! ### half-entity columns follow their parents side-preservingly -/

theorem half_ok (o : IdxOp) (n : Nat) (h : o.ok n) : okOps o.half (2 * n) ∧ lenOps o.half (2 * n) = 2 * o.len n := by
  cases o with
  | erase x => simp only [IdxOp.ok] at h; simp [IdxOp.half, okOps, IdxOp.ok, IdxOp.len]; omega
  | swap a b => obtain ⟨ha, hb⟩ := h; simp [IdxOp.half, okOps, IdxOp.ok, IdxOp.len]; omega

theorem fwdOps_pair (o1 o2 : IdxOp) (i : Nat) : fwdOps [o1, o2] i = (o1.fwd i).bind o2.fwd := by
  simp [fwdOps]

theorem half_fwd (o : IdxOp) (i s : Nat) (hs : s ≤ 1) :
    fwdOps o.half (2 * i + s) = (o.fwd i).map (fun m => 2 * m + s) := by
  cases o with
  | erase x =>
    simp only [IdxOp.half, fwdOps_pair, IdxOp.fwd]
    by_cases h1 : i = x
    · subst h1
      by_cases h2 : s = 1
      · subst h2; simp [IdxOp.fwd]
      · have : s = 0 := by omega
        subst this; simp [IdxOp.fwd]
    · by_cases h2 : i < x
      · have a : ¬ (2 * i + s = 2 * x + 1) := by omega
        have b : 2 * i + s < 2 * x + 1 := by omega
        have c : ¬ (2 * i + s = 2 * x) := by omega
        have d : 2 * i + s < 2 * x := by omega
        simp [h1, h2, a, b, c, d, IdxOp.fwd]
      · have a : ¬ (2 * i + s = 2 * x + 1) := by omega
        have b : ¬ (2 * i + s < 2 * x + 1) := by omega
        have c : ¬ (2 * i + s - 1 = 2 * x) := by omega
        have d : ¬ (2 * i + s - 1 < 2 * x) := by omega
        simp [h1, h2, a, b, c, d, IdxOp.fwd]
        omega
  | swap a b =>
    simp only [IdxOp.half, fwdOps_pair, IdxOp.fwd, Option.bind_some, Option.map_some]
    by_cases h1 : i = a
    · subst h1
      by_cases h2 : s = 1
      · subst h2
        have x1 : ¬ (2 * i + 1 = 2 * i) := by omega
        have x2 : ¬ (2 * i + 1 = 2 * b) := by omega
        simp [x1, x2]
      · have : s = 0 := by omega
        subst this
        have x1 : ¬ (2 * b = 2 * i + 1) := by omega
        have x2 : ¬ (2 * b = 2 * b + 1) := by omega
        simp [x1, x2]
    · by_cases h3 : i = b
      · subst h3
        by_cases h2 : s = 1
        · subst h2
          have x1 : ¬ (2 * i + 1 = 2 * a) := by omega
          have x2 : ¬ (2 * i + 1 = 2 * i) := by omega
          have x3 : ¬ (2 * i + 1 = 2 * a + 1) := by omega
          simp [x1, x2, x3, h1]
        · have : s = 0 := by omega
          subst this
          have x0 : ¬ (2 * i = 2 * a) := by omega
          have x1 : ¬ (2 * a = 2 * a + 1) := by omega
          have x2 : ¬ (2 * a = 2 * i + 1) := by omega
          simp [x0, x1, x2, h1]
      · have x0 : ¬ (2 * i + s = 2 * a) := by omega
        have x1 : ¬ (2 * i + s = 2 * b) := by omega
        by_cases h2 : s = 1
        · subst h2
          have x2 : ¬ (2 * i + 1 = 2 * a + 1) := by omega
          have x3 : ¬ (2 * i + 1 = 2 * b + 1) := by omega
          have y0 : ¬ (2 * i = 2 * a) := by omega
          have y1 : ¬ (2 * i = 2 * b) := by omega
          simp [x0, x1, x2, x3, y0, y1, h1, h3]
        · have : s = 0 := by omega
          subst this
          have x2 : ¬ (2 * i = 2 * a + 1) := by omega
          have x3 : ¬ (2 * i = 2 * b + 1) := by omega
          have y0 : ¬ (2 * i = 2 * a) := by omega
          have y1 : ¬ (2 * i = 2 * b) := by omega
          simp [y0, y1, x2, x3, h1, h3]

theorem halfOps_ok (ops : List IdxOp) (n : Nat) (h : okOps ops n) :
    okOps (halfOps ops) (2 * n) ∧ lenOps (halfOps ops) (2 * n) = 2 * lenOps ops n := by
  induction ops generalizing n with
  | nil => exact ⟨trivial, rfl⟩
  | cons o t ih =>
    obtain ⟨h1, h2⟩ := h
    obtain ⟨a, b⟩ := half_ok o n h1
    obtain ⟨c, d⟩ := ih _ h2
    rw [halfOps_cons]
    refine ⟨(okOps_append _ _ _).2 ⟨a, by rw [b]; exact c⟩, ?_⟩
    rw [lenOps_append, b, d]; rfl

theorem halfOps_fwd (ops : List IdxOp) (i s : Nat) (hs : s ≤ 1) :
    fwdOps (halfOps ops) (2 * i + s) = (fwdOps ops i).map (fun m => 2 * m + s) := by
  induction ops generalizing i with
  | nil => rfl
  | cons o t ih =>
    rw [halfOps_cons, fwdOps_append, half_fwd o i s hs, fwdOps_cons]
    cases o.fwd i with
    | none => rfl
    | some m => simpa using ih m

end OVM.Status

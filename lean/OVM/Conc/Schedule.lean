/-
  C20 — interleaving model (DESIGN §4 C20).  Core only.

  * `RProg ρ`  programs over a read-only memory:  `read loc k | ret r`
  * `Prog ρ`   programs that may also write:        `read loc k | write loc v p | ret r`
  * a pool assigns a program to every thread id (any number of threads: all but the ones in use
    hold `ret`), a schedule is an arbitrary list of thread ids (unfair, repeating, naming finished
    or unused threads — those steps stutter), one step performs one memory access of the chosen
    thread and appends it to the access log.
  * locations carry an owner: `none` = shared (the mesh), `some t` = private to thread `t`
    (its locals, its iterator/circulator objects, its result buffers).
-/
namespace OVM.Conc

abbrev Tid := Nat
abbrev Val := Int

structure Loc where
  owner : Option Tid
  addr : Nat
  deriving DecidableEq, Repr

abbrev Mem := Loc → Val

def Mem.set (m : Mem) (l : Loc) (v : Val) : Mem := fun l' => if l' = l then v else m l'

@[simp] theorem Mem.set_same (m : Mem) (l : Loc) (v : Val) : m.set l v l = v := by simp [Mem.set]
theorem Mem.set_other (m : Mem) {l l' : Loc} (v : Val) (h : l' ≠ l) : m.set l v l' = m l' := by simp [Mem.set, h]

structure Access where
  tid : Tid
  loc : Loc
  isWrite : Bool
  deriving DecidableEq, Repr

/-- two accesses conflict: same location, different threads, at least one write -/
def Conflict (a b : Access) : Prop := a.loc = b.loc ∧ a.tid ≠ b.tid ∧ (a.isWrite = true ∨ b.isWrite = true)

instance (a b : Access) : Decidable (Conflict a b) := by unfold Conflict; infer_instance

/-- no conflicting pair anywhere in the log (no synchronisation is modelled, so this is stronger
    than data-race freedom) -/
def NoConflict (log : List Access) : Prop := ∀ a ∈ log, ∀ b ∈ log, ¬ Conflict a b

def upd {α : Type} (pool : Tid → α) (t : Tid) (p : α) : Tid → α := fun u => if u = t then p else pool u

@[simp] theorem upd_same {α : Type} (pool : Tid → α) (t : Tid) (p : α) : upd pool t p t = p := by simp [upd]
theorem upd_other {α : Type} (pool : Tid → α) {t u : Tid} (p : α) (h : u ≠ t) : upd pool t p u = pool u := by simp [upd, h]

/-! ## read-only programs -/

inductive RProg (ρ : Type) where
  | ret : ρ → RProg ρ
  | read : Loc → (Val → RProg ρ) → RProg ρ

namespace RProg
variable {ρ : Type}

/-- sequential (single-threaded) result -/
def run (m : Mem) : RProg ρ → ρ
  | ret r => r
  | read l k => run m (k (m l))

def result? : RProg ρ → Option ρ
  | ret r => some r
  | read _ _ => none

structure State (ρ : Type) where
  mem : Mem
  pool : Tid → RProg ρ
  log : List Access

/-- thread `t` performs its next read (or stutters if it has finished) -/
def step (σ : State ρ) (t : Tid) : State ρ :=
  match σ.pool t with
  | ret _ => σ
  | read l k => { mem := σ.mem, pool := upd σ.pool t (k (σ.mem l)), log := σ.log ++ [⟨t, l, false⟩] }

def exec (σ : State ρ) : List Tid → State ρ
  | [] => σ
  | t :: s => exec (step σ t) s

end RProg

/-! ## programs with writes -/

inductive Prog (ρ : Type) where
  | ret : ρ → Prog ρ
  | read : Loc → (Val → Prog ρ) → Prog ρ
  | write : Loc → Val → Prog ρ → Prog ρ

namespace Prog
variable {ρ : Type}

/-- sequential run: result and final memory -/
def seq : Prog ρ → Mem → ρ × Mem
  | ret r, m => (r, m)
  | read l k, m => seq (k (m l)) m
  | write l v p, m => seq p (m.set l v)

def result? : Prog ρ → Option ρ
  | ret r => some r
  | _ => none

def bind {σ : Type} : Prog ρ → (ρ → Prog σ) → Prog σ
  | ret r, f => f r
  | read l k, f => read l (fun v => bind (k v) f)
  | write l v p, f => write l v (bind p f)

structure State (ρ : Type) where
  mem : Mem
  pool : Tid → Prog ρ
  log : List Access

def step (σ : State ρ) (t : Tid) : State ρ :=
  match σ.pool t with
  | ret _ => σ
  | read l k => { mem := σ.mem, pool := upd σ.pool t (k (σ.mem l)), log := σ.log ++ [⟨t, l, false⟩] }
  | write l v p => { mem := σ.mem.set l v, pool := upd σ.pool t p, log := σ.log ++ [⟨t, l, true⟩] }

def exec (σ : State ρ) : List Tid → State ρ
  | [] => σ
  | t :: s => exec (step σ t) s

/-- `Confined t p`: the footprint discipline for thread `t` — `p` reads only shared locations and
    its own private ones, and writes only its own private ones (no write to a shared location,
    whatever values the reads return). -/
inductive Confined (t : Tid) : Prog ρ → Prop where
  | ret (r : ρ) : Confined t (ret r)
  | read (l : Loc) (k : Val → Prog ρ) : (l.owner = none ∨ l.owner = some t) → (∀ v, Confined t (k v)) → Confined t (read l k)
  | write (l : Loc) (v : Val) (p : Prog ρ) : l.owner = some t → Confined t p → Confined t (write l v p)

/-- memories that agree on everything thread `t` may touch -/
def AgreeFor (t : Tid) (m₁ m₂ : Mem) : Prop := ∀ l : Loc, (l.owner = none ∨ l.owner = some t) → m₁ l = m₂ l

end Prog

/-- embedding of read-only programs -/
def RProg.toProg {ρ : Type} : RProg ρ → Prog ρ
  | .ret r => .ret r
  | .read l k => .read l (fun v => (k v).toProg)

end OVM.Conc

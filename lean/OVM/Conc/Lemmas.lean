/-
  C20 — invariants of the interleaving semantics (lemmas behind `OVM/Props/C20.lean`).  Core only.
-/
import OVM.Conc.Schedule

namespace OVM.Conc

/-! ## read-only model -/
namespace RProg
variable {ρ : Type}

theorem step_mem (σ : State ρ) (t : Tid) : (step σ t).mem = σ.mem := by
  unfold step; split <;> rfl

theorem step_run (σ : State ρ) (t u : Tid) : ((step σ t).pool u).run σ.mem = (σ.pool u).run σ.mem := by
  unfold step
  split
  · rfl
  · rename_i l k h
    by_cases hu : u = t
    · subst hu; simp [h, run]
    · simp [upd_other _ _ hu]

theorem step_log (σ : State ρ) (t : Tid) : ∀ a ∈ (step σ t).log, a ∈ σ.log ∨ a.isWrite = false := by
  intro a ha
  unfold step at ha
  split at ha
  · exact Or.inl ha
  · simp at ha
    rcases ha with ha | ha
    · exact Or.inl ha
    · right; subst ha; rfl

theorem exec_mem (σ : State ρ) (s : List Tid) : (exec σ s).mem = σ.mem := by
  induction s generalizing σ with
  | nil => rfl
  | cons t s ih => simp [exec, ih, step_mem]

theorem exec_run (σ : State ρ) (s : List Tid) (u : Tid) : ((exec σ s).pool u).run σ.mem = (σ.pool u).run σ.mem := by
  induction s generalizing σ with
  | nil => rfl
  | cons t s ih =>
    have := ih (step σ t)
    rw [step_mem] at this
    simp [exec, this, step_run]

theorem exec_log (σ : State ρ) (s : List Tid) : ∀ a ∈ (exec σ s).log, a ∈ σ.log ∨ a.isWrite = false := by
  induction s generalizing σ with
  | nil => intro a ha; exact Or.inl ha
  | cons t s ih =>
    intro a ha
    rcases ih (step σ t) a ha with h | h
    · exact step_log σ t a h
    · exact Or.inr h

theorem run_of_result {p : RProg ρ} {r : ρ} (h : p.result? = some r) (m : Mem) : p.run m = r := by
  cases p with
  | ret r' => simp [result?] at h; simp [run, h]
  | read l k => simp [result?] at h

end RProg

theorem noConflict_of_noWrite {log : List Access} (h : ∀ a ∈ log, a.isWrite = false) : NoConflict log := by
  intro a ha b hb hc
  rcases hc.2.2 with hw | hw
  · simp [h a ha] at hw
  · simp [h b hb] at hw

/-! ## read/write model -/
namespace Prog
variable {ρ : Type}

theorem agreeFor_refl (t : Tid) (m : Mem) : AgreeFor t m m := fun _ _ => rfl

/-- frame lemma: a confined program's sequential result depends only on the memory it may touch -/
theorem seq_congr {t : Tid} {p : Prog ρ} (hc : Confined t p) :
    ∀ {m₁ m₂ : Mem}, AgreeFor t m₁ m₂ → (p.seq m₁).1 = (p.seq m₂).1 := by
  induction hc with
  | ret r => intro m₁ m₂ _; rfl
  | read l k hl _ ih =>
    intro m₁ m₂ ha
    simp only [seq]
    rw [ha l hl]
    exact ih (m₂ l) ha
  | write l v p _ _ ih =>
    intro m₁ m₂ ha
    simp only [seq]
    apply ih
    intro l' hl'
    by_cases h : l' = l
    · subst h; simp
    · rw [Mem.set_other _ _ h, Mem.set_other _ _ h]; exact ha l' hl'

/-- a confined program leaves shared memory (and other threads' private memory) alone -/
theorem seq_frame {t : Tid} {p : Prog ρ} (hc : Confined t p) :
    ∀ (m : Mem) (l : Loc), l.owner ≠ some t → (p.seq m).2 l = m l := by
  induction hc with
  | ret r => intro m l _; rfl
  | read l k _ _ ih => intro m l' h; simp only [seq]; exact ih (m l) m l' h
  | write l v p hl _ ih =>
    intro m l' h
    simp only [seq]
    rw [ih (m.set l v) l' h]
    apply Mem.set_other
    intro e; subst e; exact h hl

theorem confined_bind {σ : Type} {t : Tid} {p : Prog ρ} {f : ρ → Prog σ}
    (hp : Confined t p) (hf : ∀ r, Confined t (f r)) : Confined t (p.bind f) := by
  induction hp with
  | ret r => exact hf r
  | read l k hl _ ih => exact Confined.read l _ hl ih
  | write l v p hl _ ih => exact Confined.write l v _ hl ih

/-- the invariant of an interleaved execution started in `(m₀, pool₀)` -/
structure Inv (m₀ : Mem) (pool₀ : Tid → Prog ρ) (σ : State ρ) : Prop where
  conf : ∀ t, Confined t (σ.pool t)
  res : ∀ t, ((σ.pool t).seq σ.mem).1 = ((pool₀ t).seq m₀).1
  shared : ∀ l : Loc, l.owner = none → σ.mem l = m₀ l
  log : ∀ a ∈ σ.log, (a.loc.owner = none ∧ a.isWrite = false) ∨ a.loc.owner = some a.tid

theorem inv_init (m₀ : Mem) (pool₀ : Tid → Prog ρ) (hc : ∀ t, Confined t (pool₀ t)) :
    Inv m₀ pool₀ ⟨m₀, pool₀, []⟩ :=
  ⟨hc, fun _ => rfl, fun _ _ => rfl, fun a ha => by simp at ha⟩

theorem inv_step {m₀ : Mem} {pool₀ : Tid → Prog ρ} {σ : State ρ} (h : Inv m₀ pool₀ σ) (u : Tid) :
    Inv m₀ pool₀ (step σ u) := by
  have hcu := h.conf u
  have hru := h.res u
  unfold step
  split
  · exact h
  · rename_i l k hp
    rw [hp] at hcu hru
    cases hcu with
    | read _ _ hl hk =>
      refine ⟨?_, ?_, h.shared, ?_⟩
      · intro t
        by_cases ht : t = u
        · subst ht; simpa using hk (σ.mem l)
        · simpa [upd_other _ _ ht] using h.conf t
      · intro t
        by_cases ht : t = u
        · subst ht; simpa [seq] using hru
        · simpa [upd_other _ _ ht] using h.res t
      · intro a ha
        simp at ha
        rcases ha with ha | ha
        · exact h.log a ha
        · subst ha
          rcases hl with hl | hl
          · exact Or.inl ⟨hl, rfl⟩
          · exact Or.inr hl
  · rename_i l v p hp
    rw [hp] at hcu hru
    cases hcu with
    | write _ _ _ hl hq =>
      refine ⟨?_, ?_, ?_, ?_⟩
      · intro t
        by_cases ht : t = u
        · subst ht; simpa using hq
        · simpa [upd_other _ _ ht] using h.conf t
      · intro t
        by_cases ht : t = u
        · subst ht; simpa [seq] using hru
        · simp only [upd_other _ _ ht]
          rw [← h.res t]
          apply seq_congr (h.conf t)
          intro l' hl'
          apply Mem.set_other
          intro e; subst e
          rcases hl' with h1 | h1
          · rw [hl] at h1; cases h1
          · rw [hl] at h1; injection h1 with h1; exact ht h1.symm
      · intro l' hl'
        rw [← h.shared l' hl']
        apply Mem.set_other
        intro e; subst e; rw [hl] at hl'; cases hl'
      · intro a ha
        simp at ha
        rcases ha with ha | ha
        · exact h.log a ha
        · subst ha; exact Or.inr hl

theorem inv_exec {m₀ : Mem} {pool₀ : Tid → Prog ρ} {σ : State ρ} (h : Inv m₀ pool₀ σ) (s : List Tid) :
    Inv m₀ pool₀ (exec σ s) := by
  induction s generalizing σ with
  | nil => exact h
  | cons t s ih => exact ih (inv_step h t)

theorem noConflict_of_inv {m₀ : Mem} {pool₀ : Tid → Prog ρ} {σ : State ρ} (h : Inv m₀ pool₀ σ) :
    NoConflict σ.log := by
  intro a ha b hb hc
  obtain ⟨hloc, htid, hw⟩ := hc
  rcases h.log a ha with ⟨ha1, ha2⟩ | ha1 <;> rcases h.log b hb with ⟨hb1, hb2⟩ | hb1
  · rcases hw with hw | hw
    · simp [ha2] at hw
    · simp [hb2] at hw
  · rw [hloc] at ha1; rw [ha1] at hb1; cases hb1
  · rw [hloc] at ha1; rw [ha1] at hb1; cases hb1
  · rw [hloc] at ha1; rw [ha1] at hb1; injection hb1 with hb1; exact htid hb1

theorem seq_of_result {p : Prog ρ} {r : ρ} (h : p.result? = some r) (m : Mem) : (p.seq m).1 = r := by
  cases p with
  | ret r' => simp [result?] at h; simp [seq, h]
  | read l k => simp [result?] at h
  | write l v q => simp [result?] at h

end Prog

/-- read-only programs all of whose reads are of shared locations -/
inductive RProg.ReadsShared {ρ : Type} : RProg ρ → Prop where
  | ret (r : ρ) : ReadsShared (.ret r)
  | read (l : Loc) (k : Val → RProg ρ) : l.owner = none → (∀ v, ReadsShared (k v)) → ReadsShared (.read l k)

theorem RProg.toProg_confined {ρ : Type} {p : RProg ρ} (h : p.ReadsShared) (t : Tid) :
    Prog.Confined t p.toProg := by
  induction h with
  | ret r => exact Prog.Confined.ret r
  | read l k hl _ ih => exact Prog.Confined.read l _ (Or.inl hl) ih

theorem RProg.toProg_seq {ρ : Type} (p : RProg ρ) (m : Mem) : p.toProg.seq m = (p.run m, m) := by
  induction p with
  | ret r => rfl
  | read l k ih => simp [RProg.toProg, Prog.seq, RProg.run, ih]

end OVM.Conc

/-
  C20 — one row of the const-API write-footprint table that `tools/t5_footprint.py` extracts
  from the OpenVolumeMesh sources (generated table: `OVM/Gen/ConstFootprint.lean`).
  Core only.
-/
namespace OVM.Conc

/-- One member function of the const API.  `writesShared` is T5's conservative syntactic verdict:
    the body (or anything it calls inside namespace OpenVolumeMesh) may write state that is not
    local to the call — a `mutable` field on a const path, something behind a `const_cast`, a
    non-const static / namespace-scope variable, the pointee of a non-const pointer it holds —
    or it hands out non-const access to such state.  `excluded` marks the property-creation /
    tracker-registration paths the property's text excludes. -/
structure Footprint where
  cls : String
  name : String
  sig : String
  isConst : Bool
  writesShared : Bool
  excluded : Bool
  via : String
  deriving Repr

/-- an entry is fine when it is excluded by the property or has an empty shared write set -/
def Footprint.ok (f : Footprint) : Bool := f.excluded || !f.writesShared

theorem Footprint.ok_iff (f : Footprint) : f.ok = true ↔ (f.excluded = false → f.writesShared = false) := by
  cases f with | mk c n s ic w e v => cases w <;> cases e <;> simp [Footprint.ok]

end OVM.Conc
